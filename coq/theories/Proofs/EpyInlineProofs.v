(* Proofs/EpyInlineProofs.v -- epytext._colorize (Model/EpyInline.v) shows well-formed inline markup as the author
   meant it (Spec/EpyMarkup.v). *)
From Coq Require Import ZArith NArith List Bool Arith Lia.
From PydoctorVerif Require Import Base.Sexp Model.FieldTypes Gen.TablesC09 Model.EpyInline Spec.EpyMarkup.
Import ListNotations.

Lemma wf1_MT : forall gt gn p u body, wf1 gt gn p (MT u body) = plain_region u && well_formed gt gn false body.
Proof.
  intros gt gn p u body. cbn [wf1]. f_equal.
  all: try (generalize false; induction body as [|x r IH]; intro q; [reflexivity|]; cbn [well_formed]; rewrite IH; reflexivity).
Qed.

Lemma wf1_MB : forall gt gn p body, wf1 gt gn p (MB body) = negb p && well_formed gt gn false body.
Proof.
  intros gt gn p body. cbn [wf1]. f_equal.
  all: try (generalize false; induction body as [|x r IH]; intro q; [reflexivity|]; cbn [well_formed]; rewrite IH; reflexivity).
Qed.

Lemma wf1_ML : forall gt gn p u label tail ws tgt,
  wf1 gt gn p (ML u label tail ws tgt) =
  link_region u && well_formed gt gn false label && ends_closed label && tail_ok tail && spaces ws && no_brace tgt && gt (link_tag u) tgt.
Proof.
  intros gt gn p u label tail ws tgt. cbn [wf1]. do 5 f_equal.
  all: try (generalize false; induction label as [|x r IH]; intro q; [reflexivity|]; cbn [well_formed]; rewrite IH; reflexivity).
Qed.

Lemma mk_size_ML : forall u body a b c, mk_size (ML u body a b c) = S (mks_size body).
Proof. intros. cbn [mk_size]. f_equal. all: try (induction body as [|x r IH]; [reflexivity|]; cbn [mks_size]; rewrite IH; reflexivity). Qed.

Lemma mk_size_MT : forall u body, mk_size (MT u body) = S (mks_size body).
Proof. intros. cbn [mk_size]. f_equal. all: try (induction body as [|x r IH]; [reflexivity|]; cbn [mks_size]; rewrite IH; reflexivity). Qed.
Lemma mk_size_MB : forall body, mk_size (MB body) = S (mks_size body).
Proof. intros. cbn [mk_size]. f_equal. all: try (induction body as [|x r IH]; [reflexivity|]; cbn [mks_size]; rewrite IH; reflexivity). Qed.

Lemma visible_push_text : forall cur kids, flat_map visible (push_text cur kids) = flat_map visible kids ++ rev cur.
Proof.
  intros cur kids. unfold push_text. destruct cur as [|c cur]; [cbn [rev]; rewrite app_nil_r; reflexivity|].
  rewrite flat_map_app. cbn [flat_map visible]. rewrite app_nil_r. reflexivity.
Qed.

Definition head_upper (cur : text) : bool := match cur with u :: _ => is_upper u | [] => false end.

Lemma upper_not_brace : forall u, is_upper u = true -> N.eqb u LB = false /\ N.eqb u RB = false.
Proof.
  intros u H. unfold is_upper in H. apply andb_true_iff in H. destruct H as [H1 H2].
  apply N.leb_le in H1. apply N.leb_le in H2. unfold LB, RB. split; apply N.eqb_neq; lia.
Qed.

Lemma no_brace_cons : forall c t, no_brace (c :: t) = true -> N.eqb c LB = false /\ N.eqb c RB = false /\ no_brace t = true.
Proof.
  intros c t H. unfold no_brace in H. cbn [forallb] in H. apply andb_true_iff in H. destruct H as [H1 H2].
  apply andb_true_iff in H1. destruct H1 as [H1 H3]. apply negb_true_iff in H1. apply negb_true_iff in H3. repeat split; assumption.
Qed.

Lemma ends_closed_cons : forall m x r, ends_closed (m :: x :: r) = ends_closed (x :: r).
Proof.
  intros m x r. unfold ends_closed. cbn [rev]. destruct (rev r ++ [x]) as [|y l] eqn:E.
  - destruct (rev r); discriminate.
  - reflexivity.
Qed.

Lemma closed_tail : forall m r (cur1 cur' : text),
  (ends_closed r = true -> cur' = match r with [] => cur1 | _ :: _ => [] end) ->
  (match m with MC _ => True | _ => cur1 = [] end) ->
  ends_closed (m :: r) = true -> cur' = [].
Proof.
  intros m r cur1 cur' H Hm Hc. destruct r as [|x r].
  - rewrite (H eq_refl). destruct m; try exact Hm. discriminate.
  - rewrite ends_closed_cons in Hc. apply (H Hc).
Qed.

Section Colorize.
  Variable target_split : text -> option (text * text).
  Variable link_target : etag -> text -> option text.
  Variable good_target : etag -> text -> bool.
  Variable good_name : etag -> text -> bool.
  (* contract of the two regular-expression oracles of _colorize_link on what `well_formed` lets through *)
  Hypothesis H_split : forall tag tail ws tgt,
    good_target tag tgt = true -> tail_ok tail = true -> spaces ws = true ->
    target_split (tail ++ ws ++ 60%N :: tgt ++ [62%N]) = Some (tail, tgt).
  Hypothesis H_target : forall tag tgt, good_target tag tgt = true -> exists tg, link_target tag tgt = Some tg.
  Hypothesis H_name : forall tag name, good_name tag name = true ->
    target_split name = None /\ exists tg, link_target tag name = Some tg.
  Notation loop := (loop target_split link_target).
  Notation well_formed := (well_formed good_target good_name).
  Notation wf1 := (wf1 good_target good_name).

  (* characters that are not braces are collected *)
  Lemma loop_plain : forall t rest pos cur stack errs, no_brace t = true ->
    loop (t ++ rest) pos cur stack errs = loop rest (pos + length t) (rev t ++ cur) stack errs.
  Proof.
    induction t as [|c t IH]; intros rest pos cur stack errs H; cbn [app length rev].
    - rewrite Nat.add_0_r. reflexivity.
    - destruct (no_brace_cons c t H) as (H1 & H2 & H3). cbn [EpyInline.loop]. rewrite H1, H2.
      rewrite IH by exact H3. rewrite <- app_assoc. cbn [app]. f_equal. lia.
  Qed.

  Lemma loop_open_lit : forall rest pos cur ttag tkids below errs, head_upper cur = false ->
    loop (LB :: rest) pos cur ((ttag, tkids) :: below) errs
    = loop rest (S pos) [] ((TgLitbrace, []) :: (ttag, push_text cur tkids) :: below) errs.
  Proof.
    intros rest pos cur ttag tkids below errs H. cbn [EpyInline.loop]. rewrite N.eqb_refl.
    destruct cur as [|u cur0]; [reflexivity|]. cbn [head_upper] in H. rewrite H. reflexivity.
  Qed.

  Definition simple_tag (tg : etag) : Prop := tg = TgCode \/ tg = TgMath \/ tg = TgItalic \/ tg = TgBold.

  Lemma plain_region_tag : forall u, plain_region u = true ->
    is_upper u = true /\ exists e, assoc_N u colorizing_tags = Some e /\ simple_tag (etag_of e).
  Proof.
    intros u H. unfold plain_region in H. destruct (assoc_N u colorizing_tags) as [[]|]; try discriminate;
      (split; [exact H|]); eexists; (split; [reflexivity|]); unfold simple_tag; cbn; auto.
  Qed.

  Lemma close_simple : forall tg kids, simple_tag tg -> close_elem target_split link_target tg kids = ([NElem tg kids], None).
  Proof. intros tg kids [-> | [-> | [-> | ->]]]; reflexivity. Qed.

  Lemma visible_simple : forall tg kids, simple_tag tg -> visible (NElem tg kids) = flat_map visible kids.
  Proof. intros tg kids [-> | [-> | [-> | ->]]]; reflexivity. Qed.

  Lemma link_region_tag : forall u, link_region u = true ->
    is_upper u = true /\ exists e, assoc_N u colorizing_tags = Some e /\ link_tag u = etag_of e /\
                                   (etag_of e = TgLink \/ etag_of e = TgUri).
  Proof.
    intros u H. unfold link_region, link_tag in *. destruct (assoc_N u colorizing_tags) as [[]|]; try discriminate;
      (split; [exact H|]); eexists; (split; [reflexivity|]); (split; [reflexivity|]); cbn; auto.
  Qed.

  Lemma last_is_text_snoc : forall kids t, last_is_text (kids ++ [NText t]) = Some (kids, t).
  Proof. intros. unfold last_is_text. rewrite rev_app_distr. cbn [rev app]. rewrite rev_involutive. reflexivity. Qed.

  Lemma push_text_rev : forall t kids, t <> [] -> push_text (rev t) kids = kids ++ [NText t].
  Proof.
    intros t kids H. unfold push_text. destruct (rev t) eqn:Er.
    - destruct t; [contradiction|]. apply (f_equal (@length N)) in Er. rewrite rev_length in Er. discriminate.
    - rewrite <- Er, rev_involutive. reflexivity.
  Qed.

  Lemma forallb_app_true : forall {X} (f : X -> bool) a b, forallb f a = true -> forallb f b = true -> forallb f (a ++ b) = true.
  Proof. intros. rewrite forallb_app. rewrite H, H0. reflexivity. Qed.

  Lemma spaces_no_brace : forall ws, spaces ws = true -> no_brace ws = true.
  Proof.
    intros ws H. unfold spaces, no_brace in *. rewrite forallb_forall in *. intros c Hc. specialize (H c Hc).
    apply N.eqb_eq in H. subst c. reflexivity.
  Qed.

  (* the main invariant: reading the written form of well-formed items leaves the stack as it was, the top frame
     extended by what the items show *)
  Lemma loop_items : forall n items, mks_size items <= n ->
    forall rest pos cur ttag tkids below errs,
      well_formed (head_upper cur) items = true ->
      exists pos' cur' kids',
        loop (show items ++ rest) pos cur ((ttag, tkids) :: below) errs = loop rest pos' cur' ((ttag, kids') :: below) errs /\
        flat_map visible kids' ++ rev cur' = flat_map visible tkids ++ rev cur ++ shown items /\
        (ends_closed items = true -> cur' = match items with [] => cur | _ :: _ => [] end).
  Proof.
    induction n as [|n IHn]; intros items Hsz rest pos cur ttag tkids below errs Hwf.
    - destruct items as [|m r]; [|destruct m; cbn [mks_size mk_size] in Hsz; lia].
      exists pos, cur, tkids. split; [reflexivity|]. split; [cbn; rewrite app_nil_r; reflexivity | intros _; reflexivity].
    - destruct items as [|m r].
      + exists pos, cur, tkids. split; [reflexivity|]. split; [cbn; rewrite app_nil_r; reflexivity | intros _; reflexivity].
      + cbn [well_formed] in Hwf. apply andb_true_iff in Hwf. destruct Hwf as [Hm Hr].
        cbn [mks_size] in Hsz. unfold show, shown. cbn [flat_map]. rewrite <- !app_assoc.
        fold (show r). fold (shown r).
        destruct m as [c | u body | body | code | name | u label tail ws tgt | u name].
        * (* a character *)
          cbn [wf1] in Hm. destruct (no_brace_cons c [] Hm) as (H1 & H2 & _).
          cbn [show1 shown1 app EpyInline.loop]. rewrite H1, H2.
          destruct (IHn r ltac:(cbn [mk_size] in Hsz; lia) rest (S pos) (c :: cur) ttag tkids below errs Hr)
            as (pos' & cur' & kids' & E1 & E2 & E5).
          exists pos', cur', kids'. split; [exact E1|]. split; [|intro Hc; eapply closed_tail; cycle 2; [exact Hc | exact E5 | exact I]]. rewrite E2. cbn [rev]. rewrite <- !app_assoc. reflexivity.
        * (* u{body} *)
          rewrite wf1_MT in Hm. apply andb_true_iff in Hm. destruct Hm as [Hu Hb].
          destruct (plain_region_tag u Hu) as (Hup & e & He & Hs). destruct (upper_not_brace u Hup) as [U1 U2].
          rewrite mk_size_MT in Hsz.
          cbn [show1 shown1 app]. rewrite <- !app_assoc. cbn [app].
          cbn [EpyInline.loop]. rewrite U1, U2. cbn [EpyInline.loop]. rewrite N.eqb_refl. rewrite Hup, He.
          destruct (IHn body ltac:(lia) (RB :: show r ++ rest) (S (S pos)) [] (etag_of e) [] ((ttag, push_text cur tkids) :: below) errs Hb)
            as (pos1 & cur1 & kids1 & E1 & E2 & _).
          fold (show body). rewrite E1.
          cbn [EpyInline.loop]. replace (N.eqb RB LB) with false by reflexivity. rewrite N.eqb_refl.
          rewrite (close_simple _ _ Hs).
          destruct (IHn r ltac:(lia) rest (S pos1) [] ttag (push_text cur tkids ++ [NElem (etag_of e) (push_text cur1 kids1)]) below errs Hr)
            as (pos' & cur' & kids' & E3 & E4 & E5).
          exists pos', cur', kids'. split; [exact E3|]. split; [|intro Hc; eapply closed_tail; cycle 2; [exact Hc | exact E5 | reflexivity]]. rewrite E4.
          rewrite flat_map_app, visible_push_text. cbn [flat_map]. rewrite (visible_simple _ _ Hs), visible_push_text, E2.
          cbn [flat_map rev app]. fold (shown body). rewrite ?app_nil_r; repeat rewrite <- app_assoc; cbn [app]; repeat rewrite <- app_assoc; cbn [app]; reflexivity.
        * (* {body} *)
          rewrite wf1_MB in Hm. apply andb_true_iff in Hm. destruct Hm as [Hp Hb]. apply negb_true_iff in Hp.
          rewrite mk_size_MB in Hsz.
          cbn [show1 shown1 app]. rewrite <- !app_assoc. cbn [app].
          fold (show body). rewrite (loop_open_lit _ _ _ _ _ _ _ Hp).
          set (pk := push_text cur tkids). assert (Hpk : flat_map visible pk = flat_map visible tkids ++ rev cur) by apply visible_push_text.
          destruct (IHn body ltac:(lia) (RB :: show r ++ rest) (S pos) [] TgLitbrace [] ((ttag, pk) :: below) errs Hb)
            as (pos1 & cur1 & kids1 & E1 & E2 & _).
          rewrite E1. cbn [EpyInline.loop]. replace (N.eqb RB LB) with false by reflexivity. rewrite N.eqb_refl.
          cbn [close_elem].
          destruct (IHn r ltac:(lia) rest (S pos1) [] ttag (pk ++ ([NText [LB]] ++ push_text cur1 kids1 ++ [NText [RB]])) below errs Hr)
            as (pos' & cur' & kids' & E3 & E4 & E5).
          exists pos', cur', kids'. split; [exact E3|]. split; [|intro Hc; eapply closed_tail; cycle 2; [exact Hc | exact E5 | reflexivity]]. rewrite E4.
          rewrite !flat_map_app, Hpk, visible_push_text, E2. cbn [flat_map visible rev app]. fold (shown body).
          rewrite ?app_nil_r; repeat rewrite <- app_assoc; cbn [app]; repeat rewrite <- app_assoc; cbn [app]; reflexivity.
        * (* E{code} *)
          cbn [wf1] in Hm. unfold valid_escape in Hm. apply andb_true_iff in Hm. destruct Hm as [Hm Hne].
          apply andb_true_iff in Hm. destruct Hm as [Hnb Hesc].
          cbn [show1 shown1 app]. rewrite <- !app_assoc. cbn [app].
          cbn [EpyInline.loop]. replace (N.eqb 69 LB) with false by reflexivity. replace (N.eqb 69 RB) with false by reflexivity.
          cbn [EpyInline.loop]. rewrite N.eqb_refl. replace (is_upper 69) with true by reflexivity.
          replace (assoc_N 69%N colorizing_tags) with (Some EEscape) by (vm_compute; reflexivity).
          rewrite (loop_plain code _ _ _ _ _ Hnb). rewrite app_nil_r.
          cbn [EpyInline.loop]. replace (N.eqb RB LB) with false by reflexivity. rewrite N.eqb_refl.
          assert (Hk : push_text (rev code) [] = [NText code]).
          { unfold push_text. destruct (rev code) eqn:Er.
            - destruct code; [discriminate|]. apply (f_equal (@length N)) in Er. rewrite rev_length in Er. discriminate.
            - rewrite <- Er, rev_involutive. reflexivity. }
          rewrite Hk. cbn [etag_of close_elem].
          assert (Hclose : exists c, escape_char code = Some c /\
                     (match assoc_text code epy_escapes with
                      | Some c0 => ([NText [c0]], None)
                      | None => match code with [_] => ([NText code], None) | _ => ([NElem TgEscape [NText code]], Some 4%N) end
                      end) = ([NText [c]], @None N)).
          { unfold escape_char in *. destruct (assoc_text code epy_escapes) as [c0|]; [exists c0; split; reflexivity|].
            destruct code as [|c1 [|c2 code]]; try discriminate. exists c1. split; reflexivity. }
          destruct Hclose as (c & Hc1 & Hc2). rewrite Hc2.
          destruct (IHn r ltac:(cbn [mk_size] in Hsz; lia) rest (S (S (S pos) + length code)) [] ttag (push_text cur tkids ++ [NText [c]]) below errs Hr)
            as (pos' & cur' & kids' & E3 & E4 & E5).
          exists pos', cur', kids'. split; [exact E3|]. split; [|intro Hc; eapply closed_tail; cycle 2; [exact Hc | exact E5 | reflexivity]]. rewrite E4, Hc1.
          rewrite flat_map_app, visible_push_text. cbn [flat_map visible rev app]. rewrite <- !app_assoc. reflexivity.
        * (* S{name} *)
          cbn [wf1] in Hm. unfold valid_symbol in Hm. apply andb_true_iff in Hm. destruct Hm as [Hm Hne].
          apply andb_true_iff in Hm. destruct Hm as [Hnb Hsym].
          cbn [show1 shown1 app]. rewrite <- !app_assoc. cbn [app].
          cbn [EpyInline.loop]. replace (N.eqb 83 LB) with false by reflexivity. replace (N.eqb 83 RB) with false by reflexivity.
          cbn [EpyInline.loop]. rewrite N.eqb_refl. replace (is_upper 83) with true by reflexivity.
          replace (assoc_N 83%N colorizing_tags) with (Some ESymbol) by (vm_compute; reflexivity).
          rewrite (loop_plain name _ _ _ _ _ Hnb). rewrite app_nil_r.
          cbn [EpyInline.loop]. replace (N.eqb RB LB) with false by reflexivity. rewrite N.eqb_refl.
          assert (Hk : push_text (rev name) [] = [NText name]).
          { unfold push_text. destruct (rev name) eqn:Er.
            - destruct name; [discriminate|]. apply (f_equal (@length N)) in Er. rewrite rev_length in Er. discriminate.
            - rewrite <- Er, rev_involutive. reflexivity. }
          rewrite Hk. cbn [etag_of close_elem].
          destruct (assoc_text name epy_symbols) as [cp|] eqn:Es; [|discriminate].
          destruct (IHn r ltac:(cbn [mk_size] in Hsz; lia) rest (S (S (S pos) + length name)) [] ttag (push_text cur tkids ++ [NElem TgSymbol [NText name]]) below errs Hr)
            as (pos' & cur' & kids' & E3 & E4 & E5).
          exists pos', cur', kids'. split; [exact E3|]. split; [|intro Hc; eapply closed_tail; cycle 2; [exact Hc | exact E5 | reflexivity]]. rewrite E4.
          rewrite flat_map_app, visible_push_text. cbn [flat_map visible]. rewrite Es. cbn [rev app]. rewrite <- !app_assoc. reflexivity.
        * (* u{label tail <tgt>} *)
          rewrite wf1_ML in Hm. repeat (apply andb_true_iff in Hm; destruct Hm as [Hm ?]).
          rename H into Hgt, H0 into Htgnb, H1 into Hws, H2 into Htail, H3 into Hcl, H4 into Hlab.
          destruct (link_region_tag u Hm) as (Hup & e & He & Hlt & Htag). destruct (upper_not_brace u Hup) as [U1 U2].
          rewrite mk_size_ML in Hsz.
          cbn [show1 shown1 app]. rewrite <- !app_assoc. cbn [app].
          cbn [EpyInline.loop]. rewrite U1, U2. cbn [EpyInline.loop]. rewrite N.eqb_refl. rewrite Hup, He.
          fold (show label). repeat rewrite <- app_assoc. cbn [app].
          destruct (IHn label ltac:(lia) (tail ++ ws ++ 60%N :: tgt ++ 62%N :: RB :: show r ++ rest) (S (S pos)) [] (etag_of e) []
                        ((ttag, push_text cur tkids) :: below) errs Hlab) as (pos1 & cur1 & kids1 & E1 & E2 & E0).
          rewrite E1.
          assert (Hc1 : cur1 = []) by (rewrite (E0 Hcl); destruct label; reflexivity). subst cur1.
          set (plain := tail ++ ws ++ 60%N :: tgt ++ [62%N]).
          assert (Hpl : no_brace plain = true).
          { unfold plain, no_brace. unfold tail_ok in Htail. apply andb_true_iff in Htail. destruct Htail as [Htail _].
            apply andb_true_iff in Htail. destruct Htail as [Htail _].
            apply forallb_app_true; [exact Htail|]. apply forallb_app_true; [apply spaces_no_brace; exact Hws|].
            cbn [forallb]. replace (negb (N.eqb 60 LB) && negb (N.eqb 60 RB)) with true by reflexivity. cbn [andb].
            apply forallb_app_true; [exact Htgnb | reflexivity]. }
          replace (tail ++ ws ++ 60%N :: tgt ++ 62%N :: RB :: show r ++ rest) with (plain ++ RB :: show r ++ rest)
            by (unfold plain; rewrite <- !app_assoc; cbn [app]; rewrite <- !app_assoc; reflexivity).
          rewrite (loop_plain plain _ _ _ _ _ Hpl). rewrite app_nil_r.
          cbn [EpyInline.loop]. replace (N.eqb RB LB) with false by reflexivity. rewrite N.eqb_refl.
          rewrite push_text_rev by (unfold plain; destruct tail; [destruct ws|]; discriminate).
          assert (Hclose : exists tg, close_elem target_split link_target (etag_of e) (kids1 ++ [NText plain])
                           = ([NElem (etag_of e) [NElem TgName (kids1 ++ [NText tail]); NElem TgTarget [NText tg]]], None)).
          { destruct (H_target _ _ Hgt) as (tg & Htg). exists tg. rewrite Hlt in *.
            destruct Htag as [Ht | Ht]; rewrite Ht in *; cbn [close_elem]; unfold colorize_link;
              rewrite last_is_text_snoc; unfold plain; rewrite (H_split _ _ _ _ Hgt Htail Hws), Htg; reflexivity. }
          destruct Hclose as (tg & Hclose). rewrite Hclose.
          destruct (IHn r ltac:(lia) rest (S (pos1 + length plain)) [] ttag
                        (push_text cur tkids ++ [NElem (etag_of e) [NElem TgName (kids1 ++ [NText tail]); NElem TgTarget [NText tg]]])
                        below errs Hr) as (pos' & cur' & kids' & E3 & E4 & E5).
          exists pos', cur', kids'. split; [exact E3|]. split; [|intro Hc; eapply closed_tail; cycle 2; [exact Hc | exact E5 | reflexivity]].
          rewrite E4. rewrite flat_map_app, visible_push_text. cbn [flat_map].
          assert (Hvis : visible (NElem (etag_of e) [NElem TgName (kids1 ++ [NText tail]); NElem TgTarget [NText tg]])
                         = flat_map visible kids1 ++ tail).
          { destruct Htag as [Ht | Ht]; rewrite Ht; cbn [visible flat_map]; rewrite flat_map_app; cbn [flat_map visible];
              rewrite ?app_nil_r; reflexivity. }
          rewrite Hvis. cbn [rev app] in E2. rewrite app_nil_r in E2. rewrite E2.
          cbn [flat_map rev app]. fold (shown label).
          rewrite ?app_nil_r; repeat rewrite <- app_assoc; cbn [app]; repeat rewrite <- app_assoc; cbn [app]; reflexivity.
        * (* u{name} *)
          cbn [wf1] in Hm. repeat (apply andb_true_iff in Hm; destruct Hm as [Hm ?]).
          rename H into Hgn, H0 into Hne, H1 into Hnb.
          destruct (link_region_tag u Hm) as (Hup & e & He & Hlt & Htag). destruct (upper_not_brace u Hup) as [U1 U2].
          cbn [show1 shown1 app]. rewrite <- !app_assoc. cbn [app].
          cbn [EpyInline.loop]. rewrite U1, U2. cbn [EpyInline.loop]. rewrite N.eqb_refl. rewrite Hup, He.
          rewrite (loop_plain name _ _ _ _ _ Hnb). rewrite app_nil_r.
          cbn [EpyInline.loop]. replace (N.eqb RB LB) with false by reflexivity. rewrite N.eqb_refl.
          rewrite push_text_rev by (destruct name; [discriminate Hne | discriminate]).
          assert (Hclose : exists tg, close_elem target_split link_target (etag_of e) ([] ++ [NText name])
                           = ([NElem (etag_of e) [NElem TgName [NText name]; NElem TgTarget [NText tg]]], None)).
          { rewrite Hlt in Hgn. destruct (H_name _ _ Hgn) as (Hsp & tg & Htg). exists tg.
            destruct Htag as [Ht | Ht]; rewrite Ht in *; cbn [close_elem]; unfold colorize_link;
              rewrite last_is_text_snoc, Hsp; cbn [app]; rewrite Htg; reflexivity. }
          destruct Hclose as (tg & Hclose). rewrite Hclose.
          destruct (IHn r ltac:(cbn [mk_size] in Hsz; lia) rest (S (S (S pos) + length name)) [] ttag
                        (push_text cur tkids ++ [NElem (etag_of e) [NElem TgName [NText name]; NElem TgTarget [NText tg]]])
                        below errs Hr) as (pos' & cur' & kids' & E3 & E4 & E5).
          exists pos', cur', kids'. split; [exact E3|]. split; [|intro Hc; eapply closed_tail; cycle 2; [exact Hc | exact E5 | reflexivity]].
          rewrite E4. rewrite flat_map_app, visible_push_text. cbn [flat_map].
          assert (Hvis : visible (NElem (etag_of e) [NElem TgName [NText name]; NElem TgTarget [NText tg]]) = name).
          { destruct Htag as [Ht | Ht]; rewrite Ht; cbn [visible flat_map]; rewrite ?app_nil_r; reflexivity. }
          rewrite Hvis. cbn [rev app].
          rewrite ?app_nil_r; repeat rewrite <- app_assoc; cbn [app]; repeat rewrite <- app_assoc; cbn [app]; reflexivity.
  Qed.

  Theorem colorize_conserves : forall items, well_formed false items = true ->
    exists tree, colorize target_split link_target (show items) = (tree, []) /\ visible tree = shown items.
  Proof.
    intros items Hwf. unfold colorize.
    destruct (loop_items (mks_size items) items (le_n _) [] 0 [] TgPara [] [] [] Hwf) as (pos' & cur' & kids' & E1 & E2 & _).
    rewrite app_nil_r in E1. rewrite E1. cbn [EpyInline.loop attach_open].
    eexists. split; [reflexivity|]. cbn [visible]. rewrite app_nil_r, visible_push_text, E2. reflexivity.
  Qed.
End Colorize.
