(* Proofs/EpyInlineProofs.v -- epytext._colorize (Model/EpyInline.v) shows well-formed inline markup as the author
   meant it (Spec/EpyMarkup.v). *)
From Coq Require Import ZArith NArith List Bool Arith Lia.
From PydoctorVerif Require Import Base.Sexp Model.FieldTypes Gen.TablesC09 Model.EpyInline Spec.EpyMarkup.
Import ListNotations.

Lemma wf1_MT : forall p u body, wf1 p (MT u body) = plain_region u && well_formed false body.
Proof.
  intros p u body. cbn [wf1]. f_equal.
  all: try (generalize false; induction body as [|x r IH]; intro q; [reflexivity|]; cbn [well_formed]; rewrite IH; reflexivity).
Qed.

Lemma wf1_MB : forall p body, wf1 p (MB body) = negb p && well_formed false body.
Proof.
  intros p body. cbn [wf1]. f_equal.
  all: try (generalize false; induction body as [|x r IH]; intro q; [reflexivity|]; cbn [well_formed]; rewrite IH; reflexivity).
Qed.

Lemma mk_size_MT : forall u body, mk_size (MT u body) = S (mks_size body).
Proof. intros. cbn [mk_size]. f_equal. all: try (induction body as [|x r IH]; [reflexivity|]; cbn [mks_size]; rewrite IH; reflexivity). Qed.
Lemma mk_size_MB : forall body, mk_size (MB body) = S (mks_size body).
Proof. intros. cbn [mk_size]. f_equal. all: try (induction body as [|x r IH]; [reflexivity|]; cbn [mks_size]; rewrite IH; reflexivity). Qed.

Lemma visible_push_text : forall cur kids, flat_map visible (push_text cur kids) = flat_map visible kids ++ rev cur.
Proof.
  intros cur kids. unfold push_text. destruct cur as [|c cur]; [cbn [rev]; rewrite app_nil_r; reflexivity|].
  rewrite flat_map_app. cbn [flat_map visible]. rewrite app_nil_r. reflexivity.
Qed.

Definition head_upper (cur : text) : bool := match cur with u :: _ => is_upper u | [] => false end.

Lemma upper_not_brace : forall u, is_upper u = true -> N.eqb u LB = false /\ N.eqb u RB = false.
Proof.
  intros u H. unfold is_upper in H. apply andb_true_iff in H. destruct H as [H1 H2].
  apply N.leb_le in H1. apply N.leb_le in H2. unfold LB, RB. split; apply N.eqb_neq; lia.
Qed.

Lemma no_brace_cons : forall c t, no_brace (c :: t) = true -> N.eqb c LB = false /\ N.eqb c RB = false /\ no_brace t = true.
Proof.
  intros c t H. unfold no_brace in H. cbn [forallb] in H. apply andb_true_iff in H. destruct H as [H1 H2].
  apply andb_true_iff in H1. destruct H1 as [H1 H3]. apply negb_true_iff in H1. apply negb_true_iff in H3. repeat split; assumption.
Qed.

Section Colorize.
  Variable target_split : text -> option (text * text).
  Variable link_target : etag -> text -> option text.
  Notation loop := (loop target_split link_target).

  (* characters that are not braces are collected *)
  Lemma loop_plain : forall t rest pos cur stack errs, no_brace t = true ->
    loop (t ++ rest) pos cur stack errs = loop rest (pos + length t) (rev t ++ cur) stack errs.
  Proof.
    induction t as [|c t IH]; intros rest pos cur stack errs H; cbn [app length rev].
    - rewrite Nat.add_0_r. reflexivity.
    - destruct (no_brace_cons c t H) as (H1 & H2 & H3). cbn [EpyInline.loop]. rewrite H1, H2.
      rewrite IH by exact H3. rewrite <- app_assoc. cbn [app]. f_equal. lia.
  Qed.

  Lemma loop_open_lit : forall rest pos cur ttag tkids below errs, head_upper cur = false ->
    loop (LB :: rest) pos cur ((ttag, tkids) :: below) errs
    = loop rest (S pos) [] ((TgLitbrace, []) :: (ttag, push_text cur tkids) :: below) errs.
  Proof.
    intros rest pos cur ttag tkids below errs H. cbn [EpyInline.loop]. rewrite N.eqb_refl.
    destruct cur as [|u cur0]; [reflexivity|]. cbn [head_upper] in H. rewrite H. reflexivity.
  Qed.

  Definition simple_tag (tg : etag) : Prop := tg = TgCode \/ tg = TgMath \/ tg = TgItalic \/ tg = TgBold.

  Lemma plain_region_tag : forall u, plain_region u = true ->
    is_upper u = true /\ exists e, assoc_N u colorizing_tags = Some e /\ simple_tag (etag_of e).
  Proof.
    intros u H. unfold plain_region in H. destruct (assoc_N u colorizing_tags) as [[]|]; try discriminate;
      (split; [exact H|]); eexists; (split; [reflexivity|]); unfold simple_tag; cbn; auto.
  Qed.

  Lemma close_simple : forall tg kids, simple_tag tg -> close_elem target_split link_target tg kids = ([NElem tg kids], None).
  Proof. intros tg kids [-> | [-> | [-> | ->]]]; reflexivity. Qed.

  Lemma visible_simple : forall tg kids, simple_tag tg -> visible (NElem tg kids) = flat_map visible kids.
  Proof. intros tg kids [-> | [-> | [-> | ->]]]; reflexivity. Qed.

  (* the main invariant: reading the written form of well-formed items leaves the stack as it was, the top frame
     extended by what the items show *)
  Lemma loop_items : forall n items, mks_size items <= n ->
    forall rest pos cur ttag tkids below errs,
      well_formed (head_upper cur) items = true ->
      exists pos' cur' kids',
        loop (show items ++ rest) pos cur ((ttag, tkids) :: below) errs = loop rest pos' cur' ((ttag, kids') :: below) errs /\
        flat_map visible kids' ++ rev cur' = flat_map visible tkids ++ rev cur ++ shown items.
  Proof.
    induction n as [|n IHn]; intros items Hsz rest pos cur ttag tkids below errs Hwf.
    - destruct items as [|m r]; [|destruct m; cbn [mks_size mk_size] in Hsz; lia].
      exists pos, cur, tkids. split; [reflexivity|]. cbn. rewrite app_nil_r. reflexivity.
    - destruct items as [|m r].
      + exists pos, cur, tkids. split; [reflexivity|]. cbn. rewrite app_nil_r. reflexivity.
      + cbn [well_formed] in Hwf. apply andb_true_iff in Hwf. destruct Hwf as [Hm Hr].
        cbn [mks_size] in Hsz. unfold show, shown. cbn [flat_map]. rewrite <- !app_assoc.
        fold (show r). fold (shown r).
        destruct m as [c | u body | body | code | name].
        * (* a character *)
          cbn [wf1] in Hm. destruct (no_brace_cons c [] Hm) as (H1 & H2 & _).
          cbn [show1 shown1 app EpyInline.loop]. rewrite H1, H2.
          destruct (IHn r ltac:(cbn [mk_size] in Hsz; lia) rest (S pos) (c :: cur) ttag tkids below errs Hr)
            as (pos' & cur' & kids' & E1 & E2).
          exists pos', cur', kids'. split; [exact E1|]. rewrite E2. cbn [rev]. rewrite <- !app_assoc. reflexivity.
        * (* u{body} *)
          rewrite wf1_MT in Hm. apply andb_true_iff in Hm. destruct Hm as [Hu Hb].
          destruct (plain_region_tag u Hu) as (Hup & e & He & Hs). destruct (upper_not_brace u Hup) as [U1 U2].
          rewrite mk_size_MT in Hsz.
          cbn [show1 shown1 app]. rewrite <- !app_assoc. cbn [app].
          cbn [EpyInline.loop]. rewrite U1, U2. cbn [EpyInline.loop]. rewrite N.eqb_refl. rewrite Hup, He.
          destruct (IHn body ltac:(lia) (RB :: show r ++ rest) (S (S pos)) [] (etag_of e) [] ((ttag, push_text cur tkids) :: below) errs Hb)
            as (pos1 & cur1 & kids1 & E1 & E2).
          fold (show body). rewrite E1.
          cbn [EpyInline.loop]. replace (N.eqb RB LB) with false by reflexivity. rewrite N.eqb_refl.
          rewrite (close_simple _ _ Hs).
          destruct (IHn r ltac:(lia) rest (S pos1) [] ttag (push_text cur tkids ++ [NElem (etag_of e) (push_text cur1 kids1)]) below errs Hr)
            as (pos' & cur' & kids' & E3 & E4).
          exists pos', cur', kids'. split; [exact E3|]. rewrite E4.
          rewrite flat_map_app, visible_push_text. cbn [flat_map]. rewrite (visible_simple _ _ Hs), visible_push_text, E2.
          cbn [flat_map rev app]. fold (shown body). rewrite ?app_nil_r; repeat rewrite <- app_assoc; cbn [app]; repeat rewrite <- app_assoc; cbn [app]; reflexivity.
        * (* {body} *)
          rewrite wf1_MB in Hm. apply andb_true_iff in Hm. destruct Hm as [Hp Hb]. apply negb_true_iff in Hp.
          rewrite mk_size_MB in Hsz.
          cbn [show1 shown1 app]. rewrite <- !app_assoc. cbn [app].
          fold (show body). rewrite (loop_open_lit _ _ _ _ _ _ _ Hp).
          set (pk := push_text cur tkids). assert (Hpk : flat_map visible pk = flat_map visible tkids ++ rev cur) by apply visible_push_text.
          destruct (IHn body ltac:(lia) (RB :: show r ++ rest) (S pos) [] TgLitbrace [] ((ttag, pk) :: below) errs Hb)
            as (pos1 & cur1 & kids1 & E1 & E2).
          rewrite E1. cbn [EpyInline.loop]. replace (N.eqb RB LB) with false by reflexivity. rewrite N.eqb_refl.
          cbn [close_elem].
          destruct (IHn r ltac:(lia) rest (S pos1) [] ttag (pk ++ ([NText [LB]] ++ push_text cur1 kids1 ++ [NText [RB]])) below errs Hr)
            as (pos' & cur' & kids' & E3 & E4).
          exists pos', cur', kids'. split; [exact E3|]. rewrite E4.
          rewrite !flat_map_app, Hpk, visible_push_text, E2. cbn [flat_map visible rev app]. fold (shown body).
          rewrite ?app_nil_r; repeat rewrite <- app_assoc; cbn [app]; repeat rewrite <- app_assoc; cbn [app]; reflexivity.
        * (* E{code} *)
          cbn [wf1] in Hm. unfold valid_escape in Hm. apply andb_true_iff in Hm. destruct Hm as [Hm Hne].
          apply andb_true_iff in Hm. destruct Hm as [Hnb Hesc].
          cbn [show1 shown1 app]. rewrite <- !app_assoc. cbn [app].
          cbn [EpyInline.loop]. replace (N.eqb 69 LB) with false by reflexivity. replace (N.eqb 69 RB) with false by reflexivity.
          cbn [EpyInline.loop]. rewrite N.eqb_refl. replace (is_upper 69) with true by reflexivity.
          replace (assoc_N 69%N colorizing_tags) with (Some EEscape) by (vm_compute; reflexivity).
          rewrite (loop_plain code _ _ _ _ _ Hnb). rewrite app_nil_r.
          cbn [EpyInline.loop]. replace (N.eqb RB LB) with false by reflexivity. rewrite N.eqb_refl.
          assert (Hk : push_text (rev code) [] = [NText code]).
          { unfold push_text. destruct (rev code) eqn:Er.
            - destruct code; [discriminate|]. apply (f_equal (@length N)) in Er. rewrite rev_length in Er. discriminate.
            - rewrite <- Er, rev_involutive. reflexivity. }
          rewrite Hk. cbn [etag_of close_elem].
          assert (Hclose : exists c, escape_char code = Some c /\
                     (match assoc_text code epy_escapes with
                      | Some c0 => ([NText [c0]], None)
                      | None => match code with [_] => ([NText code], None) | _ => ([NElem TgEscape [NText code]], Some 4%N) end
                      end) = ([NText [c]], @None N)).
          { unfold escape_char in *. destruct (assoc_text code epy_escapes) as [c0|]; [exists c0; split; reflexivity|].
            destruct code as [|c1 [|c2 code]]; try discriminate. exists c1. split; reflexivity. }
          destruct Hclose as (c & Hc1 & Hc2). rewrite Hc2.
          destruct (IHn r ltac:(cbn [mk_size] in Hsz; lia) rest (S (S (S pos) + length code)) [] ttag (push_text cur tkids ++ [NText [c]]) below errs Hr)
            as (pos' & cur' & kids' & E3 & E4).
          exists pos', cur', kids'. split; [exact E3|]. rewrite E4, Hc1.
          rewrite flat_map_app, visible_push_text. cbn [flat_map visible rev app]. rewrite <- !app_assoc. reflexivity.
        * (* S{name} *)
          cbn [wf1] in Hm. unfold valid_symbol in Hm. apply andb_true_iff in Hm. destruct Hm as [Hm Hne].
          apply andb_true_iff in Hm. destruct Hm as [Hnb Hsym].
          cbn [show1 shown1 app]. rewrite <- !app_assoc. cbn [app].
          cbn [EpyInline.loop]. replace (N.eqb 83 LB) with false by reflexivity. replace (N.eqb 83 RB) with false by reflexivity.
          cbn [EpyInline.loop]. rewrite N.eqb_refl. replace (is_upper 83) with true by reflexivity.
          replace (assoc_N 83%N colorizing_tags) with (Some ESymbol) by (vm_compute; reflexivity).
          rewrite (loop_plain name _ _ _ _ _ Hnb). rewrite app_nil_r.
          cbn [EpyInline.loop]. replace (N.eqb RB LB) with false by reflexivity. rewrite N.eqb_refl.
          assert (Hk : push_text (rev name) [] = [NText name]).
          { unfold push_text. destruct (rev name) eqn:Er.
            - destruct name; [discriminate|]. apply (f_equal (@length N)) in Er. rewrite rev_length in Er. discriminate.
            - rewrite <- Er, rev_involutive. reflexivity. }
          rewrite Hk. cbn [etag_of close_elem].
          destruct (assoc_text name epy_symbols) as [cp|] eqn:Es; [|discriminate].
          destruct (IHn r ltac:(cbn [mk_size] in Hsz; lia) rest (S (S (S pos) + length name)) [] ttag (push_text cur tkids ++ [NElem TgSymbol [NText name]]) below errs Hr)
            as (pos' & cur' & kids' & E3 & E4).
          exists pos', cur', kids'. split; [exact E3|]. rewrite E4.
          rewrite flat_map_app, visible_push_text. cbn [flat_map visible]. rewrite Es. cbn [rev app]. rewrite <- !app_assoc. reflexivity.
  Qed.

  Theorem colorize_conserves : forall items, well_formed false items = true ->
    exists tree, colorize target_split link_target (show items) = (tree, []) /\ visible tree = shown items.
  Proof.
    intros items Hwf. unfold colorize.
    destruct (loop_items (mks_size items) items (le_n _) [] 0 [] TgPara [] [] [] Hwf) as (pos' & cur' & kids' & E1 & E2).
    rewrite app_nil_r in E1. rewrite E1. cbn [EpyInline.loop attach_open].
    eexists. split; [reflexivity|]. cbn [visible]. rewrite app_nil_r, visible_push_text, E2. reflexivity.
  Qed.
End Colorize.
