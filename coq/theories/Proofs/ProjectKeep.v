(* Proofs/ProjectKeep.v -- which fields of the objects that already exist a micro-operation leaves alone,
   unconditionally (no invariant needed): the written bases and their visit-time resolution are never touched again;
   alias maps are only touched by import statements, `name = dotted.name` and reparent. *)
From Coq Require Import ZArith NArith List Bool Lia.
From PydoctorVerif Require Import Base.Sexp Model.Project Proofs.ProjectBase.
Import ListNotations.
Local Open Scope N_scope.

Section Keep.
  Context {T : Type}.
  Variable F : obj -> T.

  Definition keep (X : oid -> Prop) (s s' : state) : Prop :=
    forall x ob, objs s x = Some ob -> ~ X x -> exists ob', objs s' x = Some ob' /\ F ob' = F ob.

  Lemma keep_refl (X : oid -> Prop) s : keep X s s.
  Proof. intros x ob H _. eauto. Qed.
  Lemma keep_trans (X : oid -> Prop) a b c : keep X a b -> keep X b c -> keep X a c.
  Proof.
    intros H1 H2 x ob Hx Hn. destruct (H1 x ob Hx Hn) as (ob1 & E1 & F1). destruct (H2 x ob1 E1 Hn) as (ob2 & E2 & F2).
    exists ob2. split; [exact E2|congruence].
  Qed.
  Lemma keep_weaken (X X' : oid -> Prop) s s' : (forall x, X x -> X' x) -> keep X s s' -> keep X' s s'.
  Proof. intros Hs H x ob Hx Hn. apply (H x ob Hx). intros Hc. apply Hn, Hs, Hc. Qed.

  Lemma keep_set_all (X : oid -> Prop) s a : keep X s (set_all s a).
  Proof. intros x ob H _. exists ob. auto. Qed.
  Lemma keep_set_obj (X : oid -> Prop) s o ob : X o -> keep X s (set_obj s o ob).
  Proof.
    intros Ho x xb Hx Hn. exists xb. split; [|reflexivity]. cbn [set_obj objs].
    rewrite (oid_eqb_neq x o) by (intros ->; contradiction). exact Hx.
  Qed.
  Lemma keep_upd_obj (X : oid -> Prop) s o f : (forall ob, F (f ob) = F ob) -> keep X s (upd_obj s o f).
  Proof.
    intros Hf x xb Hx _. unfold upd_obj. destruct (objs s o) as [ob|] eqn:Eo; [|eauto].
    cbn [set_obj objs]. destruct (oid_eqb x o) eqn:E; [|eauto].
    apply oid_eqb_eq in E. subst x. rewrite Eo in Hx. inversion Hx; subst xb. eauto.
  Qed.
  Lemma keep_fold {Y} (X : oid -> Prop) (g : state -> Y -> state) l :
    (forall s y, keep X s (g s y)) -> forall s, keep X s (fold_left g l s).
  Proof.
    intros H. induction l as [|y l IH]; intros s; cbn [fold_left]; [apply keep_refl|].
    eapply keep_trans; [apply H|apply IH].
  Qed.
  Lemma keep_unregister (X : oid -> Prop) s l : keep X s (unregister s l).
  Proof. unfold unregister. apply keep_fold. intros. apply keep_set_all. Qed.
  Lemma keep_register (X : oid -> Prop) s l : keep X s (register s l).
  Proof. unfold register. apply keep_fold. intros. apply keep_set_all. Qed.

  (* the field survives a change of name / parent, of contents, of docstring *)
  Hypothesis Hnp : forall n q ob, F (with_name_parent n q ob) = F ob.
  Hypothesis Hc : forall c ob, F (with_contents c ob) = F ob.
  Hypothesis Hd : forall d ob, F (with_doc d ob) = F ob.

  Lemma keep_handle_duplicate (X : oid -> Prop) s o k n : keep X s (handle_duplicate s o k n).
  Proof.
    unfold handle_duplicate. cbv zeta. destruct (pget k (allobjs s)); [|apply keep_refl].
    eapply keep_trans; [|apply keep_set_all]. eapply keep_trans; [|apply keep_register].
    eapply keep_trans; [apply keep_unregister|]. apply keep_upd_obj. intros ob. apply Hnp.
  Qed.

  Lemma keep_add_object (X : oid -> Prop) s o ob : X o -> keep X s (add_object s o ob).
  Proof.
    intros Ho. unfold add_object. cbv zeta.
    set (s2 := match o_parent ob with Some q => _ | None => _ end).
    assert (H2 : keep X s s2).
    { subst s2. destruct (o_parent ob); [|apply keep_set_obj; exact Ho].
      eapply keep_trans; [apply keep_set_obj; exact Ho|]. apply keep_upd_obj. intros pb. apply Hc. }
    destruct (pget (full_name s2 o) (allobjs s2)) as [first|].
    - destruct (oid_eqb first o); [exact H2|eapply keep_trans; [exact H2|apply keep_handle_duplicate]].
    - eapply keep_trans; [exact H2|apply keep_set_all].
  Qed.

  (* ... and the new object itself keeps what it was created with *)
  Lemma keep_add_object_tail (X : oid -> Prop) s o ob : keep X (set_obj s o ob) (add_object s o ob).
  Proof.
    unfold add_object. cbv zeta.
    set (s2 := match o_parent ob with Some q => _ | None => _ end).
    assert (H2 : keep X (set_obj s o ob) s2).
    { subst s2. destruct (o_parent ob); [|apply keep_refl]. apply keep_upd_obj. intros pb. apply Hc. }
    destruct (pget (full_name s2 o) (allobjs s2)) as [first|].
    - destruct (oid_eqb first o); [exact H2|eapply keep_trans; [exact H2|apply keep_handle_duplicate]].
    - eapply keep_trans; [exact H2|apply keep_set_all].
  Qed.

  Definition Xmem (m i : N) (x : oid) : Prop := fst (fst x) = m /\ snd (fst x) = i /\ snd x <> 0.
  Definition Xnew (m i : N) (x : oid) : Prop := fst (fst x) = m /\ snd (fst x) = i.

  Lemma keep_add_member cls m i s j mem :
    j <> 0 -> keep (Xmem m i) s (fst (add_member cls m i (s, j) mem)) /\ snd (add_member cls m i (s, j) mem) <> 0.
  Proof.
    intros Hj. destruct mem as [[mk name] doc]. cbn [add_member].
    assert (Hx : Xmem m i (m, i, j)) by (repeat split; exact Hj).
    destruct (N.eqb mk 0); cbn [fst snd]; [split; [apply keep_add_object; exact Hx|lia]|].
    destruct (nget name (contents_of s cls)) as [ex|]; cbn [fst snd]; [|split; [apply keep_add_object; exact Hx|lia]].
    destruct (tag_of s ex) as [t|]; cbn [fst snd]; [|split; [apply keep_refl|lia]].
    destruct (N.eqb t T_ATTRIBUTE && negb (N.eqb doc 0)); cbn [fst snd]; (split; [|lia]);
      [apply keep_upd_obj; intros ob; apply Hd|apply keep_refl].
  Qed.

  Lemma keep_add_members cls m i l : forall s j,
    j <> 0 -> keep (Xmem m i) s (fst (fold_left (add_member cls m i) l (s, j))).
  Proof.
    induction l as [|mem l IH]; intros s j Hj; cbn [fold_left fst]; [apply keep_refl|].
    destruct (keep_add_member cls m i s j mem Hj) as [K Hj'].
    destruct (add_member cls m i (s, j) mem) as [s1 j1] eqn:E. cbn [fst snd] in K, Hj'.
    eapply keep_trans; [exact K|apply IH; exact Hj'].
  Qed.

  (* statements that define objects: only the new objects' fields are unknown *)
  Lemma keep_exec_def s m i st :
    match st with SClass _ _ _ _ | SFunc _ _ | SVar _ _ | SAll _ | SImportFrom _ _ _ | SImportStar _ _ => True | _ => False end ->
    keep (Xnew m i) s (exec_stmt s m i st).
  Proof.
    destruct st; intros H; try destruct H; cbn [exec_stmt]; cbv zeta; try apply keep_refl.
    - match goal with |- keep _ _ (fst (fold_left _ _ (?s1, 1))) => apply (keep_trans (Xnew m i) s s1) end;
        [apply (keep_add_object (Xnew m i)); split; reflexivity|].
      eapply keep_weaken; [|apply (keep_add_members (m, i, 0) m i members _ 1); discriminate].
      intros x (A & B & _). split; assumption.
    - apply (keep_add_object (Xnew m i)). split; reflexivity.
    - destruct (nget name (contents_of s (m, 0, 0))) as [ex|]; [|apply (keep_add_object (Xnew m i)); split; reflexivity].
      destruct (tag_of s ex) as [t|]; [|apply keep_refl].
      destruct (N.eqb t T_ATTRIBUTE && negb (N.eqb doc 0)); [apply keep_upd_obj; intros ob; apply Hd|apply keep_refl].
  Qed.

  (* with an alias-insensitive field, every statement and every import *)
  Hypothesis Ha : forall a ob, F (with_alias a ob) = F ob.

  Lemma keep_exec_stmt s m i st : keep (Xnew m i) s (exec_stmt s m i st).
  Proof.
    destruct st; try (apply keep_exec_def; exact I); cbn [exec_stmt]; cbv zeta.
    - destruct (nget target (contents_of s (m, 0, 0))); [apply keep_refl|apply keep_upd_obj; intros ob; apply Ha].
    - destruct (N.eqb asname 0); apply keep_upd_obj; intros ob; apply Ha.
  Qed.

  Lemma keep_reparent (X : oid -> Prop) s o np nn : keep X s (reparent s o np nn).
  Proof.
    unfold reparent. destruct (objs s o) as [ob|]; [|apply keep_refl]. destruct (o_parent ob); [|apply keep_refl]. cbv zeta.
    eapply keep_trans; [|apply keep_register].
    eapply keep_trans; [|apply keep_upd_obj; intros pb; apply Hc].
    eapply keep_trans; [|apply keep_upd_obj; intros pb; apply Ha].
    eapply keep_trans; [|apply keep_upd_obj; intros pb; apply Hc].
    eapply keep_trans; [|apply keep_register].
    eapply keep_trans; [apply keep_unregister|apply keep_upd_obj; intros xb; apply Hnp].
  Qed.

  Lemma keep_handle_reexport (X : oid -> Prop) s cur ex o a g : keep X s (fst (handle_reexport s cur ex o a g)).
  Proof.
    unfold handle_reexport. destruct (memN a ex); [|apply keep_refl].
    destruct (match nget o (contents_of s g) with Some c => Some c | None => resolve_name s g [o] end) as [c|]; [|apply keep_refl].
    destruct (match objs s c with Some cb => _ | None => false end); cbn [fst]; [apply keep_refl|].
    destruct (match objs s g with Some gb => _ | None => false end); cbn [fst]; [apply keep_refl|apply keep_reparent].
  Qed.

  Lemma keep_import_name (X : oid -> Prop) s m t mo o a : keep X s (import_name s m t mo o a).
  Proof.
    unfold import_name. cbv zeta. destruct mo as [g|]; [|apply keep_upd_obj; intros ob; apply Ha].
    pose proof (keep_handle_reexport X s (m, 0, 0) (exports_of s (m, 0, 0)) o a g) as H.
    destruct (handle_reexport s (m, 0, 0) (exports_of s (m, 0, 0)) o a g) as [s1 moved]. cbn [fst] in H.
    destruct moved; [exact H|eapply keep_trans; [exact H|apply keep_upd_obj; intros ob; apply Ha]].
  Qed.

  Lemma keep_import_all (X : oid -> Prop) s m g : keep X s (import_all s m g).
  Proof.
    unfold import_all. cbv zeta. apply keep_fold. intros s0 name.
    pose proof (keep_handle_reexport X s0 (m, 0, 0) (exports_of s (m, 0, 0)) name name g) as H.
    destruct (handle_reexport s0 (m, 0, 0) (exports_of s (m, 0, 0)) name name g) as [s1 moved]. cbn [fst] in H.
    destruct moved; [exact H|eapply keep_trans; [exact H|apply keep_upd_obj; intros ob; apply Ha]].
  Qed.

  Definition Xop (m : N) (op : mop) (x : oid) : Prop :=
    match op with MStmt i _ => Xnew m i x | _ => False end.

  Lemma keep_exec_op s fr op : keep (Xop (f_mod fr) op) s (fst (fst (exec_op s fr op))).
  Proof.
    destruct op; cbn [exec_op Xop].
    - cbn [fst]. apply keep_exec_stmt.
    - apply keep_refl.
    - destruct (f_modname fr); apply keep_refl.
    - destruct (f_modname fr); [|apply keep_refl]. destruct (f_modobj fr) as [mo|]; [|apply keep_refl].
      destruct (tag_of s mo) as [tg|]; [|apply keep_refl]. destruct (N.eqb tg T_PACKAGE); apply keep_refl.
    - destruct (f_modname fr); cbn [fst]; [apply keep_import_name|apply keep_refl].
    - destruct (f_modname fr); [|apply keep_refl]. destruct (f_modobj fr); cbn [fst]; [apply keep_import_all|apply keep_refl].
  Qed.
End Keep.

(* the written bases and their visit-time resolution *)
Definition FB (ob : obj) : list path * list (path * option oid) := (o_rawbases ob, o_initbases ob).

Lemma keepB_exec_op s fr op : keep FB (Xop (f_mod fr) op) s (fst (fst (exec_op s fr op))).
Proof. apply keep_exec_op; intros; reflexivity. Qed.

Lemma keepA_exec_def s m i st :
  match st with SClass _ _ _ _ | SFunc _ _ | SVar _ _ | SAll _ | SImportFrom _ _ _ | SImportStar _ _ => True | _ => False end ->
  keep o_alias (Xnew m i) s (exec_stmt s m i st).
Proof. apply keep_exec_def; intros; reflexivity. Qed.

(* the class object that a class statement creates keeps the bases it was given *)
Lemma exec_class_bases s m i name doc bases members :
  i <> 0 ->
  exists ob, objs (exec_stmt s m i (SClass name doc bases members)) (m, i, 0) = Some ob /\
             o_rawbases ob = bases /\
             o_initbases ob = map (fun b => let e := expand_name s (m, 0, 0) b in (e, class_of s (pget e (allobjs s)))) bases.
Proof.
  intros Hi. cbn [exec_stmt]. cbv zeta.
  match goal with |- context [add_object s (m, i, 0) ?x] => set (ob := x) end.
  assert (H1 : exists ob1, objs (add_object s (m, i, 0) ob) (m, i, 0) = Some ob1 /\ FB ob1 = FB ob).
  { assert (K : keep FB (fun _ => False) (set_obj s (m, i, 0) ob) (add_object s (m, i, 0) ob))
      by (apply keep_add_object_tail; intros; reflexivity).
    apply (K (m, i, 0) ob); [cbn [set_obj objs]; rewrite oid_eqb_refl; reflexivity|intros f; exact f]. }
  destruct H1 as (ob1 & E1 & F1).
  assert (K : keep FB (Xmem m i) (add_object s (m, i, 0) ob)
                   (fst (fold_left (add_member (m, i, 0) m i) members (add_object s (m, i, 0) ob, 1))))
    by (apply keep_add_members; try (intros; reflexivity); discriminate).
  destruct (K _ _ E1) as (ob2 & E2 & F2); [intros (_ & _ & Hz); apply Hz; reflexivity|].
  exists ob2. split; [exact E2|]. assert (FB ob2 = FB ob) by congruence. unfold FB in H. inversion H. auto.
Qed.


(* objects created by a definition statement start with an empty alias map *)
Section AliasNil.
  Definition alias_nil_on (X : oid -> Prop) (s : state) : Prop :=
    forall x xb, X x -> objs s x = Some xb -> o_alias xb = [].

  Lemma anil_objs X s s' : objs s' = objs s -> alias_nil_on X s -> alias_nil_on X s'.
  Proof. intros E H x xb Hx Ho. rewrite E in Ho. exact (H x xb Hx Ho). Qed.
  Lemma anil_set_all X s a : alias_nil_on X s -> alias_nil_on X (set_all s a).
  Proof. intros H x xb Hx Ho. exact (H x xb Hx Ho). Qed.
  Lemma anil_set_obj X s o ob : o_alias ob = [] -> alias_nil_on X s -> alias_nil_on X (set_obj s o ob).
  Proof.
    intros Ha H x xb Hx. cbn [set_obj objs]. destruct (oid_eqb x o); [intros E; inversion E; subst; exact Ha|apply H; exact Hx].
  Qed.
  Lemma anil_upd_obj X s o f : (forall ob, o_alias (f ob) = o_alias ob) -> alias_nil_on X s -> alias_nil_on X (upd_obj s o f).
  Proof.
    intros Hf H x xb Hx. unfold upd_obj. destruct (objs s o) as [ob|] eqn:Eo; [|apply H; exact Hx].
    cbn [set_obj objs]. destruct (oid_eqb x o) eqn:E; [|apply H; exact Hx].
    apply oid_eqb_eq in E. subst x. intros E'. inversion E'; subst xb. rewrite Hf. eapply H; eassumption.
  Qed.
  Lemma anil_fold {Y} X (g : state -> Y -> state) l :
    (forall s y, alias_nil_on X s -> alias_nil_on X (g s y)) -> forall s, alias_nil_on X s -> alias_nil_on X (fold_left g l s).
  Proof. intros H. induction l as [|y l IH]; intros s Hs; cbn [fold_left]; [exact Hs|]. apply IH, H, Hs. Qed.
  Lemma anil_unregister X s l : alias_nil_on X s -> alias_nil_on X (unregister s l).
  Proof. unfold unregister. apply anil_fold. intros. apply anil_set_all. assumption. Qed.
  Lemma anil_register X s l : alias_nil_on X s -> alias_nil_on X (register s l).
  Proof. unfold register. apply anil_fold. intros. apply anil_set_all. assumption. Qed.
  Lemma anil_handle_duplicate X s o k n : alias_nil_on X s -> alias_nil_on X (handle_duplicate s o k n).
  Proof.
    intros H. unfold handle_duplicate. cbv zeta. destruct (pget k (allobjs s)); [|exact H].
    apply anil_set_all, anil_register, anil_upd_obj; [intros; reflexivity|]. apply anil_unregister. exact H.
  Qed.
  Lemma anil_add_object X s o ob : o_alias ob = [] -> alias_nil_on X s -> alias_nil_on X (add_object s o ob).
  Proof.
    intros Ha H. unfold add_object. cbv zeta.
    set (s2 := match o_parent ob with Some q => _ | None => _ end).
    assert (H2 : alias_nil_on X s2).
    { subst s2. destruct (o_parent ob); [apply anil_upd_obj; [intros; reflexivity|]|]; apply anil_set_obj; assumption. }
    destruct (pget (full_name s2 o) (allobjs s2)) as [first|].
    - destruct (oid_eqb first o); [exact H2|apply anil_handle_duplicate; exact H2].
    - apply anil_set_all. exact H2.
  Qed.
  Lemma anil_add_member X cls m i sj mem : alias_nil_on X (fst sj) -> alias_nil_on X (fst (add_member cls m i sj mem)).
  Proof.
    destruct sj as [s j], mem as [[mk name] doc]. cbn [add_member fst]. intros H.
    destruct (N.eqb mk 0); cbn [fst]; [apply anil_add_object; [reflexivity|exact H]|].
    destruct (nget name (contents_of s cls)) as [ex|]; cbn [fst]; [|apply anil_add_object; [reflexivity|exact H]].
    destruct (tag_of s ex) as [t|]; cbn [fst]; [|exact H].
    destruct (N.eqb t T_ATTRIBUTE && negb (N.eqb doc 0)); cbn [fst]; [apply anil_upd_obj; [intros; reflexivity|exact H]|exact H].
  Qed.
  Lemma anil_add_members X cls m i l : forall sj, alias_nil_on X (fst sj) -> alias_nil_on X (fst (fold_left (add_member cls m i) l sj)).
  Proof. induction l as [|x l IH]; intros sj H; cbn [fold_left]; [exact H|]. apply IH, anil_add_member, H. Qed.

  Lemma anil_exec_def X s m i st :
    match st with SClass _ _ _ _ | SFunc _ _ | SVar _ _ | SAll _ | SImportFrom _ _ _ | SImportStar _ _ => True | _ => False end ->
    alias_nil_on X s -> alias_nil_on X (exec_stmt s m i st).
  Proof.
    destruct st; intros Hs H; try destruct Hs; cbn [exec_stmt]; cbv zeta; try exact H.
    - apply (anil_add_members X (m, i, 0) m i members (_, 1)). cbn [fst]. apply anil_add_object; [reflexivity|exact H].
    - apply anil_add_object; [reflexivity|exact H].
    - destruct (nget name (contents_of s (m, 0, 0))) as [ex|]; [|apply anil_add_object; [reflexivity|exact H]].
      destruct (tag_of s ex) as [t|]; [|exact H].
      destruct (N.eqb t T_ATTRIBUTE && negb (N.eqb doc 0)); [apply anil_upd_obj; [intros; reflexivity|exact H]|exact H].
  Qed.
End AliasNil.

Lemma anil_add_modules l : forall s k, alias_nil_on (fun _ => True) s -> alias_nil_on (fun _ => True) (add_modules s k l).
Proof.
  induction l as [|mi l IH]; intros s k Hs; cbn [add_modules]; [exact Hs|]. apply IH.
  unfold add_module. cbv zeta. destruct (m_parent mi).
  - apply anil_add_object; [reflexivity|]. eapply anil_objs; [|exact Hs]. reflexivity.
  - match goal with |- context [pget ?kk ?ll] => destruct (pget kk ll) end.
    + eapply anil_objs; [reflexivity|]. apply anil_set_obj; [reflexivity|]. eapply anil_objs; [|exact Hs]. reflexivity.
    + apply anil_set_all. eapply anil_objs; [reflexivity|]. apply anil_set_obj; [reflexivity|]. eapply anil_objs; [|exact Hs]. reflexivity.
Qed.
