(* Proofs/QnMatchIRProofs.v -- the interpretation of the body of translate() translated from the CURRENT
   pydoctor/qnmatch.py (Gen/QnMatchCode.v) is the hand-written Model/QnMatch.v : translate, for every pattern.

   Two steps:
     B. an absolute-index functional form `tabs` of the loop (index i into the whole pattern, as the source has it)
        equals the model's suffix-walking loop;                         (pure, independent of the generated code)
     A. symbolic execution of the generated body from any environment that satisfies the loop invariant performs
        one step of `tabs`.  The script does not mention the shape of the generated term: it executes it
        (cbn with a fixed list of interpreter functions), rewrites the CPython primitives into their list
        meaning, and splits on the tests it meets; the roles of the locals (tr_pat, tr_i, tr_n, tr_acc) come from
        the generated file. *)
From Coq Require Import ZArith NArith List Bool Lia Arith.
From PydoctorVerif Require Import Base.Sexp Spec.ReFrag Model.QnMatch Model.QnMatchIR Gen.QnMatchCode.
Import ListNotations.

(* ================================================================== B. absolute indices *)
Definition slice_nat (p : text) (a b : nat) : text :=
  firstn (Nat.min b (length p) - Nat.min a (length p)) (skipn (Nat.min a (length p)) p).

(* one iteration at index i where p[i] = c : the next index and the text appended *)
Definition tstep (p : text) (i : nat) (c : N) : outcome (nat * text) :=
  let i1 := S i in
  if (c =? 42)%N then
    if char_at p i1 42 then Ok (S i1, t_starstar) else Ok (i1, t_star)
  else if (c =? 63)%N then Ok (i1, t_qm)
  else if (c =? 91)%N then
    let j := i1 in
    let j := if char_at p j 33 then S j else j in
    let j := if char_at p j 93 then S j else j in
    let j := find_close (skipn j p) j in
    if (length p <=? j)%nat then Ok (i1, t_lit_lbr)
    else
      match double_bsl (slice_nat p i1 j) with
      | [] => Err PyIndexError
      | h :: tl =>
        Ok (S j, [91%N] ++ (if (h =? 33)%N then 94%N :: tl
                            else if ((h =? 94) || (h =? 91))%N then 92%N :: h :: tl
                            else h :: tl) ++ [93%N])
      end
  else Ok (i1, re_escape c).

Fixpoint tabs_loop (fuel : nat) (p : text) (i : nat) (res : text) : outcome text :=
  match fuel with
  | O => Err OutOfFuel
  | S f =>
    match nth_error p i with
    | None => Ok res
    | Some c =>
      match tstep p i c with
      | Ok (i', piece) => tabs_loop f p i' (res ++ piece)
      | Err x => Err x
      end
    end
  end.

Lemma nth_error_skipn : forall {X} (p : list X) a b, nth_error (skipn a p) b = nth_error p (a + b).
Proof.
  intros X p a. revert p. induction a as [|a IH]; intros p b; [reflexivity|].
  destruct p as [|x p]; [now destruct b|]. cbn. apply IH.
Qed.

Lemma char_at_skipn : forall p a b c, char_at (skipn a p) b c = char_at p (a + b) c.
Proof. intros. unfold char_at. now rewrite nth_error_skipn. Qed.

Lemma skipn_skipn' : forall {X} (p : list X) a b, skipn a (skipn b p) = skipn (b + a) p.
Proof.
  intros X p a b. revert p. induction b as [|b IH]; intros p; [reflexivity|].
  destruct p as [|x p]; [now destruct a|]. cbn [skipn plus]. apply IH.
Qed.

Lemma skipn_nth : forall {X} (p : list X) i c, nth_error p i = Some c -> skipn i p = c :: skipn (S i) p.
Proof.
  intros X p. induction p as [|x p IH]; intros i c H; [destruct i; discriminate|].
  destruct i as [|i]; [cbn in H; injection H as ->; reflexivity|]. cbn in *. now apply IH.
Qed.

Lemma find_close_shift : forall t a k, find_close t (a + k) = (a + find_close t k)%nat.
Proof.
  induction t as [|d t IH]; intros a k; cbn [find_close]; [reflexivity|].
  destruct (d =? c_rbr)%N; [reflexivity|]. rewrite <- IH. f_equal. lia.
Qed.

Lemma find_close_ge : forall t k, (k <= find_close t k)%nat.
Proof.
  induction t as [|d t IH]; intros k; cbn [find_close]; [lia|].
  destruct (d =? c_rbr)%N; [lia|]. specialize (IH (S k)). lia.
Qed.

Lemma nth_error_some_lt : forall {X} (p : list X) i c, nth_error p i = Some c -> (i < length p)%nat.
Proof. intros X p i c H. apply nth_error_Some. congruence. Qed.

(* one step of the model's loop on the suffix = one absolute step *)
Lemma translate_loop_step : forall f p i c res,
  nth_error p i = Some c ->
  translate_loop (S f) (skipn i p) res =
  match tstep p i c with
  | Ok (i', piece) => translate_loop f (skipn i' p) (res ++ piece)
  | Err x => Err x
  end.
Proof.
  intros f p i c res Hc. rewrite (skipn_nth p i c Hc).
  pose proof (nth_error_some_lt p i c Hc) as Hlt.
  set (r := skipn (S i) p).
  assert (CA : forall b x, char_at r b x = char_at p (S i + b) x) by (intros; apply char_at_skipn).
  cbn [translate_loop]. unfold tstep.
  change c_star with 42%N. change c_qm with 63%N. change c_lbr with 91%N. change c_bang with 33%N.
  change c_rbr with 93%N. change c_hat with 94%N. change c_bsl with 92%N.
  destruct (c =? 42)%N.
  { rewrite (CA 0%nat). rewrite Nat.add_0_r. destruct (char_at p (S i) 42); [|reflexivity].
    unfold r. rewrite skipn_skipn'. now replace (S i + 1)%nat with (S (S i)) by lia. }
  destruct (c =? 63)%N; [reflexivity|].
  destruct (c =? 91)%N; [|reflexivity].
  (* the "[" branch: relative j of the model vs absolute j *)
  rewrite (CA 0%nat), Nat.add_0_r.
  set (j1 := if char_at p (S i) 33 then 1%nat else 0%nat).
  assert (E1 : (if char_at p (S i) 33 then S (S i) else S i) = (S i + j1)%nat) by (unfold j1; destruct (char_at p (S i) 33); lia).
  rewrite E1. replace (if char_at p (S i) 33 then 1%nat else 0%nat) with j1 by reflexivity.
  rewrite (CA j1).
  set (j2 := if char_at p (S i + j1) 93 then S j1 else j1).
  assert (E2 : (if char_at p (S i + j1) 93 then S (S i + j1) else (S i + j1)%nat) = (S i + j2)%nat)
    by (unfold j2; destruct (char_at p (S i + j1) 93); lia).
  rewrite E2.
  assert (Hsk2 : skipn j2 r = skipn (S i + j2) p) by (unfold r; apply skipn_skipn').
  rewrite Hsk2.
  set (t := skipn (S i + j2) p).
  replace (find_close t (S i + j2)) with (S i + find_close t j2)%nat by (symmetry; apply find_close_shift).
  set (J := find_close t j2).
  assert (Hlen : length r = (length p - S i)%nat) by (unfold r; apply skipn_length).
  assert (Hleb : (length r <=? J)%nat = (length p <=? S i + J)%nat).
  { rewrite Hlen. destruct (Nat.leb_spec (length p - S i) J); destruct (Nat.leb_spec (length p) (S i + J)); try reflexivity; lia. }
  rewrite Hleb. destruct (Nat.leb_spec (length p) (S i + J)) as [Hge|Hltj]; [reflexivity|].
  assert (Hsl : slice_nat p (S i) (S i + J) = firstn J r).
  { unfold slice_nat. rewrite !Nat.min_l by lia. unfold r. f_equal. lia. }
  rewrite Hsl. destruct (double_bsl (firstn J r)) as [|h tl]; [reflexivity|].
  assert (Hsk : skipn (S J) r = skipn (S (S i + J)) p).
  { unfold r. rewrite skipn_skipn'. f_equal. lia. }
  rewrite Hsk. destruct (h =? 33)%N; [reflexivity|]. destruct ((h =? 94) || (h =? 91))%N; reflexivity.
Qed.

Lemma translate_loop_tabs : forall f p i res, (i <= length p)%nat ->
  translate_loop f (skipn i p) res = tabs_loop f p i res.
Proof.
  induction f as [|f IH]; intros p i res Hi; [reflexivity|].
  cbn [tabs_loop]. destruct (nth_error p i) as [c|] eqn:Hc.
  - rewrite (translate_loop_step f p i c res Hc).
    destruct (tstep p i c) as [[i' piece]|x] eqn:Ht; [|reflexivity].
    destruct (Nat.le_gt_cases i' (length p)) as [Hle|Hgt]; [now apply IH|].
    (* past the end: both loops stop at once *)
    rewrite skipn_all2 by lia. destruct f as [|f']; [reflexivity|]. cbn [translate_loop tabs_loop].
    assert (Hn : nth_error p i' = None) by (apply nth_error_None; lia). now rewrite Hn.
  - apply nth_error_None in Hc. rewrite skipn_all2 by lia. reflexivity.
Qed.

Theorem translate_is_tabs : forall p,
  translate p = bind (tabs_loop (S (length p)) p 0 []) (fun res => Ok (t_prefix ++ res ++ t_suffix)).
Proof. intros p. unfold translate. rewrite <- (translate_loop_tabs (S (length p)) p 0 []) by lia. reflexivity. Qed.

(* ================================================================== A. the CPython primitives on list terms *)
Local Open Scope Z_scope.

Lemma zs : forall a, Z.of_nat a + 1 = Z.of_nat (S a).
Proof. intros. lia. Qed.

Lemma zs2 : forall a, Z.of_nat a + 2 = Z.of_nat (S (S a)).
Proof. intros. lia. Qed.

Lemma ltb_nat_0 : forall a, (Z.of_nat a <? 0) = false.
Proof. intros. apply Z.ltb_ge. lia. Qed.

Lemma ltb_m1_0 : (-1 <? 0) = true.
Proof. reflexivity. Qed.

Lemma ltb_nat : forall a b, (Z.of_nat a <? Z.of_nat b) = (a <? b)%nat.
Proof. intros. destruct (Z.ltb_spec (Z.of_nat a) (Z.of_nat b)); destruct (Nat.ltb_spec a b); try reflexivity; lia. Qed.

Lemma leb_nat : forall a b, (Z.of_nat a <=? Z.of_nat b) = (a <=? b)%nat.
Proof. intros. destruct (Z.leb_spec (Z.of_nat a) (Z.of_nat b)); destruct (Nat.leb_spec a b); try reflexivity; lia. Qed.

Lemma eqb_m1 : forall a, (Z.of_nat a =? -1) = false.
Proof. intros. apply Z.eqb_neq. lia. Qed.

Lemma ltb_len : forall (p : text) a,
  (a <? length p)%nat = match nth_error p a with Some _ => true | None => false end.
Proof.
  intros p a. destruct (nth_error p a) eqn:E.
  - apply Nat.ltb_lt. apply nth_error_Some. congruence.
  - apply Nat.ltb_ge. now apply nth_error_None.
Qed.

Lemma py_index_nat : forall p a,
  py_index p (Z.of_nat a) = match nth_error p a with Some c => Ok (VStr [c]) | None => Err PyIndexError end.
Proof.
  intros p a. unfold py_index, zlen.
  assert (H0 : (Z.of_nat a <? 0) = false) by (apply Z.ltb_ge; lia).
  rewrite H0. cbv iota. rewrite H0. cbn [orb].
  rewrite leb_nat, Nat2Z.id. destruct (nth_error p a) eqn:E.
  - replace (length p <=? a)%nat with false; [reflexivity|]. symmetry. apply Nat.leb_gt. apply nth_error_Some. congruence.
  - destruct (length p <=? a)%nat; reflexivity.
Qed.

Lemma clamp_nat : forall p a, clamp p (Z.of_nat a) = Nat.min a (length p).
Proof.
  intros p a. unfold clamp, zlen.
  assert (H0 : (Z.of_nat a <? 0) = false) by (apply Z.ltb_ge; lia).
  rewrite H0. cbv iota. rewrite H0.
  rewrite ltb_nat, Nat2Z.id. destruct (Nat.ltb_spec (length p) a); lia.
Qed.

Lemma py_slice_nat : forall p a b, py_slice p (Some (Z.of_nat a)) (Some (Z.of_nat b)) = slice_nat p a b.
Proof. intros. unfold py_slice, slice_nat. now rewrite !clamp_nat. Qed.

Lemma py_slice_tail : forall h tl, py_slice (h :: tl) (Some 1) None = tl.
Proof.
  intros h tl. unfold py_slice. change 1 with (Z.of_nat 1). rewrite clamp_nat. cbn [length].
  replace (Nat.min 1 (S (length tl))) with 1%nat by lia. cbn [skipn]. replace (S (length tl) - 1)%nat with (length tl) by lia.
  apply firstn_all.
Qed.

Lemma py_index_0 : forall s, py_index s 0 = match s with [] => Err PyIndexError | h :: _ => Ok (VStr [h]) end.
Proof. intros s. change 0 with (Z.of_nat 0). rewrite py_index_nat. destruct s; reflexivity. Qed.

Lemma py_startswith_char : forall p x a, py_startswith p [x] (Z.of_nat a) = char_at p a x.
Proof.
  intros p x a. unfold py_startswith, char_at, zlen. rewrite ltb_nat, clamp_nat.
  destruct (Nat.ltb_spec (length p) a) as [H|H].
  - assert (E : nth_error p a = None) by (apply nth_error_None; lia). now rewrite E.
  - rewrite Nat.min_l by lia. destruct (nth_error p a) as [d|] eqn:E.
    + rewrite (skipn_nth p a d E). cbn. now rewrite andb_true_r, N.eqb_sym.
    + apply nth_error_None in E. rewrite skipn_all2 by lia. reflexivity.
Qed.

Lemma py_startswith_2 : forall p x y a,
  py_startswith p [x; y] (Z.of_nat a) = char_at p a x && char_at p (S a) y.
Proof.
  intros p x y a. unfold py_startswith, char_at, zlen. rewrite ltb_nat, clamp_nat.
  destruct (Nat.ltb_spec (length p) a) as [H|H].
  - assert (E : nth_error p a = None) by (apply nth_error_None; lia). now rewrite E.
  - rewrite Nat.min_l by lia. destruct (nth_error p a) as [d|] eqn:E.
    + rewrite (skipn_nth p a d E). cbn [is_prefix]. rewrite (N.eqb_sym x d). f_equal.
      destruct (nth_error p (S a)) as [d'|] eqn:E'.
      * rewrite (skipn_nth p (S a) d' E'). cbn. now rewrite andb_true_r, N.eqb_sym.
      * apply nth_error_None in E'. rewrite skipn_all2 by lia. reflexivity.
    + apply nth_error_None in E. rewrite skipn_all2 by lia. reflexivity.
Qed.

Lemma find_char_close : forall t k,
  find_char 93 t k = if (length t + k <=? find_close t k)%nat then None else Some (find_close t k).
Proof.
  induction t as [|d t IH]; intros k; cbn [find_char find_close length].
  - now rewrite Nat.leb_refl.
  - change c_rbr with 93%N. destruct (d =? 93)%N.
    + replace (S (length t) + k <=? k)%nat with false; [reflexivity|]. symmetry. apply Nat.leb_gt. lia.
    + rewrite IH. now replace (S (length t) + k)%nat with (length t + S k)%nat by lia.
Qed.

Lemma py_find_rbr : forall p a,
  py_find p 93 (Z.of_nat a) =
  if (length p <=? find_close (skipn a p) a)%nat then -1 else Z.of_nat (find_close (skipn a p) a).
Proof.
  intros p a. unfold py_find, zlen. rewrite ltb_nat, clamp_nat.
  destruct (Nat.ltb_spec (length p) a) as [H|H].
  - rewrite skipn_all2 by lia. cbn [find_close]. replace (length p <=? a)%nat with true; [reflexivity|].
    symmetry. apply Nat.leb_le. lia.
  - rewrite Nat.min_l by lia. rewrite find_char_close. rewrite skipn_length.
    replace (length p - a + a)%nat with (length p) by lia.
    destruct (length p <=? find_close (skipn a p) a)%nat; reflexivity.
Qed.

Lemma py_replace_bsl : forall s, py_replace s 92 [92%N; 92%N] = double_bsl s.
Proof.
  induction s as [|c r IH]; [reflexivity|]. unfold py_replace in *. cbn [flat_map double_bsl].
  change c_bsl with 92%N. rewrite IH. destruct (c =? 92)%N eqn:E; [|reflexivity].
  apply N.eqb_eq in E. now subst c.
Qed.

Lemma py_re_escape_1 : forall c, py_re_escape [c] = re_escape c.
Proof. intros c. unfold py_re_escape. cbn. apply app_nil_r. Qed.

Lemma py_join_nil : forall l, py_join [] l = concat l.
Proof.
  induction l as [|a r IH]; [reflexivity|]. cbn [py_join concat]. destruct r as [|b r']; [cbn; now rewrite app_nil_r|].
  rewrite IH. reflexivity.
Qed.

Lemma text_eqb_1 : forall c d, text_eqb [c] [d] = (c =? d)%N.
Proof. intros. cbn. apply andb_true_r. Qed.

(* ================================================================== A. symbolic execution *)
(* `while j < n and pat[j] != ']': j = j+1`, stated on the meaning of its test and body (whatever their text is):
   E0 is the environment at loop entry, only vj changes. *)
Lemma scan_loop_sem : forall (p : text) (vj : var) (cond : env -> outcome bool) (body : env -> result) (E0 : env),
  (forall E j, (forall v, v <> vj -> E v = E0 v) -> E vj = Some (VInt (Z.of_nat j)) ->
     cond E = Ok (match nth_error p j with Some d => negb (d =? 93)%N | None => false end)) ->
  (forall E j, (forall v, v <> vj -> E v = E0 v) -> E vj = Some (VInt (Z.of_nat j)) ->
     exists E', body E = RNormal E' /\ E' vj = Some (VInt (Z.of_nat (S j))) /\ (forall v, v <> vj -> E' v = E v)) ->
  forall k E j, (forall v, v <> vj -> E v = E0 v) -> E vj = Some (VInt (Z.of_nat j)) -> (length p - j < k)%nat ->
  exists E', while_loop cond body k E = RNormal E' /\
             E' vj = Some (VInt (Z.of_nat (find_close (skipn j p) j))) /\ (forall v, v <> vj -> E' v = E0 v).
Proof.
  intros p vj cond body E0 Hc Hb. induction k as [|k IH]; intros E j HF Hj Hk; [lia|].
  cbn [while_loop]. rewrite (Hc E j HF Hj).
  destruct (nth_error p j) as [d|] eqn:Ed.
  - rewrite (skipn_nth p j d Ed). cbn [find_close]. change c_rbr with 93%N.
    destruct (d =? 93)%N; cbn [negb].
    + exists E. repeat split; assumption.
    + destruct (Hb E j HF Hj) as (E' & -> & Hj' & HF').
      apply (IH E' (S j)); [intros v Hv; rewrite HF' by assumption; now apply HF|assumption|].
      apply nth_error_some_lt in Ed. lia.
  - apply nth_error_None in Ed. rewrite skipn_all2 by lia. cbn [find_close]. exists E. repeat split; assumption.
Qed.

Lemma set_lookup : forall e x v y, set e x v y = if N.eqb x y then Some v else e y.
Proof. reflexivity. Qed.

(* one step of the statement interpreter; `while` is left folded (see `scan`) *)
Lemma exec_skip : forall f e, exec SSkip f e = RNormal e. Proof. reflexivity. Qed.
Lemma exec_seq : forall a b f e, exec (SSeq a b) f e = match exec a f e with RNormal e' => exec b f e' | r => r end.
Proof. reflexivity. Qed.
Lemma exec_assign : forall x a f e, exec (SAssign x a) f e = match eval e a with Ok v => RNormal (set e x v) | Err z => RErr z end.
Proof. reflexivity. Qed.
Lemma exec_append : forall x a f e, exec (SAppend x a) f e =
  match e x with
  | Some (VList l) => match eval e a with Ok (VStr s) => RNormal (set e x (VList (l ++ [s]))) | Ok _ => RErr Unsupported | Err z => RErr z end
  | _ => RErr Unsupported
  end.
Proof. reflexivity. Qed.
Lemma exec_if : forall c th el f e, exec (SIf c th el) f e =
  match eval_bool e c with Ok true => exec th f e | Ok false => exec el f e | Err z => RErr z end.
Proof. reflexivity. Qed.
Lemma exec_return : forall a f e, exec (SReturn a) f e = match eval e a with Ok v => RReturn v | Err z => RErr z end.
Proof. reflexivity. Qed.

Ltac sx := repeat first [ rewrite exec_seq | rewrite exec_assign | rewrite exec_append | rewrite exec_if
                        | rewrite exec_return | rewrite exec_skip ];
           cbv beta iota delta [eval bind as_str as_int as_bool as_char eval_bool stuck cmp_int existsb
                                py_format text_eqb];
           cbn [N.eqb Pos.eqb negb orb andb].

Ltac prim := repeat first
  [ rewrite zs | rewrite zs2 | rewrite ltb_nat_0 | rewrite ltb_m1_0 | rewrite ltb_nat | rewrite leb_nat | rewrite eqb_m1 | rewrite ltb_len | rewrite py_index_nat
  | rewrite py_slice_nat | rewrite py_slice_tail | rewrite py_index_0 | rewrite py_startswith_char | rewrite py_startswith_2
  | rewrite py_find_rbr | rewrite py_replace_bsl | rewrite py_re_escape_1 | rewrite andb_true_r
  | rewrite orb_false_r | rewrite py_join_nil | progress unfold zlen | progress unfold char_at ].

(* resolve a variable lookup from what is known about the environment *)
Ltac lk1 :=
  match goal with
  | H : ?E ?v = Some _ |- context [?E ?v] => rewrite H
  | H : nth_error ?q ?a = None |- context [nth_error ?q ?a] => rewrite H
  | H : forall v, v <> ?vj -> ?E v = _ |- context [?E ?w] => is_var E; rewrite (H w) by (intro; discriminate)
  end.

(* a test that was decided earlier *)
Ltac known :=
  match goal with
  | H : (?x =? ?k)%N = _ |- context [(?x =? ?k)%N] => rewrite H
  | H : (?a <=? ?b)%nat = _ |- context [(?a <=? ?b)%nat] => rewrite H
  end.

Ltac lkstep := first [ rewrite set_lookup; cbn [N.eqb Pos.eqb] | lk1 | known ].
Ltac run := repeat (sx; prim; repeat lkstep).

(* an impossible case *)
Ltac contra :=
  match goal with
  | H : Some _ = None |- _ => discriminate H
  | H : None = Some _ |- _ => discriminate H
  | H : true = false |- _ => discriminate H
  | H : false = true |- _ => discriminate H
  | H1 : (?x =? ?a)%N = true, H2 : (?x =? ?b)%N = true |- _ =>
    apply N.eqb_eq in H1; apply N.eqb_eq in H2; rewrite H1 in H2; discriminate H2
  end.

(* case analysis on what execution is stuck on *)
Ltac dchar p :=
  match goal with
  | |- context [nth_error p ?a] =>
    lazymatch a with context [nth_error] => fail | context [if _ then _ else _] => fail | _ => idtac end;
    let d := fresh "d" in destruct (nth_error p a) as [d|] eqn:?
  end.
Ltac dtest :=
  match goal with |- context [(?x =? ?k)%N] => is_var x; destruct (x =? k)%N eqn:? end.
Ltac dleb p :=
  match goal with
  | |- context [(length p <=? ?J)%nat] =>
    lazymatch J with context [if _ then _ else _] => fail | _ => idtac end;
    destruct (length p <=? J)%nat eqn:?
  end.
Ltac dstuff :=
  match goal with
  | |- context [double_bsl ?s] =>
    lazymatch s with context [if _ then _ else _] => fail | _ => idtac end;
    destruct (double_bsl s) as [|? ?] eqn:?
  end.

(* `while j < n and pat[j] != ']': j = j+1` met during execution: replace it by what it computes *)
Ltac scan p :=
  match goal with
  | |- context [exec (SWhile ?c0 (SAssign ?vj ?a)) ?f ?E0] =>
    let c := constr:(fun e' : env => eval_bool e' c0) in
    let k := f in
    change (exec (SWhile c0 (SAssign vj a)) f E0) with (while_loop c (exec (SAssign vj a) f) f E0);
    let Hcnd := fresh "Hcnd" in let Hbd := fresh "Hbd" in let J0 := fresh "J0" in let HE0 := fresh "HE0" in
    let E' := fresh "E" in let HW := fresh "HW" in let Hj := fresh "Hj" in let HF := fresh "HF" in
    assert (Hcnd : forall E j, (forall v, v <> vj -> E v = E0 v) -> E vj = Some (VInt (Z.of_nat j)) ->
                   c E = Ok (match nth_error p j with Some d => negb (d =? 93)%N | None => false end))
      by (intros ? ? ? ?; run; repeat (dchar p; run); reflexivity);
    assert (Hbd : forall E j, (forall v, v <> vj -> E v = E0 v) -> E vj = Some (VInt (Z.of_nat j)) ->
                  exists E', exec (SAssign vj a) f E = RNormal E' /\ E' vj = Some (VInt (Z.of_nat (S j))) /\
                             (forall v, v <> vj -> E' v = E v))
      by (intros ? ? ? ?; run; eexists; split; [reflexivity|]; split; [run; reflexivity|];
          let v := fresh "v" in let Hv := fresh "Hv" in intros v Hv; rewrite set_lookup;
          destruct (N.eqb_spec vj v); [congruence|reflexivity]);
    evar (J0 : nat);
    assert (HE0 : E0 vj = Some (VInt (Z.of_nat J0))) by (subst J0; run; reflexivity);
    destruct (scan_loop_sem p vj c (exec (SAssign vj a) f) E0 Hcnd Hbd k E0 J0 (fun v _ => eq_refl) HE0) as (E' & HW & Hj & HF);
    [subst J0; lia|];
    rewrite HW; subst J0; clear HW Hcnd Hbd HE0
  end.

Section Translate.
  Variable p : text.

  Definition acc_holds (e : env) (acc : text) : Prop :=
    match tr_acc with
    | AccStr v => e v = Some (VStr acc)
    | AccList v => exists l, e v = Some (VList l) /\ concat l = acc
    end.
  Definition n_holds (e : env) : Prop :=
    match tr_n with Some v => e v = Some (VInt (Z.of_nat (length p))) | None => True end.
  Definition Inv (e : env) (i : nat) (acc : text) : Prop :=
    e tr_pat = Some (VStr p) /\ e tr_i = Some (VInt (Z.of_nat i)) /\ n_holds e /\ acc_holds e acc.

  Lemma cond_step : forall e i acc, Inv e i acc ->
    eval_bool e tr_cond = Ok (match nth_error p i with Some _ => true | None => false end).
  Proof.
    intros e i acc (Hp & Hi & Hn & Ha). unfold n_holds, tr_n, tr_pat, tr_i, tr_cond in *.
    run. reflexivity.
  Qed.

  Ltac finish_acc :=
    first [ reflexivity
          | repeat rewrite <- app_assoc; reflexivity
          | eexists; split; [run; reflexivity|]; rewrite concat_app; cbn [concat]; rewrite ?app_nil_r;
            repeat rewrite <- app_assoc; reflexivity ].
  Ltac finish :=
    first [ reflexivity
          | eexists; split; [reflexivity|]; split; [run; reflexivity|]; split; [run; reflexivity|];
            split; [run; try reflexivity|run; finish_acc] ].

  (* one iteration of the generated loop body = one step of the absolute-index loop *)
  Lemma body_step : forall e i acc c fuel, Inv e i acc -> nth_error p i = Some c -> (length p < fuel)%nat ->
    match tstep p i c with
    | Ok (i', piece) => exists e', exec tr_body fuel e = RNormal e' /\ Inv e' i' (acc ++ piece)
    | Err x => exec tr_body fuel e = RErr x
    end.
  Proof.
    intros e i acc c fuel (Hp & Hi & Hn & Ha) Hc Hfuel.
    unfold Inv, n_holds, acc_holds, tr_n, tr_acc, tr_pat, tr_i, tr_body, tstep in *.
    try (destruct Ha as (l & Ha & Hl); subst acc).
    run.
    (* the three tests of the model on c first (they keep the model side small); then whatever execution meets *)
    destruct (c =? 42)%N eqn:E42; [|destruct (c =? 63)%N eqn:E63; [|destruct (c =? 91)%N eqn:E91]].
    all: cbv zeta; repeat (run; try contra; first [dchar p | dtest | scan p | dleb p | dstuff]).
    all: try contra; run; finish.
  Qed.

  (* the whole loop *)
  Lemma loop_run : forall fuel k e i acc, Inv e i acc -> (length p < fuel)%nat ->
    match tabs_loop k p i acc with
    | Ok res => exists e' i', while_loop (fun e0 => eval_bool e0 tr_cond) (exec tr_body fuel) k e = RNormal e' /\
                              Inv e' i' res
    | Err x => while_loop (fun e0 => eval_bool e0 tr_cond) (exec tr_body fuel) k e = RErr x
    end.
  Proof.
    intros fuel. induction k as [|k IH]; intros e i acc HI Hf; [reflexivity|].
    cbn [tabs_loop while_loop]. rewrite (cond_step e i acc HI).
    destruct (nth_error p i) as [c|] eqn:Hc.
    - pose proof (body_step e i acc c fuel HI Hc Hf) as HB.
      destruct (tstep p i c) as [[i' piece]|x].
      + destruct HB as (e' & -> & HI'). apply IH; assumption.
      + now rewrite HB.
    - exists e, i. split; [reflexivity|assumption].
  Qed.

  Theorem run_translate_eq : run_translate translate_code p = translate p.
  Proof.
    rewrite translate_is_tabs. unfold run_translate, call_str, translate_code. cbn [f_body f_param].
    rewrite exec_seq.
    assert (HP : exists e1, exec tr_prelude (S (length p)) (set env0 0%N (VStr p)) = RNormal e1 /\ Inv e1 0 []).
    { unfold tr_prelude, Inv, n_holds, acc_holds, tr_n, tr_acc, tr_pat, tr_i, env0. run.
      eexists. split; [reflexivity|]. split; [run; reflexivity|]. split; [run; reflexivity|].
      split; [run; try reflexivity|]. run. first [reflexivity | exists []; split; [run; reflexivity|reflexivity]]. }
    destruct HP as (e1 & -> & HI1). rewrite exec_seq.
    change (exec (SWhile tr_cond tr_body) (S (length p)) e1)
      with (while_loop (fun e0 => eval_bool e0 tr_cond) (exec tr_body (S (length p))) (S (length p)) e1).
    pose proof (loop_run (S (length p)) (S (length p)) e1 0%nat [] HI1 (Nat.lt_succ_diag_r _)) as HL.
    destruct (tabs_loop (S (length p)) p 0 []) as [res|x].
    - destruct HL as (e' & i' & -> & (Hp & Hi & Hn & Ha)).
      unfold n_holds, acc_holds, tr_n, tr_acc, tr_pat, tr_i, tr_ret in *.
      try (destruct Ha as (l & Ha & Hl); subst res).
      run. reflexivity.
    - rewrite HL. reflexivity.
  Qed.
End Translate.
