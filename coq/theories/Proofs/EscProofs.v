(* Proofs/EscProofs.v -- lemmas for C10: escaping round trips, flatten reads back. *)
From Coq Require Import ZArith NArith List Bool Lia Arith.
From PydoctorVerif Require Import Base.Sexp Gen.TablesC10 Model.Stan Spec.Xml Spec.StanXml.
Import ListNotations.
Local Open Scope N_scope.

(* ------------------------------------------------------------------ boolean / N helpers *)
Ltac nb :=
  repeat match goal with
  | H : _ && _ = true |- _ => apply andb_true_iff in H; destruct H
  | H : _ || _ = false |- _ => apply orb_false_iff in H; destruct H
  | H : negb _ = true |- _ => apply negb_true_iff in H
  | H : negb _ = false |- _ => apply negb_false_iff in H
  | H : (_ =? _) = true |- _ => apply N.eqb_eq in H
  | H : (_ =? _) = false |- _ => apply N.eqb_neq in H
  | H : (_ <=? _) = true |- _ => apply N.leb_le in H
  | H : (_ <=? _) = false |- _ => apply N.leb_gt in H
  | H : (_ <? _) = true |- _ => apply N.ltb_lt in H
  | H : (_ <? _) = false |- _ => apply N.ltb_ge in H
  end.

(* decide a boolean N-comparison goal from Prop facts *)
Ltac nsolve :=
  unfold between, not_char in *;
  repeat match goal with
  | |- _ && _ = true => apply andb_true_iff; split
  | |- _ || _ = false => apply orb_false_iff; split
  | |- negb _ = true => apply negb_true_iff
  | |- negb _ = false => apply negb_false_iff
  | |- (_ =? _) = true => apply N.eqb_eq
  | |- (_ =? _) = false => apply N.eqb_neq
  | |- (_ <=? _) = true => apply N.leb_le
  | |- (_ <=? _) = false => apply N.leb_gt
  | |- (_ <? _) = true => apply N.ltb_lt
  | |- (_ <? _) = false => apply N.ltb_ge
  end; try lia.

Ltac len := repeat first [progress rewrite app_length in * | progress cbn [length] in *]; try lia.

Lemma eqb_false_of_neq : forall a b : N, a <> b -> (a =? b) = false.
Proof. intros a b H. apply N.eqb_neq. exact H. Qed.

(* ------------------------------------------------------------------ lists *)
Lemma flat_map_flat_map : forall {X Y Z} (f : Y -> list Z) (g : X -> list Y) (l : list X),
  flat_map f (flat_map g l) = flat_map (fun x => flat_map f (g x)) l.
Proof.
  intros X Y Z f g l. induction l as [|x l IH]; simpl; [reflexivity|].
  rewrite flat_map_app, IH. reflexivity.
Qed.

Lemma flat_map_single : forall {X} (l : list X), flat_map (fun c => [c]) l = l.
Proof. intros X l. induction l as [|x l IH]; simpl; [reflexivity|]. rewrite IH. reflexivity. Qed.

Lemma not_in_flat_map : forall {X Y} (f : X -> list Y) (y : Y) (l : list X),
  (forall x, ~ In y (f x)) -> ~ In y (flat_map f l).
Proof.
  intros X Y f y l H Hin. apply in_flat_map in Hin. destruct Hin as [x [_ Hx]]. exact (H x Hx).
Qed.

(* ------------------------------------------------------------------ the escapers as character maps *)
Definition amp : text := [38; 97; 109; 112; 59].
Definition lt : text := [38; 108; 116; 59].
Definition gt : text := [38; 103; 116; 59].
Definition quot : text := [38; 113; 117; 111; 116; 59].

Definition esc_c (c : N) : text :=
  if c =? 38 then amp else if c =? 60 then lt else if c =? 62 then gt else [c].

Definition esc_a (c : N) : text :=
  if c =? 34 then quot else esc_c c.

Lemma escape_content_map : forall t, escape_content t = flat_map esc_c t.
Proof.
  intro t. unfold escape_content, replace_chain, content_escapes. simpl fold_left.
  unfold replace1. rewrite !flat_map_flat_map. apply flat_map_ext. intro c.
  unfold esc_c.
  destruct (c =? 38) eqn:E38.
  - reflexivity.
  - simpl. destruct (c =? 60) eqn:E60.
    + reflexivity.
    + simpl. destruct (c =? 62) eqn:E62; reflexivity.
Qed.

Lemma escape_attr_map : forall t, escape_attr t = flat_map esc_a t.
Proof.
  intro t. unfold escape_attr, replace_chain, attr_extra_escapes. simpl fold_left.
  rewrite escape_content_map. unfold replace1. rewrite flat_map_flat_map. apply flat_map_ext. intro c.
  unfold esc_a, esc_c.
  destruct (c =? 34) eqn:E34.
  - apply N.eqb_eq in E34. subst c. reflexivity.
  - destruct (c =? 38) eqn:E38; [reflexivity|].
    destruct (c =? 60) eqn:E60; [reflexivity|].
    destruct (c =? 62) eqn:E62; [reflexivity|].
    simpl. rewrite E34. reflexivity.
Qed.

Lemma escape_content_app : forall a b, escape_content (a ++ b) = escape_content a ++ escape_content b.
Proof. intros. rewrite !escape_content_map. apply flat_map_app. Qed.

(* ------------------------------------------------------------------ shape of the escaped forms *)
Lemma esc_c_no : forall c x, (x = 60 \/ x = 62) -> ~ In x (esc_c c).
Proof.
  intros c x Hx. unfold esc_c.
  destruct (c =? 38) eqn:E38; [ simpl; intuition (subst; discriminate) |].
  destruct (c =? 60) eqn:E60; [ simpl; intuition (subst; discriminate) |].
  destruct (c =? 62) eqn:E62; [ simpl; intuition (subst; discriminate) |].
  nb. simpl. intros [H|[]]. destruct Hx; congruence.
Qed.

Lemma esc_a_no : forall c x, (x = 60 \/ x = 62 \/ x = 34) -> ~ In x (esc_a c).
Proof.
  intros c x Hx. unfold esc_a.
  destruct (c =? 34) eqn:E34; [ simpl; intuition (subst; discriminate) |].
  destruct Hx as [Hx|[Hx|Hx]].
  - apply esc_c_no. auto.
  - apply esc_c_no. auto.
  - subst x. unfold esc_c.
    destruct (c =? 38) eqn:E38; [ simpl; intuition discriminate |].
    destruct (c =? 60) eqn:E60; [ simpl; intuition discriminate |].
    destruct (c =? 62) eqn:E62; [ simpl; intuition discriminate |].
    nb. simpl. intros [H|[]]. congruence.
Qed.

Lemma escape_content_no_markup : forall t, ~ In 60 (escape_content t) /\ ~ In 62 (escape_content t).
Proof.
  intro t. rewrite escape_content_map. split; apply not_in_flat_map; intro c; apply esc_c_no; auto.
Qed.

Lemma escape_attr_no_markup : forall t,
  ~ In 60 (escape_attr t) /\ ~ In 62 (escape_attr t) /\ ~ In 34 (escape_attr t).
Proof.
  intro t. rewrite escape_attr_map. repeat split; apply not_in_flat_map; intro c; apply esc_a_no; auto.
Qed.

(* every piece is either one ordinary character or one of the emitted entities *)
Definition content_piece (p : text) : Prop :=
  (exists c, p = [c] /\ c <> 38 /\ c <> 60 /\ c <> 62) \/ p = amp \/ p = lt \/ p = gt.
Definition attr_piece (p : text) : Prop :=
  (exists c, p = [c] /\ c <> 38 /\ c <> 60 /\ c <> 62 /\ c <> 34) \/ p = amp \/ p = lt \/ p = gt \/ p = quot.

Lemma esc_c_piece : forall c, content_piece (esc_c c).
Proof.
  intro c. unfold content_piece, esc_c.
  destruct (c =? 38) eqn:E38; [auto|].
  destruct (c =? 60) eqn:E60; [auto|].
  destruct (c =? 62) eqn:E62; [auto 6|].
  nb. left. exists c. auto.
Qed.

Lemma esc_a_piece : forall c, attr_piece (esc_a c).
Proof.
  intro c. unfold attr_piece, esc_a.
  destruct (c =? 34) eqn:E34; [auto 8|].
  unfold esc_c.
  destruct (c =? 38) eqn:E38; [auto|].
  destruct (c =? 60) eqn:E60; [auto|].
  destruct (c =? 62) eqn:E62; [auto 6|].
  nb. left. exists c. auto.
Qed.

Lemma flat_map_concat : forall {X Y} (f : X -> list Y) l, flat_map f l = concat (map f l).
Proof. intros. induction l as [|x l IH]; simpl; [reflexivity|]. rewrite IH. reflexivity. Qed.

Lemma escape_content_pieces : forall t,
  exists pieces, escape_content t = concat pieces /\ Forall content_piece pieces /\ length pieces = length t.
Proof.
  intro t. exists (map esc_c t). rewrite escape_content_map. split; [apply flat_map_concat|]. split.
  - apply Forall_forall. intros p Hp. apply in_map_iff in Hp. destruct Hp as [c [<- _]]. apply esc_c_piece.
  - apply map_length.
Qed.

Lemma escape_attr_pieces : forall t,
  exists pieces, escape_attr t = concat pieces /\ Forall attr_piece pieces /\ length pieces = length t.
Proof.
  intro t. exists (map esc_a t). rewrite escape_attr_map. split; [apply flat_map_concat|]. split.
  - apply Forall_forall. intros p Hp. apply in_map_iff in Hp. destruct Hp as [c [<- _]]. apply esc_a_piece.
  - apply map_length.
Qed.

(* ------------------------------------------------------------------ unescape inverts the escapers *)
Definition opt_cons (c : N) (o : option text) : option text :=
  match o with Some t => Some (c :: t) | None => None end.

Lemma unesc_plain : forall c rest, (c =? 38) = false -> (c =? 60) = false -> xml_char c = true ->
  unesc None (c :: rest) = opt_cons c (unesc None rest).
Proof. intros c rest H1 H2 H3. simpl. rewrite H1, H2, H3. reflexivity. Qed.

Lemma unesc_esc_c : forall c rest, xml_char c = true ->
  unesc None (esc_c c ++ rest) = opt_cons c (unesc None rest).
Proof.
  intros c rest Hc. unfold esc_c.
  destruct (c =? 38) eqn:E38; [apply N.eqb_eq in E38; subst c; reflexivity|].
  destruct (c =? 60) eqn:E60; [apply N.eqb_eq in E60; subst c; reflexivity|].
  destruct (c =? 62) eqn:E62; [apply N.eqb_eq in E62; subst c; reflexivity|].
  apply unesc_plain; assumption.
Qed.

Lemma unesc_esc_a : forall c rest, xml_char c = true ->
  unesc None (esc_a c ++ rest) = opt_cons c (unesc None rest).
Proof.
  intros c rest Hc. unfold esc_a.
  destruct (c =? 34) eqn:E34; [apply N.eqb_eq in E34; subst c; reflexivity|].
  apply unesc_esc_c. exact Hc.
Qed.

Lemma unesc_flat_map : forall (f : N -> text),
  (forall c rest, xml_char c = true -> unesc None (f c ++ rest) = opt_cons c (unesc None rest)) ->
  forall t rest, forallb xml_char t = true ->
  unesc None (flat_map f t ++ rest) = match unesc None rest with Some r => Some (t ++ r) | None => None end.
Proof.
  intros f Hf t. induction t as [|c t IH]; intros rest Ht; simpl.
  - destruct (unesc None rest); reflexivity.
  - simpl in Ht. nb. rewrite <- app_assoc, Hf by assumption. rewrite IH by assumption.
    destruct (unesc None rest); reflexivity.
Qed.

Lemma unescape_escape_content : forall t, forallb xml_char t = true -> unescape (escape_content t) = Some t.
Proof.
  intros t Ht. unfold unescape. rewrite escape_content_map.
  rewrite <- (app_nil_r (flat_map esc_c t)). rewrite (unesc_flat_map esc_c unesc_esc_c) by assumption.
  simpl. rewrite app_nil_r. reflexivity.
Qed.

Lemma unescape_escape_attr : forall t, forallb xml_char t = true -> unescape (escape_attr t) = Some t.
Proof.
  intros t Ht. unfold unescape. rewrite escape_attr_map.
  rewrite <- (app_nil_r (flat_map esc_a t)). rewrite (unesc_flat_map esc_a unesc_esc_a) by assumption.
  simpl. rewrite app_nil_r. reflexivity.
Qed.

(* characters that are not XML Chars pass through both escapers untouched, and the reader refuses them *)
Lemma esc_c_illegal : forall c, xml_char c = false -> esc_c c = [c] /\ esc_a c = [c].
Proof.
  intros c Hc. unfold esc_a, esc_c.
  destruct (c =? 34) eqn:E34; [apply N.eqb_eq in E34; subst c; discriminate|].
  destruct (c =? 38) eqn:E38; [apply N.eqb_eq in E38; subst c; discriminate|].
  destruct (c =? 60) eqn:E60; [apply N.eqb_eq in E60; subst c; discriminate|].
  destruct (c =? 62) eqn:E62; [apply N.eqb_eq in E62; subst c; discriminate|].
  auto.
Qed.

(* ------------------------------------------------------------------ lexical lemmas about the reader *)
Definition head_fails (p : N -> bool) (s : text) : Prop :=
  match s with [] => True | c :: _ => p c = false end.

Lemma span_app : forall p a b, forallb p a = true -> head_fails p b -> span p (a ++ b) = (a, b).
Proof.
  intros p a. induction a as [|c a IH]; intros b Ha Hb; simpl.
  - destruct b as [|d b]; [reflexivity|]. simpl in Hb. simpl. rewrite Hb. reflexivity.
  - simpl in Ha. nb. rewrite H. rewrite IH by assumption. reflexivity.
Qed.

Lemma text_eqb_refl : forall a, text_eqb a a = true.
Proof. induction a as [|c a IH]; simpl; [reflexivity|]. rewrite N.eqb_refl, IH. reflexivity. Qed.

Lemma text_eqb_eq : forall a b, text_eqb a b = true -> a = b.
Proof.
  induction a as [|c a IH]; intros [|d b] H; simpl in H; try discriminate; [reflexivity|].
  nb. subst. f_equal. apply IH. assumption.
Qed.

Lemma strip_prefix_app : forall p r, strip_prefix p (p ++ r) = Some r.
Proof. induction p as [|x p IH]; intro r; simpl; [reflexivity|]. rewrite N.eqb_refl. apply IH. Qed.

Lemma starts_with_app : forall p r, starts_with p (p ++ r) = true.
Proof. intros. unfold starts_with. rewrite strip_prefix_app. reflexivity. Qed.

Lemma starts_with_head_false : forall x p c s, (x =? c) = false -> starts_with (x :: p) (c :: s) = false.
Proof. intros x p c s H. unfold starts_with. simpl. rewrite H. reflexivity. Qed.

Lemma strip_prefix_head_false : forall x p c s, (x =? c) = false -> strip_prefix (x :: p) (c :: s) = None.
Proof. intros x p c s H. simpl. rewrite H. reflexivity. Qed.

Lemma starts_with_cons : forall x p s, starts_with (x :: p) s = true ->
  exists s', s = x :: s' /\ starts_with p s' = true.
Proof.
  intros x p s H. unfold starts_with in H. destruct s as [|y s]; simpl in H; [discriminate|].
  destruct (x =? y) eqn:E; [|discriminate]. nb. subst y. exists s. split; [reflexivity|].
  unfold starts_with. exact H.
Qed.

Lemma name_start_range : forall c, name_start c = true -> (65 <= c <= 90) \/ (97 <= c <= 122) \/ c = 95.
Proof.
  intros c H. unfold name_start, between in H.
  apply orb_true_iff in H. destruct H as [H|H]; [apply orb_true_iff in H; destruct H as [H|H]|]; nb; lia.
Qed.

Lemma name_start_char : forall c, name_start c = true -> name_char c = true.
Proof. intros c H. unfold name_char. rewrite H. reflexivity. Qed.

Lemma is_name_cons : forall n, is_name n = true ->
  exists c r, n = c :: r /\ name_start c = true /\ forallb name_char r = true.
Proof. intros [|c r] H; simpl in H; [discriminate|]. nb. eauto. Qed.

Lemma read_name_app : forall n rest, is_name n = true -> head_fails name_char rest ->
  read_name (n ++ rest) = Some (n, rest).
Proof.
  intros n rest Hn Hr. destruct (is_name_cons n Hn) as [c [r [-> [Hc Hrr]]]].
  simpl. rewrite Hc. rewrite span_app by assumption. reflexivity.
Qed.

Lemma skip_space_head : forall c r, is_space c = false -> skip_space (c :: r) = c :: r.
Proof. intros c r H. unfold skip_space. simpl. rewrite H. reflexivity. Qed.

Lemma forallb_not_char : forall q s, ~ In q s -> forallb (not_char q) s = true.
Proof.
  intros q s. induction s as [|c s IH]; intro H; simpl; [reflexivity|].
  apply andb_true_iff. split.
  - unfold not_char. apply negb_true_iff. apply N.eqb_neq. intro E. apply H. left. exact E.
  - apply IH. intro Hin. apply H. right. exact Hin.
Qed.

Lemma cdata_end_has_gt : forall s, starts_with cdata_end s = true -> In 62 s.
Proof.
  intros s H. unfold cdata_end in H.
  apply starts_with_cons in H. destruct H as [s1 [-> H]].
  apply starts_with_cons in H. destruct H as [s2 [-> H]].
  apply starts_with_cons in H. destruct H as [s3 [-> H]].
  simpl. auto.
Qed.

Lemma no_gt_no_cdata_end : forall s, ~ In 62 s -> has_cdata_end s = false.
Proof.
  induction s as [|c s IH]; intro H; [reflexivity|].
  cbn [has_cdata_end]. apply orb_false_iff. split.
  - destruct (starts_with cdata_end (c :: s)) eqn:E; [|reflexivity].
    exfalso. apply H. apply cdata_end_has_gt. exact E.
  - apply IH. intro Hin. apply H. right. exact Hin.
Qed.

Lemma char_data_escape : forall t, forallb xml_char t = true -> char_data (flat_map esc_c t) = Some t.
Proof.
  intros t Ht. unfold char_data. rewrite no_gt_no_cdata_end.
  - rewrite <- escape_content_map. apply unescape_escape_content. exact Ht.
  - apply not_in_flat_map. intro c. apply esc_c_no. auto.
Qed.

(* ------------------------------------------------------------------ attributes read back *)
Lemma flatten_attr_app : forall k v X,
  flatten_attr (k, v) ++ X = 32 :: k ++ 61 :: 34 :: escape_attr v ++ 34 :: X.
Proof. intros. unfold flatten_attr. simpl. rewrite <- !app_assoc. simpl. rewrite <- !app_assoc. reflexivity. Qed.

Definition tag_end (e : text) : Prop := starts_with [62] e = true \/ starts_with [47; 62] e = true.

Lemma tag_end_head : forall e, tag_end e -> head_fails is_space e /\ head_fails name_char e.
Proof.
  intros e [H|H]; apply starts_with_cons in H; destruct H as [s [-> _]]; simpl; split; reflexivity.
Qed.

Lemma has_key_nodup : forall k v rest, nodup_keys ((k, v) :: rest) = true -> has_key k rest = false.
Proof. intros k v rest H. simpl in H. nb. assumption. Qed.

Lemma read_attrs_pp : forall attrs fuel ws e,
  forallb wf_attr attrs = true -> nodup_keys attrs = true ->
  forallb is_space ws = true -> tag_end e ->
  (length (flat_map flatten_attr attrs ++ ws ++ e) < fuel)%nat ->
  read_attrs fuel (flat_map flatten_attr attrs ++ ws ++ e) = Some (attrs, e).
Proof.
  induction attrs as [|[k v] attrs IH]; intros fuel ws e Hwf Hnd Hws He Hfuel.
  - destruct fuel as [|f]; [inversion Hfuel|].
    destruct (tag_end_head e He) as [Hsp _].
    simpl flat_map. simpl app. cbn [read_attrs].
    rewrite span_app by assumption.
    destruct He as [He|He]; rewrite He; [reflexivity|]. rewrite orb_true_r. reflexivity.
  - destruct fuel as [|f]; [inversion Hfuel|].
    simpl in Hwf. apply andb_true_iff in Hwf. destruct Hwf as [Hkv Hwf].
    unfold wf_attr in Hkv. simpl in Hkv. apply andb_true_iff in Hkv. destruct Hkv as [Hk Hv].
    destruct (is_name_cons k Hk) as [c [kr [Ek [Hc Hkr]]]].
    pose proof (name_start_range c Hc) as Hrange.
    change (flat_map flatten_attr ((k, v) :: attrs)) with (flatten_attr (k, v) ++ flat_map flatten_attr attrs).
    rewrite <- app_assoc. rewrite flatten_attr_app.
    cbn [read_attrs].
    change (32 :: k ++ 61 :: 34 :: escape_attr v ++ 34 :: flat_map flatten_attr attrs ++ ws ++ e)
      with ([32] ++ (k ++ 61 :: 34 :: escape_attr v ++ 34 :: flat_map flatten_attr attrs ++ ws ++ e)).
    rewrite span_app; [| reflexivity | subst k; simpl; unfold is_space; nsolve ].
    assert (Hsw : starts_with [62] (k ++ 61 :: 34 :: escape_attr v ++ 34 :: flat_map flatten_attr attrs ++ ws ++ e)
                  || starts_with [47; 62] (k ++ 61 :: 34 :: escape_attr v ++ 34 :: flat_map flatten_attr attrs ++ ws ++ e) = false).
    { subst k. simpl app. rewrite !starts_with_head_false by nsolve. reflexivity. }
    rewrite Hsw.
    rewrite read_name_app; [| assumption | simpl; reflexivity ].
    rewrite skip_space_head by reflexivity.
    change (61 :: 34 :: escape_attr v ++ 34 :: flat_map flatten_attr attrs ++ ws ++ e)
      with ([61] ++ (34 :: escape_attr v ++ 34 :: flat_map flatten_attr attrs ++ ws ++ e)).
    rewrite strip_prefix_app.
    rewrite skip_space_head by reflexivity.
    change ((34 =? 34) || (34 =? 39)) with true. cbv iota.
    destruct (escape_attr_no_markup v) as [_ [_ Hq]].
    rewrite span_app; [| apply forallb_not_char; exact Hq | simpl; reflexivity ].
    rewrite unescape_escape_attr by assumption.
    rewrite IH; try assumption.
    + rewrite (has_key_nodup k v attrs Hnd). reflexivity.
    + simpl in Hnd. nb. assumption.
    + simpl in Hfuel. rewrite !app_length in Hfuel. simpl in Hfuel. rewrite !app_length in Hfuel.
      simpl in Hfuel. rewrite !app_length in *. simpl in *. lia.
Qed.

(* ------------------------------------------------------------------ content reads back *)
Fixpoint ssize (s : stan) : nat :=
  match s with SText _ => 1%nat | STag _ _ kids => S (list_sum (map ssize kids)) end.
Definition lsize (l : list stan) : nat := list_sum (map ssize l).

Lemma lsize_app : forall a b, lsize (a ++ b) = (lsize a + lsize b)%nat.
Proof. intros. unfold lsize. rewrite map_app, list_sum_app. reflexivity. Qed.

Lemma merge_nil : forall acc, merge acc [] = emit acc [].
Proof. reflexivity. Qed.
Lemma merge_text : forall acc t r, merge acc (XText t :: r) = merge (acc ++ t) r.
Proof. reflexivity. Qed.
Lemma merge_elem : forall acc n a kids r,
  merge acc (XElem n a kids :: r) = emit acc (XElem n a (merge [] kids) :: merge [] r).
Proof. reflexivity. Qed.

Definition boundary (rest : text) : Prop := rest = [] \/ exists r, rest = 60 :: 47 :: r.

Lemma boundary_head : forall rest, boundary rest -> head_fails (not_char 60) rest.
Proof. intros rest [->|[r ->]]; simpl; reflexivity. Qed.

Lemma read_content_boundary : forall f rest, boundary rest -> read_content (S f) rest = Some ([], rest).
Proof. intros f rest [->|[r ->]]; reflexivity. Qed.

Lemma read_content_text : forall f c tl, (c =? 60) = false ->
  read_content (S f) (c :: tl) =
  (let '(raw, r') := span (not_char 60) (c :: tl) in
   match char_data raw with
   | None => None
   | Some t => match read_content f r' with
               | Some (sibs, r'') => Some (XText t :: sibs, r'')
               | None => None
               end
   end).
Proof. intros f c tl H. cbn [read_content]. rewrite H. reflexivity. Qed.

Lemma esc_c_head : forall c, exists x tl, esc_c c = x :: tl /\ (x =? 60) = false.
Proof.
  intro c. unfold esc_c.
  destruct (c =? 38) eqn:E38; [eexists; eexists; split; [reflexivity|reflexivity]|].
  destruct (c =? 60) eqn:E60; [eexists; eexists; split; [reflexivity|reflexivity]|].
  destruct (c =? 62) eqn:E62; [eexists; eexists; split; [reflexivity|reflexivity]|].
  exists c, []. split; [reflexivity|assumption].
Qed.

Lemma read_text_prefix : forall acc f s',
  acc <> [] -> forallb xml_char acc = true -> head_fails (not_char 60) s' ->
  read_content (S f) (flat_map esc_c acc ++ s') =
  match read_content f s' with Some (sibs, r') => Some (XText acc :: sibs, r') | None => None end.
Proof.
  intros acc f s' Hne Hacc Hs'.
  destruct acc as [|c acc]; [congruence|].
  destruct (esc_c_head c) as [x [tl [Ex Hx]]].
  assert (Hshape : exists tl', flat_map esc_c (c :: acc) ++ s' = x :: tl').
  { simpl. rewrite Ex. simpl. eexists. reflexivity. }
  destruct Hshape as [tl' Etl]. rewrite Etl. rewrite read_content_text by assumption. rewrite <- Etl.
  rewrite span_app; [| | assumption].
  - rewrite char_data_escape by assumption. reflexivity.
  - apply forallb_not_char. apply not_in_flat_map. intro d. apply esc_c_no. auto.
Qed.

Lemma read_content_elem : forall f r, starts_with [47] r = false ->
  read_content (S f) (60 :: r) =
  match read_name r with
  | None => None
  | Some (n, r1) =>
    match read_attrs f r1 with
    | None => None
    | Some (attrs, r2) =>
      match strip_prefix [47; 62] r2 with
      | Some r3 =>
        match read_content f r3 with
        | Some (sibs, r4) => Some (XElem n attrs [] :: sibs, r4)
        | None => None
        end
      | None =>
        match strip_prefix [62] r2 with
        | Some r3 =>
          match read_content f r3 with
          | Some (kids, r4) =>
            match close_tag n r4 with
            | Some r7 =>
              match read_content f r7 with
              | Some (sibs, r8) => Some (XElem n attrs kids :: sibs, r8)
              | None => None
              end
            | None => None
            end
          | None => None
          end
        | None => None
        end
      end
    end
  end.
Proof. intros f r H. cbn [read_content]. change (60 =? 60) with true. cbv iota. rewrite H. reflexivity. Qed.

Definition tag_tail (n : text) (kids : list stan) (X : text) : text :=
  if negb (is_nil kids) || negb (mem_text n void_elements)
  then 62 :: flatten_list kids ++ 60 :: 47 :: n ++ 62 :: X
  else 32 :: 47 :: 62 :: X.

Lemma flatten_tag_app : forall n a kids X, n <> [] ->
  flatten (STag n a kids) ++ X = 60 :: n ++ flat_map flatten_attr a ++ tag_tail n kids X.
Proof.
  intros n a kids X Hn. destruct n as [|c n]; [congruence|].
  unfold tag_tail, flatten_list. cbn [flatten].
  destruct (negb (is_nil kids) || negb (mem_text (c :: n) void_elements)); simpl;
    rewrite <- !app_assoc; simpl; rewrite <- ?app_assoc; simpl; rewrite <- ?app_assoc; reflexivity.
Qed.

Lemma close_tag_ok : forall n X, is_name n = true -> close_tag n (60 :: 47 :: n ++ 62 :: X) = Some X.
Proof.
  intros n X Hn. unfold close_tag.
  change (60 :: 47 :: n ++ 62 :: X) with ([60; 47] ++ (n ++ 62 :: X)). rewrite strip_prefix_app.
  rewrite read_name_app; [| assumption | simpl; reflexivity].
  rewrite text_eqb_refl. rewrite skip_space_head by reflexivity.
  change (62 :: X) with ([62] ++ X). apply strip_prefix_app.
Qed.

Lemma read_elem : forall f n a kids X (K Sibs : forest) rest,
  is_name n = true -> forallb wf_attr a = true -> nodup_keys a = true ->
  (forall Y, boundary Y -> (length (flatten_list kids ++ Y) < f)%nat ->
             read_content f (flatten_list kids ++ Y) = Some (K, Y)) ->
  (kids = [] -> K = []) ->
  read_content f X = Some (Sibs, rest) ->
  (length (flatten (STag n a kids) ++ X) < S f)%nat ->
  read_content (S f) (flatten (STag n a kids) ++ X) = Some (XElem n a K :: Sibs, rest).
Proof.
  intros f n a kids X K Sibs rest Hn Ha Hnd HK Hnil HX Hlen.
  destruct (is_name_cons n Hn) as [c [nr [En [Hc Hnr]]]].
  pose proof (name_start_range c Hc) as Hrange.
  assert (Hne : n <> []) by (subst n; discriminate).
  rewrite flatten_tag_app in * by assumption.
  rewrite read_content_elem; [| subst n; simpl app; apply starts_with_head_false; nsolve ].
  assert (Htail : exists ws e, tag_tail n kids X = ws ++ e /\ forallb is_space ws = true /\ tag_end e /\
            ((ws = [] /\ e = 62 :: flatten_list kids ++ 60 :: 47 :: n ++ 62 :: X) \/
             (ws = [32] /\ e = 47 :: 62 :: X /\ kids = []))).
  { unfold tag_tail. destruct (negb (is_nil kids) || negb (mem_text n void_elements)) eqn:Ecase.
    - exists [], (62 :: flatten_list kids ++ 60 :: 47 :: n ++ 62 :: X).
      split; [reflexivity|]. split; [reflexivity|]. split; [left; reflexivity|]. left. auto.
    - exists [32], (47 :: 62 :: X). apply orb_false_iff in Ecase. destruct Ecase as [Ek _].
      apply negb_false_iff in Ek. destruct kids; [|discriminate].
      split; [reflexivity|]. split; [reflexivity|]. split; [right; reflexivity|]. right. auto. }
  destruct Htail as [ws [e [Etail [Hws [He Hcases]]]]].
  rewrite Etail in *.
  rewrite read_name_app; [| assumption |].
  2:{ destruct a as [|[k v] a'].
      - simpl. destruct Hcases as [[-> ->]|[-> [-> _]]]; simpl; reflexivity.
      - simpl. reflexivity. }
  rewrite read_attrs_pp; try assumption.
  2:{ len. }
  destruct Hcases as [[-> ->]|[-> [-> Hk]]].
  - (* start tag, content, end tag *)
    rewrite strip_prefix_head_false by reflexivity.
    change (62 :: flatten_list kids ++ 60 :: 47 :: n ++ 62 :: X)
      with ([62] ++ (flatten_list kids ++ 60 :: 47 :: n ++ 62 :: X)).
    rewrite strip_prefix_app.
    rewrite HK.
    + rewrite close_tag_ok by assumption. rewrite HX. reflexivity.
    + right. eexists. reflexivity.
    + len.
  - (* empty-element tag *)
    change (47 :: 62 :: X) with ([47; 62] ++ X). rewrite strip_prefix_app.
    rewrite HX. rewrite (Hnil Hk). reflexivity.
Qed.

Lemma esc_c_nonempty : forall c acc, (1 <= length (flat_map esc_c (c :: acc)))%nat.
Proof.
  intros c acc. destruct (esc_c_head c) as [x [tl [Ex _]]]. simpl. rewrite Ex. simpl. lia.
Qed.

Lemma with_acc : forall acc fuel S' nodes r',
  forallb xml_char acc = true -> head_fails (not_char 60) S' ->
  (forall f, (length S' < f)%nat -> read_content f S' = Some (nodes, r')) ->
  (length (flat_map esc_c acc ++ S') < fuel)%nat ->
  read_content fuel (flat_map esc_c acc ++ S') = Some (emit acc nodes, r').
Proof.
  intros acc fuel S' nodes r' Hacc Hhead HS Hlen.
  destruct acc as [|c acc].
  - simpl. apply HS. simpl in Hlen. exact Hlen.
  - destruct fuel as [|f]; [inversion Hlen|].
    rewrite read_text_prefix; [| discriminate | assumption | assumption].
    rewrite HS; [reflexivity|].
    pose proof (esc_c_nonempty c acc). rewrite app_length in Hlen. lia.
Qed.

Lemma wf_tag_named : forall n a kids, n <> [] -> wf (STag n a kids) = true ->
  is_name n = true /\ forallb wf_attr a = true /\ nodup_keys a = true /\ forallb wf kids = true.
Proof.
  intros n a kids Hn H. destruct n as [|c n]; [congruence|]. cbn [wf] in H.
  apply andb_true_iff in H. destruct H as [H H4].
  apply andb_true_iff in H. destruct H as [H H3].
  apply andb_true_iff in H. destruct H as [H1 H2]. auto.
Qed.

Lemma ssize_pos : forall s, (1 <= ssize s)%nat.
Proof. destruct s; simpl; lia. Qed.

Lemma read_flatten_list : forall m l, (lsize l <= m)%nat -> forall acc rest fuel,
  forallb wf l = true -> forallb xml_char acc = true -> boundary rest ->
  (length (flat_map esc_c acc ++ flatten_list l ++ rest) < fuel)%nat ->
  read_content fuel (flat_map esc_c acc ++ flatten_list l ++ rest) = Some (merge acc (flat_map denote l), rest).
Proof.
  induction m as [|m IH]; intros l Hm acc rest fuel Hwf Hacc Hb Hlen.
  - destruct l as [|s l].
    + simpl flat_map. unfold flatten_list. simpl flat_map. simpl app. rewrite merge_nil.
      apply with_acc; try assumption.
      * apply boundary_head. assumption.
      * intros f Hf. destruct f as [|f]; [inversion Hf|]. apply read_content_boundary. assumption.
    + exfalso. unfold lsize in Hm. simpl in Hm. pose proof (ssize_pos s). lia.
  - destruct l as [|s l].
    + simpl flat_map. unfold flatten_list. simpl flat_map. simpl app. rewrite merge_nil.
      apply with_acc; try assumption.
      * apply boundary_head. assumption.
      * intros f Hf. destruct f as [|f]; [inversion Hf|]. apply read_content_boundary. assumption.
    + assert (Hsz : lsize (s :: l) = (ssize s + lsize l)%nat) by reflexivity.
      cbn [forallb] in Hwf. apply andb_true_iff in Hwf. destruct Hwf as [Hs Hl].
      change (flatten_list (s :: l)) with (flatten s ++ flatten_list l) in *.
      change (flat_map denote (s :: l)) with (denote s ++ flat_map denote l).
      destruct s as [t | n a kids].
      * (* text: joins the pending character data *)
        assert (E : flat_map esc_c acc ++ (flatten (SText t) ++ flatten_list l) ++ rest
                    = flat_map esc_c (acc ++ t) ++ flatten_list l ++ rest).
        { cbn [flatten]. rewrite escape_content_map, flat_map_app, <- !app_assoc. reflexivity. }
        rewrite E in *. cbn [denote]. simpl app. rewrite merge_text.
        apply IH; try assumption.
        -- simpl in Hsz. lia.
        -- rewrite forallb_app. rewrite Hacc. exact Hs.
      * destruct n as [|c n].
        -- (* transparent tag: its children are spliced in *)
           assert (E : flat_map esc_c acc ++ (flatten (STag [] a kids) ++ flatten_list l) ++ rest
                       = flat_map esc_c acc ++ flatten_list (kids ++ l) ++ rest).
           { cbn [flatten]. unfold flatten_list. rewrite flat_map_app. reflexivity. }
           rewrite E in *. cbn [denote]. rewrite <- flat_map_app.
           cbn [wf] in Hs.
           apply IH; try assumption.
           ++ rewrite lsize_app. cbn [ssize] in Hsz. fold (lsize kids) in Hsz. lia.
           ++ rewrite forallb_app. rewrite Hs. exact Hl.
        -- (* element *)
           destruct (wf_tag_named (c :: n) a kids ltac:(discriminate) Hs) as [Hn [Ha [Hnd Hk]]].
           cbn [ssize] in Hsz. fold (lsize kids) in Hsz.
           assert (Hden : denote (STag (c :: n) a kids) = [XElem (c :: n) a (flat_map denote kids)]) by reflexivity.
           rewrite <- (app_assoc (flatten (STag (c :: n) a kids))) in *.
           rewrite Hden.
           change ([XElem (c :: n) a (flat_map denote kids)] ++ flat_map denote l)
             with (XElem (c :: n) a (flat_map denote kids) :: flat_map denote l).
           rewrite merge_elem.
           apply with_acc; try assumption.
           ++ simpl. reflexivity.
           ++ intros f Hf. destruct f as [|f]; [inversion Hf|].
              apply read_elem; try assumption.
              ** intros Y HY HlenY.
                 apply (IH kids ltac:(lia) [] Y f Hk eq_refl HY). simpl. exact HlenY.
              ** intros ->. reflexivity.
              ** apply (IH l ltac:(lia) [] rest f Hl eq_refl Hb). simpl.
                 rewrite app_length in Hf.
                 assert (1 <= length (flatten (STag (c :: n) a kids)))%nat by (simpl; lia).
                 lia.
Qed.

Theorem flatten_reads_back : forall s, wf s = true -> read (flatten s) = Some (norm s).
Proof.
  intros s Hs. unfold read, norm.
  pose proof (read_flatten_list (lsize [s]) [s] (le_n _) [] [] (S (length (flatten s)))) as H.
  simpl flat_map in H. unfold flatten_list in H. simpl flat_map in H. simpl app in H.
  rewrite !app_nil_r in H. rewrite H; [reflexivity| | reflexivity | left; reflexivity | lia].
  simpl. rewrite Hs. reflexivity.
Qed.

(* ------------------------------------------------------------------ induction principles for the nested types *)
Section XnodeInd.
  Variable P : xnode -> Prop.
  Hypothesis HT : forall t, P (XText t).
  Hypothesis HE : forall n a kids, Forall P kids -> P (XElem n a kids).
  Fixpoint xnode_ind2 (x : xnode) : P x :=
    match x with
    | XText t => HT t
    | XElem n a kids =>
      HE n a kids ((fix go (l : list xnode) : Forall P l :=
                      match l with
                      | [] => Forall_nil P
                      | k :: r => Forall_cons k (xnode_ind2 k) (go r)
                      end) kids)
    end.
End XnodeInd.

Section StanInd.
  Variable P : stan -> Prop.
  Hypothesis HT : forall t, P (SText t).
  Hypothesis HE : forall n a kids, Forall P kids -> P (STag n a kids).
  Fixpoint stan_ind2 (s : stan) : P s :=
    match s with
    | SText t => HT t
    | STag n a kids =>
      HE n a kids ((fix go (l : list stan) : Forall P l :=
                      match l with
                      | [] => Forall_nil P
                      | k :: r => Forall_cons k (stan_ind2 k) (go r)
                      end) kids)
    end.
End StanInd.

Lemma flat_map_ext_Forall : forall {X Y} (f g : X -> list Y) l,
  Forall (fun x => f x = g x) l -> flat_map f l = flat_map g l.
Proof.
  intros X Y f g l H. induction H as [|x l Hx Hl IH]; simpl; [reflexivity|]. rewrite Hx, IH. reflexivity.
Qed.

(* ------------------------------------------------------------------ names and text of the normal form *)
Fixpoint node_text (x : xnode) : text :=
  match x with XText t => t | XElem _ _ kids => flat_map node_text kids end.
Definition forest_text (f : forest) : text := flat_map node_text f.

Fixpoint stan_text (s : stan) : text :=
  match s with SText t => t | STag _ _ kids => flat_map stan_text kids end.

Section Observations.
  (* an observation of nodes that sees nothing in text nodes *)
  Variable Y : Type.
  Variable obs : xnode -> list Y.
  Hypothesis obs_text : forall t, obs (XText t) = [].

  Lemma obs_emit : forall acc f, flat_map obs (emit acc f) = flat_map obs f.
  Proof. intros [|c acc] f; simpl; [reflexivity|]. rewrite obs_text. reflexivity. Qed.

  Lemma obs_coalesce : forall f acc, flat_map obs (coalesce acc f) = flat_map obs f.
  Proof.
    induction f as [|x f IH]; intro acc; simpl.
    - apply obs_emit.
    - destruct x as [t|n a kids].
      + rewrite IH, obs_text. reflexivity.
      + rewrite obs_emit. simpl. rewrite IH. reflexivity.
  Qed.
End Observations.

Lemma element_names_merge_node : forall x, node_element_names (merge_node x) = node_element_names x.
Proof.
  apply xnode_ind2; [reflexivity|]. intros n a kids IH. cbn [merge_node node_element_names]. f_equal.
  rewrite obs_coalesce by reflexivity. rewrite flat_map_concat, map_map, <- flat_map_concat.
  apply flat_map_ext_Forall. exact IH.
Qed.

Lemma attribute_names_merge_node : forall x, node_attribute_names (merge_node x) = node_attribute_names x.
Proof.
  apply xnode_ind2; [reflexivity|]. intros n a kids IH. cbn [merge_node node_attribute_names]. f_equal.
  rewrite obs_coalesce by reflexivity. rewrite flat_map_concat, map_map, <- flat_map_concat.
  apply flat_map_ext_Forall. exact IH.
Qed.

Lemma element_names_merge : forall acc f, element_names (merge acc f) = element_names f.
Proof.
  intros acc f. unfold element_names, merge. rewrite obs_coalesce by reflexivity.
  rewrite flat_map_concat, map_map, <- flat_map_concat. apply flat_map_ext. apply element_names_merge_node.
Qed.

Lemma attribute_names_merge : forall acc f, attribute_names (merge acc f) = attribute_names f.
Proof.
  intros acc f. unfold attribute_names, merge. rewrite obs_coalesce by reflexivity.
  rewrite flat_map_concat, map_map, <- flat_map_concat. apply flat_map_ext. apply attribute_names_merge_node.
Qed.

Lemma element_names_denote : forall s, element_names (denote s) = tag_names s.
Proof.
  apply stan_ind2; [reflexivity|]. intros n a kids IH.
  assert (E : element_names (flat_map denote kids) = flat_map tag_names kids).
  { unfold element_names. rewrite flat_map_flat_map. apply flat_map_ext_Forall. exact IH. }
  destruct n as [|c n]; cbn [denote tag_names].
  - exact E.
  - unfold element_names. simpl. rewrite app_nil_r. f_equal. exact E.
Qed.

Lemma attribute_names_denote : forall s, attribute_names (denote s) = attr_names s.
Proof.
  apply stan_ind2; [reflexivity|]. intros n a kids IH.
  assert (E : attribute_names (flat_map denote kids) = flat_map attr_names kids).
  { unfold attribute_names. rewrite flat_map_flat_map. apply flat_map_ext_Forall. exact IH. }
  destruct n as [|c n]; cbn [denote attr_names].
  - exact E.
  - unfold attribute_names. simpl. rewrite app_nil_r. f_equal. exact E.
Qed.

(* text: coalescing keeps the concatenation of all character data *)
Lemma text_emit : forall acc f, forest_text (emit acc f) = acc ++ forest_text f.
Proof. intros [|c acc] f; reflexivity. Qed.

Lemma text_coalesce : forall f acc, forest_text (coalesce acc f) = acc ++ forest_text f.
Proof.
  induction f as [|x f IH]; intro acc; simpl.
  - rewrite text_emit. reflexivity.
  - destruct x as [t|n a kids].
    + rewrite IH. unfold forest_text. simpl. rewrite app_assoc. reflexivity.
    + rewrite text_emit. unfold forest_text in *. simpl. rewrite IH. reflexivity.
Qed.

Lemma text_merge_node : forall x, node_text (merge_node x) = node_text x.
Proof.
  apply xnode_ind2; [reflexivity|]. intros n a kids IH. cbn [merge_node node_text].
  fold (forest_text (coalesce [] (map merge_node kids))). rewrite text_coalesce. simpl.
  unfold forest_text. rewrite flat_map_concat, map_map, <- flat_map_concat.
  apply flat_map_ext_Forall. exact IH.
Qed.

Lemma text_merge : forall f, forest_text (merge [] f) = forest_text f.
Proof.
  intro f. unfold merge. rewrite text_coalesce. simpl. unfold forest_text.
  rewrite flat_map_concat, map_map, <- flat_map_concat. apply flat_map_ext. apply text_merge_node.
Qed.

Lemma text_denote : forall s, forest_text (denote s) = stan_text s.
Proof.
  apply stan_ind2; [intro t; unfold forest_text; simpl; apply app_nil_r|]. intros n a kids IH.
  assert (E : forest_text (flat_map denote kids) = flat_map stan_text kids).
  { unfold forest_text. rewrite flat_map_flat_map. apply flat_map_ext_Forall. exact IH. }
  destruct n as [|c n]; cbn [denote stan_text].
  - exact E.
  - unfold forest_text in *. simpl. rewrite app_nil_r. exact E.
Qed.

Theorem flatten_no_markup_from_text : forall s, wf s = true ->
  exists f, read (flatten s) = Some f /\ element_names f = tag_names s /\ attribute_names f = attr_names s /\
            forest_text f = stan_text s.
Proof.
  intros s Hs. exists (norm s). split; [apply flatten_reads_back; exact Hs|]. unfold norm.
  rewrite element_names_merge, attribute_names_merge, text_merge.
  rewrite element_names_denote, attribute_names_denote, text_denote. auto.
Qed.

(* ------------------------------------------------------------------ characters that are not XML Chars *)
Lemma illegal_spec : forall c, illegal c = true <->
  (c < 32 /\ c <> 9 /\ c <> 10 /\ c <> 13) \/ (55296 <= c <= 57343) \/ c = 65534 \/ c = 65535 \/ 1114111 < c.
Proof.
  intro c. unfold illegal, xml_char, between. split.
  - intro H. apply negb_true_iff in H.
    repeat (apply orb_false_iff in H; let H' := fresh in destruct H as [H H']).
    repeat match goal with
    | H : _ && _ = false |- _ => apply andb_false_iff in H; destruct H
    end; nb; lia.
  - intro H. apply negb_true_iff.
    repeat (apply orb_false_iff; split); try (apply andb_false_iff);
      try (apply N.eqb_neq; lia);
      destruct (N.leb_spec 32 c); destruct (N.leb_spec c 55295);
      destruct (N.leb_spec 57344 c); destruct (N.leb_spec c 65533);
      destruct (N.leb_spec 65536 c); destruct (N.leb_spec c 1114111); auto; lia.
Qed.

Lemma unesc_illegal : forall t rest, existsb illegal t = true -> unesc None (flat_map esc_c t ++ rest) = None.
Proof.
  induction t as [|c t IH]; intros rest H; simpl in H; [discriminate|].
  simpl flat_map. rewrite <- app_assoc.
  destruct (xml_char c) eqn:Ec.
  - rewrite unesc_esc_c by assumption. unfold illegal in H. rewrite Ec in H. simpl in H.
    rewrite IH by assumption. reflexivity.
  - destruct (esc_c_illegal c Ec) as [-> _]. simpl.
    destruct (c =? 38) eqn:E38; [apply N.eqb_eq in E38; subst c; discriminate|].
    destruct (c =? 60) eqn:E60; [apply N.eqb_eq in E60; subst c; discriminate|].
    rewrite Ec. reflexivity.
Qed.

Theorem illegal_chars_survive : forall c, illegal c = true ->
  escape_content [c] = [c] /\ escape_attr [c] = [c].
Proof.
  intros c H. unfold illegal in H. apply negb_true_iff in H.
  rewrite escape_content_map, escape_attr_map. simpl.
  destruct (esc_c_illegal c H) as [-> ->]. auto.
Qed.

Theorem illegal_chars_rejected : forall t, existsb illegal t = true -> read (flatten (SText t)) = None.
Proof.
  intros t H. cbn [flatten]. rewrite escape_content_map. unfold read.
  destruct t as [|c t]; [discriminate|].
  destruct (esc_c_head c) as [x [tl [Ex Hx]]].
  assert (Hshape : exists tl', flat_map esc_c (c :: t) = x :: tl').
  { simpl. rewrite Ex. simpl. eexists. reflexivity. }
  destruct Hshape as [tl' Etl]. rewrite Etl. rewrite read_content_text by assumption. rewrite <- Etl.
  rewrite <- (app_nil_r (flat_map esc_c (c :: t))).
  rewrite span_app; [| | simpl; exact I].
  - unfold char_data. rewrite no_gt_no_cdata_end.
    + unfold unescape. rewrite <- (app_nil_r (flat_map esc_c (c :: t))). rewrite unesc_illegal by assumption.
      reflexivity.
    + apply not_in_flat_map. intro d. apply esc_c_no. auto.
  - apply forallb_not_char. apply not_in_flat_map. intro d. apply esc_c_no. auto.
Qed.
