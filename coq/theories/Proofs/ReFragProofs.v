(* Proofs/ReFragProofs.v -- the executable matcher of Spec/ReFrag.v decides the declarative
   regular-language semantics `matches_re` of the fragment. *)
From Coq Require Import NArith List Bool Lia.
From PydoctorVerif Require Import Base.Sexp Spec.ReFrag.
Import ListNotations.
Local Open Scope N_scope.

Lemma setitem_match_spec : forall i x, setitem_match x i = true <-> in_setitem i x.
Proof.
  intros [c|lo hi] x; cbn.
  - apply N.eqb_eq.
  - rewrite andb_true_iff, !N.leb_le. reflexivity.
Qed.

Lemma existsb_setitem : forall items x,
  existsb (setitem_match x) items = true <-> exists i, In i items /\ in_setitem i x.
Proof.
  intros items x. rewrite existsb_exists. split; intros (i & Hi & H); exists i; split; auto; now apply setitem_match_spec.
Qed.

Theorem cls_match_spec : forall k x, cls_match k x = true <-> in_cls k x.
Proof.
  intros [|c|neg items] x; cbn [cls_match].
  - split; [constructor|reflexivity].
  - rewrite N.eqb_eq. split; [intros ->; constructor|now inversion 1].
  - destruct neg; [rewrite xorb_true_l|rewrite xorb_false_l].
    + rewrite negb_true_iff. split.
      * intros H. constructor. intros i Hi Hx.
        assert (E : existsb (setitem_match x) items = true) by (apply existsb_setitem; eauto). congruence.
      * intros H. inversion H as [| | |its x0 Hn]; subst.
        destruct (existsb (setitem_match x) items) eqn:E; [|reflexivity].
        apply existsb_setitem in E. destruct E as (i & Hi & Hx). exfalso. now apply (Hn i).
    + destruct (existsb (setitem_match x) items) eqn:E; cbn.
      * apply existsb_setitem in E. destruct E as (i & Hi & Hx). split; [intros _; econstructor; eauto|reflexivity].
      * split; [discriminate|]. intros H. inversion H as [| |its x0 i Hi Hx|]; subst.
        assert (E' : existsb (setitem_match x) items = true) by (apply existsb_setitem; eauto). congruence.
Qed.

(* k*? then the continuation: some prefix is a run of k and the continuation accepts the rest *)
Lemma star_match_spec : forall k cont m,
  star_match k cont m = true <-> exists u v, m = u ++ v /\ item_lang (Star k) u /\ cont v = true.
Proof.
  intros k cont. induction m as [|x m IH]; cbn [star_match].
  - rewrite orb_false_r. split.
    + intros H. exists [], []. repeat split; [constructor|assumption].
    + intros (u & v & E & _ & H). symmetry in E. apply app_eq_nil in E. destruct E as [-> ->]. assumption.
  - rewrite orb_true_iff, andb_true_iff, IH, cls_match_spec. split.
    + intros [H|[Hx (u & v & -> & Hu & Hv)]].
      * exists [], (x :: m). repeat split; [constructor|assumption].
      * exists (x :: u), v. repeat split; [now constructor|assumption].
    + intros (u & v & E & Hu & Hv). destruct u as [|y u].
      * left. cbn in E. now subst v.
      * right. cbn in E. injection E as <- ->. inversion Hu; subst. split; [assumption|]. now exists u, v.
Qed.

Lemma matches_re_cons_inv : forall i r n,
  matches_re (i :: r) n -> exists u v, n = u ++ v /\ item_lang i u /\ matches_re r v.
Proof. intros i r n H. inversion H; subst. eauto. Qed.

Lemma item_lang_one_inv : forall k u, item_lang (One k) u -> exists x, u = [x] /\ in_cls k x.
Proof. intros k u H. inversion H; subst. eauto. Qed.

Theorem match_items_spec : forall r n, match_items r n = true <-> matches_re r n.
Proof.
  induction r as [|i r IH]; intros n.
  - cbn. destruct n; split; intros H; try discriminate; try constructor. inversion H.
  - destruct i as [k|k]; cbn [match_items].
    + destruct n as [|x n'].
      * split; [discriminate|]. intros H. apply matches_re_cons_inv in H. destruct H as (u & v & E & Hu & _).
        apply item_lang_one_inv in Hu. destruct Hu as (y & -> & _). discriminate.
      * rewrite andb_true_iff, cls_match_spec, IH. split.
        -- intros [Hx Hm]. apply (MR_item (One k) r [x] n'); [now constructor|assumption].
        -- intros H. apply matches_re_cons_inv in H. destruct H as (u & v & E & Hu & Hv).
           apply item_lang_one_inv in Hu. destruct Hu as (y & -> & Hy). cbn in E. injection E as -> ->. split; assumption.
    + rewrite star_match_spec. split.
      * intros (u & v & -> & Hu & Hv). apply MR_item; [assumption|now apply IH].
      * intros H. apply matches_re_cons_inv in H. destruct H as (u & v & -> & Hu & Hv).
        exists u, v. repeat split; [assumption|now apply IH].
Qed.

(* ------------------------------------------------------------------ the backtracking-free matcher *)
Lemma tails_cons : forall x n, tails (x :: n) = (x :: n) :: tails n.
Proof. reflexivity. Qed.

Lemma tails_hd : forall {X} (f : text -> X) (d : X) n, hd d (map f (tails n)) = f n.
Proof. intros X f d n. destruct n; reflexivity. Qed.

Lemma step_one_tails : forall k (cont : text -> bool) n,
  step_one k n (map cont (tails n)) =
  map (fun m => match m with [] => false | x :: m' => cls_match k x && cont m' end) (tails n).
Proof.
  intros k cont. induction n as [|x n IH].
  - reflexivity.
  - rewrite tails_cons. cbn [map step_one]. rewrite IH. f_equal. now rewrite tails_hd.
Qed.

Lemma step_star_tails : forall k (cont : text -> bool) n,
  step_star k n (map cont (tails n)) = map (star_match k cont) (tails n).
Proof.
  intros k cont. induction n as [|x n IH].
  - cbn. now rewrite orb_false_r.
  - rewrite tails_cons. cbn [map step_star]. rewrite IH. cbn [star_match]. f_equal. now rewrite tails_hd.
Qed.

Theorem match_table_spec : forall its n, match_table its n = map (match_items its) (tails n).
Proof.
  induction its as [|i r IH]; intros n; unfold match_table in *; cbn [fold_right].
  - unfold table_end. apply map_ext. intros [|]; reflexivity.
  - rewrite IH. destruct i as [k|k]; cbn [step_item].
    + rewrite step_one_tails. apply map_ext. intros [|x m]; reflexivity.
    + rewrite step_star_tails. reflexivity.
Qed.

Theorem match_linear_spec : forall its n, match_linear its n = match_items its n.
Proof. intros its n. unfold match_linear. rewrite match_table_spec. apply tails_hd. Qed.

Theorem match_linear_decides : forall its n, match_linear its n = true <-> matches_re its n.
Proof. intros its n. rewrite match_linear_spec. apply match_items_spec. Qed.
