(* Proofs/ProjectBase.v -- basic facts about Model/Project.v:
   equality tests, dict-like association lists, which primitives touch which component of the state,
   termination of the machine on its fuel and absence of failing asserts (run_total). *)
From Coq Require Import ZArith NArith List Bool Lia Permutation.
From PydoctorVerif Require Import Base.Sexp Model.Project.
Import ListNotations.
Local Open Scope N_scope.

(* ---------------------------------------------------------------- equality tests *)
Lemma path_eqb_eq a b : path_eqb a b = true <-> a = b.
Proof.
  revert b. induction a as [|x a IH]; intros [|y b]; cbn [path_eqb]; try (split; [discriminate|discriminate]).
  - tauto.
  - rewrite andb_true_iff, N.eqb_eq, IH. split; [intros [-> ->]; reflexivity|intros H; inversion H; auto].
Qed.
Lemma path_eqb_refl a : path_eqb a a = true.
Proof. apply path_eqb_eq. reflexivity. Qed.
Lemma path_eqb_neq a b : a <> b -> path_eqb a b = false.
Proof. intros H. destruct (path_eqb a b) eqn:E; [apply path_eqb_eq in E; contradiction|reflexivity]. Qed.
Lemma path_eqb_false a b : path_eqb a b = false -> a <> b.
Proof. intros E ->. rewrite path_eqb_refl in E. discriminate. Qed.

Lemma oid_eqb_eq a b : oid_eqb a b = true <-> a = b.
Proof.
  destruct a as [[a1 a2] a3], b as [[b1 b2] b3]. cbn [oid_eqb].
  rewrite !andb_true_iff, !N.eqb_eq. split; [intros [[-> ->] ->]; reflexivity|intros H; inversion H; auto].
Qed.
Lemma oid_eqb_refl a : oid_eqb a a = true.
Proof. apply oid_eqb_eq. reflexivity. Qed.
Lemma oid_eqb_neq a b : a <> b -> oid_eqb a b = false.
Proof. intros H. destruct (oid_eqb a b) eqn:E; [apply oid_eqb_eq in E; contradiction|reflexivity]. Qed.
Lemma oid_eq_dec (a b : oid) : {a = b} + {a <> b}.
Proof. destruct (oid_eqb a b) eqn:E; [left; apply oid_eqb_eq; exact E|right; intros ->; rewrite oid_eqb_refl in E; discriminate]. Qed.

Lemma memN_In x l : memN x l = true <-> In x l.
Proof.
  induction l as [|y l IH]; cbn [memN In]; [split; [discriminate|tauto]|].
  rewrite orb_true_iff, N.eqb_eq, IH. tauto.
Qed.
Lemma memN_false x l : memN x l = false <-> ~ In x l.
Proof. rewrite <- memN_In. destruct (memN x l); split; congruence. Qed.

(* ---------------------------------------------------------------- N-keyed dicts *)
Lemma nget_nset_same {V} k (v : V) l : nget k (nset k v l) = Some v.
Proof.
  unfold nget. induction l as [|[k' v'] l IH]; cbn [nset aget].
  - rewrite N.eqb_refl. reflexivity.
  - destruct (N.eqb k' k) eqn:E; cbn [aget]; [rewrite N.eqb_refl; reflexivity|rewrite E; exact IH].
Qed.
Lemma nget_nset_other {V} k k' (v : V) l : k' <> k -> nget k' (nset k v l) = nget k' l.
Proof.
  unfold nget. intros H. induction l as [|[k2 v2] l IH]; cbn [nset aget].
  - destruct (N.eqb_spec k k'); [congruence|reflexivity].
  - destruct (N.eqb_spec k2 k) as [->|E]; cbn [aget].
    + destruct (N.eqb_spec k k'); [congruence|reflexivity].
    + destruct (N.eqb k2 k'); [reflexivity|exact IH].
Qed.
Lemma nget_In {V} k (v : V) l : nget k l = Some v -> In (k, v) l.
Proof.
  unfold nget. induction l as [|[k' v'] l IH]; cbn [aget]; [discriminate|].
  destruct (N.eqb_spec k' k) as [->|E]; [intros H; inversion H; left; reflexivity|intros H; right; auto].
Qed.

(* ---------------------------------------------------------------- path-keyed dict (System.allobjects) *)
Lemma pget_pset_same k v l : pget k (pset k v l) = Some v.
Proof.
  induction l as [|[k' v'] l IH]; cbn [pset pget].
  - rewrite path_eqb_refl. reflexivity.
  - destruct (path_eqb k' k) eqn:E; cbn [pget]; [rewrite path_eqb_refl; reflexivity|rewrite E; exact IH].
Qed.
Lemma pget_pset_other k k' v l : k' <> k -> pget k' (pset k v l) = pget k' l.
Proof.
  intros H. induction l as [|[k2 v2] l IH]; cbn [pset pget].
  - rewrite path_eqb_neq by congruence. reflexivity.
  - destruct (path_eqb k2 k) eqn:E; cbn [pget].
    + apply path_eqb_eq in E. subst k2. rewrite !(path_eqb_neq k k') by congruence. reflexivity.
    + destruct (path_eqb k2 k'); [reflexivity|exact IH].
Qed.
Lemma pget_app k l l' : pget k (l ++ l') = match pget k l with Some v => Some v | None => pget k l' end.
Proof.
  induction l as [|[k' v'] l IH]; cbn [app pget]; [reflexivity|].
  destruct (path_eqb k' k); [reflexivity|exact IH].
Qed.
Lemma pget_In k v l : pget k l = Some v -> In (k, v) l.
Proof.
  induction l as [|[k' v'] l IH]; cbn [pget]; [discriminate|].
  destruct (path_eqb k' k) eqn:E; [apply path_eqb_eq in E; subst; intros H; inversion H; left; reflexivity|right; auto].
Qed.

(* ---------------------------------------------------------------- the control part of the state *)
Definition same_ctl (s s' : state) : Prop :=
  mst s' = mst s /\ unproc s' = unproc s /\ frames s' = frames s /\ roots s' = roots s /\ dfuel s' = dfuel s.

Lemma same_ctl_refl s : same_ctl s s.
Proof. repeat split. Qed.
Lemma same_ctl_trans a b c : same_ctl a b -> same_ctl b c -> same_ctl a c.
Proof. intros (A1 & A2 & A3 & A4 & A5) (B1 & B2 & B3 & B4 & B5). repeat split; congruence. Qed.

Lemma ctl_set_obj s o ob : same_ctl s (set_obj s o ob).
Proof. repeat split. Qed.
Lemma ctl_set_all s a : same_ctl s (set_all s a).
Proof. repeat split. Qed.
Lemma ctl_upd_obj s o f : same_ctl s (upd_obj s o f).
Proof. unfold upd_obj. destruct (objs s o); [apply ctl_set_obj|apply same_ctl_refl]. Qed.

Lemma ctl_fold {X} (f : state -> X -> state) l :
  (forall s x, same_ctl s (f s x)) -> forall s, same_ctl s (fold_left f l s).
Proof.
  intros H. induction l as [|x l IH]; intros s; cbn [fold_left]; [apply same_ctl_refl|].
  eapply same_ctl_trans; [apply H|apply IH].
Qed.

Lemma ctl_unregister s l : same_ctl s (unregister s l).
Proof. unfold unregister. apply ctl_fold. intros. apply ctl_set_all. Qed.
Lemma ctl_register s l : same_ctl s (register s l).
Proof. unfold register. apply ctl_fold. intros. apply ctl_set_all. Qed.

Ltac ctl_chain :=
  repeat first [ apply same_ctl_refl
               | eapply same_ctl_trans; [|first [apply ctl_upd_obj | apply ctl_set_all | apply ctl_set_obj
                                                 | apply ctl_register | apply ctl_unregister]] ].

Lemma ctl_reparent s o np nn : same_ctl s (reparent s o np nn).
Proof.
  unfold reparent. destruct (objs s o) as [ob|]; [|apply same_ctl_refl].
  destruct (o_parent ob); [|apply same_ctl_refl]. cbv zeta. ctl_chain.
Qed.

Lemma ctl_handle_duplicate s o k n : same_ctl s (handle_duplicate s o k n).
Proof.
  unfold handle_duplicate. cbv zeta. destruct (pget k (allobjs s)); [|apply same_ctl_refl]. ctl_chain.
Qed.

Lemma ctl_add_object s o ob : same_ctl s (add_object s o ob).
Proof.
  unfold add_object. cbv zeta.
  set (s2 := match o_parent ob with Some q => _ | None => _ end).
  assert (H2 : same_ctl s s2).
  { subst s2. destruct (o_parent ob); [eapply same_ctl_trans; [apply ctl_set_obj|apply ctl_upd_obj]|apply ctl_set_obj]. }
  destruct (pget (full_name s2 o) (allobjs s2)) as [first|].
  - destruct (oid_eqb first o); [exact H2|eapply same_ctl_trans; [exact H2|apply ctl_handle_duplicate]].
  - eapply same_ctl_trans; [exact H2|apply ctl_set_all].
Qed.

Lemma ctl_add_member cls m i sj mem : same_ctl (fst sj) (fst (add_member cls m i sj mem)).
Proof.
  destruct sj as [s j], mem as [[mk name] doc]. cbn [add_member fst].
  destruct (N.eqb mk 0); cbn [fst]; [apply ctl_add_object|].
  destruct (nget name (contents_of s cls)) as [ex|]; cbn [fst]; [|apply ctl_add_object].
  destruct (tag_of s ex) as [t|]; cbn [fst]; [|apply same_ctl_refl].
  destruct (N.eqb t T_ATTRIBUTE && negb (N.eqb doc 0)); cbn [fst]; [apply ctl_upd_obj|apply same_ctl_refl].
Qed.

Lemma ctl_add_members cls m i l : forall sj, same_ctl (fst sj) (fst (fold_left (add_member cls m i) l sj)).
Proof.
  induction l as [|x l IH]; intros sj; cbn [fold_left]; [apply same_ctl_refl|].
  eapply same_ctl_trans; [apply ctl_add_member|apply IH].
Qed.

Lemma ctl_exec_stmt s m i st : same_ctl s (exec_stmt s m i st).
Proof.
  destruct st; cbn [exec_stmt]; cbv zeta; try apply same_ctl_refl.
  - eapply same_ctl_trans; [apply ctl_add_object|]. apply (ctl_add_members _ m i members (_, 1)).
  - apply ctl_add_object.
  - destruct (nget name (contents_of s (m, 0, 0))) as [ex|]; [|apply ctl_add_object].
    destruct (tag_of s ex) as [t|]; [|apply same_ctl_refl].
    destruct (N.eqb t T_ATTRIBUTE && negb (N.eqb doc 0)); [apply ctl_upd_obj|apply same_ctl_refl].
  - destruct (nget target (contents_of s (m, 0, 0))); [apply same_ctl_refl|apply ctl_upd_obj].
  - destruct (N.eqb asname 0); apply ctl_upd_obj.
Qed.

Lemma ctl_handle_reexport s cur ex o a g : same_ctl s (fst (handle_reexport s cur ex o a g)).
Proof.
  unfold handle_reexport. destruct (memN a ex); [|apply same_ctl_refl].
  destruct (match nget o (contents_of s g) with Some c => Some c | None => resolve_name s g [o] end) as [c|];
    [|apply same_ctl_refl].
  destruct (match objs s c with Some cb => _ | None => false end); cbn [fst]; [apply same_ctl_refl|].
  destruct (match objs s g with Some gb => _ | None => false end); cbn [fst]; [apply same_ctl_refl|apply ctl_reparent].
Qed.

Lemma ctl_import_name s m t mo o a : same_ctl s (import_name s m t mo o a).
Proof.
  unfold import_name. cbv zeta.
  destruct mo as [g|].
  - pose proof (ctl_handle_reexport s (m, 0, 0) (exports_of s (m, 0, 0)) o a g) as H.
    destruct (handle_reexport s (m, 0, 0) (exports_of s (m, 0, 0)) o a g) as [s1 moved]. cbn [fst] in H.
    destruct moved; [exact H|eapply same_ctl_trans; [exact H|apply ctl_upd_obj]].
  - apply ctl_upd_obj.
Qed.

Lemma ctl_import_all s m g : same_ctl s (import_all s m g).
Proof.
  unfold import_all. cbv zeta. apply ctl_fold. intros s0 name.
  pose proof (ctl_handle_reexport s0 (m, 0, 0) (exports_of s (m, 0, 0)) name name g) as H.
  destruct (handle_reexport s0 (m, 0, 0) (exports_of s (m, 0, 0)) name name g) as [s1 moved]. cbn [fst] in H.
  destruct moved; [exact H|eapply same_ctl_trans; [exact H|apply ctl_upd_obj]].
Qed.

Lemma ctl_exec_op s fr op : same_ctl s (fst (fst (exec_op s fr op))).
Proof.
  destruct op; cbn [exec_op].
  - cbn [fst]. apply ctl_exec_stmt.
  - apply same_ctl_refl.
  - destruct (f_modname fr); apply same_ctl_refl.
  - destruct (f_modname fr); [|apply same_ctl_refl]. destruct (f_modobj fr) as [mo|]; [|apply same_ctl_refl].
    destruct (tag_of s mo) as [tg|]; [|apply same_ctl_refl]. destruct (N.eqb tg T_PACKAGE); apply same_ctl_refl.
  - destruct (f_modname fr); cbn [fst]; [apply ctl_import_name|apply same_ctl_refl].
  - destruct (f_modname fr); [|apply same_ctl_refl]. destruct (f_modobj fr); cbn [fst]; [apply ctl_import_all|apply same_ctl_refl].
Qed.

(* the frame returned by exec_op keeps the module and the todo list *)
Lemma exec_op_frame s fr op :
  f_mod (snd (fst (exec_op s fr op))) = f_mod fr /\ f_todo (snd (fst (exec_op s fr op))) = f_todo fr.
Proof.
  destruct op; cbn [exec_op]; try (split; reflexivity).
  - destruct (f_modname fr); split; reflexivity.
  - destruct (f_modname fr); [|split; reflexivity]. destruct (f_modobj fr) as [mo|]; [|split; reflexivity].
    destruct (tag_of s mo) as [tg|]; [|split; reflexivity]. destruct (N.eqb tg T_PACKAGE); split; reflexivity.
  - destruct (f_modname fr); split; reflexivity.
  - destruct (f_modname fr); [|split; reflexivity]. destruct (f_modobj fr); split; reflexivity.
Qed.

(* ---------------------------------------------------------------- list helpers *)
Lemma remove1_In_iff m l x : NoDup l -> (In x (remove1 m l) <-> In x l /\ x <> m).
Proof.
  induction l as [|y l IH]; intros Hnd; cbn [remove1 In]; [tauto|].
  inversion Hnd as [|? ? Hny Hnd']; subst.
  destruct (N.eqb_spec y m) as [->|Hne].
  - split; [intros Hx; split; [right; exact Hx|intros ->; contradiction]|intros [[->|Hx] Hxm]; [congruence|exact Hx]].
  - cbn [In]. rewrite IH by assumption. split.
    + intros [->|[Hx Hxm]]; [split; [left; reflexivity|congruence]|split; [right; assumption|assumption]].
    + intros [[->|Hx] Hxm]; [left; reflexivity|right; split; assumption].
Qed.
Lemma remove1_NoDup m l : NoDup l -> NoDup (remove1 m l).
Proof.
  induction l as [|y l IH]; intros Hnd; cbn [remove1]; [constructor|].
  inversion Hnd as [|? ? Hny Hnd']; subst. destruct (N.eqb y m); [assumption|].
  constructor; [|apply IH; assumption].
  intros Hin. apply remove1_In_iff in Hin; [|assumption]. tauto.
Qed.

(* ---------------------------------------------------------------- termination *)
Section Machine.
  Variable p : project.

  Definition cost_of (m : N) : nat :=
    match modinfo_of p m with Some mi => mod_cost mi + 2 | None => 2 end.
  Definition frames_cost (fs : list frame) : nat := fold_right (fun fr a => S (length (f_todo fr)) + a)%nat 0%nat fs.
  Definition unproc_cost (u : list N) : nat := fold_right (fun m a => cost_of m + a)%nat 0%nat u.
  Definition mu (s : state) : nat := (frames_cost (frames s) + unproc_cost (unproc s))%nat.

  Lemma unproc_cost_remove1 m u :
    In m u -> (unproc_cost (remove1 m u) + cost_of m = unproc_cost u)%nat.
  Proof.
    induction u as [|y u IH]; cbn [In remove1 unproc_cost fold_right]; [tauto|].
    intros H. destruct (N.eqb_spec y m) as [->|Hne]; [lia|].
    destruct H as [->|H]; [congruence|]. cbn [unproc_cost fold_right]. specialize (IH H).
    unfold unproc_cost in IH. lia.
  Qed.

  Lemma begin_module_inv s m s' :
    begin_module p s m = Next s' ->
    exists mi, modinfo_of p m = Some mi /\ mst s m = UNPROCESSED /\ In m (unproc s) /\
      s' = set_frames (upd_obj (set_unproc (set_mst s m PROCESSING) (remove1 m (unproc s))) (m, 0, 0)
                               (fun mb => with_doc (m_doc mi) (with_all (last_all (m_stmts mi) None) mb)))
                      ({| f_mod := m; f_todo := expand_stmts (m_stmts mi); f_modname := None; f_modobj := None |}
                         :: frames s).
  Proof.
    unfold begin_module. destruct (mst s m) eqn:Em; try discriminate.
    destruct (memN m (unproc s)) eqn:Eu; [|discriminate].
    destruct (modinfo_of p m) as [mi|] eqn:Ei; [|discriminate].
    intros H. inversion H; subst. exists mi. apply memN_In in Eu.
    repeat split; try assumption.
    f_equal. f_equal.
    destruct (ctl_upd_obj (set_unproc (set_mst s m PROCESSING) (remove1 m (unproc s))) (m, 0, 0)
                          (fun mb => with_doc (m_doc mi) (with_all (last_all (m_stmts mi) None) mb)))
      as (_ & _ & Hf & _). exact Hf.
  Qed.

  Lemma begin_module_ctl s m s' :
    begin_module p s m = Next s' ->
    exists mi, modinfo_of p m = Some mi /\ mst s m = UNPROCESSED /\ In m (unproc s) /\
      unproc s' = remove1 m (unproc s) /\
      frames s' = {| f_mod := m; f_todo := expand_stmts (m_stmts mi); f_modname := None; f_modobj := None |} :: frames s /\
      mst s' = (fun x => if N.eqb x m then PROCESSING else mst s x) /\ dfuel s' = dfuel s /\ roots s' = roots s.
  Proof.
    intros H. destruct (begin_module_inv _ _ _ H) as (mi & Hi & Hm & Hu & ->).
    exists mi. repeat split; try assumption.
    - cbn [set_frames unproc].
      destruct (ctl_upd_obj (set_unproc (set_mst s m PROCESSING) (remove1 m (unproc s))) (m, 0, 0)
                            (fun mb => with_doc (m_doc mi) (with_all (last_all (m_stmts mi) None) mb)))
        as (_ & Hx & _). rewrite Hx. reflexivity.
    - cbn [set_frames mst].
      destruct (ctl_upd_obj (set_unproc (set_mst s m PROCESSING) (remove1 m (unproc s))) (m, 0, 0)
                            (fun mb => with_doc (m_doc mi) (with_all (last_all (m_stmts mi) None) mb)))
        as (Hx & _). rewrite Hx. reflexivity.
    - cbn [set_frames dfuel].
      destruct (ctl_upd_obj (set_unproc (set_mst s m PROCESSING) (remove1 m (unproc s))) (m, 0, 0)
                            (fun mb => with_doc (m_doc mi) (with_all (last_all (m_stmts mi) None) mb)))
        as (_ & _ & _ & _ & Hx). rewrite Hx. reflexivity.
    - cbn [set_frames roots].
      destruct (ctl_upd_obj (set_unproc (set_mst s m PROCESSING) (remove1 m (unproc s))) (m, 0, 0)
                            (fun mb => with_doc (m_doc mi) (with_all (last_all (m_stmts mi) None) mb)))
        as (_ & _ & _ & Hx & _). rewrite Hx. reflexivity.
  Qed.

  Lemma begin_module_mu s m s' : begin_module p s m = Next s' -> (S (mu s') = mu s)%nat.
  Proof.
    intros H. destruct (begin_module_ctl _ _ _ H) as (mi & Hi & _ & Hu & Hun & Hfr & _).
    unfold mu. rewrite Hun, Hfr. cbn [frames_cost fold_right f_todo].
    pose proof (unproc_cost_remove1 m (unproc s) Hu) as Hc. unfold cost_of in Hc. rewrite Hi in Hc.
    unfold mod_cost in Hc. unfold frames_cost. lia.
  Qed.

  (* the three ways a step goes on *)
  Lemma step_cases s s' :
    step p s = Next s' ->
    (frames s = [] /\ exists m rest, unproc s = m :: rest /\ begin_module p s m = Next s') \/
    (exists fr rest, frames s = fr :: rest /\ f_todo fr = [] /\ s' = set_frames (set_mst s (f_mod fr) PROCESSED) rest) \/
    (exists fr rest op todo s1 fr1 en,
        frames s = fr :: rest /\ f_todo fr = op :: todo /\ exec_op s (with_todo todo fr) op = (s1, fr1, en) /\
        ensure p (set_frames s1 (fr1 :: rest)) en = Next s').
  Proof.
    unfold step. destruct (frames s) as [|fr rest] eqn:Ef.
    - destruct (unproc s) as [|m u] eqn:Eu; [discriminate|]. intros H. left. split; [reflexivity|]. eauto.
    - destruct (f_todo fr) as [|op todo] eqn:Et.
      + intros H. inversion H. right. left. eauto.
      + destruct (exec_op s (with_todo todo fr) op) as [[s1 fr1] en] eqn:Ee. intros H. right. right.
        exists fr, rest, op, todo, s1, fr1, en. auto.
  Qed.

  Lemma ensure_cases s en s' :
    ensure p s en = Next s' ->
    s' = s \/ exists o, en = Some o /\ mst s (fst (fst o)) = UNPROCESSED /\ begin_module p s (fst (fst o)) = Next s'.
  Proof.
    unfold ensure. destruct en as [o|]; [|intros H; inversion H; auto].
    destruct (mst s (fst (fst o))) eqn:Em; [|intros H; inversion H; auto|intros H; inversion H; auto].
    intros H. right. eauto.
  Qed.

  Lemma step_mu s s' : step p s = Next s' -> (mu s' < mu s)%nat.
  Proof.
    intros H. destruct (step_cases _ _ H) as [(Hf & m & rest & Hu & Hb)|[(fr & rest & Hf & Ht & ->)|
      (fr & rest & op & todo & s1 & fr1 & en & Hf & Ht & He & Hen)]].
    - pose proof (begin_module_mu _ _ _ Hb) as Hbm. lia.
    - unfold mu. cbn [set_frames frames unproc set_mst]. rewrite Hf. cbn [frames_cost fold_right]. unfold frames_cost. lia.
    - pose proof (ctl_exec_op s (with_todo todo fr) op) as Hc. pose proof (exec_op_frame s (with_todo todo fr) op) as Hfr.
      rewrite He in Hc, Hfr. cbn [fst snd] in Hc, Hfr. destruct Hc as (_ & Hu & _). destruct Hfr as (_ & Htd).
      cbn [with_todo f_todo] in Htd.
      assert (Hmid : (S (mu (set_frames s1 (fr1 :: rest))) = mu s)%nat).
      { unfold mu. cbn [set_frames frames unproc]. rewrite Hf, Hu. cbn [frames_cost fold_right]. rewrite Htd, Ht.
        cbn [length]. unfold frames_cost. lia. }
      destruct (ensure_cases _ _ _ Hen) as [->|(o & _ & _ & Hb)]; [lia|].
      pose proof (begin_module_mu _ _ _ Hb) as Hbm. lia.
  Qed.

  Lemma run_machine_fuel fuel : forall s, (mu s < fuel)%nat -> run_machine p fuel s <> OutOfFuel.
  Proof.
    induction fuel as [|f IH]; intros s Hlt; [lia|]. cbn [run_machine].
    destruct (step p s) as [s'| |n] eqn:Es; try discriminate.
    apply IH. pose proof (step_mu _ _ Es). lia.
  Qed.

  (* an invariant of single steps is an invariant of the run *)
  Lemma run_machine_inv (I : state -> Prop) :
    (forall s s', I s -> step p s = Next s' -> I s') ->
    forall fuel s s', I s -> run_machine p fuel s = Ok s' -> I s' /\ step p s' = Halt.
  Proof.
    intros Hstep. induction fuel as [|f IH]; intros s s' HI; cbn [run_machine]; [discriminate|].
    destruct (step p s) as [s1| |n] eqn:Es; try discriminate.
    - intros H. eapply IH; [eapply Hstep; eassumption|exact H].
    - intros H. inversion H; subst. split; assumption.
  Qed.

  Lemma step_halt s : step p s = Halt -> frames s = [] /\ unproc s = [].
  Proof.
    unfold step. destruct (frames s) as [|fr rest].
    - destruct (unproc s) as [|m u]; [auto|]. unfold begin_module.
      destruct (mst s m); try discriminate. destruct (memN m (unproc s)); [|discriminate].
      destruct (modinfo_of p m); discriminate.
    - destruct (f_todo fr) as [|op todo]; [discriminate|].
      destruct (exec_op s (with_todo todo fr) op) as [[s1 fr1] en]. unfold ensure.
      destruct en as [o|]; [|discriminate]. destruct (mst _ _); try discriminate.
      unfold begin_module. destruct (mst _ _); try discriminate. destruct (memN _ _); [|discriminate].
      destruct (modinfo_of p _); discriminate.
  Qed.

  (* ---- control invariant: the unprocessed list is exactly the set of UNPROCESSED modules ---- *)
  Record Ctl (s : state) : Prop := {
    c_nodup : NoDup (unproc s);
    c_unproc : forall m, In m (unproc s) <-> (modinfo_of p m <> None /\ mst s m = UNPROCESSED);
    c_frames : forall fr, In fr (frames s) -> mst s (f_mod fr) <> UNPROCESSED /\ modinfo_of p (f_mod fr) <> None;
    c_fnodup : NoDup (map f_mod (frames s)) }.

  Lemma Ctl_begin s m s' : Ctl s -> begin_module p s m = Next s' -> Ctl s'.
  Proof.
    intros [Hnd Hun Hfr Hfn] H. destruct (begin_module_ctl _ _ _ H) as (mi & Hi & Hm & Hu & Hun' & Hfr' & Hmst & _).
    constructor.
    - rewrite Hun'. apply remove1_NoDup. exact Hnd.
    - intros x. rewrite Hun', Hmst, (remove1_In_iff m (unproc s) x Hnd), Hun.
      destruct (N.eqb_spec x m) as [->|Hne]; [split; [tauto|intros [_ E]; discriminate]|tauto].
    - intros fr. rewrite Hfr', Hmst. intros [<-|Hin]; cbn [f_mod].
      + rewrite N.eqb_refl. split; [discriminate|congruence].
      + destruct (Hfr fr Hin) as [A B]. split; [|exact B]. destruct (N.eqb (f_mod fr) m); [discriminate|exact A].
    - rewrite Hfr'. cbn [map f_mod]. constructor; [|exact Hfn].
      intros Hin. apply in_map_iff in Hin. destruct Hin as (fr & Hfm & Hin). destruct (Hfr fr Hin) as [A _]. congruence.
  Qed.

  Lemma Ctl_same s s' fs :
    Ctl s -> mst s' = mst s -> unproc s' = unproc s -> frames s' = fs ->
    map f_mod fs = map f_mod (frames s) -> Ctl s'.
  Proof.
    intros [Hnd Hun Hfr Hfn] Hm Hu Hf Hmap. constructor.
    - rewrite Hu. exact Hnd.
    - intros m. rewrite Hu, Hm. apply Hun.
    - intros fr Hin. rewrite Hf in Hin. rewrite Hm.
      assert (Hx : In (f_mod fr) (map f_mod (frames s))) by (rewrite <- Hmap; apply in_map; exact Hin).
      apply in_map_iff in Hx. destruct Hx as (fr0 & E & Hin0). rewrite <- E. apply Hfr. exact Hin0.
    - rewrite Hf, Hmap. exact Hfn.
  Qed.

  Lemma Ctl_step s s' : Ctl s -> step p s = Next s' -> Ctl s'.
  Proof.
    intros HC H. destruct (step_cases _ _ H) as [(Hf & m & rest & Hu & Hb)|[(fr & rest & Hf & Ht & ->)|
      (fr & rest & op & todo & s1 & fr1 & en & Hf & Ht & He & Hen)]].
    - eapply Ctl_begin; eassumption.
    - destruct HC as [Hnd Hun Hfr Hfn]. rewrite Hf in Hfr, Hfn. cbn [map] in Hfn. inversion Hfn as [|? ? Hni Hfn']; subst.
      constructor; cbn [set_frames set_mst unproc mst frames].
      + exact Hnd.
      + intros m. rewrite Hun. destruct (N.eqb_spec m (f_mod fr)) as [->|Hne]; [|tauto].
        destruct (Hfr fr (or_introl eq_refl)) as [A _]. split; [tauto|intros [_ E]; discriminate].
      + intros fr0 Hin. destruct (Hfr fr0 (or_intror Hin)) as [A B]. split; [|exact B].
        destruct (N.eqb (f_mod fr0) (f_mod fr)); [discriminate|exact A].
      + exact Hfn'.
    - pose proof (ctl_exec_op s (with_todo todo fr) op) as Hc. pose proof (exec_op_frame s (with_todo todo fr) op) as Hfr.
      rewrite He in Hc, Hfr. cbn [fst snd] in Hc, Hfr. destruct Hc as (Hm & Hu & _). destruct Hfr as (Hfm & _).
      assert (HC1 : Ctl (set_frames s1 (fr1 :: rest))).
      { eapply (Ctl_same s); [exact HC|exact Hm|exact Hu|reflexivity|]. rewrite Hf.
        change (f_mod fr1 :: map f_mod rest = f_mod fr :: map f_mod rest). f_equal. exact Hfm. }
      destruct (ensure_cases _ _ _ Hen) as [->|(o & _ & _ & Hb)]; [exact HC1|].
      eapply Ctl_begin; eassumption.
  Qed.

  Lemma Ctl_op s fr rest op todo s1 fr1 en :
    Ctl s -> frames s = fr :: rest -> exec_op s (with_todo todo fr) op = (s1, fr1, en) ->
    Ctl (set_frames s1 (fr1 :: rest)).
  Proof.
    intros HC Hf He.
    pose proof (ctl_exec_op s (with_todo todo fr) op) as Hc. pose proof (exec_op_frame s (with_todo todo fr) op) as Hfr.
    rewrite He in Hc, Hfr. cbn [fst snd] in Hc, Hfr. destruct Hc as (Hm & Hu & _). destruct Hfr as (Hfm & _).
    eapply (Ctl_same s); [exact HC|exact Hm|exact Hu|reflexivity|]. rewrite Hf.
    change (f_mod fr1 :: map f_mod rest = f_mod fr :: map f_mod rest). f_equal. exact Hfm.
  Qed.

  (* no failing assert: needs to know that what getProcessedModule finds under a module tag is a module of the project *)
  Definition modules_valid (s : state) : Prop :=
    forall o ob, objs s o = Some ob -> is_module_tag (o_tag ob) = true -> modinfo_of p (fst (fst o)) <> None.

  Lemma module_at_valid s t o : modules_valid s -> module_at s t = Some o -> modinfo_of p (fst (fst o)) <> None.
  Proof.
    unfold module_at, tag_of. intros Hv. destruct (pget t (allobjs s)) as [o'|]; [|discriminate].
    destruct (objs s o') as [ob|] eqn:Eo; [|discriminate].
    destruct (is_module_tag (o_tag ob)) eqn:Et; [|discriminate]. intros H. inversion H; subst. eapply Hv; eassumption.
  Qed.

  Lemma begin_module_ok s m :
    Ctl s -> modinfo_of p m <> None -> mst s m = UNPROCESSED -> exists s', begin_module p s m = Next s'.
  Proof.
    intros HC Hi Hm. unfold begin_module. rewrite Hm.
    assert (Hin : In m (unproc s)) by (apply (c_unproc s HC); split; assumption).
    apply memN_In in Hin. rewrite Hin. destruct (modinfo_of p m); [eauto|congruence].
  Qed.

  Lemma step_not_stuck s n : Ctl s -> modules_valid s -> step p s <> Stuck n.
  Proof.
    intros HC Hv. unfold step. destruct (frames s) as [|fr rest] eqn:Ef.
    - destruct (unproc s) as [|m u] eqn:Eu; [discriminate|].
      assert (Hin : In m (unproc s)) by (rewrite Eu; left; reflexivity).
      apply (c_unproc s HC) in Hin. destruct Hin as [Hi Hm].
      destruct (begin_module_ok s m HC Hi Hm) as (s' & ->). discriminate.
    - destruct (f_todo fr) as [|op todo] eqn:Et; [discriminate|].
      destruct (exec_op s (with_todo todo fr) op) as [[s1 fr1] en] eqn:Ee.
      pose proof (ctl_exec_op s (with_todo todo fr) op) as Hc. pose proof (exec_op_frame s (with_todo todo fr) op) as Hfr.
      rewrite Ee in Hc, Hfr. cbn [fst snd] in Hc, Hfr. destruct Hc as (Hm & Hu & _). destruct Hfr as (Hfm & _).
      assert (HC1 : Ctl (set_frames s1 (fr1 :: rest))).
      { eapply (Ctl_same s); [exact HC|exact Hm|exact Hu|reflexivity|]. rewrite Ef.
        change (f_mod fr1 :: map f_mod rest = f_mod fr :: map f_mod rest). f_equal. exact Hfm. }
      unfold ensure. destruct en as [o|]; [|discriminate].
      destruct (mst (set_frames s1 (fr1 :: rest)) (fst (fst o))) eqn:Emo; try discriminate.
      assert (Hvo : modinfo_of p (fst (fst o)) <> None).
      { (* en comes from module_at on the state before the operation *)
        destruct op; cbn [exec_op] in Ee.
        - inversion Ee.
        - inversion Ee.
        - destruct (f_modname (with_todo todo fr)); inversion Ee; subst. eapply module_at_valid; eassumption.
        - destruct (f_modname (with_todo todo fr)); [|inversion Ee].
          destruct (f_modobj (with_todo todo fr)) as [mo|]; [|inversion Ee].
          destruct (tag_of s mo) as [tg|]; [|inversion Ee]. destruct (N.eqb tg T_PACKAGE); inversion Ee; subst.
          eapply module_at_valid; eassumption.
        - destruct (f_modname (with_todo todo fr)); inversion Ee.
        - destruct (f_modname (with_todo todo fr)); [|inversion Ee]. destruct (f_modobj (with_todo todo fr)); inversion Ee. }
      destruct (begin_module_ok _ _ HC1 Hvo Emo) as (s' & ->). discriminate.
  Qed.
End Machine.

(* ---------------------------------------------------------------- the micro-operations of a module *)
Definition local_stmt (st : stmt) : bool :=
  match st with SImportFrom _ _ _ | SImportStar _ _ => false | _ => true end.

Definition stmt_idxs (l : list mop) : list N :=
  flat_map (fun op => match op with MStmt i _ => [i] | _ => [] end) l.

Lemma stmt_idxs_app a b : stmt_idxs (a ++ b) = stmt_idxs a ++ stmt_idxs b.
Proof. unfold stmt_idxs. apply flat_map_app. Qed.

Lemma In_stmt_idxs i st l : In (MStmt i st) l -> In i (stmt_idxs l).
Proof. intros H. unfold stmt_idxs. apply in_flat_map. exists (MStmt i st). split; [exact H|left; reflexivity]. Qed.

Lemma stmt_idxs_In i l : In i (stmt_idxs l) -> exists st, In (MStmt i st) l.
Proof.
  unfold stmt_idxs. intros H. apply in_flat_map in H. destruct H as (op & Hin & Hi).
  destruct op; cbn in Hi; try contradiction. destruct Hi as [<-|[]]. eauto.
Qed.

Lemma expand_stmt_idxs i st : stmt_idxs (expand_stmt i st) = if local_stmt st then [i] else [].
Proof.
  destruct st; cbn [expand_stmt local_stmt stmt_idxs flat_map app]; try reflexivity.
  induction names as [|oa names IH]; cbn [flat_map app]; [reflexivity|exact IH].
Qed.

Lemma expand_from_idxs_ge l : forall k i, In i (stmt_idxs (expand_from k l)) -> k <= i.
Proof.
  induction l as [|st l IH]; intros k i; cbn [expand_from]; [cbn; tauto|].
  rewrite stmt_idxs_app, expand_stmt_idxs, in_app_iff. intros [H|H].
  - destruct (local_stmt st); [destruct H as [<-|[]]; lia|destruct H].
  - apply IH in H. lia.
Qed.

Lemma expand_from_idxs_nodup l : forall k, NoDup (stmt_idxs (expand_from k l)).
Proof.
  induction l as [|st l IH]; intros k; cbn [expand_from]; [constructor|].
  rewrite stmt_idxs_app, expand_stmt_idxs. destruct (local_stmt st); cbn [app]; [|apply IH].
  constructor; [|apply IH]. intros H. apply expand_from_idxs_ge in H. lia.
Qed.

Lemma In_expand_stmt_MStmt i st j st' : In (MStmt j st') (expand_stmt i st) -> j = i /\ st' = st /\ local_stmt st = true.
Proof.
  destruct st; cbn [expand_stmt In local_stmt].
  - intros [H|F]; [inversion H; subst; auto|destruct F].
  - intros [H|F]; [inversion H; subst; auto|destruct F].
  - intros [H|F]; [inversion H; subst; auto|destruct F].
  - intros [H|F]; [inversion H; subst; auto|destruct F].
  - intros [H|F]; [inversion H; subst; auto|destruct F].
  - intros [H|[H|H]]; try discriminate. exfalso.
    induction names as [|oa names IH]; cbn [flat_map app In] in H; [exact H|].
    destruct H as [H|[H|H]]; try discriminate. exact (IH H).
  - intros [H|[H|[H|F]]]; try discriminate. destruct F.
  - intros [H|F]; [inversion H; subst; auto|destruct F].
Qed.

Lemma In_expand_from_MStmt l : forall k i st,
  In (MStmt i st) (expand_from k l) ->
  exists n, nth_error l n = Some st /\ i = k + N.of_nat n /\ local_stmt st = true.
Proof.
  induction l as [|st0 l IH]; intros k i st; cbn [expand_from]; [intros []|].
  rewrite in_app_iff. intros [H|H].
  - apply In_expand_stmt_MStmt in H. destruct H as (-> & -> & Hl). exists 0%nat. repeat split; [lia|exact Hl].
  - apply IH in H. destruct H as (n & Hn & -> & Hl). exists (S n). repeat split; [exact Hn|lia|exact Hl].
Qed.

Lemma expand_from_MStmt_In l : forall k n st,
  nth_error l n = Some st -> local_stmt st = true -> In (MStmt (k + N.of_nat n) st) (expand_from k l).
Proof.
  induction l as [|st0 l IH]; intros k n st Hn Hl; [destruct n; discriminate|].
  cbn [expand_from]. apply in_or_app. destruct n as [|n]; cbn [nth_error] in Hn.
  - inversion Hn; subst st0. left. replace (k + N.of_nat 0) with k by lia.
    destruct st; cbn [expand_stmt local_stmt] in *; try discriminate; left; reflexivity.
  - right. replace (k + N.of_nat (S n)) with ((k + 1) + N.of_nat n) by lia. apply IH; assumption.
Qed.

Lemma In_expand_from_ImportName l : forall k o a,
  In (MImportName o a) (expand_from k l) ->
  exists level modname names, In (SImportFrom level modname names) l /\ In (o, a) names.
Proof.
  induction l as [|st0 l IH]; intros k o a; cbn [expand_from]; [intros []|].
  rewrite in_app_iff. intros [H|H].
  - destruct st0; cbn [expand_stmt In] in H; try (destruct H as [H|[]]; discriminate).
    + destruct H as [H|[H|H]]; try discriminate. exists level, modname, names. split; [left; reflexivity|].
      induction names as [|oa names IHn]; cbn [flat_map app In] in H; [destruct H|].
      destruct H as [H|[H|H]]; [discriminate|inversion H; subst; left; destruct oa; reflexivity|right; exact (IHn H)].
    + destruct H as [H|[H|[H|[]]]]; discriminate.
  - destruct (IH _ _ _ H) as (lv & mn & ns & Hin & Hoa). exists lv, mn, ns. split; [right; exact Hin|exact Hoa].
Qed.

Lemma In_expand_from_ImportAll l : forall k,
  In MImportAll (expand_from k l) -> exists level modname, In (SImportStar level modname) l.
Proof.
  induction l as [|st0 l IH]; intros k; cbn [expand_from]; [intros []|].
  rewrite in_app_iff. intros [H|H].
  - destruct st0; cbn [expand_stmt In] in H; try (destruct H as [H|[]]; discriminate).
    + destruct H as [H|[H|H]]; try discriminate. exfalso.
      induction names as [|oa names IHn]; cbn [flat_map app In] in H; [destruct H|].
      destruct H as [H|[H|H]]; try discriminate. exact (IHn H).
    + exists level, modname. left. reflexivity.
  - destruct (IH _ H) as (lv & mn & Hin). exists lv, mn. right. exact Hin.
Qed.

(* ---------------------------------------------------------------- keys of the dicts *)
Lemma In_nset_keys {V} a k (v : V) l : In a (map fst (nset k v l)) -> a = k \/ In a (map fst l).
Proof.
  induction l as [|[k' v'] l IH]; cbn [nset map fst In].
  - intros [<-|[]]. left. reflexivity.
  - destruct (N.eqb_spec k' k) as [->|Hne]; cbn [map fst In].
    + intros [<-|H]; [left; reflexivity|right; right; exact H].
    + intros [<-|H]; [right; left; reflexivity|]. destruct (IH H) as [->|H']; [left; reflexivity|right; right; exact H'].
Qed.
Lemma nset_keys_nodup {V} k (v : V) l : NoDup (map fst l) -> NoDup (map fst (nset k v l)).
Proof.
  induction l as [|[k' v'] l IH]; cbn [nset map fst]; intros Hnd.
  - constructor; [intros []|constructor].
  - inversion Hnd as [|? ? Hni Hnd']; subst. destruct (N.eqb_spec k' k) as [->|Hne]; cbn [map fst].
    + constructor; assumption.
    + constructor; [|apply IH; exact Hnd']. intros Hin. apply In_nset_keys in Hin. destruct Hin as [->|Hin]; [congruence|contradiction].
Qed.
Lemma nget_None_notin {V} k (l : list (N * V)) : nget k l = None -> ~ In k (map fst l).
Proof.
  unfold nget. induction l as [|[k' v'] l IH]; cbn [aget map fst In]; [tauto|].
  destruct (N.eqb_spec k' k) as [->|Hne]; [discriminate|]. intros H [E|Hin]; [congruence|exact (IH H Hin)].
Qed.
Lemma nget_notin_None {V} k (l : list (N * V)) : ~ In k (map fst l) -> nget k l = None.
Proof.
  unfold nget. induction l as [|[k' v'] l IH]; cbn [aget map fst In]; [reflexivity|].
  intros H. destruct (N.eqb_spec k' k) as [->|Hne]; [exfalso; apply H; left; reflexivity|]. apply IH. tauto.
Qed.
Lemma nget_ndel_same {V} k (l : list (N * V)) : NoDup (map fst l) -> nget k (ndel k l) = None.
Proof.
  unfold nget. induction l as [|[k' v'] l IH]; cbn [ndel aget map fst]; [reflexivity|]. intros Hnd.
  inversion Hnd as [|? ? Hni Hnd']; subst. destruct (N.eqb_spec k' k) as [->|Hne].
  - apply (nget_notin_None k l Hni).
  - cbn [aget]. destruct (N.eqb_spec k' k); [congruence|]. apply IH. exact Hnd'.
Qed.
Lemma nget_ndel_other {V} k k' (l : list (N * V)) : k' <> k -> nget k' (ndel k l) = nget k' l.
Proof.
  unfold nget. intros H. induction l as [|[k2 v2] l IH]; cbn [ndel aget]; [reflexivity|].
  destruct (N.eqb_spec k2 k) as [->|E]; cbn [aget].
  - destruct (N.eqb_spec k k'); [congruence|reflexivity].
  - destruct (N.eqb k2 k'); [reflexivity|exact IH].
Qed.
Lemma In_ndel_keys {V} a k (l : list (N * V)) : In a (map fst (ndel k l)) -> In a (map fst l).
Proof.
  induction l as [|[k' v'] l IH]; cbn [ndel map fst In]; [tauto|].
  destruct (N.eqb k' k); cbn [map fst In]; [tauto|]. intros [H|H]; [left; exact H|right; exact (IH H)].
Qed.
Lemma ndel_keys_nodup {V} k (l : list (N * V)) : NoDup (map fst l) -> NoDup (map fst (ndel k l)).
Proof.
  induction l as [|[k' v'] l IH]; cbn [ndel map fst]; intros Hnd; [constructor|].
  inversion Hnd as [|? ? Hni Hnd']; subst. destruct (N.eqb k' k); [exact Hnd'|]. cbn [map fst].
  constructor; [intros Hin; apply Hni; exact (In_ndel_keys _ _ _ Hin)|apply IH; exact Hnd'].
Qed.

Lemma pget_None_notin k (l : list (path * oid)) : pget k l = None -> ~ In k (map fst l).
Proof.
  induction l as [|[k' v'] l IH]; cbn [pget map fst In]; [tauto|].
  destruct (path_eqb k' k) eqn:E; [discriminate|]. apply path_eqb_false in E. intros H [E'|Hin]; [congruence|exact (IH H Hin)].
Qed.
Lemma pget_notin_None k (l : list (path * oid)) : ~ In k (map fst l) -> pget k l = None.
Proof.
  induction l as [|[k' v'] l IH]; cbn [pget map fst In]; [reflexivity|].
  intros H. destruct (path_eqb k' k) eqn:E; [apply path_eqb_eq in E; exfalso; apply H; left; exact E|]. apply IH. tauto.
Qed.
Lemma In_pset_keys a k v l : In a (map fst (pset k v l)) -> a = k \/ In a (map fst l).
Proof.
  induction l as [|[k' v'] l IH]; cbn [pset map fst In].
  - intros [<-|[]]. left. reflexivity.
  - destruct (path_eqb k' k) eqn:E; cbn [map fst In].
    + apply path_eqb_eq in E. subst k'. intros [<-|H]; [left; reflexivity|right; right; exact H].
    + intros [<-|H]; [right; left; reflexivity|]. destruct (IH H) as [->|H']; [left; reflexivity|right; right; exact H'].
Qed.
Lemma pset_keys_nodup k v l : NoDup (map fst l) -> NoDup (map fst (pset k v l)).
Proof.
  induction l as [|[k' v'] l IH]; cbn [pset map fst]; intros Hnd.
  - constructor; [intros []|constructor].
  - inversion Hnd as [|? ? Hni Hnd']; subst. destruct (path_eqb k' k) eqn:E; cbn [map fst].
    + apply path_eqb_eq in E. subst k'. constructor; assumption.
    + apply path_eqb_false in E. constructor; [|apply IH; exact Hnd'].
      intros Hin. apply In_pset_keys in Hin. destruct Hin as [->|Hin]; [congruence|contradiction].
Qed.
Lemma In_pdel_keys a k (l : list (path * oid)) : In a (map fst (pdel k l)) -> In a (map fst l).
Proof.
  induction l as [|[k' v'] l IH]; cbn [pdel map fst In]; [tauto|].
  destruct (path_eqb k' k); cbn [map fst In]; [tauto|]. intros [H|H]; [left; exact H|right; exact (IH H)].
Qed.
Lemma pdel_keys_nodup k (l : list (path * oid)) : NoDup (map fst l) -> NoDup (map fst (pdel k l)).
Proof.
  induction l as [|[k' v'] l IH]; cbn [pdel map fst]; intros Hnd; [constructor|].
  inversion Hnd as [|? ? Hni Hnd']; subst. destruct (path_eqb k' k); [exact Hnd'|]. cbn [map fst].
  constructor; [intros Hin; apply Hni; exact (In_pdel_keys _ _ _ Hin)|apply IH; exact Hnd'].
Qed.
Lemma pget_pdel_same k (l : list (path * oid)) : NoDup (map fst l) -> pget k (pdel k l) = None.
Proof.
  induction l as [|[k' v'] l IH]; cbn [pdel pget map fst]; [reflexivity|]. intros Hnd.
  inversion Hnd as [|? ? Hni Hnd']; subst. destruct (path_eqb k' k) eqn:E.
  - apply path_eqb_eq in E. subst k'. apply (pget_notin_None k l Hni).
  - cbn [pget]. rewrite E. apply IH. exact Hnd'.
Qed.
Lemma pget_pdel_other k k' (l : list (path * oid)) : k' <> k -> pget k' (pdel k l) = pget k' l.
Proof.
  intros H. induction l as [|[k2 v2] l IH]; cbn [pdel pget]; [reflexivity|].
  destruct (path_eqb k2 k) eqn:E; cbn [pget].
  - apply path_eqb_eq in E. subst k2. rewrite (path_eqb_neq k k') by congruence. reflexivity.
  - destruct (path_eqb k2 k'); [reflexivity|exact IH].
Qed.

Lemma NoDup_app_snoc {X} (l : list X) x : NoDup l -> ~ In x l -> NoDup (l ++ [x]).
Proof.
  induction l as [|y l IH]; cbn [app]; intros Hnd Hni; [constructor; [intros []|constructor]|].
  inversion Hnd as [|? ? Hy Hnd']; subst. constructor.
  - intros Hin. apply in_app_or in Hin. destruct Hin as [Hin|[<-|[]]]; [contradiction|]. apply Hni. left. reflexivity.
  - apply IH; [exact Hnd'|]. intros Hin. apply Hni. right. exact Hin.
Qed.
