(* Proofs/DiscoveryIRProofs.v -- the interpretation of the bodies translated from the CURRENT pydoctor/model.py
   (Gen/DiscoveryCode.v) is add_module_from_path / add_package / add_roots / reg_add of Model/Determinism.v, for every
   listing oracle, directory tree, fuel, registry state and module.  The proofs are symbolic executions of the generated
   terms (cbn + case analysis on the conditions met), not matches on their shape. *)
From Coq Require Import ZArith NArith List Bool Lia.
From PydoctorVerif Require Import Base.Sexp Model.DetTypes Gen.TablesC18 Model.Determinism Model.DiscoveryIR
     Gen.DiscoveryCode Proofs.DeterminismProofs.
Import ListNotations.

(* ------------------------------------------------------------------ loops *)
Lemma run_loop_flat_map : forall {X} (body : X -> list event * denv * flow) (f : X -> list event) (l : list X),
  (forall x, In x l -> fst (fst (body x)) = f x /\ (snd (body x) = FGo \/ snd (body x) = FCont)) ->
  run_loop body l = (flat_map f l, FGo).
Proof.
  intros X body f l. induction l as [|a l IH]; intros H; cbn [run_loop flat_map]; [reflexivity|].
  destruct (H a (or_introl eq_refl)) as [Hf Hfl].
  rewrite IH by (intros x Hx; apply H; right; exact Hx).
  destruct (body a) as [[ev en] fl]. cbn [fst snd] in Hf, Hfl. subst ev.
  destruct Hfl as [-> | ->]; reflexivity.
Qed.

Ltac split_conds :=
  repeat match goal with
         | |- context [if ?c then _ else _] => destruct c eqn:?
         | |- context [match ?c with Some _ => _ | None => _ end] => destruct c eqn:?
         end.

(* ------------------------------------------------------------------ addModuleFromPath *)
Theorem add_module_ir_eq : forall (pi : listing) parent name,
  add_module_ir discovery_code pi parent name = add_module_from_path parent name.
Proof.
  intros pi parent name. unfold add_module_ir, drun, add_module_from_path.
  change (c_add_module_from_path discovery_code) with code_add_module_from_path. unfold code_add_module_from_path.
  unfold all_suffixes, first_suffix.
  cbn -[ends_with strip_suffix].
  repeat match goal with
         | |- context [ends_with name ?s] => destruct (ends_with name s) eqn:?; cbn -[ends_with strip_suffix]
         end; reflexivity.
Qed.

(* ------------------------------------------------------------------ addPackage *)
Theorem add_package_ir_eq : forall (pi : listing) fuel parent name entries,
  add_package_ir discovery_code pi fuel parent name entries = add_package pi fuel parent name entries.
Proof.
  intros pi. induction fuel as [|f IH]; intros parent name entries; [reflexivity|].
  cbn [add_package_ir add_package]. unfold drun.
  change (c_add_package discovery_code) with code_add_package. unfold code_add_package.
  cbn [dexec denv0 d_entry d_pkg d_suffix d_modname].
  erewrite run_loop_flat_map.
  - cbn [fst snd app]. reflexivity.
  - (* one directory entry: case analysis on the ATOMIC tests the code can make about it, then plain evaluation *)
    intros x _. destruct x as [n|n es]; unfold init_py, dot;
      repeat match goal with
             | |- context [text_eqb n ?t] => destruct (text_eqb n t) eqn:?
             | |- context [starts_with n ?t] => destruct (starts_with n t) eqn:?
             | |- context [has_init es] => destruct (has_init es) eqn:?
             end;
      cbn [dexec deval d_entry d_pkg d_suffix d_modname entry_name fs_name fst snd negb andb orb app];
      repeat match goal with H : _ = _ |- _ => rewrite H end;
      cbn [dexec deval d_entry d_pkg d_suffix d_modname entry_name fs_name fst snd negb andb orb app];
      rewrite ?IH, ?add_module_ir_eq, ?app_nil_r; auto.
Qed.

Theorem add_roots_ir_eq : forall (pi : listing) fuel roots added,
  add_roots_ir discovery_code pi fuel added roots = add_roots pi fuel added roots.
Proof.
  intros pi fuel. induction roots as [|[pid n] r IH]; intros added; cbn [add_roots_ir add_roots]; [reflexivity|].
  rewrite !IH. destruct n; rewrite ?add_module_ir_eq, ?add_package_ir_eq; reflexivity.
Qed.

(* ------------------------------------------------------------------ the registry *)
Lemma remove_id_absent : forall i l, existsb (fun m => N.eqb (m_id m) i) l = false -> remove_id i l = l.
Proof.
  intros i l. induction l as [|m l IH]; intros H; cbn [remove_id]; [reflexivity|].
  cbn [existsb] in H. apply orb_false_iff in H as [H1 H2]. rewrite H1. f_equal. apply IH. exact H2.
Qed.

Lemma remove_root_absent : forall i l, existsb (fun o => N.eqb (ro_id o) i) l = false -> remove_root i l = l.
Proof.
  intros i l. induction l as [|o l IH]; intros H; cbn [remove_root]; [reflexivity|].
  cbn [existsb] in H. apply orb_false_iff in H as [H1 H2]. rewrite H1. f_equal. apply IH. exact H2.
Qed.

Lemma is_prefix_refl : forall p, is_prefix p p = true.
Proof. induction p as [|x p IH]; cbn [is_prefix]; [reflexivity|]. rewrite text_eqb_refl. exact IH. Qed.

Lemma find_after_remove : forall fn l,
  find (fun m => path_eqb (m_path m) fn) (filter (fun m => negb (is_prefix fn (m_path m))) l) = None.
Proof.
  intros fn l. induction l as [|m l IH]; cbn [filter find]; [reflexivity|].
  destruct (is_prefix fn (m_path m)) eqn:E; cbn [negb]; [exact IH|].
  cbn [find]. destruct (path_eqb (m_path m) fn) eqn:Ep; [|exact IH].
  apply path_eqb_eq in Ep. rewrite Ep, is_prefix_refl in E. discriminate.
Qed.

Lemma wl_go_drops : forall (step : reg -> N -> rres),
  (forall r i, step r i = RGo (mkReg (r_all r) (remove_id i (r_unproc r)) (r_rootobjs r) (r_next r))) ->
  forall items r,
    wl_go step items r =
    RGo (mkReg (r_all r) (fold_left (fun u i => remove_id i u) items (r_unproc r)) (r_rootobjs r) (r_next r)).
Proof.
  intros step Hs. induction items as [|i l IH]; intros r; cbn [wl_go fold_left].
  - destruct r; reflexivity.
  - rewrite Hs, IH. reflexivity.
Qed.

Ltac reg_step :=
  cbn [rexec reval fst snd e_first e_item e_snapshot negb andb orb extends_children
       r_all r_unproc r_rootobjs r_next m_path m_pkg m_id].

Lemma aup_ir_unfold : forall C f parent name is_pkg r,
  aup_ir C (S f) parent name is_pkg r =
  match fst (rexec parent name is_pkg
               (fun (first : option modent) (r : reg) =>
                  match fst (rexec parent name is_pkg (fun _ _ => RBad) (aup_ir C f parent name is_pkg)
                                   (c_handle_duplicate C) r (mkRenv first None (r_all r))) with
                  | RGo r' | RRet r' => RGo r'
                  | RBad => RBad
                  end)
               (fun _ => RBad) (c_add_unprocessed C) r renv0) with
  | RGo r' | RRet r' => RGo r'
  | RBad => RBad
  end.
Proof. reflexivity. Qed.

(* _addUnprocessedModule for a module whose name is free: appended to unprocessed_modules and to the system *)
Lemma aup_ir_fresh : forall f parent name is_pkg R,
  find (fun m => path_eqb (m_path m) (parent ++ [name])) (r_all R) = None ->
  aup_ir registry_code (S f) parent name is_pkg R =
  RGo (mkReg (r_all R ++ [mkMod (parent ++ [name]) is_pkg (r_next R)])
             (r_unproc R ++ [mkMod (parent ++ [name]) is_pkg (r_next R)])
             (match parent with
              | [] => r_rootobjs R ++ [mkRoot (r_next R) name (if is_pkg then kind_package else kind_module)]
              | _ => r_rootobjs R
              end)
             (r_next R)).
Proof.
  intros f parent name is_pkg R Hf. rewrite aup_ir_unfold.
  change (c_add_unprocessed registry_code) with code_add_unprocessed.
  unfold code_add_unprocessed, renv0. reg_step. unfold fn. rewrite Hf. reg_step. reflexivity.
Qed.

(* symbolic execution of the registry code: evaluate; when stuck on an ATOMIC test about `first` / the registry, split on
   it; run the work list through wl_go_drops; the re-entrant _addUnprocessedModule(dup) finds the name free *)
Ltac reg_crunch r first :=
  repeat first
    [ progress reg_step
    | match goal with
      | H : m_path first = _ |- _ => progress rewrite H
      | |- context [m_pkg first] => destruct (m_pkg first) eqn:?
      | |- context [Nat.ltb 1 (length ?p)] => destruct (Nat.ltb 1 (length p)) eqn:?
      | |- context [existsb (fun o => N.eqb (ro_id o) (m_id first)) (r_rootobjs r)] =>
          destruct (existsb (fun o => N.eqb (ro_id o) (m_id first)) (r_rootobjs r)) eqn:?
      | |- context [wl_go _ _ _] =>
          rewrite wl_go_drops by
            (let r0 := fresh "r0" in let i := fresh "i" in let E := fresh "E" in
             intros r0 i; reg_step;
             destruct (existsb (fun m => N.eqb (m_id m) i) (r_unproc r0)) eqn:E; reg_step;
             [reflexivity | rewrite (remove_id_absent _ _ E); destruct r0; reflexivity])
      | |- context [aup_ir registry_code (S ?f) ?p ?n ?k ?R] =>
          rewrite (aup_ir_fresh f p n k R) by apply find_after_remove
      end ].

Theorem reg_add_ir_eq : forall r parent name is_pkg,
  reg_add_ir registry_code r parent name is_pkg = Some (reg_add r parent name is_pkg).
Proof.
  intros r parent name is_pkg. unfold reg_add_ir, reg_add.
  destruct (find (fun m => path_eqb (m_path m) (parent ++ [name])) (r_all r)) as [first|] eqn:Ef.
  2:{ (* no module of that name yet *)
      rewrite (aup_ir_fresh 2 _ _ _ _ Ef). unfold reg_append. reflexivity. }
  (* a duplicate: split on the kinds of the two modules, then execute *)
  assert (Hpath : m_path first = parent ++ [name]).
  { apply find_some in Ef as [_ Ep]. apply path_eqb_eq in Ep. exact Ep. }
  rewrite aup_ir_unfold.
  change (c_add_unprocessed registry_code) with code_add_unprocessed.
  change (c_handle_duplicate registry_code) with code_handle_duplicate.
  unfold code_add_unprocessed, renv0. reg_step. unfold fn. rewrite Ef. reg_step.
  unfold code_handle_duplicate.
  destruct is_pkg; reg_crunch r first; unfold reg_append;
    try match goal with
        | H : existsb _ (r_rootobjs r) = false |- _ => rewrite (remove_root_absent _ _ H)
        end;
    reflexivity.
Qed.

Theorem reg_of_events_ir_eq : forall evs,
  reg_of_events_ir registry_code evs = Some (reg_of_events evs).
Proof.
  intros evs. unfold reg_of_events_ir, reg_of_events.
  generalize (mkReg [] [] [] 0%N) as r0. induction evs as [|e evs IH]; intros r0; cbn [fold_left]; [reflexivity|].
  destruct e as [p n k| |]; [rewrite reg_add_ir_eq|..]; apply IH.
Qed.
