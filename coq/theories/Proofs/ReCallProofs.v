(* Proofs/ReCallProofs.v -- the envelope of _colorize_ast_re (Model/ExprPrint.re_cmd): when it falls back to the generic
   call display, and what it shows otherwise. *)
From Coq Require Import ZArith NArith List Bool Lia.
From PydoctorVerif Require Import Base.Sexp Base.PyExpr Gen.TablesC15 Model.StrEsc Model.Wrap Spec.PyGrammar Spec.PyTokenizer
     Model.ExprPrint Proofs.WrapProofs.
Import ListNotations.
Local Open Scope N_scope.

Definition str_pattern (pat : expr) : option (bool * text) :=
  match pat with
  | ELeaf (LConst (KStr s)) => Some (false, s)
  | ELeaf (LConst (KBytes s)) => Some (true, s)
  | _ => None
  end.

(* every way of falling back: the arguments do not bind (TypeError), the bound pattern is not a str/bytes constant,
   or the regex colouriser raised on a one-line pattern *)
Theorem re_fallback oracle f args kws :
  (bind_re args kws = None \/
   (exists pat flags, bind_re args kws = Some (pat, flags) /\ str_pattern pat = None) \/
   (exists pat flags b s, bind_re args kws = Some (pat, flags) /\ str_pattern pat = Some (b, s) /\ has_nl s = false
                          /\ oracle = ReRaised)) ->
  re_cmd oracle f args kws = generic_call f args kws.
Proof.
  unfold re_cmd. intros [H | [[pat [flags [H Hp]]] | [pat [flags [b [s [H [Hp [Hn Ho]]]]]]]]]; rewrite H.
  - reflexivity.
  - destruct pat; try reflexivity. destruct l as [c|g]; try reflexivity. destruct c; try reflexivity; discriminate.
  - subst oracle. destruct pat; try discriminate. destruct l as [c|g]; try discriminate.
    destruct c; try discriminate; cbn [str_pattern] in Hp; inversion Hp; subst; rewrite Hn; reflexivity.
Qed.

(* otherwise: re.compile( pattern [, flags] ) -- the pattern as a string literal when it has a newline, else what the
   regex colouriser wrote; the flags argument printed like any argument; nothing else *)
Definition pieces_text (ps : list (text * nkind)) : text := flat_map fst ps.

Lemma flat_pieces ps : flat (CSeq (map (fun tk : text * nkind => COut (fst tk) (snd tk)) ps)) = pieces_text ps.
Proof. rewrite flat_CSeq. induction ps as [|[t k] ps IH]; [reflexivity|]. cbn [map flat_seq flat fst pieces_text flat_map] in *. rewrite IH. reflexivity. Qed.

Theorem re_envelope_text oracle f args kws pat flags isb raw :
  bind_re args kws = Some (pat, flags) -> str_pattern pat = Some (isb, raw) ->
  (has_nl raw = true \/ exists ps, oracle = RePieces ps) ->
  flat (re_cmd oracle f args kws) =
  [114; 101; 46; 99; 111; 109; 112; 105; 108; 101; 40]
    ++ (if has_nl raw then flat (CStr isb raw) else match oracle with RePieces ps => pieces_text ps | ReRaised => [] end)
    ++ match flags with Some fl => [44; 32] ++ flat (compile (POther None) fl) | None => [] end
    ++ [41].
Proof.
  intros H Hp Ho. unfold re_cmd. rewrite H.
  destruct pat; try discriminate. destruct l as [c|g]; try discriminate.
  destruct c; try discriminate; cbn [str_pattern] in Hp; inversion Hp; subst;
    (destruct (has_nl raw) eqn:En;
     [ destruct flags as [fl|]; unfold out, T_LP, T_RP; cbn [flat app]; rewrite ?app_nil_r; rewrite <- ?app_assoc; cbn [app];
       rewrite <- ?app_assoc; reflexivity
     | destruct Ho as [Ho|[ps ->]]; [discriminate|];
       pose proof (flat_pieces ps) as Hps; rewrite flat_CSeq in Hps;
       destruct flags as [fl|]; unfold out, T_LP, T_RP; cbn [flat app]; fold (flat_seq (map (fun tk : text * nkind => COut (fst tk) (snd tk)) ps));
       rewrite Hps; rewrite ?app_nil_r; rewrite <- ?app_assoc; cbn [app]; rewrite <- ?app_assoc; reflexivity ]).
Qed.
