(* Proofs/DeterminismProofs.v -- lemmas for C18 (Model/Determinism.v against Spec/SortSpec.v). *)
From Coq Require Import ZArith NArith List Bool Lia Sorting.Permutation Sorting.Sorted.
From PydoctorVerif Require Import Base.Sexp Model.DetTypes Gen.TablesC18 Model.Determinism Spec.SortSpec.
Import ListNotations.
Local Open Scope Z_scope.

(* ------------------------------------------------------------------ the key order is a total order *)
Lemma lex_leb_refl : forall a, lex_leb a a = true.
Proof.
  induction a as [|x a IH]; cbn [lex_leb]; [reflexivity|].
  rewrite Z.ltb_irrefl. exact IH.
Qed.

Lemma lex_leb_total : forall a b, lex_leb a b = true \/ lex_leb b a = true.
Proof.
  induction a as [|x a IH]; intros [|y b]; cbn [lex_leb]; auto.
  destruct (x <? y) eqn:Hxy; [auto|].
  destruct (y <? x) eqn:Hyx; [auto|].
  apply IH.
Qed.

Lemma lex_leb_antisym : forall a b, lex_leb a b = true -> lex_leb b a = true -> a = b.
Proof.
  induction a as [|x a IH]; intros [|y b] Hab Hba; cbn [lex_leb] in *; try reflexivity; try discriminate.
  destruct (x <? y) eqn:Hxy; destruct (y <? x) eqn:Hyx;
    try (apply Z.ltb_lt in Hxy); try (apply Z.ltb_lt in Hyx); try lia; try discriminate.
  apply Z.ltb_ge in Hxy. apply Z.ltb_ge in Hyx.
  assert (x = y) by lia. subst y. f_equal. apply IH; assumption.
Qed.

Lemma lex_leb_trans : forall a b c, lex_leb a b = true -> lex_leb b c = true -> lex_leb a c = true.
Proof.
  induction a as [|x a IH]; intros [|y b] [|z c] Hab Hbc; cbn [lex_leb] in *; try reflexivity; try discriminate.
  destruct (x <? y) eqn:Hxy; destruct (y <? z) eqn:Hyz; destruct (x <? z) eqn:Hxz; try reflexivity;
    try (apply Z.ltb_lt in Hxy); try (apply Z.ltb_lt in Hyz); try (apply Z.ltb_ge in Hxz);
    try (apply Z.ltb_ge in Hxy); try (apply Z.ltb_ge in Hyz); try lia.
  - (* x < y, y >= z, x >= z *)
    destruct (z <? y) eqn:Hzy; [discriminate|]. apply Z.ltb_ge in Hzy. lia.
  - (* x >= y, y < z , x >= z*)
    destruct (y <? x) eqn:Hyx; [discriminate|]. apply Z.ltb_ge in Hyx. lia.
  - destruct (y <? x) eqn:Hyx; [discriminate|]. destruct (z <? y) eqn:Hzy; [discriminate|].
    apply Z.ltb_ge in Hyx. apply Z.ltb_ge in Hzy.
    assert (x = y) by lia. assert (y = z) by lia. subst.
    rewrite Z.ltb_irrefl. eapply IH; eassumption.
Qed.

Lemma lex_leb_false : forall a b, lex_leb a b = false -> lex_leb b a = true.
Proof. intros a b H. destruct (lex_leb_total a b) as [H'|H']; [congruence|exact H']. Qed.

(* ------------------------------------------------------------------ the stable sort meets the spec *)
Section SortProofs.
  Context {A : Type} (key : A -> list Z).

  Lemma insert_perm : forall x l, Permutation (x :: l) (insert_by key x l).
  Proof.
    intros x l. induction l as [|y r IH]; cbn [insert_by]; [apply Permutation_refl|].
    destruct (lex_leb (key x) (key y)); [apply Permutation_refl|].
    eapply perm_trans; [apply perm_swap|]. apply perm_skip. exact IH.
  Qed.

  Lemma sort_perm : forall l, Permutation l (sort_by key l).
  Proof.
    induction l as [|x l IH]; cbn [sort_by fold_right]; [apply perm_nil|].
    eapply perm_trans; [apply perm_skip; exact IH|]. apply insert_perm.
  Qed.

  Lemma insert_sorted : forall x l, ascending key l -> ascending key (insert_by key x l).
  Proof.
    intros x l Hs. induction Hs as [|y r Hr IH Hy]; cbn [insert_by].
    - constructor; [constructor|constructor].
    - destruct (lex_leb (key x) (key y)) eqn:Hxy.
      + constructor; [constructor; assumption|].
        constructor; [exact Hxy|].
        rewrite Forall_forall in *. intros z Hz. unfold key_le in *.
        eapply lex_leb_trans; [exact Hxy|]. apply Hy. exact Hz.
      + constructor; [exact IH|].
        apply lex_leb_false in Hxy.
        rewrite Forall_forall in *. intros z Hz.
        apply (Permutation_in _ (Permutation_sym (insert_perm x r))) in Hz.
        destruct Hz as [<-|Hz]; [exact Hxy|apply Hy; exact Hz].
  Qed.

  Lemma sort_sorted : forall l, ascending key (sort_by key l).
  Proof.
    induction l as [|x l IH]; cbn [sort_by fold_right]; [constructor|].
    apply insert_sorted. exact IH.
  Qed.

  (* stability *)
  Lemma key_equiv_le : forall a b k, key_equiv a k = true -> lex_leb a b = false -> key_equiv b k = false.
  Proof.
    intros a b k Hak Hab. unfold key_equiv in *. apply andb_true_iff in Hak as [H1 H2].
    destruct (lex_leb b k) eqn:Hbk; [|reflexivity]. cbn [andb].
    (* b <= k <= a  contradicts  not a <= b ... we need k <= b false *)
    destruct (lex_leb k b) eqn:Hkb; [|reflexivity].
    exfalso. assert (lex_leb a b = true) by (eapply lex_leb_trans; eassumption). congruence.
  Qed.

  Lemma insert_filter : forall k x l, ascending key l ->
    filter (fun a => key_equiv (key a) k) (insert_by key x l) =
    filter (fun a => key_equiv (key a) k) (x :: l).
  Proof.
    intros k x l Hs. induction Hs as [|y r Hr IH Hy]; cbn [insert_by]; [reflexivity|].
    destruct (lex_leb (key x) (key y)) eqn:Hxy; [reflexivity|].
    cbn [filter] in *. rewrite IH.
    destruct (key_equiv (key x) k) eqn:Hx; [|reflexivity].
    rewrite (key_equiv_le _ _ _ Hx Hxy). reflexivity.
  Qed.

  Lemma sort_stable : forall k l,
    filter (fun a => key_equiv (key a) k) (sort_by key l) = filter (fun a => key_equiv (key a) k) l.
  Proof.
    intros k. induction l as [|x l IH]; cbn [sort_by fold_right]; [reflexivity|].
    rewrite insert_filter by apply sort_sorted. cbn [filter]. fold (sort_by key l). rewrite IH. reflexivity.
  Qed.

  Theorem sort_by_meets_spec : forall l, stable_sort_of key l (sort_by key l).
  Proof. intros l. split; [apply sort_perm|]. split; [apply sort_sorted|]. intros k. apply sort_stable. Qed.

  (* an ascending list whose keys are pairwise distinct is determined by its set of elements *)
  Definition key_inj_on (l : list A) : Prop := forall a b, In a l -> In b l -> key a = key b -> a = b.

  Lemma ascending_unique : forall l1 l2,
    ascending key l1 -> ascending key l2 -> Permutation l1 l2 -> key_inj_on l1 -> l1 = l2.
  Proof.
    induction l1 as [|a l1 IH]; intros l2 H1 H2 Hp Hinj.
    - apply Permutation_nil in Hp. subst. reflexivity.
    - destruct l2 as [|b l2]; [apply Permutation_sym, Permutation_nil in Hp; discriminate|].
      inversion H1 as [|? ? Hs1 Hf1]; subst. inversion H2 as [|? ? Hs2 Hf2]; subst.
      assert (Hab : a = b).
      { assert (Hb : In b (a :: l1)) by (eapply Permutation_in; [apply Permutation_sym; exact Hp|left; reflexivity]).
        assert (Ha : In a (b :: l2)) by (eapply Permutation_in; [exact Hp|left; reflexivity]).
        destruct Hb as [Hb|Hb]; [exact Hb|]. destruct Ha as [Ha|Ha]; [symmetry; exact Ha|].
        rewrite Forall_forall in Hf1, Hf2.
        apply Hinj; [left; reflexivity|right; exact Hb|].
        apply lex_leb_antisym; [apply Hf1; exact Hb|apply Hf2; exact Ha]. }
      subst b. f_equal. apply IH; try assumption.
      + eapply Permutation_cons_inv. exact Hp.
      + intros x y Hx Hy. apply Hinj; right; assumption.
  Qed.

  (* sorted() of a SET under an injective key does not depend on the iteration order of the set *)
  Theorem sort_perm_invariant : forall l1 l2,
    Permutation l1 l2 -> key_inj_on l1 -> sort_by key l1 = sort_by key l2.
  Proof.
    intros l1 l2 Hp Hinj. apply ascending_unique; try apply sort_sorted.
    - eapply perm_trans; [apply Permutation_sym, sort_perm|]. eapply perm_trans; [exact Hp|apply sort_perm].
    - intros a b Ha Hb. apply Hinj; eapply Permutation_in; try (apply Permutation_sym, sort_perm); assumption.
  Qed.

  (* the spec is functional: any two results allowed by the spec for the same input coincide
     (so `sort_by` IS Python's sorted, whatever algorithm CPython uses) *)
End SortProofs.

Lemma NoDup_map_inj_on : forall {A B} (f : A -> B) (l : list A),
  NoDup (map f l) -> forall a b, In a l -> In b l -> f a = f b -> a = b.
Proof.
  intros A B f l. induction l as [|x l IH]; intros Hn a b Ha Hb Hf; [destruct Ha|].
  cbn [map] in Hn. inversion Hn as [|? ? Hnx Hn']; subst.
  destruct Ha as [<-|Ha]; destruct Hb as [<-|Hb]; try reflexivity.
  - exfalso. apply Hnx. rewrite Hf. apply in_map. exact Hb.
  - exfalso. apply Hnx. rewrite <- Hf. apply in_map. exact Ha.
  - apply IH; assumption.
Qed.

(* ------------------------------------------------------------------ text equality, key encodings *)
Lemma text_eqb_eq : forall a b, text_eqb a b = true <-> a = b.
Proof.
  unfold text_eqb. induction a as [|x a IH]; intros [|y b]; split; intros H; try reflexivity; try discriminate.
  - apply andb_true_iff in H as [H1 H2]. apply N.eqb_eq in H1. apply IH in H2. subst. reflexivity.
  - inversion H; subst. apply andb_true_iff. split; [apply N.eqb_refl|apply IH; reflexivity].
Qed.

Lemma path_eqb_eq : forall a b, path_eqb a b = true <-> a = b.
Proof.
  induction a as [|x a IH]; intros [|y b]; cbn [path_eqb]; split; intros H; try reflexivity; try discriminate.
  - apply andb_true_iff in H as [H1 H2]. apply text_eqb_eq in H1. apply IH in H2. subst. reflexivity.
  - inversion H; subst. apply andb_true_iff. split; [apply text_eqb_eq; reflexivity|apply IH; reflexivity].
Qed.

Lemma mem_text_In : forall x l, mem_text x l = true <-> In x l.
Proof.
  intros x l. unfold mem_text. rewrite existsb_exists. split.
  - intros [y [Hy He]]. apply text_eqb_eq in He. subst. exact Hy.
  - intros H. exists x. split; [exact H|apply text_eqb_eq; reflexivity].
Qed.

(* a string component is self-delimiting inside a flattened key *)
Lemma enc_text_delim : forall t1 t2 r1 r2, enc_text t1 ++ r1 = enc_text t2 ++ r2 -> t1 = t2 /\ r1 = r2.
Proof.
  unfold enc_text. induction t1 as [|x t1 IH]; intros [|y t2] r1 r2 H; cbn [map app] in H.
  - injection H as H0. subst. split; reflexivity.
  - injection H as H0 _. lia.
  - injection H as H0 _. lia.
  - injection H as H0 H1. apply N2Z.inj in H0. subst y.
    destruct (IH t2 r1 r2 H1) as [-> ->]. split; reflexivity.
Qed.

Lemma enc_text_inj : forall a b, enc_text a = enc_text b -> a = b.
Proof.
  intros a b H. destruct (enc_text_delim a b [] []) as [E _]; [rewrite !app_nil_r; exact H|exact E].
Qed.

(* ------------------------------------------------------------------ C18_fs_order_free *)
Lemma fs_wf_entries : forall n es e, fs_wf (FDir n es) -> In e es -> fs_wf e.
Proof.
  intros n es e [_ Hall] Hin. induction es as [|x r IH]; [destruct Hin|].
  destruct Hall as [Hx Hr]. destruct Hin as [<-|Hin]; [exact Hx|apply IH; assumption].
Qed.

Lemma fs_key_inj_on : forall es, NoDup (map fs_name es) -> key_inj_on fs_key es.
Proof.
  intros es Hn a b Ha Hb Hk. unfold fs_key in Hk. apply enc_text_inj in Hk.
  eapply NoDup_map_inj_on; eassumption.
Qed.

(* what addPackage iterates over is a function of the SET of directory entries *)
Lemma sorted_listing_invariant : forall (pi1 pi2 : listing) es,
  perm_oracle pi1 -> perm_oracle pi2 -> NoDup (map fs_name es) ->
  sort_by fs_key (pi1 es) = sort_by fs_key (pi2 es).
Proof.
  intros pi1 pi2 es H1 H2 Hn. apply sort_perm_invariant.
  - eapply perm_trans; [apply H1|apply Permutation_sym, H2].
  - intros a b Ha Hb. apply (fs_key_inj_on es Hn); eapply Permutation_in; try apply H1; assumption.
Qed.

Lemma flat_map_ext_in : forall {A B} (f g : A -> list B) l,
  (forall a, In a l -> f a = g a) -> flat_map f l = flat_map g l.
Proof.
  intros A B f g l H. induction l as [|x l IH]; cbn [flat_map]; [reflexivity|].
  rewrite H by (left; reflexivity). rewrite IH; [reflexivity|]. intros a Ha. apply H. right. exact Ha.
Qed.

Lemma add_package_order_free : forall (pi1 pi2 : listing),
  perm_oracle pi1 -> perm_oracle pi2 ->
  forall fuel parent name es, fs_wf (FDir name es) ->
    add_package pi1 fuel parent name es = add_package pi2 fuel parent name es.
Proof.
  intros pi1 pi2 H1 H2. induction fuel as [|f IH]; intros parent name es Hwf; cbn [add_package]; [reflexivity|].
  f_equal. destruct Hwf as [Hn Hall].
  rewrite (sorted_listing_invariant pi1 pi2 es H1 H2 Hn).
  apply flat_map_ext_in. intros e He.
  destruct e as [n|n es']; [reflexivity|].
  destruct (has_init es'); [|reflexivity].
  apply IH. eapply (fs_wf_entries name es); [split; assumption|].
  eapply Permutation_in; [|exact He].
  eapply perm_trans; [apply Permutation_sym, sort_perm|apply H2].
Qed.

Lemma add_roots_order_free : forall (pi1 pi2 : listing),
  perm_oracle pi1 -> perm_oracle pi2 ->
  forall fuel roots added, (forall r, In r roots -> fs_wf (snd r)) ->
    add_roots pi1 fuel added roots = add_roots pi2 fuel added roots.
Proof.
  intros pi1 pi2 H1 H2 fuel. induction roots as [|[pid n] r IH]; intros added Hwf; cbn [add_roots]; [reflexivity|].
  assert (Hr : forall x, In x r -> fs_wf (snd x)) by (intros x Hx; apply Hwf; right; exact Hx).
  destruct (existsb (N.eqb pid) added); [apply IH; exact Hr|].
  destruct n as [nm|nm es].
  - f_equal. apply IH; exact Hr.
  - destruct (has_init_file es); [|reflexivity].
    f_equal; [|apply IH; exact Hr].
    apply add_package_order_free; try assumption. apply (Hwf (pid, FDir nm es)). left. reflexivity.
Qed.

(* fuel: the depth of the tree is enough *)
Lemma fold_max_ge : forall es e, In e es ->
  (fs_depth e <= fold_right (fun x acc => Nat.max (fs_depth x) acc) 0 es)%nat.
Proof.
  induction es as [|x r IH]; intros e Hin; [destruct Hin|]. cbn [fold_right].
  destruct Hin as [<-|Hin]; [lia|]. specialize (IH e Hin). lia.
Qed.

Lemma add_module_no_fuel_event : forall parent n, ~ In EvOutOfFuel (add_module_from_path parent n).
Proof.
  intros parent n. unfold add_module_from_path.
  destruct (first_suffix all_suffixes n); [|intros []].
  destruct (mem_text t extension_suffixes); [intros []|].
  destruct (mem_text t source_suffixes); [|intros []].
  intros [H|[]]. discriminate.
Qed.

Lemma add_package_fuel : forall (pi : listing), perm_oracle pi ->
  forall fuel parent name es, (fs_depth (FDir name es) <= fuel)%nat ->
    ~ In EvOutOfFuel (add_package pi fuel parent name es).
Proof.
  intros pi Hpi. induction fuel as [|f IH]; intros parent name es Hd; [cbn [fs_depth] in Hd; lia|].
  cbn [add_package]. intros [H|H]; [discriminate|].
  apply in_flat_map in H as [e [He Hin]].
  assert (Hes : In e es).
  { eapply Permutation_in; [|exact He]. eapply perm_trans; [apply Permutation_sym, sort_perm|apply Hpi]. }
  destruct e as [n|n es'].
  - destruct (negb (text_eqb n init_py) && negb (starts_with n [dot])); [|destruct Hin].
    eapply add_module_no_fuel_event. exact Hin.
  - destruct (has_init es'); [|destruct Hin].
    revert Hin. apply IH.
    cbn [fs_depth] in Hd. pose proof (fold_max_ge es _ Hes) as Hm. cbn [fs_depth] in *. lia.
Qed.

(* ------------------------------------------------------------------ System.root_names: every use is order free *)
Section RootNames.
  Variables pi1 pi2 : set_order.
  Hypothesis H1 : perm_oracle pi1.
  Hypothesis H2 : perm_oracle pi2.

  Lemma root_names_perm : forall roots, Permutation (root_names pi1 roots) (root_names pi2 roots).
  Proof. intros. unfold root_names. eapply perm_trans; [apply H1|apply Permutation_sym, H2]. Qed.

  Lemma url_is_index_order_free : forall roots fn, url_is_index pi1 roots fn = url_is_index pi2 roots fn.
  Proof.
    intros roots fn. unfold url_is_index. apply eq_true_iff_eq. rewrite !path_eqb_eq.
    pose proof (root_names_perm roots) as Hp.
    split; intros E.
    - rewrite E in Hp. apply Permutation_length_1_inv. exact Hp.
    - rewrite E in Hp. apply Permutation_sym in Hp. apply Permutation_length_1_inv. exact Hp.
  Qed.

  Lemma symlink_of_order_free : forall roots, symlink_of pi1 roots = symlink_of pi2 roots.
  Proof.
    intros roots. unfold symlink_of. pose proof (root_names_perm roots) as Hp.
    rewrite <- (Permutation_length Hp).
    destruct (Nat.eqb (length (root_names pi1 roots)) 1) eqn:E; [|reflexivity].
    apply Nat.eqb_eq in E.
    destruct (root_names pi1 roots) as [|x [|y r]] eqn:Er; try discriminate.
    apply Permutation_length_1_inv in Hp. rewrite Hp. reflexivity.
  Qed.

  Lemma has_index_page_order_free : forall roots, has_index_page pi1 roots = has_index_page pi2 roots.
  Proof. intros roots. unfold has_index_page. rewrite (Permutation_length (root_names_perm roots)). reflexivity. Qed.

  Lemma is_root_order_free : forall roots x, is_root pi1 roots x = is_root pi2 roots x.
  Proof.
    intros roots x. unfold is_root. apply eq_true_iff_eq. rewrite !mem_text_In.
    split; apply Permutation_in; [|apply Permutation_sym]; apply root_names_perm.
  Qed.

  (* the OLD project-name guess under the guard of the design document: one distinct root *)
  Lemma guess_name_old_single : forall roots, length (dedup roots) = 1%nat ->
    guess_name_old pi1 roots = guess_name_old pi2 roots.
  Proof.
    intros roots Hl. unfold guess_name_old. pose proof (root_names_perm roots) as Hp.
    assert (Hl1 : length (root_names pi1 roots) = 1%nat).
    { unfold root_names. rewrite (Permutation_length (H1 _)). exact Hl. }
    destruct (root_names pi1 roots) as [|x [|y r]] eqn:Er; try discriminate.
    apply Permutation_length_1_inv in Hp. rewrite Hp. reflexivity.
  Qed.
End RootNames.

(* rootkind: sorted(set(kinds), key=name) *)
Fixpoint distinct_texts (l : list text) : bool :=
  match l with [] => true | x :: r => negb (mem_text x r) && distinct_texts r end.

Lemma distinct_texts_NoDup : forall l, distinct_texts l = true -> NoDup l.
Proof.
  induction l as [|x r IH]; intros H; [constructor|]. cbn [distinct_texts] in H.
  apply andb_true_iff in H as [Hx Hr]. constructor; [|apply IH; exact Hr].
  intros Hin. apply mem_text_In in Hin. rewrite Hin in Hx. discriminate.
Qed.

Lemma find_fst_In : forall (k : Z) (t : list (Z * text)),
  In k (map fst t) -> exists p, find (fun p => Z.eqb (fst p) k) t = Some p /\ In p t /\ fst p = k.
Proof.
  intros k t. induction t as [|q t IH]; intros Hin; [destruct Hin|]. cbn [find].
  destruct (Z.eqb (fst q) k) eqn:E.
  - apply Z.eqb_eq in E. exists q. split; [reflexivity|]. split; [left; reflexivity|exact E].
  - destruct Hin as [Hq|Hin]; [apply Z.eqb_neq in E; congruence|].
    destruct (IH Hin) as [p [Hf [Hp Hk]]]. exists p. split; [exact Hf|]. split; [right; exact Hp|exact Hk].
Qed.

Lemma kind_name_inj : distinct_texts (map snd kind_table) = true ->
  forall a b, In a (map fst kind_table) -> In b (map fst kind_table) -> kind_name a = kind_name b -> a = b.
Proof.
  intros Hd a b Ha Hb E. unfold kind_name in E.
  destruct (find_fst_In a kind_table Ha) as [p [Hfp [Hp Hpa]]].
  destruct (find_fst_In b kind_table Hb) as [q [Hfq [Hq Hqb]]].
  rewrite Hfp, Hfq in E.
  assert (p = q).
  { eapply (NoDup_map_inj_on snd kind_table); [apply distinct_texts_NoDup; exact Hd| | |]; assumption. }
  subst q. congruence.
Qed.

Lemma rootkinds_order_free : distinct_texts (map snd kind_table) = true ->
  forall (pi1 pi2 : list Z -> list Z), perm_oracle pi1 -> perm_oracle pi2 ->
  forall kinds, (forall k, In k kinds -> In k (map fst kind_table)) ->
    rootkinds pi1 kinds = rootkinds pi2 kinds.
Proof.
  intros Hd pi1 pi2 H1 H2 kinds Hk. unfold rootkinds. apply sort_perm_invariant.
  - eapply perm_trans; [apply H1|apply Permutation_sym, H2].
  - assert (Hsub : forall k, In k (dedup_z kinds) -> In k kinds).
    { clear. induction kinds as [|x r IH]; intros k Hin; [destruct Hin|]. cbn [dedup_z] in Hin.
      destruct (existsb (Z.eqb x) r); [right; apply IH; exact Hin|].
      destruct Hin as [<-|Hin]; [left; reflexivity|right; apply IH; exact Hin]. }
    intros a b Ha Hb E. unfold kind_name_key in E. apply enc_text_inj in E.
    apply (kind_name_inj Hd); try exact E; apply Hk, Hsub; (eapply Permutation_in; [apply H1|]); assumption.
Qed.

(* ------------------------------------------------------------------ sort keys *)
Section KeyProofs.
  Variable lower : text -> text.

  Lemma eval_comp_delim : forall c o1 o2 r1 r2,
    eval_comp lower c o1 ++ r1 = eval_comp lower c o2 ++ r2 ->
    eval_comp lower c o1 = eval_comp lower c o2 /\ r1 = r2.
  Proof.
    intros c o1 o2 r1 r2 H. destruct c; cbn [eval_comp] in *;
      try (inversion H; split; reflexivity);
      try (apply enc_text_delim in H as [E ->]; rewrite E; split; reflexivity).
  Qed.

  Lemma key_of_fullname : forall def o1 o2,
    def_has_fullname def = true -> key_of lower def o1 = key_of lower def o2 -> o_full o1 = o_full o2.
  Proof.
    unfold key_of, def_has_fullname. induction def as [|c def IH]; intros o1 o2 Hh Hk; [discriminate|].
    cbn [flat_map existsb] in *. apply eval_comp_delim in Hk as [Hc Hr].
    apply orb_true_iff in Hh as [Hh|Hh].
    - destruct c; try discriminate. cbn [eval_comp] in Hc. apply enc_text_inj in Hc. exact Hc.
    - apply IH; assumption.
  Qed.

  (* sorted(<set of objects>, key=K) for a key tuple K that contains fullName(): a function of the set *)
  Theorem sorted_set_by_fullname_key : forall def, def_has_fullname def = true ->
    forall (pi1 pi2 : list obj -> list obj), perm_oracle pi1 -> perm_oracle pi2 ->
    forall objs, NoDup (map o_full objs) ->
      sort_by (key_of lower def) (pi1 objs) = sort_by (key_of lower def) (pi2 objs).
  Proof.
    intros def Hd pi1 pi2 H1 H2 objs Hn. apply sort_perm_invariant.
    - eapply perm_trans; [apply H1|apply Permutation_sym, H2].
    - intros a b Ha Hb E. apply (key_of_fullname def a b Hd) in E.
      eapply (NoDup_map_inj_on o_full objs Hn); try exact E; (eapply Permutation_in; [apply H1|]); assumption.
  Qed.
End KeyProofs.

(* ------------------------------------------------------------------ counters *)
Lemma assign_ids_nth : forall last n k, (k < n)%nat ->
  nth k (fst (assign_ids last n)) 0%N = (last + N.of_nat (S k))%N.
Proof.
  intros last n k Hk. unfold assign_ids. cbn [fst].
  set (f := fun i : nat => (last + N.of_nat i)%N).
  rewrite (nth_indep _ 0%N (f 0%nat)) by (rewrite map_length, seq_length; exact Hk).
  rewrite (map_nth f). rewrite seq_nth by exact Hk. reflexivity.
Qed.

Lemma assign_ids_length : forall last n, length (fst (assign_ids last n)) = n.
Proof. intros. unfold assign_ids. cbn [fst]. rewrite map_length, seq_length. reflexivity. Qed.

Lemma assign_ids_split : forall last n m,
  fst (assign_ids last (n + m)) = fst (assign_ids last n) ++ fst (assign_ids (snd (assign_ids last n)) m).
Proof.
  intros last n m. unfold assign_ids. cbn [fst snd]. rewrite seq_app, map_app. f_equal.
  generalize 1%nat as s. induction m as [|m IH]; intros s; cbn [seq map]; [reflexivity|].
  f_equal; [lia|]. replace (S (s + n)) with (S s + n)%nat by lia. apply IH.
Qed.

(* ------------------------------------------------------------------ the output directory *)
Lemma text_eqb_refl : forall a, text_eqb a a = true.
Proof. intros a. apply text_eqb_eq. reflexivity. Qed.
Lemma text_eqb_neq : forall a b, a <> b -> text_eqb a b = false.
Proof. intros a b H. destruct (text_eqb a b) eqn:E; [apply text_eqb_eq in E; contradiction|reflexivity]. Qed.

Lemma lookup_del_same : forall n d, lookup n (del n d) = None.
Proof.
  intros n d. induction d as [|[k e] r IH]; cbn [del lookup]; [reflexivity|].
  destruct (text_eqb k n) eqn:E; [exact IH|]. cbn [lookup]. rewrite E. exact IH.
Qed.
Lemma lookup_del_other : forall k n d, k <> n -> lookup k (del n d) = lookup k d.
Proof.
  intros k n d Hk. induction d as [|[k' e] r IH]; cbn [del lookup]; [reflexivity|].
  destruct (text_eqb k' n) eqn:E.
  - apply text_eqb_eq in E. subst k'. rewrite (text_eqb_neq n k) by congruence. exact IH.
  - cbn [lookup]. destruct (text_eqb k' k); [reflexivity|exact IH].
Qed.
Lemma lookup_set_same : forall n e d, lookup n (set_entry n e d) = Some e.
Proof. intros. unfold set_entry. cbn [lookup]. rewrite text_eqb_refl. reflexivity. Qed.
Lemma lookup_set_other : forall k n e d, k <> n -> lookup k (set_entry n e d) = lookup k d.
Proof.
  intros k n e d Hk. unfold set_entry. cbn [lookup]. rewrite (text_eqb_neq n k) by congruence.
  apply lookup_del_other. exact Hk.
Qed.

Definition entry_of (o : op) : entry := match o with Write _ c | WritePage _ c => Bytes c | Relink _ t => Symlink t end.
(* the step without write-through *)
Definition step' (d : fsmap) (o : op) : fsmap := set_entry (op_name o) (entry_of o) d.

Fixpoint last_op (n : text) (ops : list op) : option op :=
  match ops with
  | [] => None
  | o :: r => match last_op n r with
              | Some x => Some x
              | None => if text_eqb (op_name o) n then Some o else None
              end
  end.

Lemma lookup_fold_step' : forall n ops d,
  lookup n (fold_left step' ops d) =
  match last_op n ops with Some o => Some (entry_of o) | None => lookup n d end.
Proof.
  intros n. induction ops as [|o r IH]; intros d; cbn [fold_left last_op]; [reflexivity|].
  rewrite IH. destruct (last_op n r); [reflexivity|].
  unfold step'. destruct (text_eqb (op_name o) n) eqn:E.
  - apply text_eqb_eq in E. subst n. apply lookup_set_same.
  - apply lookup_set_other. intros ->. rewrite text_eqb_refl in E. discriminate.
Qed.

Lemma last_op_some : forall n ops o, last_op n ops = Some o -> In o ops /\ op_name o = n.
Proof.
  intros n. induction ops as [|x r IH]; intros o H; cbn [last_op] in H; [discriminate|].
  destruct (last_op n r) eqn:E.
  - inversion H; subst. destruct (IH o eq_refl) as [Hi Hn]. split; [right; exact Hi|exact Hn].
  - destruct (text_eqb (op_name x) n) eqn:Ex; [|discriminate]. inversion H; subst.
    apply text_eqb_eq in Ex. split; [left; reflexivity|exact Ex].
Qed.

Lemma last_op_none : forall n ops, last_op n ops = None -> ~ In n (map op_name ops).
Proof.
  intros n. induction ops as [|x r IH]; intros H; cbn [last_op] in H; [intros []|].
  destruct (last_op n r) eqn:E; [discriminate|].
  destruct (text_eqb (op_name x) n) eqn:Ex; [discriminate|].
  intros [Hx|Hr]; [subst n; rewrite text_eqb_refl in Ex; discriminate|]. exact (IH eq_refl Hr).
Qed.

(* no symbolic link sits at a name of W *)
Definition nosym_at (W : list text) (d : fsmap) : Prop :=
  forall n t, lookup n d = Some (Symlink t) -> ~ In n W.

(* when no name opened with a following open() can be a symlink, nothing is ever written through a link *)
Lemma apply_ops_no_write_through : forall W ops d,
  (forall n, In n (write_names ops) -> In n W) ->
  (forall n, In n (relink_names ops) -> ~ In n W) ->
  nosym_at W d -> apply_ops ops d = fold_left step' ops d.
Proof.
  intros W. unfold apply_ops. induction ops as [|o r IH]; intros d HW HR Hs; cbn [fold_left]; [reflexivity|].
  assert (Estep : step d o = step' d o).
  { destruct o as [n c|n c|n t]; [|reflexivity|reflexivity]. cbn [step]. unfold step'. cbn [op_name entry_of].
    destruct (lookup n d) as [[c'|t]|] eqn:El; try reflexivity.
    exfalso. apply (Hs n t El). apply HW. cbn [write_names flat_map]. left. reflexivity. }
  rewrite Estep. apply IH.
  - intros n Hn. apply HW. cbn [write_names flat_map]. apply in_or_app. right. exact Hn.
  - intros n Hn. apply HR. cbn [relink_names flat_map]. apply in_or_app. right. exact Hn.
  - intros n t Hl. unfold step' in Hl.
    destruct (text_eqb (op_name o) n) eqn:E.
    + apply text_eqb_eq in E. subst n. rewrite lookup_set_same in Hl.
      destruct o as [n c|n c|n t']; cbn [entry_of op_name] in *; try discriminate.
      apply HR. cbn [relink_names flat_map]. left. reflexivity.
    + rewrite lookup_set_other in Hl by (intros ->; rewrite text_eqb_refl in E; discriminate).
      eapply Hs. exact Hl.
Qed.

Lemma relinks_not_written : forall ops,
  (forall n, In n (write_names ops) -> ~ In n (relink_names ops)) ->
  forall n, In n (relink_names ops) -> ~ In n (write_names ops).
Proof. intros ops HW n Hr Hw. exact (HW n Hw Hr). Qed.

(* the previous content may hold ANY entry at the names the run touches, except a symbolic link at a name that is
   opened with a link-following open() *)
Theorem overwrite_complete : forall ops prev,
  (forall n, In n (write_names ops) -> ~ In n (relink_names ops)) ->
  (forall n e, lookup n prev = Some e -> In n (map op_name ops)) ->
  (forall n t, lookup n prev = Some (Symlink t) -> ~ In n (write_names ops)) ->
  same_dir (apply_ops ops prev) (apply_ops ops []).
Proof.
  intros ops prev HW Hdom Hsym n.
  rewrite (apply_ops_no_write_through (write_names ops) ops prev (fun _ H => H) (relinks_not_written ops HW) Hsym).
  rewrite (apply_ops_no_write_through (write_names ops) ops [] (fun _ H => H) (relinks_not_written ops HW))
    by (intros k t Hl; discriminate).
  rewrite !lookup_fold_step'. destruct (last_op n ops) eqn:E; [reflexivity|].
  cbn [lookup]. destruct (lookup n prev) eqn:El; [|reflexivity].
  exfalso. apply (last_op_none n ops E). eapply Hdom. exact El.
Qed.

(* the case the property names: the directory already holds the result of the same run *)
Theorem rerun_same_output : forall ops,
  (forall n, In n (write_names ops) -> ~ In n (relink_names ops)) ->
  same_dir (apply_ops ops (apply_ops ops [])) (apply_ops ops []).
Proof.
  intros ops HW. apply overwrite_complete; [exact HW| |].
  - intros n e Hl.
    rewrite (apply_ops_no_write_through (write_names ops) ops [] (fun _ H => H) (relinks_not_written ops HW)) in Hl
      by (intros k t Hk; discriminate).
    rewrite lookup_fold_step' in Hl. destruct (last_op n ops) eqn:E; [|discriminate].
    apply last_op_some in E as [Hi Hn]. subst n. apply in_map. exact Hi.
  - intros n t Hl.
    rewrite (apply_ops_no_write_through (write_names ops) ops [] (fun _ H => H) (relinks_not_written ops HW)) in Hl
      by (intros k t' Hk; discriminate).
    rewrite lookup_fold_step' in Hl. destruct (last_op n ops) eqn:E; [|discriminate].
    apply last_op_some in E as [Hi Hn]. inversion Hl as [He].
    destruct o as [n' c|n' c|n' t']; cbn [entry_of op_name] in *; try discriminate. subst n'.
    apply (relinks_not_written ops HW).
    unfold relink_names. apply in_flat_map. exists (Relink n t'). split; [exact Hi|left; reflexivity].
Qed.

(* ------------------------------------------------------------------ the whole pre-rendering view *)
Lemma perm_oracle_id : forall X, perm_oracle (fun l : list X => l).
Proof. intros X l. apply Permutation_refl. Qed.
Lemma perm_oracle_rev : forall X, perm_oracle (@rev X).
Proof. intros X l. apply Permutation_sym, Permutation_rev. Qed.

Lemma r_rootkinds_in_table :
  existsb (Z.eqb kind_package) (map fst kind_table) = true ->
  existsb (Z.eqb kind_module) (map fst kind_table) = true ->
  forall evs k, In k (r_rootkinds (reg_of_events evs)) -> In k (map fst kind_table).
Proof.
  intros Hp Hm.
  assert (Hpk : In kind_package (map fst kind_table)).
  { apply existsb_exists in Hp as [x [Hx E]]. apply Z.eqb_eq in E. subst. exact Hx. }
  assert (Hmk : In kind_module (map fst kind_table)).
  { apply existsb_exists in Hm as [x [Hx E]]. apply Z.eqb_eq in E. subst. exact Hx. }
  intros evs. unfold reg_of_events.
  set (P := fun r : reg => forall k, In k (r_rootkinds r) -> In k (map fst kind_table)).
  assert (Hgen : forall evs r, P r ->
            P (fold_left (fun r e => match e with EvModule p n k => reg_add r p n k | _ => r end) evs r)).
  { clear evs. induction evs as [|e evs IH]; intros r Hr; cbn [fold_left]; [exact Hr|].
    apply IH. destruct e as [p n k| |]; try exact Hr.
    assert (Happ : forall a u ro, (forall x, In x (map ro_kind ro) -> In x (map fst kind_table)) ->
                                  P (reg_append r p n k a u ro)).
    { intros a u ro Hro x Hx. unfold reg_append, r_rootkinds in Hx. cbn [r_rootobjs] in Hx.
      destruct p; [|apply Hro; exact Hx].
      rewrite map_app in Hx. apply in_app_or in Hx as [Hx|[Hx|[]]]; [apply Hro; exact Hx|].
      cbn [ro_kind] in Hx. subst x. destruct k; assumption. }
    unfold reg_add. destruct (find _ (r_all r)) as [first|]; [|apply Happ; exact Hr].
    destruct (m_pkg first && negb k); [intros x Hx; apply Hr; exact Hx|].
    apply Happ. intros x Hx. apply Hr. unfold r_rootkinds.
    apply in_map_iff in Hx as [o [Ho Hin]].
    apply in_map_iff. exists o. split; [exact Ho|].
    clear -Hin. induction (r_rootobjs r) as [|q l IHl]; [destruct Hin|]. cbn [remove_root] in Hin.
    destruct (N.eqb (ro_id q) (m_id first)); [right; exact Hin|].
    destruct Hin as [<-|Hin]; [left; reflexivity|right; apply IHl; exact Hin]. }
  apply Hgen. intros k [].
Qed.

Theorem build_view_deterministic :
  distinct_texts (map snd kind_table) = true ->
  existsb (Z.eqb kind_package) (map fst kind_table) = true ->
  existsb (Z.eqb kind_module) (map fst kind_table) = true ->
  forall (fs1 fs2 : listing) (s1 s2 : set_order) (k1 k2 : list Z -> list Z),
    perm_oracle fs1 -> perm_oracle fs2 -> perm_oracle s1 -> perm_oracle s2 -> perm_oracle k1 -> perm_oracle k2 ->
    forall fuel opt roots, (forall r, In r roots -> fs_wf (snd r)) ->
      build_view fs1 s1 k1 fuel opt roots = build_view fs2 s2 k2 fuel opt roots.
Proof.
  intros Hd Hp Hm fs1 fs2 s1 s2 k1 k2 Hf1 Hf2 Hs1 Hs2 Hk1 Hk2 fuel opt roots Hwf.
  unfold build_view. rewrite (add_roots_order_free fs1 fs2 Hf1 Hf2 fuel roots [] Hwf).
  set (r := reg_of_events (add_roots fs2 fuel [] roots)).
  f_equal.
  - apply map_ext. intros fn. apply url_is_index_order_free; assumption.
  - apply symlink_of_order_free; assumption.
  - apply has_index_page_order_free; assumption.
  - apply rootkinds_order_free; try assumption.
    intros k Hk. eapply r_rootkinds_in_table; eassumption.
Qed.

(* ------------------------------------------------------------------ writes of distinct files commute
   (Template.fromdir lists a template directory unsorted; the templates are then written one file per name) *)
Lemma last_op_notin : forall n ops, ~ In n (map op_name ops) -> last_op n ops = None.
Proof.
  intros n. induction ops as [|x r IH]; intros H; cbn [last_op]; [reflexivity|].
  rewrite IH by (intros Hr; apply H; right; exact Hr).
  rewrite text_eqb_neq; [reflexivity|]. intros E. apply H. left. exact E.
Qed.

Lemma last_op_in_nodup : forall ops o, NoDup (map op_name ops) -> In o ops -> last_op (op_name o) ops = Some o.
Proof.
  induction ops as [|x r IH]; intros o Hn Hin; [destruct Hin|].
  cbn [map] in Hn. inversion Hn as [|? ? Hx Hr]; subst. cbn [last_op].
  destruct Hin as [<-|Hin].
  - rewrite (last_op_notin _ _ Hx). rewrite text_eqb_refl. reflexivity.
  - rewrite (IH o Hr Hin). reflexivity.
Qed.

Lemma last_op_perm : forall ops1 ops2 n, Permutation ops1 ops2 -> NoDup (map op_name ops1) ->
  last_op n ops1 = last_op n ops2.
Proof.
  intros ops1 ops2 n Hp Hn.
  assert (Hn2 : NoDup (map op_name ops2)) by (eapply Permutation_NoDup; [apply Permutation_map; exact Hp|exact Hn]).
  destruct (last_op n ops1) as [o|] eqn:E.
  - apply last_op_some in E as [Hi Hname]. subst n. symmetry. apply last_op_in_nodup; [exact Hn2|].
    eapply Permutation_in; eassumption.
  - symmetry. apply last_op_notin. intros Hin. apply (last_op_none n ops1 E).
    eapply Permutation_in; [apply Permutation_sym, Permutation_map; exact Hp|exact Hin].
Qed.

Lemma in_flat_map_perm : forall {A B} (f : A -> list B) l1 l2 x,
  Permutation l1 l2 -> In x (flat_map f l1) -> In x (flat_map f l2).
Proof.
  intros A B f l1 l2 x Hp Hin. apply in_flat_map in Hin as [a [Ha Hx]]. apply in_flat_map.
  exists a. split; [eapply Permutation_in; eassumption|exact Hx].
Qed.

Theorem writes_commute : forall ops1 ops2 d,
  Permutation ops1 ops2 -> NoDup (map op_name ops1) ->
  (forall n, In n (write_names ops1) -> ~ In n (relink_names ops1)) ->
  nosym_at (write_names ops1) d ->
  same_dir (apply_ops ops1 d) (apply_ops ops2 d).
Proof.
  intros ops1 ops2 d Hp Hn HW Hs n.
  rewrite (apply_ops_no_write_through (write_names ops1) ops1 d (fun _ H => H) (relinks_not_written ops1 HW) Hs).
  rewrite (apply_ops_no_write_through (write_names ops1) ops2 d).
  - rewrite !lookup_fold_step'. rewrite (last_op_perm ops1 ops2 n Hp Hn). reflexivity.
  - intros k Hk. unfold write_names in *. eapply in_flat_map_perm; [apply Permutation_sym; exact Hp|exact Hk].
  - intros k Hk. apply (relinks_not_written ops1 HW). unfold relink_names in *.
    eapply in_flat_map_perm; [apply Permutation_sym; exact Hp|exact Hk].
  - exact Hs.
Qed.

(* ------------------------------------------------------------------ TemplateLookup: a template directory whose names are
   distinct case-insensitively gives the same lookup (as a map) for every listing order *)
Section TemplateProofs.
  Variable lower : text -> text.
  Notation key := (fun t : tmpl => lower (fst t)).

  Lemma tl_lookup_add_same : forall lk t,
    tl_lookup (lower (fst t)) (tl_add lower lk t) =
    Some (match tl_lookup (lower (fst t)) lk with Some old => fst old | None => fst t end, snd t).
  Proof.
    intros lk t. induction lk as [|[k old] r IH]; cbn [tl_add tl_lookup].
    - rewrite text_eqb_refl. destruct t; reflexivity.
    - destruct (text_eqb k (lower (fst t))) eqn:E; cbn [tl_lookup]; rewrite E; [reflexivity|exact IH].
  Qed.

  Lemma tl_lookup_add_other : forall lk t k, k <> lower (fst t) ->
    tl_lookup k (tl_add lower lk t) = tl_lookup k lk.
  Proof.
    intros lk t k Hk. induction lk as [|[k' old] r IH]; cbn [tl_add tl_lookup].
    - rewrite text_eqb_neq by congruence. reflexivity.
    - destruct (text_eqb k' (lower (fst t))) eqn:E; cbn [tl_lookup].
      + apply text_eqb_eq in E. subst k'. rewrite (text_eqb_neq (lower (fst t)) k) by congruence. reflexivity.
      + destruct (text_eqb k' k); [reflexivity|exact IH].
  Qed.

  Lemma find_key_notin : forall (l : list tmpl) k, ~ In k (map key l) -> find (fun u => text_eqb (key u) k) l = None.
  Proof.
    induction l as [|u r IH]; intros k H; cbn [find]; [reflexivity|].
    rewrite text_eqb_neq by (intros E; apply H; left; exact E). apply IH. intros Hr. apply H. right. exact Hr.
  Qed.

  Lemma tl_lookup_load : forall (l : list tmpl) base k, NoDup (map key l) ->
    tl_lookup k (fold_left (tl_add lower) l base) =
    match find (fun u => text_eqb (key u) k) l with
    | Some t => Some (match tl_lookup k base with Some old => fst old | None => fst t end, snd t)
    | None => tl_lookup k base
    end.
  Proof.
    induction l as [|t r IH]; intros base k Hn; cbn [fold_left find]; [reflexivity|].
    cbn [map] in Hn. inversion Hn as [|? ? Ht Hr]; subst. rewrite (IH _ _ Hr).
    destruct (text_eqb (lower (fst t)) k) eqn:E.
    - apply text_eqb_eq in E. subst k. rewrite (find_key_notin r _ Ht). apply tl_lookup_add_same.
    - rewrite tl_lookup_add_other by (intros ->; rewrite text_eqb_refl in E; discriminate). reflexivity.
  Qed.

  Lemma find_key_in_nodup : forall (l : list tmpl) t, NoDup (map key l) -> In t l ->
    find (fun u => text_eqb (key u) (key t)) l = Some t.
  Proof.
    induction l as [|u r IH]; intros t Hn Hin; [destruct Hin|].
    cbn [map] in Hn. inversion Hn as [|? ? Hu Hr]; subst. cbn [find].
    destruct Hin as [<-|Hin]; [rewrite text_eqb_refl; reflexivity|].
    rewrite text_eqb_neq; [apply IH; assumption|].
    intros E. apply Hu. cbn beta in E. rewrite E. apply (in_map key). exact Hin.
  Qed.

  Lemma find_key_perm : forall (l1 l2 : list tmpl) k, Permutation l1 l2 -> NoDup (map key l1) ->
    find (fun u => text_eqb (key u) k) l1 = find (fun u => text_eqb (key u) k) l2.
  Proof.
    intros l1 l2 k Hp Hn.
    assert (Hn2 : NoDup (map key l2)) by (eapply Permutation_NoDup; [apply Permutation_map; exact Hp|exact Hn]).
    destruct (find (fun u => text_eqb (key u) k) l1) as [t|] eqn:E.
    - apply find_some in E as [Hi Hk]. apply text_eqb_eq in Hk. subst k. symmetry.
      apply find_key_in_nodup; [exact Hn2|eapply Permutation_in; eassumption].
    - symmetry. apply find_key_notin. intros Hin. apply in_map_iff in Hin as [u [Hu Hin]].
      assert (Hin1 : In u l1) by (eapply Permutation_in; [apply Permutation_sym; exact Hp|exact Hin]).
      pose proof (find_none _ _ E u Hin1) as Hf. cbn beta in Hf. rewrite Hu, text_eqb_refl in Hf. discriminate.
  Qed.

  (* the pre-16ec2bc loader under its guard: names distinct case-insensitively *)
  Theorem load_dir_old_order_free : forall (pi1 pi2 : list tmpl -> list tmpl) files base,
    perm_oracle pi1 -> perm_oracle pi2 -> NoDup (map key files) ->
    forall k, tl_lookup k (load_dir_old lower pi1 files base) = tl_lookup k (load_dir_old lower pi2 files base).
  Proof.
    intros pi1 pi2 files base H1 H2 Hn k. unfold load_dir_old.
    assert (Hn1 : NoDup (map key (pi1 files))) by (eapply Permutation_NoDup; [apply Permutation_map, Permutation_sym, H1|exact Hn]).
    assert (Hn2 : NoDup (map key (pi2 files))) by (eapply Permutation_NoDup; [apply Permutation_map, Permutation_sym, H2|exact Hn]).
    rewrite !tl_lookup_load by assumption.
    rewrite (find_key_perm (pi1 files) (pi2 files) k); [reflexivity| |exact Hn1].
    eapply perm_trans; [apply H1|apply Permutation_sym, H2].
  Qed.

  (* as the code is now: the listing is sorted by name first, so the whole lookup (names, contents AND dict order)
     is a function of the set of files -- no condition on case *)
  Theorem load_dir_order_free : forall (pi1 pi2 : list tmpl -> list tmpl) files base,
    perm_oracle pi1 -> perm_oracle pi2 -> NoDup (map fst files) ->
    load_dir lower pi1 files base = load_dir lower pi2 files base.
  Proof.
    intros pi1 pi2 files base H1 H2 Hn. unfold load_dir. f_equal. apply sort_perm_invariant.
    - eapply perm_trans; [apply H1|apply Permutation_sym, H2].
    - intros a b Ha Hb E. unfold tmpl_key in E. apply enc_text_inj in E.
      eapply (NoDup_map_inj_on fst files Hn); try exact E; (eapply Permutation_in; [apply H1|]); assumption.
  Qed.
End TemplateProofs.
