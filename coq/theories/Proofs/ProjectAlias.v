(* Proofs/ProjectAlias.v -- the alias map that a list of micro-operations writes (Spec.ProjectStatic.alias_ops):
   keys, monotonicity of look-ups along a prefix, non-empty values. *)
From Coq Require Import ZArith NArith List Bool Lia.
From PydoctorVerif Require Import Base.Sexp Model.Project Spec.ProjectStatic Proofs.ProjectBase.
Import ListNotations.
Local Open Scope N_scope.

(* ================================================================ the alias map written by a list of operations *)
Section AliasOps.
  Variable p : project.
  Variable m : N.
  Definition op_names (ops : list mop) : list N := flat_map op_import_name ops.

  Lemma op_names_app a b : op_names (a ++ b) = op_names a ++ op_names b.
  Proof. unfold op_names. apply flat_map_app. Qed.

  Lemma nget_Some_In {V} a (q : V) l : nget a l = Some q -> In a (map fst l).
  Proof. intros H. apply nget_In in H. apply in_map_iff. exists (a, q). auto. Qed.

  Lemma alias_op_keys st op a :
    In a (map fst (snd (alias_op p m st op))) -> In a (map fst (snd st)) \/ In a (op_import_name op).
  Proof.
    destruct op as [i stm| | | |o a'|]; cbn [alias_op op_import_name snd]; try (left; assumption).
    - destruct stm; cbn [op_import_name snd]; try (left; assumption).
      destruct (N.eqb asname 0); cbn [snd]; intros H; apply In_nset_keys in H; destruct H as [->|H]; auto; right; left; reflexivity.
    - destruct (fst st); cbn [snd]; [|left; assumption]. intros H. apply In_nset_keys in H. destruct H as [->|H]; [right; left; reflexivity|left; exact H].
  Qed.

  Lemma alias_fold_keys ops : forall st a,
    In a (map fst (snd (fold_left (alias_op p m) ops st))) -> In a (map fst (snd st)) \/ In a (op_names ops).
  Proof.
    induction ops as [|op ops IH]; intros st a H; cbn [fold_left] in H; [left; exact H|].
    destruct (IH _ _ H) as [H1|H1].
    - destruct (alias_op_keys st op a H1) as [H2|H2]; [left; exact H2|right; cbn [op_names flat_map]; apply in_or_app; left; exact H2].
    - right. cbn [op_names flat_map]. apply in_or_app. right. exact H1.
  Qed.

  Lemma NoDup_app_r {X} (l l' : list X) : NoDup (l ++ l') -> NoDup l'.
  Proof. induction l as [|x l IH]; cbn [app]; [auto|]. intros H. inversion H; subst. auto. Qed.

  Lemma alias_op_mono st op a q :
    (forall a', In a' (op_import_name op) -> ~ In a' (map fst (snd st))) ->
    nget a (snd st) = Some q -> nget a (snd (alias_op p m st op)) = Some q.
  Proof.
    intros Hd Hg. pose proof (nget_Some_In a q _ Hg) as Hin.
    assert (Hne : forall a', In a' (op_import_name op) -> a <> a') by (intros a' Ha' ->; exact (Hd a' Ha' Hin)).
    destruct op as [i stm| | | |o a'|]; cbn [alias_op op_import_name snd] in *; try exact Hg.
    - destruct stm; cbn [op_import_name snd] in *; try exact Hg.
      destruct (N.eqb asname 0); cbn [snd]; rewrite nget_nset_other; try exact Hg; apply Hne; left; reflexivity.
    - destruct (fst st); cbn [snd]; [|exact Hg]. rewrite nget_nset_other; [exact Hg|]. apply Hne. left. reflexivity.
  Qed.

  Lemma alias_fold_mono ops : forall st a q,
    NoDup (op_names ops) -> (forall a', In a' (map fst (snd st)) -> ~ In a' (op_names ops)) ->
    nget a (snd st) = Some q -> nget a (snd (fold_left (alias_op p m) ops st)) = Some q.
  Proof.
    induction ops as [|op ops IH]; intros st a q Hnd Hdis Hg; cbn [fold_left]; [exact Hg|].
    cbn [op_names flat_map] in Hnd, Hdis. fold (op_names ops) in Hnd, Hdis.
    apply IH.
    - apply NoDup_app_r in Hnd. exact Hnd.
    - intros a' Ha' Hin. destruct (alias_op_keys st op a' Ha') as [H1|H1].
      + apply (Hdis a' H1). apply in_or_app. right. exact Hin.
      + clear -Hnd H1 Hin. induction (op_import_name op) as [|x l IHl]; [destruct H1|].
        cbn [app] in Hnd. inversion Hnd as [|? ? Hni Hnd']; subst. destruct H1 as [->|H1].
        * apply Hni. apply in_or_app. right. exact Hin.
        * exact (IHl Hnd' H1).
    - apply alias_op_mono; [|exact Hg]. intros a' Ha' Hin. apply (Hdis a' Hin). apply in_or_app. left. exact Ha'.
  Qed.

  Lemma alias_ops_snoc pre op : alias_ops p m (pre ++ [op]) = alias_op p m (alias_ops p m pre) op.
  Proof. unfold alias_ops. rewrite fold_left_app. reflexivity. Qed.

  Lemma alias_ops_keys pre a : In a (map fst (snd (alias_ops p m pre))) -> In a (op_names pre).
  Proof. intros H. destruct (alias_fold_keys pre (None, []) a H) as [[]|H1]. exact H1. Qed.

  (* a lookup that succeeds after a prefix of the operations succeeds with the same value after all of them *)
  Lemma alias_prefix_mono pre post a q :
    NoDup (op_names (pre ++ post)) ->
    nget a (snd (alias_ops p m pre)) = Some q -> nget a (snd (alias_ops p m (pre ++ post))) = Some q.
  Proof.
    intros Hnd Hg. unfold alias_ops. rewrite fold_left_app. rewrite op_names_app in Hnd. apply alias_fold_mono.
    - apply NoDup_app_r in Hnd. exact Hnd.
    - intros a' Ha' Hin. apply alias_ops_keys in Ha'. clear -Hnd Ha' Hin.
      induction (op_names pre) as [|x l IHl]; [destruct Ha'|]. cbn [app] in Hnd. inversion Hnd as [|? ? Hni Hnd']; subst.
      destruct Ha' as [->|Ha']; [apply Hni; apply in_or_app; right; exact Hin|exact (IHl Hnd' Ha')].
    - exact Hg.
  Qed.

  (* values are non-empty paths *)
  Definition op_ok (op : mop) : Prop := match op with MStmt _ (SImport [] _) => False | _ => True end.
  Definition vals_ok (l : list (N * path)) : Prop := forall a q, nget a l = Some q -> q <> [].

  Lemma alias_op_vals st op : op_ok op -> vals_ok (snd st) -> vals_ok (snd (alias_op p m st op)).
  Proof.
    intros Hok Hv. destruct op as [i stm| | | |o a'|]; cbn [alias_op snd]; try exact Hv.
    - destruct stm; cbn [snd]; try exact Hv. destruct target as [|t0 tl]; [destruct Hok|].
      destruct (N.eqb asname 0); cbn [snd hd]; intros a q.
      + destruct (N.eq_dec a t0) as [->|Hne];
          [rewrite nget_nset_same; intros E; inversion E; discriminate|rewrite nget_nset_other by exact Hne; apply Hv].
      + destruct (N.eq_dec a asname) as [->|Hne];
          [rewrite nget_nset_same; intros E; inversion E; discriminate|rewrite nget_nset_other by exact Hne; apply Hv].
    - destruct (fst st) as [t|]; cbn [snd]; [|exact Hv]. intros a q. destruct (N.eq_dec a a') as [->|Hne].
      + rewrite nget_nset_same. intros E. inversion E. intros H. apply app_eq_nil in H. destruct H; discriminate.
      + rewrite nget_nset_other by exact Hne. apply Hv.
  Qed.

  Lemma alias_ops_vals pre : (forall op, In op pre -> op_ok op) -> vals_ok (snd (alias_ops p m pre)).
  Proof.
    unfold alias_ops. assert (H : forall ops st, (forall op, In op ops -> op_ok op) -> vals_ok (snd st) ->
                                  vals_ok (snd (fold_left (alias_op p m) ops st))).
    { induction ops as [|op ops IH]; intros st Hok Hv; cbn [fold_left]; [exact Hv|].
      apply IH; [intros op' Hin; apply Hok; right; exact Hin|apply alias_op_vals; [apply Hok; left; reflexivity|exact Hv]]. }
    intros Hok. apply H; [exact Hok|]. intros a q E. discriminate.
  Qed.
End AliasOps.

