(* Proofs/InventoryInvProofs.v -- the interpretation of the body of SphinxInventory._parseInventory translated from the
   CURRENT pydoctor/sphinx.py (Gen/InventoryCode.v : code_parse_inventory) is the hand model Model/Inventory.v
   (parse_lines / parse_inventory): the same dict and the same reports, in order, for every base url, every payload
   (every list of lines) and every behaviour of int().
   The proof is a symbolic execution: the for loop is handled by an induction over the list of lines, generalised over the
   dict built so far, the reports made so far and the locals the loop assigns; one iteration is stepped through
   whatever code was generated, the call of _parseInventoryLine being rewritten with call_parse_line_eq. *)
From Coq Require Import ZArith NArith List Bool Lia Arith.
From PydoctorVerif Require Import Base.Sexp Model.Inventory Model.InventoryIR Gen.InventoryCode Proofs.InventoryProofs
     Proofs.InventoryIRProofs.
Import ListNotations.

Local Arguments call_fn : simpl never.
Local Arguments splitlines : simpl never.
Local Arguments starts_with : simpl never.
Local Arguments dict_set : simpl never.
Local Arguments foreach : simpl never.
Local Arguments max_len : simpl never.
Local Arguments result_of_inventory : simpl never.
Local Arguments exec_inv _ _ _ !_ _ _ /.

(* locals assigned somewhere in a statement of the second layer *)
Fixpoint iassigned (s : istmt) : list var :=
  match s with
  | ISeq a b => iassigned a ++ iassigned b
  | ILocal s' => assigned s'
  | INewDict x => [x]
  | IDictStore x _ _ => [x]
  | ICall t _ _ => match t with TVar x => [x] | TTuple xs => xs | TStar b st a => b ++ [st] ++ a end
  | IIf _ a b => iassigned a ++ iassigned b
  | IForEach x _ b => x :: iassigned b
  | ITry b _ h o => iassigned b ++ iassigned h ++ iassigned o
  | _ => []
  end.

(* the environment at the head of the loop: the dict local holds d, the other locals the loop assigns hold anything (u),
   everything else is as on entry *)
Fixpoint havoc_d (i : nat) (a : list var) (ds : var) (d : dict) (u : var -> value) (E : env) : env :=
  match E with
  | [] => []
  | v :: r => (if Nat.eqb i ds then VDict d else if existsb (Nat.eqb i) a then u i else v)
              :: havoc_d (S i) a ds d u r
  end.

(* the dict local: the one that holds a dict on entry *)
Fixpoint find_dict (i : nat) (E : env) : var :=
  match E with
  | [] => O
  | VDict _ :: _ => i
  | _ :: r => find_dict (S i) r
  end.

Lemma max_len_ge (l : list text) : Forall (fun line => (length line + 3 <= max_len l + 3)%nat) l.
Proof.
  induction l as [|t l IH]; [constructor|].
  unfold max_len in *. cbn [fold_right]. constructor; [lia|].
  eapply Forall_impl; [|exact IH]. cbn beta. intros a Ha. lia.
Qed.

Section InvIR.
  Variable int_of : text -> option Z.
  Variable base : text.

  (* one line of the hand model *)
  Definition step (dr : dict * list report) (line : text) : dict * list report :=
    match parse_line int_of line with
    | Raise _ => (fst dr, snd dr ++ [RLine line base])
    | Ok c => if starts_with py_prefix (c_typ c) then (dict_set (c_name c) (base, c_loc c) (fst dr), snd dr) else dr
    end.

  Lemma parse_lines_fold (l : list text) (d : dict) (r : list report) :
    parse_lines (parse_line int_of) base l d r = Ok (fold_left step l (d, r)).
  Proof.
    revert d r. induction l as [|line l IH]; intros d r; [reflexivity|].
    cbn [parse_lines fold_left]. unfold step at 2.
    destruct (parse_line_total int_of line) as [(c & Hc)|Hc]; rewrite Hc; cbn [fst snd].
    - destruct (starts_with py_prefix (c_typ c)); apply IH.
    - apply IH.
  Qed.

  Definition next_of (p : outcome * list report) : option (env * list report) :=
    match p with
    | (ONormal e, r) | (OContinue e, r) => Some (e, r)
    | _ => None
    end.

  (* the induction behind the loop over the lines: if one iteration started at the loop head with dict d and reports r
     goes to the loop head with the dict and the reports of one step of the hand model, the whole loop ends normally with
     the dict and the reports of the hand model's fold *)
  Lemma foreach_lines (B : env -> list report -> outcome * list report) (x : var)
        (H : dict -> (var -> value) -> env) (fuel : nat) :
    (forall line d u r, (length line + 3 <= fuel)%nat ->
        exists E', next_of (B (setv x (VStr line) (H d u)) r) = Some (E', snd (step (d, r) line)) /\
                   E' = H (fst (step (d, r) line)) (fun i => nth i E' VUnbound)) ->
    forall l d u r, Forall (fun line => (length line + 3 <= fuel)%nat) l ->
      exists u', foreach B x l (H d u) r
                 = (ONormal (H (fst (fold_left step l (d, r))) u'), snd (fold_left step l (d, r))).
  Proof.
    intros Hstep. induction l as [|line l IH]; intros d u r Hall.
    - exists u. reflexivity.
    - inversion Hall as [|? ? Hline Hrest]; subst.
      destruct (Hstep line d u r Hline) as (E' & Hn & HE).
      cbn [fold_left]. destruct (step (d, r) line) as [d1 r1] eqn:Hs. cbn [fst snd] in Hn, HE.
      destruct (IH d1 (fun i => nth i E' VUnbound) r1 Hrest) as (u' & Hloop).
      exists u'. rewrite <- HE in Hloop. rewrite <- Hloop.
      unfold foreach at 1. fold foreach.
      destruct (B (setv x (VStr line) (H d u)) r) as [o r2].
      destruct o; cbn [next_of] in Hn; try discriminate; inversion Hn; subst; reflexivity.
  Qed.
End InvIR.

Lemma inv_result_pair (p : dict * list report) : (RReturn (VDict (fst p)), snd p) = result_of_inventory (Ok p).
Proof. destruct p; reflexivity. Qed.

Ltac use_loop_lemma int_of base :=
  match goal with
  | |- context [foreach (exec_inv ?io ?lk ?f ?body) ?x ?l ?E ?r] =>
    let a := eval cbv in (x :: iassigned body) in
    let ds := eval cbv in (find_dict 0 E) in
    let Hl := fresh "Hloop" in
    let u' := fresh "u'" in
    assert (Hl : exists u', foreach (exec_inv io lk f body) x l E r
                            = (ONormal (havoc_d 0 a ds (fst (fold_left (step int_of base) l ([], r))) u' E),
                               snd (fold_left (step int_of base) l ([], r))));
    [ refine (foreach_lines int_of base (exec_inv io lk f body) x (fun d u => havoc_d 0 a ds d u E) f _
                            l [] (fun i => nth i E VUnbound) r _)
    | destruct Hl as (u' & Hl); rewrite Hl ]
  end.

Theorem code_parse_inventory_is_model (int_of : text -> option Z) (base payload : text) :
  parse_inventory_ir code_parse_inventory int_of base payload
  = result_of_inventory (parse_inventory (parse_line int_of) base payload).
Proof.
  unfold parse_inventory_ir, parse_inventory. cbn.
  use_loop_lemma int_of base.
  - (* one iteration *)
    intros line d u r Hfuel. unfold step. cbn.
    rewrite (call_parse_line_eq int_of line _ Hfuel).
    destruct (parse_line_total int_of line) as [(c & Hc)|Hc]; rewrite Hc; cbn; unfold py_prefix.
    + destruct (starts_with _ (c_typ c)); cbn; (eexists; split; [reflexivity|reflexivity]).
    + eexists; split; reflexivity.
  - apply max_len_ge.
  - cbn. rewrite parse_lines_fold. apply inv_result_pair.
Qed.

(* hence _parseInventory as translated never raises, is never stuck, never out of fuel: it returns a dict *)
Lemma code_parse_inventory_returns (int_of : text -> option Z) (base payload : text) :
  exists d reps, parse_inventory_ir code_parse_inventory int_of base payload = (RReturn (VDict d), reps).
Proof.
  rewrite code_parse_inventory_is_model. unfold parse_inventory. rewrite parse_lines_fold.
  rewrite <- inv_result_pair. eexists. eexists. reflexivity.
Qed.
