(* Proofs/SegmentsProofs.v -- conservation of text by the model of doctest.py (Model/Segments.v)
   against Spec/Conserve.v. *)
From Coq Require Import ZArith NArith List Bool Arith Lia.
From PydoctorVerif Require Import Base.Sexp Model.Segments Spec.Conserve.
Import ListNotations.

(* ---- lists ----------------------------------------------------------------------------------- *)
Lemma skipn_add : forall {X} (a b : nat) (l : list X), skipn a (skipn b l) = skipn (b + a) l.
Proof.
  intros X a b; revert a. induction b as [|b IH]; intros a l; cbn [skipn plus].
  - reflexivity.
  - destruct l as [|x l]; [destruct a; reflexivity | apply IH].
Qed.

Lemma skipn_slice : forall (s : text) a b, a <= b -> skipn a s = slice s a b ++ skipn b s.
Proof.
  intros s a b Hab. unfold slice.
  replace (skipn b s) with (skipn (b - a) (skipn a s)).
  - symmetry. apply firstn_skipn.
  - rewrite skipn_add. f_equal. lia.
Qed.

Lemma slice_full : forall (s : text) a, slice s a (length s) = skipn a s.
Proof.
  intros s a. unfold slice. apply firstn_all2. rewrite skipn_length. lia.
Qed.

Lemma slice_empty : forall (s : text) a b, b <= a -> slice s a b = [].
Proof. intros s a b H. unfold slice. replace (b - a) with 0 by lia. reflexivity. Qed.

Lemma slice_length : forall (s : text) a b, a <= b -> b <= length s -> length (slice s a b) = b - a.
Proof. intros s a b H1 H2. unfold slice. rewrite firstn_length, skipn_length. lia. Qed.

Lemma slice_app : forall (s : text) a b c, a <= b -> b <= c ->
  slice s a b ++ slice s b c = slice s a c.
Proof.
  intros s a b c H1 H2. apply (app_inv_tail (skipn c s)).
  rewrite <- app_assoc. rewrite <- (skipn_slice s b c) by lia.
  rewrite <- (skipn_slice s a b) by lia. apply skipn_slice. lia.
Qed.

Lemma skipn_all_nil : forall {X} (l : list X) n, length l <= n -> skipn n l = [].
Proof. intros. apply skipn_all2. assumption. Qed.

Lemma text_of_app : forall a b, text_of (a ++ b) = text_of a ++ text_of b.
Proof. intros a b. unfold text_of. apply flat_map_app. Qed.

Lemma nth_split_at : forall (l : text) k, k < length l -> l = firstn k l ++ nth k l 0%N :: skipn (S k) l.
Proof.
  induction l as [|x l IH]; intros k Hk; cbn [length] in Hk; [lia|].
  destruct k as [|k]; cbn [firstn nth skipn app]; [reflexivity|].
  f_equal. apply IH. lia.
Qed.

(* ---- text.find ---------------------------------------------------------------------------------- *)
Lemma find_from_some : forall c t pos n,
  find_from c t pos = Some n -> pos <= n /\ n - pos < length t /\ nth (n - pos) t 0%N = c.
Proof.
  intros c t. induction t as [|x t IH]; intros pos n H; cbn [find_from] in H; [discriminate|].
  destruct (N.eqb x c) eqn:E.
  - inversion H; subst n. apply N.eqb_eq in E. replace (pos - pos) with 0 by lia.
    split; [lia|]. split; [cbn [length]; lia|]. cbn [nth]. exact E.
  - apply IH in H. destruct H as (H1 & H2 & H3). cbn [length].
    replace (n - pos) with (S (n - S pos)) by lia. cbn [nth]. split; [lia|]. split; [lia|]. exact H3.
Qed.

Lemma find_nl_some : forall t idx n,
  idx <= length t -> find_nl t idx = Some n ->
  idx <= n /\ n < length t /\ skipn idx t = slice t idx n ++ NL ++ skipn (S n) t.
Proof.
  intros t idx n Hidx H. unfold find_nl in H. apply find_from_some in H.
  destruct H as (H1 & H2 & H3). rewrite skipn_length in H2.
  split; [exact H1|]. split; [lia|].
  rewrite (nth_split_at (skipn idx t) (n - idx)) at 1 by (rewrite skipn_length; lia).
  rewrite H3. unfold slice, NL. cbn [app]. f_equal. f_equal.
  rewrite skipn_add. f_equal. lia.
Qed.

(* ---- the STRING branch -------------------------------------------------------------------------- *)
Section WithOracles.
  Variable finditer : text -> list span.
  Variable examples : text -> list example.
  Variable prompt2 : text -> option nat.
  Variable is_except : text -> bool.

  Lemma line_pieces : forall line,
    text_of ((let '(more, line') :=
               match prompt2 line with
               | Some e => ([(PyMore, firstn e line)], skipn e line)
               | None => ([], line)
               end in more ++ (if nonempty line' then [(PyString, line')] else []))) = line.
  Proof.
    intros line. destruct (prompt2 line) as [e|].
    - rewrite text_of_app. cbn [text_of flat_map snd app]. rewrite app_nil_r.
      destruct (skipn e line) as [|c r] eqn:E; cbn [nonempty text_of flat_map snd app].
      + rewrite <- (firstn_skipn e line) at 2. rewrite E. reflexivity.
      + rewrite app_nil_r. rewrite <- E. apply firstn_skipn.
    - cbn [app]. destruct line as [|c r]; cbn [nonempty text_of flat_map snd app]; [reflexivity|].
      rewrite app_nil_r. reflexivity.
  Qed.

  Lemma str_loop_conserves : forall fuel t idx,
    idx <= length t -> length t - idx < fuel ->
    exists segs, str_loop prompt2 fuel t idx = Ok segs /\ text_of segs = skipn idx t.
  Proof.
    intros fuel. induction fuel as [|fuel IH]; intros t idx Hidx Hf; [lia|].
    cbn [str_loop].
    destruct (find_nl t idx) as [n|] eqn:F.
    - destruct (find_nl_some t idx n Hidx F) as (H1 & H2 & H3).
      destruct (IH t (S n)) as (rest & Hr & Ht); [lia | lia |].
      pose proof (line_pieces (slice t idx n)) as LP.
      rewrite Hr.
      destruct (prompt2 (slice t idx n)) as [e|]; lazy beta iota zeta in LP |- *;
        (eexists; split; [reflexivity|]);
        rewrite H3; rewrite app_assoc; rewrite text_of_app; rewrite LP;
        rewrite text_of_app; rewrite Ht; reflexivity.
    - pose proof (line_pieces (skipn idx t)) as LP.
      destruct (prompt2 (skipn idx t)) as [e|]; lazy beta iota zeta in LP |- *;
        (eexists; split; [reflexivity|]); exact LP.
  Qed.

  (* ---- DEFINE ----------------------------------------------------------------------------------- *)
  Lemma takewhile_len_app_stop : forall (p : N -> bool) a b,
    all_true p a -> (match b with [] => True | c :: _ => p c = false end) ->
    takewhile_len p (a ++ b) = length a.
  Proof.
    intros p a b Ha Hb. induction Ha as [|x a Hx Ha IH]; cbn [app length takewhile_len].
    - destruct b as [|c b]; cbn [takewhile_len]; [reflexivity | rewrite Hb; reflexivity].
    - rewrite Hx. f_equal. exact IH.
  Qed.

  Lemma define_re_shape : forall is_word is_space t,
    classes_disjoint is_word is_space -> define_shape is_word is_space t ->
    exists a b c, define_re is_word is_space t = Some (a, b, c) /\ a + b + c = length t.
  Proof.
    intros is_word is_space t Hd (w & sp & nm & Ht & Hw & Hsp & Hnm & Aw & Asp & Anm).
    assert (Hdisj2 : forall c, is_space c = true -> is_word c = false).
    { intros c Hc. destruct (is_word c) eqn:E; [|reflexivity]. apply Hd in E. congruence. }
    unfold define_re. subst t.
    assert (E1 : takewhile_len is_word (w ++ sp ++ nm) = length w).
    { apply takewhile_len_app_stop; [exact Aw|]. destruct sp as [|c sp]; [congruence|].
      cbn [app]. apply Hdisj2. inversion Asp; assumption. }
    rewrite E1.
    assert (S1 : skipn (length w) (w ++ sp ++ nm) = sp ++ nm).
    { rewrite skipn_app, skipn_all, Nat.sub_diag. reflexivity. }
    rewrite S1.
    assert (E2 : takewhile_len is_space (sp ++ nm) = length sp).
    { apply takewhile_len_app_stop; [exact Asp|]. destruct nm as [|c nm]; [congruence|].
      apply Hd. inversion Anm; assumption. }
    rewrite E2.
    assert (S2 : skipn (length w + length sp) (w ++ sp ++ nm) = nm).
    { rewrite <- skipn_add. rewrite S1. rewrite skipn_app, skipn_all, Nat.sub_diag. reflexivity. }
    rewrite S2.
    assert (E3 : takewhile_len is_word nm = length nm).
    { rewrite <- (app_nil_r nm) at 1. apply takewhile_len_app_stop; [exact Anm | exact I]. }
    rewrite E3.
    destruct w as [|w0 w']; [congruence|]. destruct sp as [|s0 sp']; [congruence|].
    destruct nm as [|n0 nm']; [congruence|].
    cbn [length]. do 3 eexists. split; [reflexivity|]. rewrite !app_length. cbn [length]. lia.
  Qed.

  Lemma three_slices : forall (t : text) a b c, a + b + c = length t ->
    slice t 0 a ++ slice t a (a + b) ++ slice t (a + b) (a + b + c) = t.
  Proof.
    intros t a b c H.
    rewrite H, slice_full.
    rewrite <- (skipn_slice t a (a + b)) by lia.
    change t with (skipn 0 t) at 3. apply eq_sym, skipn_slice. lia.
  Qed.

  (* ---- subfunc ---------------------------------------------------------------------------------- *)
  Lemma subfunc_conserves : forall is_word is_space s m,
    classes_disjoint is_word is_space -> kind_ok is_word is_space s m ->
    sp_start m <= sp_end m -> sp_end m <= length s ->
    exists segs, subfunc prompt2 (define_re is_word is_space) (sp_kind m) (slice s (sp_start m) (sp_end m)) = Ok segs
                 /\ text_of segs = slice s (sp_start m) (sp_end m).
  Proof.
    intros is_word is_space s m Hd Hk Hle Hlen.
    pose proof (slice_length s (sp_start m) (sp_end m) Hle Hlen) as HL.
    unfold kind_ok in Hk. unfold subfunc.
    destruct (sp_kind m) eqn:K.
    all: try (destruct (slice s (sp_start m) (sp_end m)) as [|c r] eqn:ES; cbn [length] in HL; [lia|];
              cbn [nonempty]; eexists; split; [reflexivity|]; cbn [text_of flat_map snd]; apply app_nil_r).
    - (* STRING *)
      destruct (slice s (sp_start m) (sp_end m)) as [|c r] eqn:ES; cbn [length] in HL; [lia|].
      cbn [nonempty]. rewrite <- ES.
      destruct (str_loop_conserves (S (length (slice s (sp_start m) (sp_end m))))
                  (slice s (sp_start m) (sp_end m)) 0) as (segs & H1 & H2); [lia | lia |].
      exists segs. split; [exact H1 | exact H2].
    - (* DEFINE *)
      destruct Hk as [Hlt Hshape].
      destruct (slice s (sp_start m) (sp_end m)) as [|c0 r] eqn:ES; cbn [length] in HL; [lia|].
      cbn [nonempty]. rewrite <- ES in *.
      destruct (define_re_shape is_word is_space _ Hd Hshape) as (a & b & c & E & Hsum).
      rewrite E. eexists; split; [reflexivity|].
      cbn [text_of flat_map snd]. rewrite app_nil_r. apply three_slices. exact Hsum.
    - (* EOS *)
      rewrite slice_empty by lia. cbn [nonempty]. exists []. split; reflexivity.
  Qed.

  (* ---- colorize_codeblock_body ------------------------------------------------------------------- *)
  Lemma cb_loop_conserves : forall is_word is_space s,
    classes_disjoint is_word is_space ->
    forall ms idx, spans_from (length s) idx ms -> Forall (kind_ok is_word is_space s) ms ->
    exists segs, cb_loop prompt2 (define_re is_word is_space) s ms idx = Ok segs /\ text_of segs = skipn idx s.
  Proof.
    intros is_word is_space s Hd ms. induction ms as [|m ms IH]; intros idx Hs Hk; cbn [spans_from] in Hs.
    - cbn [cb_loop]. subst idx. rewrite Nat.eqb_refl. exists []. split; [reflexivity|].
      rewrite skipn_all. reflexivity.
    - destruct Hs as (H1 & H2 & H3 & H4). inversion Hk as [|? ? Hkm Hkms]; subst.
      cbn [cb_loop].
      destruct (subfunc_conserves is_word is_space s m Hd Hkm H2 H3) as (sub & Es & Ts).
      destruct (IH (sp_end m) H4 Hkms) as (rest & Er & Tr).
      rewrite Es, Er. cbn [bind]. eexists; split; [reflexivity|].
      rewrite !text_of_app, Ts, Tr.
      rewrite (skipn_slice s idx (sp_start m)) by lia.
      rewrite (skipn_slice s (sp_start m) (sp_end m)) by lia.
      f_equal.
      destruct (Nat.ltb idx (sp_start m)) eqn:E.
      + cbn [text_of flat_map snd]. apply app_nil_r.
      + apply Nat.ltb_ge in E. rewrite slice_empty by lia. reflexivity.
  Qed.

  Theorem codeblock_conserves : forall is_word is_space s,
    classes_disjoint is_word is_space -> finditer_contract is_word is_space s (finditer s) ->
    exists segs, colorize_codeblock_body finditer prompt2 (define_re is_word is_space) s = Ok segs /\ text_of segs = s.
  Proof.
    intros is_word is_space s Hd [Hs Hk]. unfold colorize_codeblock_body.
    destruct (cb_loop_conserves is_word is_space s Hd _ 0 Hs Hk) as (segs & E & T).
    exists segs. split; [exact E | exact T].
  Qed.

  (* without the \Z clause the only other outcome is the final assertion: text is never lost silently *)
  Lemma cb_loop_weak : forall is_word is_space s,
    classes_disjoint is_word is_space ->
    forall ms idx, spans_weak (length s) idx ms -> Forall (kind_ok is_word is_space s) ms ->
    (exists segs, cb_loop prompt2 (define_re is_word is_space) s ms idx = Ok segs /\ text_of segs = skipn idx s)
    \/ cb_loop prompt2 (define_re is_word is_space) s ms idx = AssertFail 1.
  Proof.
    intros is_word is_space s Hd ms. induction ms as [|m ms IH]; intros idx Hs Hk; cbn [spans_weak] in Hs.
    - cbn [cb_loop]. destruct (Nat.eqb idx (length s)) eqn:E.
      + left. apply Nat.eqb_eq in E. subst idx. exists []. split; [reflexivity|]. rewrite skipn_all. reflexivity.
      + right. reflexivity.
    - destruct Hs as (H1 & H2 & H3 & H4). inversion Hk as [|? ? Hkm Hkms]; subst.
      cbn [cb_loop].
      destruct (subfunc_conserves is_word is_space s m Hd Hkm H2 H3) as (sub & Es & Ts).
      rewrite Es. cbn [bind].
      destruct (IH (sp_end m) H4 Hkms) as [(rest & Er & Tr) | Er]; rewrite Er; cbn [bind]; [left | right; reflexivity].
      eexists; split; [reflexivity|].
      rewrite !text_of_app, Ts, Tr.
      rewrite (skipn_slice s idx (sp_start m)) by lia.
      rewrite (skipn_slice s (sp_start m) (sp_end m)) by lia.
      f_equal.
      destruct (Nat.ltb idx (sp_start m)) eqn:E.
      + cbn [text_of flat_map snd]. apply app_nil_r.
      + apply Nat.ltb_ge in E. rewrite slice_empty by lia. reflexivity.
  Qed.

  Theorem codeblock_never_loses_silently : forall is_word is_space s segs,
    classes_disjoint is_word is_space -> finditer_contract_weak is_word is_space s (finditer s) ->
    colorize_codeblock_body finditer prompt2 (define_re is_word is_space) s = Ok segs -> text_of segs = s.
  Proof.
    intros is_word is_space s segs Hd [Hs Hk] E. unfold colorize_codeblock_body in E.
    destruct (cb_loop_weak is_word is_space s Hd _ 0 Hs Hk) as [(segs' & E' & T) | E'].
    - rewrite E in E'. inversion E'; subst. exact T.
    - rewrite E in E'. discriminate.
  Qed.

  (* ---- str.split / str.rstrip -------------------------------------------------------------------- *)
  Lemma split_nl_join : forall t, flat_map (fun l => l ++ NL) (split_nl t) = t ++ NL.
  Proof.
    induction t as [|c t IH]; [reflexivity|].
    cbn [split_nl]. destruct (split_nl t) as [|l ls] eqn:E.
    - cbn [flat_map] in IH. destruct t; discriminate.
    - destruct (N.eqb c 10) eqn:Ec.
      + apply N.eqb_eq in Ec. subst c. cbn [flat_map app]. cbn [flat_map] in IH. rewrite IH. reflexivity.
      + cbn [flat_map] in *. cbn [app]. f_equal. exact IH.
  Qed.

  Lemma dropwhile_split : forall (p : N -> bool) l,
    exists ws, l = ws ++ dropwhile p l /\ all_true p ws /\
               (dropwhile p l = [] \/ exists c r, dropwhile p l = c :: r /\ p c = false).
  Proof.
    intros p. induction l as [|x l IH].
    - exists []. repeat split; [constructor | left; reflexivity].
    - cbn [dropwhile]. destruct (p x) eqn:E.
      + destruct IH as (ws & H1 & H2 & H3). exists (x :: ws). split; [cbn; f_equal; exact H1|].
        split; [constructor; assumption | exact H3].
      + exists []. split; [reflexivity|]. split; [constructor|]. right. exists x, l. split; [reflexivity | exact E].
  Qed.

  Lemma rstrip_spec : forall w, is_rstrip_of w (rstrip w).
  Proof.
    intros w. unfold rstrip, is_rstrip_of.
    destruct (dropwhile_split is_py_space (rev w)) as (ws & H1 & H2 & H3).
    exists (rev ws). split.
    - rewrite <- rev_app_distr, <- H1, rev_involutive. reflexivity.
    - split.
      + unfold all_true in *. apply Forall_rev. exact H2.
      + destruct H3 as [H3 | (c & r & H3 & H4)]; rewrite H3.
        * left. reflexivity.
        * right. exists (rev r), c. split; [reflexivity | exact H4].
  Qed.

  Lemma want_segs_text : forall w, shown_want w (text_of (want_segs is_except w)).
  Proof.
    intros w. unfold want_segs, shown_want. destruct w as [|c w]; [reflexivity|].
    cbn [nonempty]. exists (rstrip (c :: w)). split; [apply rstrip_spec|].
    rewrite <- split_nl_join. generalize (split_nl (rstrip (c :: w))).
    generalize (if is_except (c :: w) then PyExcept else PyOutput). intros st ls.
    induction ls as [|l ls IH]; [reflexivity|].
    cbn [flat_map]. rewrite text_of_app. rewrite IH.
    cbn [text_of flat_map snd app]. rewrite app_nil_r. unfold NL. rewrite <- app_assoc. reflexivity.
  Qed.

  (* ---- colorize_doctest_body --------------------------------------------------------------------- *)
  Lemma dt_loop_conserves : forall is_word is_space s,
    classes_disjoint is_word is_space ->
    (forall t, finditer_contract is_word is_space t (finditer t)) ->
    forall exs idx, examples_from (length s) idx exs ->
    exists segs, dt_loop finditer prompt2 (define_re is_word is_space) is_except s exs idx = Ok segs
                 /\ doctest_shown s idx exs (text_of segs).
  Proof.
    intros is_word is_space s Hd Hf exs. induction exs as [|e exs IH]; intros idx He; cbn [examples_from] in He.
    - cbn [dt_loop]. eexists; split; [reflexivity|]. cbn [doctest_shown text_of flat_map snd]. apply app_nil_r.
    - destruct He as (H1 & H2 & H3 & H4 & H5). cbn [dt_loop].
      destruct (codeblock_conserves is_word is_space (slice s (ex_start e) (ex_src_end e)) Hd (Hf _))
        as (src & Es & Ts).
      destruct (IH (ex_end e) H5) as (rest & Er & Tr).
      rewrite Es, Er. cbn [bind]. eexists; split; [reflexivity|].
      cbn [doctest_shown]. exists (text_of (want_segs is_except (slice s (ex_src_end e) (ex_end e)))), (text_of rest).
      split; [apply want_segs_text|]. split; [exact Tr|].
      rewrite !text_of_app, Ts. cbn [text_of flat_map snd app]. rewrite app_nil_r.
      rewrite app_assoc. f_equal. apply slice_app; lia.
  Qed.

  Theorem doctest_conserves : forall is_word is_space s,
    classes_disjoint is_word is_space ->
    (forall t, finditer_contract is_word is_space t (finditer t)) ->
    examples_from (length s) 0 (examples s) ->
    exists segs, colorize_doctest_body finditer examples prompt2 (define_re is_word is_space) is_except s = Ok segs
                 /\ doctest_shown s 0 (examples s) (text_of segs).
  Proof.
    intros is_word is_space s Hd Hf He. unfold colorize_doctest_body.
    apply dt_loop_conserves; assumption.
  Qed.

  (* when every expected-output block is already in normal form the doctest block is reproduced exactly *)
  Lemma dropwhile_app_stop : forall (p : N -> bool) a b,
    all_true p a -> (b = [] \/ exists c r, b = c :: r /\ p c = false) -> dropwhile p (a ++ b) = b.
  Proof.
    intros p a b Ha Hb. induction Ha as [|x a Hx Ha IH]; cbn [app dropwhile].
    - destruct Hb as [Hb | (c & r & Hb & Hc)]; subst b; cbn [dropwhile]; [reflexivity | rewrite Hc; reflexivity].
    - rewrite Hx. exact IH.
  Qed.

  Lemma is_rstrip_unique : forall w r, is_rstrip_of w r -> r = rstrip w.
  Proof.
    intros w r (ws & E & A & Hl). unfold rstrip. subst w. rewrite rev_app_distr.
    rewrite dropwhile_app_stop.
    - symmetry. apply rev_involutive.
    - unfold all_true in *. apply Forall_rev. exact A.
    - destruct Hl as [Hl | (r' & c & Hl & Hc)]; subst r.
      + left. reflexivity.
      + right. exists c, (rev r'). split; [rewrite rev_app_distr; reflexivity | exact Hc].
  Qed.

  Lemma shown_want_unique : forall w a b, shown_want w a -> shown_want w b -> a = b.
  Proof.
    intros w a b Ha Hb. unfold shown_want in *. destruct w as [|c w]; [congruence|].
    destruct Ha as (ra & Ra & Ea). destruct Hb as (rb & Rb & Eb).
    apply is_rstrip_unique in Ra. apply is_rstrip_unique in Rb. congruence.
  Qed.

  Lemma doctest_shown_exact : forall s exs idx out,
    examples_from (length s) idx exs ->
    Forall (fun e => want_is_normal (slice s (ex_src_end e) (ex_end e))) exs ->
    doctest_shown s idx exs out -> out = skipn idx s.
  Proof.
    intros s exs. induction exs as [|e exs IH]; intros idx out He Hn Hs; cbn [doctest_shown examples_from] in *.
    - exact Hs.
    - destruct He as (H1 & H2 & H3 & H4 & H5). destruct Hs as (w & rest & Hw & Hr & Ho).
      inversion Hn as [|? ? Hne Hns]; subst.
      rewrite (IH (ex_end e) rest H5 Hns Hr).
      rewrite (shown_want_unique _ _ _ Hw Hne).
      rewrite <- (skipn_slice s (ex_src_end e) (ex_end e)) by lia.
      symmetry. apply skipn_slice. lia.
  Qed.

  Theorem doctest_exact : forall is_word is_space s,
    classes_disjoint is_word is_space ->
    (forall t, finditer_contract is_word is_space t (finditer t)) ->
    examples_from (length s) 0 (examples s) ->
    Forall (fun e => want_is_normal (slice s (ex_src_end e) (ex_end e))) (examples s) ->
    exists segs, colorize_doctest_body finditer examples prompt2 (define_re is_word is_space) is_except s = Ok segs
                 /\ text_of segs = s.
  Proof.
    intros is_word is_space s Hd Hf He Hn.
    destruct (doctest_conserves is_word is_space s Hd Hf He) as (segs & E & T).
    exists segs. split; [exact E|]. apply (doctest_shown_exact s _ 0 _ He Hn T).
  Qed.
End WithOracles.
