(* Proofs/ProjectStaticCheck.v -- boolean checks of the hypotheses of Spec/ProjectStatic.v (used for the
   non-vacuity Examples): enumeration of the static domain, keys_distinct, no_move, parents_first. *)
From Coq Require Import ZArith NArith List Bool Lia Permutation.
From PydoctorVerif Require Import Base.Sexp Model.Project Spec.ProjectStatic Proofs.ProjectBase Proofs.ProjectRegistry.
Import ListNotations.
Local Open Scope N_scope.

Lemma In_combine_seq {X} (l : list X) : forall k n x,
  In (n, x) (combine (seq k (length l)) l) <-> (k <= n)%nat /\ nth_error l (n - k) = Some x.
Proof.
  induction l as [|y l IH]; intros k n x; cbn [length seq combine In].
  - split; [tauto|]. intros [_ H]. destruct (n - k)%nat; discriminate.
  - rewrite IH. split.
    + intros [H|[Hk Hn]].
      * inversion H; subst. rewrite Nat.sub_diag. split; [lia|reflexivity].
      * split; [lia|]. replace (n - k)%nat with (S (n - S k)) by lia. exact Hn.
    + intros [Hk Hn]. destruct (Nat.eq_dec n k) as [->|Hne].
      * rewrite Nat.sub_diag in Hn. cbn in Hn. inversion Hn. left. reflexivity.
      * right. split; [lia|]. replace (n - k)%nat with (S (n - S k)) in Hn by lia. exact Hn.
Qed.

Definition stmt_oids (m i : N) (st : stmt) : list oid :=
  match st with
  | SClass _ _ _ members => (m, i, 0) :: map (fun k => (m, i, jn k)) (seq 0 (length members))
  | SFunc _ _ | SVar _ _ => [(m, i, 0)]
  | _ => []
  end.

Definition mod_oids (m : N) (mi : modinfo) : list oid :=
  (m, 0, 0) :: flat_map (fun ns => stmt_oids m (N.of_nat (S (fst ns))) (snd ns))
                        (combine (seq 0 (length (m_stmts mi))) (m_stmts mi)).

Definition all_oids (p : project) : list oid :=
  flat_map (fun km => mod_oids (N.of_nat (fst km)) (snd km)) (combine (seq 0 (length p)) p).

Lemma sobj_in_all p o : sobj p o <> None -> In o (all_oids p).
Proof.
  destruct o as [[m i] j]. intros H. unfold all_oids. apply in_flat_map.
  assert (Hm : exists mi, modinfo_of p m = Some mi).
  { unfold sobj in H. destruct (N.eqb i 0).
    - destruct (N.eqb j 0); [|congruence]. destruct (modinfo_of p m); [eauto|congruence].
    - unfold stmt_at in H. destruct (modinfo_of p m); [eauto|congruence]. }
  destruct Hm as (mi & Hmi). exists (N.to_nat m, mi). split.
  - apply In_combine_seq. split; [lia|]. rewrite Nat.sub_0_r. exact Hmi.
  - cbn [fst snd]. rewrite N2Nat.id. unfold mod_oids.
    destruct (N.eq_dec i 0) as [->|Hi].
    + left. unfold sobj in H. cbn [N.eqb] in H. destruct (N.eqb j 0) eqn:Ej; [|congruence]. apply N.eqb_eq in Ej. subst. reflexivity.
    + right. unfold sobj in H. apply N.eqb_neq in Hi. rewrite Hi in H. apply N.eqb_neq in Hi.
      destruct (stmt_at p m i) as [st|] eqn:Est; [|congruence].
      unfold stmt_at in Est. rewrite Hmi in Est. apply N.eqb_neq in Hi. rewrite Hi in Est. apply N.eqb_neq in Hi.
      apply in_flat_map. exists (N.to_nat (i - 1), st). split.
      * apply In_combine_seq. split; [lia|]. rewrite Nat.sub_0_r. exact Est.
      * cbn [fst snd]. replace (N.of_nat (S (N.to_nat (i - 1)))) with i by lia.
        destruct st; cbn [stmt_info stmt_oids] in *; try congruence.
        -- destruct (N.eq_dec j 0) as [->|Hj]; [left; reflexivity|right].
           apply N.eqb_neq in Hj. rewrite Hj in H. apply N.eqb_neq in Hj.
           destruct (nth_error members (N.to_nat (j - 1))) eqn:Ek; [|congruence].
           apply in_map_iff. exists (N.to_nat (j - 1)). split; [f_equal; unfold jn; lia|].
           apply in_seq. split; [lia|]. cbn. apply nth_error_Some. congruence.
        -- destruct (N.eqb j 0) eqn:Ej; [|congruence]. apply N.eqb_eq in Ej. subst. left. reflexivity.
        -- destruct (N.eqb j 0) eqn:Ej; [|congruence]. apply N.eqb_eq in Ej. subst. left. reflexivity.
Qed.

Fixpoint path_mem (k : path) (l : list path) : bool :=
  match l with [] => false | x :: l' => path_eqb x k || path_mem k l' end.
Fixpoint paths_nodup (l : list path) : bool :=
  match l with [] => true | x :: l' => negb (path_mem x l') && paths_nodup l' end.

Lemma path_mem_In k l : path_mem k l = true <-> In k l.
Proof.
  induction l as [|x l IH]; cbn [path_mem In]; [split; [discriminate|tauto]|].
  rewrite orb_true_iff, path_eqb_eq, IH. tauto.
Qed.
Lemma paths_nodup_NoDup l : paths_nodup l = true -> NoDup l.
Proof.
  induction l as [|x l IH]; cbn [paths_nodup]; [constructor|].
  rewrite andb_true_iff, negb_true_iff. intros [Hn Hl]. constructor; [|apply IH; exact Hl].
  intros Hin. apply path_mem_In in Hin. congruence.
Qed.

Lemma NoDup_map_inj {X Y} (f : X -> Y) l a b : NoDup (map f l) -> In a l -> In b l -> f a = f b -> a = b.
Proof.
  induction l as [|x l IH]; cbn [map In]; [tauto|]. intros Hnd Ha Hb E. inversion Hnd as [|? ? Hni Hnd']; subst.
  destruct Ha as [->|Ha], Hb as [->|Hb]; [reflexivity| | |apply IH; assumption].
  - exfalso. apply Hni. rewrite E. apply in_map. exact Hb.
  - exfalso. apply Hni. rewrite <- E. apply in_map. exact Ha.
Qed.

Definition keys_distinctb (p : project) : bool := paths_nodup (map (skey p) (all_oids p)).

Lemma keys_distinctb_sound p : keys_distinctb p = true -> keys_distinct p.
Proof.
  intros H o o' Ho Ho' E. apply paths_nodup_NoDup in H.
  eapply NoDup_map_inj; [exact H|apply sobj_in_all; exact Ho|apply sobj_in_all; exact Ho'|exact E].
Qed.

Lemma keysb_sound p (f : oid -> path) :
  paths_nodup (map f (all_oids p)) = true ->
  forall o o', sobj p o <> None -> sobj p o' <> None -> f o = f o' -> o = o'.
Proof.
  intros H o o' Ho Ho' E. apply paths_nodup_NoDup in H.
  eapply NoDup_map_inj; [exact H|apply sobj_in_all; exact Ho|apply sobj_in_all; exact Ho'|exact E].
Qed.

(* no import statement other than those of module R that bind n can re-export *)
Definition stmt_only_moveb (R n : N) (m : N) (mi : modinfo) (st : stmt) : bool :=
  match st with
  | SImportFrom _ _ names =>
    forallb (fun oa => negb (memN (snd oa) (exports_of_mod mi)) || (N.eqb m R && N.eqb (snd oa) n)) names
  | SImportStar _ _ => match exports_of_mod mi with [] => true | _ => false end
  | _ => true
  end.
Definition only_moveb (p : project) (R n : N) : bool :=
  forallb (fun km => forallb (stmt_only_moveb R n (N.of_nat (fst km)) (snd km)) (m_stmts (snd km)))
          (combine (seq 0 (length p)) p).

Lemma only_moveb_sound p R n :
  only_moveb p R n = true ->
  forall m mi st, modinfo_of p m = Some mi -> In st (m_stmts mi) ->
    match st with
    | SImportFrom _ _ nms => forall oa, In oa nms -> In (snd oa) (exports_of_mod mi) -> m = R /\ snd oa = n
    | SImportStar _ _ => exports_of_mod mi = []
    | _ => True
    end.
Proof.
  unfold only_moveb. rewrite forallb_forall. intros H m mi st Hmi Hst.
  specialize (H (N.to_nat m, mi)). cbn [fst snd] in H. rewrite N2Nat.id in H.
  assert (Hin : In (N.to_nat m, mi) (combine (seq 0 (length p)) p)) by (apply In_combine_seq; split; [lia|rewrite Nat.sub_0_r; exact Hmi]).
  specialize (H Hin). rewrite forallb_forall in H. specialize (H st Hst).
  destruct st; cbn [stmt_only_moveb] in *; try exact I.
  - rewrite forallb_forall in H. intros oa Hoa Hx. specialize (H oa Hoa). apply orb_true_iff in H. destruct H as [H|H].
    + apply negb_true_iff in H. apply memN_false in H. contradiction.
    + apply andb_true_iff in H. destruct H as [A B]. apply N.eqb_eq in A. apply N.eqb_eq in B. auto.
  - destruct (exports_of_mod mi); [reflexivity|discriminate].
Qed.

Definition stmt_no_moveb (mi : modinfo) (st : stmt) : bool :=
  match st with
  | SImportFrom _ _ names => forallb (fun oa => negb (memN (snd oa) (exports_of_mod mi))) names
  | SImportStar _ _ => match exports_of_mod mi with [] => true | _ => false end
  | _ => true
  end.
Definition no_moveb (p : project) : bool := forallb (fun mi => forallb (stmt_no_moveb mi) (m_stmts mi)) p.

Lemma no_moveb_sound p : no_moveb p = true -> no_move p.
Proof.
  unfold no_moveb, no_move. rewrite forallb_forall. intros H m mi st Hmi Hst.
  assert (Hin : In mi p) by (unfold modinfo_of in Hmi; eapply nth_error_In; exact Hmi).
  specialize (H mi Hin). rewrite forallb_forall in H. specialize (H st Hst).
  destruct st; cbn [stmt_no_moveb stmt_no_move] in *; try exact I.
  - rewrite forallb_forall in H. intros oa Hoa Hx. specialize (H oa Hoa). apply negb_true_iff in H.
    apply memN_false in H. contradiction.
  - destruct (exports_of_mod mi); [reflexivity|discriminate].
Qed.

Definition parents_firstb (p : project) : bool :=
  forallb (fun km => match m_parent (snd km) with Some q => N.ltb q (N.of_nat (fst km)) | None => true end)
          (combine (seq 0 (length p)) p).

Lemma parents_firstb_sound p : parents_firstb p = true -> parents_first p.
Proof.
  unfold parents_firstb, parents_first. rewrite forallb_forall. intros H m mi q Hmi Hq.
  specialize (H (N.to_nat m, mi)). cbn [fst snd] in H. rewrite Hq, N2Nat.id in H. apply N.ltb_lt. apply H.
  apply In_combine_seq. split; [lia|]. rewrite Nat.sub_0_r. exact Hmi.
Qed.


(* ---- checkers for the hypotheses of the bases / alias theorems ---- *)
Definition plain_importsb (p : project) : bool := forallb (fun mi => forallb plain_stmt (m_stmts mi)) p.

Lemma plain_importsb_sound p : plain_importsb p = true -> plain_imports p.
Proof.
  unfold plain_importsb, plain_imports. rewrite forallb_forall. intros H m mi st Hmi Hst.
  assert (Hin : In mi p) by (unfold modinfo_of in Hmi; eapply nth_error_In; exact Hmi).
  specialize (H mi Hin). rewrite forallb_forall in H. exact (H st Hst).
Qed.

Fixpoint nodupN (l : list N) : bool := match l with [] => true | x :: l' => negb (memN x l') && nodupN l' end.
Lemma nodupN_NoDup l : nodupN l = true -> NoDup l.
Proof.
  induction l as [|x l IH]; cbn [nodupN]; [constructor|]. rewrite andb_true_iff, negb_true_iff. intros [Hn Hl].
  constructor; [apply memN_false; exact Hn|apply IH; exact Hl].
Qed.

Definition bind_onceb (p : project) : bool :=
  forallb (fun km => let m := N.of_nat (fst km) in let mi := snd km in
                     nodupN (import_names mi) &&
                     forallb (fun a => negb (memN a (def_names mi)) && negb (memN a (submodule_names p m))) (import_names mi))
          (combine (seq 0 (length p)) p).

Lemma bind_onceb_sound p : bind_onceb p = true -> bind_once p.
Proof.
  unfold bind_onceb, bind_once. rewrite forallb_forall. intros H m mi Hmi.
  specialize (H (N.to_nat m, mi)). cbn [fst snd] in H. rewrite N2Nat.id in H.
  assert (Hin : In (N.to_nat m, mi) (combine (seq 0 (length p)) p)) by (apply In_combine_seq; split; [lia|rewrite Nat.sub_0_r; exact Hmi]).
  specialize (H Hin). apply andb_true_iff in H. destruct H as [H1 H2]. split; [apply nodupN_NoDup; exact H1|].
  rewrite forallb_forall in H2. intros a Ha. specialize (H2 a Ha). apply andb_true_iff in H2. destruct H2 as [A B].
  apply negb_true_iff in A. apply negb_true_iff in B. split; apply memN_false; assumption.
Qed.

Definition no_shadow_rootsb (p : project) : bool :=
  forallb (fun km => let m := N.of_nat (fst km) in let mi := snd km in
                     forallb (fun r => negb (memN r (def_names mi)) &&
                                       forallb (fun aq => negb (N.eqb (fst aq) r) || path_eqb (snd aq) [r]) (static_alias p m))
                             (root_names p))
          (combine (seq 0 (length p)) p).

Lemma no_shadow_rootsb_sound p : no_shadow_rootsb p = true -> no_shadow_roots p.
Proof.
  unfold no_shadow_rootsb, no_shadow_roots. rewrite forallb_forall. intros H m mi r Hmi Hr.
  specialize (H (N.to_nat m, mi)). cbn [fst snd] in H. rewrite N2Nat.id in H.
  assert (Hin : In (N.to_nat m, mi) (combine (seq 0 (length p)) p)) by (apply In_combine_seq; split; [lia|rewrite Nat.sub_0_r; exact Hmi]).
  specialize (H Hin). rewrite forallb_forall in H. specialize (H r Hr). apply andb_true_iff in H. destruct H as [A B].
  split; [apply memN_false; apply negb_true_iff; exact A|]. rewrite forallb_forall in B. intros q Hq. specialize (B (r, q) Hq). cbn [fst snd] in B.
  rewrite N.eqb_refl in B. cbn [negb orb] in B. apply path_eqb_eq. exact B.
Qed.
