(* Proofs/RegistryReparent.v -- Documentable.reparent preserves the invariant under guard_reparent. *)
From Coq Require Import ZArith NArith List Bool Lia.
From PydoctorVerif Require Import Base.Sexp Model.Registry Spec.RegistryInv Proofs.RegistryBase Proofs.RegistryProofs.
Import ListNotations.
Local Open Scope N_scope.

Section Reparent.
  Variables (s : state) (o np oldp : id) (nn : name) (pn po : path).
  Hypothesis HI : Inv s.
  Hypothesis Ho : reg s o.
  Hypothesis Hnp : reg s np.
  Hypothesis Hnpmod : is_module (ocl (store s np)) = true.
  Hypothesis Hopar : oparent (store s o) = Some oldp.
  Hypothesis Holdcan : can_contain_imports (ocl (store s oldp)) = true.
  Hypothesis Hentry : cget (oname (store s o)) (ocont (store s oldp)) = Some o.
  Hypothesis Hnotanc : ~ anc (store s) o np.
  Hypothesis Hpn : fullpath s np = Some pn.
  Hypothesis Hpo : fullpath s o = Some po.
  Hypothesis Hfree : rget (pn ++ [nn]) (allobj s) = None.
  Hypothesis Hcov : covered s o.
  Hypothesis Hmodpkg : is_module (ocl (store s o)) = true -> ocl (store s np) = CPackage.

  Let st := store s.
  Let oldname := oname (st o).
  Let d' := S (depthb s + depthb s).
  Let fn' := pn ++ [nn].
  Let C4 (y : id) := if N.eqb y oldp then cdel oldname (ocont (st y)) else ocont (st y).

  Variables (st5 : id -> obj) (T : list id) (m1 m2 m3 : registry).
  (* what the statements of reparent leave in the store (aliases aside) *)
  Hypothesis H5core : forall x, ocl (st5 x) = ocl (st x) /\ okind (st5 x) = okind (st x) /\ osup (st5 x) = osup (st x).
  Hypothesis H5name : forall x, oname (st5 x) = if N.eqb x o then nn else oname (st x).
  Hypothesis H5par : forall x, oparent (st5 x) = if N.eqb x o then Some np else oparent (st x).
  Hypothesis H5cont : forall x, ocont (st5 x) = if N.eqb x np then cset nn o (C4 np) else C4 x.
  Let s2 := mkState st5 (next s) m1 (roots s) d' (unproc s).
  Let s5 := mkState st5 (next s) m2 (roots s) d' (unproc s).
  Hypothesis HT : subtree s o = Some T.
  Hypothesis Hm1 : del_walk s T (allobj s) = Some m1.
  Hypothesis Hm2 : set_walk s2 T m1 = Some m2.
  Hypothesis Hm3 : set_walk s5 T m2 = Some m3.
  Let s' := set_allobj s5 m3.

  Lemma rp_not_anc_oldp : ~ anc st o oldp.
  Proof. eapply anc_parent_absurd; [exact Hopar | exact Hpo]. Qed.
  Lemma rp_o_ne_oldp : o <> oldp.
  Proof. intros E. apply rp_not_anc_oldp. rewrite <- E. apply anc_refl. Qed.
  Lemma rp_o_ne_np : o <> np.
  Proof. intros E. apply Hnotanc. rewrite <- E. apply anc_refl. Qed.
  Lemma rp_oldp_reg : reg s oldp.
  Proof. exact (inv_par s HI o oldp Ho Hopar). Qed.

  Lemma rp_name_other : forall x, x <> o -> oname (st5 x) = oname (st x) /\ oparent (st5 x) = oparent (st x).
  Proof. intros x Hx. rewrite H5name, H5par. apply N.eqb_neq in Hx. rewrite Hx. auto. Qed.
  Lemma rp_name_o : oname (st5 o) = nn /\ oparent (st5 o) = Some np.
  Proof. rewrite H5name, H5par, N.eqb_refl. auto. Qed.

  Lemma rp_T_in : forall x, In x T -> reg s x /\ anc st o x.
  Proof. intros x Hx. apply (desc_reg_anc s HI o x Ho). eapply subtree_f_desc; [exact HT | exact Hx]. Qed.
  Lemma rp_T_cov : forall x, reg s x -> anc st o x -> In x T.
  Proof. intros x Hx Ha. eapply subtree_f_complete; [exact HT | apply Hcov; assumption]. Qed.

  (* the key of o in its old parent *)
  Lemma rp_po : exists pold, fullpath s oldp = Some pold /\ po = pold ++ [oldname].
  Proof.
    destruct (reg_self s HI oldp rp_oldp_reg) as [pold [H1 _]]. exists pold. split; [exact H1|].
    assert (E := reg_child_path s HI o oldp pold Ho Hopar H1). rewrite Hpo in E. inversion E. reflexivity.
  Qed.
  (* a registered child of oldp named oldname is o; a registered child of np named nn does not exist *)
  Lemma rp_child_oldname : forall x, reg s x -> oparent (st x) = Some oldp -> oname (st x) = oldname -> x = o.
  Proof.
    intros x Hx Hp Hn. destruct rp_po as [pold [H1 H2]].
    assert (E := reg_child_path s HI x oldp pold Hx Hp H1). fold st in E. rewrite Hn in E. rewrite <- H2 in E.
    eapply (path_inj s HI); eauto.
  Qed.
  Lemma rp_child_nn : forall x, reg s x -> oparent (st x) = Some np -> oname (st x) <> nn.
  Proof.
    intros x Hx Hp Hn. assert (E := reg_child_path s HI x np pn Hx Hp Hpn). fold st in E. rewrite Hn in E.
    destruct (reg_self s HI x Hx) as [k [H1 H2]]. rewrite E in H1. inversion H1; subst k. unfold fn' in *.
    rewrite Hfree in H2. discriminate.
  Qed.

  (* paths after the move *)
  Lemma rp_fp_out : forall F x, ~ anc st o x -> fullpath_f F st5 x = fullpath_f F st x.
  Proof.
    intros F x Hx. apply (fullpath_f_frame st st5 (fun y => ~ anc st o y)); [| |exact Hx].
    - intros y p Hy Hp Ha. apply Hy. eapply anc_step; eauto.
    - intros y Hy. apply rp_name_other. intros ->. apply Hy. apply anc_refl.
  Qed.
  Lemma rp_fp_o : forall F, (S (length pn) <= F)%nat -> fullpath_f F st5 o = Some fn'.
  Proof.
    intros F HF. assert (H1 : fullpath_f (length pn) st np = Some pn) by (apply (fullpath_f_tight _ _ _ _ Hpn)).
    rewrite <- (rp_fp_out _ _ Hnotanc) in H1.
    apply (fullpath_f_mono (S (length pn))); [|exact HF].
    destruct rp_name_o as [Hn Hp]. unfold fn'. rewrite <- Hn.
    apply (fullpath_f_child_intro _ st5 o np); [exact Hp | exact H1].
  Qed.
  Lemma rp_fp_in : forall x px, anc st o x -> fullpath s x = Some px ->
      exists r, px = po ++ r /\ fullpath_f d' st5 x = Some (fn' ++ r).
  Proof.
    intros x px Ha Hpx.
    destruct (anc_suffix st st5 o rp_name_other x Ha (depthb s) (S (length pn)) px po fn' Hpx Hpo (rp_fp_o _ (le_n _)))
      as [r [-> Hr]].
    exists r. split; [reflexivity|]. apply (fullpath_f_mono _ _ _ _ Hr).
    apply fullpath_f_len in Hpx. rewrite app_length in Hpx. apply fullpath_f_len in Hpn. unfold d'. lia.
  Qed.
  Lemma rp_fp_out' : forall x p, ~ anc st o x -> fullpath s x = Some p -> fullpath_f d' st5 x = Some p.
  Proof.
    intros x p Hx Hp. rewrite rp_fp_out by exact Hx. apply (fullpath_f_mono _ _ _ _ Hp). unfold d'. lia.
  Qed.
  Lemma rp_fn'_ne : forall r x, reg s x -> ~ In x T -> fullpath s x <> Some (fn' ++ r).
  Proof.
    intros r x Hx Hn Hk.
    assert (Hne : fn' <> []) by (unfold fn'; intros E; apply app_eq_nil in E; destruct E; discriminate).
    destruct (prefix_closed s HI r x fn' Hx Hk Hne) as [w [[kw Hw1] [Hw2 _]]].
    assert (E := inv_I1 s HI _ _ Hw1). rewrite Hw2 in E. inversion E; subst kw.
    unfold fn' in Hw1. rewrite Hfree in Hw1. discriminate.
  Qed.

  (* the registry after the move *)
  Lemma rp_key_T : forall x, In x T -> exists r, fullpath s x = Some (po ++ r) /\ fullpath_f d' st5 x = Some (fn' ++ r).
  Proof.
    intros x Hx. destruct (rp_T_in x Hx) as [Hr Ha]. destruct (reg_self s HI x Hr) as [px [Hpx _]].
    destruct (rp_fp_in x px Ha Hpx) as [r [-> H2]]. exists r. auto.
  Qed.
  Lemma rp_key_inj : forall x y k, In x T -> In y T -> fullpath_f d' st5 x = Some k -> fullpath_f d' st5 y = Some k -> y = x.
  Proof.
    intros x y k Hx Hy Hkx Hky. destruct (rp_key_T x Hx) as [r [A1 A2]]. destruct (rp_key_T y Hy) as [r' [B1 B2]].
    rewrite A2 in Hkx. rewrite B2 in Hky. rewrite <- Hkx in Hky. inversion Hky as [E]. apply app_inv_head in E. subst r'.
    destruct (rp_T_in x Hx) as [Rx _]. destruct (rp_T_in y Hy) as [Ry _]. eapply (path_inj s HI); eauto.
  Qed.
  Lemma rp_rget_sound : forall k x, rget k (allobj s') = Some x ->
      (In x T /\ fullpath_f d' st5 x = Some k) \/ (~ In x T /\ rget k (allobj s) = Some x /\ ~ anc st o x).
  Proof.
    intros k x H. unfold s' in H. cbn in H.
    destruct (set_walk_sound _ _ _ _ Hm3 k x H) as [[H1 H2]|H1]; [left; auto|].
    destruct (set_walk_sound _ _ _ _ Hm2 k x H1) as [[H2 H3]|H2]; [left; auto|].
    right. apply (del_walk_spec _ _ _ _ Hm1) in H2. destruct H2 as [H2 H3].
    assert (Hx : reg s x) by (exists k; exact H2).
    assert (Hna : ~ anc st o x).
    { intros Ha. apply (H3 x (rp_T_cov x Hx Ha)). apply (inv_I1 s HI). exact H2. }
    split; [|split; [exact H2 | exact Hna]]. intros Hin. apply Hna. apply rp_T_in. exact Hin.
  Qed.
  Lemma rp_reg_T : forall x, In x T -> exists k, fullpath_f d' st5 x = Some k /\ rget k (allobj s') = Some x.
  Proof.
    intros x Hx. destruct (rp_key_T x Hx) as [r [A1 A2]]. exists (fn' ++ r). split; [exact A2|].
    unfold s'. cbn. apply (set_walk_in _ _ _ _ Hm3); [|left; split; [exact Hx | exact A2]].
    intros y Hy Hky. eapply rp_key_inj; eauto.
  Qed.
  Lemma rp_reg_out : forall x k, reg s x -> ~ In x T -> fullpath s x = Some k -> rget k (allobj s') = Some x.
  Proof.
    intros x k Hx Hn Hk. destruct (reg_self s HI x Hx) as [k' [Hk1 Hk2]]. rewrite Hk in Hk1. inversion Hk1; subst k'.
    assert (Hfresh : forall y, In y T -> fullpath_f d' st5 y <> Some k).
    { intros y Hy Hky. destruct (rp_key_T y Hy) as [r [_ B2]]. rewrite B2 in Hky. inversion Hky; subst k.
      apply (rp_fn'_ne r x Hx Hn). exact Hk. }
    unfold s'. cbn. rewrite (set_walk_other _ _ _ _ Hm3 k Hfresh). rewrite (set_walk_other _ _ _ _ Hm2 k Hfresh).
    apply (del_walk_spec _ _ _ _ Hm1). split; [exact Hk2|].
    intros y Hy Hpy. destruct (rp_T_in y Hy) as [Hry _]. apply Hn. rewrite (path_inj s HI x y k Hx Hry Hk Hpy). exact Hy.
  Qed.
  Lemma rp_reg : forall x, reg s' x <-> reg s x.
  Proof.
    intros x. split.
    - intros [k Hk]. destruct (rp_rget_sound k x Hk) as [[H _]|[_ [H _]]]; [apply rp_T_in; exact H | exists k; exact H].
    - intros Hx. destruct (reg_self s HI x Hx) as [k [Hk _]]. destruct (in_dec N.eq_dec x T) as [Hin|Hnin].
      + destruct (rp_reg_T x Hin) as [k' [_ H]]. exists k'. exact H.
      + exists k. apply rp_reg_out; assumption.
  Qed.

  (* contents after the move *)
  Lemma rp_C4_in : forall y n' c, reg s y -> In (n', c) (C4 y) ->
      In (n', c) (ocont (st y)) /\ c <> o.
  Proof.
    intros y n' c Hy Hin. unfold C4 in Hin. destruct (N.eqb y oldp) eqn:E.
    - apply N.eqb_eq in E. subst y. apply (in_adel_inv name_eqb name_eqb_eq) in Hin. destruct Hin as [Hne Hin].
      split; [exact Hin|]. intros ->. destruct (inv_cont s HI oldp n' o Hy Hin) as [_ [_ G3]]. apply Hne. symmetry. exact G3.
    - split; [exact Hin|]. intros ->. destruct (inv_cont s HI y n' o Hy Hin) as [_ [G2 _]].
      fold st in G2. unfold st in G2. rewrite Hopar in G2. inversion G2 as [E2]. apply N.eqb_neq in E. apply E. auto.
  Qed.
  Lemma rp_C4_nodup : forall y, reg s y -> NoDup (map fst (C4 y)).
  Proof.
    intros y Hy. unfold C4. destruct (N.eqb y oldp); [apply (nodup_adel name_eqb)|]; apply (inv_ckeys s HI); exact Hy.
  Qed.
  Lemma rp_C4_get : forall y x, reg s x -> oparent (st x) = Some y -> x <> o -> cget (oname (st x)) (C4 y) = cget (oname (st x)) (ocont (st y)).
  Proof.
    intros y x Hx Hp Hne. unfold C4. destruct (N.eqb y oldp) eqn:E; [|reflexivity].
    apply N.eqb_eq in E. subst y. unfold cget, cdel. apply cget_cdel_ne.
    intros E. apply Hne. apply rp_child_oldname; auto.
  Qed.

  Lemma reparent_states_inv : Inv s'.
  Proof.
    assert (Hst : store s' = st5) by reflexivity.
    assert (Hfull : forall x, fullpath s' x = fullpath_f d' st5 x) by reflexivity.
    constructor.
    - unfold s'. cbn. apply (set_walk_nodup _ _ _ _ Hm3). apply (set_walk_nodup _ _ _ _ Hm2).
      apply (del_walk_nodup _ _ _ _ Hm1). apply (inv_keys s HI).
    - intros x Hx. apply rp_reg in Hx. rewrite Hst, H5cont. destruct (N.eqb x np) eqn:E.
      + apply (nodup_aset name_eqb name_eqb_eq). apply rp_C4_nodup. exact Hnp.
      + apply rp_C4_nodup. exact Hx.
    - intros p x Hp. assert (Hx : reg s' x) by (exists p; exact Hp). apply rp_reg in Hx. unfold s'. cbn.
      apply (reg_lt s HI). exact Hx.
    - intros p x Hp. rewrite Hfull. destruct (rp_rget_sound p x Hp) as [[_ H]|[_ [H Hna]]]; [exact H|].
      apply rp_fp_out'; [exact Hna | apply (inv_I1 s HI); exact H].
    - intros x p Hx Hp. apply rp_reg in Hx. apply rp_reg. rewrite Hst, H5par in Hp. destruct (N.eqb x o) eqn:E.
      + inversion Hp; subst p. exact Hnp.
      + eapply (inv_par s HI); eauto.
    - intros x n' c Hx Hin. apply rp_reg in Hx. rewrite Hst in *. rewrite H5cont in Hin.
      assert (Hold : forall y, reg s y -> In (n', c) (C4 y) -> reg s' c /\ oparent (st5 c) = Some y /\ oname (st5 c) = n').
      { intros y Hy Hin'. destruct (rp_C4_in y n' c Hy Hin') as [G1 G2].
        destruct (inv_cont s HI y n' c Hy G1) as [K1 [K2 K3]]. destruct (rp_name_other c G2) as [L1 L2].
        split; [apply rp_reg; exact K1 | split; [rewrite L2; exact K2 | rewrite L1; exact K3]]. }
      destruct (N.eqb x np) eqn:E.
      + apply N.eqb_eq in E. subst x.
        apply (in_aset_inv name_eqb name_eqb_eq) in Hin; [|apply rp_C4_nodup; exact Hnp].
        destruct Hin as [[-> ->]|[_ Hin]].
        * destruct rp_name_o as [L1 L2]. split; [apply rp_reg; exact Ho | auto].
        * apply Hold; assumption.
      + apply Hold; assumption.
    - intros r Hr. unfold s' in Hr. cbn in Hr. destruct (inv_roots s HI r Hr) as [G1 G2].
      split; [apply rp_reg; exact G1|]. rewrite Hst, H5par. destruct (N.eqb r o) eqn:E; [|exact G2].
      apply N.eqb_eq in E. subst r. rewrite Hopar in G2. discriminate.
    - intros x p Hx Hp. apply rp_reg in Hx. rewrite Hst in *. destruct (H5core x) as [_ [_ X5]]. rewrite X5.
      destruct (N.eq_dec x o) as [->|Hne].
      + destruct rp_name_o as [L1 L2]. rewrite L2 in Hp. inversion Hp; subst p. left.
        rewrite L1, H5cont, N.eqb_refl. apply cget_cset_eq.
      + destruct (rp_name_other x Hne) as [L1 L2]. rewrite L1. rewrite L2 in Hp.
        destruct (inv_I3 s HI x p Hx Hp) as [G|G]; [left | right; exact G].
        rewrite H5cont. destruct (N.eqb p np) eqn:E.
        * apply N.eqb_eq in E. subst p. unfold cget, cset. rewrite cget_cset_ne.
          -- fold (cget (oname (st x)) (C4 np)). rewrite (rp_C4_get np x Hx Hp Hne). exact G.
          -- intros E. apply (rp_child_nn x Hx Hp). auto.
        * rewrite (rp_C4_get p x Hx Hp Hne). exact G.
    - intros x Hx Hp. apply rp_reg in Hx. rewrite Hst, H5par in Hp. unfold s'. cbn.
      destruct (N.eqb x o); [discriminate | apply (inv_top s HI); assumption].
    - intros x p Hx Hp H1 H2. apply rp_reg in Hx. rewrite Hst in *.
      destruct (H5core x) as [X3 [X4 _]]. destruct (H5core p) as [P3 _]. rewrite X3 in H1. rewrite P3 in H2. rewrite X4.
      rewrite H5par in Hp. destruct (N.eqb x o) eqn:E.
      + inversion Hp; subst p. fold st in Hnpmod. rewrite H2 in Hnpmod. discriminate.
      + apply (inv_I5a s HI x p); assumption.
    - intros x p Hx Hp H1. apply rp_reg in Hx. rewrite Hst in *.
      destruct (H5core x) as [X3 _]. destruct (H5core p) as [P3 _]. rewrite X3 in H1. rewrite P3.
      rewrite H5par in Hp. destruct (N.eqb x o) eqn:E.
      + apply N.eqb_eq in E. subst x. inversion Hp; subst p. apply Hmodpkg. exact H1.
      + apply (inv_I5b s HI x p); assumption.
    - intros x Hx H1. apply rp_reg in Hx. rewrite Hst in *. destruct (H5core x) as [X3 _]. rewrite X3 in H1.
      rewrite H5cont. destruct (N.eqb x np) eqn:E.
      + apply N.eqb_eq in E. subst x. fold st in Hnpmod. destruct (ocl (st np)); discriminate.
      + unfold C4. destruct (N.eqb x oldp) eqn:E2.
        * apply N.eqb_eq in E2. subst x. fold st in Holdcan. rewrite H1 in Holdcan. discriminate.
        * apply (inv_I5c s HI); assumption.
    - unfold s'. cbn. apply (inv_rnodup s HI).
  Qed.
End Reparent.

(* ------------------------------------------------------------------ the store that the statements of reparent build *)
Lemma adel_strict_some' {K V} (eqb : K -> K -> bool) : forall k (l l' : list (K * V)),
    adel_strict eqb k l = Some l' -> l' = adel eqb k l.
Proof. intros k l l' H. unfold adel_strict in H. destruct (aget eqb k l); inversion H. reflexivity. Qed.

Lemma set_walk_ext : forall sa sb, (forall x, fullpath sa x = fullpath sb x) ->
    forall T m, set_walk sa T m = set_walk sb T m.
Proof.
  intros sa sb H. induction T as [|x t IH]; intros m; cbn; [reflexivity|].
  rewrite (H x). destruct (fullpath sb x); [apply IH | reflexivity].
Qed.

Section RpStore.
  Variables (st : id -> obj) (o np oldp : id) (nn : name) (fno : path).
  Hypothesis Hne1 : o <> oldp.
  Hypothesis Hne2 : o <> np.
  Let oldname := oname (st o).
  Let st2 := upd st o (with_name (with_parent (st o) (Some np)) nn).
  Let st3 := upd st2 oldp (with_cont (st2 oldp) (adel name_eqb oldname (ocont (st2 oldp)))).
  Let st4 := upd st3 oldp (with_alias (st3 oldp) (aset name_eqb oldname fno (oalias (st3 oldp)))).
  Let st5 := upd st4 np (with_cont (st4 np) (cset nn o (ocont (st4 np)))).
  Let C4 (y : id) := if N.eqb y oldp then cdel oldname (ocont (st y)) else ocont (st y).

  Lemma rps_st2 : forall x, ocl (st2 x) = ocl (st x) /\ okind (st2 x) = okind (st x) /\ osup (st2 x) = osup (st x) /\
                            ocont (st2 x) = ocont (st x) /\
                            oname (st2 x) = (if N.eqb x o then nn else oname (st x)) /\
                            oparent (st2 x) = (if N.eqb x o then Some np else oparent (st x)).
  Proof.
    intros x. unfold st2, upd. destruct (N.eqb x o) eqn:E; [apply N.eqb_eq in E; subst x; cbn; auto 10 | auto 10].
  Qed.
  Lemma rps_st4 : forall x, ocl (st4 x) = ocl (st x) /\ okind (st4 x) = okind (st x) /\ osup (st4 x) = osup (st x) /\
                            ocont (st4 x) = C4 x /\
                            oname (st4 x) = (if N.eqb x o then nn else oname (st x)) /\
                            oparent (st4 x) = (if N.eqb x o then Some np else oparent (st x)).
  Proof.
    intros x. destruct (rps_st2 x) as [A1 [A2 [A3 [A4 [A5 A6]]]]].
    destruct (rps_st2 oldp) as [B1 [B2 [B3 [B4 [B5 B6]]]]].
    unfold st4. destruct (N.eq_dec x oldp) as [->|Hx].
    - rewrite upd_same. unfold st3. cbn. rewrite upd_same. cbn. unfold C4. rewrite N.eqb_refl. rewrite B4. auto 10.
    - rewrite upd_other by exact Hx. unfold st3. rewrite upd_other by exact Hx. unfold C4.
      apply N.eqb_neq in Hx. rewrite Hx. auto 10.
  Qed.
  Lemma rps_core : forall x, ocl (st5 x) = ocl (st x) /\ okind (st5 x) = okind (st x) /\ osup (st5 x) = osup (st x).
  Proof.
    intros x. destruct (rps_st4 x) as [A1 [A2 [A3 _]]]. destruct (rps_st4 np) as [B1 [B2 [B3 _]]].
    unfold st5, upd. destruct (N.eqb x np) eqn:E; [apply N.eqb_eq in E; subst x; cbn; auto | auto].
  Qed.
  Lemma rps_name : forall x, oname (st5 x) = if N.eqb x o then nn else oname (st x).
  Proof.
    intros x. destruct (rps_st4 x) as [_ [_ [_ [_ [A5 _]]]]]. destruct (rps_st4 np) as [_ [_ [_ [_ [B5 _]]]]].
    unfold st5, upd. destruct (N.eqb x np) eqn:E; [apply N.eqb_eq in E; subst x; cbn; exact B5 | exact A5].
  Qed.
  Lemma rps_par : forall x, oparent (st5 x) = if N.eqb x o then Some np else oparent (st x).
  Proof.
    intros x. destruct (rps_st4 x) as [_ [_ [_ [_ [_ A6]]]]]. destruct (rps_st4 np) as [_ [_ [_ [_ [_ B6]]]]].
    unfold st5, upd. destruct (N.eqb x np) eqn:E; [apply N.eqb_eq in E; subst x; cbn; exact B6 | exact A6].
  Qed.
  Lemma rps_cont : forall x, ocont (st5 x) = if N.eqb x np then cset nn o (C4 np) else C4 x.
  Proof.
    intros x. destruct (rps_st4 x) as [_ [_ [_ [A4 _]]]]. destruct (rps_st4 np) as [_ [_ [_ [B4 _]]]].
    unfold st5, upd. destruct (N.eqb x np) eqn:E; [cbn; rewrite B4; reflexivity | exact A4].
  Qed.
  Lemma rps_fullpath2 : forall F x, fullpath_f F st5 x = fullpath_f F st2 x.
  Proof.
    intros F x. apply fullpath_f_ext. intros y. rewrite rps_name, rps_par.
    destruct (rps_st2 y) as [_ [_ [_ [_ [A5 A6]]]]]. rewrite A5, A6. auto.
  Qed.
  Lemma rps_fullpath3 : forall F x, fullpath_f F st3 x = fullpath_f F st2 x.
  Proof.
    intros F x. apply fullpath_f_ext. intros y. unfold st3, upd.
    destruct (N.eqb y oldp) eqn:E; [apply N.eqb_eq in E; subst y; cbn; auto | auto].
  Qed.
End RpStore.

(* ------------------------------------------------------------------ Reparent *)
Lemma step_reparent_inv : forall s o np nn s', Inv s -> guard_reparent s o np nn ->
    step s (Reparent o np nn) = Some s' -> Inv s'.
Proof.
  intros s o np nn s' HI [Ho [Hnp [Hnpmod [[oldp [Hopar [Holdcan Hentry]]] [Hnotanc [Hfree [Hcov Hmodpkg]]]]]]] H.
  cbn [step] in H. unfold reparent, reparent_tail in H.
  unfold remove_tree in H. destruct (subtree s o) as [T|] eqn:ET; [|discriminate].
  destruct (del_walk s T (allobj s)) as [m1|] eqn:Em1; [|discriminate].
  rewrite Hopar in H. rewrite Holdcan in H. cbn [negb] in H. cbv iota in H.
  destruct (reg_self s HI o Ho) as [po [Hpo _]]. destruct (reg_self s HI np Hnp) as [pn [Hpn _]].
  assert (Hne1 : o <> oldp) by (intros E; apply (anc_parent_absurd _ _ _ _ _ Hopar Hpo); rewrite <- E; apply anc_refl).
  assert (Hne2 : o <> np) by (intros E; apply Hnotanc; rewrite <- E; apply anc_refl).
  set (st2 := upd (store s) o (with_name (with_parent (store s o) (Some np)) nn)) in *.
  set (d' := S (depthb s + depthb s)) in *.
  unfold readd_tree in H at 1.
  (* the first _handle_reparenting_post walks the same objects *)
  assert (HT2 : subtree (mkState st2 (next s) m1 (roots s) d' (unproc s)) o = Some T).
  { unfold subtree in *. cbn [depthb store]. rewrite (subtree_f_ext (store s) st2).
    - apply (subtree_f_mono _ _ _ _ ET). unfold d'. lia.
    - intros x. destruct (rps_st2 (store s) o np nn x) as [_ [_ [_ [A4 _]]]]. exact A4. }
  rewrite HT2 in H. cbn [allobj] in H.
  destruct (set_walk (mkState st2 (next s) m1 (roots s) d' (unproc s)) T m1) as [m2|] eqn:Em2; [|discriminate].
  destruct (adel_strict name_eqb (oname (store s o)) (ocont (st2 oldp))) as [c3|] eqn:Ec3; [|discriminate].
  apply adel_strict_some' in Ec3. subst c3. cbn [depthb] in H.
  set (st3 := upd st2 oldp (with_cont (st2 oldp) (adel name_eqb (oname (store s o)) (ocont (st2 oldp))))) in *.
  destruct (fullpath_f d' st3 o) as [fno|] eqn:Efno; [|discriminate].
  set (st4 := upd st3 oldp (with_alias (st3 oldp) (aset name_eqb (oname (store s o)) fno (oalias (st3 oldp))))) in *.
  set (st5 := upd st4 np (with_cont (st4 np) (cset nn o (ocont (st4 np))))) in *.
  unfold readd_tree in H.
  assert (Hin_T : forall x, In x T -> reg s x /\ anc (store s) o x).
  { intros x Hx. apply (desc_reg_anc s HI o x Ho). eapply subtree_f_desc; [exact ET | exact Hx]. }
  assert (HT5 : subtree (mkState st5 (next s) m2 (roots s) d' (unproc s)) o = Some T).
  { unfold subtree in *. cbn [depthb store] in *. apply (subtree_f_local st2); [exact HT2|].
    intros x Hx. destruct (Hin_T x Hx) as [_ Ha].
    assert (Hxnp : x <> np) by (intros ->; apply Hnotanc; exact Ha).
    assert (Hxop : x <> oldp) by (intros ->; apply (anc_parent_absurd _ _ _ _ _ Hopar Hpo); exact Ha).
    assert (R : ocont (st5 x) = if N.eqb x np then cset nn o
                  (if N.eqb np oldp then cdel (oname (store s o)) (ocont (store s np)) else ocont (store s np))
                else (if N.eqb x oldp then cdel (oname (store s o)) (ocont (store s x)) else ocont (store s x)))
      by (apply (rps_cont (store s) o np oldp nn fno x)).
    rewrite R. apply N.eqb_neq in Hxnp. apply N.eqb_neq in Hxop. rewrite Hxnp, Hxop.
    assert (R2 : ocont (st2 x) = ocont (store s x)) by (apply (rps_st2 (store s) o np nn x)).
    rewrite R2. reflexivity. }
  rewrite HT5 in H. cbn [allobj] in H.
  destruct (set_walk (mkState st5 (next s) m2 (roots s) d' (unproc s)) T m2) as [m3|] eqn:Em3; [|discriminate].
  inversion H; subst s'. clear H.
  assert (Em2' : set_walk (mkState st5 (next s) m1 (roots s) d' (unproc s)) T m1 = Some m2).
  { rewrite <- Em2. apply set_walk_ext. intros x. unfold fullpath. cbn [depthb store].
    apply (rps_fullpath2 (store s) o np oldp nn fno). }
  apply (reparent_states_inv s o np oldp nn pn po HI Ho Hnp Hnpmod Hopar Holdcan Hnotanc Hpn Hpo (Hfree pn Hpn) Hcov
                             Hmodpkg st5 T m1 m2 m3).
  - apply (rps_core (store s) o np oldp nn fno).
  - apply (rps_name (store s) o np oldp nn fno).
  - apply (rps_par (store s) o np oldp nn fno).
  - apply (rps_cont (store s) o np oldp nn fno).
  - exact ET.
  - exact Em1.
  - exact Em2'.
  - exact Em3.
Qed.
