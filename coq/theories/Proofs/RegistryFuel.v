(* Proofs/RegistryFuel.v -- the fuelled loops of Model/Registry.v do not run out of fuel in a state that satisfies Inv:
   the walk down `contents` (subtree: _remove, readd, _handle_reparenting_pre and _post) and handleDuplicate's search for a free
   index.  (That fullName's walk up does not run out is clause I1 of Inv itself.) *)
From Coq Require Import ZArith NArith List Bool Lia FinFun.
From PydoctorVerif Require Import Base.Sexp Model.Registry Spec.RegistryInv Proofs.RegistryBase Proofs.RegistryProofs.
Import ListNotations.
Local Open Scope N_scope.

Lemma oconcat_total {X Y} (f : X -> option (list Y)) : forall l, (forall x, In x l -> exists r, f x = Some r) ->
    exists r, oconcat f l = Some r.
Proof.
  induction l as [|x t IH]; intros H; cbn; [eauto|].
  destruct (H x (or_introl eq_refl)) as [a Ha]. destruct IH as [b Hb]; [intros y Hy; apply H; right; exact Hy|].
  rewrite Ha, Hb. eauto.
Qed.

Lemma subtree_f_total : forall s, Inv s -> forall F a p, reg s a -> fullpath s a = Some p ->
    (depthb s < F + length p)%nat -> exists T, subtree_f F (store s) a = Some T.
Proof.
  intros s HI. induction F as [|F IH]; intros a p Ha Hp Hlt.
  - apply fullpath_f_len in Hp. lia.
  - cbn. destruct (oconcat_total (subtree_f F (store s)) (map snd (ocont (store s a)))) as [l Hl].
    + intros c Hc. apply in_map_iff in Hc. destruct Hc as [[n c'] [E Hin]]. cbn in E. subst c'.
      destruct (inv_cont s HI a n c Ha Hin) as [Hc1 [Hc2 _]].
      apply (IH c (p ++ [oname (store s c)]) Hc1 (reg_child_path s HI c a p Hc1 Hc2 Hp)).
      rewrite app_length. cbn. lia.
    + rewrite Hl. eauto.
Qed.
Lemma subtree_total : forall s a, Inv s -> reg s a -> exists T, subtree s a = Some T.
Proof.
  intros s a HI Ha. destruct (reg_self s HI a Ha) as [p [Hp _]]. unfold subtree.
  apply (subtree_f_total s HI _ a p Ha Hp). apply fullpath_f_len in Hp. lia.
Qed.

(* ---- the free-index search ---- *)
Lemma find_free_none : forall F used i, find_free F used i = None ->
    forall j, (j < F)%nat -> used (i + N.of_nat j) = true.
Proof.
  induction F as [|F IH]; intros used i H j Hj; [lia|]. cbn in H.
  destruct (used i) eqn:E; [|discriminate]. destruct j as [|j].
  - cbn. rewrite N.add_0_r. exact E.
  - specialize (IH used (N.succ i) H j). rewrite Nat2N.inj_succ. replace (i + N.succ (N.of_nat j)) with (N.succ i + N.of_nat j) by lia.
    apply IH. lia.
Qed.
Lemma dup_key_inj : forall fn i j, dup_key fn i = dup_key fn j -> i = j.
Proof.
  intros fn i j H. unfold dup_key in H. apply app_inj_tail in H. destruct H as [_ H]. unfold dup_name in H.
  inversion H as [H1]. apply app_inj_tail in H1. destruct H1 as [_ H1]. exact H1.
Qed.
Lemma find_free_total : forall (m : registry) fn, exists i, find_free (S (length m)) (fun i => key_in (dup_key fn i) m) 0 = Some i.
Proof.
  intros m fn. destruct (find_free (S (length m)) (fun i => key_in (dup_key fn i) m) 0) as [i|] eqn:E; [eauto|]. exfalso.
  assert (Hall := find_free_none _ _ _ E).
  set (ks := map (fun j => dup_key fn (N.of_nat j)) (seq 0 (S (length m)))).
  assert (Hnd : NoDup ks).
  { unfold ks. apply Injective_map_NoDup; [|apply seq_NoDup].
    intros a b Hab. apply dup_key_inj in Hab. apply Nat2N.inj. exact Hab. }
  assert (Hincl : incl ks (map fst m)).
  { intros k Hk. unfold ks in Hk. apply in_map_iff in Hk. destruct Hk as [j [<- Hj]]. apply in_seq in Hj.
    specialize (Hall j (proj2 Hj)). cbn in Hall. unfold key_in in Hall.
    destruct (rget (dup_key fn (N.of_nat j)) m) as [v|] eqn:Ev; [|discriminate].
    apply (aget_in path_eqb path_eqb_eq) in Ev. apply (in_map fst) in Ev. exact Ev. }
  assert (L := NoDup_incl_length Hnd Hincl). unfold ks in L. rewrite !map_length, seq_length in L. lia.
Qed.

Lemma set_walk_total : forall s T m, (forall x, In x T -> exists k, fullpath s x = Some k) -> exists m', set_walk s T m = Some m'.
Proof.
  intros s. induction T as [|x t IH]; intros m H; cbn; [eauto|].
  destruct (H x (or_introl eq_refl)) as [k Hk]. rewrite Hk. apply IH. intros y Hy. apply H. right. exact Hy.
Qed.
