(* Proofs/ProjectMoveStar.v -- the star-import form of the single re-export of Proofs/ProjectMove.v:
   module R has `from <D> import *` and lists x in its __all__; D only defines things (no imports, no __all__).
   Same two-phase invariant; the designated operation is the whole `import *` (a fold over the public names of D,
   one of which moves). *)
From Coq Require Import ZArith NArith List Bool Lia Permutation.
From PydoctorVerif Require Import Base.Sexp Model.Project Spec.ProjectStatic Proofs.ProjectBase Proofs.ProjectRegistry
     Proofs.ProjectStaticCheck Proofs.ProjectKeep Proofs.ProjectAlias Proofs.ProjectMove Proofs.ProjectBases Proofs.LinkerProofs
     Proofs.ProjectReach.
Import ListNotations.
Local Open Scope N_scope.

Definition def_stmt (st : stmt) : bool := match st with SClass _ _ _ _ | SFunc _ _ | SVar _ _ => true | _ => false end.

Lemma last_all_defs l : forall acc, (forall st, In st l -> def_stmt st = true) -> last_all l acc = acc.
Proof.
  induction l as [|st l IH]; intros acc H; cbn [last_all]; [reflexivity|].
  pose proof (H st (or_introl eq_refl)) as Hs. assert (Hl : forall st', In st' l -> def_stmt st' = true) by (intros st' Hin; apply H; right; exact Hin).
  destruct st; try discriminate; apply IH; exact Hl.
Qed.

Lemma In_keys_nget {V} a (l : list (N * V)) : In a (map fst l) -> exists v, nget a l = Some v.
Proof. intros H. destruct (nget a l) as [v|] eqn:E; [eauto|]. exfalso. exact (nget_None_notin a l E H). Qed.

Definition meta_da (s s' : state) : Prop :=
  forall o ob, objs s o = Some ob -> exists ob', objs s' o = Some ob' /\ o_doc ob' = o_doc ob /\ o_all ob' = o_all ob.
Lemma meta_da_weak cur s s' : meta_weak cur s s' -> meta_da s s'.
Proof. intros H o ob Ho. destruct (H o ob Ho) as (ob' & E & A & B & _). eauto. Qed.
Lemma meta_da_trans a b c : meta_da a b -> meta_da b c -> meta_da a c.
Proof.
  intros H1 H2 o ob Ho. destruct (H1 o ob Ho) as (ob1 & E1 & A1 & A2). destruct (H2 o ob1 E1) as (ob2 & E2 & B1 & B2).
  exists ob2. repeat split; congruence.
Qed.

Lemma Inv_cross_da p nmA parA GoodA nmB parB (GoodB : state -> Prop) s fr rest op todo s1 fr1 :
  Inv p nmA parA GoodA s -> frames s = fr :: rest -> f_todo fr = op :: todo -> same_ctl s s1 ->
  f_mod fr1 = f_mod fr -> f_todo fr1 = todo ->
  Ctl p (set_frames s1 (fr1 :: rest)) -> GoodB (set_frames s1 (fr1 :: rest)) ->
  OA p nmB parB (created_of p (set_frames s1 (fr1 :: rest))) s1 ->
  OR p nmB parB (created_of p (set_frames s1 (fr1 :: rest))) s1 ->
  meta_da s s1 -> Inv p nmB parB GoodB (set_frames s1 (fr1 :: rest)).
Proof.
  intros HI Hf Ht Hctl Hfm Hft HC2 HG2 HA HR HM. constructor.
  - exact HC2.
  - eapply (OA_same p nmB parB _ s1); [reflexivity|reflexivity|exact HA].
  - eapply (OR_same p nmB parB _ s1); [reflexivity|exact HR].
  - intros fr0. cbn [set_frames frames]. intros [<-|Hin].
    + destruct (op_mi p nmA parA GoodA s fr rest op todo HI Hf Ht) as (mi & pre & Hmi & He).
      exists mi, (pre ++ [op]). rewrite Hfm, Hft, <- app_assoc. split; [exact Hmi|exact He].
    + apply (i_suffix p _ _ _ s HI). rewrite Hf. right. exact Hin.
  - intros m' mb mi Hmb Hmi. cbn [set_frames objs unproc] in *.
    destruct Hctl as (_ & Hu & _). rewrite Hu.
    pose proof (created_module p s m' mi Hmi) as Hc. apply (oa_exists _ _ _ _ _ (i_oa p _ _ _ s HI)) in Hc.
    destruct (objs s (m', 0, 0)) as [mb0|] eqn:E0; [|congruence].
    destruct (HM _ _ E0) as (mb1 & E1 & D1 & D2). rewrite Hmb in E1. inversion E1; subst mb1.
    rewrite D1, D2. exact (i_meta p _ _ _ s HI m' mb0 mi E0 Hmi).
  - exact HG2.
Qed.

Section MoveStar.
  Variable p : project.
  Variables (R D ix xname : N).
  Notation n := xname.
  Notation x := (D, ix, 0).
  Notation Rm := (R, 0, 0).
  Notation Dm := (D, 0, 0).
  Notation nm0 := (sname p).
  Notation par0 := (sparent p).
  Notation nmA := (nm1 p D ix n).
  Notation parA := (par1 p R D ix).
  Notation key0 := (key p nm0 par0).
  Notation keyA := (key p nmA parA).

  Hypothesis Hwf : parents_first p.
  Hypothesis H0 : keys_distinct p.
  Hypothesis H1 : forall o o', sobj p o <> None -> sobj p o' <> None -> keyA o = keyA o' -> o = o'.
  Hypothesis HRD : R <> D.
  Hypothesis Hix : ix <> 0.
  Hypothesis Hxdom : sobj p x <> None.
  Hypothesis Hxname : sname p x = xname.

  Variables (miR miD : modinfo) (spre spost : list stmt) (lvl : N) (mn : path).
  Hypothesis HR_mod : modinfo_of p R = Some miR.
  Hypothesis HR_stmts : m_stmts miR = spre ++ SImportStar lvl mn :: spost.
  Hypothesis HR_once_stmts : forall lv m', ~ In (SImportStar lv m') (spre ++ spost).
  Hypothesis HR_exp : In xname (exports_of_mod miR).
  Hypothesis HR_only : forall a, In a (exports_of_mod miR) -> In a (def_names miD) \/ In a (submodule_names p D) -> a = xname.
  Hypothesis HR_res : static_modname p R lvl mn = Some (skey p Dm).
  Hypothesis HD_mod : modinfo_of p D = Some miD.
  Hypothesis HD_defs : forall st, In st (m_stmts miD) -> def_stmt st = true.
  Hypothesis Hpub : is_private_name xname = false.
  Hypothesis Honly : forall m mi st, modinfo_of p m = Some mi -> In st (m_stmts mi) ->
    match st with
    | SImportFrom _ _ nms => forall oa, In oa nms -> ~ In (snd oa) (exports_of_mod mi)
    | SImportStar _ _ => exports_of_mod mi = [] \/ m = R
    | _ => True
    end.

  Lemma HD_leaf : forall st, In st (m_stmts miD) -> local_stmt st = true.
  Proof. intros st H. pose proof (HD_defs st H) as Hd. destruct st; try discriminate; reflexivity. Qed.
  Lemma HD_noall : last_all (m_stmts miD) None = None.
  Proof. apply last_all_defs. exact HD_defs. Qed.

  Definition is_desig (op : mop) : bool := match op with MImportAll => true | _ => false end.
  Definition desig_in (l : list mop) : bool := existsb is_desig l.
  Definition dpendb (s : state) : bool :=
    memN R (unproc s) || existsb (fun fr => N.eqb (f_mod fr) R && desig_in (f_todo fr)) (frames s).

  (* the micro-operations of R around the designated import *)
  Definition PRE : list mop := expand_from 1 spre.
  Definition REST : list mop := expand_from (1 + N.of_nat (length spre) + 1) spost.
  Definition T1 : list mop := MImportAll :: REST.

  Lemma expand_R : expand_stmts (m_stmts miR) = PRE ++ MResolve lvl mn :: MEnsure :: T1.
  Proof.
    unfold expand_stmts. rewrite HR_stmts, expand_from_app. cbn [expand_from expand_stmt]. unfold PRE, T1, REST. reflexivity.
  Qed.

  Lemma desig_in_app a b : desig_in (a ++ b) = desig_in a || desig_in b.
  Proof. unfold desig_in. apply existsb_app. Qed.

  Lemma desig_names_ops l : desig_in (names_ops l) = false.
  Proof.
    induction l as [|oa l IH]; cbn [names_ops flat_map]; [reflexivity|].
    change (desig_in ([MEnsureSub (fst oa); MImportName (fst oa) (snd oa)] ++ names_ops l) = false).
    rewrite desig_in_app, IH. reflexivity.
  Qed.

  Lemma desig_expand_from l : forall k,
    (forall lv m', ~ In (SImportStar lv m') l) -> desig_in (expand_from k l) = false.
  Proof.
    induction l as [|st l IH]; intros k H; cbn [expand_from]; [reflexivity|].
    rewrite desig_in_app, IH by (intros lv m' Hin; apply (H lv m'); right; exact Hin). rewrite orb_false_r.
    destruct st; cbn [expand_stmt desig_in existsb is_desig]; try reflexivity.
    - change (desig_in (names_ops names) = false). apply desig_names_ops.
    - exfalso. apply (H level modname). left. reflexivity.
  Qed.

  Lemma desig_PRE : desig_in PRE = false.
  Proof. apply desig_expand_from. intros lv m' Hin. apply (HR_once_stmts lv m'). apply in_or_app. left. exact Hin. Qed.
  Lemma desig_REST : desig_in REST = false.
  Proof. apply desig_expand_from. intros lv m' Hin. apply (HR_once_stmts lv m'). apply in_or_app. right. exact Hin. Qed.
  Lemma desig_T1 : desig_in T1 = true.
  Proof. reflexivity. Qed.
  Lemma desig_expand_R : desig_in (expand_stmts (m_stmts miR)) = true.
  Proof. rewrite expand_R, desig_in_app. cbn [desig_in existsb is_desig]. rewrite !orb_true_r. reflexivity. Qed.

  Lemma T1_split q op t :
    T1 = q ++ op :: t ->
    (is_desig op = true -> op = MImportAll /\ desig_in t = false) /\ (desig_in t = true -> False).
  Proof.
    unfold T1. intros E. destruct q as [|op0 q]; cbn [app] in E; injection E as E1 E2.
    - subst op t. split; [intros _; split; [reflexivity|apply desig_REST]|rewrite desig_REST; discriminate].
    - pose proof desig_REST as HR. rewrite E2, desig_in_app in HR. cbn [desig_in existsb] in HR. fold (desig_in t) in HR.
      apply orb_false_iff in HR. destruct HR as [_ HR]. apply orb_false_iff in HR. destruct HR as [Ho Ht].
      split; [intros Hx; congruence|intros Hx; congruence].
  Qed.

  (* a module without from-imports only has statement operations *)
  Lemma expand_local_only l : forall k, (forall st, In st l -> local_stmt st = true) ->
    forall op, In op (expand_from k l) -> exists i st, op = MStmt i st.
  Proof.
    induction l as [|st l IH]; intros k Hl op; cbn [expand_from]; [intros []|].
    rewrite in_app_iff. intros [H|H]; [|apply (IH (k + 1)); [intros st' Hin; apply Hl; right; exact Hin|exact H]].
    pose proof (Hl st (or_introl eq_refl)) as Hloc.
    destruct st; cbn [local_stmt] in Hloc; try discriminate; cbn [expand_stmt In] in H; destruct H as [<-|[]]; eauto.
  Qed.

  Notation Inv0 := (Inv p nm0 par0 GoodT).
  Definition Good1 (s : state) : Prop := created_of p s x.
  Notation InvA := (Inv p nmA parA Good1).

  Lemma staticA : forall s o, Good1 s -> sobj p o <> None -> ~ created_of p s o -> nmA o = sname p o /\ parA o = sparent p o.
  Proof.
    intros s o Hg _ Hnc. assert (Hne : o <> x) by (intros ->; contradiction).
    unfold nm1, par1. rewrite (oid_eqb_neq o x Hne). auto.
  Qed.

  (* ---- static resolution of the designated import (before the move) ---- *)
  Lemma up_parents_static s : Inv0 s -> forall k y, created_of p s y ->
    up_parents k s (Some y) = up_static p k (Some y) /\
    (forall q, up_static p k (Some y) = Some q -> created_of p s q).
  Proof.
    intros HI. pose proof (i_oa p _ _ _ s HI) as HA. induction k as [|k IH]; intros y Cy; cbn [up_parents up_static].
    - split; [reflexivity|]. intros q E. inversion E; subst. exact Cy.
    - destruct (objs s y) as [yb|] eqn:Ey; [|exfalso; apply (oa_exists _ _ _ _ _ HA) in Cy; congruence].
      pose proof (oa_dom _ _ _ _ _ HA y Cy) as Hd. destruct (sobj p y) as [si|] eqn:Es; [|congruence].
      destruct (oa_static _ _ _ _ _ HA y yb si Ey Es) as (_ & _ & _ & Hp & _). rewrite Hp.
      destruct (par0 y) as [q|] eqn:Eq.
      + apply IH. eapply (oa_closed _ _ _ _ _ HA); eassumption.
      + split; [|intros q E; destruct k; discriminate]. destruct k; reflexivity.
  Qed.

  Lemma resolve_static s :
    Inv0 s -> resolve_modname s R lvl mn = static_modname p R lvl mn.
  Proof.
    intros HI. pose proof (i_oa p _ _ _ s HI) as HA. unfold resolve_modname, static_modname.
    destruct (N.eqb lvl 0); [reflexivity|]. cbv zeta.
    pose proof (created_module p s R miR HR_mod) as CR.
    destruct (objs s Rm) as [rb|] eqn:Er; [|exfalso; apply (oa_exists _ _ _ _ _ HA) in CR; congruence].
    assert (Hs : sobj p Rm = Some {| s_tag := if m_pkg miR then T_PACKAGE else T_MODULE; s_kind := if m_pkg miR then K_PACKAGE else K_MODULE;
                                     s_name := m_name miR; s_parent := match m_parent miR with Some q => Some (q, 0, 0) | None => None end;
                                     s_doc := m_doc miR |}) by (unfold sobj; cbn [N.eqb]; rewrite HR_mod; reflexivity).
    destruct (oa_static _ _ _ _ _ HA Rm rb _ Er Hs) as (Ht & _). cbn [s_tag] in Ht.
    unfold tag_of. rewrite Er, Ht, HR_mod.
    assert (Hpk : N.eqb (if m_pkg miR then T_PACKAGE else T_MODULE) T_PACKAGE = m_pkg miR) by (destruct (m_pkg miR); reflexivity).
    rewrite Hpk.
    destruct (up_parents_static s HI (N.to_nat (if m_pkg miR then lvl - 1 else lvl)) Rm CR) as [E Hq].
    rewrite E.
    assert (Haux : forall u : option oid, (forall q, u = Some q -> created_of p s q) ->
                   match u with Some q => Some (full_name s q ++ mn) | None => None end =
                   match u with Some q => Some (skey p q ++ mn) | None => None end).
    { intros [q|] Hu; [|reflexivity]. rewrite (full_name_key p nm0 par0 _ s q HA (Hu q eq_refl)). reflexivity. }
    apply Haux. exact Hq.
  Qed.

  Lemma module_at_D nm' par' Good' s :
    Inv p nm' par' Good' s -> key p nm' par' Dm = skey p Dm -> module_at s (skey p Dm) = Some Dm.
  Proof.
    intros HI Hk. pose proof (i_oa p _ _ _ s HI) as HA. pose proof (i_or p _ _ _ s HI) as HR'.
    pose proof (created_module p s D miD HD_mod) as CD.
    unfold module_at. rewrite <- Hk, (or_complete _ _ _ _ _ HR' Dm CD).
    destruct (objs s Dm) as [db|] eqn:Ed; [|exfalso; apply (oa_exists _ _ _ _ _ HA) in CD; congruence].
    assert (Hs : sobj p Dm = Some {| s_tag := if m_pkg miD then T_PACKAGE else T_MODULE; s_kind := if m_pkg miD then K_PACKAGE else K_MODULE;
                                     s_name := m_name miD; s_parent := match m_parent miD with Some q => Some (q, 0, 0) | None => None end;
                                     s_doc := m_doc miD |}) by (unfold sobj; cbn [N.eqb]; rewrite HD_mod; reflexivity).
    destruct (oa_static _ _ _ _ _ HA Dm db _ Ed Hs) as (Ht & _). cbn [s_tag] in Ht.
    unfold tag_of. rewrite Ed, Ht. destruct (m_pkg miD); reflexivity.
  Qed.

  (* ---- the invariant with the two phases ----
     `ex` is the module (if any) whose processModule is about to start: getProcessedModule has been called for it. *)
  Inductive fvcase (ex : option N) (s : state) (fr : frame) : Prop :=
  | fv_before q : f_todo fr = q ++ MResolve lvl mn :: MEnsure :: T1 -> fvcase ex s fr
  | fv_resolved : f_todo fr = MEnsure :: T1 -> f_modname fr = Some (skey p Dm) -> fvcase ex s fr
  | fv_ensured q : T1 = q ++ f_todo fr -> f_modname fr = Some (skey p Dm) -> f_modobj fr = Some Dm ->
                   (~ In D (unproc s) \/ ex = Some D) -> fvcase ex s fr.

  Definition FV (ex : option N) (s : state) : Prop :=
    forall fr, In fr (frames s) -> f_mod fr = R -> desig_in (f_todo fr) = true -> fvcase ex s fr.

  Definition aliasD (s : state) : Prop := exists db, objs s Dm = Some db /\ nget xname (o_alias db) = Some (keyA x).
  Definition Dproc (s : state) : Prop := ~ In D (unproc s) /\ forall fr, In fr (frames s) -> f_mod fr <> D.
  (* before the move the defining module has no aliases at all (it only defines things) *)
  Definition DalNil (s : state) : Prop := exists db, objs s Dm = Some db /\ o_alias db = [].

  Record Inv2x (ex : option N) (s : state) : Prop := {
    i2_p0 : dpendb s = true -> Inv0 s;
    i2_p1 : dpendb s = false -> InvA s /\ aliasD s /\ Dproc s;
    i2_dtop : forall fr, In fr (tl (frames s)) -> f_mod fr <> D;
    i2_fv : FV ex s;
    i2_dal : dpendb s = true -> DalNil s }.
  Notation Inv2 := (Inv2x None).

  Lemma Inv2_ctl ex s : Inv2x ex s -> Ctl p s.
  Proof.
    intros H. destruct (dpendb s) eqn:E; [exact (i_ctl p _ _ _ s (i2_p0 ex s H E))|].
    destruct (i2_p1 ex s H E) as (HI & _). exact (i_ctl p _ _ _ s HI).
  Qed.
  Lemma Inv2_suffix ex s fr : Inv2x ex s -> In fr (frames s) ->
    exists mi pre, modinfo_of p (f_mod fr) = Some mi /\ expand_stmts (m_stmts mi) = pre ++ f_todo fr.
  Proof.
    intros H. destruct (dpendb s) eqn:E; [exact (i_suffix p _ _ _ s (i2_p0 ex s H E) fr)|].
    destruct (i2_p1 ex s H E) as (HI & _). exact (i_suffix p _ _ _ s HI fr).
  Qed.

  Lemma fvcase_mono ex ex' s s' fr :
    (forall m, In m (unproc s') -> In m (unproc s)) -> (ex = Some D -> ex' = Some D \/ ~ In D (unproc s')) ->
    fvcase ex s fr -> fvcase ex' s' fr.
  Proof.
    intros Hsub Hex [q E|E1 E2|q E1 E2 E3 E4]; [eapply fv_before; eassumption|apply fv_resolved; assumption|].
    eapply fv_ensured; try eassumption. destruct E4 as [E4|E4].
    - left. intros Hin. apply E4. apply Hsub. exact Hin.
    - destruct (Hex E4) as [E5|E5]; [right; exact E5|left; exact E5].
  Qed.

  (* frames of D only hold statement operations *)
  Lemma D_frame_stmts ex s fr : Inv2x ex s -> In fr (frames s) -> f_mod fr = D ->
    forall op, In op (f_todo fr) -> exists i st, op = MStmt i st.
  Proof.
    intros H Hin Hm op Hop. destruct (Inv2_suffix ex s fr H Hin) as (mi & pre & Hmi & He). rewrite Hm, HD_mod in Hmi.
    inversion Hmi; subst mi. apply (expand_local_only (m_stmts miD) 1 HD_leaf). fold (expand_stmts (m_stmts miD)).
    rewrite He. apply in_or_app. right. exact Hop.
  Qed.

  (* ---- processModule starts: the phase does not change ---- *)
  Lemma memN_remove1 a m u : a <> m -> memN a (remove1 m u) = memN a u.
  Proof.
    intros Hne. induction u as [|y u IH]; cbn [remove1 memN]; [reflexivity|].
    destruct (N.eqb_spec y m) as [->|Hy]; cbn [memN].
    - destruct (N.eqb_spec m a); [congruence|reflexivity].
    - rewrite IH. reflexivity.
  Qed.

  Lemma dpendb_begin s m s' : begin_module p s m = Next s' -> dpendb s' = dpendb s.
  Proof.
    intros Hb. destruct (begin_module_ctl p _ _ _ Hb) as (mi & Hmi & Hmst & Hin & Hun & Hfr & _).
    unfold dpendb. rewrite Hun, Hfr. cbn [existsb f_mod f_todo].
    destruct (N.eq_dec m R) as [->|Hne].
    - rewrite HR_mod in Hmi. inversion Hmi; subst mi. rewrite N.eqb_refl. fold (desig_in (expand_stmts (m_stmts miR))).
      rewrite desig_expand_R. cbn [andb]. rewrite orb_true_r. apply memN_In in Hin. rewrite Hin. reflexivity.
    - rewrite (memN_remove1 R m (unproc s)) by congruence. rewrite (proj2 (N.eqb_neq m R) Hne). reflexivity.
  Qed.

  Lemma begin_objs_other s m s' o : begin_module p s m = Next s' -> o <> (m, 0, 0) -> objs s' o = objs s o.
  Proof.
    intros Hb Hne. destruct (begin_module_inv p _ _ _ Hb) as (mi & _ & _ & _ & ->). cbn [set_frames objs].
    match goal with |- objs (upd_obj ?s0 _ ?f) o = _ => destruct (objs s0 (m, 0, 0)) as [mb|] eqn:E; [rewrite (upd_obj_some s0 _ f mb E)|rewrite (upd_obj_none s0 _ f E)] end.
    - rewrite objs_set_obj_other by exact Hne. reflexivity.
    - reflexivity.
  Qed.

  Lemma begin_alias s m s' o ob : begin_module p s m = Next s' -> objs s o = Some ob ->
    exists ob', objs s' o = Some ob' /\ o_alias ob' = o_alias ob.
  Proof.
    intros Hb Eo. destruct (begin_module_inv p _ _ _ Hb) as (mi' & _ & _ & _ & Hs'). rewrite Hs'. cbn [set_frames objs].
    match goal with |- context [upd_obj ?s0 ?o ?f] => set (s0' := s0); set (f' := f) end.
    assert (E0 : objs s0' o = Some ob) by exact Eo.
    destruct (oid_eq_dec o (m, 0, 0)) as [E|Hne].
    - subst o. rewrite (upd_obj_some s0' _ f' ob E0), objs_set_obj_same. eexists. split; reflexivity.
    - destruct (objs s0' (m, 0, 0)) as [mb|] eqn:E1.
      + rewrite (upd_obj_some s0' _ f' mb E1), objs_set_obj_other by exact Hne. exists ob. split; [exact E0|reflexivity].
      + rewrite (upd_obj_none s0' _ f' E1). exists ob. split; [exact E0|reflexivity].
  Qed.

  Lemma Inv2_begin s m s' :
    Inv2x (Some m) s -> begin_module p s m = Next s' -> (forall fr, In fr (frames s) -> f_mod fr <> D) -> Inv2 s'.
  Proof.
    intros H Hb HnoD. pose proof (dpendb_begin s m s' Hb) as Hph.
    destruct (begin_module_ctl p _ _ _ Hb) as (mi & Hmi & Hmst & Hin & Hun & Hfr & _).
    assert (Hnd : NoDup (unproc s)) by apply (c_nodup p s (Inv2_ctl _ s H)).
    constructor.
    - intros E. rewrite Hph in E. eapply Inv_begin; [exact (i2_p0 _ s H E)|exact Hb|exact I].
    - intros E. rewrite Hph in E. destruct (i2_p1 _ s H E) as (HI & (db & Ed & Ea) & (HDu & HDf)).
      assert (HmD : m <> D) by (intros ->; contradiction).
      split; [|split].
      + eapply Inv_begin; [exact HI|exact Hb|].
        apply (created_begin p s m s' (i_ctl p _ _ _ s HI) Hb). exact (i_good p _ _ _ s HI).
      + exists db. rewrite (begin_objs_other s m s' Dm Hb) by (intros E'; inversion E'; congruence). auto.
      + split.
        * rewrite Hun. intros Hx. apply (remove1_In_iff m (unproc s) D Hnd) in Hx. tauto.
        * intros fr. rewrite Hfr. intros [<-|Hf]; [cbn [f_mod]; exact HmD|apply HDf; exact Hf].
    - rewrite Hfr. cbn [tl]. exact HnoD.
    - intros fr. rewrite Hfr. intros [<-|Hf] Hm Hd; cbn [f_mod f_todo] in *.
      + subst m. rewrite HR_mod in Hmi. inversion Hmi; subst mi. apply (fv_before _ _ _ PRE). cbn [f_todo]. apply expand_R.
      + eapply fvcase_mono; [| |apply (i2_fv _ s H fr Hf Hm Hd)].
        * rewrite Hun. intros a Ha. apply (remove1_In_iff m (unproc s) a Hnd) in Ha. tauto.
        * intros E. inversion E; subst m. right. rewrite Hun. intros Hx. apply (remove1_In_iff D (unproc s) D Hnd) in Hx. tauto.
    - intros E. rewrite Hph in E. destruct (i2_dal _ s H E) as (db & Ed & Ea).
      destruct (begin_alias s m s' Dm db Hb Ed) as (db' & Ed' & Ea'). exists db'. split; [exact Ed'|congruence].
  Qed.

  Lemma Inv2_weaken ex s : Inv2 s -> Inv2x ex s.
  Proof.
    intros [A B C' F G]. constructor; try assumption. intros fr Hf Hm Hd.
    eapply fvcase_mono; [| |apply (F fr Hf Hm Hd)]; [auto|discriminate].
  Qed.

  (* ---- processModule ends ---- *)
  Lemma Inv2_finish s fr rest :
    Inv2 s -> frames s = fr :: rest -> f_todo fr = [] ->
    Ctl p (set_frames (set_mst s (f_mod fr) PROCESSED) rest) ->
    Inv2 (set_frames (set_mst s (f_mod fr) PROCESSED) rest).
  Proof.
    intros H Hf Ht HC'. set (s' := set_frames (set_mst s (f_mod fr) PROCESSED) rest).
    assert (Hph : dpendb s' = dpendb s).
    { unfold dpendb, s'. cbn [set_frames set_mst unproc frames]. rewrite Hf. cbn [existsb]. rewrite Ht.
      cbn [desig_in existsb]. rewrite andb_false_r. reflexivity. }
    constructor.
    - intros E. rewrite Hph in E. apply Inv_finish; [exact (i2_p0 _ s H E)|exact Hf|exact Ht|exact HC'|exact I].
    - intros E. rewrite Hph in E. destruct (i2_p1 _ s H E) as (HI & HAl & (HDu & HDf)). split; [|split].
      + apply Inv_finish; [exact HI|exact Hf|exact Ht|exact HC'|].
        apply (created_finish p s fr rest Hf Ht). exact (i_good p _ _ _ s HI).
      + exact HAl.
      + split; [exact HDu|]. intros fr0 Hin. apply HDf. rewrite Hf. right. exact Hin.
    - intros fr0 Hin. apply (i2_dtop _ s H). rewrite Hf. cbn [tl]. unfold s' in Hin. cbn [set_frames frames] in Hin.
      destruct rest; [destruct Hin|right; exact Hin].
    - intros fr0 Hin Hm Hd. eapply fvcase_mono; [| |apply (i2_fv _ s H fr0); [rewrite Hf; right; exact Hin|exact Hm|exact Hd]]; [auto|discriminate].
    - intros E. rewrite Hph in E. exact (i2_dal _ s H E).
  Qed.

  (* ---- one micro-operation that is not the designated import ---- *)
  Definition ensure_target (s : state) (en : option oid) : option N :=
    match en with
    | Some o => match mst s (fst (fst o)) with UNPROCESSED => Some (fst (fst o)) | _ => None end
    | None => None
    end.

  Lemma ensure_alt s en :
    ensure p s en = match ensure_target s en with Some m => begin_module p s m | None => Next s end.
  Proof. unfold ensure, ensure_target. destruct en as [o|]; [|reflexivity]. destruct (mst s (fst (fst o))); reflexivity. Qed.

  Lemma desig_frame_phase0 ex s fr : Inv2x ex s -> In fr (frames s) -> f_mod fr = R -> desig_in (f_todo fr) = true -> dpendb s = true.
  Proof.
    intros _ Hin Hm Hd. unfold dpendb. apply orb_true_iff. right. apply existsb_exists. exists fr. split; [exact Hin|].
    rewrite Hm, N.eqb_refl, Hd. reflexivity.
  Qed.

  Lemma Inv2_other s fr rest op todo s1 fr1 en :
    Inv2 s -> frames s = fr :: rest -> f_todo fr = op :: todo ->
    exec_op s (with_todo todo fr) op = (s1, fr1, en) ->
    N.eqb (f_mod fr) R && is_desig op = false ->
    Inv2x (ensure_target (set_frames s1 (fr1 :: rest)) en) (set_frames s1 (fr1 :: rest)) /\ (en <> None -> f_mod fr <> D).
  Proof.
    intros H Hf Ht He Hnd. set (s2 := set_frames s1 (fr1 :: rest)).
    pose proof (Inv2_ctl _ s H) as HC. pose proof (Ctl_op p s fr rest op todo s1 fr1 en HC Hf He) as HC2. fold s2 in HC2.
    pose proof (ctl_exec_op s (with_todo todo fr) op) as Hctl. pose proof (exec_op_frame s (with_todo todo fr) op) as Hfr.
    rewrite He in Hctl, Hfr. cbn [fst snd] in Hctl, Hfr. destruct Hfr as (Hfm & Hft). cbn [with_todo f_mod f_todo] in Hfm, Hft.
    destruct (Inv2_suffix _ s fr H ltac:(rewrite Hf; left; reflexivity)) as (mi & pre & Hmi & Hexp). rewrite Ht in Hexp.
    assert (Hph : dpendb s2 = dpendb s).
    { unfold dpendb, s2. cbn [set_frames unproc frames]. destruct Hctl as (_ & -> & _). rewrite Hf. cbn [existsb].
      rewrite Hfm, Hft, Ht. cbn [desig_in existsb]. fold (desig_in todo).
      destruct (N.eqb (f_mod fr) R); cbn [andb] in *; [rewrite Hnd; reflexivity|reflexivity]. }
    assert (Hop_name : forall o a mi', op = MImportName o a -> modinfo_of p (f_mod fr) = Some mi' -> ~ In a (exports_of_mod mi')).
    { intros o a mi' Hop Hmi'. rewrite Hmi in Hmi'. inversion Hmi'; subst mi'.
      assert (Hx : In (MImportName o a) (expand_stmts (m_stmts mi))) by (rewrite Hexp, Hop; apply in_or_app; right; left; reflexivity).
      destruct (In_expand_from_ImportName _ _ _ _ Hx) as (lv & m' & nms & Hst & Hoa).
      exact (Honly _ mi _ Hmi Hst (o, a) Hoa). }
    assert (Hop_all : forall mi', op = MImportAll -> modinfo_of p (f_mod fr) = Some mi' -> exports_of_mod mi' = []).
    { intros mi' Hop Hmi'. rewrite Hmi in Hmi'. inversion Hmi'; subst mi'.
      assert (Hx : In MImportAll (expand_stmts (m_stmts mi))) by (rewrite Hexp, Hop; apply in_or_app; right; left; reflexivity).
      destruct (In_expand_from_ImportAll _ _ Hx) as (lv & m' & Hst). destruct (Honly _ mi _ Hmi Hst) as [E|E]; [exact E|].
      exfalso. rewrite E, N.eqb_refl, Hop in Hnd. discriminate. }
    assert (HenD : en <> None -> f_mod fr <> D).
    { intros Hen HmD. destruct (D_frame_stmts _ s fr H ltac:(rewrite Hf; left; reflexivity) HmD op ltac:(rewrite Ht; left; reflexivity)) as (i & st & ->).
      cbn [exec_op] in He. inversion He. congruence. }
    split; [|exact HenD]. constructor.
    - (* before the move *)
      intros E. rewrite Hph in E. pose proof (i2_p0 _ s H E) as HI.
      exact (Inv_op p nm0 par0 H0 GoodT (static0 p) s fr rest op todo s1 fr1 en HI Hf Ht He HC2 I Hop_name Hop_all).
    - (* after the move *)
      intros E. rewrite Hph in E. destruct (i2_p1 _ s H E) as (HI & (db & Ed & Ea) & (HDu & HDf)).
      assert (HmD : f_mod fr <> D) by (apply HDf; rewrite Hf; left; reflexivity).
      assert (HG2 : Good1 s2).
      { apply (created_after p nmA parA Good1 s fr rest op todo s1 fr1 HI Hf Ht Hctl Hfm Hft). left. exact (i_good p _ _ _ s HI). }
      split; [|split].
      + exact (Inv_op p nmA parA H1 Good1 staticA s fr rest op todo s1 fr1 en HI Hf Ht He HC2 HG2 Hop_name Hop_all).
      + destruct (op_triple p nmA parA H1 Good1 staticA s fr rest op todo s1 fr1 en HI Hf Ht He Hop_name Hop_all) as (_ & _ & M).
        destruct (M Dm db Ed) as (db' & Ed' & _ & _ & Hal). exists db'. split; [exact Ed'|].
        rewrite Hal; [exact Ea|]. intros E'. inversion E'. congruence.
      + split.
        * unfold s2. cbn [set_frames unproc]. destruct Hctl as (_ & -> & _). exact HDu.
        * intros fr0. unfold s2. cbn [set_frames frames]. intros [<-|Hin]; [rewrite Hfm; exact HmD|apply HDf; rewrite Hf; right; exact Hin].
    - intros fr0 Hin. apply (i2_dtop _ s H). rewrite Hf. exact Hin.
    - (* the local variables of the frames of R *)
      intros fr0. unfold s2 at 1. cbn [set_frames frames]. intros [<-|Hin] Hm Hd.
      + rewrite Hfm in Hm. rewrite Hft in Hd.
        assert (Hd' : desig_in (f_todo fr) = true) by (rewrite Ht; cbn [desig_in existsb]; fold (desig_in todo); rewrite Hd; apply orb_true_r).
        assert (Hin0 : In fr (frames s)) by (rewrite Hf; left; reflexivity).
        pose proof (desig_frame_phase0 _ s fr H Hin0 Hm Hd') as Hp0. pose proof (i2_p0 _ s H Hp0) as HI.
        destruct (i2_fv _ s H fr Hin0 Hm Hd') as [q Eq|E1 E2|q E1 E2 E3 E4].
        * rewrite Ht in Eq. destruct q as [|op0 q']; cbn [app] in Eq; injection Eq as Eop Etodo.
          -- (* MResolve *)
             rewrite Eop in He. cbn [exec_op] in He.
             assert (Hfr1 : fr1 = with_modvars (resolve_modname s (f_mod (with_todo todo fr)) lvl mn) None (with_todo todo fr))
               by congruence.
             rewrite Hfr1. apply fv_resolved; [cbn [with_modvars with_todo f_todo]; exact Etodo|].
             cbn [with_modvars f_modname with_todo f_mod]. rewrite Hm, (resolve_static s HI). exact HR_res.
          -- apply (fv_before _ _ _ q'). rewrite Hft. exact Etodo.
        * rewrite Ht in E1. injection E1 as Eop Etodo. rewrite Eop in He. cbn [exec_op] in He.
          change (f_modname (with_todo todo fr)) with (f_modname fr) in He. rewrite E2 in He.
          rewrite (module_at_D nm0 par0 GoodT s HI eq_refl) in He.
          assert (Hfr1 : fr1 = with_modvars (Some (skey p Dm)) (Some Dm) (with_todo todo fr)) by congruence.
          assert (Hen1 : en = Some Dm) by congruence.
          rewrite Hfr1, Hen1.
          apply (fv_ensured _ _ _ []); [cbn [with_modvars with_todo f_todo app]; symmetry; exact Etodo|reflexivity|reflexivity|].
          unfold ensure_target. cbn [fst]. destruct (mst s2 D) eqn:Em; [right; reflexivity| |];
            left; intros Hx; apply (c_unproc p s2 HC2) in Hx; destruct Hx as [_ Hx]; congruence.
        * exfalso. rewrite Ht in E1. destruct (T1_split q op todo E1) as [_ B]. exact (B Hd).
      + eapply fvcase_mono; [| |apply (i2_fv _ s H fr0); [rewrite Hf; right; exact Hin|exact Hm|exact Hd]].
        * unfold s2. cbn [set_frames unproc]. destruct Hctl as (_ & -> & _). auto.
        * discriminate.
    - (* the defining module still has no alias *)
      intros E. rewrite Hph in E. pose proof (i2_p0 _ s H E) as HI. destruct (i2_dal _ s H E) as (db & Ed & Ea).
      unfold DalNil, s2. cbn [set_frames objs].
      destruct (N.eq_dec (f_mod fr) D) as [EmD|NmD].
      + assert (Hin : In op (expand_stmts (m_stmts miD))).
        { rewrite EmD, HD_mod in Hmi. inversion Hmi; subst mi. rewrite Hexp. apply in_or_app. right. left. reflexivity. }
        destruct (expand_local_only (m_stmts miD) 1 HD_leaf op Hin) as (i & st & ->).
        destruct (In_expand_stmt_at p D i st miD HD_mod Hin) as [Hst Hi].
        assert (Hdef : def_stmt st = true).
        { apply HD_defs. unfold stmt_at in Hst. rewrite HD_mod in Hst. destruct (N.eqb i 0); [discriminate|]. apply nth_error_In in Hst. exact Hst. }
        cbn [exec_op] in He. change (f_mod (with_todo todo fr)) with (f_mod fr) in He. rewrite EmD in He.
        assert (Hs1 : s1 = exec_stmt s D i st) by congruence. rewrite Hs1.
        destruct (keepA_exec_def s D i st ltac:(destruct st; try discriminate; exact I) Dm db Ed) as (db' & Ed' & Ea');
          [intros [_ Hx]; cbn [fst snd] in Hx; congruence|]. exists db'. split; [exact Ed'|congruence].
      + destruct (op_triple p nm0 par0 H0 GoodT (static0 p) s fr rest op todo s1 fr1 en HI Hf Ht He Hop_name Hop_all) as (_ & _ & M).
        destruct (M Dm db Ed) as (db' & Ed' & _ & _ & Hal). exists db'. split; [exact Ed'|].
        rewrite Hal; [exact Ea|]. intros E'. inversion E'. congruence.
  Qed.

  (* ---- the designated import: the move ---- *)
  Lemma existsb_rest_false s fr rest :
    Ctl p s -> frames s = fr :: rest -> f_mod fr = R ->
    existsb (fun fr0 => N.eqb (f_mod fr0) R && desig_in (f_todo fr0)) rest = false.
  Proof.
    intros HC Hf Hm. pose proof (c_fnodup p s HC) as Hnd. rewrite Hf in Hnd. cbn [map] in Hnd. apply NoDup_cons_iff in Hnd.
    destruct Hnd as [Hni _]. destruct (existsb _ rest) eqn:E; [|reflexivity]. exfalso.
    apply existsb_exists in E. destruct E as (fr0 & Hin & Hx). apply andb_true_iff in Hx. destruct Hx as [Hx _].
    apply N.eqb_eq in Hx. apply Hni. rewrite Hm, <- Hx. apply in_map. exact Hin.
  Qed.

  Lemma Inv2_desig s fr rest op todo s1 fr1 en :
    Inv2 s -> frames s = fr :: rest -> f_todo fr = op :: todo ->
    exec_op s (with_todo todo fr) op = (s1, fr1, en) ->
    f_mod fr = R -> is_desig op = true ->
    en = None /\ Inv2 (set_frames s1 (fr1 :: rest)) /\
    (forall o ob, o <> Rm -> o <> Dm -> objs s o = Some ob -> exists ob', objs s1 o = Some ob' /\ o_alias ob' = o_alias ob).
  Proof.
    intros H Hf Ht He Hm Hd. set (s2 := set_frames s1 (fr1 :: rest)).
    pose proof (Inv2_ctl _ s H) as HC. pose proof (Ctl_op p s fr rest op todo s1 fr1 en HC Hf He) as HC2. fold s2 in HC2.
    assert (Hin0 : In fr (frames s)) by (rewrite Hf; left; reflexivity).
    assert (Hd' : desig_in (f_todo fr) = true) by (rewrite Ht; cbn [desig_in existsb]; rewrite Hd; reflexivity).
    pose proof (i2_p0 _ s H (desig_frame_phase0 _ s fr H Hin0 Hm Hd')) as HI.
    pose proof (i_oa p _ _ _ s HI) as HA. pose proof (i_or p _ _ _ s HI) as HR'.
    destruct (i_suffix p _ _ _ s HI fr Hin0) as (mi & pre & Hmi & Hexp). rewrite Hm, HR_mod in Hmi. inversion Hmi; subst mi.
    rewrite Ht in Hexp.
    (* where the walk of R stands *)
    assert (Hcase : exists q, T1 = q ++ op :: todo /\ f_modname fr = Some (skey p Dm) /\ f_modobj fr = Some Dm /\ ~ In D (unproc s)).
    { destruct (i2_fv _ s H fr Hin0 Hm Hd') as [q Eq|E1 E2|q E1 E2 E3 E4].
      - exfalso. rewrite Ht in Eq. rewrite expand_R, Eq in Hexp.
        assert (Hq : PRE = pre ++ q).
        { apply (app_inv_tail (MResolve lvl mn :: MEnsure :: T1)). rewrite <- app_assoc. exact Hexp. }
        destruct q as [|op0 q']; cbn [app] in Eq; injection Eq as Eop _.
        + rewrite Eop in Hd. discriminate.
        + pose proof desig_PRE as HP. rewrite Hq, desig_in_app in HP. cbn [desig_in existsb] in HP. rewrite <- Eop, Hd in HP.
          rewrite orb_true_r in HP. discriminate.
      - exfalso. rewrite Ht in E1. injection E1 as Eop _. rewrite Eop in Hd. discriminate.
      - exists q. rewrite Ht in E1. repeat split; try assumption. destruct E4 as [E4|E4]; [exact E4|discriminate]. }
    destruct Hcase as (q & ET & Emn & Emo & HDu).
    destruct (T1_split q op todo ET) as [A _]. destruct (A Hd) as [Eop Htodo].
    (* the operation *)
    rewrite Eop in He. cbn [exec_op] in He. change (f_modname (with_todo todo fr)) with (f_modname fr) in He.
    change (f_modobj (with_todo todo fr)) with (f_modobj fr) in He. change (f_mod (with_todo todo fr)) with (f_mod fr) in He.
    rewrite Emn, Emo, Hm in He.
    assert (Hen : en = None) by congruence.
    assert (Hfr1 : fr1 = with_todo todo fr) by congruence.
    assert (Hs1 : s1 = import_all s R Dm) by congruence.
    split; [exact Hen|].
    (* the objects involved *)
    pose proof (created_module p s R miR HR_mod) as CR. pose proof (created_module p s D miD HD_mod) as CD.
    assert (HRu : ~ In R (unproc s)).
    { rewrite <- Hm. exact (op_not_unproc p nm0 par0 GoodT s fr rest HI Hf). }
    assert (Cx : created_of p s x).
    { split; [exact Hxdom|right]. cbn [fst snd]. intros [Hp|(fr0 & st & Hin & Hmd & _)]; [contradiction|].
      rewrite Hf in Hin. destruct Hin as [<-|Hin]; [congruence|]. apply (i2_dtop _ s H fr0); [rewrite Hf; exact Hin|exact Hmd]. }
    destruct (objs s Rm) as [rb|] eqn:Er; [|exfalso; apply (oa_exists _ _ _ _ _ HA) in CR; congruence].
    destruct (i2_dal _ s H (desig_frame_phase0 _ s fr H Hin0 Hm Hd')) as (db & Ed & Hdal).
    assert (Hexports : exports_of s Rm = exports_of_mod miR) by exact (exports_static p nm0 par0 GoodT s R miR rb HI HR_mod HRu Er).
    assert (Hcont : nget xname (o_contents db) = Some x).
    { destruct (oa_complete _ _ _ _ _ HA x Dm Cx (sparent_x p D ix Hix Hxdom)) as (db' & Ed' & Hg).
      rewrite Ed in Ed'. inversion Ed'; subst db'. rewrite <- Hxname. exact Hg. }
    assert (Hall : o_all db = None).
    { destruct (i_meta p _ _ _ s HI D db miD Ed HD_mod) as [_ B]. destruct (B HDu) as [_ Hall]. rewrite Hall. exact HD_noall. }
    assert (Hxpar : exists xb, objs s x = Some xb /\ o_parent xb = Some Dm).
    { destruct (objs s x) as [xb|] eqn:Ex; [|exfalso; apply (oa_exists _ _ _ _ _ HA) in Cx; congruence].
      assert (Hsx : exists six, sobj p x = Some six) by (destruct (sobj p x); [eauto|congruence]).
      destruct Hsx as (six & Esx). destruct (oa_static _ _ _ _ _ HA x xb six Ex Esx) as (_ & _ & _ & Hp & _).
      rewrite (sparent_x p D ix Hix Hxdom) in Hp. eauto. }
    destruct Hxpar as (xb & Ex & Hxp).
    assert (HxR : x <> Rm) by (intros E; inversion E; congruence).
    assert (HDR : Dm <> Rm) by (intros E; inversion E; congruence).
    (* the names the star import walks through *)
    set (EX := exports_of_mod miR).
    set (F := fun (s0 : state) (name : N) =>
                let '(s1', moved) := handle_reexport s0 Rm EX name name Dm in
                if moved then s1'
                else let e := expand_name s1' Dm [name] in upd_obj s1' Rm (fun mb => with_alias (nset name e (o_alias mb)) mb)).
    set (names := filter (fun a => negb (is_private_name a)) (map fst (o_contents db))).
    assert (Hs1n : s1 = fold_left F names s).
    { rewrite Hs1. unfold import_all. cbv zeta. rewrite Ed, Hall, Hdal, Hexports. cbn [map]. rewrite app_nil_r. reflexivity. }
    assert (Hnames_nd : NoDup names) by (apply NoDup_filter; exact (oa_cnodup _ _ _ _ _ HA Dm db Ed)).
    assert (Hnames_x : In xname names).
    { apply filter_In. split; [apply (nget_Some_In xname x); exact Hcont|rewrite Hpub; reflexivity]. }
    assert (Hnames_other : forall a, In a names -> a <> xname -> ~ In a EX).
    { intros a Ha Hne Hin. apply filter_In in Ha. destruct Ha as [Ha _]. destruct (In_keys_nget a _ Ha) as (o & Hg).
      destruct (oa_contents _ _ _ _ _ HA Dm db a o Ed Hg) as (_ & Po & No).
      apply Hne. apply (HR_only a Hin). rewrite <- No. exact (module_child_names p Hwf o D miD Po HD_mod). }
    destruct (in_split xname names Hnames_x) as (l1 & l2 & Hsplit).
    assert (Hl : (forall a, In a l1 -> ~ In a EX) /\ (forall a, In a l2 -> ~ In a EX)).
    { rewrite Hsplit in Hnames_nd. apply NoDup_remove_2 in Hnames_nd.
      split; intros a Ha; (apply Hnames_other; [rewrite Hsplit; apply in_or_app; cbn [In]; tauto|]); intros ->;
        apply Hnames_nd; apply in_or_app; tauto. }
    destruct Hl as [Hl1 Hl2].
    (* alias-only steps, for either reading of the names *)
    assert (Hfold : forall nm' par' (C' : oid -> Prop) l, (forall a, In a l -> ~ In a EX) ->
              forall s0, OA p nm' par' C' s0 -> OR p nm' par' C' s0 ->
                         OA p nm' par' C' (fold_left F l s0) /\ OR p nm' par' C' (fold_left F l s0) /\
                         meta_weak Rm s0 (fold_left F l s0) /\ same_ctl s0 (fold_left F l s0) /\
                         (forall o, o <> Rm -> objs (fold_left F l s0) o = objs s0 o)).
    { intros nm' par' C' l. induction l as [|a l IH]; intros Hl s0 A0 R0; cbn [fold_left].
      - split; [exact A0|]. split; [exact R0|]. split; [apply meta_weak_refl|]. split; [apply same_ctl_refl|reflexivity].
      - assert (Hstep : F s0 a = upd_obj s0 Rm (fun mb => with_alias (nset a (expand_name s0 Dm [a]) (o_alias mb)) mb)).
        { unfold F. rewrite (handle_reexport_not_exported s0 Rm EX a a Dm (Hl a (or_introl eq_refl))). reflexivity. }
        rewrite Hstep.
        destruct (upd_keeps_all p nm' par' C' s0 Rm (fun mb => with_alias (nset a (expand_name s0 Dm [a]) (o_alias mb)) mb))
          as (A1 & R1 & M1); [intros ob; repeat split|intros ob; split; reflexivity|exact A0|exact R0|].
        destruct (IH (fun a' Ha' => Hl a' (or_intror Ha')) _ A1 R1) as (A2 & R2 & M2 & C2 & O2).
        split; [exact A2|]. split; [exact R2|]. split; [eapply meta_weak_trans; eassumption|].
        split; [eapply same_ctl_trans; [apply ctl_upd_obj|exact C2]|].
        intros o Ho. rewrite (O2 o Ho). unfold upd_obj. destruct (objs s0 Rm); [apply objs_set_obj_other; exact Ho|reflexivity]. }
    (* before the moved name *)
    destruct (Hfold nm0 par0 (created_of p s) l1 Hl1 s HA HR') as (Aa & Ra & Ma & Ca & Oa).
    set (sa := fold_left F l1 s) in *.
    assert (Hmove : F sa xname = reparent sa x Rm xname).
    { unfold F, handle_reexport. fold EX. unfold EX at 1. rewrite (proj2 (memN_In xname (exports_of_mod miR)) HR_exp).
      unfold contents_of. rewrite (Oa Dm HDR), Ed, Hcont, (Oa x HxR), Ex, Hxp, Hall. reflexivity. }
    destruct (reparent_move p R D ix xname xname H0 H1 HRD Hix Hxdom Hxname (created_of p s) sa Aa Ra Cx CR CD)
      as (Ab & Rb & Mb & (db' & Ed' & Ea') & Cb).
    rewrite <- Hmove in Ab, Rb, Mb, Ed', Cb. set (sb := F sa xname) in *.
    (* after it *)
    destruct (Hfold nmA parA (created_of p s) l2 Hl2 sb Ab Rb) as (A1 & R1 & Mc & Cc & Oc).
    assert (Hs1' : s1 = fold_left F l2 sb).
    { rewrite Hs1n, Hsplit, fold_left_app. reflexivity. }
    rewrite <- Hs1' in A1, R1, Mc, Cc, Oc.
    assert (Hctl : same_ctl s s1) by (eapply same_ctl_trans; [exact Ca|eapply same_ctl_trans; [exact Cb|exact Cc]]).
    assert (M1 : meta_da s s1).
    { eapply meta_da_trans; [apply (meta_da_weak Rm); exact Ma|]. eapply meta_da_trans; [apply (meta_da_weak Dm); exact Mb|].
      apply (meta_da_weak Rm); exact Mc. }
    assert (HaD : exists db1, objs s1 Dm = Some db1 /\ nget xname (o_alias db1) = Some (keyA x)).
    { exists db'. rewrite (Oc Dm HDR). auto. }
    assert (Hfm : f_mod fr1 = f_mod fr) by (rewrite Hfr1; reflexivity).
    assert (Hft : f_todo fr1 = todo) by (rewrite Hfr1; reflexivity).
    assert (Hcr : forall o, created_of p s o <-> created_of p s2 o).
    { intros o. unfold s2. rewrite (created_after p nm0 par0 GoodT s fr rest op todo s1 fr1 HI Hf Ht Hctl Hfm Hft o).
      split; [auto|]. intros [Hc|(_ & _ & _ & st & Hop)]; [exact Hc|]. rewrite Eop in Hop. discriminate. }
    assert (HIA : InvA s2).
    { apply (Inv_cross_da p nm0 par0 GoodT nmA parA Good1 s fr rest op todo s1 fr1 HI Hf Ht Hctl Hfm Hft HC2).
      - apply Hcr. exact Cx.
      - eapply OA_ext; [exact Hcr|exact A1].
      - eapply OR_ext; [exact Hcr|exact R1].
      - exact M1. }
    assert (Hph : dpendb s2 = false).
    { unfold dpendb, s2. cbn [set_frames unproc frames existsb]. destruct Hctl as (_ & -> & _).
      rewrite (proj2 (memN_false R (unproc s)) HRu), Hfm, Hft, Htodo, andb_false_r.
      rewrite (existsb_rest_false s fr rest HC Hf Hm). reflexivity. }
    split.
    2:{ intros o ob HoR HoD Ho. assert (Ea0 : objs sa o = Some ob) by (rewrite (Oa o HoR); exact Ho).
        destruct (Mb o ob Ea0) as (ob' & Eb & _ & _ & Hal). exists ob'. split; [rewrite (Oc o HoR); exact Eb|exact (Hal HoD)]. }
    constructor.
    - intros E. rewrite Hph in E. discriminate.
    - intros _. split; [exact HIA|]. split; [exact HaD|]. split.
      + unfold s2. cbn [set_frames unproc]. destruct Hctl as (_ & -> & _). exact HDu.
      + intros fr0. unfold s2. cbn [set_frames frames]. intros [<-|Hin]; [rewrite Hfm, Hm; exact HRD|].
        apply (i2_dtop _ s H fr0). rewrite Hf. exact Hin.
    - intros fr0 Hin. apply (i2_dtop _ s H fr0). rewrite Hf. exact Hin.
    - intros fr0. unfold s2. cbn [set_frames frames]. intros [<-|Hin] Hm0 Hd0.
      + rewrite Hft, Htodo in Hd0. discriminate.
      + exfalso. pose proof (existsb_rest_false s fr rest HC Hf Hm) as Hx.
        assert (Hy : existsb (fun fr1 => N.eqb (f_mod fr1) R && desig_in (f_todo fr1)) rest = true).
        { apply existsb_exists. exists fr0. split; [exact Hin|]. rewrite Hm0, N.eqb_refl, Hd0. reflexivity. }
        congruence.
    - intros E. rewrite Hph in E. discriminate.
  Qed.

  (* ---- one step ---- *)
  Lemma Inv2_step s s' : Inv2 s -> step p s = Next s' -> Inv2 s'.
  Proof.
    intros H Hs. pose proof (Inv2_ctl _ s H) as HC. pose proof (Ctl_step p s s' HC Hs) as HC'.
    destruct (step_cases p _ _ Hs) as [(Hf & m & rest & Hu & Hb)|[(fr & rest & Hf & Ht & ->)|
      (fr & rest & op & todo & s1 & fr1 & en & Hf & Ht & He & Hen)]].
    - apply (Inv2_begin s m s' (Inv2_weaken _ s H) Hb). rewrite Hf. intros fr [].
    - apply Inv2_finish; assumption.
    - destruct (N.eqb (f_mod fr) R && is_desig op) eqn:Ed.
      + apply andb_true_iff in Ed. destruct Ed as [Em Ed]. apply N.eqb_eq in Em.
        destruct (Inv2_desig s fr rest op todo s1 fr1 en H Hf Ht He Em Ed) as (-> & H2 & _). cbn [ensure] in Hen.
        inversion Hen; subst s'. exact H2.
      + destruct (Inv2_other s fr rest op todo s1 fr1 en H Hf Ht He Ed) as [H2 HnD].
        rewrite ensure_alt in Hen. destruct (ensure_target (set_frames s1 (fr1 :: rest)) en) as [m|] eqn:Et.
        * apply (Inv2_begin _ m s' H2 Hen). cbn [set_frames frames]. intros fr0 [<-|Hin].
          -- pose proof (exec_op_frame s (with_todo todo fr) op) as Hfr. rewrite He in Hfr. cbn [fst snd] in Hfr.
             destruct Hfr as [Hfm _]. rewrite Hfm. apply HnD. intros ->. discriminate.
          -- apply (i2_dtop _ s H fr0). rewrite Hf. exact Hin.
        * inversion Hen; subst s'. exact H2.
  Qed.

  (* ---- the run ---- *)
  Lemma Inv2_modules_valid s : Inv2 s -> modules_valid p s.
  Proof.
    intros H. destruct (dpendb s) eqn:E; [exact (Inv_modules_valid p _ _ _ s (i2_p0 _ s H E))|].
    destruct (i2_p1 _ s H E) as (HI & _). exact (Inv_modules_valid p _ _ _ s HI).
  Qed.

  Lemma run_machine_ok2 fuel : forall s,
    Inv2 s -> (mu p s < fuel)%nat ->
    exists s', run_machine p fuel s = Ok s' /\ Inv2 s' /\ frames s' = [] /\ unproc s' = [].
  Proof.
    induction fuel as [|f IH]; intros s HI Hlt; [lia|]. cbn [run_machine].
    destruct (step p s) as [s1| |k] eqn:Es.
    - apply IH; [eapply Inv2_step; eassumption|]. pose proof (step_mu p _ _ Es). lia.
    - exists s. destruct (step_halt p s Es). auto.
    - exfalso. exact (step_not_stuck p s k (Inv2_ctl _ s HI) (Inv2_modules_valid s HI) Es).
  Qed.

  Lemma Inv2_init sigma : Permutation sigma (module_ids p) -> Inv2 (init_state p sigma).
  Proof.
    intros Hperm. pose proof (Inv_init p H0 Hwf sigma Hperm) as HI.
    assert (Hfr : frames (init_state p sigma) = []).
    { unfold init_state. cbn [set_unproc frames]. rewrite frames_add_modules. reflexivity. }
    assert (Hph : dpendb (init_state p sigma) = true).
    { unfold dpendb. apply orb_true_iff. left. apply memN_In. unfold init_state. cbn [set_unproc unproc].
      eapply Permutation_in; [apply Permutation_sym; exact Hperm|]. apply module_ids_In. rewrite HR_mod. discriminate. }
    constructor.
    - intros _. exact HI.
    - intros E. rewrite Hph in E. discriminate.
    - rewrite Hfr. intros fr [].
    - intros fr. rewrite Hfr. intros [].
    - intros _. pose proof (i_oa p _ _ _ _ HI) as HA. pose proof (created_module p (init_state p sigma) D miD HD_mod) as CD.
      destruct (objs (init_state p sigma) Dm) as [db|] eqn:Ed; [|exfalso; apply (oa_exists _ _ _ _ _ HA) in CD; congruence].
      exists db. split; [exact Ed|].
      assert (Hnil : alias_nil_on (fun _ => True) (init_state p sigma)).
      { unfold init_state. eapply anil_objs; [reflexivity|]. apply anil_add_modules. intros x0 xb _ Hx. discriminate. }
      exact (Hnil Dm db I Ed).
  Qed.

  (* the registry at the end of the run: the static one, with x and what is below it under R.n *)
  Theorem moved_static_star sigma :
    Permutation sigma (module_ids p) ->
    exists s, run_state p sigma = Ok s /\
      (forall k e, reg_entry s k = Some e <->
                   exists o si, sobj p o = Some si /\ keyA o = k /\ e = (s_tag si, s_kind si, s_doc si)) /\
      (exists names, contents_view s (skey p Dm) = Some names /\ ~ In xname names) /\
      (exists names, contents_view s (skey p Rm) = Some names /\ In n names) /\
      alias_view s (skey p Dm) xname = Some (keyA x).
  Proof.
    intros Hperm. unfold run_state.
    destruct (run_machine_ok2 (run_fuel p) (init_state p sigma) (Inv2_init sigma Hperm) (init_mu p sigma Hperm))
      as (s & Hrun & H2 & Hfr & Hun).
    exists s. split; [exact Hrun|].
    assert (Hph : dpendb s = false) by (unfold dpendb; rewrite Hfr, Hun; reflexivity).
    destruct (i2_p1 _ s H2 Hph) as (HI & (db & Ed & Ea) & _).
    pose proof (i_oa p _ _ _ s HI) as HA. pose proof (i_or p _ _ _ s HI) as HR'.
    assert (Hcr : forall o, created_of p s o <-> sobj p o <> None).
    { intros o. unfold created_of, pending_of. rewrite Hfr, Hun. split; [tauto|]. intros Hd. split; [exact Hd|]. right.
      intros [[]|(fr & st & [] & _)]. }
    assert (Hinfo : forall o ob si, objs s o = Some ob -> sobj p o = Some si ->
                                    (o_tag ob, o_kind ob, o_doc ob) = (s_tag si, s_kind si, s_doc si)).
    { intros o ob si Ho Hs. destruct (oa_static _ _ _ _ _ HA o ob si Ho Hs) as (T & K & _ & _ & Dc).
      rewrite T, K. f_equal. destruct o as [[m i] j]. cbn [fst snd] in Dc.
      destruct (N.eq_dec i 0) as [->|Hi]; [|apply Dc; exact Hi].
      unfold sobj in Hs. cbn [N.eqb] in Hs. destruct (N.eqb j 0) eqn:Ej; [|discriminate]. apply N.eqb_eq in Ej. subst j.
      destruct (modinfo_of p m) as [mi|] eqn:Em; [|discriminate]. inversion Hs; subst si. cbn [s_doc].
      destruct (i_meta p _ _ _ s HI m ob mi Ho Em) as [_ B]. rewrite Hun in B. destruct (B (fun z => z)) as [-> _]. reflexivity. }
    assert (HkD : keyA Dm = skey p Dm) by (apply (key1_nonsub p R D ix n Hix); apply Dm_nonsub; exact Hix).
    assert (HkR : keyA Rm = skey p Rm) by (apply (key1_nonsub p R D ix n Hix); apply Rm_nonsub; exact HRD).
    pose proof (created_module p s D miD HD_mod) as CD. pose proof (created_module p s R miR HR_mod) as CR.
    assert (Cx : created_of p s x) by (apply Hcr; exact Hxdom).
    assert (HgD : pget (skey p Dm) (allobjs s) = Some Dm) by (rewrite <- HkD; apply (or_complete _ _ _ _ _ HR'); exact CD).
    assert (HgR : pget (skey p Rm) (allobjs s) = Some Rm) by (rewrite <- HkR; apply (or_complete _ _ _ _ _ HR'); exact CR).
    assert (Hnx : nmA x = n /\ parA x = Some Rm) by (unfold nm1, par1; rewrite oid_eqb_refl; auto).
    destruct Hnx as [Hnx Hpx].
    split; [|split; [|split]].
    - intros k e. unfold reg_entry. split.
      + destruct (pget k (allobjs s)) as [o|] eqn:Ek; [|discriminate].
        destruct (or_sound _ _ _ _ _ HR' k o Ek) as [Co Ko]. apply Hcr in Co.
        destruct (objs s o) as [ob|] eqn:Eo; [|discriminate]. destruct (sobj p o) as [si|] eqn:Es; [|congruence].
        intros Hx. inversion Hx; subst e. exists o, si. split; [exact Es|]. split; [exact Ko|]. eapply Hinfo; eassumption.
      + intros (o & si & Hs & Hk & ->).
        assert (Co : created_of p s o) by (apply Hcr; congruence).
        pose proof (or_complete _ _ _ _ _ HR' o Co) as Hget. rewrite Hk in Hget. rewrite Hget.
        destruct (objs s o) as [ob|] eqn:Eo; [|exfalso; apply (oa_exists _ _ _ _ _ HA) in Co; congruence].
        f_equal. eapply Hinfo; eassumption.
    - exists (map fst (o_contents db)). unfold contents_view. rewrite HgD, Ed. split; [reflexivity|].
      apply nget_None_notin. destruct (nget xname (o_contents db)) as [o|] eqn:Eg; [|reflexivity]. exfalso.
      destruct (oa_contents _ _ _ _ _ HA Dm db xname o Ed Eg) as (Co & Po & No).
      assert (Hox : o <> x) by (intros ->; rewrite Hpx in Po; inversion Po; congruence).
      unfold nm1, par1 in Po, No. rewrite (oid_eqb_neq o x Hox) in Po, No. apply Hox.
      apply H0; [apply (oa_dom _ _ _ _ _ HA); exact Co|exact Hxdom|].
      apply (key_same p nm0 par0); [rewrite (sparent_x p D ix Hix Hxdom); exact Po|congruence].
    - destruct (oa_complete _ _ _ _ _ HA x Rm Cx Hpx) as (rb & Er & Hg). rewrite Hnx in Hg.
      exists (map fst (o_contents rb)). unfold contents_view. rewrite HgR, Er. split; [reflexivity|].
      apply nget_In in Hg. apply in_map_iff. exists (n, x). auto.
    - unfold alias_view. rewrite HgD, Ed. exact Ea.
  Qed.
  (* ---- a consumer module C (neither R nor D) without star imports / assignment aliases: its alias map follows its
          import statements, whatever the schedule and whenever the move happens ---- *)
  Section Consumer.
    Variables (C : N) (miC : modinfo).
    Hypothesis HC_mod : modinfo_of p C = Some miC.
    Hypothesis HC_R : C <> R.
    Hypothesis HC_D : C <> D.
    Hypothesis HC_plain : forall st, In st (m_stmts miC) -> plain_stmt st = true.
    Notation Cm := (C, 0, 0).

    Definition CAInv (s : state) : Prop :=
      exists cb, objs s Cm = Some cb /\
        (In C (unproc s) -> o_alias cb = []) /\
        (forall fr, In fr (frames s) -> f_mod fr = C ->
           exists pre, expand_stmts (m_stmts miC) = pre ++ f_todo fr /\ (f_modname fr, o_alias cb) = alias_ops p C pre) /\
        (~ In C (unproc s) -> (forall fr, In fr (frames s) -> f_mod fr <> C) -> o_alias cb = static_alias p C).

    Lemma CA_begin ex s m s' : Inv2x ex s -> CAInv s -> begin_module p s m = Next s' -> CAInv s'.
    Proof.
      intros H (cb & Ecb & Hu & Hfc & Hd) Hb.
      destruct (begin_module_ctl p _ _ _ Hb) as (mi & Hmi & Hmst & Hin & Hun & Hfr & _).
      assert (Hnd : NoDup (unproc s)) by apply (c_nodup p s (Inv2_ctl _ s H)).
      assert (Hobj : exists cb', objs s' Cm = Some cb' /\ o_alias cb' = o_alias cb).
      { destruct (begin_module_inv p _ _ _ Hb) as (mi' & _ & _ & _ & Hs'). rewrite Hs'. cbn [set_frames objs].
        match goal with |- context [upd_obj ?s0 ?o ?f] => set (s0' := s0); set (f' := f) end.
        assert (E0 : objs s0' Cm = Some cb) by exact Ecb.
        destruct (N.eq_dec C m) as [E|Hne].
        - subst m. rewrite (upd_obj_some s0' _ f' cb E0), objs_set_obj_same. eexists. split; reflexivity.
        - assert (Hne' : Cm <> (m, 0, 0)) by (intros E; inversion E; congruence).
          destruct (objs s0' (m, 0, 0)) as [mb|] eqn:E1.
          + rewrite (upd_obj_some s0' _ f' mb E1), objs_set_obj_other by exact Hne'. exists cb. split; [exact E0|reflexivity].
          + rewrite (upd_obj_none s0' _ f' E1). exists cb. split; [exact E0|reflexivity]. }
      destruct Hobj as (cb' & Ecb' & A). exists cb'. split; [exact Ecb'|]. rewrite A, Hun, Hfr. split; [|split].
      - intros Hx. apply (remove1_In_iff m (unproc s) C Hnd) in Hx. apply Hu. tauto.
      - intros fr [<-|Hinf] Hm2; cbn [f_mod f_todo f_modname] in *.
        + subst m. rewrite HC_mod in Hmi. inversion Hmi; subst mi. exists []. split; [reflexivity|]. rewrite (Hu Hin). reflexivity.
        + apply Hfc; assumption.
      - intros Hnu Hnf. assert (Hne : C <> m) by (intros ->; apply (Hnf _ (or_introl eq_refl)); reflexivity).
        apply Hd; [intros Hx; apply Hnu; apply (remove1_In_iff m (unproc s) C Hnd); tauto|].
        intros fr Hinf. apply Hnf. right. exact Hinf.
    Qed.

    Lemma CA_finish s fr rest :
      CAInv s -> frames s = fr :: rest -> f_todo fr = [] -> CAInv (set_frames (set_mst s (f_mod fr) PROCESSED) rest).
    Proof.
      intros (cb & Ecb & Hu & Hfc & Hd) Hf Ht. exists cb. split; [exact Ecb|]. cbn [set_frames set_mst unproc frames].
      split; [exact Hu|]. split.
      - intros fr0 Hin. apply Hfc. rewrite Hf. right. exact Hin.
      - intros Hnu Hnf. destruct (N.eq_dec (f_mod fr) C) as [E|E].
        + destruct (Hfc fr ltac:(rewrite Hf; left; reflexivity) E) as (pre & He & Ha). rewrite Ht, app_nil_r in He.
          unfold static_alias. rewrite HC_mod, He, <- Ha. reflexivity.
        + apply Hd; [exact Hnu|]. intros fr0 Hin. rewrite Hf in Hin. destruct Hin as [<-|Hin]; [exact E|apply Hnf; exact Hin].
    Qed.

    Lemma plainC_ops op : In op (expand_stmts (m_stmts miC)) -> op <> MImportAll /\ (forall i t v, op <> MStmt i (SAlias t v)).
    Proof.
      intros Hin. split.
      - intros ->. destruct (In_expand_from_ImportAll _ _ Hin) as (lv & m' & Hst). pose proof (HC_plain _ Hst) as Hp. discriminate.
      - intros i t v ->. unfold expand_stmts in Hin. apply In_expand_from_MStmt in Hin. destruct Hin as (k & Hn & _ & _).
        apply nth_error_In in Hn. pose proof (HC_plain _ Hn) as Hp. discriminate.
    Qed.

    Lemma modA_par m : parA (m, 0, 0) = sparent p (m, 0, 0).
    Proof. unfold par1. rewrite (oid_eqb_neq (m, 0, 0) x); [reflexivity|]. intros E. inversion E. congruence. Qed.
    Lemma modA_key m : keyA (m, 0, 0) = skey p (m, 0, 0).
    Proof. apply (key1_nonsub p R D ix n Hix). intros [_ E]. cbn in E. congruence. Qed.

    (* the alias map of C after an operation that does not move x *)
    Lemma CA_step_frames s fr rest s1 fr1 cb1 :
      CAInv s -> Ctl p s -> frames s = fr :: rest -> unproc s1 = unproc s -> f_mod fr1 = f_mod fr -> f_mod fr <> C ->
      objs s1 Cm = Some cb1 -> (forall cb, objs s Cm = Some cb -> o_alias cb1 = o_alias cb) ->
      CAInv (set_frames s1 (fr1 :: rest)).
    Proof.
      intros (cb & Ecb & Hu & Hfc & Hd) HC Hf Hun Hfm NC E1 A. exists cb1. split; [exact E1|]. rewrite (A cb Ecb).
      cbn [set_frames unproc frames]. rewrite Hun. split; [exact Hu|]. split.
      - intros fr0 [<-|Hin] Hm0; [congruence|]. apply Hfc; [rewrite Hf; right; exact Hin|exact Hm0].
      - intros Hnu Hnf. apply Hd; [exact Hnu|]. intros fr0. rewrite Hf. intros [<-|Hin]; [exact NC|apply Hnf; right; exact Hin].
    Qed.

    Lemma CA_other s fr rest op todo s1 fr1 en :
      Inv2 s -> CAInv s -> frames s = fr :: rest -> f_todo fr = op :: todo ->
      exec_op s (with_todo todo fr) op = (s1, fr1, en) ->
      N.eqb (f_mod fr) R && is_desig op = false ->
      CAInv (set_frames s1 (fr1 :: rest)).
    Proof.
      intros H HCA Hf Ht He Hnd. pose proof (Inv2_ctl _ s H) as HC.
      pose proof (ctl_exec_op s (with_todo todo fr) op) as Hctl. pose proof (exec_op_frame s (with_todo todo fr) op) as Hfr.
      rewrite He in Hctl, Hfr. cbn [fst snd] in Hctl, Hfr. destruct Hfr as (Hfm & Hft). cbn [with_todo f_mod f_todo] in Hfm, Hft.
      destruct (Inv2_suffix _ s fr H ltac:(rewrite Hf; left; reflexivity)) as (mi & pre & Hmi & Hexp). rewrite Ht in Hexp.
      assert (Hop_name : forall o a mi', op = MImportName o a -> modinfo_of p (f_mod fr) = Some mi' -> ~ In a (exports_of_mod mi')).
      { intros o a mi' Hop Hmi'. rewrite Hmi in Hmi'. inversion Hmi'; subst mi'.
        assert (Hx : In (MImportName o a) (expand_stmts (m_stmts mi))) by (rewrite Hexp, Hop; apply in_or_app; right; left; reflexivity).
        destruct (In_expand_from_ImportName _ _ _ _ Hx) as (lv & m' & nms & Hst & Hoa).
        exact (Honly _ mi _ Hmi Hst (o, a) Hoa). }
      assert (Hop_all : forall mi', op = MImportAll -> modinfo_of p (f_mod fr) = Some mi' -> exports_of_mod mi' = []).
      { intros mi' Hop Hmi'. rewrite Hmi in Hmi'. inversion Hmi'; subst mi'.
        assert (Hx : In MImportAll (expand_stmts (m_stmts mi))) by (rewrite Hexp, Hop; apply in_or_app; right; left; reflexivity).
        destruct (In_expand_from_ImportAll _ _ Hx) as (lv & m' & Hst). destruct (Honly _ mi _ Hmi Hst) as [E|E]; [exact E|].
        exfalso. rewrite E, N.eqb_refl, Hop in Hnd. discriminate. }
      assert (Hun : unproc s1 = unproc s) by (destruct Hctl as (_ & Hx & _); exact Hx).
      destruct (N.eq_dec (f_mod fr) C) as [EC|NC].
      - (* an operation of the consumer itself *)
        destruct HCA as (cb & Ecb & Hu & Hfc & Hd).
        assert (HmiC : modinfo_of p (f_mod fr) = Some miC) by (rewrite EC; exact HC_mod).
        rewrite Hmi in HmiC. inversion HmiC; subst mi.
        assert (Hin : In op (expand_stmts (m_stmts miC))) by (rewrite Hexp; apply in_or_app; right; left; reflexivity).
        destruct (plainC_ops op Hin) as [Hns Hna].
        assert (Ecb' : objs s (f_mod fr, 0, 0) = Some cb) by (rewrite EC; exact Ecb).
        assert (Hon : forall o a, op = MImportName o a -> ~ In a (exports_of_mod miC)) by (intros o a Ho; exact (Hop_name o a miC Ho Hmi)).
        assert (Hstep : exists mb1, objs s1 (f_mod fr, 0, 0) = Some mb1 /\
                                    (f_modname fr1, o_alias mb1) = alias_op p (f_mod fr) (f_modname fr, o_alias cb) op).
        { destruct (dpendb s) eqn:Eph.
          - exact (op_alias_step p nm0 par0 GoodT (fun _ => eq_refl) (fun _ => eq_refl) s fr rest op todo s1 fr1 en miC cb
                                 (i2_p0 _ s H Eph) Hf Ht He Hmi Ecb' Hon Hns Hna).
          - destruct (i2_p1 _ s H Eph) as (HI & _).
            exact (op_alias_step p nmA parA Good1 modA_par modA_key s fr rest op todo s1 fr1 en miC cb HI Hf Ht He Hmi Ecb' Hon Hns Hna). }
        destruct Hstep as (mb1 & E1 & A1). rewrite EC in E1, A1. exists mb1. split; [exact E1|].
        cbn [set_frames unproc frames]. rewrite Hun.
        assert (HnuC : ~ In C (unproc s)).
        { intros Hx. destruct (c_frames p s HC fr) as [A _]; [rewrite Hf; left; reflexivity|].
          apply (c_unproc p s HC) in Hx. destruct Hx as [_ B]. rewrite EC in A. contradiction. }
        split; [intros Hx; contradiction|]. split.
        + intros fr0 [<-|Hin0] Hm0.
          * destruct (Hfc fr ltac:(rewrite Hf; left; reflexivity) EC) as (pre0 & He0 & Ha0). rewrite Ht in He0.
            exists (pre0 ++ [op]). split; [rewrite Hft, <- app_assoc; exact He0|]. rewrite alias_ops_snoc, <- Ha0. exact A1.
          * exfalso. pose proof (c_fnodup p s HC) as Hn. rewrite Hf in Hn. cbn [map] in Hn. apply NoDup_cons_iff in Hn.
            destruct Hn as [Hni _]. apply Hni. rewrite EC, <- Hm0. apply in_map. exact Hin0.
        + intros _ Hnf. exfalso. apply (Hnf fr1 (or_introl eq_refl)). congruence.
      - (* an operation of another module *)
        assert (M : meta_weak (f_mod fr, 0, 0) s s1).
        { destruct (dpendb s) eqn:Eph.
          - exact (proj2 (proj2 (op_triple p nm0 par0 H0 GoodT (static0 p) s fr rest op todo s1 fr1 en (i2_p0 _ s H Eph) Hf Ht He Hop_name Hop_all))).
          - destruct (i2_p1 _ s H Eph) as (HI & _).
            exact (proj2 (proj2 (op_triple p nmA parA H1 Good1 staticA s fr rest op todo s1 fr1 en HI Hf Ht He Hop_name Hop_all))). }
        pose proof HCA as (cb & Ecb & _). destruct (M Cm cb Ecb) as (cb1 & E1 & _ & _ & Hal).
        apply (CA_step_frames s fr rest s1 fr1 cb1 HCA HC Hf Hun Hfm NC E1).
        intros cb0 E0. rewrite Ecb in E0. inversion E0; subst cb0. apply Hal. intros E. inversion E. congruence.
    Qed.

    Lemma CA_step s s' : Inv2 s -> CAInv s -> step p s = Next s' -> CAInv s'.
    Proof.
      intros H HCA Hs. pose proof (Inv2_ctl _ s H) as HC.
      destruct (step_cases p _ _ Hs) as [(Hf & m & rest & Hu & Hb)|[(fr & rest & Hf & Ht & ->)|
        (fr & rest & op & todo & s1 & fr1 & en & Hf & Ht & He & Hen)]].
      - exact (CA_begin _ s m s' H HCA Hb).
      - apply CA_finish; assumption.
      - destruct (N.eqb (f_mod fr) R && is_desig op) eqn:Ed.
        + apply andb_true_iff in Ed. destruct Ed as [Em Ed]. apply N.eqb_eq in Em.
          destruct (Inv2_desig s fr rest op todo s1 fr1 en H Hf Ht He Em Ed) as (-> & H2 & M). cbn [ensure] in Hen.
          inversion Hen; subst s'.
          pose proof (ctl_exec_op s (with_todo todo fr) op) as Hctl. pose proof (exec_op_frame s (with_todo todo fr) op) as Hfr.
          rewrite He in Hctl, Hfr. cbn [fst snd] in Hctl, Hfr. destruct Hfr as (Hfm & _). cbn [with_todo f_mod] in Hfm.
          pose proof HCA as (cb & Ecb & _).
          destruct (M Cm cb ltac:(intros E; inversion E; congruence) ltac:(intros E; inversion E; congruence) Ecb) as (cb1 & E1 & Hal).
          apply (CA_step_frames s fr rest s1 fr1 cb1 HCA HC Hf); [destruct Hctl as (_ & Hx & _); exact Hx|exact Hfm|congruence|exact E1|].
          intros cb0 E0. rewrite Ecb in E0. inversion E0; subst cb0. exact Hal.
        + pose proof (CA_other s fr rest op todo s1 fr1 en H HCA Hf Ht He Ed) as HCA2.
          destruct (Inv2_other s fr rest op todo s1 fr1 en H Hf Ht He Ed) as [H2 _].
          rewrite ensure_alt in Hen. destruct (ensure_target (set_frames s1 (fr1 :: rest)) en) as [m|] eqn:Et.
          * exact (CA_begin _ _ m s' H2 HCA2 Hen).
          * inversion Hen; subst s'. exact HCA2.
    Qed.

    Lemma CA_init sigma : Permutation sigma (module_ids p) -> CAInv (init_state p sigma).
    Proof.
      intros Hperm. pose proof (Inv_init p H0 Hwf sigma Hperm) as HI. pose proof (i_oa p _ _ _ _ HI) as HA.
      pose proof (created_module p (init_state p sigma) C miC HC_mod) as CC.
      destruct (objs (init_state p sigma) Cm) as [cb|] eqn:Ecb; [|exfalso; apply (oa_exists _ _ _ _ _ HA) in CC; congruence].
      assert (Hfr : frames (init_state p sigma) = []).
      { unfold init_state. cbn [set_unproc frames]. rewrite frames_add_modules. reflexivity. }
      exists cb. split; [exact Ecb|]. rewrite Hfr. split; [|split].
      - intros _.
        assert (Hnil : alias_nil_on (fun _ => True) (init_state p sigma)).
        { unfold init_state. eapply anil_objs; [reflexivity|]. apply anil_add_modules. intros x0 xb _ Hx. discriminate. }
        exact (Hnil Cm cb I Ecb).
      - intros fr [].
      - intros Hnu. exfalso. apply Hnu. unfold init_state. cbn [set_unproc unproc].
        eapply Permutation_in; [apply Permutation_sym; exact Hperm|]. apply module_ids_In. rewrite HC_mod. discriminate.
    Qed.

    Lemma run_machine_okC fuel : forall s,
      Inv2 s -> CAInv s -> (mu p s < fuel)%nat ->
      exists s', run_machine p fuel s = Ok s' /\ Inv2 s' /\ CAInv s' /\ frames s' = [] /\ unproc s' = [].
    Proof.
      induction fuel as [|f IH]; intros s HI HCA Hlt; [lia|]. cbn [run_machine].
      destruct (step p s) as [s1| |k] eqn:Es.
      - apply IH; [eapply Inv2_step; eassumption|eapply CA_step; eassumption|]. pose proof (step_mu p _ _ Es). lia.
      - exists s. destruct (step_halt p s Es). auto.
      - exfalso. exact (step_not_stuck p s k (Inv2_ctl _ s HI) (Inv2_modules_valid s HI) Es).
    Qed.

    (* the final state: the moved registry AND the alias map of the consumer *)
    Theorem moved_final_star sigma :
      Permutation sigma (module_ids p) ->
      exists s, run_state p sigma = Ok s /\ InvA s /\ frames s = [] /\ unproc s = [] /\ aliasD s /\
                exists cb, objs s Cm = Some cb /\ o_alias cb = static_alias p C.
    Proof.
      intros Hperm. unfold run_state.
      destruct (run_machine_okC (run_fuel p) (init_state p sigma) (Inv2_init sigma Hperm) (CA_init sigma Hperm) (init_mu p sigma Hperm))
        as (s & Hrun & H2 & (cb & Ecb & _ & _ & Hd) & Hfr & Hun).
      exists s. split; [exact Hrun|].
      assert (Hph : dpendb s = false) by (unfold dpendb; rewrite Hfr, Hun; reflexivity).
      destruct (i2_p1 _ s H2 Hph) as (HI & HaD & _).
      split; [exact HI|]. split; [exact Hfr|]. split; [exact Hun|]. split; [exact HaD|].
      exists cb. split; [exact Ecb|]. apply Hd; [rewrite Hun; intros []|rewrite Hfr; intros fr []].
    Qed.
  End Consumer.
End MoveStar.

(* ---- a boolean check of "nothing but the star import of R re-exports" ---- *)
Definition stmt_only_starb (R : N) (m : N) (mi : modinfo) (st : stmt) : bool :=
  match st with
  | SImportFrom _ _ names => forallb (fun oa => negb (memN (snd oa) (exports_of_mod mi))) names
  | SImportStar _ _ => match exports_of_mod mi with [] => true | _ => N.eqb m R end
  | _ => true
  end.
Definition only_starb (p : project) (R : N) : bool :=
  forallb (fun km => forallb (stmt_only_starb R (N.of_nat (fst km)) (snd km)) (m_stmts (snd km)))
          (combine (seq 0 (length p)) p).

Lemma only_starb_sound p R :
  only_starb p R = true ->
  forall m mi st, modinfo_of p m = Some mi -> In st (m_stmts mi) ->
    match st with
    | SImportFrom _ _ nms => forall oa, In oa nms -> ~ In (snd oa) (exports_of_mod mi)
    | SImportStar _ _ => exports_of_mod mi = [] \/ m = R
    | _ => True
    end.
Proof.
  unfold only_starb. rewrite forallb_forall. intros H m mi st Hmi Hst.
  specialize (H (N.to_nat m, mi)). cbn [fst snd] in H. rewrite N2Nat.id in H.
  assert (Hin : In (N.to_nat m, mi) (combine (seq 0 (length p)) p)) by (apply In_combine_seq; split; [lia|rewrite Nat.sub_0_r; exact Hmi]).
  specialize (H Hin). rewrite forallb_forall in H. specialize (H st Hst).
  destruct st; cbn [stmt_only_starb] in *; try exact I.
  - rewrite forallb_forall in H. intros oa Hoa Hx. specialize (H oa Hoa). apply negb_true_iff in H.
    apply memN_false in H. contradiction.
  - destruct (exports_of_mod mi); [left; reflexivity|right; apply N.eqb_eq; exact H].
Qed.

