(* Proofs/QuoteProofs.v -- lemmas for C20 (quoting). *)
From Coq Require Import ZArith NArith List Bool Lia.
From PydoctorVerif Require Import Base.Sexp Model.ReDeriv Model.OptTypes Gen.TablesC20 Spec.PyStrLit
     Model.Quote.
Import ListNotations.
Local Open Scope N_scope.

(* ------------------------------------------------------------------ derivative matcher: basic facts *)
Lemma re_match_Empty : forall s, re_match Empty s = false.
Proof. induction s as [|c s IH]; cbn; auto. Qed.

Lemma re_match_Eps : forall s, re_match Eps s = match s with [] => true | _ => false end.
Proof. destruct s as [|c s]; cbn; auto using re_match_Empty. Qed.

Lemma re_match_mk_alt_aux :
  forall s, (forall a b, re_match (Alt a b) s = re_match a s || re_match b s) ->
  forall a b, re_match (mk_alt a b) s = re_match a s || re_match b s.
Proof.
  intros s H a b.
  destruct a; destruct b; cbn [mk_alt]; rewrite ?re_match_Empty, ?orb_false_r, ?orb_false_l; auto.
Qed.

Lemma re_match_Alt : forall s a b, re_match (Alt a b) s = re_match a s || re_match b s.
Proof.
  induction s as [|c s IH]; intros a b.
  - reflexivity.
  - cbn [re_match deriv]. apply re_match_mk_alt_aux. exact IH.
Qed.

Lemma re_match_mk_alt : forall s a b, re_match (mk_alt a b) s = re_match a s || re_match b s.
Proof. intros s a b. apply re_match_mk_alt_aux. intros. apply re_match_Alt. Qed.
