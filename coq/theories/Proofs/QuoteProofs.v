(* Proofs/QuoteProofs.v -- lemmas for C20 (quoting). *)
From Coq Require Import ZArith NArith List Bool Lia.
From PydoctorVerif Require Import Base.Sexp Model.ReDeriv Model.OptTypes Gen.TablesC20 Spec.PyStrLit
     Model.Quote.
Import ListNotations.
Local Open Scope N_scope.

(* ------------------------------------------------------------------ derivative matcher: basic facts *)
Lemma re_match_Empty : forall s, re_match Empty s = false.
Proof. induction s as [|c s IH]; cbn; auto. Qed.

Lemma re_match_Eps : forall s, re_match Eps s = match s with [] => true | _ => false end.
Proof. destruct s as [|c s]; cbn; auto using re_match_Empty. Qed.

Lemma re_match_mk_alt_aux :
  forall s, (forall a b, re_match (Alt a b) s = re_match a s || re_match b s) ->
  forall a b, re_match (mk_alt a b) s = re_match a s || re_match b s.
Proof.
  intros s H a b.
  destruct a; destruct b; cbn [mk_alt]; rewrite ?re_match_Empty, ?orb_false_r, ?orb_false_l; auto.
Qed.

Lemma re_match_Alt : forall s a b, re_match (Alt a b) s = re_match a s || re_match b s.
Proof.
  induction s as [|c s IH]; intros a b.
  - reflexivity.
  - cbn [re_match deriv]. apply re_match_mk_alt_aux. exact IH.
Qed.

Lemma re_match_mk_alt : forall s a b, re_match (mk_alt a b) s = re_match a s || re_match b s.
Proof. intros s a b. apply re_match_mk_alt_aux. intros. apply re_match_Alt. Qed.

(* ------------------------------------------------------------------ _QUOTED_STR_REGEX is the recogniser *)
(* the shape the source has now; quoted_re_shape fails to check as soon as the pattern is edited *)
Definition body_re (q : N) : re :=
  alt_of [seq_of [Chr (CLit 92); Chr CAnyNoNl]; Chr (CIn true [ILit q; ILit 92])].
Definition simple_re (q : N) : re :=
  seq_of [Chr (CLit q); Star (body_re q); Chr (CLit q); Opt (Chr (CLit 10))].

Lemma quoted_re_shape : quoted_re = alt_of [simple_re 34; simple_re 39].
Proof. reflexivity. Qed.

(* the four derivative states of simple_re q *)
Definition st_T (q : N) : re := Seq (Chr (CLit q)) (Seq (Opt (Chr (CLit 10))) Eps).
Definition st_1 (q : N) : re := Seq (Star (body_re q)) (st_T q).
Definition st_2 (q : N) : re := Seq (Seq (Seq (Chr CAnyNoNl) Eps) (Star (body_re q))) (st_T q).
Definition st_3 : re := Seq (Opt (Chr (CLit 10))) Eps.

Lemma deriv_st_1 : forall q c, q <> 92 ->
  deriv c (st_1 q) = if c =? q then st_3 else if c =? 92 then st_2 q else st_1 q.
Proof.
  intros q c Hq. unfold st_1, st_T, body_re. cbn.
  destruct (c =? q) eqn:Eq; destruct (c =? 92) eqn:Eb; cbn; try reflexivity.
  apply N.eqb_eq in Eq; apply N.eqb_eq in Eb; congruence.
Qed.

Lemma deriv_st_2 : forall q d, deriv d (st_2 q) = if d =? 10 then Empty else st_1 q.
Proof.
  intros q d. unfold st_2, st_1, st_T, body_re. cbn.
  destruct (d =? 10); cbn; reflexivity.
Qed.

Lemma match_st_3 : forall s,
  re_match st_3 s = match s with [] => true | [x] => x =? 10 | _ => false end.
Proof.
  intros [|x s]; [reflexivity|].
  unfold st_3. cbn. destruct (x =? 10); cbn.
  - rewrite re_match_Eps. destruct s; reflexivity.
  - rewrite re_match_Empty. destruct s; reflexivity.
Qed.

Lemma match_st_1 : forall q, q <> 92 -> forall n s, (length s <= n)%nat ->
  re_match (st_1 q) s = scan_simple q s.
Proof.
  intros q Hq. induction n as [|n IH]; intros s Hn.
  - destruct s; [reflexivity | cbn in Hn; lia].
  - destruct s as [|c r]; [reflexivity|].
    cbn [re_match scan_simple]. rewrite deriv_st_1 by assumption.
    destruct (c =? q) eqn:Eq.
    + rewrite match_st_3. destruct r as [|x [|y r']]; reflexivity.
    + destruct (c =? 92) eqn:Eb.
      * destruct r as [|d r']; [reflexivity|].
        cbn [re_match]. rewrite deriv_st_2.
        destruct (d =? 10); [apply re_match_Empty|].
        apply IH. cbn in Hn. lia.
      * apply IH. cbn in Hn. lia.
Qed.

Lemma match_simple_re : forall q s, q <> 92 -> re_match (simple_re q) s = simple_rec q s.
Proof.
  intros q s Hq. destruct s as [|c r]; [reflexivity|].
  unfold simple_rec. cbn [re_match].
  replace (deriv c (simple_re q)) with (if c =? q then st_1 q else Empty).
  - destruct (c =? q); cbn [andb].
    + apply match_st_1 with (n := length r); auto.
    + apply re_match_Empty.
  - unfold simple_re, st_1, st_T, body_re. cbn. destruct (c =? q); reflexivity.
Qed.

(* _QUOTED_STR_REGEX.match(s) is the hand-written recogniser for either quote *)
Lemma quoted_regex_is_recogniser : forall s,
  re_match quoted_re s = simple_rec 34 s || simple_rec 39 s.
Proof.
  intros s. rewrite quoted_re_shape. cbn [alt_of fold_right].
  rewrite !re_match_Alt, re_match_Empty, orb_false_r.
  rewrite !match_simple_re by discriminate. reflexivity.
Qed.
