(* Proofs/QuoteProofs.v -- lemmas for C20 (quoting). *)
From Coq Require Import ZArith NArith List Bool Lia.
From PydoctorVerif Require Import Base.Sexp Model.ReDeriv Model.OptTypes Gen.TablesC20 Spec.PyStrLit
     Model.Quote.
Import ListNotations.
Local Open Scope N_scope.

(* ------------------------------------------------------------------ derivative matcher: basic facts *)
Lemma re_match_Empty : forall s, re_match Empty s = false.
Proof. induction s as [|c s IH]; cbn; auto. Qed.

Lemma re_match_Eps : forall s, re_match Eps s = match s with [] => true | _ => false end.
Proof. destruct s as [|c s]; cbn; auto using re_match_Empty. Qed.

Lemma re_match_mk_alt_aux :
  forall s, (forall a b, re_match (Alt a b) s = re_match a s || re_match b s) ->
  forall a b, re_match (mk_alt a b) s = re_match a s || re_match b s.
Proof.
  intros s H a b.
  destruct a; destruct b; cbn [mk_alt]; rewrite ?re_match_Empty, ?orb_false_r, ?orb_false_l; auto.
Qed.

Lemma re_match_Alt : forall s a b, re_match (Alt a b) s = re_match a s || re_match b s.
Proof.
  induction s as [|c s IH]; intros a b.
  - reflexivity.
  - cbn [re_match deriv]. apply re_match_mk_alt_aux. exact IH.
Qed.

Lemma re_match_mk_alt : forall s a b, re_match (mk_alt a b) s = re_match a s || re_match b s.
Proof. intros s a b. apply re_match_mk_alt_aux. intros. apply re_match_Alt. Qed.

(* ------------------------------------------------------------------ _QUOTED_STR_REGEX is the recogniser *)
(* the shape the source has now; quoted_re_shape fails to check as soon as the pattern is edited *)
Definition body_re (q : N) : re :=
  alt_of [seq_of [Chr (CLit 92); Chr CAnyNoNl]; Chr (CIn true [ILit q; ILit 92])].
Definition simple_re (q : N) : re :=
  seq_of [Chr (CLit q); Star (body_re q); Chr (CLit q); Opt (Chr (CLit 10))].

Lemma quoted_re_shape : quoted_re = alt_of [simple_re 34; simple_re 39].
Proof. reflexivity. Qed.

(* the four derivative states of simple_re q *)
Definition st_T (q : N) : re := Seq (Chr (CLit q)) (Seq (Opt (Chr (CLit 10))) Eps).
Definition st_1 (q : N) : re := Seq (Star (body_re q)) (st_T q).
Definition st_2 (q : N) : re := Seq (Seq (Seq (Chr CAnyNoNl) Eps) (Star (body_re q))) (st_T q).
Definition st_3 : re := Seq (Opt (Chr (CLit 10))) Eps.

Lemma deriv_st_1 : forall q c, q <> 92 ->
  deriv c (st_1 q) = if c =? q then st_3 else if c =? 92 then st_2 q else st_1 q.
Proof.
  intros q c Hq. unfold st_1, st_T, body_re. cbn.
  destruct (c =? q) eqn:Eq; destruct (c =? 92) eqn:Eb; cbn; try reflexivity.
  apply N.eqb_eq in Eq; apply N.eqb_eq in Eb; congruence.
Qed.

Lemma deriv_st_2 : forall q d, deriv d (st_2 q) = if d =? 10 then Empty else st_1 q.
Proof.
  intros q d. unfold st_2, st_1, st_T, body_re. cbn.
  destruct (d =? 10); cbn; reflexivity.
Qed.

Lemma match_st_3 : forall s,
  re_match st_3 s = match s with [] => true | [x] => x =? 10 | _ => false end.
Proof.
  intros [|x s]; [reflexivity|].
  unfold st_3. cbn. destruct (x =? 10); cbn.
  - rewrite re_match_Eps. destruct s; reflexivity.
  - rewrite re_match_Empty. destruct s; reflexivity.
Qed.

Lemma match_st_1 : forall q, q <> 92 -> forall n s, (length s <= n)%nat ->
  re_match (st_1 q) s = scan_simple q s.
Proof.
  intros q Hq. induction n as [|n IH]; intros s Hn.
  - destruct s; [reflexivity | cbn in Hn; lia].
  - destruct s as [|c r]; [reflexivity|].
    cbn [re_match scan_simple]. rewrite deriv_st_1 by assumption.
    destruct (c =? q) eqn:Eq.
    + rewrite match_st_3. destruct r as [|x [|y r']]; reflexivity.
    + destruct (c =? 92) eqn:Eb.
      * destruct r as [|d r']; [reflexivity|].
        cbn [re_match]. rewrite deriv_st_2.
        destruct (d =? 10); [apply re_match_Empty|].
        apply IH. cbn in Hn. lia.
      * apply IH. cbn in Hn. lia.
Qed.

Lemma match_simple_re : forall q s, q <> 92 -> re_match (simple_re q) s = simple_rec q s.
Proof.
  intros q s Hq. destruct s as [|c r]; [reflexivity|].
  unfold simple_rec. cbn [re_match].
  replace (deriv c (simple_re q)) with (if c =? q then st_1 q else Empty).
  - destruct (c =? q); cbn [andb].
    + apply match_st_1 with (n := length r); auto.
    + apply re_match_Empty.
  - unfold simple_re, st_1, st_T, body_re. cbn. destruct (c =? q); reflexivity.
Qed.

(* _QUOTED_STR_REGEX.match(s) is the hand-written recogniser for either quote *)
Lemma quoted_regex_is_recogniser : forall s,
  re_match quoted_re s = simple_rec 34 s || simple_rec 39 s.
Proof.
  intros s. rewrite quoted_re_shape. cbn [alt_of fold_right].
  rewrite !re_match_Alt, re_match_Empty, orb_false_r.
  rewrite !match_simple_re by discriminate. reflexivity.
Qed.
(* ------------------------------------------------------------------ hexadecimal *)
Definition is_hexchar (x : N) : bool := ((48 <=? x) && (x <=? 57)) || ((97 <=? x) && (x <=? 102)).

Lemma hex_digit_char : forall d, d < 16 -> is_hexchar (hex_digit d) = true.
Proof.
  intros d Hd. unfold hex_digit, is_hexchar.
  destruct (d <? 10) eqn:E.
  - apply N.ltb_lt in E. apply orb_true_iff. left. apply andb_true_iff. split; apply N.leb_le; lia.
  - apply N.ltb_ge in E. apply orb_true_iff. right. apply andb_true_iff. split; apply N.leb_le; lia.
Qed.

Lemma hex_val_digit : forall d, d < 16 -> hex_val (hex_digit d) = Some d.
Proof.
  intros d Hd. unfold hex_digit, hex_val.
  destruct (d <? 10) eqn:E.
  - apply N.ltb_lt in E.
    replace ((48 <=? 48 + d) && (48 + d <=? 57)) with true.
    + f_equal. lia.
    + symmetry. apply andb_true_iff. split; apply N.leb_le; lia.
  - apply N.ltb_ge in E.
    replace ((48 <=? 87 + d) && (87 + d <=? 57)) with false.
    + replace ((97 <=? 87 + d) && (87 + d <=? 102)) with true.
      * f_equal. lia.
      * symmetry. apply andb_true_iff. split; apply N.leb_le; lia.
    + symmetry. apply andb_false_iff. right. apply N.leb_gt. lia.
Qed.

Lemma hex_num_app : forall l1 l2 acc,
  hex_num (l1 ++ l2) acc = match hex_num l1 acc with Some a => hex_num l2 a | None => None end.
Proof.
  induction l1 as [|c l1 IH]; intros l2 acc; cbn [app hex_num]; [reflexivity|].
  destruct (hex_val c); [apply IH | reflexivity].
Qed.

Lemma hex_num_digits : forall k c acc,
  hex_num (hex_digits k c) acc = Some (acc * 16 ^ N.of_nat k + c mod 16 ^ N.of_nat k).
Proof.
  induction k as [|k IH]; intros c acc.
  - cbn [hex_digits hex_num]. change (N.of_nat 0) with 0. rewrite N.pow_0_r, N.mod_1_r. f_equal. lia.
  - cbn [hex_digits]. rewrite hex_num_app, IH. cbn [hex_num].
    rewrite hex_val_digit by (apply N.mod_lt; discriminate).
    f_equal. rewrite Nat2N.inj_succ, N.pow_succ_r'.
    rewrite (N.mod_mul_r c 16 (16 ^ N.of_nat k)) by (try discriminate; apply N.pow_nonzero; discriminate).
    lia.
Qed.

Lemma hex_digits_chars : forall k c, forallb is_hexchar (hex_digits k c) = true.
Proof.
  induction k as [|k IH]; intros c; cbn [hex_digits]; [reflexivity|].
  rewrite forallb_app, IH. cbn [forallb]. rewrite hex_digit_char by (apply N.mod_lt; discriminate). reflexivity.
Qed.
(* ------------------------------------------------------------------ generic quoting round trip *)
Definition plain (q x : N) : bool := negb (x =? q) && negb (x =? 92).
(* may stand in a one-line literal: no NUL, surrogate, out-of-range, CR, LF *)
Definition clean_char (x : N) : bool := negb (bad_source_char x) && negb (x =? 13) && negb (x =? 10).

Lemma scan_plain : forall q l rest, forallb (plain q) l = true ->
  scan_simple q (l ++ rest) = scan_simple q rest.
Proof.
  induction l as [|x l IH]; intros rest H; [reflexivity|].
  cbn [forallb] in H. apply andb_true_iff in H. destruct H as [Hx Hl].
  unfold plain in Hx. apply andb_true_iff in Hx. destruct Hx as [H1 H2].
  apply negb_true_iff in H1. apply negb_true_iff in H2.
  cbn [app scan_simple]. rewrite H1, H2. apply IH. exact Hl.
Qed.

Lemma scan_escape : forall q d rest, q <> 92 -> d <> 10 ->
  scan_simple q (92 :: d :: rest) = scan_simple q rest.
Proof.
  intros q d rest Hq Hd. cbn [scan_simple].
  replace (92 =? q) with false by (symmetry; apply N.eqb_neq; congruence).
  cbn. replace (d =? 10) with false by (symmetry; apply N.eqb_neq; congruence). reflexivity.
Qed.

Lemma body_plain : forall q c rest, c <> q -> c <> 10 -> c <> 92 ->
  body q false (c :: rest) = push c (body q false rest).
Proof.
  intros q c rest H1 H2 H3. cbn [body].
  apply N.eqb_neq in H1. apply N.eqb_neq in H2. apply N.eqb_neq in H3.
  rewrite H1, H2, H3. reflexivity.
Qed.

Lemma normalize_no_cr : forall s, forallb (fun x => negb (x =? 13)) s = true -> normalize_newlines s = s.
Proof.
  induction s as [|c s IH]; intros H; [reflexivity|].
  cbn [forallb] in H. apply andb_true_iff in H. destruct H as [Hc Hs].
  apply negb_true_iff in Hc. cbn [normalize_newlines]. rewrite Hc. f_equal. apply IH. exact Hs.
Qed.

Lemma open_quote_single : forall q x tl, x <> q -> open_quote q (x :: tl) = (false, x :: tl).
Proof.
  intros q x tl H. unfold open_quote. destruct tl as [|y tl]; [reflexivity|].
  replace (x =? q) with false by (symmetry; apply N.eqb_neq; exact H). reflexivity.
Qed.

Section Roundtrip.
  Variable q : N.
  Variable esc : N -> text.
  Variable valid : N -> Prop.
  Hypothesis q_quote : q = 34 \/ q = 39.
  Hypothesis esc_scan : forall c rest, valid c -> scan_simple q (esc c ++ rest) = scan_simple q rest.
  Hypothesis esc_body : forall c rest, valid c -> body q false (esc c ++ rest) = push c (body q false rest).
  Hypothesis esc_clean : forall c, valid c -> forallb clean_char (esc c) = true.
  Hypothesis esc_head : forall c, valid c -> exists x tl, esc c = x :: tl /\ x <> q.

  Definition quoted (s : text) : text := q :: flat_map esc s ++ [q].

  Lemma q_props : q <> 92 /\ q <> 10 /\ clean_char q = true /\ is_quote q = true.
  Proof. destruct q_quote as [-> | ->]; repeat split; discriminate || reflexivity. Qed.

  Lemma rt_scan : forall s, Forall valid s -> scan_simple q (flat_map esc s ++ [q]) = true.
  Proof.
    induction s as [|c s IH]; intros H.
    - cbn. rewrite N.eqb_refl. reflexivity.
    - inversion H; subst. cbn [flat_map]. rewrite <- app_assoc, esc_scan by assumption. apply IH. assumption.
  Qed.

  Lemma rt_body : forall s, Forall valid s -> body q false (flat_map esc s ++ [q]) = LOk s [].
  Proof.
    induction s as [|c s IH]; intros H.
    - cbn. rewrite N.eqb_refl. reflexivity.
    - inversion H; subst. cbn [flat_map]. rewrite <- app_assoc, esc_body by assumption.
      rewrite IH by assumption. reflexivity.
  Qed.

  Lemma rt_clean : forall s, Forall valid s -> forallb clean_char (quoted s) = true.
  Proof.
    intros s H. unfold quoted. cbn [forallb]. destruct q_props as (_ & _ & Hc & _). rewrite Hc. cbn [andb].
    rewrite forallb_app. cbn [forallb]. rewrite Hc, andb_true_r.
    induction H as [|c s Hc' Hs IH]; [reflexivity|].
    cbn [flat_map]. rewrite forallb_app, esc_clean by assumption. exact IH.
  Qed.

  Lemma rt_head : forall s, Forall valid s -> open_quote q (flat_map esc s ++ [q]) = (false, flat_map esc s ++ [q]).
  Proof.
    intros s H. destruct H as [|c s Hc Hs]; [reflexivity|].
    cbn [flat_map]. destruct (esc_head c Hc) as (x & tl & E & Hx). rewrite E. cbn [app].
    apply open_quote_single. exact Hx.
  Qed.

  Lemma rt_is_simple : forall s, Forall valid s -> simple_rec q (quoted s) = true.
  Proof.
    intros s H. unfold quoted, simple_rec. rewrite N.eqb_refl. cbn [andb]. apply rt_scan. exact H.
  Qed.

  Lemma rt_eval : forall s, Forall valid s -> py_str_literal_eval (quoted s) = ROk s.
  Proof.
    intros s H. unfold py_str_literal_eval.
    pose proof (rt_clean s H) as Hc.
    assert (Hbad : existsb bad_source_char (quoted s) = false).
    { apply not_true_is_false. intros Hex. apply existsb_exists in Hex. destruct Hex as (x & Hin & Hx).
      rewrite forallb_forall in Hc. specialize (Hc x Hin). unfold clean_char in Hc. rewrite Hx in Hc. discriminate. }
    rewrite Hbad.
    rewrite normalize_no_cr.
    2:{ apply forallb_forall. intros x Hin. rewrite forallb_forall in Hc. specialize (Hc x Hin).
        unfold clean_char in Hc. apply andb_true_iff in Hc. destruct Hc as [Hc _].
        apply andb_true_iff in Hc. destruct Hc as [_ Hc]. exact Hc. }
    unfold quoted. destruct q_props as (_ & _ & _ & Hq). rewrite Hq.
    rewrite rt_head by assumption. rewrite rt_body by assumption. reflexivity.
  Qed.
End Roundtrip.
(* ------------------------------------------------------------------ the escape shapes *)
Lemma hexchar_plain : forall q x, q = 34 \/ q = 39 -> is_hexchar x = true -> plain q x = true.
Proof.
  intros q x Hq H. unfold is_hexchar in H. unfold plain.
  apply orb_true_iff in H. apply andb_true_iff.
  destruct H as [H|H]; apply andb_true_iff in H; destruct H as [H1 H2];
    apply N.leb_le in H1; apply N.leb_le in H2;
    split; apply negb_true_iff; apply N.eqb_neq; destruct Hq; subst; lia.
Qed.

Lemma hexchar_clean : forall x, is_hexchar x = true -> clean_char x = true.
Proof.
  intros x H. unfold is_hexchar in H. unfold clean_char, bad_source_char, is_surrogate.
  apply orb_true_iff in H.
  assert (48 <= x <= 102) as Hr.
  { destruct H as [H|H]; apply andb_true_iff in H; destruct H as [H1 H2];
      apply N.leb_le in H1; apply N.leb_le in H2; lia. }
  replace (x =? 0) with false by (symmetry; apply N.eqb_neq; lia).
  replace (55296 <=? x) with false by (symmetry; apply N.leb_gt; lia).
  replace (1114112 <=? x) with false by (symmetry; apply N.leb_gt; lia).
  replace (x =? 13) with false by (symmetry; apply N.eqb_neq; lia).
  replace (x =? 10) with false by (symmetry; apply N.eqb_neq; lia).
  reflexivity.
Qed.

Lemma forallb_impl : forall (A : Type) (f g : A -> bool) l,
  (forall x, f x = true -> g x = true) -> forallb f l = true -> forallb g l = true.
Proof.
  intros A f g l H Hl. rewrite forallb_forall in *. intros x Hx. apply H. apply Hl. exact Hx.
Qed.

Lemma hex_escape_digits : forall k c limit K,
  c < 16 ^ N.of_nat k -> c < limit ->
  hex_escape (hex_digits k c) limit K = push c K.
Proof.
  intros k c limit K H1 H2. unfold hex_escape. rewrite hex_num_digits.
  rewrite N.mul_0_l, N.add_0_l, N.mod_small by exact H1.
  apply N.ltb_lt in H2. rewrite H2. reflexivity.
Qed.

Section Shapes.
  Variable q : N.
  Hypothesis q_quote : q = 34 \/ q = 39.

  Lemma body_hex2 : forall c rest, c < 256 ->
    body q false (92 :: 120 :: hex_digits 2 c ++ rest) = push c (body q false rest).
  Proof.
    intros c rest Hc.
    assert (E : exists a b, hex_digits 2 c = [a; b]) by (cbn; eauto).
    destruct E as (a & b & E).
    rewrite <- (hex_escape_digits 2 c 256 (body q false rest)) by (cbn; lia).
    rewrite E. destruct q_quote; subst q; reflexivity.
  Qed.

  Lemma body_hex4 : forall c rest, c < 65536 ->
    body q false (92 :: 117 :: hex_digits 4 c ++ rest) = push c (body q false rest).
  Proof.
    intros c rest Hc.
    assert (E : exists a1 a2 a3 a4, hex_digits 4 c = [a1; a2; a3; a4]) by (cbn; eauto 6).
    destruct E as (a1 & a2 & a3 & a4 & E).
    rewrite <- (hex_escape_digits 4 c 65536 (body q false rest)) by (cbn; lia).
    rewrite E. destruct q_quote; subst q; reflexivity.
  Qed.

  Lemma body_hex8 : forall c rest, c < 1114112 ->
    body q false (92 :: 85 :: hex_digits 8 c ++ rest) = push c (body q false rest).
  Proof.
    intros c rest Hc.
    assert (E : exists a1 a2 a3 a4 a5 a6 a7 a8, hex_digits 8 c = [a1; a2; a3; a4; a5; a6; a7; a8])
      by (cbn; eauto 10).
    destruct E as (a1 & a2 & a3 & a4 & a5 & a6 & a7 & a8 & E).
    rewrite <- (hex_escape_digits 8 c 1114112 (body q false rest)) by (cbn; lia).
    rewrite E. destruct q_quote; subst q; reflexivity.
  Qed.

  Lemma scan_hex : forall e k c rest, e <> 10 ->
    scan_simple q (92 :: e :: hex_digits k c ++ rest) = scan_simple q rest.
  Proof.
    intros e k c rest He. rewrite scan_escape; [| destruct q_quote; subst; discriminate | exact He].
    apply scan_plain. eapply forallb_impl; [| apply hex_digits_chars].
    intros x Hx. apply hexchar_plain; assumption.
  Qed.

  Lemma clean_hex : forall e k c, clean_char e = true -> forallb clean_char (92 :: e :: hex_digits k c) = true.
  Proof.
    intros e k c He. cbn [forallb]. rewrite He. cbn [andb].
    replace (clean_char 92) with true by reflexivity. cbn [andb].
    eapply forallb_impl; [| apply hex_digits_chars]. apply hexchar_clean.
  Qed.
End Shapes.
(* ------------------------------------------------------------------ repr() *)
Definition repr_valid (printable : N -> bool) (c : N) : Prop :=
  c < 1114112 /\ (printable c = true -> is_surrogate c = false).

Lemma clean_char_intro : forall x,
  x <> 0 -> is_surrogate x = false -> x < 1114112 -> x <> 13 -> x <> 10 -> clean_char x = true.
Proof.
  intros x H0 Hs Hr H13 H10. unfold clean_char, bad_source_char. rewrite Hs.
  apply N.eqb_neq in H0. apply N.eqb_neq in H13. apply N.eqb_neq in H10. rewrite H0, H13, H10.
  replace (1114112 <=? x) with false by (symmetry; apply N.leb_gt; exact Hr). reflexivity.
Qed.

Lemma not_surrogate_small : forall x, x < 55296 -> is_surrogate x = false.
Proof. intros x H. unfold is_surrogate. replace (55296 <=? x) with false by (symmetry; apply N.leb_gt; exact H). reflexivity. Qed.

Section ReprChar.
  Variable printable : N -> bool.
  Variable q : N.
  Hypothesis q_quote : q = 34 \/ q = 39.

  (* the shape of repr_char, with what is known in each branch *)
  Inductive shape (c : N) : text -> Prop :=
  | ShPair : (c = q \/ c = 92) -> shape c [92; c]
  | ShTab : c = 9 -> shape c [92; 116]
  | ShLf : c = 10 -> shape c [92; 110]
  | ShCr : c = 13 -> shape c [92; 114]
  | ShX : c < 256 -> shape c (92 :: 120 :: hex_digits 2 c)
  | ShU : c < 65536 -> shape c (92 :: 117 :: hex_digits 4 c)
  | ShUU : c < 1114112 -> shape c (92 :: 85 :: hex_digits 8 c)
  | ShSelf : c <> q -> c <> 92 -> c <> 10 -> c <> 13 -> c <> 0 -> is_surrogate c = false -> c < 1114112 -> shape c [c].

  Lemma repr_char_shape : forall c, repr_valid printable c -> shape c (repr_char printable q c).
  Proof.
    intros c [Hr Hp]. unfold repr_char.
    destruct ((c =? q) || (c =? 92)) eqn:E1.
    { apply ShPair. apply orb_true_iff in E1. destruct E1 as [E|E]; apply N.eqb_eq in E; auto. }
    apply orb_false_iff in E1. destruct E1 as [Eq Eb]. apply N.eqb_neq in Eq. apply N.eqb_neq in Eb.
    destruct (c =? 9) eqn:E2. { apply ShTab. apply N.eqb_eq. exact E2. }
    destruct (c =? 10) eqn:E3. { apply ShLf. apply N.eqb_eq. exact E3. }
    destruct (c =? 13) eqn:E4. { apply ShCr. apply N.eqb_eq. exact E4. }
    destruct ((c <? 32) || (c =? 127)) eqn:E5.
    { apply ShX. apply orb_true_iff in E5. destruct E5 as [E|E]; [apply N.ltb_lt in E | apply N.eqb_eq in E]; lia. }
    apply orb_false_iff in E5. destruct E5 as [E32 E127]. apply N.ltb_ge in E32. apply N.eqb_neq in E127.
    destruct (c <? 127) eqn:E6.
    { apply N.ltb_lt in E6. apply ShSelf; auto; try lia. apply not_surrogate_small. lia. }
    destruct (printable c) eqn:E7.
    { apply ShSelf; auto; lia. }
    destruct (c <? 256) eqn:E8. { apply ShX. apply N.ltb_lt. exact E8. }
    destruct (c <? 65536) eqn:E9. { apply ShU. apply N.ltb_lt. exact E9. }
    apply ShUU. exact Hr.
  Qed.

  Lemma shape_scan : forall c t rest, shape c t -> scan_simple q (t ++ rest) = scan_simple q rest.
  Proof.
    intros c t rest H.
    assert (Hq92 : q <> 92) by (destruct q_quote; lia).
    destruct H as [H|H|H|H|H|H|H|H1 H2 H3 H4 H5 H6 H7]; cbn [app].
    - apply scan_escape; [exact Hq92|]. destruct H as [H|H]; [destruct q_quote|]; subst; discriminate.
    - apply scan_escape; [exact Hq92 | discriminate].
    - apply scan_escape; [exact Hq92 | discriminate].
    - apply scan_escape; [exact Hq92 | discriminate].
    - apply scan_hex; [exact q_quote | discriminate].
    - apply scan_hex; [exact q_quote | discriminate].
    - apply scan_hex; [exact q_quote | discriminate].
    - apply (scan_plain q [c]). cbn [forallb]. unfold plain.
      apply N.eqb_neq in H1. apply N.eqb_neq in H2. rewrite H1, H2. reflexivity.
  Qed.

  Lemma shape_body : forall c t rest, shape c t -> body q false (t ++ rest) = push c (body q false rest).
  Proof.
    intros c t rest H.
    destruct H as [H|H|H|H|H|H|H|H1 H2 H3 H4 H5 H6 H7]; cbn [app].
    - destruct H as [H|H]; subst c; destruct q_quote; subst q; reflexivity.
    - subst c. destruct q_quote; subst q; reflexivity.
    - subst c. destruct q_quote; subst q; reflexivity.
    - subst c. destruct q_quote; subst q; reflexivity.
    - apply body_hex2; assumption.
    - apply body_hex4; assumption.
    - apply body_hex8; assumption.
    - apply body_plain; assumption.
  Qed.

  Lemma shape_clean : forall c t, shape c t -> forallb clean_char t = true.
  Proof.
    intros c t H.
    destruct H as [H|H|H|H|H|H|H|H1 H2 H3 H4 H5 H6 H7].
    - destruct H as [H|H]; subst c; [destruct q_quote; subst q|]; reflexivity.
    - reflexivity.
    - reflexivity.
    - reflexivity.
    - apply clean_hex. reflexivity.
    - apply clean_hex. reflexivity.
    - apply clean_hex. reflexivity.
    - cbn [forallb]. rewrite clean_char_intro; auto.
  Qed.

  Lemma shape_head : forall c t, shape c t -> exists x tl, t = x :: tl /\ x <> q.
  Proof.
    intros c t H.
    assert (Hq92 : 92 <> q) by (destruct q_quote; lia).
    destruct H as [H|H|H|H|H|H|H|H1 H2 H3 H4 H5 H6 H7]; eauto.
  Qed.
End ReprChar.

Lemma repr_quote_is_quote : forall s, repr_quote s = 34 \/ repr_quote s = 39.
Proof. intros s. unfold repr_quote. destruct (_ && _); auto. Qed.

Theorem repr_is_quoted : forall printable s, Forall (repr_valid printable) s ->
  simple_rec (repr_quote s) (py_repr printable s) = true.
Proof.
  intros printable s H. unfold py_repr.
  apply (rt_is_simple (repr_quote s) (repr_char printable (repr_quote s)) (repr_valid printable)); auto.
  intros c rest Hc. apply shape_scan with (c := c); [apply repr_quote_is_quote | apply repr_char_shape; auto using repr_quote_is_quote].
Qed.

Theorem repr_eval : forall printable s, Forall (repr_valid printable) s ->
  py_str_literal_eval (py_repr printable s) = ROk s.
Proof.
  intros printable s H. unfold py_repr.
  pose proof (repr_quote_is_quote s) as Hq.
  apply (rt_eval (repr_quote s) (repr_char printable (repr_quote s)) (repr_valid printable)); auto.
  - intros c rest Hc. apply shape_scan with (c := c); auto using repr_char_shape.
  - intros c rest Hc. apply shape_body; auto using repr_char_shape.
  - intros c Hc. apply shape_clean with (q := repr_quote s) (c := c); auto using repr_char_shape.
  - intros c Hc. apply shape_head with (c := c); auto using repr_char_shape.
Qed.

(* ------------------------------------------------------------------ the double-quote quoting functions *)
Lemma raw_ok_facts : forall c, raw_ok c = true -> c <> 13 /\ c <> 0 /\ is_surrogate c = false /\ c < 1114112.
Proof.
  intros c H. unfold raw_ok, bad_source_char in H.
  apply andb_true_iff in H. destruct H as [H13 Hb].
  apply negb_true_iff in H13. apply N.eqb_neq in H13.
  apply negb_true_iff in Hb. apply orb_false_iff in Hb. destruct Hb as [Hb Hr].
  apply orb_false_iff in Hb. destruct Hb as [H0 Hs].
  apply N.eqb_neq in H0. apply N.leb_gt in Hr. auto.
Qed.

Lemma dq_char_shape : forall c, raw_ok c = true -> shape 34 c (dq_char c).
Proof.
  intros c H. destruct (raw_ok_facts c H) as (H13 & H0 & Hs & Hr). unfold dq_char.
  destruct (c =? 92) eqn:E1. { apply N.eqb_eq in E1. subst c. apply ShPair. auto. }
  destruct (c =? 34) eqn:E2. { apply N.eqb_eq in E2. subst c. apply ShPair. auto. }
  destruct (c =? 10) eqn:E3. { apply N.eqb_eq in E3. apply ShLf. exact E3. }
  apply N.eqb_neq in E1. apply N.eqb_neq in E2. apply N.eqb_neq in E3. apply ShSelf; auto.
Qed.

Lemma dq_char_full_shape : forall c, c < 1114112 -> shape 34 c (dq_char_full c).
Proof.
  intros c Hr. unfold dq_char_full.
  destruct (c =? 92) eqn:E1. { apply N.eqb_eq in E1. subst c. apply ShPair. auto. }
  destruct (c =? 34) eqn:E2. { apply N.eqb_eq in E2. subst c. apply ShPair. auto. }
  destruct (c =? 10) eqn:E3. { apply N.eqb_eq in E3. apply ShLf. exact E3. }
  destruct (c =? 13) eqn:E4. { apply N.eqb_eq in E4. apply ShCr. exact E4. }
  destruct (c =? 0) eqn:E5. { apply N.eqb_eq in E5. apply ShX. lia. }
  destruct (is_surrogate c) eqn:E6.
  { apply ShU. unfold is_surrogate in E6. apply andb_true_iff in E6. destruct E6 as [_ E6]. apply N.leb_le in E6. lia. }
  apply N.eqb_neq in E1. apply N.eqb_neq in E2. apply N.eqb_neq in E3. apply N.eqb_neq in E4. apply N.eqb_neq in E5.
  apply ShSelf; auto.
Qed.

Section DQ.
  Variable esc : N -> text.
  Variable valid : N -> Prop.
  Hypothesis esc_shape : forall c, valid c -> shape 34 c (esc c).
  Let Q : 34 = 34 \/ 34 = 39 := or_introl eq_refl.

  Lemma dq_is_quoted : forall s, Forall valid s -> simple_rec 34 (34 :: flat_map esc s ++ [34]) = true.
  Proof.
    intros s H. apply (rt_is_simple 34 esc valid); auto.
    intros c rest Hc. apply shape_scan with (c := c); auto.
  Qed.

  Lemma dq_eval : forall s, Forall valid s -> py_str_literal_eval (34 :: flat_map esc s ++ [34]) = ROk s.
  Proof.
    intros s H. apply (rt_eval 34 esc valid); auto.
    - intros c rest Hc. apply shape_scan with (c := c); auto.
    - intros c rest Hc. apply shape_body; auto.
    - intros c Hc. apply shape_clean with (q := 34) (c := c); auto.
    - intros c Hc. apply shape_head with (c := c); auto.
  Qed.
End DQ.

(* ------------------------------------------------------------------ unquote_str on what the quoting functions emit *)
Lemma is_quoted_simple : forall q x triple, q = 34 \/ q = 39 -> simple_rec q x = true -> is_quoted x triple = true.
Proof.
  intros q x triple Hq H. unfold is_quoted. rewrite quoted_regex_is_recogniser.
  destruct Hq; subst q; rewrite H; rewrite ?orb_true_r; reflexivity.
Qed.

Theorem unquote_repr : forall printable s triple,
  Forall (repr_valid printable) s -> unquote_str (py_repr printable s) triple = UOk s.
Proof.
  intros printable s triple H. unfold unquote_str.
  rewrite (is_quoted_simple (repr_quote s)); auto using repr_quote_is_quote, repr_is_quoted.
  rewrite repr_eval by assumption. reflexivity.
Qed.

Theorem unquote_dq : forall s triple,
  Forall (fun c => raw_ok c = true) s -> unquote_str (dq_quote s) triple = UOk s.
Proof.
  intros s triple H. unfold unquote_str, dq_quote.
  rewrite (is_quoted_simple 34); auto.
  - rewrite (dq_eval dq_char (fun c => raw_ok c = true)); auto using dq_char_shape.
  - apply (dq_is_quoted dq_char (fun c => raw_ok c = true)); auto using dq_char_shape.
Qed.

Theorem unquote_dq_full : forall s triple,
  Forall (fun c => c < 1114112) s -> unquote_str (dq_quote_full s) triple = UOk s.
Proof.
  intros s triple H. unfold unquote_str, dq_quote_full.
  rewrite (is_quoted_simple 34); auto.
  - rewrite (dq_eval dq_char_full (fun c => c < 1114112)); auto using dq_char_full_shape.
  - apply (dq_is_quoted dq_char_full (fun c => c < 1114112)); auto using dq_char_full_shape.
Qed.
(* ------------------------------------------------------------------ which accepted texts are string literals *)
Definition is_hex (c : N) : bool := match hex_val c with Some _ => true | None => false end.

(* the text after the opening quote: no raw LF before the closing quote, every \x \u \U has its
   hexadecimal digits (and \U a value below 0x110000), no \N *)
Fixpoint lit_ok (q : N) (s : text) : bool :=
  match s with
  | [] => false
  | c :: r =>
    if c =? q then true
    else if c =? 10 then false
    else if c =? 92 then
      match r with
      | [] => false
      | d :: r1 =>
        if d =? 120 then
          match r1 with
          | h1 :: h2 :: r' => is_hex h1 && is_hex h2 && lit_ok q r'
          | _ => false
          end
        else if d =? 117 then
          match r1 with
          | h1 :: h2 :: h3 :: h4 :: r' => forallb is_hex [h1; h2; h3; h4] && lit_ok q r'
          | _ => false
          end
        else if d =? 85 then
          match r1 with
          | h1 :: h2 :: h3 :: h4 :: h5 :: h6 :: h7 :: h8 :: r' =>
              match hex_num [h1; h2; h3; h4; h5; h6; h7; h8] 0 with
              | Some v => (v <? 1114112) && lit_ok q r'
              | None => false
              end
          | _ => false
          end
        else if d =? 78 then false
        else lit_ok q r1
      end
    else lit_ok q r
  end.

Definition okres (l : lit) : Prop := exists t rest, l = LOk t rest /\ blank_tail rest = true.

Lemma okres_push : forall c l, okres l <-> okres (push c l).
Proof.
  intros c l. split.
  - intros (t & rest & -> & H). exists (c :: t), rest. auto.
  - destruct l as [t rest| |]; cbn [push]; intros (t' & rest' & E & H); try discriminate.
    inversion E; subst. exists t, rest'. auto.
Qed.

Lemma hex_val_lt : forall c d, hex_val c = Some d -> d < 16.
Proof.
  intros c d H. unfold hex_val in H.
  destruct ((48 <=? c) && (c <=? 57)) eqn:E1.
  { inversion H; subst. apply andb_true_iff in E1. destruct E1 as [A B]. apply N.leb_le in A, B. lia. }
  destruct ((97 <=? c) && (c <=? 102)) eqn:E2.
  { inversion H; subst. apply andb_true_iff in E2. destruct E2 as [A B]. apply N.leb_le in A, B. lia. }
  destruct ((65 <=? c) && (c <=? 70)) eqn:E3; [|discriminate].
  inversion H; subst. apply andb_true_iff in E3. destruct E3 as [A B]. apply N.leb_le in A, B. lia.
Qed.

Lemma hex_num_all_hex : forall l acc, forallb is_hex l = true ->
  exists v, hex_num l acc = Some v /\ v < (acc + 1) * 16 ^ N.of_nat (length l).
Proof.
  induction l as [|c l IH]; intros acc H.
  - exists acc. split; [reflexivity|]. cbn. lia.
  - cbn [forallb] in H. apply andb_true_iff in H. destruct H as [Hc Hl].
    unfold is_hex in Hc. cbn [hex_num]. destruct (hex_val c) as [d|] eqn:E; [|discriminate].
    apply hex_val_lt in E. destruct (IH (16 * acc + d) Hl) as (v & Hv & Hlt). exists v. split; [exact Hv|].
    cbn [length]. rewrite Nat2N.inj_succ, N.pow_succ_r'.
    assert (16 * acc + d + 1 <= 16 * (acc + 1)) by lia. nia.
Qed.

Lemma hex_num_not_hex : forall l acc, forallb is_hex l = false -> hex_num l acc = None.
Proof.
  induction l as [|c l IH]; intros acc H; [discriminate|].
  cbn [forallb] in H. cbn [hex_num]. unfold is_hex in H.
  destruct (hex_val c); [|reflexivity]. cbn [andb] in H. apply IH. exact H.
Qed.

Lemma is_hex_plain : forall q c, q = 34 \/ q = 39 -> is_hex c = true -> plain q c = true.
Proof.
  intros q c Hq H. unfold is_hex in H. destruct (hex_val c) as [d|] eqn:E; [|discriminate].
  unfold hex_val in E. unfold plain.
  assert (c <> q /\ c <> 92) as [A B].
  { destruct ((48 <=? c) && (c <=? 57)) eqn:E1.
    { apply andb_true_iff in E1. destruct E1 as [X Y]. apply N.leb_le in X, Y. destruct Hq; subst; lia. }
    destruct ((97 <=? c) && (c <=? 102)) eqn:E2.
    { apply andb_true_iff in E2. destruct E2 as [X Y]. apply N.leb_le in X, Y. destruct Hq; subst; lia. }
    destruct ((65 <=? c) && (c <=? 70)) eqn:E3; [|discriminate].
    apply andb_true_iff in E3. destruct E3 as [X Y]. apply N.leb_le in X, Y. destruct Hq; subst; lia. }
  apply N.eqb_neq in A, B. rewrite A, B. reflexivity.
Qed.

Lemma scan_plain_cons : forall q c r, plain q c = true -> scan_simple q (c :: r) = scan_simple q r.
Proof. intros q c r H. apply (scan_plain q [c] r). cbn. rewrite H. reflexivity. Qed.

Lemma lit_ok_plain_cons : forall q c r, plain q c = true -> c <> 10 -> lit_ok q (c :: r) = lit_ok q r.
Proof.
  intros q c r H H10. unfold plain in H. apply andb_true_iff in H. destruct H as [A B].
  apply negb_true_iff in A, B. apply N.eqb_neq in H10. cbn [lit_ok]. rewrite A, H10, B. reflexivity.
Qed.

Lemma oct_plain : forall q c, q = 34 \/ q = 39 -> is_oct c = true -> plain q c = true /\ c <> 10.
Proof.
  intros q c Hq H. unfold is_oct in H. apply andb_true_iff in H. destruct H as [X Y]. apply N.leb_le in X, Y.
  unfold plain. split; [|lia].
  replace (c =? q) with false by (symmetry; apply N.eqb_neq; destruct Hq; subst; lia).
  replace (c =? 92) with false by (symmetry; apply N.eqb_neq; lia). reflexivity.
Qed.
Lemma okres_hex_escape : forall ds limit K,
  okres (hex_escape ds limit K) <->
  (exists v, hex_num ds 0 = Some v /\ v <? limit = true) /\ okres K.
Proof.
  intros ds limit K. unfold hex_escape. destruct (hex_num ds 0) as [v|].
  - destruct (v <? limit) eqn:E.
    + rewrite <- okres_push. split; [intros H; split; eauto | intros [_ H]; exact H].
    + split; [intros (t & r & X & _); discriminate | intros [(v' & X & Y) _]; inversion X; subst; congruence].
  - split; [intros (t & r & X & _); discriminate | intros [(v' & X & Y) _]; discriminate].
Qed.

Lemma not_okres_err : ~ okres LErr.
Proof. intros (t & r & X & _). discriminate. Qed.
Lemma not_okres_unsup : ~ okres LUnsup.
Proof. intros (t & r & X & _). discriminate. Qed.

Section Accepted.
  Variable q : N.
  Hypothesis q_quote : q = 34 \/ q = 39.

  Lemma body_of_accepted : forall n s, (length s <= n)%nat -> scan_simple q s = true ->
    (okres (body q false s) <-> lit_ok q s = true).
  Proof.
    assert (Hq92 : q <> 92) by (destruct q_quote; lia).
    assert (Hq10 : q <> 10) by (destruct q_quote; lia).
    induction n as [|n IH]; intros s Hn Hs.
    { destruct s; [discriminate | cbn in Hn; lia]. }
    destruct s as [|c r]; [discriminate|].
    cbn [scan_simple] in Hs. cbn [body lit_ok].
    destruct (c =? q) eqn:Eq.
    { (* closing quote *)
      split; [reflexivity|]. intros _.
      destruct r as [|x [|y r']]; try discriminate.
      - exists [], []. auto.
      - apply N.eqb_eq in Hs. subst x. exists [], [10]. auto. }
    destruct (c =? 10) eqn:E10.
    { split; [intros H; destruct (not_okres_err H) | discriminate]. }
    destruct (c =? 92) eqn:Eb.
    2:{ rewrite <- okres_push. apply IH; [cbn in Hn; lia | exact Hs]. }
    destruct r as [|d r1]; [discriminate|].
    destruct (d =? 10) eqn:Ed10; [discriminate|].
    assert (Hl1 : (length r1 <= n)%nat) by (cbn in Hn; lia).
    match goal with |- _ <-> ?g = true => set (G := g) end.
    assert (Hsimple : forall v, d <> 120 -> d <> 117 -> d <> 85 -> d <> 78 ->
              (okres (push v (body q false r1)) <-> G = true)).
    { intros v H1 H2 H3 H4. rewrite <- okres_push. subst G.
      apply N.eqb_neq in H1, H2, H3, H4. rewrite H1, H2, H3, H4. apply IH; assumption. }
    destruct ((d =? 92) || (d =? 39) || (d =? 34)) eqn:E1.
    { apply Hsimple; intros ->; discriminate. }
    destruct (d =? 97) eqn:E2. { apply N.eqb_eq in E2. subst d. apply Hsimple; discriminate. }
    destruct (d =? 98) eqn:E3. { apply N.eqb_eq in E3. subst d. apply Hsimple; discriminate. }
    destruct (d =? 102) eqn:E4. { apply N.eqb_eq in E4. subst d. apply Hsimple; discriminate. }
    destruct (d =? 110) eqn:E5. { apply N.eqb_eq in E5. subst d. apply Hsimple; discriminate. }
    destruct (d =? 114) eqn:E6. { apply N.eqb_eq in E6. subst d. apply Hsimple; discriminate. }
    destruct (d =? 116) eqn:E7. { apply N.eqb_eq in E7. subst d. apply Hsimple; discriminate. }
    destruct (d =? 118) eqn:E8. { apply N.eqb_eq in E8. subst d. apply Hsimple; discriminate. }
    destruct (is_oct d) eqn:Eo.
    { (* octal: 1 to 3 digits; the digits are harmless for both scanners *)
      assert (Hd : 48 <= d <= 55).
      { unfold is_oct in Eo. apply andb_true_iff in Eo. destruct Eo as [X Y]. apply N.leb_le in X, Y. lia. }
      assert (HG : G = lit_ok q r1).
      { subst G. replace (d =? 120) with false by (symmetry; apply N.eqb_neq; lia).
        replace (d =? 117) with false by (symmetry; apply N.eqb_neq; lia).
        replace (d =? 85) with false by (symmetry; apply N.eqb_neq; lia).
        replace (d =? 78) with false by (symmetry; apply N.eqb_neq; lia). reflexivity. }
      rewrite HG. clear HG.
      destruct r1 as [|d2 r2]; [rewrite <- okres_push; apply IH; assumption|].
      destruct (is_oct d2) eqn:Eo2; [|rewrite <- okres_push; apply IH; assumption].
      destruct (oct_plain q d2 q_quote Eo2) as [P2 N2].
      rewrite (lit_ok_plain_cons q d2 r2 P2 N2). rewrite (scan_plain_cons q d2 r2 P2) in Hs.
      assert (Hl2 : (length r2 <= n)%nat) by (cbn in Hl1; lia).
      destruct r2 as [|d3 r3]; [rewrite <- okres_push; apply IH; assumption|].
      destruct (is_oct d3) eqn:Eo3; [|rewrite <- okres_push; apply IH; assumption].
      destruct (oct_plain q d3 q_quote Eo3) as [P3 N3].
      rewrite (lit_ok_plain_cons q d3 r3 P3 N3). rewrite (scan_plain_cons q d3 r3 P3) in Hs.
      rewrite <- okres_push. apply IH; [cbn in Hl2; lia | assumption]. }
    destruct (d =? 120) eqn:Ex.
    { subst G. destruct r1 as [|h1 [|h2 r']]; try (split; [intros H; destruct (not_okres_err H) | discriminate]).
      rewrite okres_hex_escape.
      destruct (is_hex h1 && is_hex h2) eqn:Eh.
      - apply andb_true_iff in Eh. destruct Eh as [A B].
        rewrite (scan_plain_cons q h1 _ (is_hex_plain q h1 q_quote A)) in Hs.
        rewrite (scan_plain_cons q h2 _ (is_hex_plain q h2 q_quote B)) in Hs.
        cbn [andb]. rewrite <- (IH r'); [| cbn in Hl1; lia | exact Hs].
        split; [intros [_ H]; exact H | intros H; split; [|exact H]].
        destruct (hex_num_all_hex [h1; h2] 0) as (v & Hv & Hlt); [cbn [forallb]; rewrite A, B; reflexivity|].
        exists v. split; [exact Hv | apply N.ltb_lt; cbn in Hlt; lia].
      - cbn [andb]. split; [|discriminate]. intros [(v & Hv & _) _].
        rewrite hex_num_not_hex in Hv; [discriminate|]. cbn [forallb]. rewrite andb_true_r. exact Eh. }
    destruct (d =? 117) eqn:Eu.
    { subst G. destruct r1 as [|h1 [|h2 [|h3 [|h4 r']]]]; try (split; [intros H; destruct (not_okres_err H) | discriminate]).
      rewrite okres_hex_escape.
      destruct (forallb is_hex [h1; h2; h3; h4]) eqn:Eh.
      - pose proof Eh as Eh'. cbn [forallb] in Eh'.
        apply andb_true_iff in Eh'. destruct Eh' as [A Eh'].
        apply andb_true_iff in Eh'. destruct Eh' as [B Eh'].
        apply andb_true_iff in Eh'. destruct Eh' as [C Eh'].
        apply andb_true_iff in Eh'. destruct Eh' as [D _].
        rewrite (scan_plain_cons q h1 _ (is_hex_plain q h1 q_quote A)) in Hs.
        rewrite (scan_plain_cons q h2 _ (is_hex_plain q h2 q_quote B)) in Hs.
        rewrite (scan_plain_cons q h3 _ (is_hex_plain q h3 q_quote C)) in Hs.
        rewrite (scan_plain_cons q h4 _ (is_hex_plain q h4 q_quote D)) in Hs.
        cbn [andb]. rewrite <- (IH r'); [| cbn in Hl1; lia | exact Hs].
        split; [intros [_ H]; exact H | intros H; split; [|exact H]].
        destruct (hex_num_all_hex [h1; h2; h3; h4] 0 Eh) as (v & Hv & Hlt).
        exists v. split; [exact Hv | apply N.ltb_lt; cbn in Hlt; lia].
      - cbn [andb]. split; [|discriminate]. intros [(v & Hv & _) _].
        rewrite hex_num_not_hex in Hv; [discriminate | exact Eh]. }
    destruct (d =? 85) eqn:EU.
    { subst G.
      destruct r1 as [|h1 [|h2 [|h3 [|h4 [|h5 [|h6 [|h7 [|h8 r']]]]]]]];
        try (split; [intros H; destruct (not_okres_err H) | discriminate]).
      rewrite okres_hex_escape.
      destruct (hex_num [h1; h2; h3; h4; h5; h6; h7; h8] 0) as [v|] eqn:Ev.
      2:{ split; [intros [(v' & X & _) _]; discriminate | discriminate]. }
      destruct (v <? 1114112) eqn:Elt.
      2:{ cbn [andb]. split; [intros [(v' & X & Y) _]; inversion X; subst; congruence | discriminate]. }
      cbn [andb].
      assert (Eh : forallb is_hex [h1; h2; h3; h4; h5; h6; h7; h8] = true).
      { destruct (forallb is_hex [h1; h2; h3; h4; h5; h6; h7; h8]) eqn:X; [reflexivity|].
        rewrite (hex_num_not_hex _ 0 X) in Ev. discriminate. }
      pose proof Eh as Eh'. cbn [forallb] in Eh'.
      repeat (let A := fresh "A" in apply andb_true_iff in Eh'; destruct Eh' as [A Eh']).
      repeat match goal with
             | [ A : is_hex ?h = true |- _ ] =>
               rewrite (scan_plain_cons q h _ (is_hex_plain q h q_quote A)) in Hs; clear A
             end.
      rewrite <- (IH r'); [| cbn in Hl1; lia | exact Hs].
      split; [intros [_ H]; exact H | intros H; split; [eauto | exact H]]. }
    destruct (d =? 78) eqn:EN.
    { subst G. split; [intros H; destruct (not_okres_unsup H) | discriminate]. }
    rewrite <- okres_push. apply Hsimple; apply N.eqb_neq; assumption.
  Qed.
End Accepted.

Lemma open_quote_of_accepted : forall q r, q <> 10 -> scan_simple q r = true -> open_quote q r = (false, r).
Proof.
  intros q r Hq H. unfold open_quote. destruct r as [|c2 [|c3 r2]]; try reflexivity.
  destruct (c2 =? q) eqn:E2; [|reflexivity]. destruct (c3 =? q) eqn:E3; [|reflexivity].
  exfalso. cbn [scan_simple] in H. rewrite E2 in H. destruct r2; [|discriminate].
  apply N.eqb_eq in E3, H. congruence.
Qed.

(* a text accepted in single- or double-quote form is a complete string literal exactly when lit_ok holds *)
Theorem accepted_is_literal_iff : forall q r,
  q = 34 \/ q = 39 -> simple_rec q (q :: r) = true ->
  existsb bad_source_char (q :: r) = false -> ~ In 13 (q :: r) ->
  ((exists t, unquote_str (q :: r) true = UOk t) <-> lit_ok q r = true).
Proof.
  intros q r Hq Hs Hbad Hcr.
  assert (Hscan : scan_simple q r = true).
  { unfold simple_rec in Hs. rewrite N.eqb_refl in Hs. exact Hs. }
  rewrite <- (body_of_accepted q Hq (length r) r (le_n _) Hscan).
  unfold unquote_str. rewrite (is_quoted_simple q _ true Hq Hs).
  unfold py_str_literal_eval. rewrite Hbad.
  rewrite normalize_no_cr.
  2:{ apply forallb_forall. intros x Hx. apply negb_true_iff. apply N.eqb_neq. intros E. subst x. auto. }
  replace (is_quote q) with true by (destruct Hq; subst q; reflexivity).
  rewrite open_quote_of_accepted by (destruct Hq; lia || exact Hscan).
  unfold okres. destruct (body q false r) as [t rest| |].
  - destruct (blank_tail rest) eqn:Eb.
    + split; [intros _; eauto | intros _; eauto].
    + split; [intros (t' & X); discriminate | intros (t' & rest' & X & Y); inversion X; subst; congruence].
  - split; [intros (t' & X); discriminate | intros (t' & rest' & X & Y); discriminate].
  - split; [intros (t' & X); discriminate | intros (t' & rest' & X & Y); discriminate].
Qed.
