(* Proofs/DelimIRProofs.v -- the interpretation of the body of _OperatorDelimiter.__init__ translated from the CURRENT
   pydoctor source (Gen/DelimCode.v, helpers inlined) is the hand-written decision Model/ExprPrint.needs_paren, for every
   operator and every parent situation.  Proved by running the interpreter symbolically; nothing here looks at the shape
   of the generated term. *)
From Coq Require Import ZArith NArith List Bool.
From PydoctorVerif Require Import Base.Sexp Base.PyExpr Gen.TablesC15 Model.Wrap Model.ExprPrint Model.DelimIR Gen.DelimCode.
Import ListNotations.
Local Open Scope N_scope.

(* an explicit precedence recorded for the node: the operator's precedence stays symbolic *)
Lemma init_explicit o c p :
  init_discard o (Some (PKOther c (Some p))) delim_init_code = Some (negb (needs_paren (POther (Some p)) o)).
Proof.
  destruct c; unfold init_discard, delim_init_code; cbn -[N.ltb prec];
    unfold needs_paren; cbn -[N.ltb prec]; destruct (N.ltb (prec o) p); reflexivity.
Qed.

Theorem init_is_model o sit :
  init_discard o sit delim_init_code = Some (negb (needs_paren (pctx_of sit) o)).
Proof.
  destruct sit as [[|u|b r|bo|c [p|]]|].
  - destruct o as [[]|[]|[]]; vm_compute; reflexivity.
  - destruct u; destruct o as [[]|[]|[]]; vm_compute; reflexivity.
  - destruct b; destruct r; destruct o as [[]|[]|[]]; vm_compute; reflexivity.
  - destruct bo; destruct o as [[]|[]|[]]; vm_compute; reflexivity.
  - apply init_explicit.
  - destruct c; destruct o as [[]|[]|[]]; vm_compute; reflexivity.
  - destruct o as [[]|[]|[]]; vm_compute; reflexivity.
Qed.

(* hence: what __exit__ tests (`not self.discard`) is the model's decision, in the printing context of the situation *)
Corollary init_parenthesises o sit :
  option_map negb (init_discard o sit delim_init_code) = Some (needs_paren (pctx_of sit) o).
Proof. rewrite init_is_model. cbn. rewrite negb_involutive. reflexivity. Qed.

(* the dispatch: the tree of output calls the model builds for a node is wrapped in the delimiter exactly for the node
   classes the code constructs an _OperatorDelimiter for -- and then with the decision proved above *)
Theorem dispatch_is_model pc e :
  is_delim (compile pc e) = code_delimited (nodecls_of e)
  /\ (forall u x, e = EUn u x -> exists c, compile pc e = CDelim (needs_paren pc (OU u)) c)
  /\ (forall b l r, e = EBin b l r -> exists c, compile pc e = CDelim (needs_paren pc (OB b)) c)
  /\ (forall o es, e = EBool o es -> exists c, compile pc e = CDelim (needs_paren pc (OO o)) c).
Proof.
  split; [|split; [|split]].
  - destruct e; try reflexivity.
    + destruct l as [c|g]; [destruct c|]; reflexivity.
    + cbn [compile]. destruct (dotted (EAttr e attr gen)); reflexivity.
  - intros u x ->. eexists. reflexivity.
  - intros b l r ->. eexists. reflexivity.
  - intros o es ->. eexists. reflexivity.
Qed.
