(* Proofs/RegistryMro.v -- C02_mro_shape as a corollary of C05 (Model/Mro.v, Proofs/MroProofs.v: mro_c3_gen):
   the hierarchy that compute_mro hands to mro.mro is read off the registry -- getbases(c) = localbases(c): the
   resolved base objects of c, and the expanded NAME of each base that is not resolved -- and every successful
   linearisation starts with the class and contains each resolved base exactly once. *)
From Coq Require Import ZArith NArith List Bool Lia.
From PydoctorVerif Require Import Base.Sexp Model.Registry Spec.RegistryInv Proofs.RegistryBase Proofs.RegistryProofs
     Proofs.RegistryDerived Spec.C3 Model.Mro Proofs.MroProofs.
Import ListNotations.
Local Open Scope N_scope.

Section Hier.
  (* the Mro model's name of object x, and of the k-th base of class c when it is not resolved (any naming of
     the unresolved bases: two classes may well share an unresolved base name) *)
  Variable cid : id -> cls.
  Variable ext : id -> nat -> cls.
  Hypothesis cid_inj : forall a b, cid a = cid b -> a = b.

  Notation localbases := (localbases cid ext).
  Notation hier_of := (hier_of cid ext).

  Lemma ids_below_in : forall n x, In x (ids_below n) <-> (N.to_nat x < n)%nat.
  Proof.
    induction n as [|n IH]; intros x; cbn; [split; [intros [] | lia]|].
    rewrite in_app_iff, IH. cbn. split.
    - intros [H|[H|[]]]; [lia | subst; rewrite Nat2N.id; lia].
    - intros H. destruct (Nat.eq_dec (N.to_nat x) n) as [E|E]; [right; left; subst; apply N2Nat.id | left; lia].
  Qed.
  Lemma ids_below_nodup : forall n, NoDup (ids_below n).
  Proof.
    induction n as [|n IH]; cbn; [constructor|]. apply NoDup_snoc; [exact IH|].
    intros H. apply ids_below_in in H. rewrite Nat2N.id in H. lia.
  Qed.

  Lemma localbases_in : forall c bs k b, In (Some b) bs -> In (cid b) (localbases c k bs).
  Proof.
    intros c. induction bs as [|[x|] t IH]; intros k b H; cbn; [destruct H| |].
    - destruct H as [H|H]; [inversion H; left; reflexivity | right; apply IH; exact H].
    - destruct H as [H|H]; [discriminate | right; apply IH; exact H].
  Qed.

  Lemma assoc_map_nodup : forall (f : id -> list cls) (l : list id) c, NoDup l -> In c l ->
      assoc (cid c) (map (fun x => (cid x, f x)) l) = Some (f c).
  Proof.
    intros f. induction l as [|x l IH]; intros c Hnd Hin; [destruct Hin|]. cbn.
    inversion Hnd as [|? ? Hx Hnd']; subst. destruct (N.eqb (cid x) (cid c)) eqn:E.
    - apply N.eqb_eq in E. apply cid_inj in E. subst. reflexivity.
    - destruct Hin as [->|Hin]; [rewrite N.eqb_refl in E; discriminate | apply IH; assumption].
  Qed.

  Lemma getbases_hier_of : forall s c, Inv s -> reg s c -> ocl (store s c) = CClass ->
      getbases (hier_of s) (cid c) = localbases c 0 (obases (store s c)).
  Proof.
    intros s c HI Hc Hcl. unfold getbases, hier_of.
    rewrite (assoc_map_nodup (fun x => localbases x 0 (obases (store s x)))); [reflexivity| |].
    - apply NoDup_filter. apply ids_below_nodup.
    - apply filter_In. split; [|rewrite Hcl; reflexivity]. apply ids_below_in.
      assert (L := reg_lt s HI c Hc). lia.
  Qed.

  (* the shape of a linearisation *)
  Theorem mro_shape : forall s rank n c r, Inv s -> reg s c -> ocl (store s c) = CClass ->
      acyclic (hier_of s) rank -> mro n (hier_of s) (cid c) = MOk r ->
      hd_error r = Some (cid c) /\ NoDup r /\
      forall b, In (Some b) (obases (store s c)) -> count_occ N.eq_dec r (cid b) = 1%nat.
  Proof.
    intros s rank n c r HI Hc Hcl Hacy Hm.
    destruct (mro_c3_gen (hier_of s) rank Hacy n (cid c) r Hm) as [f [_ [r' [-> [Hnd [_ [Hsub _]]]]]]].
    split; [reflexivity|]. split; [exact Hnd|]. intros b Hb.
    apply (proj1 (NoDup_count_occ' N.eq_dec (cid c :: r')) Hnd). right.
    apply (subseq_in _ _ Hsub). rewrite (getbases_hier_of s c HI Hc Hcl). apply localbases_in. exact Hb.
  Qed.
End Hier.
