(* Proofs/NamesRunProofs.v -- C04, part 3 (Layer B, whole runs): pydoctor establishes the coherence invariants of
   Layer A for every well-formed project -- imports of every form, definitions, nested classes, ALIAS ASSIGNMENTS and
   BASE EXPRESSIONS -- under every processing order, provided no expansion performed during the run left the guard
   (ghost flag `leak` of Model/Names.v).  Ingredients: a per-object invariant (good3), registry monotonicity (mono),
   "a namespace whose body has been visited completely knows every name Python binds in it" (I_closed, established
   statement by statement through `est`), soundness of the expansions done at visit time (run_expand_sound, via
   Layer A and the class -> ... -> module landing chain), Class.find through closed classes (find_sound). *)
From Coq Require Import NArith List Bool Arith Lia.
From PydoctorVerif Require Import Base.ImportSyntax Model.Names Spec.PyImport Proofs.NamesProofs Proofs.NamesInvProofs.
Import ListNotations.


Section Inv3.
  Variable P : project.
  Hypothesis WF : wf_project P.

  (* the full name of a scope evaluates to the scope (existence; abs_scope_inv is uniqueness) *)
  Lemma abs_scope_intro : forall qual m body,
    scope_body P m qual = Some body -> py_abs P (m ++ qual) (scope_val m qual).
  Proof.
    induction qual as [|c qual IH] using rev_ind; intros m body Hsb.
    - rewrite app_nil_r. cbn.
      pose proof (scope_body_module P _ _ _ Hsb) as Hm. apply (is_module_find P) in Hm. destruct Hm as [mm Hf].
      eapply py_abs_module; eassumption.
    - destruct (scope_body_snoc P _ _ _ _ Hsb) as [body' [base [Hsb' Hb]]].
      rewrite app_assoc. rewrite scope_val_snoc.
      eapply py_abs_snoc; [eapply IH; eassumption|].
      assert (Hns : py_ns P m qual c (VObj m (qual ++ [c]))).
      { eapply ns_bind; try eassumption. constructor. }
      destruct qual as [|q0 qual]; cbn [scope_val].
      + constructor. exact Hns.
      + apply pa_own; [discriminate | exact Hns].
  Qed.

  (* ---------------------------------------------------------------- invariant *)
  Definition base_ok (o : obj) (m qual : path) : Prop :=
    (o_kind o = KClass -> o_rawbase o = class_base P m qual) /\
    (forall bid bexpr m' q', o_baseobj o = Some bid -> class_base P m qual = Some bexpr ->
        py_eval P m (removelast qual) bexpr (VObj m' q') -> bid = m' ++ q').

  Definition good3 (o : obj) : Prop :=
    o_path o = o_id o /\
    exists m qual, reg_ok P o m qual /\ o_mod o = m /\
      (forall n q, assoc n (o_amap o) = Some q -> entry_ok P m qual n q) /\ base_ok o m qual.

  Record Inv3 (st : state) : Prop := {
    I_good : forall o, In o (objs st) -> good3 o;
    I_mods : forall mm, In mm P -> exists o, In o (objs st) /\ o_id o = m_path mm;
    I_nodup : NoDup (map o_path (objs st));
    I_base : forall c bid, In c (objs st) -> o_baseobj c = Some bid ->
               exists bo, In bo (objs st) /\ o_id bo = bid /\ o_kind bo = KClass;
    (* a namespace whose body has been visited completely knows every name Python binds in it *)
    I_closed : forall o m qual n v, In o (objs st) -> is_processed (o_state o) = true -> reg_ok P o m qual ->
                 py_ns P m qual n v -> own st o n = true
  }.

  Lemma nodup_path_eq : forall st o1 o2, NoDup (map o_path (objs st)) ->
    In o1 (objs st) -> In o2 (objs st) -> o_path o1 = o_path o2 -> o1 = o2.
  Proof.
    intros st o1 o2. generalize (objs st). induction l as [|x l IH]; intros Hnd H1 H2 He; [destruct H1|].
    cbn in Hnd. inversion Hnd as [|y l' Hni Hnd']; subst.
    destruct H1 as [H1|H1]; destruct H2 as [H2|H2]; subst.
    - reflexivity.
    - exfalso. apply Hni. rewrite He. apply in_map. exact H2.
    - exfalso. apply Hni. rewrite <- He. apply in_map. exact H1.
    - apply IH; assumption.
  Qed.

  Lemma obj_for_in : forall st o, NoDup (map o_path (objs st)) -> In o (objs st) -> obj_for st (o_path o) = Some o.
  Proof.
    intros st o Hnd Hin. unfold obj_for.
    destruct (find (fun o0 => path_eqb (o_path o0) (o_path o)) (objs st)) as [o'|] eqn:E.
    - apply find_some in E. destruct E as [Hin' He]. apply path_eqb_eq in He.
      f_equal. eapply nodup_path_eq; eassumption.
    - exfalso. pose proof (find_none _ _ E o Hin) as Hn. cbn in Hn. rewrite path_eqb_refl in Hn. discriminate.
  Qed.

  Lemma by_id_in : forall st o, Inv3 st -> In o (objs st) -> by_id st (o_id o) = Some o.
  Proof.
    intros st o HI Hin. unfold by_id.
    destruct (find (fun o0 => path_eqb (o_id o0) (o_id o)) (objs st)) as [o'|] eqn:E.
    - apply find_some in E. destruct E as [Hin' He]. apply path_eqb_eq in He.
      f_equal. eapply nodup_path_eq; try eassumption; [apply (I_nodup _ HI)|].
      rewrite (proj1 (I_good _ HI _ Hin')), (proj1 (I_good _ HI _ Hin)). exact He.
    - exfalso. pose proof (find_none _ _ E o Hin) as Hn. cbn in Hn. rewrite path_eqb_refl in Hn. discriminate.
  Qed.

  (* the scope a registered object stands for is unique *)
  Lemma reg_ok_fun : forall o m1 q1 m2 q2, reg_ok P o m1 q1 -> reg_ok P o m2 q2 -> m1 = m2 /\ q1 = q2.
  Proof.
    intros o m1 q1 m2 q2 H1 H2.
    pose proof (reg_id P _ _ _ H1) as E1. pose proof (reg_id P _ _ _ H2) as E2.
    destruct H2 as [mm Hf Hk | m2 q2 n body base b Hid Hsb Hb Hk | m2 q2 n body Hid Hsb Hb Hk].
    - destruct H1 as [mm1 Hf1 Hk1 | m1 q1 n1 body1 base1 b1 Hid1 Hsb1 Hb1 Hk1 | m1 q1 n1 body1 Hid1 Hsb1 Hb1 Hk1].
      + auto.
      + rewrite Hk1 in Hk. destruct (m_pkg mm); discriminate.
      + rewrite Hk1 in Hk. destruct (m_pkg mm); discriminate.
    - eapply (reg_ctx P WF); [exact H1 | exact E2 | eapply scope_body_snoc_intro; eassumption].
    - destruct H1 as [mm1 Hf1 Hk1 | m1 q1 n1 body1 base1 b1 Hid1 Hsb1 Hb1 Hk1 | m1 q1 n1 body1 Hid1 Hsb1 Hb1 Hk1].
      + rewrite Hk1 in Hk. destruct (m_pkg mm1); discriminate.
      + congruence.
      + rewrite Hid1 in Hid. rewrite !app_assoc in Hid. apply app_inj_tail in Hid. destruct Hid as [Hpre Hn]. subst n1.
        destruct (split_unique P WF _ _ _ _ _ _ Hsb1 Hsb Hpre) as [? ?]; subst. auto.
  Qed.

  Lemma good_scope : forall st o m qual vo, Inv3 st -> In o (objs st) -> reg_ok P o m qual ->
    py_abs P (o_path o) vo -> vo = scope_val m qual.
  Proof.
    intros st o m qual vo HI Hin Hr Ha. destruct (I_good _ HI _ Hin) as [Hp _].
    rewrite Hp, (reg_id P _ _ _ Hr) in Ha. eapply reg_abs; eassumption.
  Qed.

  Lemma in_good_reg : forall st o, Inv3 st -> In o (objs st) -> exists m qual, reg_ok P o m qual.
  Proof. intros st o HI Hin. destruct (I_good _ HI _ Hin) as [_ [m [qual [Hr _]]]]. eauto. Qed.

  (* Class.find through closed classes *)
  Lemma find_sound : forall st, Inv3 st -> forall fuel c n inh m qual v',
    In c (objs st) -> o_kind c = KClass -> reg_ok P c m qual ->
    find_member fuel st c n = Some inh -> find_closed fuel st c n = true ->
    py_attr P (VObj m qual) n v' -> py_abs P (o_path inh) v'.
  Proof.
    intros st HI. induction fuel as [|f IH]; intros c n inh m qual v' Hin Hk Hr Hfm Hcl Ha.
    - cbn in Hfm. destruct (child st c n) as [ch|] eqn:Ech; [|discriminate]. inversion Hfm; subst.
      destruct (child_path _ _ _ _ Ech) as [_ Hpc]. rewrite Hpc.
      destruct (reg_scope P _ _ _ Hr Hk) as [body Hsb].
      eapply py_abs_snoc; [|exact Ha].
      rewrite (proj1 (I_good _ HI _ Hin)), (reg_id P _ _ _ Hr).
      replace (VObj m qual) with (scope_val m qual).
      + eapply abs_scope_intro; eassumption.
      + destruct qual; [|reflexivity]. exfalso.
        pose proof (reg_kind P _ _ _ Hr) as Hkk. rewrite Hk in Hkk. discriminate.
    - cbn in Hfm, Hcl. destruct (child st c n) as [ch|] eqn:Ech.
      + inversion Hfm; subst.
        destruct (child_path _ _ _ _ Ech) as [_ Hpc]. rewrite Hpc.
        destruct (reg_scope P _ _ _ Hr Hk) as [body Hsb].
        eapply py_abs_snoc; [|exact Ha].
        rewrite (proj1 (I_good _ HI _ Hin)), (reg_id P _ _ _ Hr).
        replace (VObj m qual) with (scope_val m qual).
        * eapply abs_scope_intro; eassumption.
        * destruct qual; [|reflexivity]. exfalso.
          pose proof (reg_kind P _ _ _ Hr) as Hkk. rewrite Hk in Hkk. discriminate.
      + apply andb_true_iff in Hcl. destruct Hcl as [Hcl Hrest].
        apply andb_true_iff in Hcl. destruct Hcl as [Hproc Hnoal].
        assert (Hnown : own st c n = false).
        { unfold own. rewrite Ech. cbn. destruct (assoc n (o_amap c)); [discriminate|reflexivity]. }
        inversion Ha as [ | m0 qual0 n0 v0 Hq Hns | m0 qual0 body0 n0 bexpr m' q' v0 Hq Hsb0 Hbo Hcb Hev Hat]; subst.
        * (* Python finds the name in the class itself: but the class is closed and does not know it *)
          rewrite (I_closed _ HI c m qual n v' Hin Hproc Hr Hns) in Hnown. discriminate.
        * destruct (o_baseobj c) as [bid|] eqn:Eb; [|discriminate].
          destruct (I_good _ HI _ Hin) as [_ [m1 [q1 [Hr1 [_ [_ [_ Hbase]]]]]]].
          destruct (reg_ok_fun _ _ _ _ _ Hr Hr1) as [? ?]; subst m1 q1.
          pose proof (Hbase bid bexpr m' q' Eb Hcb Hev) as Hbid.
          destruct (I_base _ HI c bid Hin Eb) as [bo [Hinbo [Hidbo Hkbo]]].
          rewrite <- Hidbo in Hfm, Hrest. rewrite (by_id_in _ _ HI Hinbo) in Hfm, Hrest.
          destruct (in_good_reg _ _ HI Hinbo) as [mb [qb Hrb]].
          destruct (reg_scope P _ _ _ Hrb Hkbo) as [bodyb Hsbb].
          assert (Hsb' : exists body', scope_body P m' q' = Some body').
          { inversion Hat as [ | m2 qual2 n2 v2 Hq2 Hns2 | m2 qual2 body2 n2 bexpr2 m2' q2' v2 Hq2 Hsb2 Hbo2 Hcb2 Hev2 Hat2]; subst.
            - inversion Hns2; subst; eauto; congruence.
            - eauto. }
          destruct Hsb' as [body' Hsb'].
          assert (Hsplit : mb = m' /\ qb = q').
          { eapply (split_unique P WF); try eassumption. rewrite <- (reg_id P _ _ _ Hrb). congruence. }
          destruct Hsplit; subst mb qb.
          eapply (IH bo n inh m' q' v'); eassumption.
  Qed.

  Theorem inv3_coherent : forall st, Inv3 st -> coherent P st.
  Proof.
    intros st HI. constructor.
    - (* C_reg *)
      intros o v Hin Ha. destruct (in_good_reg _ _ HI Hin) as [m [qual Hr]].
      rewrite (good_scope _ _ _ _ _ HI Hin Hr Ha).
      split; [rewrite flat_scope_val; eapply reg_id; eassumption | eapply reg_kind; eassumption].
    - (* C_amap *)
      intros o n q vo v' Hin Has Ha Hat. destruct (I_good _ HI _ Hin) as [Hp [m [qual [Hr [_ [He _]]]]]].
      rewrite (good_scope _ _ _ _ _ HI Hin Hr Ha) in Hat.
      destruct (He n q Has) as [H1 _]. apply H1. exact Hat.
    - (* C_own *)
      intros o m qual body n Hin Ha Hown Hsb. destruct (I_good _ HI _ Hin) as [Hp [m0 [qual0 [Hr [_ [He _]]]]]].
      pose proof (good_scope _ _ _ _ _ HI Hin Hr Ha) as Hv.
      assert (Hmq : m0 = m /\ qual0 = qual).
      { destruct qual0; cbn in Hv; inversion Hv; subst; auto. }
      destruct Hmq; subst m0 qual0.
      unfold own in Hown. apply orb_true_iff in Hown. destruct Hown as [Hch | Has].
      + destruct (child st o n) as [c|] eqn:Ec; [|discriminate].
        apply child_path in Ec. destruct Ec as [Hinc Hpc].
        destruct (I_good _ HI _ Hinc) as [Hpc' [mc [qualc [Hrc _]]]].
        rewrite Hp, (reg_id P _ _ _ Hr) in Hpc. rewrite Hpc' in Hpc.
        destruct Hrc as [mm Hf Hk | mc qualc nc bodyc base b Hid Hsbc Hb Hk | mc qualc nc bodyc Hid Hsbc Hb Hk].
        * exfalso. destruct qual as [|x rest].
          { cbn in Hv. inversion Hv. }
          eapply (class_not_module P WF m x rest); [eassumption|].
          eapply (module_prefix P WF) with (b := rest ++ [n]).
          -- replace ((m ++ [x]) ++ rest ++ [n]) with (o_id c);
               [eapply find_is_module; eassumption | rewrite Hpc; rewrite <- !app_assoc; reflexivity].
          -- pose proof (module_ne P WF _ (scope_body_module P _ _ _ Hsb)). destruct m; [congruence|discriminate].
        * rewrite Hid in Hpc. rewrite !app_assoc in Hpc. apply app_inj_tail in Hpc. destruct Hpc as [Hpre Hn]. subst nc.
          destruct (split_unique P WF _ _ _ _ _ _ Hsbc Hsb Hpre) as [? ?]; subst.
          rewrite Hsbc in Hsb. inversion Hsb; subst. congruence.
        * rewrite Hid in Hpc. rewrite !app_assoc in Hpc. apply app_inj_tail in Hpc. destruct Hpc as [Hpre Hn]. subst nc.
          destruct (split_unique P WF _ _ _ _ _ _ Hsbc Hsb Hpre) as [? ?]; subst.
          rewrite Hsbc in Hsb. inversion Hsb; subst. congruence.
      + destruct (assoc n (o_amap o)) as [q|] eqn:Eas; [|discriminate].
        destruct (He n q Eas) as [_ H2]. destruct (H2 _ Hsb) as [H3 | [Hq _]]; [exact H3|].
        subst qual. cbn in Hv. discriminate.
    - (* C_find *)
      intros c n inh vo v' Hin Hch Has Hf Hcl Ha Hat.
      unfold find_for in Hf. destruct (o_kind c) eqn:Hk; try discriminate.
      destruct (in_good_reg _ _ HI Hin) as [m [qual Hr]].
      rewrite (good_scope _ _ _ _ _ HI Hin Hr Ha) in Hat.
      assert (Hv : scope_val m qual = VObj m qual).
      { destruct qual; [|reflexivity]. exfalso.
        pose proof (reg_kind P _ _ _ Hr) as Hkk. rewrite Hk in Hkk. discriminate. }
      rewrite Hv in Hat. eapply find_sound; eassumption.
  Qed.

  (* ---------------------------------------------------------------- monotonicity of the registry *)
  Definition keeps (o o' : obj) : Prop :=
    o_path o' = o_path o /\ o_id o' = o_id o /\ o_kind o' = o_kind o /\
    (forall n, is_some (assoc n (o_amap o)) = true -> is_some (assoc n (o_amap o')) = true).

  Definition mono (st st' : state) : Prop :=
    forall o, In o (objs st) -> exists o', In o' (objs st') /\ keeps o o'.

  Lemma keeps_refl : forall o, keeps o o.
  Proof. intro o. repeat split; auto. Qed.

  Lemma mono_refl : forall st, mono st st.
  Proof. intros st o Hin. exists o. split; [exact Hin | apply keeps_refl]. Qed.

  Lemma mono_trans : forall a b c, mono a b -> mono b c -> mono a c.
  Proof.
    intros a b c H1 H2 o Hin. destruct (H1 o Hin) as [o1 [Hin1 [Hp1 [Hi1 [Hk1 Ha1]]]]].
    destruct (H2 o1 Hin1) as [o2 [Hin2 [Hp2 [Hi2 [Hk2 Ha2]]]]].
    exists o2. split; [exact Hin2|]. repeat split; try congruence. intros n Hn. apply Ha2, Ha1, Hn.
  Qed.

  Lemma obj_for_none_in : forall st q o, obj_for st q = None -> In o (objs st) -> o_path o <> q.
  Proof.
    intros st q o Hn Hin He. unfold obj_for in Hn. pose proof (find_none _ _ Hn o Hin) as H. cbn in H.
    rewrite He, path_eqb_refl in H. discriminate.
  Qed.

  Lemma mono_obj_for : forall st st' q, mono st st' -> is_some (obj_for st q) = true -> is_some (obj_for st' q) = true.
  Proof.
    intros st st' q Hm H. destruct (obj_for st q) as [o|] eqn:E; [|discriminate].
    apply obj_for_some in E. destruct E as [Hin Hp]. destruct (Hm o Hin) as [o' [Hin' [Hp' _]]].
    destruct (obj_for st' q) eqn:E'; [reflexivity|]. exfalso.
    eapply obj_for_none_in; [exact E' | exact Hin' | congruence].
  Qed.

  Lemma mono_own : forall st st' o o' n, mono st st' -> keeps o o' -> own st o n = true -> own st' o' n = true.
  Proof.
    intros st st' o o' n Hm [Hp [_ [_ Ha]]] H. unfold own, child in *. apply orb_true_iff in H. apply orb_true_iff.
    destruct H as [H|H]; [left | right; apply Ha; exact H].
    rewrite Hp. eapply mono_obj_for; eassumption.
  Qed.

  Definition has_entry (st : state) (cid : path) (n : name) : Prop :=
    exists c, In c (objs st) /\ o_id c = cid /\ own st c n = true.
  Definition has_obj (st : state) (cid : path) : Prop := exists c, In c (objs st) /\ o_id c = cid.

  Lemma mono_has_entry : forall st st' cid n, mono st st' -> has_entry st cid n -> has_entry st' cid n.
  Proof.
    intros st st' cid n Hm [c [Hin [Hid Ho]]]. destruct (Hm c Hin) as [c' [Hin' Hk]].
    exists c'. split; [exact Hin'|]. split; [destruct Hk as [_ [Hi _]]; congruence | eapply mono_own; eassumption].
  Qed.

  Lemma mono_has_obj : forall st st' cid, mono st st' -> has_obj st cid -> has_obj st' cid.
  Proof.
    intros st st' cid Hm [c [Hin Hid]]. destruct (Hm c Hin) as [c' [Hin' [_ [Hi _]]]].
    exists c'. split; [exact Hin' | congruence].
  Qed.

  (* in-place updates that keep path, identity, kind and only add alias entries *)
  Lemma mono_upd : forall st i f, (forall o, keeps o (f o)) -> mono st (upd_obj st i f).
  Proof.
    intros st i f Hf o Hin. exists (if path_eqb (o_id o) i then f o else o). split.
    - cbn. apply in_map_iff. exists o. split; [reflexivity | exact Hin].
    - destruct (path_eqb (o_id o) i); [apply Hf | apply keeps_refl].
  Qed.

  Lemma keeps_set_amap : forall n q o, keeps o (set_amap n q o).
  Proof.
    intros n q o. repeat split; try reflexivity. intros k Hk. cbn [set_amap o_amap].
    rewrite assoc_set_assoc. destruct (N.eqb n k); [reflexivity | exact Hk].
  Qed.
  Lemma keeps_set_state : forall s o, keeps o (set_state s o).
  Proof. intros s o. repeat split; auto. Qed.
  Lemma keeps_set_baseobj : forall b o, keeps o (set_baseobj b o).
  Proof. intros b o. repeat split; auto. Qed.

  Lemma mono_add : forall st o, mono st (add_obj st o).
  Proof.
    intros st o x Hin. exists x. split; [cbn; apply in_app_iff; left; exact Hin | apply keeps_refl].
  Qed.

  Lemma mono_register : forall st o, mono st (register st o).
  Proof.
    intros st o. unfold register. destruct (obj_for st (o_path o)); [|apply mono_add].
    intros x Hin. exists x. split; [exact Hin | apply keeps_refl].
  Qed.

  (* ---------------------------------------------------------------- the primitive updates keep the invariant *)
  Lemma map_path_upd : forall l i f, (forall o : obj, o_path (f o) = o_path o) ->
    map o_path (map (fun o => if path_eqb (o_id o) i then f o else o) l) = map o_path l.
  Proof.
    intros l i f Hf. rewrite map_map. apply map_ext. intro o. destruct (path_eqb (o_id o) i); [apply Hf | reflexivity].
  Qed.

  Lemma Inv3_upd : forall st i f,
    Inv3 st -> (forall o, keeps o (f o)) -> (forall o, o_baseobj (f o) = o_baseobj o) ->
    (forall o, In o (objs st) -> o_id o = i -> good3 (f o)) ->
    (forall o m qual n v, In o (objs st) -> o_id o = i -> is_processed (o_state (f o)) = true ->
        reg_ok P o m qual -> py_ns P m qual n v -> own st o n = true) ->
    Inv3 (upd_obj st i f).
  Proof.
    intros st i f HI Hk Hb Hg Hc.
    pose proof (mono_upd st i f Hk) as Hm.
    constructor.
    - intros o' Hin. apply upd_obj_in in Hin. destruct Hin as [o [Hin He]]. subst o'.
      destruct (path_eqb (o_id o) i) eqn:E; [|apply (I_good _ HI); exact Hin].
      apply path_eqb_eq in E. apply Hg; assumption.
    - intros mm Hmm. destruct (I_mods _ HI mm Hmm) as [o [Hin Hid]].
      destruct (Hm o Hin) as [o' [Hin' [_ [Hi _]]]]. exists o'. split; [exact Hin' | congruence].
    - cbn. rewrite map_path_upd; [apply (I_nodup _ HI) | intro o; apply (Hk o)].
    - intros c' bid Hin Hbo. apply upd_obj_in in Hin. destruct Hin as [c [Hin He]].
      assert (Hbc : o_baseobj c = Some bid).
      { subst c'. destruct (path_eqb (o_id c) i); [rewrite Hb in Hbo|]; exact Hbo. }
      destruct (I_base _ HI c bid Hin Hbc) as [bo [Hinbo [Hidbo Hkbo]]].
      destruct (Hm bo Hinbo) as [bo' [Hinbo' [_ [Hi' [Hk' _]]]]].
      exists bo'. repeat split; [exact Hinbo' | congruence | congruence].
    - intros o' m qual n v Hin Hp Hr Hns. apply upd_obj_in in Hin. destruct Hin as [o [Hin He]].
      destruct (path_eqb (o_id o) i) eqn:E; subst o'.
      + apply path_eqb_eq in E. eapply mono_own; [exact Hm | apply Hk |].
        eapply Hc; try eassumption. eapply reg_ok_ext; [| |exact Hr]; [symmetry; apply (Hk o) | symmetry; apply (Hk o)].
      + eapply mono_own; [exact Hm | apply keeps_refl |]. eapply (I_closed _ HI); eassumption.
  Qed.

  Lemma good3_set_amap : forall n q o, good3 o ->
    (forall m qual, reg_ok P o m qual -> entry_ok P m qual n q) -> good3 (set_amap n q o).
  Proof.
    intros n q o [Hp [m [qual [Hreg [Hmod [He Hb]]]]]] Hnew. split; [exact Hp|].
    exists m, qual. split; [eapply reg_ok_ext; [| |eassumption]; reflexivity|]. split; [exact Hmod|]. split; [|exact Hb].
    intros k q' Hk. cbn [set_amap o_amap] in Hk. rewrite assoc_set_assoc in Hk.
    destruct (N.eqb n k) eqn:E.
    - apply N.eqb_eq in E. subst k. inversion Hk; subst. apply Hnew. exact Hreg.
    - apply He. exact Hk.
  Qed.

  Lemma good3_set_state : forall s o, good3 o -> good3 (set_state s o).
  Proof.
    intros s o [Hp [m [qual [Hreg [Hmod [He Hb]]]]]]. split; [exact Hp|].
    exists m, qual. split; [eapply reg_ok_ext; [| |eassumption]; reflexivity|]. auto.
  Qed.

  Lemma Inv3_set_amap : forall st i n q, Inv3 st ->
    (forall o m qual, In o (objs st) -> o_id o = i -> reg_ok P o m qual -> entry_ok P m qual n q) ->
    Inv3 (upd_obj st i (set_amap n q)).
  Proof.
    intros st i n q HI He. apply Inv3_upd; try assumption.
    - apply keeps_set_amap.
    - reflexivity.
    - intros o Hin Hid. apply good3_set_amap; [apply (I_good _ HI); exact Hin|]. intros m qual Hr. eapply He; eassumption.
    - intros o m qual k v Hin Hid Hp Hr Hns. eapply (I_closed _ HI); eassumption.
  Qed.

  Lemma Inv3_set_open : forall st i s, Inv3 st -> is_processed s = false -> Inv3 (upd_obj st i (set_state s)).
  Proof.
    intros st i s HI Hs. apply Inv3_upd; try assumption.
    - apply keeps_set_state.
    - reflexivity.
    - intros o Hin _. apply good3_set_state. apply (I_good _ HI); exact Hin.
    - intros o m qual k v _ _ Hp. cbn in Hp. congruence.
  Qed.

  Lemma Inv3_set_closed : forall st i, Inv3 st ->
    (forall o m qual n v, In o (objs st) -> o_id o = i -> reg_ok P o m qual -> py_ns P m qual n v -> own st o n = true) ->
    Inv3 (upd_obj st i (set_state Processed)).
  Proof.
    intros st i HI Hc. apply Inv3_upd; try assumption.
    - apply keeps_set_state.
    - reflexivity.
    - intros o Hin _. apply good3_set_state. apply (I_good _ HI); exact Hin.
    - intros o m qual k v Hin Hid _ Hr Hns. eapply Hc; eassumption.
  Qed.

  Lemma NoDup_app_single : forall {A} (l : list A) x, NoDup l -> ~ In x l -> NoDup (l ++ [x]).
  Proof.
    intros A l x Hnd Hni. induction l as [|y l IH]; cbn.
    - constructor; [intros []|constructor].
    - inversion Hnd; subst. constructor.
      + intro Hin. apply in_app_iff in Hin. destruct Hin as [Hin|[Hin|[]]]; [contradiction|].
        subst. apply Hni. left. reflexivity.
      + apply IH; [assumption|]. intro Hin. apply Hni. right. exact Hin.
  Qed.

  Lemma own_same_objs : forall st st' o n, objs st' = objs st -> own st' o n = own st o n.
  Proof. intros st st' o n H. unfold own, child, obj_for. rewrite H. reflexivity. Qed.

  Lemma Inv3_same_objs : forall st st', objs st' = objs st -> Inv3 st -> Inv3 st'.
  Proof.
    intros st st' H HI. constructor; try rewrite H.
    - apply (I_good _ HI).
    - apply (I_mods _ HI).
    - apply (I_nodup _ HI).
    - apply (I_base _ HI).
    - intros o m qual n v Hin Hp Hr Hns. rewrite (own_same_objs _ _ _ _ H). eapply (I_closed _ HI); eassumption.
  Qed.

  Lemma mono_same_objs : forall st st', objs st' = objs st -> mono st st'.
  Proof. intros st st' H o Hin. exists o. split; [rewrite H; exact Hin | apply keeps_refl]. Qed.

  Lemma Inv3_register : forall st o, Inv3 st -> good3 o ->
    (is_processed (o_state o) = true -> forall m qual n v, reg_ok P o m qual -> py_ns P m qual n v -> False) ->
    (forall bid, o_baseobj o = Some bid -> exists bo, In bo (objs st) /\ o_id bo = bid /\ o_kind bo = KClass) ->
    Inv3 (register st o).
  Proof.
    intros st o HI Hg Hst Hbase. unfold register. destruct (obj_for st (o_path o)) eqn:Eo;
      [eapply Inv3_same_objs; [|exact HI]; reflexivity|].
    pose proof (mono_add st o) as Hm.
    constructor.
    - intros x Hin. cbn in Hin. apply in_app_iff in Hin. destruct Hin as [Hin | [Hin | []]];
        [apply (I_good _ HI); exact Hin | subst; exact Hg].
    - intros mm Hmm. destruct (I_mods _ HI mm Hmm) as [x [Hin Hid]]. exists x. split; [|exact Hid].
      cbn. apply in_app_iff. left. exact Hin.
    - cbn. rewrite map_app. cbn. apply NoDup_app_single; [apply (I_nodup _ HI)|].
      intro Hin. apply in_map_iff in Hin. destruct Hin as [x [Hx Hin]].
      eapply obj_for_none_in; eassumption.
    - intros c bid Hin Hb. cbn in Hin. apply in_app_iff in Hin. destruct Hin as [Hin | [Hin | []]].
      + destruct (I_base _ HI c bid Hin Hb) as [bo [Hinbo H]]. exists bo. split; [cbn; apply in_app_iff; left; exact Hinbo | exact H].
      + subst c. destruct (Hbase bid Hb) as [bo [Hinbo H]]. exists bo. split; [cbn; apply in_app_iff; left; exact Hinbo | exact H].
    - intros x m qual n v Hin Hp Hr Hns. cbn in Hin. apply in_app_iff in Hin. destruct Hin as [Hin | [Hin | []]].
      + eapply mono_own; [exact Hm | apply keeps_refl |]. eapply (I_closed _ HI); eassumption.
      + subst x. exfalso. eapply Hst; eassumption.
  Qed.

  (* ---------------------------------------------------------------- expansions performed during the run *)
  Lemma length_removelast : forall {A} (l : list A), l <> [] -> S (length (removelast l)) = length l.
  Proof.
    intros A l Hl. rewrite removelast_firstn_len, firstn_length. destruct l; [congruence|]. cbn. lia.
  Qed.

  Lemma removelast_app_ne : forall {A} (a b : list A), b <> [] -> removelast (a ++ b) = a ++ removelast b.
  Proof. intros A a b Hb. apply removelast_app. exact Hb. Qed.

  Lemma strip_prefix_app : forall a b, strip_prefix a (a ++ b) = Some b.
  Proof. induction a as [|x a IH]; intro b; cbn; [reflexivity|]. rewrite N.eqb_refl. apply IH. Qed.

  Lemma l2f_parent : forall st c par p,
    o_kind c = KClass -> own st c p = false -> parent_of st c = Some par ->
    S (length (o_path par)) = length (o_path c) -> l2f st c p = l2f st par p.
  Proof.
    intros st c par p Hk Ho Hp Hl. unfold own in Ho. apply orb_false_iff in Ho. destruct Ho as [Hc Ha].
    unfold l2f at 1. rewrite <- Hl. cbn.
    destruct (child st c p); [discriminate|]. destruct (assoc p (o_amap c)); [discriminate|].
    rewrite Hk, Hp. reflexivity.
  Qed.

  Lemma expand_from_l2f : forall st c land p rest,
    l2f st c p = l2f st land p -> expand_from st c true (p :: rest) = expand_from st land true (p :: rest).
  Proof. intros st c land p rest H. cbn [expand_from]. rewrite H. cbn [negb andb]. rewrite !andb_false_r. reflexivity. Qed.

  Lemma landing_chain : forall st, Inv3 st -> forall fuel c m qual body p land,
    In c (objs st) -> reg_ok P c m qual -> scope_body P m qual = Some body ->
    landing fuel st c p = Some land ->
    In land (objs st) /\ l2f st c p = l2f st land p /\
    (own st c p = false -> is_modkind (o_kind land) = true -> reg_ok P land m []).
  Proof.
    intros st HI. induction fuel as [|f IH]; intros c m qual body p land Hin Hr Hsb Hl.
    - cbn in Hl. destruct (own st c p) eqn:Eo.
      + inversion Hl; subst. repeat split; auto. intro; discriminate.
      + destruct (o_kind c); discriminate.
    - cbn in Hl. destruct (own st c p) eqn:Eo.
      + inversion Hl; subst. repeat split; auto. intro; discriminate.
      + destruct (o_kind c) eqn:Hk; try discriminate.
        destruct (parent_of st c) as [par|] eqn:Epar; [|discriminate].
        (* the parent object is the enclosing scope *)
        pose proof (proj1 (I_good _ HI _ Hin)) as Hpc.
        assert (Hq : qual <> []).
        { intro; subst qual. pose proof (reg_kind P _ _ _ Hr) as Hkk. rewrite Hk in Hkk. discriminate. }
        destruct (exists_last Hq) as [q0 [n Hqn]]. subst qual.
        destruct (scope_body_snoc P _ _ _ _ Hsb) as [body0 [base [Hsb0 Hb0]]].
        unfold parent_of, parent_path in Epar.
        rewrite Hpc, (reg_id P _ _ _ Hr) in Epar.
        rewrite removelast_app_ne in Epar by (destruct q0; discriminate).
        rewrite removelast_last in Epar.
        destruct (m ++ q0) eqn:Emq.
        { exfalso. pose proof (module_ne P WF _ (scope_body_module P _ _ _ Hsb)). destruct m; [congruence|discriminate]. }
        rewrite <- Emq in Epar. apply obj_for_some in Epar. destruct Epar as [Hinpar Hppar].
        destruct (I_good _ HI _ Hinpar) as [Hpp [mp [qp [Hrp _]]]].
        assert (Hidp : o_id par = m ++ q0) by congruence.
        destruct (reg_ctx P WF _ _ _ _ _ _ Hrp Hidp Hsb0) as [? ?]; subst mp qp.
        destruct (IH par m q0 body0 p land Hinpar Hrp Hsb0 Hl) as [Hinl [Hl2f Hmod]].
        split; [exact Hinl|]. split.
        * rewrite <- Hl2f. apply l2f_parent; try assumption.
          -- unfold parent_of, parent_path. rewrite Hpc, (reg_id P _ _ _ Hr).
             rewrite removelast_app_ne by (destruct q0; discriminate). rewrite removelast_last.
             rewrite <- Hppar. destruct (o_path par) eqn:Ep; [rewrite Hppar in Ep; congruence|].
             rewrite <- Ep. apply obj_for_in; [apply (I_nodup _ HI) | exact Hinpar].
          -- rewrite Hppar, Hpc, (reg_id P _ _ _ Hr). rewrite !app_length. cbn. lia.
        * intros _ Hmk. destruct (own st par p) eqn:Eop.
          -- destruct f; cbn in Hl; rewrite Eop in Hl; inversion Hl; subst.
             ++ pose proof (reg_kind P _ _ _ Hrp) as Hkk. rewrite Hmk in Hkk. destruct q0; [exact Hrp|discriminate].
             ++ pose proof (reg_kind P _ _ _ Hrp) as Hkk. rewrite Hmk in Hkk. destruct q0; [exact Hrp|discriminate].
          -- pose proof (Hmod eq_refl Hmk) as Hrl. exact Hrl.
  Qed.

  Theorem run_expand_sound : forall st c m qual body parts v,
    Inv3 st -> In c (objs st) -> reg_ok P c m qual -> o_mod c = m -> scope_body P m qual = Some body ->
    expand_ok P st c parts = true -> py_eval P m qual parts v ->
    py_abs P (expand_name st c parts) v.
  Proof.
    intros st c m qual body parts v HI Hin Hr Hmod Hsb Hok Hpy.
    pose proof (inv3_coherent _ HI) as Hc.
    destruct parts as [|p rest]; [discriminate|]. cbn [expand_ok] in Hok.
    destruct (landing (length (o_path c)) st c p) as [land|] eqn:El; [|discriminate].
    apply andb_true_iff in Hok. destruct Hok as [Hcond Htrail].
    pose proof (proj1 (I_good _ HI _ Hin)) as Hpc.
    destruct (landing_chain _ HI _ _ _ _ _ _ _ Hin Hr Hsb El) as [Hinl [Hl2f Hmodl]].
    destruct (own st c p) eqn:Eo.
    - assert (land = c).
      { destruct (length (o_path c)); cbn in El; rewrite Eo in El; inversion El; reflexivity. }
      subst land.
      eapply (expand_sound P st Hc c m qual); try eassumption.
      rewrite Hpc, (reg_id P _ _ _ Hr). eapply abs_scope_intro; eassumption.
    - cbn [orb] in Hcond. apply andb_true_iff in Hcond. destruct Hcond as [Hmk Hunb].
      pose proof (Hmodl eq_refl Hmk) as Hrl.
      unfold py_unbound in Hunb. rewrite Hmod, (reg_id P _ _ _ Hr), strip_prefix_app, Hsb in Hunb.
      assert (Hnb : binder_of body p = None) by (destruct (binder_of body p); [discriminate|reflexivity]).
      unfold expand_name. rewrite (expand_from_l2f _ _ _ _ _ Hl2f).
      assert (Hq : qual <> []).
      { intro; subst qual. pose proof (reg_kind P _ _ _ Hr) as Hkk.
        destruct (length (o_path c)); cbn in El; rewrite Eo in El;
          destruct (o_kind c); try discriminate. }
      apply (expand_sound P st Hc land m [] (p :: rest) v Hinl); [| |exact Htrail].
      + rewrite (proj1 (I_good _ HI _ Hinl)), (reg_id P _ _ _ Hrl), app_nil_r. cbn.
        pose proof (scope_body_module P _ _ _ Hsb) as Hm. apply (is_module_find P) in Hm. destruct Hm as [mm Hf].
        eapply py_abs_module; eassumption.
      + unfold py_lookup. inversion Hpy as [m0 qual0 d rest0 v0 v1 Hn Hat]; subst.
        econstructor; [|exact Hat]. apply pn_own.
        inversion Hn as [m0 qual0 d v1 Hns | m0 qual0 body1 d v1 Hq' Hsb1 Hb1 Hns]; subst.
        * exfalso. inversion Hns as [m0 qual0 body0 n0 b0 v1 Hsb0 Hbo Hpb | m0 mm0 n0 Hfm0 Hpk0 Hbo0 Him0
                                     | m0 mm0 l0 mn0 X0 n0 v1 Hfm0 Hin0 Hrr0 Him0 Hne0 Hex0 Hns0]; subst.
          -- rewrite Hsb in Hsb0. inversion Hsb0; subst. congruence.
          -- congruence.
          -- congruence.
        * exact Hns.
  Qed.

  (* ---------------------------------------------------------------- steps of the run *)
  (* the ghost flag only grows; and when it is still false afterwards, the invariant is kept and the registry grew *)
  Definition Step (st st' : state) : Prop :=
    (leak st' = false -> leak st = false) /\
    (leak st' = false -> Inv3 st -> Inv3 st' /\ mono st st').

  Lemma Step_refl : forall st, Step st st.
  Proof. intro st. split; [auto|]. intros _ HI. split; [exact HI | apply mono_refl]. Qed.

  Lemma Step_trans : forall a b c, Step a b -> Step b c -> Step a c.
  Proof.
    intros a b c [L1 I1] [L2 I2]. split.
    - intro H. apply L1, L2, H.
    - intros H HI. destruct (I1 (L2 H) HI) as [HIb Mab]. destruct (I2 H HIb) as [HIc Mbc].
      split; [exact HIc | eapply mono_trans; eassumption].
  Qed.

  Lemma Step_same_objs : forall st st', objs st' = objs st -> (leak st' = false -> leak st = false) -> Step st st'.
  Proof.
    intros st st' H L. split; [exact L|]. intros _ HI.
    split; [eapply Inv3_same_objs; eassumption | apply mono_same_objs; exact H].
  Qed.

  Lemma Step_flag_leak : forall b st, Step st (flag_leak b st).
  Proof.
    intros b st. apply Step_same_objs; [reflexivity|]. cbn. intro H. apply orb_false_iff in H. apply H.
  Qed.

  Lemma flag_leak_false : forall b st, leak (flag_leak b st) = false -> b = false.
  Proof. intros b st H. cbn in H. apply orb_false_iff in H. apply H. Qed.

  Lemma Step_set_amap : forall st i n q,
    (Inv3 st -> forall o m qual, In o (objs st) -> o_id o = i -> reg_ok P o m qual -> entry_ok P m qual n q) ->
    Step st (upd_obj st i (set_amap n q)).
  Proof.
    intros st i n q He. split; [auto|]. intros _ HI.
    split; [apply Inv3_set_amap; [exact HI | apply He; exact HI] | apply mono_upd; apply keeps_set_amap].
  Qed.

  Lemma Step_set_open : forall st i s, is_processed s = false -> Step st (upd_obj st i (set_state s)).
  Proof.
    intros st i s Hs. split; [auto|]. intros _ HI.
    split; [apply Inv3_set_open; assumption | apply mono_upd; apply keeps_set_state].
  Qed.

  Lemma leak_register : forall st o, leak (register st o) = leak st.
  Proof. intros st o. unfold register. destruct (obj_for st (o_path o)); reflexivity. Qed.

  Lemma fold_Step : forall {A} (l : list A) (f : state -> A -> state) st,
    (forall a st0, In a l -> Step st0 (f st0 a)) -> Step st (fold_left f l st).
  Proof.
    intros A l. induction l as [|x l IH]; intros f st Hf; [apply Step_refl|].
    cbn. eapply Step_trans; [apply Hf; left; reflexivity|]. apply IH. intros a st0 Ha. apply Hf. right. exact Ha.
  Qed.

  (* a fold in which every element, besides being a Step, establishes a monotone fact E, given a monotone fact R *)
  Lemma fold_Step_est : forall {A} (R : state -> Prop) (E : A -> state -> Prop) (f : state -> A -> state) (l : list A) st,
    (forall st1 st2, mono st1 st2 -> R st1 -> R st2) ->
    (forall a st1 st2, mono st1 st2 -> E a st1 -> E a st2) ->
    (forall a st0, In a l ->
        (leak (f st0 a) = false -> leak st0 = false) /\
        (leak (f st0 a) = false -> Inv3 st0 -> R st0 -> Inv3 (f st0 a) /\ mono st0 (f st0 a) /\ E a (f st0 a))) ->
    (leak (fold_left f l st) = false -> leak st = false) /\
    (leak (fold_left f l st) = false -> Inv3 st -> R st ->
       Inv3 (fold_left f l st) /\ mono st (fold_left f l st) /\ forall a, In a l -> E a (fold_left f l st)).
  Proof.
    intros A R E f l. induction l as [|x l IH]; intros st HR HE Hf.
    - cbn. split; [auto|]. intros _ HI _. split; [exact HI|]. split; [apply mono_refl | intros a []].
    - cbn. destruct (Hf x st (or_introl eq_refl)) as [Lx Ex].
      destruct (IH (f st x) HR HE (fun a st0 Ha => Hf a st0 (or_intror Ha))) as [Lrest Erest].
      split; [intro H; apply Lx, Lrest, H|].
      intros Hl HI Hst. destruct (Ex (Lrest Hl) HI Hst) as [HIx [Mx Eax]].
      destruct (Erest Hl HIx (HR _ _ Mx Hst)) as [HIf [Mf Ef]].
      split; [exact HIf|]. split; [eapply mono_trans; eassumption|].
      intros a [Ha | Ha]; [subst a; eapply HE; eassumption | apply Ef; exact Ha].
  Qed.
End Inv3.


Section Exec3.
  Variable P : project.
  Hypothesis WF : wf_project P.

  Lemma id_unique : forall st a b, Inv3 P st -> In a (objs st) -> In b (objs st) -> o_id a = o_id b -> a = b.
  Proof.
    intros st a b HI Ha Hb He. eapply nodup_path_eq; try eassumption; [apply (I_nodup _ _ HI)|].
    rewrite (proj1 (I_good _ _ HI _ Ha)), (proj1 (I_good _ _ HI _ Hb)). exact He.
  Qed.

  Lemma ctx_reg3 : forall st m qual body c, Inv3 P st -> scope_body P m qual = Some body ->
    In c (objs st) -> o_id c = m ++ qual ->
    reg_ok P c m qual /\ o_path c = m ++ qual /\ o_mod c = m.
  Proof.
    intros st m qual body c HI Hsb Hin Hid. destruct (I_good _ _ HI _ Hin) as [Hp [m' [q' [Hr [Hmod _]]]]].
    destruct (reg_ctx P WF _ _ _ _ _ _ Hr Hid Hsb) as [E1 E2].
    repeat split; [rewrite <- E1, <- E2; exact Hr | congruence | congruence].
  Qed.

  Lemma has_obj_by_id : forall st i, Inv3 P st -> has_obj st i -> exists c, by_id st i = Some c /\ In c (objs st) /\ o_id c = i.
  Proof.
    intros st i HI [c [Hin Hid]]. exists c. split; [|auto]. rewrite <- Hid. apply (by_id_in P); assumption.
  Qed.

  Lemma class_path_not_module : forall m qual body, scope_body P m qual = Some body -> qual <> [] ->
    find_module P (m ++ qual) = None.
  Proof.
    intros m qual body Hsb Hq. destruct (find_module P (m ++ qual)) as [mm|] eqn:E; [|reflexivity]. exfalso.
    destruct qual as [|x rest]; [congruence|].
    eapply (class_not_module P WF m x rest); [eassumption|].
    eapply (module_prefix P WF) with (b := rest).
    - rewrite <- app_assoc. cbn. eapply find_is_module; eassumption.
    - pose proof (module_ne P WF _ (scope_body_module P _ _ _ Hsb)). destruct m; [congruence|discriminate].
  Qed.

  Lemma exports_none3 : forall st m qual body mm n,
    scope_body P m qual = Some body -> find_module P m = Some mm ->
    mem_name n (def_or (m_all mm) []) = false -> mem_name n (exports_of P st (m ++ qual)) = false.
  Proof.
    intros st m qual body mm n Hsb Hfm Hn. unfold exports_of.
    destruct (by_id st (m ++ qual)) as [c|] eqn:Eby; [|reflexivity].
    apply by_id_some in Eby. destruct Eby as [_ Hid].
    destruct (is_modkind (o_kind c)); [|reflexivity]. rewrite Hid.
    destruct qual as [|x rest].
    - rewrite app_nil_r, Hfm. exact Hn.
    - rewrite (class_path_not_module _ _ _ Hsb) by discriminate. reflexivity.
  Qed.

  Lemma binder_of_in : forall body n b, binder_of body n = Some b -> exists s, In s body /\ stmt_binder s n = Some b.
  Proof.
    induction body as [|s rest IH]; intros n b H; [discriminate|]. cbn in H.
    destruct (binder_of rest n) as [b'|] eqn:E.
    - inversion H; subst. destruct (IH _ _ E) as [s' [Hin Hs]]. exists s'. split; [right; exact Hin | exact Hs].
    - exists s. split; [left; reflexivity | exact H].
  Qed.

  Lemma from_binder_some : forall l mn names n b, from_binder l mn names n = Some b ->
    exists orig asname, In (orig, asname) names /\ bound_of (orig, asname) = n /\ b = BFrom l mn orig.
  Proof.
    induction names as [|[o a] names IH]; intros n b H; [discriminate|]. cbn in H.
    destruct (from_binder l mn names n) as [b'|] eqn:E.
    - inversion H; subst. destruct (IH _ _ E) as [o' [a' [Hin [Hb He]]]]. exists o', a'. split; [right; exact Hin | auto].
    - destruct (N.eqb (match a with Some a0 => a0 | None => o end) n) eqn:En; [|discriminate].
      apply N.eqb_eq in En. inversion H; subst. exists o, a. split; [left; reflexivity|]. split; [|reflexivity].
      unfold bound_of, def_or. cbn. destruct a; reflexivity.
  Qed.

  Lemma leak_reparent : forall st ob cur n, leak (reparent st ob cur n) = leak st.
  Proof. intros st ob cur n. unfold reparent. destruct (parent_of st ob); reflexivity. Qed.

  (* _handleReExport either does nothing or moves an object -- and then raises the ghost flag *)
  Lemma handle_reexport_cases : forall st cid ex o a md,
    handle_reexport P st cid ex o a md = (st, false) \/ leak (fst (handle_reexport P st cid ex o a md)) = true.
  Proof.
    intros st cid ex o a md. unfold handle_reexport. destruct (mem_name a ex); [|left; reflexivity].
    destruct (by_id st md); [|left; reflexivity].
    destruct (match child st o0 o with Some c => Some c | None => resolve_name st o0 [o] end); [|left; reflexivity].
    destruct (parent_path (o_path o1)); [|left; reflexivity].
    destruct (match all_of P md with Some l => mem_name o l | None => false end); [left; reflexivity|].
    destruct (by_id st cid); [|left; reflexivity]. right. cbn [fst]. rewrite leak_reparent. cbn. apply orb_true_r.
  Qed.

  Lemma handle_reexport_noleak : forall st cid ex o a md st1 moved,
    handle_reexport P st cid ex o a md = (st1, moved) -> leak st1 = false -> st1 = st /\ moved = false.
  Proof.
    intros st cid ex o a md st1 moved E Hl. destruct (handle_reexport_cases st cid ex o a md) as [H | H].
    - rewrite H in E. inversion E; auto.
    - rewrite E in H. cbn in H. congruence.
  Qed.

  Lemma est_set_amap : forall st i n q, has_obj st i -> has_entry (upd_obj st i (set_amap n q)) i n.
  Proof.
    intros st i n q [c [Hin Hid]]. exists (set_amap n q c). split.
    - cbn. apply in_map_iff. exists c. split; [|exact Hin]. rewrite Hid, path_eqb_refl. reflexivity.
    - split; [exact Hid|]. unfold own. cbn [set_amap o_amap]. rewrite assoc_set_assoc, N.eqb_refl. cbn.
      apply orb_true_r.
  Qed.

  Lemma strip_prefix_some : forall a q r, strip_prefix a q = Some r -> q = a ++ r.
  Proof.
    induction a as [|x a IH]; intros q r H; cbn in H; [inversion H; reflexivity|].
    destruct q as [|y q]; [discriminate|]. destruct (N.eqb x y) eqn:E; [|discriminate].
    apply N.eqb_eq in E. subst y. cbn. f_equal. apply IH. exact H.
  Qed.

  Lemma in_assoc_some : forall {V} (l : list (name * V)) k q, In (k, q) l -> exists q1, assoc k l = Some q1.
  Proof.
    intros V l k q. induction l as [|[k0 w] l IH]; intros H; [destruct H|]. cbn.
    destruct (N.eqb k0 k) eqn:E; [eauto|]. destruct H as [H|H]; [inversion H; subst; rewrite N.eqb_refl in E; discriminate | apply IH; exact H].
  Qed.

  Lemma mods_has_obj' : forall st mm, Inv3 P st -> In mm P -> has_obj st (m_path mm).
  Proof. intros st mm HI Hin. destruct (I_mods _ _ HI mm Hin) as [o [Ho Hid]]. exists o. auto. Qed.

  Lemma leak_import_all_loop : forall names st cid ex md,
    leak (import_all_loop P st cid ex md names) = false -> leak st = false.
  Proof.
    induction names as [|a names IH]; intros st cid ex md H; cbn in H; [exact H|].
    destruct (handle_reexport P st cid ex a a md) as [st1 moved] eqn:E.
    apply IH in H.
    assert (Hl1 : leak st1 = false).
    { destruct moved; [exact H|]. destruct (by_id st1 md); exact H. }
    destruct (handle_reexport_noleak _ _ _ _ _ _ _ _ E Hl1) as [? _]. subst st1. exact Hl1.
  Qed.

  Lemma mem_name_in : forall n l, mem_name n l = true -> In n l.
  Proof.
    intros n l H. unfold mem_name in H. apply existsb_exists in H. destruct H as [x [Hin He]].
    apply N.eqb_eq in He. subst. exact Hin.
  Qed.

  Lemma own_star_names : forall st mo n, own st mo n = true -> is_private n = false -> In n (star_names st mo).
  Proof.
    intros st mo n Ho Hp. unfold star_names. apply filter_In. split; [|rewrite Hp; reflexivity].
    apply in_app_iff. unfold own in Ho. apply orb_true_iff in Ho. destruct Ho as [Hc | Ha].
    - left. destruct (child st mo n) as [ch|] eqn:Ech; [|discriminate].
      apply child_path in Ech. destruct Ech as [Hin Hpc].
      apply in_flat_map. exists ch. split; [exact Hin|]. rewrite Hpc, strip_prefix_app. left. reflexivity.
    - right. destruct (assoc n (o_amap mo)) as [q|] eqn:E; [|discriminate].
      clear -E. induction (o_amap mo) as [|[k w] l IH]; [discriminate|]. cbn in *.
      destruct (N.eqb k n) eqn:Ek; [left; apply N.eqb_eq; exact Ek | right; apply IH; exact E].
  Qed.

  (* the entries written by `from X import *` for the names of a PROCESSED module *)
  Lemma import_all_loop3 : forall names st m mm level modname X exports,
    find_module P m = Some mm -> In (SStar level modname) (m_body mm) ->
    resolve_relative m (m_pkg mm) level modname = Some X -> is_module P X = true ->
    (forall n, In n names -> star_cand P X n = true) ->
    let st' := import_all_loop P st m exports X names in
    leak st' = false -> Inv3 P st -> has_obj st m ->
    (exists mo, In mo (objs st) /\ o_id mo = X /\ is_processed (o_state mo) = true) ->
    Inv3 P st' /\ mono st st' /\ forall n, In n names -> has_entry st' m n.
  Proof.
    induction names as [|n names IH]; intros st m mm level modname X exports Hfm Hin Hrr Him Hcand;
      cbn zeta; intros Hl HI Hobj Hmo.
    - cbn. split; [exact HI|]. split; [apply mono_refl | intros k []].
    - cbn [import_all_loop] in *.
      destruct (handle_reexport P st m exports n n X) as [st1 moved] eqn:Ehr.
      assert (Hnm : st1 = st /\ moved = false).
      { eapply handle_reexport_noleak; [exact Ehr|]. apply leak_import_all_loop in Hl.
        destruct moved; [exact Hl|]. destruct (by_id st1 X); exact Hl. }
      destruct Hnm; subst st1 moved.
      destruct Hmo as [mo [Hinmo [Hidmo Hproc]]].
      assert (Hby : by_id st X = Some mo) by (rewrite <- Hidmo; apply (by_id_in P); assumption).
      rewrite Hby in *.
      set (q := expand_name st mo [n]) in *.
      set (st2 := upd_obj st m (set_amap n q)) in *.
      pose proof (find_module_some P _ _ Hfm) as [Hinm Hpm].
      apply (is_module_find P) in Him. destruct Him as [mx Hfx].
      assert (Hrr' : resolve_relative (m_path mm) (m_pkg mm) level modname = Some X) by (rewrite Hpm; exact Hrr).
      destruct (W_star P WF mm level modname X n Hinm Hin Hrr' (Hcand n (or_introl eq_refl))) as [Wb [Wm Wu]].
      assert (Hrmo : reg_ok P mo X []).
      { assert (Hid0 : o_id mo = X ++ []) by (rewrite app_nil_r; exact Hidmo).
        apply (ctx_reg3 _ _ _ _ _ HI (scope_body_nil P _ _ Hfx) Hinmo Hid0). }
      assert (HI2 : Inv3 P st2).
      { apply Inv3_set_amap; [exact HI|]. intros o m' qual' Hino Hid Hr.
        assert (Hid0 : o_id o = m ++ []) by (rewrite app_nil_r; exact Hid).
        destruct (reg_ctx P WF _ _ _ _ _ _ Hr Hid0 (scope_body_nil P _ _ Hfm)) as [? ?]; subst m' qual'.
        split.
        - intros v' Ha. cbn [scope_val] in Ha. inversion Ha as [X0 n0 v0 Hns | | ]; subst X0 n0 v0.
          assert (HX : py_ns P X [] n v').
          { inversion Hns as [m0 qual0 body0 n0 b0 v0 Hsb0 Hbo Hpb Em Eq En Ev | m0 mm0 n0 Hfm0 Hpk0 Hbo0 Him0 Em Eq En Ev
                              | m0 mm0 l0 mn0 X0 n0 v0 Hfm0 Hin0 Hrr0 Him0 Hne0 Hex0 Hns0 Em Eq En Ev];
              [subst m0 qual0 n0 v0 | subst m0 n0 | subst m0 n0 v0].
            - exfalso. rewrite (scope_body_nil P _ _ Hfm) in Hsb0. inversion Hsb0; subst body0. congruence.
            - exfalso. rewrite Hpm in Wm. congruence.
            - rewrite Hfm in Hfm0. inversion Hfm0; subst mm0.
              rewrite <- Hpm in Hrr0.
              rewrite (Wu l0 mn0 X0 Hin0 Hrr0 (star_cand_of_py P _ _ _ Hex0 Hns0)) in Hns0. exact Hns0. }
          apply (expand_sound P st (inv3_coherent P WF _ HI) mo X [] [n] v' Hinmo).
          + rewrite (proj1 (I_good _ _ HI _ Hinmo)), Hidmo. cbn. eapply (py_abs_module P WF); eassumption.
          + unfold py_lookup. econstructor; [apply pn_own; exact HX | constructor].
          + cbn [trail_ok]. rewrite (I_closed _ _ HI mo X [] n v' Hinmo Hproc Hrmo HX). cbn [negb andb].
            rewrite andb_false_r. reflexivity.
        - intros body' Hsb'. right. split; [reflexivity|].
          rewrite (scope_body_nil P _ _ Hfm) in Hsb'. inversion Hsb'; subst body'.
          unfold top_has_star. apply existsb_exists. eexists. split; [exact Hin | reflexivity]. }
      assert (M2 : mono st st2) by (apply mono_upd; apply keeps_set_amap).
      assert (Hmo2 : exists mo', In mo' (objs st2) /\ o_id mo' = X /\ is_processed (o_state mo') = true).
      { exists (if path_eqb (o_id mo) m then set_amap n q mo else mo). split.
        - cbn. apply in_map_iff. exists mo. split; [reflexivity | exact Hinmo].
        - destruct (path_eqb (o_id mo) m); auto. }
      destruct (IH st2 m mm level modname X exports Hfm Hin Hrr (find_is_module P _ _ Hfx)
                  (fun k Hk => Hcand k (or_intror Hk))
                  Hl HI2 (mono_has_obj _ _ _ M2 Hobj) Hmo2) as [HIf [Mf Ef]].
      split; [exact HIf|]. split; [eapply mono_trans; eassumption|].
      intros k [Hk | Hk].
      + subst k. eapply mono_has_entry; [exact Mf|]. apply est_set_amap. exact Hobj.
      + apply Ef. exact Hk.
  Qed.

  Section WithGpm.
    Variable gpm : state -> path -> state * option path.
    Hypothesis Hgpm : forall st q, Step P st (fst (gpm st q)).
    (* getProcessedModule returns the module object of a module of the project, and only that *)
    Hypothesis Hgpm2 : forall st q, Inv3 P st ->
      match snd (gpm st q) with
      | Some i => i = q /\ is_module P q = true
      | None => is_module P q = false
      end.

    Lemma import_loop3 : forall names st m qual body mm level modname allnames X modo is_package exports,
      scope_body P m qual = Some body -> wf_body body -> find_module P m = Some mm ->
      In (SFrom level modname allnames) body -> (forall x, In x names -> In x allnames) ->
      let st' := import_names_loop P gpm st (m ++ qual) exports X modo is_package names in
      (leak st' = false -> leak st = false) /\
      (leak st' = false -> Inv3 P st -> has_obj st (m ++ qual) -> import_base m (m_pkg mm) level modname = Some X ->
         Inv3 P st' /\ mono st st' /\ forall x, In x names -> has_entry st' (m ++ qual) (bound_of x)).
    Proof.
      induction names as [|[orig asname] names IH];
        intros st m qual body mm level modname allnames X modo is_package exports Hsb Hwf Hfm Hin Hsub.
      - cbn. split; [auto|]. intros _ HI _ _. split; [exact HI|]. split; [apply mono_refl | intros x []].
      - cbn [import_names_loop].
        set (st1 := if is_package then fst (gpm st (X ++ [orig])) else st).
        assert (S1 : Step P st st1) by (unfold st1; destruct is_package; [apply Hgpm | apply Step_refl]).
        destruct (match modo with
                  | Some modid => handle_reexport P st1 (m ++ qual) exports orig (def_or asname orig) modid
                  | None => (st1, false)
                  end) as [st2 moved] eqn:Ehr.
        set (st3 := if moved then st2 else upd_obj st2 (m ++ qual) (set_amap (def_or asname orig) (X ++ [orig]))).
        destruct (IH st3 m qual body mm level modname allnames X modo is_package exports Hsb Hwf Hfm Hin
                     (fun x Hx' => Hsub x (or_intror Hx'))) as [Lr Cr].
        assert (Hnm : leak st3 = false -> st2 = st1 /\ moved = false).
        { intro H3. assert (H2 : leak st2 = false) by (unfold st3 in H3; destruct moved; exact H3).
          destruct modo as [modid|]; [eapply handle_reexport_noleak; eassumption | inversion Ehr; auto]. }
        split.
        + intro H. apply Lr in H. destruct (Hnm H) as [? ?]. subst st2 moved. apply (proj1 S1). exact H.
        + intros Hl HI Hobj Hib.
          assert (Hl3 : leak st3 = false) by (apply Lr; exact Hl).
          destruct (Hnm Hl3) as [? ?]. subst st2 moved. cbn iota in st3.
          destruct (proj2 S1 Hl3 HI) as [HI1 M1].
          assert (HI3 : Inv3 P st3).
          { apply Inv3_set_amap; [exact HI1|]. intros o m' qual' Hino Hid Hr.
            destruct (reg_ctx P WF _ _ _ _ _ _ Hr Hid Hsb) as [? ?]; subst m' qual'.
            change (def_or asname orig) with (bound_of (orig, asname)).
            eapply (entry_from P WF); try eassumption. apply Hsub. left. reflexivity. }
          assert (M3 : mono st1 st3) by (apply mono_upd; apply keeps_set_amap).
          assert (Hobj1 : has_obj st1 (m ++ qual)) by (eapply mono_has_obj; eassumption).
          assert (Hobj3 : has_obj st3 (m ++ qual)) by (eapply mono_has_obj; eassumption).
          destruct (Cr Hl HI3 Hobj3 Hib) as [HIf [Mf Ef]].
          split; [exact HIf|]. split; [eapply mono_trans; [exact M1 | eapply mono_trans; eassumption]|].
          intros x [Hx0 | Hx0].
          * subst x. eapply mono_has_entry; [exact Mf|]. apply est_set_amap. exact Hobj1.
          * apply Ef. exact Hx0.
    Qed.

    Definition est (m qual : path) (s : stmt) (st' : state) : Prop :=
      (forall n b v, stmt_binder s n = Some b -> py_binder P m qual n b v -> has_entry st' (m ++ qual) n) /\
      (forall l mn mm X n v, s = SStar l mn -> qual = [] -> find_module P m = Some mm ->
         resolve_relative m (m_pkg mm) l mn = Some X -> is_module P X = true -> path_eqb X m = false ->
         exported P X n = true -> py_ns P X [] n v -> has_entry st' m n).

    Lemma est_mono : forall m qual s st1 st2, mono st1 st2 -> est m qual s st1 -> est m qual s st2.
    Proof.
      intros m qual s st1 st2 Hm [H1 H2]. split.
      - intros n b v Hs Hb. eapply mono_has_entry; [exact Hm|]. eapply H1; eassumption.
      - intros l mn mm X n v Hs Hq Hf Hr Hi Hne He Hns. eapply mono_has_entry; [exact Hm|]. eapply H2; eassumption.
    Qed.

    Lemma est_nostar : forall m qual s st',
      (forall l mn, s <> SStar l mn) ->
      (forall n b v, stmt_binder s n = Some b -> py_binder P m qual n b v -> has_entry st' (m ++ qual) n) ->
      est m qual s st'.
    Proof. intros m qual s st' Hs H. split; [exact H|]. intros l mn mm X n v E. exfalso. eapply Hs; exact E. Qed.

    Definition stmt_step (s : stmt) : Prop :=
      forall st m qual body mm,
        find_module P m = Some mm -> scope_body P m qual = Some body -> wf_body body -> In s body ->
        (no_star_stmt s = true \/ (qual = [] /\ exists l mn, s = SStar l mn)) ->
        let st' := exec_stmt P gpm m (m ++ qual) st s in
        (leak st' = false -> leak st = false) /\
        (leak st' = false -> Inv3 P st -> has_obj st (m ++ qual) -> has_obj st m ->
           Inv3 P st' /\ mono st st' /\ est m qual s st').

    Lemma mod_facts3 : forall st m mm, Inv3 P st -> has_obj st m -> find_module P m = Some mm ->
      cur_path st m = m /\
      match by_id st m with Some m0 => kind_eqb (o_kind m0) KPkg | None => false end = m_pkg mm.
    Proof.
      intros st m mm HI Hobj Hfm. destruct (has_obj_by_id _ _ HI Hobj) as [mo [Hby [Hin Hid]]].
      pose proof (scope_body_nil P _ _ Hfm) as Hsb.
      rewrite <- (app_nil_r m) in Hid.
      destruct (ctx_reg3 _ _ _ _ _ HI Hsb Hin Hid) as [Hr [Hp _]]. rewrite app_nil_r in Hp.
      unfold cur_path. rewrite Hby. split; [exact Hp|].
      inversion Hr as [mm0 Hf0 Hk0 Hm Hq | m0 q0 n0 b0 base0 bb0 Hid0 Hsb0 Hb0 Hk0 Hm Hq | m0 q0 n0 b0 Hid0 Hsb0 Hb0 Hk0 Hm Hq].
      - rewrite Hm, Hfm in Hf0. inversion Hf0; subst. rewrite Hk0. destruct (m_pkg mm0); reflexivity.
      - destruct q0; discriminate.
      - destruct q0; discriminate.
    Qed.

    Lemma class_base_snoc : forall m qual body n base b,
      scope_body P m qual = Some body -> binder_of body n = Some (BClass base b) ->
      class_base P m (qual ++ [n]) = base.
    Proof.
      intros m qual body n base b Hsb Hb. unfold class_base.
      destruct (qual ++ [n]) eqn:E; [destruct qual; discriminate|]. rewrite <- E.
      rewrite removelast_last, last_last, Hsb, Hb. reflexivity.
    Qed.

    Lemma fun_scope_empty : forall m qual body n k v,
      scope_body P m qual = Some body -> binder_of body n = Some BDef -> py_ns P m (qual ++ [n]) k v -> False.
    Proof.
      intros m qual body n k v Hsb Hb Hns.
      inversion Hns as [m0 qual0 body0 n0 b0 v0 Hsb0 Hbo Hpb | m0 mm0 n0 Hfm0 Hpk0 Hbo0 Him0 Hq
                        | m0 mm0 l0 mn0 X0 n0 v0 Hfm0 Hin0 Hrr0 Him0 Hne0 Hex0 Hns0 Hq]; subst.
      - destruct (scope_body_snoc P _ _ _ _ Hsb0) as [body' [base [Hsb' Hb']]]. rewrite Hsb in Hsb'. inversion Hsb'; subst.
        congruence.
      - destruct qual; discriminate.
      - destruct qual; discriminate.
    Qed.

    Lemma register_has_obj : forall st o, Inv3 P (register st o) -> o_path o = o_id o -> has_obj (register st o) (o_id o).
    Proof.
      intros st o HI Hp. unfold register in *. destruct (obj_for st (o_path o)) as [x|] eqn:E.
      - apply obj_for_some in E. destruct E as [Hin Hpx]. exists x. split; [exact Hin|].
        rewrite <- (proj1 (I_good _ _ HI x Hin)). congruence.
      - exists o. split; [cbn; apply in_app_iff; right; left; reflexivity | reflexivity].
    Qed.

    Lemma child_has_entry : forall st par x n, Inv3 P st -> In par (objs st) -> In x (objs st) ->
      o_path x = o_path par ++ [n] -> has_entry st (o_id par) n.
    Proof.
      intros st par x n HI Hp Hx He. exists par. split; [exact Hp|]. split; [reflexivity|].
      unfold own, child. rewrite <- He. rewrite obj_for_in; [reflexivity | apply (I_nodup _ _ HI) | exact Hx].
    Qed.

    Lemma stmt_step_all : forall s, stmt_step s.
    Proof.
      induction s as [target asname | level modname names | level modname | n base cbody IHs | n | target expr]
        using stmt_ind2;
        unfold stmt_step; intros st m qual body mm Hfm Hsb Hwf Hin Hns; cbn [exec_stmt]; cbn zeta.
      - (* import *)
        unfold visit_import. destruct asname as [c|].
        + split; [auto|]. intros _ HI Hobj _.
          split; [|split; [apply mono_upd; apply keeps_set_amap|]].
          * apply Inv3_set_amap; [exact HI|]. intros o m' qual' Hino Hid Hr.
            destruct (reg_ctx P WF _ _ _ _ _ _ Hr Hid Hsb) as [? ?]; subst m' qual'.
            eapply (entry_import_as P WF); eassumption.
          * apply est_nostar; [intros; discriminate|]. intros k b v Hs _. cbn in Hs. destruct target; destruct (N.eqb c k) eqn:E; try discriminate;
              apply N.eqb_eq in E; subst k; apply est_set_amap; exact Hobj.
        + destruct target as [|a t].
          * split; [auto|]. intros _ HI _ _. split; [exact HI|]. split; [apply mono_refl|]. apply est_nostar; [intros; discriminate|]. intros k b v Hs; discriminate.
          * split; [auto|]. intros _ HI Hobj _.
            split; [|split; [apply mono_upd; apply keeps_set_amap|]].
            -- apply Inv3_set_amap; [exact HI|]. intros o m' qual' Hino Hid Hr.
               destruct (reg_ctx P WF _ _ _ _ _ _ Hr Hid Hsb) as [? ?]; subst m' qual'.
               eapply (entry_import_top P WF); eassumption.
            -- apply est_nostar; [intros; discriminate|]. intros k b v Hs _. cbn in Hs. destruct (N.eqb a k) eqn:E; [|discriminate].
               apply N.eqb_eq in E; subst k. apply est_set_amap; exact Hobj.
      - (* from ... import names *)
        split.
        + destruct (import_base _ _ level modname) as [X|]; [|auto].
          unfold import_names. destruct (gpm st X) as [st1 modo] eqn:Eg.
          intro H.
          apply (proj1 (Hgpm st X)). rewrite Eg. cbn [fst].
          eapply (proj1 (import_loop3 names st1 m qual body mm level modname names X modo _ _
                           Hsb Hwf Hfm Hin (fun x Hx => Hx))). exact H.
        + intros Hl HI Hobj Hobjm.
          destruct (mod_facts3 _ _ _ HI Hobjm Hfm) as [Hcp Hk]. rewrite Hcp, Hk in *.
          destruct (import_base m (m_pkg mm) level modname) as [X|] eqn:Eib.
          * unfold import_names in *. destruct (gpm st X) as [st1 modo] eqn:Eg.
            pose proof (import_loop3 names st1 m qual body mm level modname names X modo
                          (match modo with
                           | Some modid => match by_id st1 modid with
                                           | Some mo => kind_eqb (o_kind mo) KPkg
                                           | None => false
                                           end
                           | None => false
                           end) (exports_of P st1 (m ++ qual))
                          Hsb Hwf Hfm Hin (fun x Hx => Hx)) as [Lr Cr].
            assert (Hl1 : leak st1 = false) by (apply Lr; exact Hl).
            pose proof (Hgpm st X) as Sg. rewrite Eg in Sg. cbn [fst] in Sg.
            destruct (proj2 Sg Hl1 HI) as [HI1 M1].
            destruct (Cr Hl HI1 (mono_has_obj _ _ _ M1 Hobj) Eib) as [HIf [Mf Ef]].
            split; [exact HIf|]. split; [eapply mono_trans; eassumption|].
            apply est_nostar; [intros; discriminate|]. intros k b v Hs _. cbn in Hs. destruct (from_binder_some _ _ _ _ _ Hs) as [orig [asn [Hx [Hb _]]]].
            rewrite <- Hb. apply Ef. exact Hx.
          * split; [exact HI|]. split; [apply mono_refl|].
            apply est_nostar; [intros; discriminate|]. intros k b v Hs Hpb. exfalso. cbn in Hs. destruct (from_binder_some _ _ _ _ _ Hs) as [orig [asn [Hx [Hb Hbb]]]].
            subst b.
            assert (Hmne : m <> []) by (eapply (module_ne P WF); eapply find_is_module; eassumption).
            rewrite (relative_level m (m_pkg mm) level modname Hmne) in Eib.
            inversion Hpb as [ | | | | m0 qual0 n0 mm0 l0 mn0 o0 X0 v0 Hfm0 Hrr Him Hne Hnsx
                              | m0 qual0 n0 mm0 l0 mn0 o0 Hfm0 Hrr Him | ]; subst;
              rewrite Hfm in Hfm0; inversion Hfm0; subst; congruence.
      - (* from ... import * *)
        split.
        + destruct (import_base _ _ level modname) as [X|]; [|auto].
          unfold import_all. destruct (gpm st X) as [st1 modo] eqn:Eg. intro H.
          apply (proj1 (Hgpm st X)). rewrite Eg. cbn [fst].
          destruct modo as [modid|]; [|exact H]. destruct (by_id st1 modid) as [mo|]; [|exact H].
          apply leak_import_all_loop in H. cbn in H. apply orb_false_iff in H. apply H.
        + intros Hl HI Hobj Hobjm.
          assert (Hq : qual = []).
          { destruct Hns as [Hns | [Hq _]]; [discriminate | exact Hq]. }
          subst qual. rewrite app_nil_r in *.
          assert (Hbody : body = m_body mm) by (rewrite (scope_body_nil P _ _ Hfm) in Hsb; inversion Hsb; reflexivity).
          subst body.
          destruct (mod_facts3 _ _ _ HI Hobjm Hfm) as [Hcp Hk]. rewrite Hcp, Hk in *.
          assert (Hmne : m <> []) by (eapply (module_ne P WF); eapply find_is_module; eassumption).
          pose proof (relative_level m (m_pkg mm) level modname Hmne) as Hrl.
          destruct (import_base m (m_pkg mm) level modname) as [X|] eqn:Eib.
          2:{ split; [exact HI|]. split; [apply mono_refl|]. split; [intros k b v Hs; discriminate|].
              intros l mn mm0 X0 k v Es _ Hf0 Hr0. inversion Es; subst l mn.
              rewrite Hfm in Hf0. inversion Hf0; subst mm0. congruence. }
          unfold import_all in *. destruct (gpm st X) as [st1 modo] eqn:Eg.
          pose proof (Hgpm st X) as Sg. pose proof (Hgpm2 st X HI) as Sg2. rewrite Eg in Sg, Sg2. cbn [fst snd] in Sg, Sg2.
          destruct modo as [modid|].
          2:{ destruct (proj2 Sg Hl HI) as [HI1 M1]. split; [exact HI1|]. split; [exact M1|].
              split; [intros k b v Hs; discriminate|].
              intros l mn mm0 X0 k v Es _ Hf0 Hr0 Him0. inversion Es; subst l mn.
              rewrite Hfm in Hf0. inversion Hf0; subst mm0. assert (X0 = X) by congruence. subst X0. congruence. }
          destruct Sg2 as [? HimX]; subst modid.
          destruct (by_id st1 X) as [mo|] eqn:Ebymo.
          2:{ exfalso. assert (Hl1 : leak st1 = false) by exact Hl.
              destruct (proj2 Sg Hl1 HI) as [HI1 _].
              apply (is_module_find P) in HimX. destruct HimX as [mx Hfx].
              pose proof (find_module_some P _ _ Hfx) as [Hinx Hpx].
              destruct (has_obj_by_id _ _ HI1 (mods_has_obj' _ _ HI1 Hinx)) as [c [Hby _]]. rewrite Hpx in Hby. congruence. }
          pose proof Hl as Hlfin.
          apply leak_import_all_loop in Hl. cbn [flag_leak leak] in Hl. apply orb_false_iff in Hl. destruct Hl as [Hl1 Hproc].
          apply negb_false_iff in Hproc.
          destruct (proj2 Sg Hl1 HI) as [HI1 M1].
          pose proof (by_id_some _ _ _ Ebymo) as [Hinmo Hidmo].
          pose proof (find_module_some P _ _ Hfm) as [Hinm Hpm].
          pose proof HimX as HimX'. apply (is_module_find P) in HimX'. destruct HimX' as [mx Hfx].
          assert (Err : resolve_relative m (m_pkg mm) level modname = Some X) by (symmetry; exact Hrl).
          assert (Hrr' : resolve_relative (m_path mm) (m_pkg mm) level modname = Some X) by (rewrite Hpm; exact Err).
          set (names := match all_of P X with Some l => l | None => star_names st1 mo end) in *.
          assert (HI0 : Inv3 P (flag_leak (negb (is_processed (o_state mo))) st1)) by (eapply Inv3_same_objs; [|exact HI1]; reflexivity).
          assert (Hcand : forall k, In k names -> star_cand P X k = true).
          { intros k Hkn. unfold star_cand, names, all_of, exported in *. rewrite Hfx in *.
            destruct (m_all mx) as [l|] eqn:Eall.
            - apply andb_true_iff. split; [|reflexivity].
              unfold mem_name. apply existsb_exists. exists k. split; [exact Hkn | apply N.eqb_refl].
            - unfold star_names in Hkn. apply filter_In in Hkn. destruct Hkn as [Hkn Hpub].
              apply andb_true_iff. split; [exact Hpub|]. cbn [is_some orb].
              assert (Hrmo : reg_ok P mo X []).
              { assert (Hid0 : o_id mo = X ++ []) by (rewrite app_nil_r; exact Hidmo).
                apply (ctx_reg3 _ _ _ _ _ HI1 (scope_body_nil P _ _ Hfx) Hinmo Hid0). }
              apply in_app_iff in Hkn. destruct Hkn as [Hkn | Hkn].
              + apply in_flat_map in Hkn. destruct Hkn as [ch [Hinch Hch]].
                destruct (strip_prefix (o_path mo) (o_path ch)) as [r|] eqn:Esp; [|destruct Hch].
                destruct r as [|k0 [|k1 r]]; [destruct Hch | | destruct Hch].
                destruct Hch as [Hch | []]. subst k0.
                apply strip_prefix_some in Esp.
                rewrite (proj1 (I_good _ _ HI1 _ Hinmo)), Hidmo in Esp.
                destruct (I_good _ _ HI1 _ Hinch) as [Hpch [mc [qc [Hrc _]]]].
                destruct Hrc as [mmc Hfc Hkc | mc qc nc bodyc basec bc Hidc Hsbc Hbc Hkc | mc qc nc bodyc Hidc Hsbc Hbc Hkc].
                * rewrite <- Hpch, Esp in Hfc. rewrite (find_is_module P _ _ Hfc). rewrite orb_true_r. reflexivity.
                * rewrite <- Hpch, Esp in Hidc. rewrite app_assoc in Hidc. apply app_inj_tail in Hidc. destruct Hidc as [Hpre Hn]. subst nc.
                  assert (Hpre' : X ++ [] = mc ++ qc) by (rewrite app_nil_r; exact Hpre).
                  destruct (split_unique P WF _ _ _ _ _ _ (scope_body_nil P _ _ Hfx) Hsbc Hpre') as [? ?]; subst mc qc.
                  rewrite (scope_body_nil P _ _ Hfx) in Hsbc. inversion Hsbc; subst bodyc. rewrite Hbc. reflexivity.
                * rewrite <- Hpch, Esp in Hidc. rewrite app_assoc in Hidc. apply app_inj_tail in Hidc. destruct Hidc as [Hpre Hn]. subst nc.
                  assert (Hpre' : X ++ [] = mc ++ qc) by (rewrite app_nil_r; exact Hpre).
                  destruct (split_unique P WF _ _ _ _ _ _ (scope_body_nil P _ _ Hfx) Hsbc Hpre') as [? ?]; subst mc qc.
                  rewrite (scope_body_nil P _ _ Hfx) in Hsbc. inversion Hsbc; subst bodyc. rewrite Hbc. reflexivity.
              + apply in_map_iff in Hkn. destruct Hkn as [[k0 q0] [Hk0 Hin0]]. cbn in Hk0. subst k0.
                destruct (in_assoc_some _ _ _ Hin0) as [q1 Has].
                destruct (I_good _ _ HI1 _ Hinmo) as [_ [m1 [q1' [Hr1 [_ [He1 _]]]]]].
                destruct (reg_ok_fun P WF _ _ _ _ _ Hr1 Hrmo) as [? ?]; subst m1 q1'.
                destruct (proj2 (He1 k q1 Has) _ (scope_body_nil P _ _ Hfx)) as [Hb | [_ Hs]].
                * destruct (binder_of (m_body mx) k); [reflexivity | congruence].
                * rewrite Hs. rewrite !orb_true_r. reflexivity. }
          destruct (import_all_loop3 names (flag_leak (negb (is_processed (o_state mo))) st1) m mm level modname X (exports_of P st1 m)
                      Hfm Hin Err HimX Hcand) as [HIf [Mf Ef]].
          * exact Hlfin.
          * exact HI0.
          * eapply mono_has_obj; [exact M1 | exact Hobj].
          * exists mo. auto.
          * split; [exact HIf|]. split; [eapply mono_trans; [exact M1|]; eapply mono_trans; [|exact Mf]; apply mono_same_objs; reflexivity|].
            split; [intros k b v Hs; discriminate|].
            intros l mn mm0 X0 k v Es _ Hf0 Hr0 Him0 Hne0 Hex0 Hns0. inversion Es; subst l mn.
            rewrite Hfm in Hf0. inversion Hf0; subst mm0. assert (X0 = X) by congruence. subst X0.
            apply Ef. unfold names, all_of. rewrite Hfx. unfold exported in Hex0. rewrite Hfx in Hex0.
            destruct (m_all mx) as [l|].
            -- apply mem_name_in. exact Hex0.
            -- apply own_star_names; [|apply negb_true_iff; exact Hex0].
               assert (Hrmo : reg_ok P mo X []).
               { assert (Hid0 : o_id mo = X ++ []) by (rewrite app_nil_r; exact Hidmo).
                 apply (ctx_reg3 _ _ _ _ _ HI1 (scope_body_nil P _ _ Hfx) Hinmo Hid0). }
               eapply (I_closed _ _ HI1); eassumption.
      - (* class *)
        assert (Hns' : forallb no_star_stmt cbody = true).
        { destruct Hns as [Hns | [_ [l [mn E]]]]; [exact Hns | discriminate]. }
        clear Hns. rename Hns' into Hns.
        destruct (by_id st (m ++ qual)) as [par|] eqn:Eby.
        2:{ split; [auto|]. intros _ HI Hobj _. exfalso.
            destruct (has_obj_by_id _ _ HI Hobj) as [c [Hby _]]. congruence. }
        pose proof (by_id_some _ _ _ Eby) as [Hinp Hidp].
        set (expandbase := match base with Some b => Some (expand_name st par b) | None => None end).
        set (baseobj := match expandbase with
                        | Some q => match obj_for st q with
                                    | Some bo => if kind_eqb (o_kind bo) KClass then Some (o_id bo) else None
                                    | None => None
                                    end
                        | None => None
                        end).
        set (bad := match base with
                    | Some b => is_some baseobj && negb (expand_ok P st par b)
                    | None => false
                    end).
        set (c := {| o_path := o_path par ++ [n]; o_id := o_id par ++ [n]; o_kind := KClass; o_amap := [];
                     o_rawbase := base; o_initbase := expandbase; o_baseobj := baseobj; o_state := Processing;
                     o_mod := m |}).
        set (st1 := register (flag_leak bad st) c).
        set (f := exec_stmt P gpm m (o_id par ++ [n])).
        assert (Hb : binder_of body n = Some (BClass base cbody)).
        { eapply wf_uniq; try eassumption. cbn. rewrite N.eqb_refl. reflexivity. }
        assert (Hsbc : scope_body P m (qual ++ [n]) = Some cbody) by (eapply scope_body_snoc_intro; eassumption).
        assert (Hwfc : wf_body cbody) by (inversion Hwf; subst; eauto).
        rewrite Forall_forall in IHs.
        (* the body of the class, statement by statement *)
        assert (Hfold : forall st0,
                   (leak (fold_left f cbody st0) = false -> leak st0 = false) /\
                   (leak (fold_left f cbody st0) = false -> Inv3 P st0 ->
                    (has_obj st0 (m ++ qual ++ [n]) /\ has_obj st0 m) ->
                    Inv3 P (fold_left f cbody st0) /\ mono st0 (fold_left f cbody st0) /\
                    forall s', In s' cbody -> est m (qual ++ [n]) s' (fold_left f cbody st0))).
        { intro st0.
          apply (fold_Step_est P (fun s0 => has_obj s0 (m ++ qual ++ [n]) /\ has_obj s0 m) (est m (qual ++ [n])) f cbody st0).
          - intros s1 s2 Hm [H1 H2]. split; eapply mono_has_obj; eassumption.
          - intros a s1 s2 Hm He. eapply est_mono; eassumption.
          - intros s' s0 Hs'. unfold f. rewrite Hidp, <- app_assoc.
            destruct (IHs s' Hs' s0 m (qual ++ [n]) cbody mm Hfm Hsbc Hwfc Hs') as [L C].
            + left. rewrite forallb_forall in Hns. apply Hns. exact Hs'.
            + split; [exact L|].
              intros Hl0 HI0 [Ho1 Ho2]. apply C; assumption. }
        destruct (Hfold st1) as [Lf Cf].
        split.
        + cbn. intro H. apply Lf in H. unfold st1 in H. rewrite leak_register in H.
          cbn in H. apply orb_false_iff in H. apply H.
        + intros Hl HI Hobj Hobjm. cbn [upd_obj leak] in Hl.
          assert (Hl1 : leak st1 = false) by (apply Lf; exact Hl).
          assert (Hbad : bad = false /\ leak st = false).
          { unfold st1 in Hl1. rewrite leak_register in Hl1. cbn in Hl1. apply orb_false_iff in Hl1. tauto. }
          destruct Hbad as [Hbad _].
          destruct (ctx_reg3 _ _ _ _ _ HI Hsb Hinp Hidp) as [Hrp [Hpp Hmp]].
          (* the class object *)
          assert (Hgc : good3 P c).
          { split; [cbn; rewrite Hpp, Hidp; reflexivity|].
            exists m, (qual ++ [n]). split; [|split; [reflexivity|split]].
            - eapply reg_class; try eassumption; [cbn; rewrite Hidp, app_assoc; reflexivity | reflexivity].
            - intros k q Hk. discriminate.
            - split.
              + intros _. cbn. symmetry. eapply class_base_snoc; eassumption.
              + intros bid bexpr m' q' Hbo Hcb Hev. cbn in Hbo.
                rewrite (class_base_snoc _ _ _ _ _ _ Hsb Hb) in Hcb.
                rewrite removelast_last in Hev.
                unfold baseobj, expandbase in Hbo. rewrite Hcb in Hbo.
                destruct (obj_for st (expand_name st par bexpr)) as [bo|] eqn:Ebo; [|discriminate].
                destruct (kind_eqb (o_kind bo) KClass) eqn:Ekb; [|discriminate]. inversion Hbo; subst bid.
                assert (Hok : expand_ok P st par bexpr = true).
                { unfold bad, baseobj, expandbase in Hbad. rewrite Hcb in Hbad. rewrite Ebo, Ekb in Hbad. cbn in Hbad.
                  destruct (expand_ok P st par bexpr); [reflexivity|discriminate]. }
                pose proof (run_expand_sound P WF st par m qual body bexpr _ HI Hinp Hrp Hmp Hsb Hok Hev) as Habs.
                apply obj_for_some in Ebo. destruct Ebo as [Hinbo Hpbo]. rewrite <- Hpbo in Habs.
                destruct (C_reg _ _ (inv3_coherent P WF _ HI) bo _ Hinbo Habs) as [Hid _]. exact Hid. }
          assert (HI1 : Inv3 P st1).
          { unfold st1. apply (Inv3_register P); [eapply Inv3_same_objs; [|exact HI]; reflexivity | exact Hgc | |].
            - cbn. discriminate.
            - intros bid Hbo. cbn in Hbo. unfold baseobj, expandbase in Hbo.
              destruct base as [bexpr|]; [|discriminate].
              destruct (obj_for st (expand_name st par bexpr)) as [bo|] eqn:Ebo; [|discriminate].
              destruct (kind_eqb (o_kind bo) KClass) eqn:Ek; [|discriminate]. inversion Hbo; subst bid.
              apply obj_for_some in Ebo. exists bo. split; [apply Ebo|]. split; [reflexivity|].
              destruct (o_kind bo); try discriminate. reflexivity. }
          assert (M01 : mono st st1).
          { unfold st1. eapply mono_trans; [apply mono_same_objs with (st' := flag_leak bad st); reflexivity | apply mono_register]. }
          assert (Hobjc : has_obj st1 (m ++ qual ++ [n])).
          { replace (m ++ qual ++ [n]) with (o_id c) by (cbn; rewrite Hidp, app_assoc; reflexivity).
            apply register_has_obj; [exact HI1 | cbn; rewrite Hpp, Hidp; reflexivity]. }
          destruct (Cf Hl HI1 (conj Hobjc (mono_has_obj _ _ _ M01 Hobjm))) as [HI2 [M12 E2]].
          set (st2 := fold_left f cbody st1) in *.
          assert (HI3 : Inv3 P (upd_obj st2 (o_id par ++ [n]) (set_state Processed))).
          { apply (Inv3_set_closed P); [exact HI2|].
            intros o m' q' k v Hino Hido Hro Hnsk.
            assert (Hido' : o_id o = m ++ (qual ++ [n])) by (rewrite Hido, Hidp, app_assoc; reflexivity).
            destruct (reg_ctx P WF _ _ _ _ _ _ Hro Hido' Hsbc) as [? ?]; subst m' q'.
            inversion Hnsk as [m0 qual0 body0 n0 b0 v0 Hsb0 Hbo Hpb | m0 mm0 n0 Hfm0 Hpk0 Hbo0 Him0 Hq
                               | m0 mm0 l0 mn0 X0 n0 v0 Hfm0 Hin0 Hrr0 Him0 Hne0 Hex0 Hns0 Hq]; subst;
              [| destruct qual; discriminate | destruct qual; discriminate].
            - rewrite Hsbc in Hsb0. inversion Hsb0; subst body0.
              destruct (binder_of_in _ _ _ Hbo) as [s' [Hs' Hsb']].
              destruct (proj1 (E2 s' Hs') k b0 v Hsb' Hpb) as [c2 [Hin2 [Hid2 Hown2]]].
              assert (c2 = o) by (apply (id_unique _ c2 o HI2 Hin2 Hino); congruence). subst c2. exact Hown2. }
          split; [exact HI3|].
          assert (M23 : mono st2 (upd_obj st2 (o_id par ++ [n]) (set_state Processed))) by (apply mono_upd; apply keeps_set_state).
          split; [eapply mono_trans; [exact M01 | eapply mono_trans; eassumption]|].
          apply est_nostar; [intros; discriminate|]. intros k b v Hs _. cbn in Hs. destruct (N.eqb n k) eqn:E; [|discriminate]. apply N.eqb_eq in E. subst k.
          eapply mono_has_entry; [exact (mono_trans _ _ _ M12 M23)|].
          destruct Hobjc as [x [Hinx Hidx]].
          rewrite <- Hidp.
          destruct (M01 par Hinp) as [par1 [Hinp1 [Hpp1 [Hidp1 _]]]].
          rewrite <- Hidp1. apply (child_has_entry st1 par1 x n HI1 Hinp1 Hinx).
          rewrite (proj1 (I_good _ _ HI1 _ Hinx)), Hidx, Hpp1, Hpp, app_assoc. reflexivity.
      - (* def *)
        destruct (by_id st (m ++ qual)) as [par|] eqn:Eby.
        2:{ split; [auto|]. intros _ HI Hobj _. exfalso.
            destruct (has_obj_by_id _ _ HI Hobj) as [c [Hby _]]. congruence. }
        pose proof (by_id_some _ _ _ Eby) as [Hinp Hidp].
        split; [rewrite leak_register; auto|].
        intros _ HI Hobj _.
        destruct (ctx_reg3 _ _ _ _ _ HI Hsb Hinp Hidp) as [Hrp [Hpp Hmp]].
        assert (Hb : binder_of body n = Some BDef).
        { eapply wf_uniq; try eassumption. cbn. rewrite N.eqb_refl. reflexivity. }
        set (o := new_obj (o_path par ++ [n]) (o_id par ++ [n]) KFun m).
        assert (Hro : reg_ok P o m (qual ++ [n])).
        { eapply reg_fun; try eassumption; [cbn; rewrite Hidp, app_assoc; reflexivity | reflexivity]. }
        assert (HI1 : Inv3 P (register st o)).
        { apply (Inv3_register P); [exact HI| | |].
          - split; [cbn; rewrite Hpp, Hidp; reflexivity|]. exists m, (qual ++ [n]).
            split; [exact Hro|]. split; [reflexivity|]. split; [intros k q Hk; discriminate|].
            split; [cbn; discriminate | intros bid bexpr m' q' Hbo; discriminate].
          - intros _ m' q' k v Hr' Hnsk. destruct (reg_ok_fun P WF _ _ _ _ _ Hr' Hro) as [? ?]; subst m' q'.
            eapply fun_scope_empty; eassumption.
          - intros bid Hbo. discriminate. }
        split; [exact HI1|]. split; [apply mono_register|].
        apply est_nostar; [intros; discriminate|]. intros k b v Hs _. cbn in Hs. destruct (N.eqb n k) eqn:E; [|discriminate]. apply N.eqb_eq in E. subst k.
        assert (Ho : has_obj (register st o) (o_id o)) by (apply register_has_obj; [exact HI1 | cbn; rewrite Hpp, Hidp; reflexivity]).
        destruct Ho as [x [Hinx Hidx]].
        destruct (mono_register st o par Hinp) as [par1 [Hinp1 [Hpp1 [Hidp1 _]]]].
        rewrite <- Hidp, <- Hidp1. apply (child_has_entry _ par1 x n HI1 Hinp1 Hinx).
        rewrite (proj1 (I_good _ _ HI1 _ Hinx)), Hidx, Hpp1. cbn. rewrite Hidp, Hpp. reflexivity.
      - (* alias *)
        destruct (by_id st (m ++ qual)) as [ctx|] eqn:Eby.
        2:{ split; [auto|]. intros _ HI Hobj _. exfalso.
            destruct (has_obj_by_id _ _ HI Hobj) as [c [Hby _]]. congruence. }
        pose proof (by_id_some _ _ _ Eby) as [Hinc Hidc].
        assert (Hb : binder_of body target = Some (BAlias expr)).
        { eapply wf_uniq; try eassumption. cbn. rewrite N.eqb_refl. reflexivity. }
        destruct (child st ctx target) as [ch|] eqn:Ech.
        + split; [auto|]. intros _ HI _ _. split; [exact HI|]. split; [apply mono_refl|].
          apply est_nostar; [intros; discriminate|]. intros k b v Hs _. cbn in Hs. destruct (N.eqb target k) eqn:E; [|discriminate]. apply N.eqb_eq in E. subst k.
          exists ctx. split; [exact Hinc|]. split; [exact Hidc|]. unfold own. rewrite Ech. reflexivity.
        + split.
          * cbn. intro H. apply orb_false_iff in H. apply H.
          * intros Hl HI Hobj _. cbn [upd_obj leak flag_leak] in Hl. apply orb_false_iff in Hl. destruct Hl as [_ Hok].
            apply negb_false_iff in Hok.
            destruct (ctx_reg3 _ _ _ _ _ HI Hsb Hinc Hidc) as [Hrc [Hpc Hmc]].
            assert (HI0 : Inv3 P (flag_leak (negb (expand_ok P st ctx expr)) st)) by (eapply Inv3_same_objs; [|exact HI]; reflexivity).
            split; [|split].
            -- apply (Inv3_set_amap P); [exact HI0|]. intros o m' qual' Hino Hid Hr.
               destruct (reg_ctx P WF _ _ _ _ _ _ Hr Hid Hsb) as [? ?]; subst m' qual'.
               split.
               ++ intros v' Ha. pose proof (attr_binder P WF _ _ _ _ _ _ Hsb Hb Ha) as Hpb.
                  inversion Hpb as [ | | | | | | m0 q0 n0 e0 v0 Hev Em Eq En Ee Ev].
                  exact (run_expand_sound P WF st ctx m qual body _ _ HI Hinc Hrc Hmc Hsb Hok Hev).
               ++ intros body' Hsb'. left. rewrite Hsb in Hsb'. inversion Hsb'; subst. congruence.
            -- eapply mono_trans; [apply mono_same_objs with (st' := flag_leak (negb (expand_ok P st ctx expr)) st); reflexivity|].
               apply mono_upd. apply keeps_set_amap.
            -- apply est_nostar; [intros; discriminate|]. intros k b v Hs _. cbn in Hs. destruct (N.eqb target k) eqn:E; [|discriminate]. apply N.eqb_eq in E. subst k.
               apply est_set_amap. exact Hobj.
    Qed.
  End WithGpm.
End Exec3.


Section Run3.
  Variable P : project.
  Hypothesis WF : wf_project P.

  Lemma top_stmt_star : forall mm s, In mm P -> In s (m_body mm) ->
    no_star_stmt s = true \/ (@nil name = [] /\ exists l mn, s = SStar l mn).
  Proof.
    intros mm s Hin Hs. pose proof (W_star_top P WF mm Hin) as H. rewrite forallb_forall in H. specialize (H s Hs).
    destruct s; try (left; reflexivity).
    - right. split; [reflexivity|]. eauto.
    - left. exact H.
  Qed.

  Lemma mods_has_obj : forall st mm, Inv3 P st -> In mm P -> has_obj st (m_path mm).
  Proof. intros st mm HI Hin. destruct (I_mods _ _ HI mm Hin) as [o [Ho Hid]]. exists o. auto. Qed.

  Lemma process_module_step : forall fuel st mid, Step P st (process_module fuel P st mid).
  Proof.
    induction fuel as [|f IH]; intros st mid; cbn [process_module].
    - apply Step_same_objs; [reflexivity | auto].
    - set (gpm := fun (s : state) (q : path) =>
                    match obj_for s q with
                    | Some mo =>
                      if is_modkind (o_kind mo)
                      then match o_state mo with
                           | Unprocessed => (process_module f P s (o_id mo), Some (o_id mo))
                           | _ => (s, Some (o_id mo))
                           end
                      else (s, None)
                    | None => (s, None)
                    end).
      assert (Hgpm : forall s q, Step P s (fst (gpm s q))).
      { intros s q. unfold gpm. destruct (obj_for s q) as [mo|]; [|apply Step_refl].
        destruct (is_modkind (o_kind mo)); [|apply Step_refl].
        destruct (o_state mo); cbn [fst]; try apply Step_refl. apply IH. }
      assert (Hgpm2 : forall s q, Inv3 P s ->
                match snd (gpm s q) with
                | Some i => i = q /\ is_module P q = true
                | None => is_module P q = false
                end).
      { intros s q HIs. unfold gpm. destruct (obj_for s q) as [mo|] eqn:Eo.
        - apply obj_for_some in Eo. destruct Eo as [Hinmo Hpmo].
          destruct (I_good _ _ HIs _ Hinmo) as [Hpid [m' [q' [Hr _]]]].
          destruct (is_modkind (o_kind mo)) eqn:Ek.
          + assert (Hres : o_id mo = q /\ is_module P q = true).
            { split; [congruence|]. rewrite (reg_kind P _ _ _ Hr) in Ek. destruct q'; [|discriminate].
              inversion Hr as [mm0 Hf0 Hk0 Hm0 Hq0 | m0 q0 n0 b0 base0 bb0 Hid0 Hsb0 Hb0 Hk0 Hm0 Hq0 | m0 q0 n0 b0 Hid0 Hsb0 Hb0 Hk0 Hm0 Hq0];
                [| destruct q0; discriminate | destruct q0; discriminate].
              rewrite <- Hpmo, Hpid. eapply find_is_module; eassumption. }
            destruct (o_state mo); exact Hres.
          + cbn. destruct (is_module P q) eqn:Em; [|reflexivity]. exfalso.
            apply (is_module_find P) in Em. destruct Em as [mq Hfq].
            pose proof (find_is_module P _ _ Hfq) as Hmq.
            inversion Hr as [mm0 Hf0 Hk0 Hm0 Hq0 | m0 q0 n0 b0 base0 bb0 Hid0 Hsb0 Hb0 Hk0 Hm0 Hq0 | m0 q0 n0 b0 Hid0 Hsb0 Hb0 Hk0 Hm0 Hq0].
            * rewrite Hk0 in Ek. destruct (m_pkg mm0); discriminate.
            * apply (def_not_module P WF _ _ _ _ _ Hsb0 Hb0). rewrite <- Hid0, <- Hpid, Hpmo. exact Hmq.
            * apply (def_not_module P WF _ _ _ _ _ Hsb0 Hb0). rewrite <- Hid0, <- Hpid, Hpmo. exact Hmq.
        - cbn. destruct (is_module P q) eqn:Em; [|reflexivity]. exfalso.
          apply (is_module_find P) in Em. destruct Em as [mq Hfq].
          pose proof (find_module_some P _ _ Hfq) as [Hinq Hpq].
          destruct (I_mods _ _ HIs mq Hinq) as [x [Hinx Hidx]].
          eapply obj_for_none_in; [exact Eo | exact Hinx |].
          rewrite (proj1 (I_good _ _ HIs _ Hinx)). congruence. }
      destruct (find_module P mid) as [mm|] eqn:Efm; [|apply Step_refl].
      pose proof (find_module_some P _ _ Efm) as [Hinm Hpm].
      pose proof (scope_body_nil P _ _ Efm) as Hsb.
      set (st1 := upd_obj st mid (set_state Processing)).
      set (fbody := exec_stmt P gpm mid mid).
      assert (Hfold :
        (leak (fold_left fbody (m_body mm) st1) = false -> leak st1 = false) /\
        (leak (fold_left fbody (m_body mm) st1) = false -> Inv3 P st1 -> has_obj st1 mid ->
         Inv3 P (fold_left fbody (m_body mm) st1) /\ mono st1 (fold_left fbody (m_body mm) st1) /\
         forall s', In s' (m_body mm) -> est P mid [] s' (fold_left fbody (m_body mm) st1))).
      { apply (fold_Step_est P (fun s0 => has_obj s0 mid) (est P mid []) fbody (m_body mm) st1).
        - intros s1 s2 Hm H. eapply mono_has_obj; eassumption.
        - intros a s1 s2 Hm He. eapply est_mono; eassumption.
        - intros s' s0 Hs'. unfold fbody.
          pose proof (stmt_step_all P WF gpm Hgpm Hgpm2 s' s0 mid [] (m_body mm) mm Efm Hsb
                        (W_body P WF mm Hinm) Hs') as H.
          rewrite app_nil_r in H.
          destruct H as [L C].
          + eapply top_stmt_star; eassumption.
          + split; [exact L|]. intros Hl HI0 Ho. apply C; assumption. }
      destruct Hfold as [Lf Cf].
      set (st2 := fold_left fbody (m_body mm) st1) in *.
      split.
      + cbn. intro H. apply Lf in H. exact H.
      + intros Hl HI. cbn [upd_obj leak] in Hl.
        assert (Hl1 : leak st1 = false) by (apply Lf; exact Hl).
        assert (HI1 : Inv3 P st1) by (apply (Inv3_set_open P); [exact HI | reflexivity]).
        assert (M01 : mono st st1) by (apply mono_upd; apply keeps_set_state).
        assert (Hobj : has_obj st1 mid).
        { rewrite <- Hpm. apply mods_has_obj; assumption. }
        destruct (Cf Hl HI1 Hobj) as [HI2 [M12 E2]].
        split.
        * apply (Inv3_set_closed P); [exact HI2|].
          intros o m' q' k v Hino Hido Hro Hnsk.
          assert (Hido' : o_id o = mid ++ []) by (rewrite app_nil_r; exact Hido).
          destruct (reg_ctx P WF _ _ _ _ _ _ Hro Hido' Hsb) as [? ?]; subst m' q'.
          inversion Hnsk as [m0 qual0 body0 n0 b0 v0 Hsb0 Hbo Hpb Em Eq En Ev | m0 mm0 n0 Hfm0 Hpk0 Hbo0 Him0 Em Eq En Ev
                             | m0 mm0 l0 mn0 X0 n0 v0 Hfm0 Hin0 Hrr0 Him0 Hne0 Hex0 Hns0 Em Eq En Ev];
            [subst m0 qual0 n0 v0 | subst m0 n0 | subst m0 n0 v0].
          -- rewrite Hsb in Hsb0. inversion Hsb0; subst body0.
             destruct (binder_of_in _ _ _ Hbo) as [s' [Hs' Hsb']].
             destruct (proj1 (E2 s' Hs') k b0 v Hsb' Hpb) as [c2 [Hin2 [Hid2 Hown2]]].
             rewrite app_nil_r in Hid2.
             assert (c2 = o) by (apply (id_unique P _ c2 o HI2 Hin2 Hino); congruence). subst c2. exact Hown2.
          -- apply (is_module_find P) in Him0. destruct Him0 as [mk Hmk].
             pose proof (find_module_some P _ _ Hmk) as [Hink Hpk].
             destruct (I_mods _ _ HI2 mk Hink) as [x [Hinx Hidx]].
             unfold own, child. rewrite (proj1 (I_good _ _ HI2 _ Hino)), Hido.
             replace (mid ++ [k]) with (o_path x) by (rewrite (proj1 (I_good _ _ HI2 _ Hinx)); congruence).
             rewrite obj_for_in; [reflexivity | apply (I_nodup _ _ HI2) | exact Hinx].
          -- rewrite Efm in Hfm0. inversion Hfm0; subst mm0.
             destruct (proj2 (E2 _ Hin0) l0 mn0 mm X0 k v eq_refl eq_refl Efm Hrr0 Him0 Hne0 Hex0 Hns0) as [c2 [Hin2 [Hid2 Hown2]]].
             assert (c2 = o) by (apply (id_unique P _ c2 o HI2 Hin2 Hino); congruence). subst c2. exact Hown2.
        * eapply mono_trans; [exact M01|]. eapply mono_trans; [exact M12|]. apply mono_upd. apply keeps_set_state.
  Qed.

  Lemma process_all_step : forall order st, Step P st (process_all P order st).
  Proof.
    intros order st. unfold process_all. apply fold_Step. intros mid st0 _.
    destruct (by_id st0 mid) as [mo|]; [|apply Step_refl].
    destruct (o_state mo); try apply Step_refl. apply process_module_step.
  Qed.

  (* defaultPostProcess: unresolved bases are resolved again, in the final registry *)
  Lemma keeps_final_base : forall st o, keeps o (final_base st o).
  Proof.
    intros st o. unfold final_base.
    destruct (o_kind o); try apply keeps_refl. destruct (o_rawbase o); try apply keeps_refl.
    destruct (o_baseobj o); try apply keeps_refl. destruct (parent_of st o); try apply keeps_refl.
    destruct (resolve_name st o0 p); try apply keeps_refl.
    destruct (kind_eqb (o_kind o1) KClass); [apply keeps_set_baseobj | apply keeps_refl].
  Qed.

  Lemma state_final_base : forall st o, o_state (final_base st o) = o_state o.
  Proof.
    intros st o. unfold final_base.
    destruct (o_kind o); try reflexivity. destruct (o_rawbase o); try reflexivity.
    destruct (o_baseobj o); try reflexivity. destruct (parent_of st o); try reflexivity.
    destruct (resolve_name st o0 p); try reflexivity.
    destruct (kind_eqb (o_kind o1) KClass); reflexivity.
  Qed.

  Lemma existsb_false_in : forall {A} (f : A -> bool) l x, existsb f l = false -> In x l -> f x = false.
  Proof.
    intros A f l x H Hin. destruct (f x) eqn:E; [|reflexivity].
    assert (existsb f l = true) by (apply existsb_exists; exists x; auto). congruence.
  Qed.

  Lemma final_base_cases : forall st o, final_base st o = o \/ exists b, final_base st o = set_baseobj b o.
  Proof.
    intros st o. unfold final_base.
    destruct (o_kind o); auto. destruct (o_rawbase o); auto. destruct (o_baseobj o); auto.
    destruct (parent_of st o); auto. destruct (resolve_name st o0 p); auto.
    destruct (kind_eqb (o_kind o1) KClass); eauto.
  Qed.

  Lemma final_base_baseobj : forall st o bid, o_baseobj (final_base st o) = Some bid ->
    o_baseobj o = Some bid \/
    (o_baseobj o = None /\ exists par raw bo, o_kind o = KClass /\ o_rawbase o = Some raw /\ parent_of st o = Some par /\
        resolve_name st par raw = Some bo /\ kind_eqb (o_kind bo) KClass = true /\ bid = o_id bo).
  Proof.
    intros st o bid H. unfold final_base in H.
    destruct (o_kind o) eqn:Hk; auto. destruct (o_rawbase o) as [raw|] eqn:Eraw; auto.
    destruct (o_baseobj o) eqn:Ebo; [left; congruence|].
    destruct (parent_of st o) as [par|] eqn:Epar; [|cbn in H; congruence].
    destruct (resolve_name st par raw) as [bo|] eqn:Eres; [|cbn in H; congruence].
    destruct (kind_eqb (o_kind bo) KClass) eqn:Ekb; [|cbn in H; congruence].
    cbn in H. inversion H; subst. right. split; [reflexivity|]. exists par, raw, bo. auto 10.
  Qed.

  Lemma finalize_inv : forall st, leak (finalize_bases P st) = false -> Inv3 P st -> Inv3 P (finalize_bases P st).
  Proof.
    intros st Hl HI. cbn [finalize_bases leak] in Hl. apply orb_false_iff in Hl. destruct Hl as [_ Hbad].
    assert (Hm : mono st (finalize_bases P st)).
    { intros o Hin. exists (final_base st o). split; [cbn; apply in_map; exact Hin | apply keeps_final_base]. }
    assert (Hin' : forall o', In o' (objs (finalize_bases P st)) -> exists o, In o (objs st) /\ o' = final_base st o).
    { intros o' H. cbn in H. apply in_map_iff in H. destruct H as [o [He Hin]]. eauto. }
    constructor.
    - (* good *)
      intros o' H. destruct (Hin' o' H) as [o [Hin He]]. subst o'.
      destruct (I_good _ _ HI _ Hin) as [Hp [m [qual [Hr [Hmod [He [Hb1 Hb2]]]]]]].
      pose proof (keeps_final_base st o) as [Kp [Ki [Kk Ka]]].
      split; [congruence|]. exists m, qual. split; [eapply reg_ok_ext; [| |exact Hr]; assumption|].
      assert (Hfields : o_mod (final_base st o) = o_mod o /\ o_amap (final_base st o) = o_amap o /\
                        o_rawbase (final_base st o) = o_rawbase o).
      { destruct (final_base_cases st o) as [E | [b E]]; rewrite E; auto. }
      destruct Hfields as [F1 [F2 F3]].
      split; [congruence|]. split; [rewrite F2; exact He|].
      split; [intros Hk'; rewrite F3; apply Hb1; congruence|].
      intros bid bexpr m' q' Hbid Hcb Hev.
      destruct (final_base_baseobj _ _ _ Hbid) as [Hold | [Hnone [par [raw [bo [Hk [Eraw [Epar [Eres [Ekb Hbo]]]]]]]]]].
      + eapply Hb2; eassumption.
      + subst bid.
        assert (Ecb : class_base P m qual = Some raw) by (rewrite <- (Hb1 Hk); exact Eraw).
        rewrite Ecb in Hcb. inversion Hcb; subst bexpr.
        inversion Hr as [mm0 Hf0 Hk0 Hm0 Hq0 | m0 q0 n0 body0 base0 bb0 Hid0 Hsb0 Hbd0 Hk0' Hm0 Hq0 | m0 q0 n0 body0 Hid0 Hsb0 Hbd0 Hk0' Hm0 Hq0].
        * rewrite Hk in Hk0. destruct (m_pkg mm0); discriminate.
        * subst m0 qual. rewrite removelast_last in Hev.
          pose proof Epar as Epar0.
          unfold parent_of, parent_path in Epar. rewrite Hp, Hid0 in Epar.
          rewrite app_assoc, removelast_last in Epar.
          destruct (m ++ q0) eqn:Emq.
          { exfalso. pose proof (module_ne P WF _ (scope_body_module P _ _ _ Hsb0)). destruct m; [congruence|discriminate]. }
          rewrite <- Emq in Epar. apply obj_for_some in Epar. destruct Epar as [Hinpar Hppar].
          assert (Hidpar : o_id par = m ++ q0) by (rewrite <- (proj1 (I_good _ _ HI _ Hinpar)); exact Hppar).
          destruct (ctx_reg3 P WF _ _ _ _ _ HI Hsb0 Hinpar Hidpar) as [Hrp [_ Hmp]].
          assert (Hok : expand_ok P st par raw = true).
          { pose proof (existsb_false_in _ _ _ Hbad Hin) as Hb. unfold final_base_bad in Hb.
            rewrite Hk, Eraw, Hnone, Epar0 in Hb. rewrite Hbid in Hb. cbn in Hb.
            destruct (expand_ok P st par raw); [reflexivity|discriminate]. }
          pose proof (run_expand_sound P WF st par m q0 body0 raw _ HI Hinpar Hrp Hmp Hsb0 Hok Hev) as Habs.
          unfold resolve_name in Eres. apply obj_for_some in Eres. destruct Eres as [Hinbo Hpbo].
          rewrite <- Hpbo in Habs.
          destruct (C_reg _ _ (inv3_coherent P WF _ HI) bo _ Hinbo Habs) as [Hid _]. exact Hid.
        * congruence.
    - intros mm Hmm. destruct (I_mods _ _ HI mm Hmm) as [o [Hin Hid]].
      destruct (Hm o Hin) as [o' [Hino' [_ [Hi _]]]]. exists o'. split; [exact Hino' | congruence].
    - cbn. rewrite map_map. erewrite map_ext; [apply (I_nodup _ _ HI)|].
      intro o. apply (keeps_final_base st o).
    - intros c' bid H Hb. destruct (Hin' c' H) as [c [Hin He]]. subst c'.
      assert (Hex : exists bo, In bo (objs st) /\ o_id bo = bid /\ o_kind bo = KClass).
      { destruct (final_base_baseobj _ _ _ Hb) as [Hold | [_ [par [raw [bo [_ [_ [_ [Eres [Ekb Hbo]]]]]]]]]].
        - eapply (I_base _ _ HI); eassumption.
        - unfold resolve_name in Eres. apply obj_for_some in Eres. exists bo. split; [apply Eres|]. split; [congruence|].
          destruct (o_kind bo); try discriminate. reflexivity. }
      destruct Hex as [bo [Hinbo [Hidbo Hkbo]]].
      destruct (Hm bo Hinbo) as [bo' [Hinbo' [_ [Hi' [Hk' _]]]]].
      exists bo'. repeat split; [exact Hinbo' | congruence | congruence].
    - intros o' m qual n v H Hp Hr Hns. destruct (Hin' o' H) as [o [Hin He]]. subst o'.
      rewrite state_final_base in Hp.
      eapply mono_own; [exact Hm | apply keeps_final_base |].
      eapply (I_closed _ _ HI); try eassumption.
      pose proof (keeps_final_base st o) as [_ [Ki [Kk _]]].
      eapply reg_ok_ext; [| |exact Hr]; congruence.
  Qed.

  Lemma init_inv3 : Inv3 P (init_state P).
  Proof.
    constructor.
    - intros o Hin. cbn in Hin. apply in_map_iff in Hin. destruct Hin as [mm [He Hin]]. subst o.
      split; [reflexivity|]. cbn. exists (m_path mm), [].
      split.
      { match goal with |- reg_ok _ ?o _ _ => change (reg_ok P o (o_id o) []) end.
        eapply (reg_mod _ _ mm); cbn; [apply (W_find P WF); exact Hin | reflexivity]. }
      split; [reflexivity|]. split; [intros n q Hk; discriminate|].
      split; [cbn; intros Hk; destruct (m_pkg mm); discriminate | intros bid bexpr m' q' Hb; discriminate].
    - intros mm Hin. eexists. split; [cbn; apply in_map; exact Hin | reflexivity].
    - cbn. rewrite map_map. cbn. apply (W_nodup P WF).
    - intros c bid Hin Hb. cbn in Hin. apply in_map_iff in Hin. destruct Hin as [mm [He _]]. subst c. discriminate.
    - intros o m qual n v Hin Hp. cbn in Hin. apply in_map_iff in Hin. destruct Hin as [mm [He _]]. subst o. discriminate.
  Qed.

  (* Whole-run theorem: after pydoctor has processed ANY well-formed star-free project (imports of every form, class
     and function definitions, alias assignments, base expressions), in any order, the coherence invariants hold --
     provided no expansion performed during the run left the guard (leak = false). *)
  Theorem run_coherent : forall order,
    leak (final_state P order) = false -> coherent P (final_state P order).
  Proof.
    intros order Hl. apply (inv3_coherent P WF). unfold final_state in *.
    apply finalize_inv; [exact Hl|].
    cbn [finalize_bases leak] in Hl. apply orb_false_iff in Hl. destruct Hl as [Hl _].
    destruct (process_all_step order (init_state P)) as [_ C]. apply C; [exact Hl | apply init_inv3].
  Qed.
End Run3.

(* ---------------------------------------------------------------- the property, for names bound in a namespace *)
Section Corollary.
  Variable P : project.
  Hypothesis WF : wf_project P.

  Lemma final_inv3 : forall order, leak (final_state P order) = false -> Inv3 P (final_state P order).
  Proof.
    intros order Hl. unfold final_state in *. apply (finalize_inv P WF); [exact Hl|].
    cbn [finalize_bases leak] in Hl. apply orb_false_iff in Hl. destruct Hl as [Hl _].
    destruct (process_all_step P WF order (init_state P)) as [_ C]. apply C; [exact Hl | apply (init_inv3 P WF)].
  Qed.

  Lemma py_ns_scope : forall m qual n v, py_ns P m qual n v -> exists body, scope_body P m qual = Some body.
  Proof.
    intros m qual n v H. inversion H; subst; [eauto | |]; eexists; eapply scope_body_nil; eassumption.
  Qed.

  (* The property, in the shape of its text: in any module or class namespace, for every name Python binds there, if
     pydoctor resolves the name to an object then it is the object Python binds. *)
  Theorem bound_name_sound : forall order m qual n v o,
    let st := final_state P order in
    leak st = false -> all_closed st = true ->
    py_ns P m qual n v ->
    resolve_in st (m ++ qual) [n] = Some o ->
    denotes o v.
  Proof.
    intros order m qual n v o st Hl Hc Hns Hres.
    pose proof (final_inv3 order Hl) as HI. fold st in HI.
    unfold resolve_in in Hres. destruct (obj_for st (m ++ qual)) as [ctx|] eqn:Ectx; [|discriminate].
    apply obj_for_some in Ectx. destruct Ectx as [Hin Hp].
    destruct (py_ns_scope _ _ _ _ Hns) as [body Hsb].
    assert (Hid : o_id ctx = m ++ qual) by (rewrite <- (proj1 (I_good _ _ HI _ Hin)); exact Hp).
    destruct (ctx_reg3 P WF _ _ _ _ _ HI Hsb Hin Hid) as [Hr [_ _]].
    assert (Hclosed : is_processed (o_state ctx) = true).
    { unfold all_closed in Hc. rewrite forallb_forall in Hc. apply Hc. exact Hin. }
    eapply (resolve_sound P st (inv3_coherent P WF _ HI) ctx m qual [n] v o); try eassumption.
    - rewrite Hp. eapply abs_scope_intro; eassumption.
    - unfold py_lookup. econstructor; [apply pn_own; exact Hns | constructor].
    - cbn [trail_ok]. rewrite (I_closed _ _ HI ctx m qual n v Hin Hclosed Hr Hns). cbn [negb andb].
      rewrite andb_false_r. reflexivity.
  Qed.
End Corollary.

(* ---------------------------------------------------------------- re-exports: Documentable.reparent (partial) *)
(* the state-independent half of `coherent`: the registry and the alias maps are sound, object by object *)
Definition sound_obj (P : project) (o : obj) : Prop :=
  (forall v, py_abs P (o_path o) v -> denotes o v) /\
  (forall n q vo v', assoc n (o_amap o) = Some q -> py_abs P (o_path o) vo -> py_attr P vo n v' -> py_abs P q v').
Definition sound_objs (P : project) (st : state) : Prop := forall o, In o (objs st) -> sound_obj P o.

Lemma coherent_sound_objs : forall P st, coherent P st -> sound_objs P st.
Proof.
  intros P st Hc o Hin. split.
  - intros v Ha. eapply (C_reg _ _ Hc); eassumption.
  - intros n q vo v' Has Ha Hat. eapply (C_amap _ _ Hc); eassumption.
Qed.

Section Reparent.
  Variable P : project.

  (* Documentable.reparent keeps the registry and the alias maps sound, provided Python agrees that (H1) the new full
     name denotes what the old one did and (H2) the old location still binds the old name to the moved object *)
  Theorem reparent_sound : forall st ob newpar newname oldpar,
    sound_objs P st -> parent_of st ob = Some oldpar ->
    let oldp := o_path ob in
    let newp := o_path newpar ++ [newname] in
    (forall rest v, py_abs P (newp ++ rest) v -> py_abs P (oldp ++ rest) v) ->
    (forall o vo v', In o (objs st) -> o_id o = o_id oldpar -> strip_prefix oldp (o_path o) = None ->
        py_abs P (o_path o) vo -> py_attr P vo (last oldp 0%N) v' -> py_abs P newp v') ->
    (forall o, In o (objs st) -> o_id o = o_id oldpar -> strip_prefix oldp (o_path o) = None) ->
    sound_objs P (reparent st ob newpar newname).
  Proof.
    intros st ob newpar newname oldpar Hs Hpar oldp newp H1 H2 H3. unfold reparent. rewrite Hpar. fold oldp newp.
    intros o'' Hin. apply upd_obj_in in Hin. destruct Hin as [o' [Hin' He]].
    cbn [objs] in Hin'. apply in_map_iff in Hin'. destruct Hin' as [o [Ho' Hin]].
    pose proof (Hs o Hin) as [S1 S2].
    assert (Hid' : o_id o' = o_id o) by (subst o'; destruct (strip_prefix oldp (o_path o)); reflexivity).
    assert (Hk' : o_kind o' = o_kind o) by (subst o'; destruct (strip_prefix oldp (o_path o)); reflexivity).
    assert (Ham' : o_amap o' = o_amap o) by (subst o'; destruct (strip_prefix oldp (o_path o)); reflexivity).
    assert (Hback : forall v, py_abs P (o_path o') v -> py_abs P (o_path o) v).
    { intros v Ha. subst o'. destruct (strip_prefix oldp (o_path o)) as [rest|] eqn:Esp; [|exact Ha].
      cbn in Ha. rewrite (strip_prefix_some _ _ _ Esp). apply H1. exact Ha. }
    rewrite Hid' in He.
    destruct (path_eqb (o_id o) (o_id oldpar)) eqn:Eid.
    - apply path_eqb_eq in Eid. subst o''.
      pose proof (H3 o Hin Eid) as Hnm.
      assert (Hsame : o' = o) by (subst o'; rewrite Hnm; reflexivity).
      rewrite Hsame. split.
      + intros v Ha. cbn in Ha. destruct (S1 v Ha) as [D1 D2]. split; assumption.
      + intros k q vo v' Has Ha Hat. cbn [set_amap o_amap o_path] in *. rewrite assoc_set_assoc in Has.
        destruct (N.eqb (last oldp 0%N) k) eqn:Ek.
        * apply N.eqb_eq in Ek. subst k. inversion Has; subst q. eapply H2; eassumption.
        * eapply S2; eassumption.
    - subst o''. split.
      + intros v Ha. destruct (S1 v (Hback v Ha)) as [D1 D2]. split; [rewrite Hid'; exact D1 | rewrite Hk'; exact D2].
      + intros k q vo v' Has Ha Hat. rewrite Ham' in Has. eapply S2; [exact Has | apply Hback; exact Ha | exact Hat].
  Qed.

  Hypothesis WF : wf_project P.

  Lemma py_abs_app_inv : forall q rest v, q <> [] -> py_abs P (q ++ rest) v ->
    exists v1, py_abs P q v1 /\ py_attrs P v1 rest v.
  Proof.
    intros q rest v Hq H. destruct q as [|a q]; [congruence|]. cbn in H. destruct H as [Hm Ha].
    apply (py_attrs_app_inv P) in Ha. destruct Ha as [v1 [Ha1 Ha2]]. exists v1. split; [split; assumption | exact Ha2].
  Qed.

  (* the Python facts behind a re-export: R/__init__ (or R.py) says `from <D> import x [as n]`, D defines x *)
  Record reexp (R : path) (n : name) (D : path) (x : name) : Prop := {
    RX_R : exists mmR level modname,
             find_module P R = Some mmR /\ binder_of (m_body mmR) n = Some (BFrom level modname x) /\
             resolve_relative R (m_pkg mmR) level modname = Some D;
    RX_D : is_module P D = true;
    RX_ne : path_eqb D R = false
  }.

  Lemma reexp_H1 : forall R n D x rest v, reexp R n D x ->
    py_abs P ((R ++ [n]) ++ rest) v -> py_abs P ((D ++ [x]) ++ rest) v.
  Proof.
    intros R n D x rest v [[mmR [level [modname [HfR [HbR HrR]]]]] HD Hne] Ha.
    apply py_abs_app_inv in Ha; [|destruct R; discriminate]. destruct Ha as [v1 [Ha1 Ha2]].
    eapply py_abs_app; [|exact Ha2].
    apply (py_abs_snoc_inv P) in Ha1; [|eapply (module_ne P WF); eapply find_is_module; eassumption].
    destruct Ha1 as [vR [HaR Hat]].
    rewrite (py_abs_module_inv P WF _ _ _ HfR HaR) in Hat.
    pose proof (attr_binder P WF R [] _ n _ v1 (scope_body_nil P _ _ HfR) HbR Hat) as Hpb.
    apply (is_module_find P) in HD. destruct HD as [mmD HfD].
    inversion Hpb as [ | | | | m0 qual0 n0 mm0 l0 mn0 o0 X0 v0 Hfm0 Hrr Him Hnex Hns
                      | m0 qual0 n0 mm0 l0 mn0 o0 Hfm0 Hrr Him | ]; subst.
    - rewrite HfR in Hfm0. inversion Hfm0; subst mm0. rewrite HrR in Hrr. inversion Hrr; subst X0.
      eapply py_abs_snoc; [eapply (py_abs_module P WF); eassumption | constructor; exact Hns].
    - rewrite HfR in Hfm0. inversion Hfm0; subst mm0. rewrite HrR in Hrr. inversion Hrr; subst D.
      rewrite path_eqb_refl in Hne. discriminate.
  Qed.

  Lemma reexp_H2 : forall R n D x vo v', reexp R n D x ->
    py_abs P D vo -> py_attr P vo x v' -> py_abs P (R ++ [n]) v'.
  Proof.
    intros R n D x vo v' [[mmR [level [modname [HfR [HbR HrR]]]]] HD Hne] Ha Hat.
    pose proof HD as HD'. apply (is_module_find P) in HD'. destruct HD' as [mmD HfD].
    rewrite (py_abs_module_inv P WF _ _ _ HfD Ha) in Hat. inversion Hat as [X0 n0 v0 Hns | |]; subst.
    eapply py_abs_snoc; [eapply (py_abs_module P WF); eassumption|]. constructor.
    eapply ns_bind; [apply scope_body_nil; exact HfR | exact HbR |].
    eapply pb_from; try eassumption.
  Qed.

  (* _handleReExport's move of a top-level definition x of a processed module D into the re-exporting module R under
     the name n keeps registry and alias maps sound *)
  Theorem reexport_sound : forall st ob cur oldpar R n D x,
    sound_objs P st -> reexp R n D x ->
    parent_of st ob = Some oldpar -> o_path ob = D ++ [x] -> o_path cur = R ->
    (forall o, In o (objs st) -> o_id o = o_id oldpar -> o_path o = D) ->
    sound_objs P (reparent st ob cur n).
  Proof.
    intros st ob cur oldpar R n D x Hs Hrx Hpar Hpob Hpcur HD.
    apply (reparent_sound st ob cur n oldpar Hs Hpar); cbn zeta; try rewrite Hpob; try rewrite Hpcur.
    - intros rest v. apply reexp_H1. exact Hrx.
    - intros o vo v' Hin Hid _ Ha Hat. rewrite (HD o Hin Hid) in Ha. rewrite last_last in Hat.
      eapply reexp_H2; eassumption.
    - intros o Hin Hid. rewrite (HD o Hin Hid).
      destruct (strip_prefix (D ++ [x]) D) as [r|] eqn:E; [|reflexivity]. exfalso.
      apply strip_prefix_some in E. apply (f_equal (@length _)) in E. rewrite !app_length in E. cbn in E. lia.
  Qed.
End Reparent.
