(* Proofs/RegistryWitness.v -- concrete histories (evaluated by vm_compute) on which the unguarded operations of the
   faithful model break the invariant: the witnesses of the C02 _refuted theorems.  Each history is also in the
   corpus of harness/c02.py, where model and real pydoctor agree on it state for state. *)
From Coq Require Import ZArith NArith List Bool Lia.
From PydoctorVerif Require Import Base.Sexp Model.Registry Spec.RegistryInv Proofs.RegistryBase Proofs.RegistryProofs
     Proofs.RegistryHistory.
Import ListNotations.
Local Open Scope N_scope.

Definition final (ops : list op) : state := fst (fst (run_ops init ops 0 true)).
Definition raised (ops : list op) : option N := snd (fst (run_ops init ops 0 true)).

Lemma reg_registered : forall s o, reg s o -> registered s o = true.
Proof.
  intros s o [p Hp]. unfold registered. apply existsb_exists. exists (p, o). split; [|apply N.eqb_refl].
  apply (aget_in path_eqb path_eqb_eq). exact Hp.
Qed.

Definition a_ : name := (1, []).
Definition b_ : name := (2, []).
Definition c_ : name := (3, []).
Definition d_ : name := (4, []).

(* m.py:  class K: def f; def f   then   class K  again *)
Definition ops_dup_nested : list op :=
  [AddModule false a_ None; AddChild CClass b_ 0 0; AddChild CFunction c_ 1 0; AddChild CFunction c_ 1 0;
   AddChild CClass b_ 0 0].
Lemma dup_nested_witness : raised ops_dup_nested = None /\ ~ Inv (final ops_dup_nested).
Proof.
  split; [vm_compute; reflexivity|]. intros HI.
  assert (H := inv_I1 _ HI [a_; b_; (3, [0])] 2).
  assert (E : rget [a_; b_; (3, [0])] (allobj (final ops_dup_nested)) = Some 2) by (vm_compute; reflexivity).
  specialize (H E). vm_compute in H. clear - H. discriminate H.
Qed.

(* pkg a with module a.b; class a.c with method d; class a.b.c with method a; a.b.c re-exported onto a.c *)
Definition ops_reparent_collision : list op :=
  [AddModule true a_ None; AddModule false b_ (Some 0); AddChild CClass c_ 0 0; AddChild CFunction d_ 2 0;
   AddChild CClass c_ 1 0; AddChild CFunction a_ 4 0; Reparent 4 0 c_].
Lemma reparent_collision_witness :
  raised ops_reparent_collision = None /\
  (exists o q, reg (final ops_reparent_collision) o /\ oparent (store (final ops_reparent_collision) o) = Some q /\
               registered (final ops_reparent_collision) q = false) /\
  ~ Inv (final ops_reparent_collision).
Proof.
  split; [vm_compute; reflexivity|].
  assert (R : reg (final ops_reparent_collision) 3) by (exists [a_; c_; d_]; vm_compute; reflexivity).
  split.
  - exists 3, 2. split; [exact R | split; vm_compute; reflexivity].
  - intros HI. assert (H := inv_par _ HI 3 2 R). assert (E : oparent (store (final ops_reparent_collision) 3) = Some 2)
      by (vm_compute; reflexivity).
    apply H in E. apply reg_registered in E. vm_compute in E. clear - E. discriminate E.
Qed.

(* top-level module a, then top-level package a -- on the code BEFORE the repairs 3d2c96f + f6d4b31
   (Registry.add_unprocessed_module_old / step_old): the replaced module stays in rootobjects, unregistered.
   With the repaired code the same history is guarded and satisfies Inv. *)
Definition ops_dup_root : list op := [AddModule false a_ None; AddModule true a_ None].
Fixpoint run_old (s : state) (ops : list op) : option state :=
  match ops with
  | [] => Some s
  | o :: t => match step_old s o with Some s1 => run_old s1 t | None => None end
  end.
Definition final_old (ops : list op) : state := match run_old init ops with Some s => s | None => init end.
Lemma dup_root_old_witness :
  run_old init ops_dup_root = Some (final_old ops_dup_root) /\ In 0 (roots (final_old ops_dup_root)) /\
  registered (final_old ops_dup_root) 0 = false /\ ~ Inv (final_old ops_dup_root).
Proof.
  split; [vm_compute; reflexivity|]. split; [vm_compute; left; reflexivity|]. split; [vm_compute; reflexivity|].
  intros HI. destruct (inv_roots _ HI 0) as [H _]; [vm_compute; left; reflexivity|].
  apply reg_registered in H. vm_compute in H. clear - H. discriminate H.
Qed.
Lemma dup_root_repaired : run_ops init ops_dup_root 0 true = (final ops_dup_root, None, true) /\ Inv (final ops_dup_root) /\
                          roots (final ops_dup_root) = [1].
Proof.
  assert (H : run_ops init ops_dup_root 0 true = (final ops_dup_root, None, true)) by (vm_compute; reflexivity).
  split; [exact H|]. split; [|vm_compute; reflexivity].
  exact (proj2 (run_ops_guarded_total ops_dup_root init 0 (final ops_dup_root) None inv_init H)).
Qed.

(* package a with module a.b; module c; a.b re-exported into c *)
Definition ops_module_reexport : list op :=
  [AddModule true a_ None; AddModule false b_ (Some 0); AddModule false c_ None; Reparent 1 2 b_].
Lemma module_reexport_witness : raised ops_module_reexport = None /\ ~ Inv (final ops_module_reexport).
Proof.
  split; [vm_compute; reflexivity|]. intros HI.
  assert (R : reg (final ops_module_reexport) 1) by (exists [c_; b_]; vm_compute; reflexivity).
  assert (H := inv_I5b _ HI 1 2 R). vm_compute in H. specialize (H eq_refl eq_refl). clear - H. discriminate H.
Qed.

(* roots index, b, moduleIndex *)
Definition ops_summary_names : list op :=
  [AddModule false (sym_index, []) None; AddModule false b_ None; AddModule false (sym_moduleIndex, []) None].
Lemma summary_collision_witness :
  raised ops_summary_names = None /\ inv_check (final ops_summary_names) = true /\
  (exists o f, reg (final ops_summary_names) o /\ page_file (final ops_summary_names) o = Some f /\
               In f (summary_files (final ops_summary_names))).
Proof.
  split; [vm_compute; reflexivity|]. split; [vm_compute; reflexivity|].
  exists 0, file_index. split; [exists [(sym_index, [])]; vm_compute; reflexivity|].
  split; [vm_compute; reflexivity|]. vm_compute. right. right. right. right. right. left. reflexivity.
Qed.

(* ---- the same witnesses as single steps: the state before satisfies the invariant (its history is guarded:
        C02_inv_history_exec), the unguarded operation completes, the state after does not ---- *)
Lemma final_guarded_inv : forall ops, run_ops init ops 0 true = (final ops, None, true) -> Inv (final ops).
Proof. intros ops H. exact (proj2 (run_ops_guarded_total ops init 0 (final ops) None inv_init H)). Qed.

Definition breaks (pre : list op) (o : op) : Prop :=
  Inv (final pre) /\ guard_b (final pre) o = false /\ step (final pre) o = Some (final (pre ++ [o])) /\
  ~ Inv (final (pre ++ [o])).

Lemma dup_nested_step : breaks (removelast ops_dup_nested) (AddChild CClass b_ 0 0).
Proof.
  split; [apply final_guarded_inv; vm_compute; reflexivity|]. split; [vm_compute; reflexivity|].
  split; [vm_compute; reflexivity | exact (proj2 dup_nested_witness)].
Qed.
Lemma reparent_collision_step : breaks (removelast ops_reparent_collision) (Reparent 4 0 c_).
Proof.
  split; [apply final_guarded_inv; vm_compute; reflexivity|]. split; [vm_compute; reflexivity|].
  split; [vm_compute; reflexivity | exact (proj2 (proj2 reparent_collision_witness))].
Qed.
(* the old step from the Inv state after [AddModule a]: completes, and the result violates Inv *)
Lemma dup_root_old_step :
  Inv (final (removelast ops_dup_root)) /\
  step_old (final (removelast ops_dup_root)) (AddModule true a_ None) = Some (final_old ops_dup_root) /\
  ~ Inv (final_old ops_dup_root).
Proof.
  split; [apply final_guarded_inv; vm_compute; reflexivity|].
  split; [vm_compute; reflexivity | exact (proj2 (proj2 (proj2 dup_root_old_witness)))].
Qed.
Lemma module_reexport_step : breaks (removelast ops_module_reexport) (Reparent 1 2 b_).
Proof.
  split; [apply final_guarded_inv; vm_compute; reflexivity|]. split; [vm_compute; reflexivity|].
  split; [vm_compute; reflexivity | exact (proj2 module_reexport_witness)].
Qed.
