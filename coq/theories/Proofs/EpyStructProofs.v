(* Proofs/EpyStructProofs.v -- the epytext block structurer (Model/EpyStruct.v) drops no token: the tokens of the tree,
   in document order, are the tokens it was given, in order, minus the paragraphs it reported as improperly indented. *)
From Coq Require Import ZArith NArith List Bool Arith Lia.
From PydoctorVerif Require Import Base.Sexp Model.FieldTypes Model.EpyStruct Spec.Routing.
Import ListNotations.

Definition frame_tokens (f : frame) : list nat :=
  (match fr_tok f with Some t => [t] | None => [] end) ++ flat_map tree_tokens (fr_kids f).

(* the tokens held by the open frames, in document order (the stack is innermost first) *)
Definition stack_tokens (stack : list frame) : list nat := flat_map frame_tokens (rev stack).

Lemma frame_tokens_add_kid : forall n f, frame_tokens (add_kid n f) = frame_tokens f ++ tree_tokens n.
Proof.
  intros n f. unfold frame_tokens, add_kid. cbn [fr_tok fr_kids]. rewrite flat_map_app. cbn [flat_map].
  rewrite app_nil_r, app_assoc. reflexivity.
Qed.

Lemma frame_tokens_set_indent : forall i f, frame_tokens (set_indent i f) = frame_tokens f.
Proof. reflexivity. Qed.

Lemma tree_tokens_node_of : forall f, tree_tokens (node_of f) = frame_tokens f.
Proof. reflexivity. Qed.

Lemma stack_tokens_cons : forall f st, stack_tokens (f :: st) = stack_tokens st ++ frame_tokens f.
Proof. intros. unfold stack_tokens. cbn [rev]. rewrite flat_map_app. cbn [flat_map]. rewrite app_nil_r. reflexivity. Qed.

Lemma pop1_tokens : forall st, stack_tokens (pop1 st) = stack_tokens st.
Proof.
  intros [|f [|p rest]]; try reflexivity. cbn [pop1]. rewrite !stack_tokens_cons, frame_tokens_add_kid, tree_tokens_node_of.
  rewrite app_assoc. reflexivity.
Qed.

Lemma popn_tokens : forall n st, stack_tokens (popn n st) = stack_tokens st.
Proof. induction n as [|n IH]; intro st; cbn [popn]; [reflexivity|]. rewrite IH. apply pop1_tokens. Qed.

Lemma pop_completed_tokens : forall fuel tk st st', pop_completed fuel tk st = Some st' -> stack_tokens st' = stack_tokens st.
Proof.
  induction fuel as [|fuel IH]; intros tk st st' H; cbn [pop_completed] in H.
  - destruct (tk_indent tk); inversion H; reflexivity.
  - destruct (tk_indent tk) as [indent|]; [|inversion H; reflexivity].
    destruct st as [|top [|nxt rest]]; try (inversion H; reflexivity).
    match type of H with match ?d with _ => _ end = _ => destruct d as [[|]|] end; try discriminate.
    + apply IH in H. rewrite H. apply pop1_tokens.
    + inversion H; reflexivity.
Qed.

Lemma top_add_tokens : forall top rest n,
  stack_tokens (add_kid n top :: rest) = stack_tokens (top :: rest) ++ tree_tokens n.
Proof. intros. rewrite !stack_tokens_cons, frame_tokens_add_kid, app_assoc. reflexivity. Qed.

Definition has_para_error (errs : list serr) : Prop := exists line, In (1%N, line) errs.

(* what one token does: its index is appended, or (a paragraph) an error with code 1 is *)
Lemma step_tokens : forall i tk st errs seen st' errs' seen',
  step i tk (Done st errs seen) = Done st' errs' seen' ->
  (exists more, errs' = errs ++ more) /\
  (stack_tokens st' = stack_tokens st ++ [i] \/
   (stack_tokens st' = stack_tokens st /\ has_para_error errs')).
Proof.
  intros i tk st errs seen st' errs' seen' H. cbn [step] in H.
  destruct (pop_completed (length st) tk st) as [st1|] eqn:Ep; [|discriminate].
  apply pop_completed_tokens in Ep.
  assert (G : forall top2 r2 errs2,
             (exists more, errs2 = errs ++ more) ->
             (stack_tokens (top2 :: r2) = stack_tokens st1 ++ [i] \/
              (stack_tokens (top2 :: r2) = stack_tokens st1 /\ has_para_error errs2)) ->
             (if stag_eqb (fr_tag top2) SField then Done (top2 :: r2) errs2 true
              else if seen && Nat.leb (length (top2 :: r2)) 2 then Done (top2 :: r2) (errs2 ++ [(7%N, tk_startline tk)]) seen
                   else Done (top2 :: r2) errs2 seen) = Done st' errs' seen' ->
             (exists more, errs' = errs ++ more) /\
             (stack_tokens st' = stack_tokens st ++ [i] \/ (stack_tokens st' = stack_tokens st /\ has_para_error errs'))).
  { intros top r errs2 (more & Hm) Ht Hd.
    rewrite <- Ep.
    destruct (stag_eqb (fr_tag top) SField); [inversion Hd; subst; split; [exists more; reflexivity | exact Ht]|].
    destruct (seen && Nat.leb (length (top :: r)) 2); inversion Hd; subst.
    - split; [exists (more ++ [(7%N, tk_startline tk)]); rewrite app_assoc; reflexivity|].
      destruct Ht as [Ht | [Ht (line & Hl)]]; [left; exact Ht | right; split; [exact Ht | exists line; apply in_or_app; left; exact Hl]].
    - split; [exists more; reflexivity | exact Ht]. }
  destruct (tk_tag tk).
  - (* paragraph *)
    unfold add_para in H. destruct st1 as [|top rest]; [discriminate|].
    set (top1 := match fr_indent top with None => set_indent (tk_indent tk) top | Some _ => top end) in *.
    assert (Ht1 : frame_tokens top1 = frame_tokens top) by (subst top1; destruct (fr_indent top); reflexivity).
    destruct (opt_nat_eqb (tk_indent tk) (fr_indent top1)).
    + eapply G; cycle 2; [exact H | exists []; symmetry; apply app_nil_r |].
      left. rewrite top_add_tokens, !stack_tokens_cons, Ht1. reflexivity.
    + eapply G; cycle 2; [exact H | exists [(1%N, tk_startline tk)]; reflexivity |].
      right. split; [rewrite !stack_tokens_cons, Ht1; reflexivity|]. exists (tk_startline tk). apply in_or_app. right. left. reflexivity.
  - (* heading *)
    unfold add_section in H. destruct st1 as [|top rest]; [discriminate|].
    destruct (fr_indent top) as [ti|] eqn:Eti; [destruct (opt_nat_eqb (Some ti) (tk_indent tk))|]; cbn beta iota zeta in H;
      (match type of H with (if stag_eqb (fr_tag ?t2) SField then Done (_ :: ?r2) ?e2 true else _) = _ =>
         apply (G t2 r2 e2); [ | | exact H] end);
      try (left; rewrite stack_tokens_cons, popn_tokens, !stack_tokens_cons;
           cbn [frame_tokens fr_tok fr_kids flat_map tree_tokens app set_indent]; reflexivity);
      repeat match goal with |- context [if ?c then _ else _] => destruct c end;
      rewrite <- ?app_assoc; first [eexists; reflexivity | exists []; symmetry; apply app_nil_r].
  - destruct st1 as [|top rest]; [discriminate|].
    eapply G; cycle 2; [exact H | exists []; symmetry; apply app_nil_r |]. left. apply top_add_tokens.
  - destruct st1 as [|top rest]; [discriminate|].
    eapply G; cycle 2; [exact H | exists []; symmetry; apply app_nil_r |]. left. apply top_add_tokens.
  - (* bullet *)
    destruct (add_list i tk st1 errs) as [[st2 errs2]|] eqn:Ea; [|discriminate].
    unfold add_list in Ea. destruct st1 as [|top rest]; [discriminate|].
    match type of Ea with match ?nl with _ => _ end = _ => destruct nl as [[|]|] end; try discriminate.
    + (* a new list *)
      set (st1' := if is_list_tag (fr_tag top) then pop1 (top :: rest) else top :: rest) in *.
      assert (Hs1 : stack_tokens st1' = stack_tokens (top :: rest)) by (subst st1'; destruct (is_list_tag _); [apply pop1_tokens | reflexivity]).
      destruct st1' as [|top' rest'] eqn:Est; [discriminate|].
      match type of Ea with context [match ?e with (s, e0) => _ end] => destruct e as [st3 errs3] eqn:E3 end.
      inversion Ea; subst st2 errs2. clear Ea.
      assert (H3 : stack_tokens st3 = stack_tokens (top :: rest) /\ exists more, errs3 = errs ++ more).
      { destruct (tk_bullet tk); inversion E3; subst; rewrite ?popn_tokens; (split; [exact Hs1|]);
          repeat match goal with |- context [if ?c then _ else _] => destruct c end;
          repeat match goal with |- context [match ?c with Some _ => _ | None => _ end] => destruct c end;
          repeat match goal with |- context [if ?c then _ else _] => destruct c end;
          rewrite <- ?app_assoc; first [eexists; reflexivity | exists []; symmetry; apply app_nil_r]. }
      destruct H3 as [H3 Hm3].
      eapply G; cycle 2; [exact H | exact Hm3 |].
      left. rewrite stack_tokens_cons. rewrite stack_tokens_cons. rewrite H3. cbn [frame_tokens fr_tok fr_kids flat_map app]. rewrite app_nil_r. reflexivity.
    + inversion Ea; subst. eapply G; cycle 2; [exact H | exists []; symmetry; apply app_nil_r |].
      left. rewrite stack_tokens_cons. cbn [frame_tokens fr_tok fr_kids flat_map app]. reflexivity.
Qed.

Lemma steps_crash : forall tks k c, steps k tks (Crash c) = Crash c.
Proof. induction tks as [|tk tks IH]; intros k c; cbn [steps step]; [reflexivity | apply IH]. Qed.

Lemma step_nonempty : forall i tk o st errs seen, step i tk o = Done st errs seen -> st <> [].
Proof.
  intros i tk [st0 errs0 seen0|c] st errs seen H; cbn [step] in H; [|discriminate].
  destruct (pop_completed (length st0) tk st0); [|discriminate].
  match type of H with match ?r with _ => _ end = _ => destruct r as [[st2 errs2]|] end; [|discriminate].
  destruct st2 as [|top r]; [discriminate|].
  destruct (stag_eqb (fr_tag top) SField); [inversion H; subst; discriminate|].
  destruct (seen0 && Nat.leb (length (top :: r)) 2); inversion H; subst; discriminate.
Qed.

Lemma steps_tokens : forall tks k st errs seen st' errs' seen',
  steps k tks (Done st errs seen) = Done st' errs' seen' ->
  exists kept, stack_tokens st' = stack_tokens st ++ kept /\ subseq kept (seq k (length tks)) /\
               (exists more, errs' = errs ++ more) /\ (kept = seq k (length tks) \/ has_para_error errs').
Proof.
  induction tks as [|tk tks IH]; intros k st errs seen st' errs' seen' H; cbn [steps] in H.
  - inversion H; subst. exists []. rewrite app_nil_r. repeat split; [constructor | exists []; symmetry; apply app_nil_r | left; reflexivity].
  - destruct (step k tk (Done st errs seen)) as [st1 errs1 seen1|c] eqn:Es; [|rewrite steps_crash in H; discriminate].
    destruct (step_tokens _ _ _ _ _ _ _ _ Es) as ((m1 & Hm1) & Ht).
    destruct (IH _ _ _ _ _ _ _ H) as (kept & K1 & K2 & (m2 & Hm2) & K4).
    cbn [length seq].
    assert (Hmore : exists more, errs' = errs ++ more) by (exists (m1 ++ m2); rewrite Hm2, Hm1, app_assoc; reflexivity).
    destruct Ht as [Ht | [Ht (line & Hl)]].
    + exists (k :: kept). rewrite K1, Ht, <- app_assoc. cbn [app]. repeat split; [constructor; exact K2 | exact Hmore |].
      destruct K4 as [-> | K4]; [left; reflexivity | right; exact K4].
    + exists kept. rewrite K1, Ht. repeat split; [apply subseq_skip; exact K2 | exact Hmore |].
      right. exists line. rewrite Hm2. apply in_or_app. left. exact Hl.
Qed.

Lemma pop1_length : forall st, 2 <= length st -> length (pop1 st) = length st - 1.
Proof. intros [|f [|p r]] H; cbn in *; lia. Qed.

Lemma popn_to_one : forall n st, length st = S n -> exists d, popn n st = [d].
Proof.
  induction n as [|n IH]; intros st H; cbn [popn].
  - destruct st as [|d [|]]; try discriminate. exists d. reflexivity.
  - apply IH. rewrite pop1_length; lia.
Qed.

Lemma steps_nonempty : forall tks k o st errs seen,
  steps k tks o = Done st errs seen -> (forall st0 e s, o = Done st0 e s -> st0 <> []) -> st <> [].
Proof.
  induction tks as [|tk tks IH]; intros k o st errs seen H Ho; cbn [steps] in H.
  - apply (Ho _ _ _ H).
  - apply (IH _ _ _ _ _ H). intros st0 e s Hs. apply (step_nonempty _ _ _ _ _ _ Hs).
Qed.

Theorem parse_keeps_tokens : forall tks st errs seen,
  parse tks = Done st errs seen ->
  exists t kept, final_tree st = Some t /\ tree_tokens t = kept /\ subseq kept (seq 0 (length tks)) /\
                 (kept = seq 0 (length tks) \/ has_para_error errs).
Proof.
  intros tks st errs seen H. unfold parse in H.
  destruct (steps_tokens _ _ _ _ _ _ _ _ H) as (kept & K1 & K2 & _ & K4).
  assert (Hne : st <> []).
  { apply (steps_nonempty _ _ _ _ _ _ H). intros st0 e s Hs. inversion Hs; subst. discriminate. }
  destruct st as [|f r]; [contradiction|].
  destruct (popn_to_one (length r) (f :: r) eq_refl) as (d & Hd).
  exists (node_of d), kept. unfold final_tree. replace (length (f :: r) - 1) with (length r) by (cbn [length]; lia). rewrite Hd.
  split; [reflexivity|]. split; [|split; assumption].
  rewrite tree_tokens_node_of.
  assert (Hs : stack_tokens [d] = stack_tokens (f :: r)) by (rewrite <- Hd; apply popn_tokens).
  unfold stack_tokens at 1 in Hs. cbn [rev app flat_map] in Hs. rewrite app_nil_r in Hs. rewrite Hs, K1. reflexivity.
Qed.

(* no structuring error at all: every token, once, in order *)
Corollary parse_no_error_all_tokens : forall tks st seen,
  parse tks = Done st [] seen ->
  exists t, final_tree st = Some t /\ tree_tokens t = seq 0 (length tks).
Proof.
  intros tks st seen H. destruct (parse_keeps_tokens _ _ _ _ H) as (t & kept & H1 & H2 & _ & [H4 | (line & [])]).
  exists t. split; [exact H1 | congruence].
Qed.
