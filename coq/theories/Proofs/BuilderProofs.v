(* Proofs/BuilderProofs.v -- the simulation between Model.Builder (what pydoctor documents) and Spec.PyBind
   (what CPython binds) on the MiniPy subset; lemmas for Props/C03.v. *)
From Coq Require Import ZArith NArith List Bool Lia.
From PydoctorVerif Require Import Base.Sexp Model.MiniPy Model.Infer Model.Builder Spec.PyBind Spec.C03Rel
     Gen.TablesC03 Proofs.InferProofs.
Import ListNotations.

(* ================================================================ association lists *)
Lemma lookup_In : forall {X} n (l : list (name * X)) x, lookup n l = Some x -> In (n, x) l.
Proof.
  induction l as [|[m y] l IH]; cbn; intros x H; [discriminate|].
  destruct (text_eqb n m) eqn:E.
  - apply text_eqb_eq in E. inversion H; subst. auto.
  - right. auto.
Qed.

Lemma lookup_none_notin : forall {X} n (l : list (name * X)), lookup n l = None <-> ~ In n (keys l).
Proof.
  induction l as [|[m y] l IH]; cbn; [tauto|].
  destruct (text_eqb n m) eqn:E.
  - apply text_eqb_eq in E. subst. split; [discriminate|]. intro H. exfalso. apply H. auto.
  - apply text_eqb_neq in E. rewrite IH. split; intro H.
    + intros [H1|H1]; [congruence|auto].
    + intro H1. apply H. auto.
Qed.

Lemma In_lookup_nodup : forall {X} n x (l : list (name * X)), NoDup (keys l) -> In (n, x) l -> lookup n l = Some x.
Proof.
  induction l as [|[m y] l IH]; cbn; intros ND H; [tauto|].
  inversion ND as [|? ? Hn ND']; subst.
  destruct H as [H|H].
  - inversion H; subst. rewrite text_eqb_refl. reflexivity.
  - destruct (text_eqb n m) eqn:E.
    + apply text_eqb_eq in E. subst. exfalso. apply Hn. change m with (fst (m, x)). apply in_map. exact H.
    + auto.
Qed.

Lemma lookup_app : forall {X} n (l r : list (name * X)),
    lookup n (l ++ r) = match lookup n l with Some x => Some x | None => lookup n r end.
Proof.
  induction l as [|[m y] l IH]; cbn; intros; auto. destruct (text_eqb n m); auto.
Qed.

Lemma keys_replace : forall {X} n (x : X) l, keys (replace n x l) = keys l.
Proof.
  induction l as [|[m y] l IH]; cbn; auto. destruct (text_eqb n m); cbn; [reflexivity|]. unfold keys in IH. rewrite IH. reflexivity.
Qed.

Lemma lookup_replace : forall {X} n m (x : X) l,
    lookup n (replace m x l) =
    if text_eqb n m then match lookup m l with Some _ => Some x | None => None end else lookup n l.
Proof.
  induction l as [|[k y] l IH]; cbn.
  - destruct (text_eqb n m); reflexivity.
  - destruct (text_eqb m k) eqn:Emk; cbn.
    + apply text_eqb_eq in Emk. subst k. destruct (text_eqb n m) eqn:Enm; reflexivity.
    + destruct (text_eqb n k) eqn:Enk.
      * destruct (text_eqb n m) eqn:Enm; [|reflexivity].
        apply text_eqb_eq in Enm. apply text_eqb_eq in Enk. subst. rewrite text_eqb_refl in Emk. discriminate.
      * exact IH.
Qed.

Lemma in_replace : forall {X} n (x : X) l p, In p (replace n x l) -> p = (n, x) \/ In p l.
Proof.
  induction l as [|[k y] l IH]; cbn; intros p H; [tauto|].
  destruct (text_eqb n k) eqn:E.
  - apply text_eqb_eq in E. subst k. destruct H as [H|H]; auto.
  - destruct H as [H|H]; auto. destruct (IH _ H); auto.
Qed.

(* ---- python side *)
Lemma plookup_bind : forall n m v e, plookup n (bind m v e) = if text_eqb n m then Some v else plookup n e.
Proof.
  unfold plookup. induction e as [|[k w] e IH]; cbn.
  - destruct (text_eqb n m); reflexivity.
  - destruct (text_eqb m k) eqn:Emk; cbn.
    + apply text_eqb_eq in Emk. subst k. destruct (text_eqb n m); reflexivity.
    + destruct (text_eqb n k) eqn:Enk.
      * destruct (text_eqb n m) eqn:Enm; [|reflexivity].
        apply text_eqb_eq in Enm. apply text_eqb_eq in Enk. subst. rewrite text_eqb_refl in Emk. discriminate.
      * exact IH.
Qed.

Lemma pdef_bind : forall n m v e, pdef n (bind m v e) = if text_eqb n m then negb (is_aux v) else pdef n e.
Proof. intros. unfold pdef. rewrite plookup_bind. destruct (text_eqb n m); reflexivity. Qed.

Lemma NoDup_app_one : forall {X} (l : list X) x, NoDup l -> ~ In x l -> NoDup (l ++ [x]).
Proof.
  induction l as [|y l IH]; cbn; intros x ND Hn.
  - constructor; auto.
  - inversion ND; subst. constructor.
    + intro H. apply in_app_or in H. destruct H as [H|[H|[]]]; [contradiction|]. subst. apply Hn. left. reflexivity.
    + apply IH; auto.
Qed.

(* ================================================================ point updates of a contents list *)
Definition upd_fun (c : contents_t) (n : name) (o : obj) (c' : contents_t) : Prop :=
  NoDup (keys c') /\ forall m, lookup m c' = if text_eqb m n then Some o else lookup m c.

Definition upd_in (c : contents_t) (n : name) (Q : obj -> Prop) (c' : contents_t) : Prop :=
  forall m o', In (m, o') c' -> (m = n /\ Q o') \/ In (m, o') c.

Lemma add_obj_upd : forall n o s, NoDup (keys (contents s)) ->
    upd_fun (contents s) n o (contents (add_obj n o s)) /\ upd_in (contents s) n (eq o) (contents (add_obj n o s)).
Proof.
  intros n o s ND. unfold add_obj. destruct (lookup n (contents s)) eqn:E; cbn.
  - split; [split|].
    + rewrite keys_replace. exact ND.
    + intro m. rewrite lookup_replace. rewrite E. reflexivity.
    + intros m o' H. apply in_replace in H. destruct H as [H|H]; [inversion H; auto|auto].
  - split; [split|].
    + unfold keys. rewrite map_app. cbn. apply NoDup_app_one; auto. apply lookup_none_notin. exact E.
    + intro m. rewrite lookup_app. cbn. destruct (text_eqb m n) eqn:Emn.
      * apply text_eqb_eq in Emn. subst. rewrite E. reflexivity.
      * destruct (lookup m (contents s)); reflexivity.
    + intros m o' H. apply in_app_or in H. destruct H as [H|[H|[]]]; auto. inversion H; auto.
Qed.

Lemma upd_attr_upd : forall n f s k d a v,
    NoDup (keys (contents s)) -> lookup n (contents s) = Some (OAttr k d a v) ->
    upd_fun (contents s) n (f k d a v) (contents (upd_attr n f s)) /\
    upd_in (contents s) n (eq (f k d a v)) (contents (upd_attr n f s)).
Proof.
  intros n f s k d a v ND E. unfold upd_attr. rewrite E. cbn. split; [split|].
  - rewrite keys_replace. exact ND.
  - intro m. rewrite lookup_replace. rewrite E. reflexivity.
  - intros m o' H. apply in_replace in H. destruct H as [H|H]; [inversion H; auto|auto].
Qed.

Lemma upd_attr_noattr : forall n f s,
    (forall k d a v, lookup n (contents s) <> Some (OAttr k d a v)) -> upd_attr n f s = s.
Proof.
  intros n f s H. unfold upd_attr. destruct (lookup n (contents s)) as [[| |k d a v]|] eqn:E; auto.
  exfalso. eapply H. reflexivity.
Qed.

Lemma upd_fun_refl_like : forall c n o, NoDup (keys c) -> lookup n c = Some o -> upd_fun c n o c.
Proof.
  intros c n o ND E. split; auto. intro m. destruct (text_eqb m n) eqn:Emn; auto.
  apply text_eqb_eq in Emn. subst. exact E.
Qed.

Lemma upd_fun_trans : forall c n o1 c1 o2 c2, upd_fun c n o1 c1 -> upd_fun c1 n o2 c2 -> upd_fun c n o2 c2.
Proof.
  intros c n o1 c1 o2 c2 [_ H1] [ND H2]. split; auto. intro m. rewrite H2. destruct (text_eqb m n) eqn:E; auto.
  rewrite H1. rewrite E. reflexivity.
Qed.

Lemma upd_in_trans : forall c n Q1 c1 Q2 c2,
    upd_in c n Q1 c1 -> upd_in c1 n Q2 c2 -> upd_in c n (fun o => Q1 o \/ Q2 o) c2.
Proof.
  intros c n Q1 c1 Q2 c2 H1 H2 m o' H. destruct (H2 _ _ H) as [[? ?]|H']; auto.
  destruct (H1 _ _ H') as [[? ?]|?]; auto.
Qed.

Lemma upd_in_weaken : forall c n (Q1 Q2 : obj -> Prop) c', upd_in c n Q1 c' -> (forall o, Q1 o -> Q2 o) -> upd_in c n Q2 c'.
Proof. intros c n Q1 Q2 c' H HQ m o' Hin. destruct (H _ _ Hin) as [[? ?]|?]; auto. Qed.

Lemma upd_in_refl : forall c n Q, upd_in c n Q c.
Proof. intros c n Q m o' H. auto. Qed.

(* ================================================================ the simulation relation: basic moves *)
Section Sim.
  Variable clean : text -> text.
  Variable vals : bool.          (* relate stored literals with bound values ... *)
  Variable g : guards.
  Hypothesis Hshadow : g_shadow g = true.                      (* no class variable shadowing an inherited method *)
  Hypothesis Hunpack : vals = true -> g_unpack g = true.       (* ... which needs the unpacking guard *)
  Variable ANN : list name.      (* the names the program annotates explicitly (x: T ..., self.x: T ...) *)
  Notation agree_ns := (agree_ns clean vals).
  Notation agree_obj := (agree_obj clean vals).
  Notation val_rel := C03Rel.val_rel.

  Lemma agree_empty : forall sc, agree_ns sc [] [].
  Proof.
    intro sc. constructor; cbn.
    - constructor.
    - intros n H. discriminate.
    - intros n o H. discriminate.
    - intros n o v H. discriminate.
  Qed.

  (* both sides (re)bind n *)
  Lemma inv_point : forall sc c e n o v c',
      agree_ns sc c e -> upd_fun c n o c' -> agree_obj sc o v -> is_aux v = false ->
      agree_ns sc c' (bind n v e).
  Proof.
    intros sc c e n o v c' H [ND HL] Ho Hv. inversion H as [? ? ? R1 R2 R3 R4]; subst.
    constructor; auto.
    - intros m Hm. rewrite HL. rewrite pdef_bind in Hm. destruct (text_eqb m n); [discriminate|auto].
    - intros m o0 Hm. rewrite HL in Hm. rewrite pdef_bind. destruct (text_eqb m n).
      + left. rewrite Hv. reflexivity.
      + eauto.
    - intros m o0 v0 Hm Hp Ha. rewrite HL in Hm. rewrite plookup_bind in Hp. destruct (text_eqb m n).
      + inversion Hm; inversion Hp; subst. exact Ho.
      + eauto.
  Qed.

  (* only the documentation side changes the entry n *)
  Lemma inv_doc : forall sc c e n o c',
      agree_ns sc c e -> upd_fun c n o c' ->
      (forall v, plookup n e = Some v -> is_aux v = false -> agree_obj sc o v) ->
      (pdef n e = true \/ (sc = ScClass /\ is_ivar_obj o = true)) ->
      agree_ns sc c' e.
  Proof.
    intros sc c e n o c' H [ND HL] Ho Hd. inversion H as [? ? ? R1 R2 R3 R4]; subst.
    constructor; auto.
    - intros m Hm. rewrite HL. destruct (text_eqb m n); [discriminate|auto].
    - intros m o0 Hm. rewrite HL in Hm. destruct (text_eqb m n) eqn:E.
      + apply text_eqb_eq in E. inversion Hm; subst. exact Hd.
      + eauto.
    - intros m o0 v0 Hm Hp Ha. rewrite HL in Hm. destruct (text_eqb m n) eqn:E.
      + apply text_eqb_eq in E. inversion Hm; subst. auto.
      + eauto.
  Qed.

  (* only Python binds n, as an auxiliary name *)
  Lemma inv_aux : forall sc c e n i, agree_ns sc c e -> pdef n e = false -> agree_ns sc c (bind n (VAux i) e).
  Proof.
    intros sc c e n i H Hn. inversion H as [? ? ? R1 R2 R3 R4]; subst.
    constructor; auto.
    - intros m Hm. rewrite pdef_bind in Hm. destruct (text_eqb m n); [discriminate|auto].
    - intros m o Hm. rewrite pdef_bind. destruct (text_eqb m n) eqn:E.
      + apply text_eqb_eq in E. subst. destruct (R3 _ _ Hm) as [Hp|Hi]; [congruence|right; exact Hi].
      + eauto.
    - intros m o v Hm Hp Ha. rewrite plookup_bind in Hp. destruct (text_eqb m n).
      + inversion Hp; subst. discriminate.
      + eauto.
  Qed.

  Definition not_fun_class (v : option pyval) : Prop :=
    match v with Some (VFun _ _ _) | Some (VClass _ _ _ _ _) => False | _ => True end.

  (* what the documentation has for a name Python has bound to a value that is not a function or class (or not at all) *)
  Lemma doc_entry_of_data : forall sc c e n o,
      agree_ns sc c e -> lookup n c = Some o -> not_fun_class (plookup n e) ->
      exists k d a v, o = OAttr k d a v /\ k <> KProperty.
  Proof.
    intros sc c e n o H Hl Hp. inversion H as [? ? ? R1 R2 R3 R4]; subst.
    destruct (R3 _ _ Hl) as [Hd|[_ Hi]].
    - unfold pdef in Hd. destruct (plookup n e) as [v|] eqn:E; [|discriminate].
      assert (Ha : is_aux v = false) by (destruct (is_aux v); [discriminate|reflexivity]).
      specialize (R4 _ _ _ Hl E Ha). inversion R4; subst; cbn in Hp; try contradiction. eauto 8.
    - destruct o as [| |k d a v]; try discriminate. destruct k; try discriminate.
      exists KInstanceVar, d, a, v. split; [reflexivity|discriminate].
  Qed.

  Lemma old_val_rel : forall sc c e n k d a v,
      agree_ns sc c e -> lookup n c = Some (OAttr k d a v) -> not_fun_class (plookup n e) -> vals = true ->
      k = KInstanceVar \/ exists w, plookup n e = Some (VData w) /\ forall l, v = Some (AvLit l) -> w = Some l.
  Proof.
    intros sc c e n k d a v H Hl Hnf Hv. inversion H as [? ? ? R1 R2 R3 R4]; subst.
    destruct (R3 _ _ Hl) as [Hd|[_ Hi]].
    - unfold pdef in Hd. destruct (plookup n e) as [v0|] eqn:E; [|discriminate].
      assert (Ha : is_aux v0 = false) by (destruct (is_aux v0); [discriminate|reflexivity]).
      specialize (R4 _ _ _ Hl E Ha). inversion R4; subst; cbn in Hnf; try contradiction.
      match goal with Hr : _ -> C03Rel.val_rel _ _ _ |- _ => destruct (Hr ltac:(first [assumption|reflexivity])) as [?|Hr'] end; eauto.
    - destruct k; try discriminate. auto.
  Qed.

  (* ================================================================ documentation-only invariant: annotations *)
  (* finished objects: an annotation is explicit (the name is annotated somewhere) or the one inferred from the value;
     objects of a scope still being walked: no annotation yet unless explicit *)
  Fixpoint fin_obj (n : name) (o : obj) : Prop :=
    match o with
    | OAttr _ _ an va => In n ANN \/ an = match va with Some v => infer_value v | None => None end
    | OClass _ _ c _ _ => (fix all (l : contents_t) : Prop := match l with [] => True | p :: r => fin_obj (fst p) (snd p) /\ all r end) c
    | OFun _ _ _ => True
    end.
  Definition fin_c (c : contents_t) : Prop := forall n o, In (n, o) c -> fin_obj n o.

  Lemma fin_obj_class : forall n x d c oo ih, fin_obj n (OClass x d c oo ih) <-> fin_c c.
  Proof.
    intros n x d c oo ih. cbn. unfold fin_c. induction c as [|[m o] c IH]; cbn.
    - split; [intros _ ? ? []|auto].
    - rewrite IH. split.
      + intros [H1 H2] k o' [Hk|Hk]; [inversion Hk; subst; exact H1|auto].
      + intro H. split; [apply H; auto|intros; apply H; auto].
  Qed.

  Definition wip_obj (n : name) (o : obj) : Prop :=
    match o with OAttr _ _ an _ => an = None \/ In n ANN | _ => fin_obj n o end.
  Definition good_c (c : contents_t) : Prop := forall n o, In (n, o) c -> wip_obj n o.

  Definition blank (o : obj) : Prop := exists k, o = OAttr k None None None.

  Definition upd (c : contents_t) (n : name) (o : obj) (c' : contents_t) : Prop :=
    upd_fun c n o c' /\ upd_in c n (fun o' => o' = o \/ blank o') c'.

  Lemma upd_trans_blank : forall c n o1 c1 o2 c2,
      upd c n o1 c1 -> blank o1 -> upd c1 n o2 c2 -> upd c n o2 c2.
  Proof.
    intros c n o1 c1 o2 c2 [F1 I1] Ha [F2 I2]. split.
    - eapply upd_fun_trans; eauto.
    - intros m o' Hin. destruct (I2 _ _ Hin) as [[? [?|?]]|Hin1]; auto.
      destruct (I1 _ _ Hin1) as [[? [?|?]]|?]; subst; auto.
  Qed.

  Lemma add_obj_upd' : forall n o s, NoDup (keys (contents s)) -> upd (contents s) n o (contents (add_obj n o s)).
  Proof.
    intros n o s ND. destruct (add_obj_upd n o s ND) as [F I]. split; auto.
    eapply upd_in_weaken; [exact I|]. cbn. intros; auto.
  Qed.

  Lemma upd_attr_upd' : forall n f s k d a v,
      NoDup (keys (contents s)) -> lookup n (contents s) = Some (OAttr k d a v) ->
      upd (contents s) n (f k d a v) (contents (upd_attr n f s)).
  Proof.
    intros n f s k d a v ND E. destruct (upd_attr_upd n f s k d a v ND E) as [F I]. split; auto.
    eapply upd_in_weaken; [exact I|]. cbn. intros; auto.
  Qed.

  Lemma good_upd : forall c n o c', good_c c -> upd c n o c' -> wip_obj n o -> good_c c'.
  Proof.
    intros c n o c' G [_ I] Go m o' Hin. destruct (I _ _ Hin) as [[? [?|[k Hb]]]|?]; subst; auto.
    cbn. auto.
  Qed.

  (* ================================================================ the state of a scope being walked *)
  (* builder.currentAttr never points at a property *)
  Definition cur_ok (s : st) : Prop :=
    forall n, cur s = Some n -> forall d a v, lookup n (contents s) <> Some (OAttr KProperty d a v).
  (* the import/alias map only names Python has bound, and knows what Python's imported classes / modules are *)
  Definition imps_rel (im : imps_t) (e : env) : Prop :=
    (forall n, lookup n im <> None -> plookup n e <> None) /\
    (forall n i, plookup n e = Some (VAux i) -> i <> IOther -> lookup n im = Some (impval_of i)).

  Record St (sc : scope) (ivs : list name) (s : st) (e : env) : Prop := mkStP {
    st_agree : agree_ns sc (contents s) e;
    st_good : good_c (contents s);
    st_cur : cur_ok s;
    st_iv : iv_ok ivs (contents s) e;
    st_imps : imps_rel (imps s) e }.

  Lemma St_nodup : forall sc ivs s e, St sc ivs s e -> NoDup (keys (contents s)).
  Proof. intros sc ivs s e H. destruct H as [H _ _ _ _]. inversion H; auto. Qed.

  Lemma cur_ok_none : forall s, cur s = None -> cur_ok s.
  Proof. intros s H n Hn. congruence. Qed.

  Lemma cur_ok_some : forall s n o, cur s = Some n -> lookup n (contents s) = Some o ->
                                    (forall d a v, o <> OAttr KProperty d a v) -> cur_ok s.
  Proof. intros s n o Hc E Ho m Hm d a v. rewrite Hc in Hm. inversion Hm; subst m. rewrite E. intro H. inversion H. eapply Ho; eauto. Qed.

  Lemma imps_rel_bind : forall im e n v, imps_rel im e -> is_aux v = false -> imps_rel im (bind n v e).
  Proof.
    intros im e n v [H1 H2] Hv. split.
    - intros m Hm. rewrite plookup_bind. destruct (text_eqb m n); [discriminate|auto].
    - intros m i Hp Hi. rewrite plookup_bind in Hp. destruct (text_eqb m n); [inversion Hp; subst; discriminate|auto].
  Qed.

  (* both sides (re)bind n *)
  Lemma St_point_g : forall sc ivs s e n o v s',
      St sc ivs s e -> upd_fun (contents s) n o (contents s') -> good_c (contents s') -> imps s' = imps s -> cur_ok s' ->
      agree_obj sc o v -> is_aux v = false -> St sc ivs s' (bind n v e).
  Proof.
    intros sc ivs s e n o v s' [HA HG HC HI HM] HU Hg Him Hcur Ho Hv. constructor; auto.
    - eapply inv_point; eauto.
    - intros m o0 Hm. rewrite (proj2 HU) in Hm. rewrite pdef_bind. destruct (text_eqb m n).
      + left. rewrite Hv. reflexivity.
      + eauto.
    - rewrite Him. apply imps_rel_bind; auto.
  Qed.

  Lemma St_point : forall sc ivs s e n o v s',
      St sc ivs s e -> upd (contents s) n o (contents s') -> imps s' = imps s -> cur_ok s' ->
      agree_obj sc o v -> is_aux v = false -> wip_obj n o -> St sc ivs s' (bind n v e).
  Proof.
    intros sc ivs s e n o v s' HS HU Him Hcur Ho Hv Hw.
    eapply St_point_g; eauto. exact (proj1 HU). eapply good_upd; eauto. exact (st_good _ _ _ _ HS).
  Qed.

  (* only the documentation side changes the entry n *)
  Lemma St_doc : forall sc ivs s e n o s',
      St sc ivs s e -> upd (contents s) n o (contents s') -> imps s' = imps s -> cur_ok s' ->
      (forall v, plookup n e = Some v -> is_aux v = false -> agree_obj sc o v) ->
      (pdef n e = true \/ (sc = ScClass /\ is_ivar_obj o = true /\ In n ivs)) -> wip_obj n o ->
      St sc ivs s' e.
  Proof.
    intros sc ivs s e n o s' [HA HG HC HI HM] HU Him Hcur Ho Hd Hw. constructor; auto.
    - eapply inv_doc; eauto. exact (proj1 HU). destruct Hd as [?|[? [? ?]]]; auto.
    - eapply good_upd; eauto.
    - intros m o0 Hm. rewrite (proj2 (proj1 HU)) in Hm. destruct (text_eqb m n) eqn:E.
      + apply text_eqb_eq in E. subst. destruct Hd as [?|[_ [_ ?]]]; auto.
      + eauto.
    - rewrite Him. exact HM.
  Qed.

  (* a state that differs only in cur / imps-preserving fields *)
  Lemma St_same : forall sc ivs s e s',
      St sc ivs s e -> contents s' = contents s -> imps s' = imps s -> cur_ok s' -> St sc ivs s' e.
  Proof. intros sc ivs s e s' [HA HG HC HI HM] Hc Him Hcur. constructor; auto; try rewrite Hc; auto. rewrite Him. auto. Qed.

  Lemma St_set_cur_none : forall sc ivs s e, St sc ivs s e -> St sc ivs (set_cur None s) e.
  Proof. intros. eapply St_same; eauto. apply cur_ok_none. reflexivity. Qed.

  Lemma imps_add_obj : forall n o s, imps (add_obj n o s) = imps s.
  Proof. intros. unfold add_obj. destruct (lookup n (contents s)); reflexivity. Qed.

  Lemma imps_upd_attr : forall n f s, imps (upd_attr n f s) = imps s.
  Proof. intros. unfold upd_attr. destruct (lookup n (contents s)) as [[| |]|]; reflexivity. Qed.

  Lemma imps_upd_attr_raw : forall n f s c, imps (set_cur c (upd_attr n f s)) = imps s.
  Proof. intros. cbn. apply imps_upd_attr. Qed.

  (* facts about an existing entry used again and again *)
  Lemma entry_side : forall sc ivs s e n o,
      St sc ivs s e -> lookup n (contents s) = Some o ->
      pdef n e = true \/ (sc = ScClass /\ is_ivar_obj o = true /\ In n ivs).
  Proof.
    intros sc ivs s e n o [HA _ _ HI _] E. inversion HA as [? ? ? R1 R2 R3 R4]; subst.
    destruct (R3 _ _ E) as [?|[? ?]]; auto. destruct (HI _ _ E); auto.
  Qed.

  (* ---- visit_Expr on a string: only the docstring of an Attribute changes *)
  Lemma St_attach_doc : forall sc ivs s e d, St sc ivs s e -> St sc ivs (attach_doc clean d s) e.
  Proof.
    intros sc ivs s e d HS. unfold attach_doc. destruct (cur s) as [n|] eqn:Ec; [|exact HS].
    destruct (lookup n (contents s)) as [[| |k d0 a v]|] eqn:E;
      try (rewrite upd_attr_noattr; [apply St_set_cur_none; exact HS | intros; congruence]).
    pose proof (St_nodup _ _ _ _ HS) as ND.
    assert (Hk : k <> KProperty) by (intro Hk; subst k; exact (st_cur _ _ _ _ HS n Ec _ _ _ E)).
    pose proof (upd_attr_upd' n (fun k _ a v => OAttr k (Some (clean d)) a v) s k d0 a v ND E) as HU.
    eapply St_doc; [exact HS|exact HU|apply imps_upd_attr_raw|apply cur_ok_none; reflexivity| | |].
    - intros v0 Hp Ha. pose proof (st_agree _ _ _ _ HS) as HA. inversion HA as [? ? ? R1 R2 R3 R4]; subst.
      specialize (R4 _ _ _ E Hp Ha). inversion R4; subst; try congruence; constructor; auto.
    - destruct (entry_side _ _ _ _ _ _ HS E) as [?|[? [? ?]]]; auto.
    - pose proof (st_good _ _ _ _ HS n _ (lookup_In _ _ _ E)) as Hw. exact Hw.
  Qed.

  (* ---- _handleInstanceVar *)
  Lemma maybe_attribute_present : forall inh c n o, lookup n c = Some o -> maybe_attribute inh c n = is_attr o.
  Proof. intros. unfold maybe_attribute. rewrite H. reflexivity. Qed.

  Lemma set_ann_wip : forall n a ann, (a = None \/ In n ANN) -> (ann <> None -> In n ANN) -> set_ann a ann = None \/ In n ANN.
  Proof. intros n a ann Ha Hann. unfold set_ann. destruct ann; auto. right. apply Hann. discriminate. Qed.

  Lemma St_hiv : forall ivs inh a ann expr s e,
      St ScClass ivs s e -> In a ivs -> (ann <> None -> In a ANN) ->
      St ScClass ivs (handle_instance_var true inh a ann expr s) e.
  Proof.
    intros ivs inh a ann expr s e HS Hiv Hann. unfold handle_instance_var. cbn [negb].
    destruct (maybe_attribute inh (contents s) a) eqn:Em; cbn [negb]; [|exact HS].
    pose proof (St_nodup _ _ _ _ HS) as ND.
    pose proof (st_agree _ _ _ _ HS) as HA. inversion HA as [? ? ? R1 R2 R3 R4]; subst.
    set (f := fun (_ : akind) d a0 v => OAttr KInstanceVar d (set_ann a0 ann) (store_value v expr false)).
    destruct (lookup a (contents s)) as [o|] eqn:E.
    - rewrite (maybe_attribute_present _ _ _ _ E) in Em. destruct o as [| |k d an v]; try discriminate.
      assert (Hres : k <> KProperty -> St ScClass ivs (set_cur (Some a) (upd_attr a f s)) e).
      { intro Hk. pose proof (upd_attr_upd' a f s k d an v ND E) as HU.
        eapply St_doc; [exact HS|exact HU|apply imps_upd_attr_raw| | |right; repeat split; auto|].
        + eapply cur_ok_some; [reflexivity|cbn; rewrite (proj2 (proj1 HU)), text_eqb_refl; reflexivity|]. subst f. cbn. intros; discriminate.
        + intros v0 Hv0 Ha. specialize (R4 _ _ _ E Hv0 Ha). inversion R4; subst; [congruence|].
          constructor; [discriminate|intros _; left; reflexivity].
        + subst f. cbn. apply set_ann_wip; auto. exact (st_good _ _ _ _ HS a _ (lookup_In _ _ _ E)). }
      destruct k; try (apply Hres; discriminate). exact HS.
    - set (blk := OAttr KInstanceVar None None None).
      pose proof (add_obj_upd' a blk s ND) as HU1.
      assert (E1 : lookup a (contents (add_obj a blk s)) = Some blk).
      { rewrite (proj2 (proj1 HU1)). rewrite text_eqb_refl. reflexivity. }
      pose proof (upd_attr_upd' a f (add_obj a blk s) _ _ _ _ (proj1 (proj1 HU1)) E1) as HU2.
      pose proof (upd_trans_blank _ _ _ _ _ _ HU1 ltac:(eexists; reflexivity) HU2) as HU.
      eapply St_doc; [exact HS|exact HU|cbn; rewrite imps_upd_attr; apply imps_add_obj| | |right; repeat split; auto|].
      + eapply cur_ok_some; [reflexivity|cbn; rewrite (proj2 (proj1 HU)), text_eqb_refl; reflexivity|]. subst f blk. cbn. intros; discriminate.
      + intros v0 Hv0 Ha. exfalso. apply (R2 a); [|exact E]. unfold pdef. rewrite Hv0. rewrite Ha. reflexivity.
      + subst f blk. cbn. apply set_ann_wip; auto.
  Qed.

  (* ---- nested induction on statements *)
  Section StmtInd.
    Variable P : stmt -> Prop.
    Hypothesis HDef : forall nm ds a body, Forall P body -> P (Def nm ds a body).
    Hypothesis HClass : forall nm bs cds body, Forall P body -> P (Class nm bs cds body).
    Hypothesis HAssign : forall ts r, P (Assign ts r).
    Hypothesis HAnn : forall t a r, P (AnnAssign t a r).
    Hypothesis HAug : forall t r, P (AugAssign t r).
    Hypothesis HStr : forall s, P (ExprStr s).
    Hypothesis HIf : forall t b o, Forall P b -> Forall P o -> P (If t b o).
    Hypothesis HTry : forall b h o f, Forall P b -> Forall P h -> Forall P o -> Forall P f -> P (Try b h o f).
    Hypothesis HWith : forall b, Forall P b -> P (With b).
    Hypothesis HFor : forall t b o, Forall P b -> Forall P o -> P (For t b o).
    Hypothesis HWhile : forall b o, Forall P b -> Forall P o -> P (While b o).
    Hypothesis HImport : forall ns, P (Import ns).
    Hypothesis HOther : P Other.

    Fixpoint stmt_ind' (x : stmt) : P x :=
      let all := fix all (l : list stmt) : Forall P l :=
                   match l with [] => Forall_nil P | y :: r => Forall_cons y (stmt_ind' y) (all r) end in
      match x with
      | Def nm ds a body => HDef nm ds a body (all body)
      | Class nm bs cds body => HClass nm bs cds body (all body)
      | Assign ts r => HAssign ts r
      | AnnAssign t a r => HAnn t a r
      | AugAssign t r => HAug t r
      | ExprStr s => HStr s
      | If t b o => HIf t b o (all b) (all o)
      | Try b h o f => HTry b h o f (all b) (all h) (all o) (all f)
      | With b => HWith b (all b)
      | For t b o => HFor t b o (all b) (all o)
      | While b o => HWhile b o (all b) (all o)
      | Import ns => HImport ns
      | Other => HOther
      end.
  End StmtInd.

  (* folding a state transformer that preserves a predicate *)
  Lemma fold_preserves : forall (Q : st -> Prop) (f : stmt -> st -> st) (body : list stmt),
      Forall (fun y => forall s, Q s -> Q (f y s)) body -> forall s, Q s -> Q (fold_left (fun s y => f y s) body s).
  Proof.
    intros Q f body HF. induction HF as [|y body Hy _ IH]; cbn; intros s Hs; auto.
  Qed.


  (* ---- walking a function body: only instance variables and their docstrings *)
  (* the names a statement annotates explicitly, anywhere inside it *)
  Fixpoint ann_names (x : stmt) : list name :=
    let tn := fun t => match t with TName n => [n] | TSelf a => [a] | TTuple _ => [] end in
    match x with
    | Def _ _ _ body => flat_map ann_names body
    | Class _ _ _ body => flat_map ann_names body
    | AnnAssign t _ _ => tn t
    | If _ b o => flat_map ann_names b ++ flat_map ann_names o
    | Try b h o f => flat_map ann_names b ++ flat_map ann_names h ++ flat_map ann_names o ++ flat_map ann_names f
    | With b => flat_map ann_names b
    | For _ b o => flat_map ann_names b ++ flat_map ann_names o
    | While b o => flat_map ann_names b ++ flat_map ann_names o
    | _ => []
    end.

  (* what walking a method body needs to know about it: its self targets are among ivs, its annotated names in ANN *)
  Definition fw_ok (ivs : list name) (inc : bool) (x : stmt) : Prop :=
    (inc = true -> incl (method_ivars x) ivs) /\ incl (ann_names x) ANN.

  Lemma fw_ok_suite : forall ivs inc (body : list stmt),
      (inc = true -> incl (flat_map method_ivars body) ivs) -> incl (flat_map ann_names body) ANN -> Forall (fw_ok ivs inc) body.
  Proof.
    intros ivs inc body H1 H2. apply Forall_forall. intros y Hy. split; [intros Hi a Ha; apply (H1 Hi)|intros a Ha; apply H2]; apply in_flat_map; eauto.
  Qed.

  Lemma fwalk_suite : forall sc ivs inc inh e body,
      Forall (fun x => forall s, fw_ok ivs inc x -> St sc ivs s e -> St sc ivs (fwalk_stmt clean inc inh x s) e) body ->
      Forall (fw_ok ivs inc) body ->
      forall s, St sc ivs s e -> St sc ivs (fold_left (fun s y => fwalk_stmt clean inc inh y s) body s) e.
  Proof.
    intros sc ivs inc inh e body HF HO. apply (fold_preserves (fun s => St sc ivs s e) (fwalk_stmt clean inc inh)).
    apply Forall_forall. intros y Hy s Hs. rewrite Forall_forall in HF, HO. apply HF; auto.
  Qed.

  Lemma fwalk_St : forall x sc ivs inc inh e s,
      (inc = true -> sc = ScClass) -> fw_ok ivs inc x -> St sc ivs s e -> St sc ivs (fwalk_stmt clean inc inh x s) e.
  Proof.
    intro x. induction x as [nm ds a body IH|nm bs cds body IH|ts r|t an r|t r|d|t b o IHb IHo|b h o f IHb IHh IHo IHf|b IHb|t b o IHb IHo|b o IHb IHo|ns|]
      using stmt_ind'; intros sc ivs inc inh e s Hok [Hself Hann] HS; cbn [fwalk_stmt]; auto.
    - (* Assign *)
      cbn [method_ivars] in Hself. clear Hann. revert s HS. induction ts as [|t ts IHts]; cbn; intros s HS; auto.
      apply IHts; [intros Hi a0 Ha0; apply (Hself Hi); cbn; apply in_or_app; auto|].
      destruct t as [n|ns|a0]; auto.
      destruct inc; [|exact HS]. rewrite (Hok eq_refl) in *. apply St_hiv; auto.
      + apply (Hself eq_refl). cbn. auto.
      + intro Hc. contradiction.
    - (* AnnAssign *)
      destruct t as [n|ns|a0]; auto.
      destruct inc; [|exact HS]. rewrite (Hok eq_refl) in *. apply St_hiv; auto.
      + apply (Hself eq_refl). cbn. auto.
      + intros _. apply Hann. cbn. auto.
    - (* ExprStr *) apply St_attach_doc. exact HS.
    - (* If *)
      cbn [ann_names] in *.
      destruct t; auto; cbn [method_ivars] in Hself;
        (eapply fwalk_suite; [eapply Forall_impl; [|exact IHb]; cbn; intros; eauto| |exact HS]);
        apply fw_ok_suite; auto; intros a0 Ha0; apply Hann; apply in_or_app; auto.
    - cbn [method_ivars ann_names] in *.
      eapply fwalk_suite; [eapply Forall_impl; [|exact IHb]; cbn; intros; eauto| |exact HS].
      apply fw_ok_suite; auto. intros a0 Ha0; apply Hann; apply in_or_app; auto.
    - cbn [method_ivars ann_names] in *.
      eapply fwalk_suite; [eapply Forall_impl; [|exact IHb]; cbn; intros; eauto| |exact HS].
      apply fw_ok_suite; auto.
    - cbn [method_ivars ann_names] in *.
      eapply fwalk_suite; [eapply Forall_impl; [|exact IHb]; cbn; intros; eauto| |exact HS].
      apply fw_ok_suite; auto. intros a0 Ha0; apply Hann; apply in_or_app; auto.
    - cbn [method_ivars ann_names] in *.
      eapply fwalk_suite; [eapply Forall_impl; [|exact IHb]; cbn; intros; eauto| |exact HS].
      apply fw_ok_suite; auto. intros a0 Ha0; apply Hann; apply in_or_app; auto.
  Qed.

  (* ---- a suite that binds nothing leaves the namespace as it is (only attribute docstrings may change) *)
  Lemma walk_nonbinding_gen : forall (Q : st -> Prop), (forall d s, Q s -> Q (attach_doc clean d s)) ->
      forall x, nonbinding x = true -> forall sc flow inh outer s, Q s -> Q (walk_stmt clean x sc flow inh outer s).
  Proof.
    intros Q HQ x. induction x as [nm ds a body IH|nm bs cds body IH|ts r|t an r|t r|d|t b o IHb IHo|b h o f IHb IHh IHo IHf|b IHb|t b o IHb IHo|b o IHb IHo|ns|]
      using stmt_ind'; intros Hnb sc flow inh outer s HS; cbn in Hnb; try discriminate; cbn [walk_stmt]; auto.
    - destruct t; auto; apply andb_true_iff in Hnb; destruct Hnb as [Hb Ho];
        apply (fold_preserves Q (fun y st => walk_stmt clean y sc _ inh outer st)); auto;
        rewrite forallb_forall in Hb; apply Forall_forall; intros y Hy s0 Hs0; rewrite Forall_forall in IHb; apply IHb; auto.
    - repeat (apply andb_true_iff in Hnb; destruct Hnb as [Hnb ?]).
      apply (fold_preserves Q (fun y st => walk_stmt clean y sc _ inh outer st)); auto.
      rewrite forallb_forall in Hnb; apply Forall_forall; intros y Hy s0 Hs0; rewrite Forall_forall in IHb; apply IHb; auto.
    - apply (fold_preserves Q (fun y st => walk_stmt clean y sc _ inh outer st)); auto.
      rewrite forallb_forall in Hnb; apply Forall_forall; intros y Hy s0 Hs0; rewrite Forall_forall in IHb; apply IHb; auto.
    - apply andb_true_iff in Hnb; destruct Hnb as [Hb Ho].
      apply (fold_preserves Q (fun y st => walk_stmt clean y sc _ inh outer st)); auto.
      rewrite forallb_forall in Hb; apply Forall_forall; intros y Hy s0 Hs0; rewrite Forall_forall in IHb; apply IHb; auto.
  Qed.

  Lemma nb_suite : forall sc ivs flow inh outer e body,
      forallb nonbinding body = true ->
      forall s, St sc ivs s e -> St sc ivs (fold_left (fun st y => walk_stmt clean y sc flow inh outer st) body s) e.
  Proof.
    intros sc ivs flow inh outer e body HB.
    apply (fold_preserves (fun s => St sc ivs s e) (fun y st => walk_stmt clean y sc flow inh outer st)).
    rewrite forallb_forall in HB. apply Forall_forall. intros y Hy s Hs.
    apply (walk_nonbinding_gen (fun s => St sc ivs s e)); auto. intros; apply St_attach_doc; auto.
  Qed.

  (* ---- variables: _handleModuleVar / _handleClassVar once the Attribute exists *)
  Lemma handle_constant_not_property : forall n flow default k v expr,
      default <> KProperty -> k <> KProperty -> handle_constant n flow default k v expr <> KProperty.
  Proof.
    intros. unfold handle_constant. destruct (is_constant n flow v expr); [discriminate|]. destruct k; auto.
  Qed.

  Lemma St_var : forall sc ivs s e default flow n ann expr aug pv,
      St sc ivs s e -> default <> KProperty -> not_fun_class (plookup n e) ->
      (vals = true -> forall l, expr = Some (RLit l) -> aug = false -> pv = Some l) ->
      (vals = true -> expr = None -> literal_bound n e = false) ->
      (ann <> None -> In n ANN) ->
      St sc ivs (handle_var default flow n ann expr aug
               (match lookup n (contents s) with Some _ => s | None => add_obj n (OAttr default None None None) s end))
         (bind n (VData pv) e).
  Proof.
    intros sc ivs s e default flow n ann expr aug pv HS Hd Hnf H1 H2 Hann. unfold handle_var.
    pose proof (St_nodup _ _ _ _ HS) as ND. pose proof (st_agree _ _ _ _ HS) as HA.
    set (f := fun k (d : option text) a v => OAttr (handle_constant n flow default k v expr) d (set_ann a ann) (store_value v expr aug)).
    assert (Hfin : forall s1 k d a v, upd (contents s) n (OAttr k d a v) (contents s1) -> imps s1 = imps s ->
                   k <> KProperty -> (vals = true -> val_rel k v pv) -> (a = None \/ In n ANN) ->
                   St sc ivs (set_cur (if aug then None else Some n) s1) (bind n (VData pv) e)).
    { intros s1 k d a v HU Him Hk Hvr Hw.
      eapply St_point; [exact HS|exact HU|exact Him| | |reflexivity|exact Hw].
      - destruct aug; [apply cur_ok_none; reflexivity|].
        eapply cur_ok_some; [reflexivity|cbn; rewrite (proj2 (proj1 HU)), text_eqb_refl; reflexivity|].
        intros d1 a1 v1 Heq. inversion Heq. congruence.
      - constructor; assumption. }
    assert (Hstore : forall k v, (vals = true -> k = KInstanceVar \/ exists w, plookup n e = Some (VData w) /\ forall l, v = Some (AvLit l) -> w = Some l)
                                 \/ v = None ->
                     vals = true -> val_rel (handle_constant n flow default k v expr) (store_value v expr aug) pv).
    { intros k v Hold Hv. unfold C03Rel.val_rel. destruct expr as [r|].
      - right. intros l Hl. cbn in Hl. destruct aug.
        + destruct v; discriminate.
        + destruct r; cbn in Hl; try discriminate. inversion Hl; subst. eapply H1; eauto.
      - cbn [store_value]. specialize (H2 Hv eq_refl). unfold literal_bound in H2.
        assert (Hk : handle_constant n flow default k v None = match k with KConstant => default | _ => k end).
        { unfold handle_constant, is_constant. destruct v; reflexivity. }
        destruct Hold as [Hold|Hnone]; [|subst v; right; intros; discriminate].
        destruct (Hold Hv) as [Hi|[w [Hw Hl]]].
        + subst k. left. rewrite Hk. reflexivity.
        + right. intros l El. rewrite Hw in H2. specialize (Hl _ El). subst w. discriminate. }
    destruct (lookup n (contents s)) as [o|] eqn:E.
    - destruct (doc_entry_of_data _ _ _ _ _ HA E Hnf) as [k [d [a [v [Ho Hk]]]]]. subst o.
      pose proof (upd_attr_upd' n f s k d a v ND E) as HU.
      eapply (Hfin (upd_attr n f s)); [exact HU|apply imps_upd_attr|apply handle_constant_not_property; auto| |].
      + apply Hstore. left. intro Hv. eapply old_val_rel; eauto.
      + apply set_ann_wip; auto. exact (st_good _ _ _ _ HS n _ (lookup_In _ _ _ E)).
    - set (blk := OAttr default None None None).
      pose proof (add_obj_upd' n blk s ND) as HU1.
      assert (E1 : lookup n (contents (add_obj n blk s)) = Some blk).
      { rewrite (proj2 (proj1 HU1)). rewrite text_eqb_refl. reflexivity. }
      pose proof (upd_attr_upd' n f (add_obj n blk s) _ _ _ _ (proj1 (proj1 HU1)) E1) as HU2.
      pose proof (upd_trans_blank _ _ _ _ _ _ HU1 ltac:(eexists; reflexivity) HU2) as HU.
      eapply (Hfin (upd_attr n f (add_obj n blk s))); [exact HU|rewrite imps_upd_attr; apply imps_add_obj|apply handle_constant_not_property; auto| |].
      + apply Hstore. right. reflexivity.
      + apply set_ann_wip; auto.
  Qed.

  Lemma meta_tables : module_meta_vars = py_meta_names.
  Proof. reflexivity. Qed.

  Lemma oldschool_table : oldschool_names = [p_staticmethod; p_classmethod].
  Proof. reflexivity. Qed.

  (* the kinds the probed method sets are the ones Model.Builder.oldschool hard-codes: staticmethod -> STATIC_METHOD (3),
     classmethod -> CLASS_METHOD (2) *)
  Lemma oldschool_kinds_table : oldschool_kinds = [(p_staticmethod, 3%N); (p_classmethod, 2%N)].
  Proof. reflexivity. Qed.

  (* the right-hand side does not make the builder take the alias or the old-style decoration path *)
  Definition plain_expr (expr : option rhs) : Prop :=
    match expr with
    | Some (RName _) => False
    | Some (RCall f _) => mem f oldschool_names = false
    | _ => True
    end.

  Lemma oldschool_plain : forall n expr s, plain_expr expr -> oldschool n expr s = None.
  Proof.
    intros n expr s H. unfold oldschool. destruct expr as [[v|y|f args|]|]; auto.
    destruct args as [|arg [|? ?]]; auto. unfold plain_expr in H. rewrite H. rewrite andb_false_r. reflexivity.
  Qed.

  (* what a successful bind_data says *)
  Lemma bind_data_inv : forall pinh n v e e',
      bind_data g pinh n v e = Some e' ->
      mem n py_meta_names = false /\ not_fun_class (plookup n e) /\ e' = bind n v e /\
      (pdef n e = false -> pfirst n pinh <> Some false).
  Proof.
    intros pinh n v e e' H. unfold bind_data in H. destruct (mem n py_meta_names); [discriminate|].
    split; [reflexivity|]. unfold pdef.
    destruct (plookup n e) as [[| |w|i]|] eqn:E; try discriminate; cbn.
    - inversion H. repeat split; auto. intro; discriminate.
    - destruct (pfirst n pinh) as [[|]|]; try rewrite Hshadow in H; inversion H; repeat split; auto; intros _; discriminate.
    - destruct (pfirst n pinh) as [[|]|]; try rewrite Hshadow in H; inversion H; repeat split; auto; intros _; discriminate.
  Qed.

  Lemma St_data_target : forall sc ivs flow inh pinh chain n ann expr (aug : bool) pv s e e',
      St sc ivs s e -> (aug = true \/ plain_expr expr) ->
      (if aug return Prop then (exists w, plookup n e = Some (VData w)) /\ mem n py_meta_names = false /\ e' = bind n (VData pv) e
       else bind_data g pinh n (VData pv) e = Some e') ->
      mem_rel inh pinh ->
      (vals = true -> forall l, expr = Some (RLit l) -> aug = false -> pv = Some l) ->
      (vals = true -> expr = None -> literal_bound n e = false) ->
      (ann <> None -> In n ANN) ->
      St sc ivs (handle_assignment sc flow inh chain (TName n) ann expr aug s) e'.
  Proof.
    intros sc ivs flow inh pinh chain n ann expr aug pv s e e' HS Hpl Hpy Hmem Hv1 Hv2 Hann.
    pose proof (st_agree _ _ _ _ HS) as HA. inversion HA as [? ? ? R1 R2 R3 R4]; subst.
    assert (Hfacts : mem n py_meta_names = false /\ not_fun_class (plookup n e) /\ e' = bind n (VData pv) e /\
                     (aug = true -> lookup n (contents s) <> None) /\
                     (lookup n (contents s) = None -> lookup n inh <> Some SNonAttr)).
    { destruct aug.
      - destruct Hpy as [[w Hw] [Hm He]]. repeat split; auto.
        + rewrite Hw. exact I.
        + intros _. apply R2. unfold pdef. rewrite Hw. reflexivity.
        + intro E. exfalso. apply (R2 n); auto. unfold pdef. rewrite Hw. reflexivity.
      - destruct (bind_data_inv _ _ _ _ _ Hpy) as [Hm [Hnf [He Hsh]]]. repeat split; auto.
        + intro; discriminate.
        + intros E Hl. assert (Hd : pdef n e = false).
          { destruct (pdef n e) eqn:Ed; auto. exfalso. apply (R2 n Ed). exact E. }
          apply (Hsh Hd). apply (proj1 Hmem). exact Hl. }
    destruct Hfacts as [Hmeta [Hnf [He' [Haug Hinh]]]]. subst e'.
    assert (Hal : aliasing chain n expr s = None).
    { unfold aliasing. destruct (lookup n (contents s)) eqn:E; auto.
      destruct Hpl as [Hpl|Hpl]; [exfalso; apply (Haug Hpl); reflexivity|].
      destruct expr as [[| | |]|]; cbn in Hpl; auto; contradiction. }
    cbn [handle_assignment]. destruct sc.
    - rewrite Hal. unfold handle_module_var. rewrite meta_tables, Hmeta.
      pose proof (St_var ScModule ivs s e KVariable flow n ann expr aug pv HS ltac:(discriminate) Hnf Hv1 Hv2 Hann) as HV.
      destruct (lookup n (contents s)) as [o|] eqn:E.
      + destruct (doc_entry_of_data _ _ _ _ _ HA E Hnf) as [k [d [a [v [Ho Hk]]]]]. subst o. exact HV.
      + destruct aug; [exfalso; apply Haug; auto|exact HV].
    - assert (Hold : (if aug then None else oldschool n expr s) = None).
      { destruct aug; auto. destruct Hpl as [Hpl|Hpl]; [discriminate|]. auto using oldschool_plain. }
      rewrite Hold. rewrite Hal. unfold handle_class_var.
      pose proof (St_var ScClass ivs s e KClassVar flow n ann expr aug pv HS ltac:(discriminate) Hnf Hv1 Hv2 Hann) as HV.
      destruct (lookup n (contents s)) as [o|] eqn:E.
      + destruct (doc_entry_of_data _ _ _ _ _ HA E Hnf) as [k [d [a [v [Ho Hk]]]]]. subst o.
        rewrite (maybe_attribute_present _ _ _ _ E). cbn [is_attr negb]. exact HV.
      + assert (Hm : maybe_attribute inh (contents s) n = true).
        { unfold maybe_attribute. rewrite E. specialize (Hinh eq_refl). destruct (lookup n inh) as [[|]|]; auto; congruence. }
        rewrite Hm. cbn [negb]. destruct aug; [exfalso; apply Haug; auto|exact HV].
  Qed.

  (* ---- visit_Assign *)
  Lemma bind_unpacked_inv : forall pinh n e e1, bind_unpacked g pinh n e = Some e1 ->
      bind_data g pinh n (VData None) e = Some e1 /\ (g_unpack g = true -> literal_bound n e = false).
  Proof.
    intros pinh n e e1 H. unfold bind_unpacked in H. destruct (g_unpack g); cbn in H.
    - destruct (literal_bound n e); [discriminate|]. auto.
    - split; auto. intro; discriminate.
  Qed.

  Lemma St_tuple_names : forall sc ivs flow inh pinh chain ns s e e',
      St sc ivs s e -> ofold (bind_unpacked g pinh) ns e = Some e' -> mem_rel inh pinh ->
      St sc ivs (fold_left (fun s n => handle_assignment sc flow inh chain (TName n) None None false s) ns s) e'.
  Proof.
    intros sc ivs flow inh pinh chain ns. induction ns as [|n ns IH]; cbn [fold_left ofold]; intros s e e' HS Hpy Hmem.
    - inversion Hpy; subst. exact HS.
    - destruct (bind_unpacked g pinh n e) as [e1|] eqn:E1; [|discriminate].
      destruct (bind_unpacked_inv _ _ _ _ E1) as [Eb Hlit].
      eapply IH; [|exact Hpy|exact Hmem].
      apply (St_data_target sc ivs flow inh pinh chain n None None false None s e e1); auto.
      + right; exact I.
      + intros; discriminate.
      + intro Hc; contradiction.
  Qed.

  Definition assign_step (sc : scope) (flow : bool) (inh : list (name * summary)) (outer : list (contents_t * imps_t)) (r : rhs) :=
    fun s t => match t with
               | TTuple ns => fold_left (fun s n => handle_assignment sc flow inh outer (TName n) None None false s) ns s
               | _ => handle_assignment sc flow inh outer t None (Some r) false s
               end.

  Lemma St_targets_data : forall sc ivs flow inh pinh outer r pv ts s e e',
      St sc ivs s e -> plain_expr (Some r) -> ofold (bind_target g pinh (VData pv)) ts e = Some e' ->
      mem_rel inh pinh -> (forall l, r = RLit l -> pv = Some l) ->
      St sc ivs (fold_left (assign_step sc flow inh outer r) ts s) e'.
  Proof.
    intros sc ivs flow inh pinh outer r pv ts. induction ts as [|t ts IH]; cbn [fold_left ofold]; intros s e e' HS Hpl Hpy Hmem Hrv.
    - inversion Hpy; subst. exact HS.
    - destruct (bind_target g pinh (VData pv) t e) as [e1|] eqn:E1; [|discriminate].
      eapply IH; [|exact Hpl|exact Hpy|exact Hmem|exact Hrv].
      destruct t as [n|ns|a]; cbn [assign_step].
      + cbn in E1. apply (St_data_target sc ivs flow inh pinh outer n None (Some r) false pv s e e1); auto.
        * intros _ l Hl _. inversion Hl. auto.
        * intros; discriminate.
        * intro Hc; contradiction.
      + cbn in E1. eapply St_tuple_names; eauto.
      + discriminate.
  Qed.

  Lemma replace_upd : forall n o s o0,
      NoDup (keys (contents s)) -> lookup n (contents s) = Some o0 ->
      upd (contents s) n o (replace n o (contents s)).
  Proof.
    intros n o s o0 ND E. split; [split|].
    - rewrite keys_replace. exact ND.
    - intro m. rewrite lookup_replace. rewrite E. reflexivity.
    - intros m o' H. apply in_replace in H. destruct H as [H|H]; [inversion H; auto|auto].
  Qed.

  (* one Name target with the statement's own right-hand side (Assign with a single target, AnnAssign) *)
  Lemma St_single : forall sc ivs flow inh pinh outer n ann r v s e e',
      St sc ivs s e -> assign_value (pscope_of sc) e [TName n] r = Some v -> bind_target g pinh v (TName n) e = Some e' ->
      mem_rel inh pinh -> (ann <> None -> In n ANN) ->
      St sc ivs (handle_assignment sc flow inh outer (TName n) ann (Some r) false s) e'.
  Proof.
    intros sc ivs flow inh pinh outer n ann r v s e e' HS Ev Hpy Hmem Hann.
    destruct r as [lv|y|f args|]; cbn in Ev.
    - inversion Ev; subst. cbn in Hpy.
      apply (St_data_target sc ivs flow inh pinh outer n ann (Some (RLit lv)) false (Some lv) s e e'); auto;
        [right; exact I|intros _ l Hl _; inversion Hl; reflexivity|intros; discriminate].
    - discriminate.
    - destruct (text_eqb f p_staticmethod || text_eqb f p_classmethod) eqn:Ef.
      + (* the old-style wrapping of a (possibly already wrapped) method of this class body *)
        destruct sc; cbn in Ev; [discriminate|].
        destruct args as [|a [|? ?]]; try discriminate.
        destruct (text_eqb n a) eqn:Ena; [|discriminate]. apply text_eqb_eq in Ena. subst a.
        destruct (plookup n e) as [[asy w0 d| | |]|] eqn:Ep; try discriminate.
        assert (Hw0 : w0 <> WProp /\ v = VFun asy (if text_eqb f p_staticmethod then WStatic else WClassM) d).
        { destruct w0; try discriminate; inversion Ev; split; auto; discriminate. }
        destruct Hw0 as [Hw0 Hv]. subst v. cbn in Hpy. inversion Hpy; subst e'. clear Hpy Ev.
        cbn [handle_assignment].
        pose proof (St_nodup _ _ _ _ HS) as ND. pose proof (st_agree _ _ _ _ HS) as HA.
        inversion HA as [? ? ? R1 R2 R3 R4]; subst.
        assert (Hd : pdef n e = true) by (unfold pdef; rewrite Ep; reflexivity).
        destruct (lookup n (contents s)) as [o|] eqn:E; [|exfalso; eapply R2; eauto].
        specialize (R4 _ _ _ E Ep eq_refl). inversion R4; subst; [|congruence].
        assert (Hmem' : mem f oldschool_names = true).
        { rewrite oldschool_table. cbn. apply orb_true_iff in Ef. destruct Ef as [Ef|Ef]; rewrite Ef; cbn; auto. apply orb_true_r. }
        unfold oldschool. rewrite text_eqb_refl, Hmem', E. cbn [andb].
        set (k' := if text_eqb f t_staticmethod then KStaticMethod else if text_eqb f t_classmethod then KClassMethod else k).
        pose proof (replace_upd n (OFun k' asy (option_map clean d)) s _ ND E) as HU.
        eapply St_point; [exact HS|exact HU|reflexivity| | |reflexivity|exact Logic.I].
        * intros m Hm d1 a1 v1. cbn in Hm. cbn. rewrite (proj2 (proj1 HU)).
          destruct (text_eqb m n) eqn:Emn; [discriminate|]. exact (st_cur _ _ _ _ HS m Hm d1 a1 v1).
        * constructor; auto. subst k'. change t_staticmethod with p_staticmethod. change t_classmethod with p_classmethod.
          destruct (text_eqb f p_staticmethod) eqn:E1; [reflexivity|].
          cbn in Ef. rewrite Ef. reflexivity.
      + destruct (text_eqb f p_property); [discriminate|]. inversion Ev; subst. cbn in Hpy.
        apply (St_data_target sc ivs flow inh pinh outer n ann (Some (RCall f args)) false None s e e'); auto;
          [|intros; discriminate|intros; discriminate].
        right. unfold plain_expr. rewrite oldschool_table. cbn.
        apply orb_false_iff in Ef. destruct Ef as [E1 E2]. rewrite E1, E2. reflexivity.
    - inversion Ev; subst. cbn in Hpy.
      apply (St_data_target sc ivs flow inh pinh outer n ann (Some ROther) false None s e e'); auto;
        [right; exact I|intros; discriminate|intros; discriminate].
  Qed.

  Lemma St_assign : forall sc ivs flow inh pinh outer ts r s e e' fr,
      St sc ivs s e -> py_stmt g (Assign ts r) (pscope_of sc) pinh ivs fr e = Some e' -> mem_rel inh pinh ->
      St sc ivs (walk_stmt clean (Assign ts r) sc flow inh outer s) e'.
  Proof.
    intros sc ivs flow inh pinh outer ts r s e e' fr HS Hpy Hmem. cbn [walk_stmt py_stmt] in *.
    change (St sc ivs (fold_left (assign_step sc flow inh outer r) ts s) e').
    destruct (assign_value (pscope_of sc) e ts r) as [v|] eqn:Ev; [|discriminate].
    destruct v as [asy w d|x d ns mro ivs0|pv|i].
    - (* only the wrapping form yields a function: a single Name target *)
      destruct r as [lv|y|f args|]; cbn in Ev; try discriminate.
      destruct (text_eqb f p_staticmethod || text_eqb f p_classmethod) eqn:Ef;
        [|destruct (text_eqb f p_property); discriminate].
      destruct (pscope_of sc) eqn:Esc; [discriminate|].
      destruct ts as [|[n| |] [|? ?]]; try discriminate.
      cbn [ofold] in Hpy. destruct (bind_target g pinh (VFun asy w d) (TName n) e) as [e1|] eqn:Eb; [|discriminate].
      inversion Hpy; subst e1. cbn [fold_left assign_step].
      eapply St_single; eauto.
      * rewrite Esc. cbn. rewrite Ef. exact Ev.
      * intro Hc; contradiction.
    - destruct r as [lv|y|f args|]; cbn in Ev; try discriminate.
      destruct (text_eqb f p_staticmethod || text_eqb f p_classmethod).
      + destruct (pscope_of sc); [discriminate|]. destruct ts as [|[n| |] [|? ?]]; try discriminate.
        destruct args as [|a [|? ?]]; try discriminate. destruct (text_eqb n a); [|discriminate].
        destruct (plookup n e) as [[? [| | |] ?| | |]|]; discriminate.
      + destruct (text_eqb f p_property); discriminate.
    - assert (Hplain : plain_expr (Some r)).
      { destruct r as [lv|y|f args|]; cbn in Ev; try discriminate; try exact I.
        destruct (text_eqb f p_staticmethod || text_eqb f p_classmethod) eqn:Ef.
        + destruct (pscope_of sc); [discriminate|]. destruct ts as [|[n| |] [|? ?]]; try discriminate.
          destruct args as [|a [|? ?]]; try discriminate. destruct (text_eqb n a); [|discriminate].
          destruct (plookup n e) as [[? [| | |] ?| | |]|]; discriminate.
        + unfold plain_expr. rewrite oldschool_table. cbn.
          apply orb_false_iff in Ef. destruct Ef as [E1 E2]. rewrite E1, E2. reflexivity. }
      eapply St_targets_data; eauto.
      intros l Hl. subst r. cbn in Ev. inversion Ev. reflexivity.
    - destruct r as [lv|y|f args|]; cbn in Ev; try discriminate.
      destruct (text_eqb f p_staticmethod || text_eqb f p_classmethod).
      + destruct (pscope_of sc); [discriminate|]. destruct ts as [|[n| |] [|? ?]]; try discriminate.
        destruct args as [|a [|? ?]]; try discriminate. destruct (text_eqb n a); [|discriminate].
        destruct (plookup n e) as [[? [| | |] ?| | |]|]; discriminate.
      + destruct (text_eqb f p_property); discriminate.
  Qed.

  Lemma St_annassign : forall sc ivs flow inh pinh outer t ann r s e e' fr,
      St sc ivs s e -> py_stmt g (AnnAssign t ann r) (pscope_of sc) pinh ivs fr e = Some e' -> mem_rel inh pinh ->
      incl (ann_names (AnnAssign t ann r)) ANN ->
      St sc ivs (walk_stmt clean (AnnAssign t ann r) sc flow inh outer s) e'.
  Proof.
    intros sc ivs flow inh pinh outer t ann r s e e' fr HS Hpy Hmem Hann. cbn [walk_stmt py_stmt] in *.
    destruct t as [n|ns|a]; try discriminate. destruct r as [r|]; [|discriminate].
    destruct (assign_value (pscope_of sc) e [TName n] r) as [v|] eqn:Ev; [|discriminate].
    eapply St_single; eauto. intros _. apply Hann. cbn. auto.
  Qed.

  Lemma St_augassign : forall sc ivs flow inh pinh outer t r s e e' fr,
      St sc ivs s e -> py_stmt g (AugAssign t r) (pscope_of sc) pinh ivs fr e = Some e' -> mem_rel inh pinh ->
      St sc ivs (walk_stmt clean (AugAssign t r) sc flow inh outer s) e'.
  Proof.
    intros sc ivs flow inh pinh outer t r s e e' fr HS Hpy Hmem. cbn [walk_stmt py_stmt] in *.
    destruct t as [n|ns|a]; try discriminate.
    destruct (mem n py_meta_names) eqn:Em; [discriminate|].
    destruct (plookup n e) as [[| |w|]|] eqn:Ep; try discriminate. inversion Hpy; subst e'.
    apply (St_data_target sc ivs flow inh pinh outer n None (Some r) true None s e (bind n (VData None) e)); auto.
    - repeat split; eauto.
    - intros; discriminate.
    - intros; discriminate.
    - intro Hc; contradiction.
  Qed.

  (* ---- decorators: what _handleFunctionDef computes against what the decorators do *)
  Lemma starts_with_app : forall p t, starts_with p t = true -> exists r, t = p ++ r.
  Proof.
    induction p as [|x p IH]; intros t H; cbn in *; [eauto|].
    destruct t as [|y t]; [discriminate|]. apply andb_true_iff in H. destruct H as [H1 H2].
    apply N.eqb_eq in H1. subst. destruct (IH _ H2) as [r Hr]. subst. eauto.
  Qed.

  Lemma ends_with_app : forall sfx t, ends_with sfx t = true -> exists pre, t = pre ++ sfx.
  Proof.
    intros sfx t H. unfold ends_with in H. apply starts_with_app in H. destruct H as [r Hr].
    exists (rev r). rewrite <- (rev_involutive t), Hr, rev_app_distr, rev_involutive. reflexivity.
  Qed.

  Lemma has_suffix_app : forall s pre, has_suffix s (pre ++ s) = true.
  Proof.
    intros s pre. induction pre as [|a pre IH]; cbn.
    - destruct s; cbn; [reflexivity|]. rewrite N.eqb_refl, text_eqb_refl. reflexivity.
    - rewrite IH. apply orb_true_r.
  Qed.

  Lemma property_like : forall n, ends_with t_property n || ends_with t_Property n = true -> has_suffix p_roperty n = true.
  Proof.
    intros n H. apply orb_true_iff in H. destruct H as [H|H]; apply ends_with_app in H; destruct H as [pre Hp]; subst n.
    - change t_property with ([112%N] ++ p_roperty). rewrite app_assoc. apply has_suffix_app.
    - change t_Property with ([80%N] ++ p_roperty). rewrite app_assoc. apply has_suffix_app.
  Qed.

  Definition flags_of (nm : name) (w : wrap) : dflags :=
    mkFlags (match w with WProp => true | _ => false end) (match w with WClassM => true | _ => false end)
            (match w with WStatic => true | _ => false end) nm.

  Lemma deco_step_transparent : forall fl d, deco_wrap d = Some None -> deco_step true fl d = fl.
  Proof.
    intros fl d H.
    assert (Hn : exists n, deco_dotted d = [n] /\ transparent_name n = true).
    { destruct d as [[|n [|? ?]]|[|n [|? ?]]]; unfold deco_wrap in H; try discriminate.
      - destruct (text_eqb n p_staticmethod); [discriminate|]. destruct (text_eqb n p_classmethod); [discriminate|].
        destruct (text_eqb n p_property); [discriminate|]. destruct (transparent_name n) eqn:E; [exists n; split; [reflexivity|exact E]|discriminate].
      - destruct (transparent_name n) eqn:E; [exists n; split; [reflexivity|exact E]|discriminate]. }
    destruct Hn as [n [Hd Ht]]. unfold deco_step. rewrite Hd. cbn [rev app negb length Nat.leb andb].
    unfold transparent_name in Ht. repeat (apply andb_true_iff in Ht; destruct Ht as [Ht ?]).
    destruct (ends_with t_property n || ends_with t_Property n) eqn:Ep.
    - apply property_like in Ep. rewrite Ep in *. discriminate.
    - change t_classmethod with p_classmethod. change t_staticmethod with p_staticmethod.
      destruct (text_eqb n p_classmethod); [discriminate|]. destruct (text_eqb n p_staticmethod); [discriminate|]. reflexivity.
  Qed.

  Lemma deco_step_wrapper : forall nm d w, deco_wrap d = Some (Some w) -> deco_step true (flags_of nm WNone) d = flags_of nm w.
  Proof.
    intros nm d w H. destruct d as [[|n [|? ?]]|[|n [|? ?]]]; unfold deco_wrap in H; try discriminate.
    - destruct (text_eqb n p_staticmethod) eqn:E1; [apply text_eqb_eq in E1; inversion H; subst; reflexivity|].
      destruct (text_eqb n p_classmethod) eqn:E2; [apply text_eqb_eq in E2; inversion H; subst; reflexivity|].
      destruct (text_eqb n p_property) eqn:E3; [apply text_eqb_eq in E3; inversion H; subst; reflexivity|].
      destruct (transparent_name n); discriminate.
    - destruct (transparent_name n); discriminate.
  Qed.

  Lemma deco_flags_class : forall nm ds acc w,
      def_wrap PClass ds acc = Some w -> fold_left (deco_step true) ds (flags_of nm acc) = flags_of nm w.
  Proof.
    intros nm ds. induction ds as [|d ds IH]; cbn; intros acc w H.
    - inversion H; reflexivity.
    - destruct (deco_wrap d) as [[w1|]|] eqn:Ed; try discriminate.
      + destruct acc; try discriminate. rewrite (deco_step_wrapper nm d w1 Ed). apply IH. exact H.
      + rewrite deco_step_transparent by exact Ed. apply IH. exact H.
  Qed.

  Lemma deco_flags_module : forall nm ds w,
      def_wrap PModule ds WNone = Some w -> w = WNone /\ deco_flags false nm ds = flags_of nm WNone.
  Proof.
    intros nm ds w H. split.
    - induction ds as [|d ds IH]; cbn in H; [inversion H; reflexivity|].
      destruct (deco_wrap d) as [[w1|]|]; try discriminate. auto.
    - unfold deco_flags. change (flags_of nm WNone) with (mkFlags false false false nm).
      generalize (mkFlags false false false nm) as fl. clear H.
      induction ds as [|d ds IH]; cbn; intro fl; [reflexivity|].
      rewrite <- (IH fl) at 2. f_equal. unfold deco_step. destruct (rev (deco_dotted d)); reflexivity.
  Qed.

  (* ---- _handleFunctionDef *)
  Lemma St_def : forall sc ivs flow inh pinh outer nm ds a body s e e' fr,
      St sc ivs s e -> py_stmt g (Def nm ds a body) (pscope_of sc) pinh ivs fr e = Some e' ->
      (sc = ScClass -> incl (stmt_ivars (Def nm ds a body)) ivs) -> incl (ann_names (Def nm ds a body)) ANN ->
      St sc ivs (walk_stmt clean (Def nm ds a body) sc flow inh outer s) e'.
  Proof.
    intros sc ivs flow inh pinh outer nm ds a body s e e' fr HS Hpy Hself Hann. cbn [py_stmt] in Hpy.
    destruct (def_wrap (pscope_of sc) ds WNone) as [w|] eqn:Ew; [|discriminate].
    inversion Hpy; subst e'. clear Hpy.
    pose proof (St_nodup _ _ _ _ HS) as ND.
    assert (Hfl : deco_flags (match sc with ScClass => true | ScModule => false end) nm ds = flags_of nm w /\
                  (sc = ScModule -> w = WNone)).
    { destruct sc; cbn in Ew.
      - destruct (deco_flags_module nm ds w Ew) as [Hw Hf]. subst. auto.
      - split; [|discriminate]. unfold deco_flags. apply (deco_flags_class nm ds WNone w Ew). }
    destruct Hfl as [Hfl Hmod]. cbn [walk_stmt]. rewrite Hfl.
    assert (Hadd : forall o, agree_obj sc o (VFun a w (docstring_of body)) -> wip_obj nm o ->
                             St sc ivs (set_cur None (add_obj nm o s)) (bind nm (VFun a w (docstring_of body)) e)).
    { intros o Ho Hw. pose proof (add_obj_upd' nm o s ND) as HU.
      eapply St_point; [exact HS|exact HU|cbn; apply imps_add_obj|apply cur_ok_none; reflexivity|exact Ho|reflexivity|exact Hw]. }
    destruct w; cbn [flags_of f_prop f_name].
    4: { (* property *)
      destruct sc; [specialize (Hmod eq_refl); discriminate|].
      apply Hadd; [constructor; reflexivity|cbn; auto]. }
    all: apply St_set_cur_none; unfold fwalk_body;
      (eapply fwalk_suite;
       [apply Forall_forall; intros y _ s0 Hok0 HS0; apply fwalk_St; [intros Hi; destruct sc; [discriminate Hi|reflexivity]|exact Hok0|exact HS0]
       |apply fw_ok_suite; [intros Hi; destruct sc; [discriminate Hi|]; specialize (Hself eq_refl); cbn [stmt_ivars] in Hself; cbn in Ew; rewrite Ew in Hself; exact Hself|exact Hann]|]);
      (apply Hadd; [constructor; [|reflexivity]; destruct sc; try (specialize (Hmod eq_refl); discriminate); reflexivity
                   |exact Logic.I]).
  Qed.

  (* ---- maps over the documented objects that keep what agree_ns looks at *)
  Lemma lookup_map : forall (gf : name -> obj -> obj) n c,
      lookup n (map (fun p => (fst p, gf (fst p) (snd p))) c) =
      match lookup n c with Some o => Some (gf n o) | None => None end.
  Proof.
    induction c as [|[m o] c IH]; cbn; auto. destruct (text_eqb n m) eqn:E; auto.
    apply text_eqb_eq in E. subst. reflexivity.
  Qed.

  Lemma keys_map : forall (gf : name -> obj -> obj) c, keys (map (fun p => (fst p, gf (fst p) (snd p))) c) = keys c.
  Proof. intros. unfold keys. rewrite map_map. reflexivity. Qed.

  Lemma agree_map : forall (gf : name -> obj -> obj) sc c e,
      (forall n o v, agree_obj sc o v -> agree_obj sc (gf n o) v) ->
      (forall n o, is_ivar_obj o = true -> is_ivar_obj (gf n o) = true) ->
      agree_ns sc c e -> agree_ns sc (map (fun p => (fst p, gf (fst p) (snd p))) c) e.
  Proof.
    intros gf sc c e Hg Hi H. inversion H as [? ? ? R1 R2 R3 R4]; subst. constructor.
    - rewrite keys_map. exact R1.
    - intros n Hn. rewrite lookup_map. specialize (R2 n Hn). destruct (lookup n c); congruence.
    - intros n o Hl. rewrite lookup_map in Hl. destruct (lookup n c) as [o0|] eqn:E; [|discriminate].
      inversion Hl; subst. destruct (R3 _ _ E) as [?|[? ?]]; auto.
    - intros n o v Hl Hp Ha. rewrite lookup_map in Hl. destruct (lookup n c) as [o0|] eqn:E; [|discriminate].
      inversion Hl; subst. eauto.
  Qed.

  Definition infer_one (o : obj) : obj :=
    match o with OAttr k d None (Some v) => OAttr k d (infer_value v) (Some v) | _ => o end.

  Lemma infer_all_map : forall c, infer_all c = map (fun p => (fst p, infer_one (snd p))) c.
  Proof.
    intro c. unfold infer_all. apply map_ext. intros [n o]. cbn.
    destruct o as [| |k d [a|] [v|]]; reflexivity.
  Qed.

  Lemma agree_infer_all : forall sc c e, agree_ns sc c e -> agree_ns sc (infer_all c) e.
  Proof.
    intros sc c e H. rewrite infer_all_map. apply (agree_map (fun _ => infer_one)); auto.
    - intros n o v Ho. destruct o as [| |k d [a|] [w|]]; cbn; auto. inversion Ho; subst; constructor; auto.
    - intros n o Ho. destruct o as [| |k d [a|] [w|]]; cbn in *; auto.
  Qed.


  Lemma fin_infer_all : forall c, good_c c -> fin_c (infer_all c).
  Proof.
    intros c H n o Hin. rewrite infer_all_map in Hin. apply in_map_iff in Hin. destruct Hin as [[m o0] [Heq Hin]].
    cbn in Heq. inversion Heq; subst. specialize (H _ _ Hin).
    destruct o0 as [| |k d [a|] [w|]]; cbn in *; auto; destruct H as [H|H]; auto; discriminate.
  Qed.

  Lemma mem_In : forall n l, mem n l = true <-> In n l.
  Proof.
    intros n l. unfold mem. rewrite existsb_exists. split.
    - intros [x [Hx Hx']]. apply text_eqb_eq in Hx'. subst. exact Hx.
    - intro H. exists n. split; auto. apply text_eqb_refl.
  Qed.

  (* ================================================================ exception classes and inherited members *)
  Lemma mem_forall : forall l1 l2, forallb (fun x => mem x l2) l1 = true -> forall b, mem b l1 = true -> mem b l2 = true.
  Proof.
    intros l1 l2 H b Hb. rewrite forallb_forall in H. apply H. apply mem_In. exact Hb.
  Qed.

  (* the regenerated table against CPython's builtin exception hierarchy (3.12): every name of the table is a builtin
     exception class, and every builtin exception class is in the table (since fix 7fd5e3f) *)
  Lemma std_table_sound : forall b, mem b std_lib_exceptions = true -> mem b py_builtin_exceptions = true.
  Proof. apply mem_forall. vm_compute. reflexivity. Qed.

  Lemma std_table_complete : forall b, mem b py_builtin_exceptions = true -> mem b std_lib_exceptions = true.
  Proof. apply mem_forall. vm_compute. reflexivity. Qed.

  Lemma builtin_exc_agree : forall b x, py_builtin_class b = Some x -> mem b std_lib_exceptions = x.
  Proof.
    intros b x H. unfold py_builtin_class in H. destruct (mem b py_builtin_exceptions) eqn:E.
    - inversion H; subst. apply std_table_complete. exact E.
    - destruct (mem b py_builtin_plain); inversion H; subst.
      destruct (mem b std_lib_exceptions) eqn:E2; auto. apply std_table_sound in E2. congruence.
  Qed.


  Lemma lookup_summary : forall c n,
      lookup n (summary_of c) = match lookup n c with Some (OAttr k _ _ _) => Some (SAttr k) | Some _ => Some SNonAttr | None => None end.
  Proof.
    induction c as [|[m o] c IH]; cbn; intro n; auto. destruct (text_eqb n m); auto. destruct o; reflexivity.
  Qed.

  Lemma pfirst_app : forall n m1 m2, pfirst n (m1 ++ m2) = match pfirst n m1 with Some b => Some b | None => pfirst n m2 end.
  Proof.
    induction m1 as [|e m1 IH]; cbn; intros m2; auto.
    destruct (plookup n e) as [v|]; auto. destruct (is_aux v); auto.
  Qed.

  Lemma mem_rel_nil : mem_rel [] [].
  Proof. split; intros n H; [discriminate|reflexivity]. Qed.

  Lemma mem_rel_app : forall l1 m1 l2 m2, mem_rel l1 m1 -> mem_rel l2 m2 -> mem_rel (l1 ++ l2) (m1 ++ m2).
  Proof.
    intros l1 m1 l2 m2 [A1 A2] [B1 B2]. split; intros n H; rewrite lookup_app in H; rewrite pfirst_app.
    - destruct (lookup n l1) as [x|] eqn:E.
      + inversion H; subst. rewrite (A1 _ E). reflexivity.
      + rewrite (A2 _ E). auto.
    - destruct (lookup n l1) as [x|] eqn:E; [discriminate|]. rewrite (A2 _ E). auto.
  Qed.

  (* a class against its namespace, then its bases *)
  Lemma mem_rel_class : forall c ns ih mro,
      agree_ns ScClass c ns -> mem_rel ih mro -> mem_rel (summary_of c ++ ih) (ns :: mro).
  Proof.
    intros c ns ih mro HA [B1 B2]. inversion HA as [? ? ? R1 R2 R3 R4]; subst.
    assert (Hnone : forall n, lookup n c = None -> pfirst n (ns :: mro) = pfirst n mro).
    { intros n E. cbn. destruct (plookup n ns) as [v|] eqn:Ep; auto. destruct (is_aux v) eqn:Ea; auto.
      exfalso. apply (R2 n); auto. unfold pdef. rewrite Ep, Ea. reflexivity. }
    split; intros n H; rewrite lookup_app, lookup_summary in H.
    - destruct (lookup n c) as [o|] eqn:E.
      + destruct o as [k a d| |]; inversion H.
        * destruct (R3 _ _ E) as [Hd|[_ Hi]]; [|discriminate]. unfold pdef in Hd.
          destruct (plookup n ns) as [v|] eqn:Ep; [|discriminate].
          assert (Ha : is_aux v = false) by (destruct (is_aux v); [discriminate|reflexivity]).
          specialize (R4 _ _ _ E Ep Ha). inversion R4; subst. cbn. rewrite Ep. cbn.
          match goal with Hk : fkind_of ScClass ?w = Some _ |- _ => destruct w; try discriminate Hk; reflexivity end.
        * destruct (R3 _ _ E) as [Hd|[_ Hi]]; [|discriminate]. unfold pdef in Hd.
          destruct (plookup n ns) as [v|] eqn:Ep; [|discriminate].
          assert (Ha : is_aux v = false) by (destruct (is_aux v); [discriminate|reflexivity]).
          specialize (R4 _ _ _ E Ep Ha). inversion R4; subst. cbn. rewrite Ep. reflexivity.
      + rewrite (Hnone _ E). auto.
    - destruct (lookup n c) as [o|] eqn:E; [destruct o; discriminate|]. rewrite (Hnone _ E). auto.
  Qed.

  Lemma lookup_members_conv : forall ms n,
      lookup n (members_conv ms) = option_map summ_of_msum (alookup n ms).
  Proof. induction ms as [|[m x] ms IH]; cbn; intro n; auto. destruct (text_eqb n m); auto. Qed.

  Lemma plookup_members_env : forall ms n,
      plookup n (members_env ms) = option_map (fun x => match x with MNonAttr => VFun false WNone None | MAttr _ => VData None end) (alookup n ms).
  Proof. unfold plookup. induction ms as [|[m x] ms IH]; cbn; intro n; auto. destruct (text_eqb n m); auto. Qed.

  Lemma mem_rel_members : forall ms, mem_rel (members_conv ms) [members_env ms].
  Proof.
    intro ms. split; intros n H; rewrite lookup_members_conv in H; cbn; rewrite plookup_members_env;
      destruct (alookup n ms) as [[|[|]]|]; cbn in *; try discriminate; reflexivity.
  Qed.

  (* ================================================================ enclosing scopes *)
  (* an enclosing scope, as the documentation side keeps it (contents and import map when the class statement was
     entered, with the class itself already registered) against Python's frame *)
  Definition frame_rel (d : contents_t * imps_t) (f : frame) : Prop :=
    exists sc c0, agree_ns sc c0 (f_env f) /\ iv_ok (f_ivs f) c0 (f_env f) /\ imps_rel (snd d) (f_env f) /\
                  (forall m, m <> f_pending f -> lookup m (fst d) = lookup m c0).
  Definition chain_rel (outer : list (contents_t * imps_t)) (fr : list frame) : Prop := Forall2 frame_rel outer fr.

  (* what the name lookup of the subset finds, against pydoctor's expandName *)
  Definition found_rel (r : nres) (f : found) (b : name) : Prop :=
    match r with
    | NReject => True
    | NUnbound => f = FExt b
    | NVal v => if is_aux v
                then match v with VAux IOther => True | VAux i => f = FImp (impval_of i) | _ => True end
                else exists sc o, f = FObj o /\ agree_obj sc o v
    end.

  (* one scope: either the lookup is decided here, or both sides go on *)
  Lemma scope_lookup : forall sc c0 im e ivs b,
      agree_ns sc c0 e -> iv_ok ivs c0 e -> imps_rel im e ->
      match own_lookup e ivs b with
      | NReject => True
      | NUnbound => lookup b c0 = None /\ lookup b im = None
      | NVal v => if is_aux v
                  then lookup b c0 = None /\ match v with VAux IOther => True | VAux i => lookup b im = Some (impval_of i) | _ => True end
                  else exists o, lookup b c0 = Some o /\ agree_obj sc o v
      end.
  Proof.
    intros sc c0 im e ivs b HA HI [M1 M2]. inversion HA as [? ? ? R1 R2 R3 R4]; subst. unfold own_lookup.
    assert (Hnone : pdef b e = false -> mem b ivs = false -> lookup b c0 = None).
    { intros Hd Hm. destruct (lookup b c0) as [o|] eqn:E; auto. destruct (HI _ _ E) as [?|Hin]; [congruence|].
      apply mem_In in Hin. congruence. }
    destruct (plookup b e) as [v|] eqn:Ep.
    - destruct (is_aux v) eqn:Ea; cbn [andb].
      + destruct (mem b ivs) eqn:Em; [exact I|]. rewrite Ea. split.
        * apply Hnone; auto. unfold pdef. rewrite Ep, Ea. reflexivity.
        * destruct v as [| | |i]; try discriminate. destruct i; auto; apply M2; auto; discriminate.
      + rewrite Ea. assert (Hd : pdef b e = true) by (unfold pdef; rewrite Ep, Ea; reflexivity).
        specialize (R2 b Hd). destruct (lookup b c0) as [o|] eqn:E; [|congruence]. eauto.
    - destruct (mem b ivs) eqn:Em; [exact I|]. split.
      + apply Hnone; auto. unfold pdef. rewrite Ep. reflexivity.
      + destruct (lookup b im) eqn:Ei; auto. exfalso. apply (M1 b); [rewrite Ei; discriminate|exact Ep].
  Qed.

  Lemma outer_find : forall outer fr b, chain_rel outer fr -> found_rel (outer_lookup fr b) (find_name outer b) b.
  Proof.
    intros outer fr b H. induction H as [|[c im] f outer fr [sc [c0 [HA [HI [HM Hl]]]]] Hrest IH]; cbn [outer_lookup find_name].
    - reflexivity.
    - destruct (text_eqb b (f_pending f)) eqn:Ep; [exact I|].
      assert (Hb : b <> f_pending f) by (apply text_eqb_neq; exact Ep).
      cbn in Hl. rewrite (Hl b Hb).
      pose proof (scope_lookup sc c0 im (f_env f) (f_ivs f) b HA HI HM) as HS.
      destruct fr as [|f2 fr2].
      + (* the module *)
        inversion Hrest; subst. cbn [find_name] in *.
        destruct (own_lookup (f_env f) (f_ivs f) b) as [| |v]; cbn.
        * exact I.
        * destruct HS as [E1 E2]. rewrite E1, E2. reflexivity.
        * destruct (is_aux v) eqn:Ea.
          -- destruct HS as [E1 E2]. rewrite E1. destruct v as [| | |i]; auto. destruct i; auto; rewrite E2; reflexivity.
          -- destruct HS as [o [E1 Ho]]. rewrite E1. eauto.
      + (* an enclosing class *)
        unfold own_lookup in HS.
        destruct (plookup b (f_env f)) as [v|] eqn:Epl; cbn [orb].
        * rewrite orb_true_r. exact I.
        * destruct (mem b (f_ivs f)) eqn:Em; cbn [orb]; [exact I|].
          destruct HS as [E1 E2]. rewrite E1, E2. exact IH.
  Qed.

  Lemma name_find : forall sc ivs s e outer fr b,
      St sc ivs s e -> chain_rel outer fr ->
      found_rel (name_lookup e ivs fr b) (find_name ((contents s, imps s) :: outer) b) b.
  Proof.
    intros sc ivs s e outer fr b HS HC. unfold name_lookup. cbn [find_name].
    pose proof (scope_lookup sc (contents s) (imps s) e ivs b (st_agree _ _ _ _ HS) (st_iv _ _ _ _ HS) (st_imps _ _ _ _ HS)) as H.
    destruct (own_lookup e ivs b) as [| |v]; cbn.
    - exact I.
    - destruct H as [E1 E2]. rewrite E1, E2. apply outer_find. exact HC.
    - destruct (is_aux v) eqn:Ea.
      + destruct H as [E1 E2]. rewrite E1. destruct v as [| | |i]; auto. destruct i; auto; rewrite E2; reflexivity.
      + destruct H as [o [E1 Ho]]. rewrite E1. eauto.
  Qed.

  (* ---- a base class expression: exception flag and inherited members agree *)
  Lemma lookup_classes_conv : forall cls x,
      lookup x (map (fun c : name * (bool * members_t) => (fst c, (fst (snd c), members_conv (snd (snd c))))) cls)
      = option_map (fun p : bool * members_t => (fst p, members_conv (snd p))) (alookup x cls).
  Proof. induction cls as [|[m [b ms]] cls IH]; cbn; intro x; auto. destruct (text_eqb x m); auto. Qed.

  Lemma base_agree : forall sc ivs s e outer fr b x envs,
      St sc ivs s e -> chain_rel outer fr -> base_info e ivs fr b = Some (x, envs) ->
      base_exc (resolve ((contents s, imps s) :: outer) b) = x /\
      mem_rel (base_inh (resolve ((contents s, imps s) :: outer) b)) envs.
  Proof.
    intros sc ivs s e outer fr b x envs HS HC H. unfold base_info in H.
    destruct b as [|y [|z [|? ?]]]; try discriminate.
    - (* a name *)
      pose proof (name_find sc ivs s e outer fr y HS HC) as HF. unfold resolve.
      destruct (name_lookup e ivs fr y) as [| |v]; [discriminate| |]; unfold found_rel in HF.
      + rewrite HF. destruct (py_builtin_class y) as [xb|] eqn:Eb; [|discriminate]. inversion H; subst.
        cbn. split; [apply builtin_exc_agree; exact Eb|apply mem_rel_nil].
      + destruct v as [| xv dv ns mro ivs0 | |i]; cbn in H; try discriminate.
        * inversion H; subst. cbn [is_aux] in HF. destruct HF as [sc' [o [Ef Ho]]]. rewrite Ef. inversion Ho; subst.
          cbn. split; [reflexivity|]. apply mem_rel_class; assumption.
        * destruct i as [|xi ms|cls]; try discriminate. inversion H; subst. cbn [is_aux] in HF. rewrite HF. cbn.
          split; [reflexivity|apply mem_rel_members].
    - (* module.Name *)
      pose proof (name_find sc ivs s e outer fr y HS HC) as HF. unfold resolve.
      destruct (name_lookup e ivs fr y) as [| |v]; try discriminate.
      destruct v as [| | |i]; try discriminate. destruct i as [| |cls]; try discriminate.
      unfold found_rel in HF. cbn [is_aux] in HF. rewrite HF. cbn [impval_of]. rewrite lookup_classes_conv.
      destruct (alookup z cls) as [[xi ms]|]; [|discriminate]. inversion H; subst. cbn.
      split; [reflexivity|apply mem_rel_members].
  Qed.

  Lemma bases_agree : forall sc ivs s e outer fr bs x envs,
      St sc ivs s e -> chain_rel outer fr -> bases_info e ivs fr bs = Some (x, envs) ->
      existsb base_exc (map (resolve ((contents s, imps s) :: outer)) bs) = x /\
      mem_rel (flat_map base_inh (map (resolve ((contents s, imps s) :: outer)) bs)) envs.
  Proof.
    intros sc ivs s e outer fr bs. induction bs as [|b bs IH]; cbn [bases_info map existsb flat_map]; intros x envs HS HC H.
    - inversion H; subst. split; [reflexivity|apply mem_rel_nil].
    - destruct (base_info e ivs fr b) as [[x1 m1]|] eqn:E1; [|discriminate].
      destruct (bases_info e ivs fr bs) as [[x2 m2]|] eqn:E2; [|discriminate]. inversion H; subst.
      destruct (base_agree _ _ _ _ _ _ _ _ _ HS HC E1) as [A1 A2].
      destruct (IH _ _ HS HC eq_refl) as [B1 B2]. rewrite A1, B1. split; [reflexivity|apply mem_rel_app; assumption].
  Qed.

  (* ================================================================ every instance variable gets documented *)
  Definition present (n : name) (s : st) : Prop := lookup n (contents s) <> None.
  Definition keeps (f : st -> st) : Prop := forall n s, present n s -> present n (f s).

  Lemma lookup_add_obj : forall n m o s,
      lookup n (contents (add_obj m o s)) = if text_eqb n m then Some o else lookup n (contents s).
  Proof.
    intros n m o s. unfold add_obj. destruct (lookup m (contents s)) eqn:E; cbn.
    - rewrite lookup_replace, E. reflexivity.
    - rewrite lookup_app. cbn. destruct (text_eqb n m) eqn:Enm.
      + apply text_eqb_eq in Enm. subst. rewrite E. reflexivity.
      + destruct (lookup n (contents s)); reflexivity.
  Qed.

  Lemma present_upd_attr : forall n m f s, present n (upd_attr m f s) <-> present n s.
  Proof.
    intros n m f s. unfold present, upd_attr. destruct (lookup m (contents s)) as [[| |k d a v]|] eqn:E; try tauto.
    cbn. rewrite lookup_replace, E. destruct (text_eqb n m) eqn:Enm; [|tauto].
    apply text_eqb_eq in Enm. subst. rewrite E. split; discriminate.
  Qed.

  Lemma keeps_add_obj : forall m o, keeps (add_obj m o).
  Proof. intros m o n s H. unfold present in *. rewrite lookup_add_obj. destruct (text_eqb n m); [discriminate|exact H]. Qed.

  Lemma keeps_attach_doc : forall d, keeps (attach_doc clean d).
  Proof. intros d n s H. unfold attach_doc. destruct (cur s); auto. apply (present_upd_attr n). exact H. Qed.

  Lemma present_hiv : forall inc inh a ann expr s n,
      present n s \/ (inc = true /\ n = a /\ lookup a inh <> Some SNonAttr) -> present n (handle_instance_var inc inh a ann expr s).
  Proof.
    intros inc inh a ann expr s n H. unfold handle_instance_var.
    destruct inc; cbn [negb]; [|destruct H as [?|[? _]]; [auto|discriminate]].
    destruct (maybe_attribute inh (contents s) a) eqn:Em; cbn [negb].
    - destruct (lookup a (contents s)) as [o|] eqn:E.
      + assert (Hp : present n s).
        { destruct H as [?|[_ [? _]]]; auto. subst. unfold present. rewrite E. discriminate. }
        destruct o as [| |[] d an v]; auto; apply (present_upd_attr n); exact Hp.
      + apply (present_upd_attr n). unfold present. rewrite lookup_add_obj.
        destruct (text_eqb n a) eqn:Ena; [discriminate|]. destruct H as [?|[_ [? _]]]; auto.
        subst. rewrite text_eqb_refl in Ena. discriminate.
    - destruct H as [?|[_ [? Hi]]]; auto. subst. unfold maybe_attribute in Em. unfold present.
      destruct (lookup a (contents s)); [discriminate|]. destruct (lookup a inh) as [[|]|]; try discriminate. congruence.
  Qed.

  Lemma fold_present : forall (f : stmt -> st -> st) (iv : stmt -> list name) (P : name -> Prop) body,
      Forall (fun y => keeps (f y) /\ forall n s, In n (iv y) -> P n -> present n (f y s)) body ->
      keeps (fun s => fold_left (fun s y => f y s) body s) /\
      forall n s, In n (flat_map iv body) -> P n -> present n (fold_left (fun s y => f y s) body s).
  Proof.
    intros f iv P body HF. induction HF as [|y body [Hk Hp] _ [IHk IHp]]; cbn [fold_left flat_map].
    - split; [intros n s H; exact H|intros n s []].
    - split.
      + intros n s H. apply IHk. apply Hk. exact H.
      + intros n s Hin HP. apply in_app_or in Hin. destruct Hin as [Hin|Hin]; [apply IHk; apply Hp; auto|apply IHp; auto].
  Qed.

  Lemma fwalk_present : forall x inh,
      keeps (fwalk_stmt clean true inh x) /\
      forall n s, In n (method_ivars x) -> lookup n inh <> Some SNonAttr -> present n (fwalk_stmt clean true inh x s).
  Proof.
    intro x. induction x as [nm ds a body IH|nm bs cds body IH|ts r|t an r|t r|d|t b o IHb IHo|b h o f IHb IHh IHo IHf|b IHb|t b o IHb IHo|b o IHb IHo|ns|]
      using stmt_ind'; intro inh; cbn [fwalk_stmt method_ivars];
      try (split; [intros n s H; exact H|intros n s []]).
    - (* Assign *)
      induction ts as [|t ts [IHk IHp]]; cbn [fold_left flat_map]; [split; [intros n s H; exact H|intros n s []]|].
      assert (Hk1 : keeps (fun s => match t with TSelf a => handle_instance_var true inh a None (Some r) s | _ => s end)).
      { intros n s H. destruct t as [m|ms|a0]; auto. apply present_hiv. auto. }
      split.
      + intros n s H. apply IHk. apply Hk1. exact H.
      + intros n s Hin Hi. apply in_app_or in Hin. destruct Hin as [Hin|Hin]; [|apply IHp; auto].
        apply IHk. destruct t as [m|ms|a0]; cbn in Hin; try contradiction. destruct Hin as [?|[]]; subst.
        apply present_hiv. right. auto.
    - (* AnnAssign *)
      destruct t as [m|ms|a0]; try (split; [intros n s H; exact H|intros n s []]).
      split; [intros n s H; apply present_hiv; auto|]. intros n s [?|[]] Hi; subst. apply present_hiv. right. auto.
    - split; [apply keeps_attach_doc|intros n s []].
    - destruct t; try (split; [intros n s H; exact H|intros n s []]);
        apply (fold_present (fwalk_stmt clean true inh) method_ivars (fun n => lookup n inh <> Some SNonAttr));
        eapply Forall_impl; [|exact IHb| |exact IHb]; cbn; intros y Hy; apply Hy.
    - apply (fold_present (fwalk_stmt clean true inh) method_ivars (fun n => lookup n inh <> Some SNonAttr)).
      eapply Forall_impl; [|exact IHb]; cbn; intros y Hy; apply Hy.
    - apply (fold_present (fwalk_stmt clean true inh) method_ivars (fun n => lookup n inh <> Some SNonAttr)).
      eapply Forall_impl; [|exact IHb]; cbn; intros y Hy; apply Hy.
    - apply (fold_present (fwalk_stmt clean true inh) method_ivars (fun n => lookup n inh <> Some SNonAttr)).
      eapply Forall_impl; [|exact IHb]; cbn; intros y Hy; apply Hy.
    - apply (fold_present (fwalk_stmt clean true inh) method_ivars (fun n => lookup n inh <> Some SNonAttr)).
      eapply Forall_impl; [|exact IHb]; cbn; intros y Hy; apply Hy.
  Qed.

  Lemma keeps_handle_assignment : forall sc flow inh chain t ann expr aug, keeps (handle_assignment sc flow inh chain t ann expr aug).
  Proof.
    intros sc flow inh chain t ann expr aug n s H. destruct t as [m| |]; cbn [handle_assignment]; auto.
    assert (Hv : forall default s0, present n s0 -> present n (handle_var default flow m ann expr aug s0)).
    { intros default s0 H0. unfold handle_var. apply (present_upd_attr n). exact H0. }
    assert (Hal : forall s', aliasing chain m expr s = Some s' -> present n s').
    { intros s' Ha. unfold aliasing in Ha. destruct (lookup m (contents s)); [discriminate|].
      destruct expr as [[| | |]|]; try discriminate. inversion Ha; subst. exact H. }
    destruct sc.
    - destruct (aliasing chain m expr s) eqn:Ea; [eapply Hal; eauto|].
      unfold handle_module_var. destruct (mem m module_meta_vars); auto.
      destruct (lookup m (contents s)) as [o|]; [destruct (is_attr o); auto|]. destruct aug; auto.
      apply Hv. apply keeps_add_obj. exact H.
    - destruct (if aug then None else oldschool m expr s) as [s'|] eqn:Eo.
      + destruct aug; [discriminate|]. unfold oldschool in Eo.
        destruct expr as [[| |f [|a0 [|? ?]]|]|]; try discriminate.
        destruct (text_eqb m a0 && mem f oldschool_names); [|discriminate].
        destruct (lookup m (contents s)) as [[k a1 d| |]|] eqn:E; try discriminate. inversion Eo; subst. unfold present in *. cbn.
        rewrite lookup_replace, E. destruct (text_eqb n m); [discriminate|exact H].
      + destruct (aliasing chain m expr s) eqn:Ea; [eapply Hal; eauto|].
        unfold handle_class_var. destruct (negb (maybe_attribute inh (contents s) m)); auto.
        destruct (lookup m (contents s)); auto. destruct aug; auto. apply Hv. apply keeps_add_obj. exact H.
  Qed.

  Lemma walk_present : forall x flow inh outer,
      keeps (walk_stmt clean x ScClass flow inh outer) /\
      forall n s, In n (stmt_ivars x) -> lookup n inh <> Some SNonAttr -> present n (walk_stmt clean x ScClass flow inh outer s).
  Proof.
    intro x. induction x as [nm ds a body IH|nm bs cds body IH|ts r|t an r|t r|d|t b o IHb IHo|b h o f IHb IHh IHo IHf|b IHb|t b o IHb IHo|b o IHb IHo|ns|]
      using stmt_ind'; intros flow inh outer; cbn [walk_stmt stmt_ivars];
      try (split; [intros n s H; exact H|intros n s []]).
    - (* Def *)
      assert (Hbody : keeps (fun s => fold_left (fun s y => fwalk_stmt clean true inh y s) body s) /\
                      forall n s, In n (flat_map method_ivars body) -> lookup n inh <> Some SNonAttr ->
                                  present n (fold_left (fun s y => fwalk_stmt clean true inh y s) body s)).
      { apply (fold_present (fwalk_stmt clean true inh) method_ivars (fun n => lookup n inh <> Some SNonAttr)).
        apply Forall_forall. intros y _. apply fwalk_present. }
      destruct Hbody as [Hk Hp]. split.
      + intros n s H. destruct (f_prop _); cbn; [apply keeps_add_obj; exact H|].
        unfold fwalk_body. apply (Hk n). apply keeps_add_obj. exact H.
      + intros n s Hin Hi. destruct (def_wrap PClass ds WNone) as [w|] eqn:Ew; [|contradiction].
        pose proof (deco_flags_class nm ds WNone w Ew) as Hf.
        change (fold_left (deco_step true) ds (flags_of nm WNone)) with (deco_flags true nm ds) in Hf. rewrite Hf.
        destruct w; cbn [flags_of f_prop]; try contradiction; unfold fwalk_body; apply (Hp n); auto.
    - (* Class *)
      split; [|intros n s []]. intros n s H. unfold present in *. cbn. rewrite lookup_replace, !lookup_add_obj, text_eqb_refl.
      destruct (text_eqb n nm); [discriminate|exact H].
    - (* Assign *)
      split; [|intros n s []]. intros n s H. revert s H. induction ts as [|t ts IHts]; cbn [fold_left]; intros s H; auto.
      apply IHts. destruct t as [m|ms|a0]; try (apply keeps_handle_assignment; exact H).
      revert s H. induction ms as [|m ms IHm]; cbn [fold_left]; intros s H; auto. apply IHm. apply keeps_handle_assignment. exact H.
    - split; [|intros n s []]. intros n s H. apply keeps_handle_assignment. exact H.
    - split; [|intros n s []]. intros n s H. apply keeps_handle_assignment. exact H.
    - split; [apply keeps_attach_doc|intros n s []].
    - destruct t; try (split; [intros n s H; exact H|intros n s []]);
        apply (fold_present (fun y st => walk_stmt clean y ScClass _ inh outer st) stmt_ivars (fun n => lookup n inh <> Some SNonAttr));
        eapply Forall_impl; [|exact IHb| |exact IHb]; cbn; intros y Hy; apply Hy.
    - apply (fold_present (fun y st => walk_stmt clean y ScClass _ inh outer st) stmt_ivars (fun n => lookup n inh <> Some SNonAttr)).
      eapply Forall_impl; [|exact IHb]; cbn; intros y Hy; apply Hy.
    - apply (fold_present (fun y st => walk_stmt clean y ScClass _ inh outer st) stmt_ivars (fun n => lookup n inh <> Some SNonAttr)).
      eapply Forall_impl; [|exact IHb]; cbn; intros y Hy; apply Hy.
    - apply (fold_present (fun y st => walk_stmt clean y ScClass _ inh outer st) stmt_ivars (fun n => lookup n inh <> Some SNonAttr)).
      eapply Forall_impl; [|exact IHb]; cbn; intros y Hy; apply Hy.
    - apply (fold_present (fun y st => walk_stmt clean y ScClass _ inh outer st) stmt_ivars (fun n => lookup n inh <> Some SNonAttr)).
      eapply Forall_impl; [|exact IHb]; cbn; intros y Hy; apply Hy.
    - (* Import *)
      split; [|intros n s []]. intros n s H. revert s H. induction ns as [|p ns IHn]; cbn; intros s H; auto.
  Qed.

  Lemma class_ivars_documented : forall body flow inh outer s n,
      In n (class_ivars body) -> lookup n inh <> Some SNonAttr ->
      present n (fold_left (fun st y => walk_stmt clean y ScClass flow inh outer st) body s).
  Proof.
    intros body flow inh outer s n Hin Hi.
    apply (proj2 (fold_present (fun y st => walk_stmt clean y ScClass flow inh outer st) stmt_ivars (fun n => lookup n inh <> Some SNonAttr) body
                   ltac:(apply Forall_forall; intros y _; apply walk_present))); auto.
  Qed.

  (* ================================================================ the simulation, one statement *)
  Definition step_ok (x : stmt) : Prop :=
    forall sc ivs flow inh pinh outer fr s e e',
      St sc ivs s e -> chain_rel outer fr -> mem_rel inh pinh ->
      (sc = ScClass -> incl (stmt_ivars x) ivs) -> incl (ann_names x) ANN ->
      py_stmt g x (pscope_of sc) pinh ivs fr e = Some e' ->
      St sc ivs (walk_stmt clean x sc flow inh outer s) e'.

  Lemma suite_step : forall body, Forall step_ok body ->
      forall sc ivs flow inh pinh outer fr s e e',
        St sc ivs s e -> chain_rel outer fr -> mem_rel inh pinh ->
        (sc = ScClass -> incl (flat_map stmt_ivars body) ivs) -> incl (flat_map ann_names body) ANN ->
        ofold (fun y e' => py_stmt g y (pscope_of sc) pinh ivs fr e') body e = Some e' ->
        St sc ivs (fold_left (fun st y => walk_stmt clean y sc flow inh outer st) body s) e'.
  Proof.
    intros body HF. induction HF as [|y body Hy _ IH]; cbn [fold_left ofold]; intros sc ivs flow inh pinh outer fr s e e' HS HC Hmem Hself Hann Hpy.
    - inversion Hpy; subst. exact HS.
    - destruct (py_stmt g y (pscope_of sc) pinh ivs fr e) as [e1|] eqn:E1; [|discriminate].
      eapply IH; [|exact HC|exact Hmem| | |exact Hpy].
      + eapply Hy; eauto.
        * intros Hsc a Ha. apply (Hself Hsc). cbn. apply in_or_app. auto.
        * intros a Ha. apply Hann. cbn. apply in_or_app. auto.
      + intros Hsc a Ha. apply (Hself Hsc). cbn. apply in_or_app. auto.
      + intros a Ha. apply Hann. cbn. apply in_or_app. auto.
  Qed.

  Lemma bind_aux_St : forall sc ivs s e n i e', St sc ivs s e -> bind_aux n i e = Some e' ->
      pdef n e = false /\ e' = bind n (VAux i) e.
  Proof.
    intros sc ivs s e n i e' _ H. unfold bind_aux in H. unfold pdef.
    destruct (plookup n e) as [[| | |]|]; try discriminate; inversion H; auto.
  Qed.

  (* Python binds an auxiliary name the documentation does not track (a loop variable) *)
  Lemma St_aux_other : forall sc ivs s e n, St sc ivs s e -> pdef n e = false -> St sc ivs s (bind n (VAux IOther) e).
  Proof.
    intros sc ivs s e n [HA HG HC HI [M1 M2]] Hd. constructor; auto.
    - apply inv_aux; auto.
    - intros m o Hm. rewrite pdef_bind. destruct (text_eqb m n) eqn:E.
      + apply text_eqb_eq in E. subst. destruct (HI _ _ Hm); [congruence|auto].
      + eauto.
    - split.
      + intros m Hm. rewrite plookup_bind. destruct (text_eqb m n); [discriminate|auto].
      + intros m i Hp Hi. rewrite plookup_bind in Hp. destruct (text_eqb m n); [inversion Hp; subst; contradiction|auto].
  Qed.

  (* an import: both sides record what the name is bound to *)
  Lemma St_import : forall sc ivs s e n i, St sc ivs s e -> pdef n e = false ->
      St sc ivs (set_imp n (impval_of i) s) (bind n (VAux i) e).
  Proof.
    intros sc ivs s e n i [HA HG HC HI [M1 M2]] Hd. constructor; auto.
    - cbn. apply inv_aux; auto.
    - cbn. intros m o Hm. rewrite pdef_bind. destruct (text_eqb m n) eqn:E.
      + apply text_eqb_eq in E. subst. destruct (HI _ _ Hm); [congruence|auto].
      + eauto.
    - cbn. split.
      + intros m Hm. rewrite plookup_bind. cbn in Hm. destruct (text_eqb m n); [discriminate|auto].
      + intros m j Hp Hj. rewrite plookup_bind in Hp. cbn. destruct (text_eqb m n); [inversion Hp; subst; reflexivity|auto].
  Qed.

  Lemma incl_app_l : forall {X} (a b c : list X), incl (a ++ b) c -> incl a c.
  Proof. intros X a b c H x Hx. apply H. apply in_or_app. auto. Qed.

  Theorem step : forall x, step_ok x.
  Proof.
    intro x. induction x as [nm ds a body IH|nm bs cds body IH|ts r|t an r|t r|d|t b o IHb IHo|b h o f IHb IHh IHo IHf|b IHb|t b o IHb IHo|b o IHb IHo|ns|]
      using stmt_ind'; intros sc ivs flow inh pinh outer fr s e e' HS HC Hmem Hself Hann Hpy.
    - (* Def *) eapply St_def; eauto.
    - (* Class *)
      cbn [py_stmt] in Hpy.
      destruct (forallb transparent_deco cds); [|discriminate].
      destruct (bases_info e ivs fr bs) as [[xc mro]|] eqn:Eb; [|discriminate].
      destruct (ofold (fun y e'0 => py_stmt g y PClass mro (class_ivars body) (mkFrame e ivs nm :: fr) e'0) body []) as [ns|] eqn:En; [|discriminate].
      inversion Hpy; subst e'. clear Hpy.
      cbn [walk_stmt].
      set (chain := (contents s, imps s) :: outer).
      set (rs := map (resolve chain) bs).
      set (ih := flat_map base_inh rs).
      destruct (bases_agree _ _ _ _ _ _ _ _ _ HS HC Eb) as [Hexc Hih]. fold chain in Hexc, Hih. fold rs in Hexc, Hih. fold ih in Hih.
      set (O1 := OClass (existsb base_exc rs) (clean_doc clean body) [] [] ih).
      pose proof (St_nodup _ _ _ _ HS) as ND.
      pose proof (add_obj_upd' nm O1 s ND) as HU1.
      (* the class body, walked in a fresh scope *)
      assert (Hinner : St ScClass (class_ivars body)
                (fold_left (fun st y => walk_stmt clean y ScClass flow ih
                                          ((contents (set_cur None (add_obj nm O1 s)), imps (set_cur None (add_obj nm O1 s))) :: outer) st)
                           body empty_st) ns).
      { eapply (suite_step body IH ScClass (class_ivars body)); [| |exact Hih| | |exact En].
        - constructor; cbn.
          + apply agree_empty.
          + intros n o [].
          + apply cur_ok_none; reflexivity.
          + intros n o Hl; discriminate.
          + split; [intros n Hn; exfalso; apply Hn; reflexivity|intros n i Hp; discriminate].
        - constructor; [|exact HC]. exists sc, (contents s). cbn.
          split; [exact (st_agree _ _ _ _ HS)|]. split; [exact (st_iv _ _ _ _ HS)|].
          split; [rewrite imps_add_obj; exact (st_imps _ _ _ _ HS)|].
          intros m Hm. rewrite (proj2 (proj1 HU1)). apply text_eqb_neq in Hm. rewrite Hm. reflexivity.
        - intros _. apply incl_refl.
        - intros a0 Ha0. apply Hann. cbn. exact Ha0. }
      set (inner := fold_left _ body empty_st) in *.
      set (O2 := OClass (existsb base_exc rs) (clean_doc clean body) (infer_all (contents inner)) (old inner) ih).
      assert (E1 : lookup nm (contents (add_obj nm O1 s)) = Some O1).
      { rewrite (proj2 (proj1 HU1)). rewrite text_eqb_refl. reflexivity. }
      pose proof (replace_upd nm O2 (add_obj nm O1 s) _ (proj1 (proj1 HU1)) E1) as HU2.
      eapply (St_point_g sc ivs s e nm O2 _ (set_cur None (set_contents (replace nm O2 (contents (set_cur None (add_obj nm O1 s)))) (set_cur None (add_obj nm O1 s)))));
        [exact HS|cbn; eapply upd_fun_trans; [exact (proj1 HU1)|exact (proj1 HU2)]| |cbn; apply imps_add_obj|apply cur_ok_none; reflexivity| |reflexivity].
      + cbn. eapply good_upd; [|exact HU2|].
        * eapply good_upd; [exact (st_good _ _ _ _ HS)|exact HU1|]. apply fin_obj_class. intros n o [].
        * apply fin_obj_class. apply fin_infer_all. exact (st_good _ _ _ _ Hinner).
      + assert (Hlk : forall n, lookup n (infer_all (contents inner)) = option_map infer_one (lookup n (contents inner))).
        { intro n. rewrite infer_all_map. rewrite (lookup_map (fun _ => infer_one)). destruct (lookup n (contents inner)); reflexivity. }
        constructor; [reflexivity|apply agree_infer_all; exact (st_agree _ _ _ _ Hinner)|exact Hexc|exact Hih| |].
        * intros n o Hl. rewrite Hlk in Hl. destruct (lookup n (contents inner)) as [o0|] eqn:E0; [|discriminate].
          exact (st_iv _ _ _ _ Hinner n o0 E0).
        * intros n Hin Hi. rewrite Hlk.
          pose proof (class_ivars_documented body flow ih ((contents (set_cur None (add_obj nm O1 s)), imps (set_cur None (add_obj nm O1 s))) :: outer) empty_st n Hin Hi) as Hp.
          fold inner in Hp. unfold present in Hp. destruct (lookup n (contents inner)); [discriminate|contradiction].
    - (* Assign *) eapply St_assign; eauto.
    - (* AnnAssign *) eapply St_annassign; eauto.
    - (* AugAssign *) eapply St_augassign; eauto.
    - (* ExprStr *) cbn in Hpy. inversion Hpy; subst. cbn [walk_stmt]. apply St_attach_doc. exact HS.
    - (* If *)
      cbn [ann_names] in *.
      destruct t; cbn [py_stmt walk_stmt stmt_ivars] in *.
      + destruct (nonbinding_suite o); inversion Hpy; subst. exact HS.
      + destruct (nonbinding_suite o); [|discriminate].
        eapply (suite_step b IHb sc ivs _ inh pinh outer fr s e e');
          [exact HS|exact HC|exact Hmem|exact Hself|eapply incl_app_l; exact Hann|exact Hpy].
      + destruct (nonbinding_suite b) eqn:Enb; [|discriminate]. destruct (nonbinding_suite o); inversion Hpy; subst.
        eapply nb_suite; eauto.
    - (* Try *)
      cbn [stmt_ivars ann_names py_stmt walk_stmt] in *.
      destruct (nonbinding_suite h && nonbinding_suite o && nonbinding_suite f); [|discriminate].
      eapply (suite_step b IHb sc ivs _ inh pinh outer fr s e e');
        [exact HS|exact HC|exact Hmem|exact Hself|eapply incl_app_l; exact Hann|exact Hpy].
    - (* With *)
      cbn [stmt_ivars ann_names py_stmt walk_stmt] in *.
      eapply (suite_step b IHb sc ivs _ inh pinh outer fr s e e'); eauto.
    - (* For *)
      cbn [stmt_ivars ann_names py_stmt walk_stmt] in *.
      destruct (nonbinding_suite o); [|discriminate].
      destruct (bind_aux t IOther e) as [e1|] eqn:Ea; [|discriminate].
      destruct (bind_aux_St _ _ _ _ _ _ _ HS Ea) as [Hd He1]. subst e1.
      eapply (suite_step b IHb sc ivs _ inh pinh outer fr s _ e');
        [exact (St_aux_other _ _ _ _ _ HS Hd)|exact HC|exact Hmem|exact Hself|eapply incl_app_l; exact Hann|exact Hpy].
    - (* While *)
      cbn [stmt_ivars ann_names py_stmt walk_stmt] in *.
      destruct (nonbinding_suite o); [|discriminate].
      eapply (suite_step b IHb sc ivs _ inh pinh outer fr s e e');
        [exact HS|exact HC|exact Hmem|exact Hself|eapply incl_app_l; exact Hann|exact Hpy].
    - (* Import *)
      cbn [py_stmt walk_stmt] in *. clear Hself Hann. revert s e HS Hpy. induction ns as [|[n i] ns IHn]; cbn; intros s e HS Hpy.
      + inversion Hpy; subst; exact HS.
      + destruct (bind_aux n i e) as [e1|] eqn:Ea; [|discriminate].
        destruct (bind_aux_St _ _ _ _ _ _ _ HS Ea) as [Hd He1]. subst e1.
        eapply IHn; [|exact Hpy]. apply St_import; assumption.
    - (* Other *) cbn in Hpy. inversion Hpy; subst. exact HS.
  Qed.
End Sim.

(* ================================================================ post-processing keeps the agreement *)
Scheme agree_obj_min := Minimality for agree_obj Sort Prop
  with agree_ns_min := Minimality for agree_ns Sort Prop.

Lemma post_obj_ivar : forall inh n o, is_ivar_obj o = true -> is_ivar_obj (post_obj inh n o) = true.
Proof. intros inh n o H. destruct o as [| |k d a v]; try discriminate. destruct k; try discriminate. exact H. Qed.

Lemma lookup_post : forall inh c n,
    lookup n (post_contents inh c) = match lookup n c with Some o => Some (post_obj inh n o) | None => None end.
Proof. intros. unfold post_contents. apply (lookup_map (post_obj inh)). Qed.

Lemma post_agree : forall clean vals,
    (forall sc o v, agree_obj clean vals sc o v -> forall inh n, agree_obj clean vals sc (post_obj inh n o) v) /\
    (forall sc c e, agree_ns clean vals sc c e -> forall inh, agree_ns clean vals sc (post_contents inh c) e).
Proof.
  intros clean vals.
  assert (Hns : forall (P : scope -> obj -> pyval -> Prop) sc c e,
             agree_ns clean vals sc c e ->
             (forall n o v, lookup n c = Some o -> plookup n e = Some v -> is_aux v = false -> forall inh n', agree_obj clean vals sc (post_obj inh n' o) v) ->
             forall inh, agree_ns clean vals sc (post_contents inh c) e).
  { intros _ sc c e Hc IH4 inh. inversion Hc as [? ? ? R1 R2 R3 R4]; subst. constructor.
    - unfold post_contents. rewrite (keys_map (post_obj inh)). exact R1.
    - intros n Hn. rewrite lookup_post. specialize (R2 n Hn). destruct (lookup n c); congruence.
    - intros n o Hl. rewrite lookup_post in Hl. destruct (lookup n c) as [o0|] eqn:E; [|discriminate].
      inversion Hl; subst. destruct (R3 _ _ E) as [?|[? ?]]; auto using post_obj_ivar.
    - intros n o v Hl Hp Ha. rewrite lookup_post in Hl. destruct (lookup n c) as [o0|] eqn:E; [|discriminate].
      inversion Hl; subst. eapply IH4; eauto. }
  assert (Hobj : forall sc o v, agree_obj clean vals sc o v -> forall inh n, agree_obj clean vals sc (post_obj inh n o) v).
  { apply (agree_obj_min clean vals
             (fun sc o v => forall inh n, agree_obj clean vals sc (post_obj inh n o) v)
             (fun sc c e => forall inh, agree_ns clean vals sc (post_contents inh c) e)).
    - intros sc k a d w d' Hk Hd inh n. cbn. constructor; auto.
    - intros d an va a d' Hd inh n. cbn. constructor; auto.
    - intros sc x d c oo ih x' d' ns mro ivs Hd _ IH Hx Hm Hiv Hpr inh n. cbn.
      change (map (fun p : name * obj => (fst p, post_obj ih (fst p) (snd p))) c) with (post_contents ih c).
      constructor; auto.
      + intros m o Hl. rewrite lookup_post in Hl. destruct (lookup m c) as [o0|] eqn:E; [|discriminate]. eauto.
      + intros m Hin Hi. rewrite lookup_post. specialize (Hpr m Hin Hi). destruct (lookup m c); [discriminate|contradiction].
    - intros sc k d an va v Hk Hvr inh n. cbn. destruct k; try (constructor; assumption).
      destruct (inherits_ivar inh n); constructor; try discriminate; try assumption. intros _; left; reflexivity.
    - intros sc c e R1 R2 R3 R4 IH4 inh. apply (Hns (fun _ _ _ => True) sc c e); [constructor; assumption|].
      intros n o v Hl Hp Ha inh0 n'. eapply IH4; eauto. }
  split; [apply Hobj|].
  intros sc c e Hc inh. apply (Hns (fun _ _ _ => True) sc c e Hc). intros n o v Hl Hp Ha inh0 n'. apply Hobj.
  inversion Hc; subst; eauto.
Qed.

(* nested induction on documented objects *)
Section ObjInd.
  Variable P : obj -> Prop.
  Hypothesis HFun : forall k a d, P (OFun k a d).
  Hypothesis HClass : forall x d c oo ih, Forall (fun p => P (snd p)) c -> P (OClass x d c oo ih).
  Hypothesis HAttr : forall k d an va, P (OAttr k d an va).
  Fixpoint obj_ind' (o : obj) : P o :=
    match o with
    | OFun k a d => HFun k a d
    | OClass x d c oo ih =>
        HClass x d c oo ih ((fix all (l : contents_t) : Forall (fun p => P (snd p)) l :=
                               match l with [] => Forall_nil _ | p :: r => Forall_cons p (obj_ind' (snd p)) (all r) end) c)
    | OAttr k d an va => HAttr k d an va
    end.
End ObjInd.

(* annotations: finished objects stay finished under post-processing (only kinds change) *)
Lemma fin_post : forall ANN o n inh, fin_obj ANN n o -> fin_obj ANN n (post_obj inh n o).
Proof.
  intros ANN o. induction o as [k a d|x d c oo ih IH|k d an va] using obj_ind'; intros n inh H; cbn [post_obj]; auto.
  - apply fin_obj_class. apply (fin_obj_class ANN n x d c oo ih) in H.
    intros m o' Hin. apply in_map_iff in Hin. destruct Hin as [[m0 o0] [Heq Hin]]. cbn in Heq. inversion Heq; subst.
    rewrite Forall_forall in IH. apply (IH (m, o0) Hin). apply (H _ _ Hin).
  - destruct k; auto. destruct (inherits_ivar inh n); exact H.
Qed.

Lemma fin_post_c : forall ANN inh c, fin_c ANN c -> fin_c ANN (post_contents inh c).
Proof.
  intros ANN inh c H m o' Hin. unfold post_contents in Hin. apply in_map_iff in Hin.
  destruct Hin as [[m0 o0] [Heq Hin]]. cbn in Heq. inversion Heq; subst. apply fin_post. apply (H _ _ Hin).
Qed.

(* ================================================================ the whole module *)
(* the names the program annotates explicitly *)
Definition prog_ann (prog : list stmt) : list name := flat_map ann_names prog.

Theorem module_simulation_gen : forall clean vals g prog e,
    g_shadow g = true -> (vals = true -> g_unpack g = true) ->
    py_exec_g g prog = Some e ->
    agree_ns clean vals ScModule (m_contents (doc_walk clean prog)) e /\
    fin_c (prog_ann prog) (m_contents (doc_walk clean prog)).
Proof.
  intros clean vals g prog e Hsh Hun Hpy. unfold doc_walk, doc_walk_raw, walk_body. cbn [m_contents].
  assert (HS : St clean vals (prog_ann prog) ScModule []
                  (fold_left (fun st y => walk_stmt clean y ScModule false [] [] st) prog empty_st) e).
  { eapply (suite_step clean vals g (prog_ann prog) prog); try exact Hpy.
    - apply Forall_forall. intros x _. apply (step clean vals g Hsh Hun (prog_ann prog)).
    - constructor; cbn.
      + apply agree_empty.
      + intros n o [].
      + apply cur_ok_none; reflexivity.
      + intros n o Hl; discriminate.
      + split; [intros n Hn; exfalso; apply Hn; reflexivity|intros n i Hp; discriminate].
    - constructor.
    - apply mem_rel_nil.
    - intro Hsc; discriminate.
    - apply incl_refl. }
  split.
  - apply (proj2 (post_agree clean vals)). apply agree_infer_all. exact (st_agree _ _ _ _ _ _ _ HS).
  - apply fin_post_c. apply fin_infer_all. exact (st_good _ _ _ _ _ _ _ HS).
Qed.

(* ---- reading the relation ---------------------------------------------------------------------------- *)
Lemma lookup_keys : forall {X} n (l : list (name * X)), In n (keys l) <-> lookup n l <> None.
Proof.
  intros X n l. pose proof (lookup_none_notin n l) as H. split; intro H1.
  - intro H2. apply H in H2. contradiction.
  - destruct (in_dec (list_eq_dec N.eq_dec) n (keys l)) as [Hi|Hi]; auto. apply H in Hi. contradiction.
Qed.

Lemma agree_keys_module : forall clean vals c e,
    agree_ns clean vals ScModule c e -> NoDup (keys c) /\ forall n, In n (keys c) <-> pdef n e = true.
Proof.
  intros clean vals c e H. inversion H as [? ? ? R1 R2 R3 R4]; subst. split; auto.
  intro n. rewrite lookup_keys. split.
  - intro Hn. destruct (lookup n c) as [o|] eqn:E; [|congruence]. destruct (R3 _ _ E) as [?|[? _]]; [auto|discriminate].
  - apply R2.
Qed.

Lemma agree_entry : forall clean vals sc c e n o v,
    agree_ns clean vals sc c e -> lookup n c = Some o -> plookup n e = Some v -> is_aux v = false -> agree_obj clean vals sc o v.
Proof. intros clean vals sc c e n o v H. inversion H; subst. eauto. Qed.

Lemma agree_reach : forall clean vals c e sc c' e',
    agree_ns clean vals ScModule c e -> ns_at c e sc c' e' -> agree_ns clean vals sc c' e'.
Proof.
  intros clean vals c e sc c' e' H Hr. induction Hr as [|sc c1 e1 n x d c2 oo ih x' d' e2 mro ivs Hr IH Hl Hp]; auto.
  pose proof (agree_entry _ _ _ _ _ _ _ _ IH Hl Hp eq_refl) as Ho. inversion Ho; subst. assumption.
Qed.

Lemma agree_kind_ok : forall clean vals sc o v, agree_obj clean vals sc o v -> kind_ok sc o v /\ doc_ok clean o v.
Proof.
  intros clean vals sc o v H. inversion H; subst; cbn; auto; try (destruct k; auto; contradiction).
Qed.

Lemma fin_reach : forall ANN c e sc c' e', fin_c ANN c -> ns_at c e sc c' e' -> fin_c ANN c'.
Proof.
  intros ANN c e sc c' e' H Hr. induction Hr as [|sc c1 e1 n x d c2 oo ih x' d' e2 mro ivs Hr IH Hl Hp]; auto.
  apply (fin_obj_class ANN n x d c2 oo ih). apply IH. apply lookup_In. exact Hl.
Qed.

Definition g_names : guards := mkGuards true false.
Definition g_strict : guards := mkGuards true true.

Theorem names_agree : forall clean prog e sc c' e',
    py_exec_names prog = Some e -> ns_at (m_contents (doc_walk clean prog)) e sc c' e' ->
    NoDup (keys c') /\
    (forall n, pdef n e' = true -> In n (keys c')) /\
    (forall n, In n (keys c') -> pdef n e' = true \/ (sc = ScClass /\ exists o, lookup n c' = Some o /\ is_ivar_obj o = true)).
Proof.
  intros clean prog e sc c' e' Hpy Hr.
  destruct (module_simulation_gen clean false g_names prog e eq_refl ltac:(intro; discriminate) Hpy) as [Hm _].
  pose proof (agree_reach _ _ _ _ _ _ _ Hm Hr) as H.
  inversion H as [? ? ? R1 R2 R3 R4]; subst. split; [auto|split].
  - intros n Hn. apply lookup_keys. auto.
  - intros n Hn. apply lookup_keys in Hn. destruct (lookup n c') as [o|] eqn:E; [|congruence].
    destruct (R3 _ _ E) as [?|[? ?]]; eauto.
Qed.

Theorem kinds_agree : forall clean prog e sc c' e' n o v,
    py_exec_names prog = Some e -> ns_at (m_contents (doc_walk clean prog)) e sc c' e' ->
    lookup n c' = Some o -> plookup n e' = Some v -> is_aux v = false ->
    kind_ok sc o v /\ doc_ok clean o v.
Proof.
  intros clean prog e sc c' e' n o v Hpy Hr Hl Hp Ha.
  destruct (module_simulation_gen clean false g_names prog e eq_refl ltac:(intro; discriminate) Hpy) as [Hm _].
  pose proof (agree_reach _ _ _ _ _ _ _ Hm Hr) as H.
  apply (agree_kind_ok clean false). eapply agree_entry; eauto.
Qed.

(* a Python class is documented as a class, so every class namespace of the program is reached by ns_at *)
Theorem classes_reached : forall clean prog e sc c' e' n x' d' e2 mro ivs,
    py_exec_names prog = Some e -> ns_at (m_contents (doc_walk clean prog)) e sc c' e' ->
    plookup n e' = Some (VClass x' d' e2 mro ivs) ->
    exists x d c2 oo ih, lookup n c' = Some (OClass x d c2 oo ih).
Proof.
  intros clean prog e sc c' e' n x' d' e2 mro ivs Hpy Hr Hp.
  destruct (module_simulation_gen clean false g_names prog e eq_refl ltac:(intro; discriminate) Hpy) as [Hm _].
  pose proof (agree_reach _ _ _ _ _ _ _ Hm Hr) as H.
  inversion H as [? ? ? R1 R2 R3 R4]; subst.
  assert (Hd : pdef n e' = true) by (unfold pdef; rewrite Hp; reflexivity).
  specialize (R2 n Hd). destruct (lookup n c') as [o|] eqn:E; [|congruence].
  specialize (R4 _ _ _ E Hp eq_refl). inversion R4; subst. eauto 8.
Qed.

(* instance variables: in a class namespace a documented name that Python does not bind is one of the instance variables
   of that class statement (class_ivars of its body), and every one of them is documented unless the name is an inherited
   method or class (_maybeAttribute) *)
Theorem instance_variables : forall clean prog e sc c1 e1 n x d c2 oo ih x' d' e2 mro ivs,
    py_exec_names prog = Some e -> ns_at (m_contents (doc_walk clean prog)) e sc c1 e1 ->
    lookup n c1 = Some (OClass x d c2 oo ih) -> plookup n e1 = Some (VClass x' d' e2 mro ivs) ->
    (forall m, In m (keys c2) -> pdef m e2 = true \/ In m ivs) /\
    (forall m, In m ivs -> pfirst m mro <> Some false -> In m (keys c2)).
Proof.
  intros clean prog e sc c1 e1 n x d c2 oo ih x' d' e2 mro ivs Hpy Hr Hl Hp.
  destruct (module_simulation_gen clean false g_names prog e eq_refl ltac:(intro; discriminate) Hpy) as [Hm _].
  pose proof (agree_reach _ _ _ _ _ _ _ Hm Hr) as H.
  pose proof (agree_entry _ _ _ _ _ _ _ _ H Hl Hp eq_refl) as Ho. inversion Ho; subst. split.
  - intros m Hin. apply lookup_keys in Hin. destruct (lookup m c2) as [o|] eqn:E; [|congruence]. eauto.
  - intros m Hin Hpf. apply lookup_keys.
    match goal with Hc : forall n, In n ivs -> _ -> lookup n c2 <> None |- _ => apply Hc; auto end.
    intro Hs. apply Hpf. match goal with Hmr : mem_rel ih mro |- _ => exact (proj1 Hmr m Hs) end.
Qed.

(* the literal pydoctor remembers for a variable is the literal whose value Python has bound to it (strict subset) *)
Theorem stored_literal_is_bound : forall clean prog e sc c' e' n k d an l pv,
    py_exec_strict prog = Some e -> ns_at (m_contents (doc_walk clean prog)) e sc c' e' ->
    lookup n c' = Some (OAttr k d an (Some (AvLit l))) -> k <> KInstanceVar ->
    plookup n e' = Some (VData pv) -> pv = Some l.
Proof.
  intros clean prog e sc c' e' n k d an l pv Hpy Hr Hl Hk Hp.
  destruct (module_simulation_gen clean true g_strict prog e eq_refl ltac:(intro; reflexivity) Hpy) as [Hm _].
  pose proof (agree_reach _ _ _ _ _ _ _ Hm Hr) as H.
  pose proof (agree_entry _ _ _ _ _ _ _ _ H Hl Hp eq_refl) as Ho. inversion Ho; subst.
  match goal with Hv : true = true -> val_rel _ _ _ |- _ => destruct (Hv eq_refl) as [?|Hv'] end; [contradiction|auto].
Qed.

(* the annotation of a variable the program never annotates explicitly is the one inferred from the remembered value *)
Theorem annotation_is_inferred : forall clean prog e sc c' e' n k d an va,
    py_exec_names prog = Some e -> ns_at (m_contents (doc_walk clean prog)) e sc c' e' ->
    lookup n c' = Some (OAttr k d an va) -> ~ In n (prog_ann prog) ->
    an = match va with Some v => infer_value v | None => None end.
Proof.
  intros clean prog e sc c' e' n k d an va Hpy Hr Hl Hn.
  destruct (module_simulation_gen clean false g_names prog e eq_refl ltac:(intro; discriminate) Hpy) as [_ Hf].
  pose proof (fin_reach _ _ _ _ _ _ Hf Hr n _ (lookup_In _ _ _ Hl)) as H. cbn in H. destruct H; [contradiction|assumption].
Qed.

(* ---- the guards only remove programs ------------------------------------------------------------------ *)
Definition g_le (g' g : guards) : Prop :=
  (g_shadow g' = true -> g_shadow g = true) /\ (g_unpack g' = true -> g_unpack g = true).

Lemma bind_data_le : forall g' g pinh n v e e', g_le g' g -> bind_data g pinh n v e = Some e' -> bind_data g' pinh n v e = Some e'.
Proof.
  intros g' g pinh n v e e' [H1 _] H. unfold bind_data in *. destruct (mem n py_meta_names); auto.
  destruct (plookup n e) as [[| | |]|]; auto; destruct (pfirst n pinh) as [[|]|]; auto;
    destruct (g_shadow g') eqn:E'; destruct (g_shadow g) eqn:E; auto; try discriminate; specialize (H1 eq_refl); discriminate.
Qed.

Lemma py_stmt_le : forall g' g, g_le g' g -> forall x sc pinh ivs fr e e',
    py_stmt g x sc pinh ivs fr e = Some e' -> py_stmt g' x sc pinh ivs fr e = Some e'.
Proof.
  intros g' g Hle.
  assert (Hof : forall (body : list stmt),
             Forall (fun x => forall sc pinh ivs fr e e', py_stmt g x sc pinh ivs fr e = Some e' -> py_stmt g' x sc pinh ivs fr e = Some e') body ->
             forall sc pinh ivs fr e e', ofold (fun y e0 => py_stmt g y sc pinh ivs fr e0) body e = Some e' ->
                                         ofold (fun y e0 => py_stmt g' y sc pinh ivs fr e0) body e = Some e').
  { intros body HF. induction HF as [|y body Hy _ IH]; cbn [ofold]; intros sc pinh ivs fr e e' H; auto.
    destruct (py_stmt g y sc pinh ivs fr e) as [e1|] eqn:E; [|discriminate]. rewrite (Hy _ _ _ _ _ _ E). auto. }
  assert (Hun : forall pinh ns e e', ofold (bind_unpacked g pinh) ns e = Some e' -> ofold (bind_unpacked g' pinh) ns e = Some e').
  { induction ns as [|n ns IH]; cbn [ofold]; intros e e' H; auto.
    destruct (bind_unpacked g pinh n e) as [e1|] eqn:E; [|discriminate].
    assert (E' : bind_unpacked g' pinh n e = Some e1).
    { unfold bind_unpacked in *. destruct (g_unpack g' && literal_bound n e) eqn:Eg.
      - apply andb_true_iff in Eg. destruct Eg as [Eg El]. rewrite (proj2 Hle Eg), El in E. discriminate.
      - destruct (g_unpack g && literal_bound n e); [discriminate|]. eapply bind_data_le; eauto. }
    rewrite E'. auto. }
  assert (Hbt : forall pinh v t e e', bind_target g pinh v t e = Some e' -> bind_target g' pinh v t e = Some e').
  { intros pinh v t e e' H. destruct t; cbn in *; auto. destruct v; auto; eapply bind_data_le; eauto. }
  assert (Hts : forall pinh v ts e e', ofold (bind_target g pinh v) ts e = Some e' -> ofold (bind_target g' pinh v) ts e = Some e').
  { induction ts as [|t ts IH]; cbn [ofold]; intros e e' H; auto.
    destruct (bind_target g pinh v t e) as [e1|] eqn:E; [|discriminate]. rewrite (Hbt _ _ _ _ _ E). auto. }
  intro x. induction x as [nm ds a body IH|nm bs cds body IH|ts r|t an r|t r|d|t b o IHb IHo|b h o f IHb IHh IHo IHf|b IHb|t b o IHb IHo|b o IHb IHo|ns|]
    using stmt_ind'; intros sc pinh ivs fr e e' H; cbn [py_stmt] in *; auto.
  - destruct (forallb transparent_deco cds); [|discriminate]. destruct (bases_info e ivs fr bs) as [[xc mro]|]; [|discriminate].
    destruct (ofold (fun y e0 => py_stmt g y PClass mro (class_ivars body) (mkFrame e ivs nm :: fr) e0) body []) as [ns|] eqn:E; [|discriminate].
    rewrite (Hof _ IH _ _ _ _ _ _ E). exact H.
  - destruct (assign_value sc e ts r); [|discriminate]. auto.
  - destruct t as [n|ms|a0]; auto. destruct r as [r|]; auto. destruct (assign_value sc e [TName n] r); auto.
  - destruct t; auto. destruct (nonbinding_suite o); [|discriminate]. apply (Hof _ IHb). exact H.
  - destruct (nonbinding_suite h && nonbinding_suite o && nonbinding_suite f); [|discriminate]. apply (Hof _ IHb). exact H.
  - destruct (nonbinding_suite o); [|discriminate]. destruct (bind_aux t IOther e); [|discriminate]. apply (Hof _ IHb). exact H.
  - destruct (nonbinding_suite o); [|discriminate]. apply (Hof _ IHb). exact H.
Qed.

Lemma py_exec_le : forall g' g prog e, g_le g' g -> py_exec_g g prog = Some e -> py_exec_g g' prog = Some e.
Proof.
  intros g' g prog e Hle. unfold py_exec_g, py_body. generalize (@nil (name * pyval)) as e0. revert e.
  induction prog as [|x prog IH]; cbn [ofold]; intros e e0 H; auto.
  destruct (py_stmt g x PModule [] [] [] e0) as [e1|] eqn:E; [|discriminate]. rewrite (py_stmt_le g' g Hle _ _ _ _ _ _ _ E). auto.
Qed.

(* ================================================================ attribute docstrings (builder.currentAttr) *)
Definition not_name (r : rhs) : Prop := match r with RName _ => False | _ => True end.

(* a string statement right after `n = <expr>` at module level becomes the docstring of n *)
Lemma attr_doc_after_assign : forall clean flow inh outer n r d s,
    NoDup (keys (contents s)) -> mem n module_meta_vars = false -> not_name r ->
    (forall o, lookup n (contents s) = Some o -> is_attr o = true) ->
    let s1 := walk_stmt clean (Assign [TName n] r) ScModule flow inh outer s in
    cur s1 = Some n /\
    exists k a v, lookup n (contents (walk_stmt clean (ExprStr d) ScModule flow inh outer s1)) = Some (OAttr k (Some (clean d)) a v).
Proof.
  intros clean flow inh outer n r d s ND Hm Hr Hat. cbn [walk_stmt fold_left handle_assignment].
  assert (Hal : aliasing outer n (Some r) s = None).
  { unfold aliasing. destruct (lookup n (contents s)); auto. destruct r; auto; contradiction. }
  rewrite Hal. unfold handle_module_var. rewrite Hm.
  assert (Hgen : forall s0 k0 d0 a0 v0, NoDup (keys (contents s0)) -> lookup n (contents s0) = Some (OAttr k0 d0 a0 v0) ->
            let s1 := handle_var KVariable flow n None (Some r) false s0 in
            cur s1 = Some n /\ exists k a v, lookup n (contents (attach_doc clean d s1)) = Some (OAttr k (Some (clean d)) a v)).
  { intros s0 k0 d0 a0 v0 ND0 E0. unfold handle_var. cbn [cur set_cur]. split; [reflexivity|].
    set (f := fun k (d1 : option text) a v => OAttr (handle_constant n flow KVariable k v (Some r)) d1 (set_ann a None) (store_value v (Some r) false)).
    destruct (upd_attr_upd n f s0 k0 d0 a0 v0 ND0 E0) as [[ND1 L1] _].
    unfold attach_doc. cbn [cur set_cur].
    set (s2 := set_cur (Some n) (upd_attr n f s0)).
    assert (E2 : lookup n (contents s2) = Some (f k0 d0 a0 v0)) by (cbn; rewrite L1, text_eqb_refl; reflexivity).
    set (g := fun k (_ : option text) a v => OAttr k (Some (clean d)) a v).
    destruct (upd_attr_upd n g s2 _ _ _ _ ND1 E2) as [[_ L2] _].
    cbn [contents set_cur]. rewrite L2, text_eqb_refl. subst f g. cbn. eexists. eexists. eexists. reflexivity. }
  destruct (lookup n (contents s)) as [o|] eqn:E.
  - specialize (Hat o eq_refl). rewrite Hat. destruct o as [| |k0 d0 a0 v0]; try discriminate. eapply Hgen; eauto.
  - destruct (add_obj_upd n (OAttr KVariable None None None) s ND) as [[ND1 L1] _].
    eapply Hgen; [exact ND1|]. rewrite L1, text_eqb_refl. reflexivity.
Qed.

(* a string statement after a def (property or not: fix fbfbc45), or after a class, is nobody's docstring *)
Lemma string_after_def_ignored : forall clean sc flow inh outer nm ds a body d s,
    let s1 := walk_stmt clean (Def nm ds a body) sc flow inh outer s in
    walk_stmt clean (ExprStr d) sc flow inh outer s1 = s1.
Proof. intros clean sc flow inh outer nm ds a body d s. cbn [walk_stmt]. destruct (f_prop _); reflexivity. Qed.

Lemma string_after_class_ignored : forall clean sc flow inh outer nm bs cds body d s,
    let s1 := walk_stmt clean (Class nm bs cds body) sc flow inh outer s in
    walk_stmt clean (ExprStr d) sc flow inh outer s1 = s1.
Proof. intros. reflexivity. Qed.

(* an augmented assignment to a documented variable ends the docstring window *)
Lemma string_after_augassign_ignored : forall clean flow inh outer n r d s k0 d0 a0 v0,
    mem n module_meta_vars = false -> lookup n (contents s) = Some (OAttr k0 d0 a0 v0) ->
    let s1 := walk_stmt clean (AugAssign (TName n) r) ScModule flow inh outer s in
    walk_stmt clean (ExprStr d) ScModule flow inh outer s1 = s1.
Proof.
  intros clean flow inh outer n r d s k0 d0 a0 v0 Hm E. cbn [walk_stmt handle_assignment].
  unfold aliasing. rewrite E. unfold handle_module_var. rewrite Hm, E. cbn [is_attr]. reflexivity.
Qed.
