(* Proofs/BuilderProofs.v -- the simulation between Model.Builder (what pydoctor documents) and Spec.PyBind
   (what CPython binds) on the MiniPy subset; lemmas for Props/C03.v. *)
From Coq Require Import ZArith NArith List Bool Lia.
From PydoctorVerif Require Import Base.Sexp Model.MiniPy Model.Infer Model.Builder Spec.PyBind Spec.C03Rel
     Gen.TablesC03 Proofs.InferProofs.
Import ListNotations.

(* ================================================================ association lists *)
Lemma lookup_In : forall {X} n (l : list (name * X)) x, lookup n l = Some x -> In (n, x) l.
Proof.
  induction l as [|[m y] l IH]; cbn; intros x H; [discriminate|].
  destruct (text_eqb n m) eqn:E.
  - apply text_eqb_eq in E. inversion H; subst. auto.
  - right. auto.
Qed.

Lemma lookup_none_notin : forall {X} n (l : list (name * X)), lookup n l = None <-> ~ In n (keys l).
Proof.
  induction l as [|[m y] l IH]; cbn; [tauto|].
  destruct (text_eqb n m) eqn:E.
  - apply text_eqb_eq in E. subst. split; [discriminate|]. intro H. exfalso. apply H. auto.
  - apply text_eqb_neq in E. rewrite IH. split; intro H.
    + intros [H1|H1]; [congruence|auto].
    + intro H1. apply H. auto.
Qed.

Lemma In_lookup_nodup : forall {X} n x (l : list (name * X)), NoDup (keys l) -> In (n, x) l -> lookup n l = Some x.
Proof.
  induction l as [|[m y] l IH]; cbn; intros ND H; [tauto|].
  inversion ND as [|? ? Hn ND']; subst.
  destruct H as [H|H].
  - inversion H; subst. rewrite text_eqb_refl. reflexivity.
  - destruct (text_eqb n m) eqn:E.
    + apply text_eqb_eq in E. subst. exfalso. apply Hn. change m with (fst (m, x)). apply in_map. exact H.
    + auto.
Qed.

Lemma lookup_app : forall {X} n (l r : list (name * X)),
    lookup n (l ++ r) = match lookup n l with Some x => Some x | None => lookup n r end.
Proof.
  induction l as [|[m y] l IH]; cbn; intros; auto. destruct (text_eqb n m); auto.
Qed.

Lemma keys_replace : forall {X} n (x : X) l, keys (replace n x l) = keys l.
Proof.
  induction l as [|[m y] l IH]; cbn; auto. destruct (text_eqb n m); cbn; [reflexivity|]. unfold keys in IH. rewrite IH. reflexivity.
Qed.

Lemma lookup_replace : forall {X} n m (x : X) l,
    lookup n (replace m x l) =
    if text_eqb n m then match lookup m l with Some _ => Some x | None => None end else lookup n l.
Proof.
  induction l as [|[k y] l IH]; cbn.
  - destruct (text_eqb n m); reflexivity.
  - destruct (text_eqb m k) eqn:Emk; cbn.
    + apply text_eqb_eq in Emk. subst k. destruct (text_eqb n m) eqn:Enm; reflexivity.
    + destruct (text_eqb n k) eqn:Enk.
      * destruct (text_eqb n m) eqn:Enm; [|reflexivity].
        apply text_eqb_eq in Enm. apply text_eqb_eq in Enk. subst. rewrite text_eqb_refl in Emk. discriminate.
      * exact IH.
Qed.

Lemma in_replace : forall {X} n (x : X) l p, In p (replace n x l) -> p = (n, x) \/ In p l.
Proof.
  induction l as [|[k y] l IH]; cbn; intros p H; [tauto|].
  destruct (text_eqb n k) eqn:E.
  - apply text_eqb_eq in E. subst k. destruct H as [H|H]; auto.
  - destruct H as [H|H]; auto. destruct (IH _ H); auto.
Qed.

(* ---- python side *)
Lemma plookup_bind : forall n m v e, plookup n (bind m v e) = if text_eqb n m then Some v else plookup n e.
Proof.
  induction e as [|[k w] e IH]; cbn.
  - destruct (text_eqb n m); reflexivity.
  - destruct (text_eqb m k) eqn:Emk; cbn.
    + apply text_eqb_eq in Emk. subst k. destruct (text_eqb n m); reflexivity.
    + destruct (text_eqb n k) eqn:Enk.
      * destruct (text_eqb n m) eqn:Enm; [|reflexivity].
        apply text_eqb_eq in Enm. apply text_eqb_eq in Enk. subst. rewrite text_eqb_refl in Emk. discriminate.
      * exact IH.
Qed.

Lemma pdef_bind : forall n m v e, pdef n (bind m v e) = if text_eqb n m then negb (is_aux v) else pdef n e.
Proof. intros. unfold pdef. rewrite plookup_bind. destruct (text_eqb n m); reflexivity. Qed.

Lemma NoDup_app_one : forall {X} (l : list X) x, NoDup l -> ~ In x l -> NoDup (l ++ [x]).
Proof.
  induction l as [|y l IH]; cbn; intros x ND Hn.
  - constructor; auto.
  - inversion ND; subst. constructor.
    + intro H. apply in_app_or in H. destruct H as [H|[H|[]]]; [contradiction|]. subst. apply Hn. left. reflexivity.
    + apply IH; auto.
Qed.

(* ================================================================ point updates of a contents list *)
Definition upd_fun (c : contents_t) (n : name) (o : obj) (c' : contents_t) : Prop :=
  NoDup (keys c') /\ forall m, lookup m c' = if text_eqb m n then Some o else lookup m c.

Definition upd_in (c : contents_t) (n : name) (Q : obj -> Prop) (c' : contents_t) : Prop :=
  forall m o', In (m, o') c' -> (m = n /\ Q o') \/ In (m, o') c.

Lemma add_obj_upd : forall n o s, NoDup (keys (contents s)) ->
    upd_fun (contents s) n o (contents (add_obj n o s)) /\ upd_in (contents s) n (eq o) (contents (add_obj n o s)).
Proof.
  intros n o s ND. unfold add_obj. destruct (lookup n (contents s)) eqn:E; cbn.
  - split; [split|].
    + rewrite keys_replace. exact ND.
    + intro m. rewrite lookup_replace. rewrite E. reflexivity.
    + intros m o' H. apply in_replace in H. destruct H as [H|H]; [inversion H; auto|auto].
  - split; [split|].
    + unfold keys. rewrite map_app. cbn. apply NoDup_app_one; auto. apply lookup_none_notin. exact E.
    + intro m. rewrite lookup_app. cbn. destruct (text_eqb m n) eqn:Emn.
      * apply text_eqb_eq in Emn. subst. rewrite E. reflexivity.
      * destruct (lookup m (contents s)); reflexivity.
    + intros m o' H. apply in_app_or in H. destruct H as [H|[H|[]]]; auto. inversion H; auto.
Qed.

Lemma upd_attr_upd : forall n f s k d a v,
    NoDup (keys (contents s)) -> lookup n (contents s) = Some (OAttr k d a v) ->
    upd_fun (contents s) n (f k d a v) (contents (upd_attr n f s)) /\
    upd_in (contents s) n (eq (f k d a v)) (contents (upd_attr n f s)).
Proof.
  intros n f s k d a v ND E. unfold upd_attr. rewrite E. cbn. split; [split|].
  - rewrite keys_replace. exact ND.
  - intro m. rewrite lookup_replace. rewrite E. reflexivity.
  - intros m o' H. apply in_replace in H. destruct H as [H|H]; [inversion H; auto|auto].
Qed.

Lemma upd_attr_noattr : forall n f s,
    (forall k d a v, lookup n (contents s) <> Some (OAttr k d a v)) -> upd_attr n f s = s.
Proof.
  intros n f s H. unfold upd_attr. destruct (lookup n (contents s)) as [[| |k d a v]|] eqn:E; auto.
  exfalso. eapply H. reflexivity.
Qed.

Lemma upd_fun_refl_like : forall c n o, NoDup (keys c) -> lookup n c = Some o -> upd_fun c n o c.
Proof.
  intros c n o ND E. split; auto. intro m. destruct (text_eqb m n) eqn:Emn; auto.
  apply text_eqb_eq in Emn. subst. exact E.
Qed.

Lemma upd_fun_trans : forall c n o1 c1 o2 c2, upd_fun c n o1 c1 -> upd_fun c1 n o2 c2 -> upd_fun c n o2 c2.
Proof.
  intros c n o1 c1 o2 c2 [_ H1] [ND H2]. split; auto. intro m. rewrite H2. destruct (text_eqb m n) eqn:E; auto.
  rewrite H1. rewrite E. reflexivity.
Qed.

Lemma upd_in_trans : forall c n Q1 c1 Q2 c2,
    upd_in c n Q1 c1 -> upd_in c1 n Q2 c2 -> upd_in c n (fun o => Q1 o \/ Q2 o) c2.
Proof.
  intros c n Q1 c1 Q2 c2 H1 H2 m o' H. destruct (H2 _ _ H) as [[? ?]|H']; auto.
  destruct (H1 _ _ H') as [[? ?]|?]; auto.
Qed.

Lemma upd_in_weaken : forall c n (Q1 Q2 : obj -> Prop) c', upd_in c n Q1 c' -> (forall o, Q1 o -> Q2 o) -> upd_in c n Q2 c'.
Proof. intros c n Q1 Q2 c' H HQ m o' Hin. destruct (H _ _ Hin) as [[? ?]|?]; auto. Qed.

Lemma upd_in_refl : forall c n Q, upd_in c n Q c.
Proof. intros c n Q m o' H. auto. Qed.

(* ================================================================ the simulation relation: basic moves *)
Section Sim.
  Variable clean : text -> text.
  Variable vals : bool.          (* relate stored literals with bound values ... *)
  Variable strict : bool.        (* ... which needs the strict subset *)
  Hypothesis Hstrict : vals = true -> strict = true.
  Notation agree_ns := (agree_ns clean vals).
  Notation agree_obj := (agree_obj clean vals).
  Notation val_rel := C03Rel.val_rel.

  Lemma agree_empty : forall sc, agree_ns sc [] [].
  Proof.
    intro sc. constructor; cbn.
    - constructor.
    - intros n H. discriminate.
    - intros n o H. discriminate.
    - intros n o v H. discriminate.
  Qed.

  (* both sides (re)bind n *)
  Lemma inv_point : forall sc c e n o v c',
      agree_ns sc c e -> upd_fun c n o c' -> agree_obj sc o v -> is_aux v = false ->
      agree_ns sc c' (bind n v e).
  Proof.
    intros sc c e n o v c' H [ND HL] Ho Hv. inversion H as [? ? ? R1 R2 R3 R4]; subst.
    constructor; auto.
    - intros m Hm. rewrite HL. rewrite pdef_bind in Hm. destruct (text_eqb m n); [discriminate|auto].
    - intros m o0 Hm. rewrite HL in Hm. rewrite pdef_bind. destruct (text_eqb m n).
      + left. rewrite Hv. reflexivity.
      + eauto.
    - intros m o0 v0 Hm Hp Ha. rewrite HL in Hm. rewrite plookup_bind in Hp. destruct (text_eqb m n).
      + inversion Hm; inversion Hp; subst. exact Ho.
      + eauto.
  Qed.

  (* only the documentation side changes the entry n *)
  Lemma inv_doc : forall sc c e n o c',
      agree_ns sc c e -> upd_fun c n o c' ->
      (forall v, plookup n e = Some v -> is_aux v = false -> agree_obj sc o v) ->
      (pdef n e = true \/ (sc = ScClass /\ is_ivar_obj o = true)) ->
      agree_ns sc c' e.
  Proof.
    intros sc c e n o c' H [ND HL] Ho Hd. inversion H as [? ? ? R1 R2 R3 R4]; subst.
    constructor; auto.
    - intros m Hm. rewrite HL. destruct (text_eqb m n); [discriminate|auto].
    - intros m o0 Hm. rewrite HL in Hm. destruct (text_eqb m n) eqn:E.
      + apply text_eqb_eq in E. inversion Hm; subst. exact Hd.
      + eauto.
    - intros m o0 v0 Hm Hp Ha. rewrite HL in Hm. destruct (text_eqb m n) eqn:E.
      + apply text_eqb_eq in E. inversion Hm; subst. auto.
      + eauto.
  Qed.

  (* only Python binds n, as an auxiliary name *)
  Lemma inv_aux : forall sc c e n, agree_ns sc c e -> pdef n e = false -> agree_ns sc c (bind n VAux e).
  Proof.
    intros sc c e n H Hn. inversion H as [? ? ? R1 R2 R3 R4]; subst.
    constructor; auto.
    - intros m Hm. rewrite pdef_bind in Hm. destruct (text_eqb m n); [discriminate|auto].
    - intros m o Hm. rewrite pdef_bind. destruct (text_eqb m n) eqn:E.
      + apply text_eqb_eq in E. subst. destruct (R3 _ _ Hm) as [Hp|Hi]; [congruence|right; exact Hi].
      + eauto.
    - intros m o v Hm Hp Ha. rewrite plookup_bind in Hp. destruct (text_eqb m n).
      + inversion Hp; subst. discriminate.
      + eauto.
  Qed.

  (* what the documentation has for a name Python has bound to a value that is not a function or class (or not at all) *)
  Lemma doc_entry_of_data : forall sc c e n o,
      agree_ns sc c e -> lookup n c = Some o ->
      match plookup n e with Some (VFun _ _ _) | Some (VClass _ _ _) => False | _ => True end ->
      exists k d a v, o = OAttr k d a v /\ k <> KProperty.
  Proof.
    intros sc c e n o H Hl Hp. inversion H as [? ? ? R1 R2 R3 R4]; subst.
    destruct (R3 _ _ Hl) as [Hd|[_ Hi]].
    - unfold pdef in Hd. destruct (plookup n e) as [v|] eqn:E; [|discriminate].
      assert (Ha : is_aux v = false) by (destruct (is_aux v); [discriminate|reflexivity]).
      specialize (R4 _ _ _ Hl E Ha). inversion R4; subst; cbn in Hp; try contradiction. eauto 8.
    - destruct o as [| |k d a v]; try discriminate. destruct k; try discriminate.
      exists KInstanceVar, d, a, v. split; [reflexivity|discriminate].
  Qed.

  (* ================================================================ documentation-only invariant (for the shadow guard) *)
  Variable DN : list name.          (* the names bound by def/class statements of the program *)

  Definition nonattr_in (c : contents_t) : Prop := forall n o, In (n, o) c -> is_attr o = false -> In n DN.
  Definition inh_ok (ih : list (name * summary)) : Prop := forall n, In (n, SNonAttr) ih -> In n DN.
  Definition good_obj (o : obj) : Prop :=
    match o with OClass _ _ c _ ih => nonattr_in c /\ inh_ok ih | _ => True end.
  Definition good_c (c : contents_t) : Prop := nonattr_in c /\ forall n o, In (n, o) c -> good_obj o.
  Definition good_chain (ch : list (contents_t * imps_t)) : Prop :=
    Forall (fun p => forall n o, In (n, o) (fst p) -> good_obj o) ch.

  Definition upd (c : contents_t) (n : name) (o : obj) (c' : contents_t) : Prop :=
    upd_fun c n o c' /\ upd_in c n (fun o' => o' = o \/ is_attr o' = true) c'.

  Lemma upd_trans_attr : forall c n o1 c1 o2 c2,
      upd c n o1 c1 -> is_attr o1 = true -> upd c1 n o2 c2 -> upd c n o2 c2.
  Proof.
    intros c n o1 c1 o2 c2 [F1 I1] Ha [F2 I2]. split.
    - eapply upd_fun_trans; eauto.
    - intros m o' Hin. destruct (I2 _ _ Hin) as [[? [?|?]]|Hin1]; auto.
      destruct (I1 _ _ Hin1) as [[? [?|?]]|?]; subst; auto.
  Qed.

  Lemma add_obj_upd' : forall n o s, NoDup (keys (contents s)) -> upd (contents s) n o (contents (add_obj n o s)).
  Proof.
    intros n o s ND. destruct (add_obj_upd n o s ND) as [F I]. split; auto.
    eapply upd_in_weaken; [exact I|]. cbn. intros; auto.
  Qed.

  Lemma upd_attr_upd' : forall n f s k d a v,
      NoDup (keys (contents s)) -> lookup n (contents s) = Some (OAttr k d a v) ->
      upd (contents s) n (f k d a v) (contents (upd_attr n f s)).
  Proof.
    intros n f s k d a v ND E. destruct (upd_attr_upd n f s k d a v ND E) as [F I]. split; auto.
    eapply upd_in_weaken; [exact I|]. cbn. intros; auto.
  Qed.

  Lemma good_upd : forall c n o c',
      good_c c -> upd c n o c' -> good_obj o -> (is_attr o = false -> In n DN) -> good_c c'.
  Proof.
    intros c n o c' [G1 G2] [_ I] Go Hn. split.
    - intros m o' Hin Ha. destruct (I _ _ Hin) as [[? [?|?]]|?]; subst; auto; try congruence. eapply G1; eauto.
    - intros m o' Hin. destruct (I _ _ Hin) as [[? [?|Hat]]|?]; subst; auto.
      + destruct o'; try discriminate. exact Logic.I.
      + eapply G2; eauto.
  Qed.

  Lemma attr_good : forall o, is_attr o = true -> good_obj o.
  Proof. destruct o; cbn; intros; try discriminate; exact I. Qed.

  (* a scope state: documented contents agree with Python's namespace, are well-formed for the guard, and
     builder.currentAttr never points at a property (so a string statement cannot replace a property's docstring) *)
  Definition cur_ok (s : st) : Prop :=
    forall n, cur s = Some n -> forall d a v, lookup n (contents s) <> Some (OAttr KProperty d a v).

  Definition St (sc : scope) (s : st) (e : env) : Prop :=
    agree_ns sc (contents s) e /\ good_c (contents s) /\ cur_ok s.

  Lemma St_nodup : forall sc s e, St sc s e -> NoDup (keys (contents s)).
  Proof. intros sc s e [H _]. inversion H; auto. Qed.

  Lemma cur_ok_none : forall s, cur s = None -> cur_ok s.
  Proof. intros s H n Hn. congruence. Qed.

  Lemma St_set_cur_none : forall sc s e, St sc s e -> St sc (set_cur None s) e.
  Proof. intros sc s e [HA [HG _]]. split; [exact HA|split; [exact HG|]]. apply cur_ok_none. reflexivity. Qed.

  Lemma St_set_imp : forall sc s e n x, St sc s e -> St sc (set_imp n x s) e.
  Proof. intros. exact H. Qed.

  (* ---- visit_Expr on a string: only the docstring of an Attribute changes *)
  Lemma St_attach_doc : forall sc s e d, St sc s e -> St sc (attach_doc clean d s) e.
  Proof.
    intros sc s e d HS. unfold attach_doc. destruct (cur s) as [n|] eqn:Ec; [|exact HS].
    destruct (lookup n (contents s)) as [[| |k d0 a v]|] eqn:E;
      try (rewrite upd_attr_noattr; [apply St_set_cur_none; exact HS | intros; congruence]).
    pose proof (St_nodup _ _ _ HS) as ND. destruct HS as [HA [HG HC]].
    assert (Hk : k <> KProperty) by (intro Hk; subst k; exact (HC n Ec _ _ _ E)).
    pose proof (upd_attr_upd' n (fun k _ a v => OAttr k (Some (clean d)) a v) s k d0 a v ND E) as HU.
    split; [|split].
    - eapply inv_doc; [exact HA|exact (proj1 HU)| |].
      + intros v0 Hp Ha. inversion HA as [? ? ? R1 R2 R3 R4]; subst.
        specialize (R4 _ _ _ E Hp Ha). inversion R4; subst; try congruence; constructor; auto.
      + inversion HA as [? ? ? R1 R2 R3 R4]; subst. destruct (R3 _ _ E) as [?|[? Hi]]; auto.
    - eapply good_upd; [exact HG|exact HU|exact Logic.I|cbn; discriminate].
    - apply cur_ok_none. reflexivity.
  Qed.

  (* ---- _handleInstanceVar *)
  Lemma maybe_attribute_present : forall inh c n o, lookup n c = Some o -> maybe_attribute inh c n = is_attr o.
  Proof. intros. unfold maybe_attribute. rewrite H. reflexivity. Qed.

  (* cur := Some n is fine when the entry written at n is not a property *)
  Lemma cur_ok_some : forall s n o, lookup n (contents s) = Some o -> (forall d a v, o <> OAttr KProperty d a v) ->
                                    cur_ok (set_cur (Some n) s).
  Proof. intros s n o E Ho m Hm d a v. cbn in Hm. inversion Hm; subst m. cbn. rewrite E. intro H. inversion H. eapply Ho; eauto. Qed.

  Lemma St_hiv : forall inh a ann expr s e,
      St ScClass s e -> St ScClass (handle_instance_var true inh a ann expr s) e.
  Proof.
    intros inh a ann expr s e HS. unfold handle_instance_var. cbn [negb].
    destruct (maybe_attribute inh (contents s) a) eqn:Em; cbn [negb]; [|exact HS].
    pose proof (St_nodup _ _ _ HS) as ND. destruct HS as [HA [HG HC]].
    inversion HA as [? ? ? R1 R2 R3 R4]; subst.
    set (f := fun (_ : akind) d a0 v => OAttr KInstanceVar d (set_ann a0 ann) (store_value v expr false)).
    destruct (lookup a (contents s)) as [o|] eqn:E.
    - rewrite (maybe_attribute_present _ _ _ _ E) in Em. destruct o as [| |k d an v]; try discriminate.
      assert (Hres : k <> KProperty ->
                     St ScClass (set_cur (Some a) (upd_attr a f s)) e).
      { intro Hk. pose proof (upd_attr_upd' a f s k d an v ND E) as HU. split; [|split].
        + eapply inv_doc; [exact HA|exact (proj1 HU)| |right; split; reflexivity].
          intros v0 Hv0 Ha. specialize (R4 _ _ _ E Hv0 Ha). inversion R4; subst; [congruence|].
          constructor; [discriminate|intros _; left; reflexivity].
        + eapply good_upd; [exact HG|exact HU|exact Logic.I|cbn; discriminate].
        + eapply cur_ok_some; [cbn; rewrite (proj2 (proj1 HU)), text_eqb_refl; reflexivity|]. subst f. cbn. intros; discriminate. }
      destruct k; try (apply Hres; discriminate). split; [exact HA|split; [exact HG|exact HC]].
    - set (blank := OAttr KInstanceVar None None None).
      pose proof (add_obj_upd' a blank s ND) as HU1.
      assert (E1 : lookup a (contents (add_obj a blank s)) = Some blank).
      { rewrite (proj2 (proj1 HU1)). rewrite text_eqb_refl. reflexivity. }
      pose proof (upd_attr_upd' a f (add_obj a blank s) _ _ _ _ (proj1 (proj1 HU1)) E1) as HU2.
      pose proof (upd_trans_attr _ _ _ _ _ _ HU1 eq_refl HU2) as HU. split; [|split].
      + eapply inv_doc; [exact HA|exact (proj1 HU)| |right; split; reflexivity].
        intros v0 Hv0 Ha. exfalso. apply (R2 a); [|exact E]. unfold pdef. rewrite Hv0. rewrite Ha. reflexivity.
      + eapply good_upd; [exact HG|exact HU|exact Logic.I|cbn; discriminate].
      + eapply cur_ok_some; [cbn; rewrite (proj2 (proj1 HU)), text_eqb_refl; reflexivity|]. subst f blank. cbn. intros; discriminate.
  Qed.

  (* ---- nested induction on statements *)
  Section StmtInd.
    Variable P : stmt -> Prop.
    Hypothesis HDef : forall nm ds a body, Forall P body -> P (Def nm ds a body).
    Hypothesis HClass : forall nm bs body, Forall P body -> P (Class nm bs body).
    Hypothesis HAssign : forall ts r, P (Assign ts r).
    Hypothesis HAnn : forall t a r, P (AnnAssign t a r).
    Hypothesis HAug : forall t r, P (AugAssign t r).
    Hypothesis HStr : forall s, P (ExprStr s).
    Hypothesis HIf : forall t b o, Forall P b -> Forall P o -> P (If t b o).
    Hypothesis HTry : forall b h o f, Forall P b -> Forall P h -> Forall P o -> Forall P f -> P (Try b h o f).
    Hypothesis HWith : forall b, Forall P b -> P (With b).
    Hypothesis HFor : forall t b o, Forall P b -> Forall P o -> P (For t b o).
    Hypothesis HWhile : forall b o, Forall P b -> Forall P o -> P (While b o).
    Hypothesis HImport : forall ns, P (Import ns).
    Hypothesis HOther : P Other.

    Fixpoint stmt_ind' (x : stmt) : P x :=
      let all := fix all (l : list stmt) : Forall P l :=
                   match l with [] => Forall_nil P | y :: r => Forall_cons y (stmt_ind' y) (all r) end in
      match x with
      | Def nm ds a body => HDef nm ds a body (all body)
      | Class nm bs body => HClass nm bs body (all body)
      | Assign ts r => HAssign ts r
      | AnnAssign t a r => HAnn t a r
      | AugAssign t r => HAug t r
      | ExprStr s => HStr s
      | If t b o => HIf t b o (all b) (all o)
      | Try b h o f => HTry b h o f (all b) (all h) (all o) (all f)
      | With b => HWith b (all b)
      | For t b o => HFor t b o (all b) (all o)
      | While b o => HWhile b o (all b) (all o)
      | Import ns => HImport ns
      | Other => HOther
      end.
  End StmtInd.

  (* folding a state transformer that preserves a predicate *)
  Lemma fold_preserves : forall (Q : st -> Prop) (f : stmt -> st -> st) (body : list stmt),
      Forall (fun y => forall s, Q s -> Q (f y s)) body -> forall s, Q s -> Q (fold_left (fun s y => f y s) body s).
  Proof.
    intros Q f body HF. induction HF as [|y body Hy _ IH]; cbn; intros s Hs; auto.
  Qed.

  (* ---- walking a function body: only instance variables and their docstrings *)
  Lemma fwalk_suite : forall sc inc inh e body,
      Forall (fun x => forall s, St sc s e -> St sc (fwalk_stmt clean inc inh x s) e) body ->
      forall s, St sc s e -> St sc (fold_left (fun s y => fwalk_stmt clean inc inh y s) body s) e.
  Proof.
    intros sc inc inh e body HF. apply (fold_preserves (fun s => St sc s e) (fwalk_stmt clean inc inh)). exact HF.
  Qed.

  Lemma fwalk_St : forall x sc inc inh e s,
      (inc = true -> sc = ScClass) -> St sc s e -> St sc (fwalk_stmt clean inc inh x s) e.
  Proof.
    intro x. induction x as [nm ds a body IH|nm bs body IH|ts r|t an r|t r|d|t b o IHb IHo|b h o f IHb IHh IHo IHf|b IHb|t b o IHb IHo|b o IHb IHo|ns|]
      using stmt_ind'; intros sc inc inh e s Hok HS; cbn [fwalk_stmt]; auto.
    - (* Assign *)
      revert s HS. induction ts as [|t ts IHts]; cbn; intros s HS; auto.
      apply IHts. destruct t as [n|ns|a0]; auto.
      destruct inc; [|exact HS]. rewrite (Hok eq_refl) in *. apply St_hiv; auto.
    - (* AnnAssign *)
      destruct t as [n|ns|a0]; auto.
      destruct inc; [|exact HS]. rewrite (Hok eq_refl) in *. apply St_hiv; auto.
    - (* ExprStr *) apply St_attach_doc. exact HS.
    - (* If *)
      destruct t; auto; (eapply fwalk_suite; [eapply Forall_impl; [|exact IHb]; cbn; intros; eauto|exact HS]).
    - eapply fwalk_suite; [eapply Forall_impl; [|exact IHb]; cbn; intros; eauto|exact HS].
    - eapply fwalk_suite; [eapply Forall_impl; [|exact IHb]; cbn; intros; eauto|exact HS].
    - eapply fwalk_suite; [eapply Forall_impl; [|exact IHb]; cbn; intros; eauto|exact HS].
    - eapply fwalk_suite; [eapply Forall_impl; [|exact IHb]; cbn; intros; eauto|exact HS].
  Qed.

  (* ---- a suite that binds nothing leaves the namespace as it is (only attribute docstrings may change) *)
  Lemma nb_suite : forall sc flow inh outer e body,
      Forall (fun x => nonbinding x = true -> forall sc flow inh outer s e, St sc s e -> St sc (walk_stmt clean x sc flow inh outer s) e) body ->
      forallb nonbinding body = true ->
      forall s, St sc s e -> St sc (fold_left (fun st y => walk_stmt clean y sc flow inh outer st) body s) e.
  Proof.
    intros sc flow inh outer e body HF HB.
    apply (fold_preserves (fun s => St sc s e) (fun y st => walk_stmt clean y sc flow inh outer st)).
    rewrite forallb_forall in HB. apply Forall_forall. intros y Hy s Hs. rewrite Forall_forall in HF. apply HF; auto.
  Qed.

  Lemma walk_nonbinding : forall x, nonbinding x = true ->
      forall sc flow inh outer s e, St sc s e -> St sc (walk_stmt clean x sc flow inh outer s) e.
  Proof.
    intro x. induction x as [nm ds a body IH|nm bs body IH|ts r|t an r|t r|d|t b o IHb IHo|b h o f IHb IHh IHo IHf|b IHb|t b o IHb IHo|b o IHb IHo|ns|]
      using stmt_ind'; intros Hnb sc flow inh outer s e HS; cbn in Hnb; try discriminate; cbn [walk_stmt]; auto.
    - apply St_attach_doc. exact HS.
    - destruct t; auto; apply andb_true_iff in Hnb; destruct Hnb as [Hb Ho]; eapply nb_suite; eauto.
    - repeat (apply andb_true_iff in Hnb; destruct Hnb as [Hnb ?]). eapply nb_suite; eauto.
    - eapply nb_suite; eauto.
    - apply andb_true_iff in Hnb; destruct Hnb as [Hb Ho]. eapply nb_suite; eauto.
  Qed.

  (* ---- variables: _handleModuleVar / _handleClassVar once the Attribute exists *)
  Lemma handle_constant_not_property : forall n flow default k v expr,
      default <> KProperty -> k <> KProperty -> handle_constant n flow default k v expr <> KProperty.
  Proof.
    intros. unfold handle_constant. destruct (is_constant n flow v expr); [discriminate|]. destruct k; auto.
  Qed.

  Definition not_fun_class (v : option pyval) : Prop :=
    match v with Some (VFun _ _ _) | Some (VClass _ _ _) => False | _ => True end.

  (* what is known about the literal remembered for an existing entry, when Python's binding is not a function/class *)
  Lemma old_val_rel : forall sc c e n k d a v,
      agree_ns sc c e -> lookup n c = Some (OAttr k d a v) -> not_fun_class (plookup n e) -> vals = true ->
      k = KInstanceVar \/ exists w, plookup n e = Some (VData w) /\ forall l, v = Some (AvLit l) -> w = Some l.
  Proof.
    intros sc c e n k d a v H Hl Hnf Hv. inversion H as [? ? ? R1 R2 R3 R4]; subst.
    destruct (R3 _ _ Hl) as [Hd|[_ Hi]].
    - unfold pdef in Hd. destruct (plookup n e) as [v0|] eqn:E; [|discriminate].
      assert (Ha : is_aux v0 = false) by (destruct (is_aux v0); [discriminate|reflexivity]).
      specialize (R4 _ _ _ Hl E Ha). inversion R4; subst; cbn in Hnf; try contradiction.
      match goal with Hr : _ -> C03Rel.val_rel _ _ _ |- _ => destruct (Hr ltac:(first [assumption|reflexivity])) as [?|Hr'] end; eauto.
    - destruct k; try discriminate. auto.
  Qed.

  Lemma St_var : forall sc s e default flow n ann expr aug pv,
      St sc s e -> default <> KProperty -> not_fun_class (plookup n e) ->
      (vals = true -> forall l, expr = Some (RLit l) -> aug = false -> pv = Some l) ->
      (vals = true -> expr = None -> literal_bound n e = false) ->
      St sc (handle_var default flow n ann expr aug
               (match lookup n (contents s) with Some _ => s | None => add_obj n (OAttr default None None None) s end))
         (bind n (VData pv) e).
  Proof.
    intros sc s e default flow n ann expr aug pv HS Hd Hnf H1 H2. unfold handle_var.
    pose proof (St_nodup _ _ _ HS) as ND. destruct HS as [HA [HG HC]].
    set (f := fun k (d : option text) a v => OAttr (handle_constant n flow default k v expr) d (set_ann a ann) (store_value v expr aug)).
    assert (Hfin : forall s1 o, upd (contents s) n o (contents s1) ->
                   (exists k d a v, o = OAttr k d a v /\ k <> KProperty /\ (vals = true -> val_rel k v pv)) ->
                   St sc (set_cur (if aug then None else Some n) s1) (bind n (VData pv) e)).
    { intros s1 o HU [k [d [a [v [Ho [Hk Hvr]]]]]]. subst o. split; [|split]; cbn [contents set_cur].
      - eapply inv_point; [exact HA|exact (proj1 HU)| |reflexivity]. constructor; assumption.
      - eapply good_upd; [exact HG|exact HU|exact Logic.I|cbn; discriminate].
      - destruct aug; [apply cur_ok_none; reflexivity|].
        eapply cur_ok_some; [rewrite (proj2 (proj1 HU)), text_eqb_refl; reflexivity|]. intros d1 a1 v1 Heq. inversion Heq. congruence. }
    (* the literal stored after the update, against the value bound *)
    assert (Hstore : forall k v, (vals = true -> k = KInstanceVar \/ exists w, plookup n e = Some (VData w) /\ forall l, v = Some (AvLit l) -> w = Some l)
                                 \/ v = None ->
                     vals = true -> val_rel (handle_constant n flow default k v expr) (store_value v expr aug) pv).
    { intros k v Hold Hv. unfold C03Rel.val_rel. destruct expr as [r|].
      - right. intros l Hl. cbn in Hl. destruct aug.
        + destruct v; discriminate.
        + destruct r; cbn in Hl; try discriminate. inversion Hl; subst. eapply H1; eauto.
      - cbn [store_value]. specialize (H2 Hv eq_refl). unfold literal_bound in H2.
        assert (Hk : handle_constant n flow default k v None = match k with KConstant => default | _ => k end).
        { unfold handle_constant, is_constant. destruct v; reflexivity. }
        destruct Hold as [Hold|Hnone]; [|subst v; right; intros; discriminate].
        destruct (Hold Hv) as [Hi|[w [Hw Hl]]].
        + subst k. left. rewrite Hk. reflexivity.
        + right. intros l El. rewrite Hw in H2. specialize (Hl _ El). subst w. discriminate. }
    destruct (lookup n (contents s)) as [o|] eqn:E.
    - destruct (doc_entry_of_data _ _ _ _ _ HA E Hnf) as [k [d [a [v [Ho Hk]]]]]. subst o.
      pose proof (upd_attr_upd' n f s k d a v ND E) as HU.
      eapply Hfin; [exact HU|]. subst f. cbn. do 4 eexists. split; [reflexivity|]. split; [apply handle_constant_not_property; auto|].
      apply Hstore. left. intro Hv. eapply old_val_rel; eauto.
    - set (blank := OAttr default None None None).
      pose proof (add_obj_upd' n blank s ND) as HU1.
      assert (E1 : lookup n (contents (add_obj n blank s)) = Some blank).
      { rewrite (proj2 (proj1 HU1)). rewrite text_eqb_refl. reflexivity. }
      pose proof (upd_attr_upd' n f (add_obj n blank s) _ _ _ _ (proj1 (proj1 HU1)) E1) as HU2.
      pose proof (upd_trans_attr _ _ _ _ _ _ HU1 eq_refl HU2) as HU.
      eapply Hfin; [exact HU|]. subst f blank. cbn. do 4 eexists. split; [reflexivity|]. split; [apply handle_constant_not_property; auto|].
      apply Hstore. right. reflexivity.
  Qed.

  Lemma meta_tables : module_meta_vars = py_meta_names.
  Proof. reflexivity. Qed.

  Lemma oldschool_table : oldschool_names = [p_staticmethod; p_classmethod].
  Proof. reflexivity. Qed.

  (* the right-hand side does not make the builder take the alias or the old-style decoration path *)
  Definition plain_expr (expr : option rhs) : Prop :=
    match expr with
    | Some (RName _) => False
    | Some (RCall f _) => mem f oldschool_names = false
    | _ => True
    end.

  Lemma aliasing_plain : forall chain n expr s, plain_expr expr -> aliasing chain n expr s = None.
  Proof.
    intros chain n expr s H. unfold aliasing. destruct (lookup n (contents s)); auto.
    destruct expr as [[| | |]|]; cbn in H; auto; contradiction.
  Qed.

  Lemma oldschool_plain : forall n expr s, plain_expr expr -> oldschool n expr s = None.
  Proof.
    intros n expr s H. unfold oldschool. destruct expr as [[v|y|f args|]|]; auto.
    destruct args as [|arg [|? ?]]; auto. unfold plain_expr in H. rewrite H. rewrite andb_false_r. reflexivity.
  Qed.

  Lemma St_data_target : forall sc flow inh chain n ann expr (aug : bool) pv s e e',
      St sc s e -> (aug = true \/ plain_expr expr) ->
      (if aug return Prop then (exists w, plookup n e = Some (VData w)) /\ mem n py_meta_names = false /\ e' = bind n (VData pv) e
       else bind_data n (VData pv) e = Some e') ->
      (sc = ScClass -> lookup n inh <> Some SNonAttr) ->
      (vals = true -> forall l, expr = Some (RLit l) -> aug = false -> pv = Some l) ->
      (vals = true -> expr = None -> literal_bound n e = false) ->
      St sc (handle_assignment sc flow inh chain (TName n) ann expr aug s) e'.
  Proof.
    intros sc flow inh chain n ann expr aug pv s e e' HS Hpl Hpy Hinh Hv1 Hv2.
    assert (Hfacts : mem n py_meta_names = false /\ not_fun_class (plookup n e) /\ e' = bind n (VData pv) e /\
                     (aug = true -> lookup n (contents s) <> None)).
    { destruct aug.
      - destruct Hpy as [[w Hw] [Hm He]]. repeat split; auto.
        + rewrite Hw. exact I.
        + intros _. destruct HS as [HA _]. inversion HA as [? ? ? R1 R2 R3 R4]; subst. apply R2. unfold pdef. rewrite Hw. reflexivity.
      - unfold bind_data in Hpy. destruct (mem n py_meta_names); [discriminate|]. repeat split; auto.
        + destruct (plookup n e) as [[| | |]|]; try discriminate; exact I.
        + destruct (plookup n e) as [[| | |]|]; try discriminate; inversion Hpy; reflexivity.
        + intro; discriminate. }
    destruct Hfacts as [Hmeta [Hnf [He' Haug]]]. subst e'.
    assert (Hal : aliasing chain n expr s = None).
    { unfold aliasing. destruct (lookup n (contents s)) eqn:E; auto.
      destruct Hpl as [Hpl|Hpl]; [exfalso; apply (Haug Hpl); reflexivity|].
      destruct expr as [[| | |]|]; cbn in Hpl; auto; contradiction. }
    cbn [handle_assignment]. destruct sc.
    - rewrite Hal. unfold handle_module_var. rewrite meta_tables, Hmeta.
      pose proof (St_var ScModule s e KVariable flow n ann expr aug pv HS ltac:(discriminate) Hnf Hv1 Hv2) as HV.
      destruct (lookup n (contents s)) as [o|] eqn:E.
      + destruct HS as [HA HG]. destruct (doc_entry_of_data _ _ _ _ _ HA E Hnf) as [k [d [a [v [Ho Hk]]]]]. subst o. exact HV.
      + destruct aug; [exfalso; apply Haug; auto|exact HV].
    - assert (Hold : (if aug then None else oldschool n expr s) = None).
      { destruct aug; auto. destruct Hpl as [Hpl|Hpl]; [discriminate|]. auto using oldschool_plain. }
      rewrite Hold. rewrite Hal. unfold handle_class_var.
      pose proof (St_var ScClass s e KClassVar flow n ann expr aug pv HS ltac:(discriminate) Hnf Hv1 Hv2) as HV.
      destruct (lookup n (contents s)) as [o|] eqn:E.
      + destruct HS as [HA HG]. destruct (doc_entry_of_data _ _ _ _ _ HA E Hnf) as [k [d [a [v [Ho Hk]]]]]. subst o.
        rewrite (maybe_attribute_present _ _ _ _ E). cbn [is_attr negb]. exact HV.
      + assert (Hm : maybe_attribute inh (contents s) n = true).
        { unfold maybe_attribute. rewrite E. specialize (Hinh eq_refl). destruct (lookup n inh) as [[|]|]; auto; congruence. }
        rewrite Hm. cbn [negb]. destruct aug; [exfalso; apply Haug; auto|exact HV].
  Qed.

  (* ---- visit_Assign *)
  Lemma bind_unpacked_inv : forall n e e1, bind_unpacked strict n e = Some e1 ->
      bind_data n (VData None) e = Some e1 /\ (strict = true -> literal_bound n e = false).
  Proof.
    intros n e e1 H. unfold bind_unpacked in H. destruct strict; cbn in H.
    - destruct (literal_bound n e); [discriminate|]. auto.
    - split; auto. intro; discriminate.
  Qed.

  Lemma St_tuple_names : forall sc flow inh chain ns s e e',
      St sc s e -> ofold (bind_unpacked strict) ns e = Some e' ->
      (forall n, In n ns -> sc = ScClass -> lookup n inh <> Some SNonAttr) ->
      St sc (fold_left (fun s n => handle_assignment sc flow inh chain (TName n) None None false s) ns s) e'.
  Proof.
    intros sc flow inh chain ns. induction ns as [|n ns IH]; cbn; intros s e e' HS Hpy Hinh.
    - inversion Hpy; subst. exact HS.
    - destruct (bind_unpacked strict n e) as [e1|] eqn:E1; [|discriminate].
      destruct (bind_unpacked_inv _ _ _ E1) as [Eb Hlit].
      eapply IH; [|exact Hpy|intros; apply Hinh; auto].
      apply (St_data_target sc flow inh chain n None None false None s e e1); auto.
      + right; exact I.
      + intros; discriminate.
  Qed.

  Definition assign_step (sc : scope) (flow : bool) (inh : list (name * summary)) (outer : list (contents_t * imps_t)) (r : rhs) :=
    fun s t => match t with
               | TTuple ns => fold_left (fun s n => handle_assignment sc flow inh outer (TName n) None None false s) ns s
               | _ => handle_assignment sc flow inh outer t None (Some r) false s
               end.

  Lemma St_targets_data : forall sc flow inh outer r pv ts s e e',
      St sc s e -> plain_expr (Some r) -> ofold (bind_target strict (VData pv)) ts e = Some e' ->
      (forall n, In n (flat_map target_names ts) -> sc = ScClass -> lookup n inh <> Some SNonAttr) ->
      (forall l, r = RLit l -> pv = Some l) ->
      St sc (fold_left (assign_step sc flow inh outer r) ts s) e'.
  Proof.
    intros sc flow inh outer r pv ts. induction ts as [|t ts IH]; cbn [fold_left ofold]; intros s e e' HS Hpl Hpy Hinh Hrv.
    - inversion Hpy; subst. exact HS.
    - destruct (bind_target strict (VData pv) t e) as [e1|] eqn:E1; [|discriminate].
      eapply IH; [|exact Hpl|exact Hpy|intros; apply Hinh; auto; cbn; apply in_or_app; auto|exact Hrv].
      destruct t as [n|ns|a]; cbn [assign_step].
      + cbn in E1. apply (St_data_target sc flow inh outer n None (Some r) false pv s e e1); auto.
        * intros; apply Hinh; auto. cbn. auto.
        * intros _ l Hl _. inversion Hl. auto.
        * intros; discriminate.
      + cbn in E1. eapply St_tuple_names; eauto. intros; apply Hinh; auto. cbn. apply in_or_app. auto.
      + discriminate.
  Qed.

  Lemma replace_upd : forall n o s o0,
      NoDup (keys (contents s)) -> lookup n (contents s) = Some o0 ->
      upd (contents s) n o (replace n o (contents s)).
  Proof.
    intros n o s o0 ND E. split; [split|].
    - rewrite keys_replace. exact ND.
    - intro m. rewrite lookup_replace. rewrite E. reflexivity.
    - intros m o' H. apply in_replace in H. destruct H as [H|H]; [inversion H; auto|auto].
  Qed.

  Lemma static_class_distinct : text_eqb p_classmethod p_staticmethod = false.
  Proof. reflexivity. Qed.

  (* one Name target with the statement's own right-hand side (Assign with a single target, AnnAssign) *)
  Lemma St_single : forall sc flow inh outer n ann r v s e e',
      St sc s e -> assign_value (pscope_of sc) e [TName n] r = Some v -> bind_target strict v (TName n) e = Some e' ->
      (forall pv, v = VData pv -> sc = ScClass -> lookup n inh <> Some SNonAttr) ->
      St sc (handle_assignment sc flow inh outer (TName n) ann (Some r) false s) e'.
  Proof.
    intros sc flow inh outer n ann r v s e e' HS Ev Hpy Hinh.
    destruct r as [lv|y|f args|]; cbn in Ev.
    - inversion Ev; subst. cbn in Hpy. specialize (Hinh _ eq_refl). apply (St_data_target sc flow inh outer n ann (Some (RLit lv)) false (Some lv) s e e'); auto;
        [right; exact I|intros _ l Hl _; inversion Hl; reflexivity|intros; discriminate].
    - discriminate.
    - destruct (text_eqb f p_staticmethod || text_eqb f p_classmethod) eqn:Ef.
      + (* the old-style wrapping of a (possibly already wrapped) method of this class body *)
        destruct sc; cbn in Ev; [discriminate|].
        destruct args as [|a [|? ?]]; try discriminate.
        destruct (text_eqb n a) eqn:Ena; [|discriminate]. apply text_eqb_eq in Ena. subst a.
        destruct (plookup n e) as [[asy w0 d| | |]|] eqn:Ep; try discriminate.
        assert (Hw0 : w0 <> WProp /\ v = VFun asy (if text_eqb f p_staticmethod then WStatic else WClassM) d).
        { destruct w0; try discriminate; inversion Ev; split; auto; discriminate. }
        destruct Hw0 as [Hw0 Hv]. subst v. cbn in Hpy. inversion Hpy; subst e'. clear Hpy Ev.
        cbn [handle_assignment].
        pose proof (St_nodup _ _ _ HS) as ND. destruct HS as [HA [HG HC]].
        inversion HA as [? ? ? R1 R2 R3 R4]; subst.
        assert (Hd : pdef n e = true) by (unfold pdef; rewrite Ep; reflexivity).
        destruct (lookup n (contents s)) as [o|] eqn:E; [|exfalso; eapply R2; eauto].
        specialize (R4 _ _ _ E Ep eq_refl). inversion R4; subst; [|congruence].
        assert (Hmem : mem f oldschool_names = true).
        { rewrite oldschool_table. cbn. apply orb_true_iff in Ef. destruct Ef as [Ef|Ef]; rewrite Ef; cbn; auto. apply orb_true_r. }
        unfold oldschool. rewrite text_eqb_refl, Hmem, E. cbn [andb].
        set (k' := if text_eqb f t_staticmethod then KStaticMethod else if text_eqb f t_classmethod then KClassMethod else k).
        pose proof (replace_upd n (OFun k' asy (option_map clean d)) s _ ND E) as HU.
        split; [|split]; cbn [contents set_contents].
        * eapply inv_point; [exact HA|exact (proj1 HU)| |reflexivity].
          constructor; auto. subst k'. change t_staticmethod with p_staticmethod. change t_classmethod with p_classmethod.
          destruct (text_eqb f p_staticmethod) eqn:E1; [reflexivity|].
          cbn in Ef. rewrite Ef. reflexivity.
        * eapply good_upd; [exact HG|exact HU|exact Logic.I|]. intros _. apply (proj1 HG n _ (lookup_In _ _ _ E)). reflexivity.
        * intros m Hm d1 a1 v1. cbn in Hm. cbn. rewrite (proj2 (proj1 HU)).
          destruct (text_eqb m n) eqn:Emn; [discriminate|]. exact (HC m Hm d1 a1 v1).
      + destruct (text_eqb f p_property); [discriminate|]. inversion Ev; subst. cbn in Hpy. specialize (Hinh _ eq_refl).
        apply (St_data_target sc flow inh outer n ann (Some (RCall f args)) false None s e e'); auto;
          [|intros; discriminate|intros; discriminate].
        right. unfold plain_expr. rewrite oldschool_table. cbn.
        apply orb_false_iff in Ef. destruct Ef as [E1 E2]. rewrite E1, E2. reflexivity.
    - inversion Ev; subst. cbn in Hpy. specialize (Hinh _ eq_refl). apply (St_data_target sc flow inh outer n ann (Some ROther) false None s e e'); auto;
        [right; exact I|intros; discriminate|intros; discriminate].
  Qed.

  Lemma St_assign : forall sc flow inh outer ts r s e e',
      St sc s e -> py_stmt strict (Assign ts r) (pscope_of sc) e = Some e' ->
      (forall n, In n (assigned_names (Assign ts r)) -> sc = ScClass -> lookup n inh <> Some SNonAttr) ->
      St sc (walk_stmt clean (Assign ts r) sc flow inh outer s) e'.
  Proof.
    intros sc flow inh outer ts r s e e' HS Hpy Hinh0.
    assert (Hinh : is_wrapping ts r = false ->
                   forall n, In n (flat_map target_names ts) -> sc = ScClass -> lookup n inh <> Some SNonAttr).
    { intros Hw. cbn [assigned_names] in Hinh0. rewrite Hw in Hinh0. exact Hinh0. }
    clear Hinh0. cbn [walk_stmt py_stmt] in *.
    change (St sc (fold_left (assign_step sc flow inh outer r) ts s) e').
    destruct (assign_value (pscope_of sc) e ts r) as [v|] eqn:Ev; [|discriminate].
    destruct v as [asy w d|x d ns|pv|].
    - (* only the wrapping form yields a function: a single Name target *)
      destruct r as [lv|y|f args|]; cbn in Ev; try discriminate.
      destruct (text_eqb f p_staticmethod || text_eqb f p_classmethod) eqn:Ef;
        [|destruct (text_eqb f p_property); discriminate].
      destruct (pscope_of sc) eqn:Esc; [discriminate|].
      destruct ts as [|[n| |] [|? ?]]; try discriminate.
      cbn [ofold] in Hpy. destruct (bind_target strict (VFun asy w d) (TName n) e) as [e1|] eqn:Eb; [|discriminate].
      inversion Hpy; subst e1. cbn [fold_left assign_step].
      eapply St_single; eauto.
      * rewrite Esc. cbn. rewrite Ef. exact Ev.
      * intros; discriminate.
    - destruct r as [lv|y|f args|]; cbn in Ev; try discriminate.
      destruct (text_eqb f p_staticmethod || text_eqb f p_classmethod).
      + destruct (pscope_of sc); [discriminate|]. destruct ts as [|[n| |] [|? ?]]; try discriminate.
        destruct args as [|a [|? ?]]; try discriminate. destruct (text_eqb n a); [|discriminate].
        destruct (plookup n e) as [[? [| | |] ?| | |]|]; discriminate.
      + destruct (text_eqb f p_property); discriminate.
    - assert (Hplain : plain_expr (Some r) /\ is_wrapping ts r = false).
      { destruct r as [lv|y|f args|]; cbn in Ev; try discriminate; try (split; [exact I|reflexivity]).
        destruct (text_eqb f p_staticmethod || text_eqb f p_classmethod) eqn:Ef.
        + destruct (pscope_of sc); [discriminate|]. destruct ts as [|[n| |] [|? ?]]; try discriminate.
          destruct args as [|a [|? ?]]; try discriminate. destruct (text_eqb n a); [|discriminate].
          destruct (plookup n e) as [[? [| | |] ?| | |]|]; discriminate.
        + split.
          * unfold plain_expr. rewrite oldschool_table. cbn.
            apply orb_false_iff in Ef. destruct Ef as [E1 E2]. rewrite E1, E2. reflexivity.
          * unfold is_wrapping. destruct args as [|a [|? ?]]; auto. destruct ts as [|[n| |] [|? ?]]; auto.
            rewrite Ef. apply andb_false_r. }
      destruct Hplain as [Hplain Hw]. eapply St_targets_data; eauto.
      intros l Hl. subst r. cbn in Ev. inversion Ev. reflexivity.
    - destruct r as [lv|y|f args|]; cbn in Ev; try discriminate.
      destruct (text_eqb f p_staticmethod || text_eqb f p_classmethod).
      + destruct (pscope_of sc); [discriminate|]. destruct ts as [|[n| |] [|? ?]]; try discriminate.
        destruct args as [|a [|? ?]]; try discriminate. destruct (text_eqb n a); [|discriminate].
        destruct (plookup n e) as [[? [| | |] ?| | |]|]; discriminate.
      + destruct (text_eqb f p_property); discriminate.
  Qed.

  Lemma St_annassign : forall sc flow inh outer t ann r s e e',
      St sc s e -> py_stmt strict (AnnAssign t ann r) (pscope_of sc) e = Some e' ->
      (forall n, In n (target_names t) -> sc = ScClass -> lookup n inh <> Some SNonAttr) ->
      St sc (walk_stmt clean (AnnAssign t ann r) sc flow inh outer s) e'.
  Proof.
    intros sc flow inh outer t ann r s e e' HS Hpy Hinh. cbn [walk_stmt py_stmt] in *.
    destruct t as [n|ns|a]; try discriminate. destruct r as [r|]; [|discriminate].
    destruct (assign_value (pscope_of sc) e [TName n] r) as [v|] eqn:Ev; [|discriminate].
    eapply St_single; eauto. intros; apply Hinh; auto. cbn. auto.
  Qed.

  Lemma St_augassign : forall sc flow inh outer t r s e e',
      St sc s e -> py_stmt strict (AugAssign t r) (pscope_of sc) e = Some e' ->
      (forall n, In n (target_names t) -> sc = ScClass -> lookup n inh <> Some SNonAttr) ->
      St sc (walk_stmt clean (AugAssign t r) sc flow inh outer s) e'.
  Proof.
    intros sc flow inh outer t r s e e' HS Hpy Hinh. cbn [walk_stmt py_stmt] in *.
    destruct t as [n|ns|a]; try discriminate.
    destruct (mem n py_meta_names) eqn:Em; [discriminate|].
    destruct (plookup n e) as [[| |w|]|] eqn:Ep; try discriminate. inversion Hpy; subst e'.
    apply (St_data_target sc flow inh outer n None (Some r) true None s e (bind n (VData None) e)); auto.
    - repeat split; eauto.
    - intros; apply Hinh; auto. cbn. auto.
    - intros; discriminate.
    - intros; discriminate.
  Qed.

  (* ---- decorators: what _handleFunctionDef computes against what the decorators do *)
  Lemma starts_with_app : forall p t, starts_with p t = true -> exists r, t = p ++ r.
  Proof.
    induction p as [|x p IH]; intros t H; cbn in *; [eauto|].
    destruct t as [|y t]; [discriminate|]. apply andb_true_iff in H. destruct H as [H1 H2].
    apply N.eqb_eq in H1. subst. destruct (IH _ H2) as [r Hr]. subst. eauto.
  Qed.

  Lemma ends_with_app : forall sfx t, ends_with sfx t = true -> exists pre, t = pre ++ sfx.
  Proof.
    intros sfx t H. unfold ends_with in H. apply starts_with_app in H. destruct H as [r Hr].
    exists (rev r). rewrite <- (rev_involutive t), Hr, rev_app_distr, rev_involutive. reflexivity.
  Qed.

  Lemma has_suffix_app : forall s pre, has_suffix s (pre ++ s) = true.
  Proof.
    intros s pre. induction pre as [|a pre IH]; cbn.
    - destruct s; cbn; [reflexivity|]. rewrite N.eqb_refl, text_eqb_refl. reflexivity.
    - rewrite IH. apply orb_true_r.
  Qed.

  Lemma property_like : forall n, ends_with t_property n || ends_with t_Property n = true -> has_suffix p_roperty n = true.
  Proof.
    intros n H. apply orb_true_iff in H. destruct H as [H|H]; apply ends_with_app in H; destruct H as [pre Hp]; subst n.
    - change t_property with ([112%N] ++ p_roperty). rewrite app_assoc. apply has_suffix_app.
    - change t_Property with ([80%N] ++ p_roperty). rewrite app_assoc. apply has_suffix_app.
  Qed.

  Definition flags_of (nm : name) (w : wrap) : dflags :=
    mkFlags (match w with WProp => true | _ => false end) (match w with WClassM => true | _ => false end)
            (match w with WStatic => true | _ => false end) nm.

  Lemma deco_step_transparent : forall fl d, deco_wrap d = Some None -> deco_step true fl d = fl.
  Proof.
    intros fl d H.
    assert (Hn : exists n, deco_dotted d = [n] /\ transparent_name n = true).
    { destruct d as [[|n [|? ?]]|[|n [|? ?]]]; unfold deco_wrap in H; try discriminate.
      - destruct (text_eqb n p_staticmethod); [discriminate|]. destruct (text_eqb n p_classmethod); [discriminate|].
        destruct (text_eqb n p_property); [discriminate|]. destruct (transparent_name n) eqn:E; [exists n; split; [reflexivity|exact E]|discriminate].
      - destruct (transparent_name n) eqn:E; [exists n; split; [reflexivity|exact E]|discriminate]. }
    destruct Hn as [n [Hd Ht]]. unfold deco_step. rewrite Hd. cbn [rev app negb length Nat.leb andb].
    unfold transparent_name in Ht. repeat (apply andb_true_iff in Ht; destruct Ht as [Ht ?]).
    destruct (ends_with t_property n || ends_with t_Property n) eqn:Ep.
    - apply property_like in Ep. rewrite Ep in *. discriminate.
    - change t_classmethod with p_classmethod. change t_staticmethod with p_staticmethod.
      destruct (text_eqb n p_classmethod); [discriminate|]. destruct (text_eqb n p_staticmethod); [discriminate|]. reflexivity.
  Qed.

  Lemma deco_step_wrapper : forall nm d w, deco_wrap d = Some (Some w) -> deco_step true (flags_of nm WNone) d = flags_of nm w.
  Proof.
    intros nm d w H. destruct d as [[|n [|? ?]]|[|n [|? ?]]]; unfold deco_wrap in H; try discriminate.
    - destruct (text_eqb n p_staticmethod) eqn:E1; [apply text_eqb_eq in E1; inversion H; subst; reflexivity|].
      destruct (text_eqb n p_classmethod) eqn:E2; [apply text_eqb_eq in E2; inversion H; subst; reflexivity|].
      destruct (text_eqb n p_property) eqn:E3; [apply text_eqb_eq in E3; inversion H; subst; reflexivity|].
      destruct (transparent_name n); discriminate.
    - destruct (transparent_name n); discriminate.
  Qed.

  Lemma deco_flags_class : forall nm ds acc w,
      def_wrap PClass ds acc = Some w -> fold_left (deco_step true) ds (flags_of nm acc) = flags_of nm w.
  Proof.
    intros nm ds. induction ds as [|d ds IH]; cbn; intros acc w H.
    - inversion H; reflexivity.
    - destruct (deco_wrap d) as [[w1|]|] eqn:Ed; try discriminate.
      + destruct acc; try discriminate. rewrite (deco_step_wrapper nm d w1 Ed). apply IH. exact H.
      + rewrite deco_step_transparent by exact Ed. apply IH. exact H.
  Qed.

  Lemma deco_flags_module : forall nm ds w,
      def_wrap PModule ds WNone = Some w -> w = WNone /\ deco_flags false nm ds = flags_of nm WNone.
  Proof.
    intros nm ds w H. split.
    - induction ds as [|d ds IH]; cbn in H; [inversion H; reflexivity|].
      destruct (deco_wrap d) as [[w1|]|]; try discriminate. auto.
    - unfold deco_flags. change (flags_of nm WNone) with (mkFlags false false false nm).
      generalize (mkFlags false false false nm) as fl. clear H.
      induction ds as [|d ds IH]; cbn; intro fl; [reflexivity|].
      rewrite <- (IH fl) at 2. f_equal. unfold deco_step. destruct (rev (deco_dotted d)); reflexivity.
  Qed.

  Lemma existsb_false : forall {X} (f : X -> bool) l, existsb f l = false -> forall x, In x l -> f x = false.
  Proof.
    induction l as [|y l IH]; cbn; intros H x Hin; [tauto|].
    apply orb_false_iff in H. destruct H as [H1 H2]. destruct Hin as [Hin|Hin]; [subst; auto|auto].
  Qed.

  (* ---- _handleFunctionDef *)
  Lemma St_def : forall sc flow inh outer nm ds a body s e e',
      St sc s e -> py_stmt strict (Def nm ds a body) (pscope_of sc) e = Some e' -> In nm DN ->
      St sc (walk_stmt clean (Def nm ds a body) sc flow inh outer s) e'.
  Proof.
    intros sc flow inh outer nm ds a body s e e' HS Hpy Hdn. cbn [py_stmt] in Hpy.
    destruct (def_wrap (pscope_of sc) ds WNone) as [w|] eqn:Ew; [|discriminate].
    inversion Hpy; subst e'. clear Hpy.
    pose proof (St_nodup _ _ _ HS) as ND.
    assert (Hfl : deco_flags (match sc with ScClass => true | ScModule => false end) nm ds = flags_of nm w /\
                  (sc = ScModule -> w = WNone)).
    { destruct sc; cbn in Ew.
      - destruct (deco_flags_module nm ds w Ew) as [Hw Hf]. subst. auto.
      - split; [|discriminate]. unfold deco_flags. apply (deco_flags_class nm ds WNone w Ew). }
    destruct Hfl as [Hfl Hmod]. cbn [walk_stmt]. rewrite Hfl.
    assert (Hadd : forall o, agree_obj sc o (VFun a w (docstring_of body)) -> (is_attr o = false -> In nm DN) ->
                             (match o with OClass _ _ _ _ _ => False | _ => True end) ->
                             St sc (set_cur None (add_obj nm o s)) (bind nm (VFun a w (docstring_of body)) e)).
    { intros o Ho Hn Hcl. pose proof (add_obj_upd' nm o s ND) as HU. destruct HS as [HA [HG HC]]. split; [|split].
      - eapply inv_point; [exact HA|exact (proj1 HU)|exact Ho|reflexivity].
      - eapply good_upd; [exact HG|exact HU| |exact Hn]. destruct o; try exact Logic.I. contradiction.
      - apply cur_ok_none. reflexivity. }
    destruct w; cbn [flags_of f_prop f_name].
    4: { (* property *)
      destruct sc; [specialize (Hmod eq_refl); discriminate|].
      apply Hadd; [constructor; reflexivity|cbn; discriminate|exact Logic.I]. }
    all: apply St_set_cur_none; unfold fwalk_body;
      (eapply fwalk_suite;
       [apply Forall_forall; intros y _ s0 HS0; apply fwalk_St; [intros Hi; destruct sc; [discriminate Hi|reflexivity]|exact HS0]|]);
      (apply Hadd; [constructor; [|reflexivity]; destruct sc; try (specialize (Hmod eq_refl); discriminate); reflexivity
                   |intros _; exact Hdn|exact Logic.I]).
  Qed.

  (* ---- maps over the documented objects that keep what agree_ns looks at *)
  Lemma lookup_map : forall (g : name -> obj -> obj) n c,
      lookup n (map (fun p => (fst p, g (fst p) (snd p))) c) =
      match lookup n c with Some o => Some (g n o) | None => None end.
  Proof.
    induction c as [|[m o] c IH]; cbn; auto. destruct (text_eqb n m) eqn:E; auto.
    apply text_eqb_eq in E. subst. reflexivity.
  Qed.

  Lemma keys_map : forall (g : name -> obj -> obj) c, keys (map (fun p => (fst p, g (fst p) (snd p))) c) = keys c.
  Proof. intros. unfold keys. rewrite map_map. reflexivity. Qed.

  Lemma agree_map : forall (g : name -> obj -> obj) sc c e,
      (forall n o v, agree_obj sc o v -> agree_obj sc (g n o) v) ->
      (forall n o, is_ivar_obj o = true -> is_ivar_obj (g n o) = true) ->
      agree_ns sc c e -> agree_ns sc (map (fun p => (fst p, g (fst p) (snd p))) c) e.
  Proof.
    intros g sc c e Hg Hi H. inversion H as [? ? ? R1 R2 R3 R4]; subst. constructor.
    - rewrite keys_map. exact R1.
    - intros n Hn. rewrite lookup_map. specialize (R2 n Hn). destruct (lookup n c); congruence.
    - intros n o Hl. rewrite lookup_map in Hl. destruct (lookup n c) as [o0|] eqn:E; [|discriminate].
      inversion Hl; subst. destruct (R3 _ _ E) as [?|[? ?]]; auto.
    - intros n o v Hl Hp Ha. rewrite lookup_map in Hl. destruct (lookup n c) as [o0|] eqn:E; [|discriminate].
      inversion Hl; subst. eauto.
  Qed.

  Definition infer_one (o : obj) : obj :=
    match o with OAttr k d None (Some v) => OAttr k d (infer_value v) (Some v) | _ => o end.

  Lemma infer_all_map : forall c, infer_all c = map (fun p => (fst p, infer_one (snd p))) c.
  Proof.
    intro c. unfold infer_all. apply map_ext. intros [n o]. cbn.
    destruct o as [| |k d [a|] [v|]]; reflexivity.
  Qed.

  Lemma agree_infer_all : forall sc c e, agree_ns sc c e -> agree_ns sc (infer_all c) e.
  Proof.
    intros sc c e H. rewrite infer_all_map. apply (agree_map (fun _ => infer_one)); auto.
    - intros n o v Ho. destruct o as [| |k d [a|] [w|]]; cbn; auto. inversion Ho; subst; constructor; auto.
    - intros n o Ho. destruct o as [| |k d [a|] [w|]]; cbn in *; auto.
  Qed.

  Lemma nonattr_infer_all : forall c, nonattr_in c -> nonattr_in (infer_all c).
  Proof.
    intros c H n o Hin Ha. rewrite infer_all_map in Hin. apply in_map_iff in Hin. destruct Hin as [[m o0] [Heq Hin]].
    cbn in Heq. inversion Heq; subst. apply (H _ _ Hin). destruct o0 as [| |k d [a|] [w|]]; cbn in *; auto.
  Qed.

  (* ---- resolving a base class: the object found is one of those kept in the chain *)
  Lemma resolve_good : forall chain b o,
      good_chain chain -> resolve chain b = RClass o -> good_obj o.
  Proof.
    induction chain as [|[c im] chain IH]; cbn; intros b o HG H; [discriminate|].
    inversion HG as [|? ? Hc HG']; subst.
    destruct (lookup b c) as [[| |]|] eqn:E.
    - discriminate.
    - inversion H; subst. apply (Hc b). cbn. apply lookup_In. exact E.
    - discriminate.
    - destruct (lookup b im) as [[?|]|]; try discriminate. eauto.
  Qed.

  Lemma mem_In : forall n l, mem n l = true <-> In n l.
  Proof.
    intros n l. unfold mem. rewrite existsb_exists. split.
    - intros [x [Hx Hx']]. apply text_eqb_eq in Hx'. subst. exact Hx.
    - intro H. exists n. split; auto. apply text_eqb_refl.
  Qed.

  Lemma summary_nonattr : forall c n, In (n, SNonAttr) (summary_of c) -> exists o, In (n, o) c /\ is_attr o = false.
  Proof.
    intros c n H. unfold summary_of in H. apply in_map_iff in H. destruct H as [[m o] [Heq Hin]]. cbn in Heq.
    destruct o; inversion Heq; subst; eauto.
  Qed.

  Lemma inherited_ok : forall chain bs,
      good_chain chain -> inh_ok (flat_map base_inh (map (resolve chain) bs)).
  Proof.
    intros chain bs HG n Hin. apply in_flat_map in Hin. destruct Hin as [r [Hr Hin]].
    apply in_map_iff in Hr. destruct Hr as [b [Hb _]]. subst r.
    destruct (resolve chain b) as [o| |] eqn:E; cbn in Hin; try tauto.
    pose proof (resolve_good _ _ _ HG E) as Hgo. destruct o as [|x d c oo ih|]; cbn in Hin; try tauto.
    destruct Hgo as [Hna Hih]. apply in_app_or in Hin. destruct Hin as [Hin|Hin]; auto.
    apply summary_nonattr in Hin. destruct Hin as [o [Ho Ha]]. eapply Hna; eauto.
  Qed.

  (* ================================================================ the import/alias map only names Python has bound *)
  Definition imps_ok (s : st) (e : env) : Prop := forall n, lookup n (imps s) <> None -> plookup n e <> None.

  Lemma plookup_bind_mono : forall n m v e, plookup n e <> None -> plookup n (bind m v e) <> None.
  Proof. intros n m v e H. rewrite plookup_bind. destruct (text_eqb n m); [discriminate|exact H]. Qed.

  Lemma imps_ok_mono : forall s s' e e',
      imps s' = imps s -> (forall n, plookup n e <> None -> plookup n e' <> None) -> imps_ok s e -> imps_ok s' e'.
  Proof. intros s s' e e' Hi Hm H n Hn. rewrite Hi in Hn. auto. Qed.

  Lemma imps_add_obj : forall n o s, imps (add_obj n o s) = imps s.
  Proof. intros. unfold add_obj. destruct (lookup n (contents s)); reflexivity. Qed.

  Lemma imps_upd_attr : forall n f s, imps (upd_attr n f s) = imps s.
  Proof. intros. unfold upd_attr. destruct (lookup n (contents s)) as [[| |]|]; reflexivity. Qed.

  Lemma imps_attach_doc : forall d s, imps (attach_doc clean d s) = imps s.
  Proof. intros. unfold attach_doc. destruct (cur s); [|reflexivity]. cbn. apply imps_upd_attr. Qed.

  Lemma imps_hiv : forall inc inh a ann expr s, imps (handle_instance_var inc inh a ann expr s) = imps s.
  Proof.
    intros. unfold handle_instance_var. destruct (negb inc); [reflexivity|].
    destruct (negb (maybe_attribute inh (contents s) a)); [reflexivity|].
    destruct (lookup a (contents s)) as [[| |[] d an v]|]; try reflexivity; cbn; rewrite imps_upd_attr; try reflexivity.
    apply imps_add_obj.
  Qed.

  Lemma imps_handle_var : forall default flow n ann expr aug s, imps (handle_var default flow n ann expr aug s) = imps s.
  Proof. intros. unfold handle_var. cbn. apply imps_upd_attr. Qed.

  Lemma imps_handle_module_var : forall flow n ann expr aug s, imps (handle_module_var flow n ann expr aug s) = imps s.
  Proof.
    intros. unfold handle_module_var. destruct (mem n module_meta_vars); [reflexivity|].
    destruct (lookup n (contents s)) as [o|].
    - destruct (is_attr o); [apply imps_handle_var|reflexivity].
    - destruct aug; [reflexivity|]. rewrite imps_handle_var. apply imps_add_obj.
  Qed.

  Lemma imps_handle_class_var : forall inh flow n ann expr aug s, imps (handle_class_var inh flow n ann expr aug s) = imps s.
  Proof.
    intros. unfold handle_class_var. destruct (negb (maybe_attribute inh (contents s) n)); [reflexivity|].
    destruct (lookup n (contents s)) as [o|].
    - apply imps_handle_var.
    - destruct aug; [reflexivity|]. rewrite imps_handle_var. apply imps_add_obj.
  Qed.

  Lemma imps_oldschool : forall n expr s s', oldschool n expr s = Some s' -> imps s' = imps s.
  Proof.
    intros n expr s s' H. unfold oldschool in H. destruct expr as [[| |f [|a [|? ?]]|]|]; try discriminate.
    destruct (text_eqb n a && mem f oldschool_names); [|discriminate].
    destruct (lookup n (contents s)) as [[k a0 d| |]|]; try discriminate. inversion H; reflexivity.
  Qed.

  (* the only way the map grows in an assignment: an alias `n = y` for the target n itself *)
  Lemma imps_handle_assignment : forall sc flow inh chain t ann expr aug s m,
      lookup m (imps (handle_assignment sc flow inh chain t ann expr aug s)) <> None ->
      lookup m (imps s) <> None \/ (t = TName m /\ exists y, expr = Some (RName y)).
  Proof.
    intros sc flow inh chain t ann expr aug s m H. destruct t as [n|ns|a]; cbn [handle_assignment] in H; auto.
    assert (Hal : forall s', aliasing chain n expr s = Some s' -> lookup m (imps s') <> None ->
                             lookup m (imps s) <> None \/ (TName n = TName m /\ exists y, expr = Some (RName y))).
    { intros s' Ha Hm. unfold aliasing in Ha. destruct (lookup n (contents s)); [discriminate|].
      destruct expr as [[| y | |]|]; try discriminate. inversion Ha; subst s'. cbn in Hm.
      destruct (text_eqb m n) eqn:E; auto. apply text_eqb_eq in E. subst. right. eauto. }
    destruct sc.
    - destruct (aliasing chain n expr s) as [s'|] eqn:Ea; [eapply Hal; eauto|].
      rewrite imps_handle_module_var in H. auto.
    - destruct (if aug then None else oldschool n expr s) as [s'|] eqn:Eo.
      + destruct aug; [discriminate|]. rewrite (imps_oldschool _ _ _ _ Eo) in H. auto.
      + destruct (aliasing chain n expr s) as [s'|] eqn:Ea; [eapply Hal; eauto|].
        rewrite imps_handle_class_var in H. auto.
  Qed.

  Lemma fold_imps : forall (f : stmt -> st -> st) body,
      Forall (fun y => forall s, imps (f y s) = imps s) body ->
      forall s, imps (fold_left (fun s y => f y s) body s) = imps s.
  Proof.
    intros f body HF s. apply (fold_preserves (fun s' => imps s' = imps s) f body); auto.
    eapply Forall_impl; [|exact HF]. cbn. intros y Hy s0 Hs0. rewrite Hy. exact Hs0.
  Qed.

  Lemma fwalk_imps : forall x inc inh s, imps (fwalk_stmt clean inc inh x s) = imps s.
  Proof.
    intro x. induction x as [nm ds a body IH|nm bs body IH|ts r|t an r|t r|d|t b o IHb IHo|b h o f IHb IHh IHo IHf|b IHb|t b o IHb IHo|b o IHb IHo|ns|]
      using stmt_ind'; intros inc inh s; cbn [fwalk_stmt]; auto.
    - revert s. induction ts as [|t ts IHts]; cbn; intro s; auto. rewrite IHts. destruct t; auto. apply imps_hiv.
    - destruct t; auto. apply imps_hiv.
    - apply imps_attach_doc.
    - destruct t; auto; apply (fold_imps (fwalk_stmt clean inc inh)); eapply Forall_impl; [|exact IHb| |exact IHb]; cbn; auto.
    - apply (fold_imps (fwalk_stmt clean inc inh)); eapply Forall_impl; [|exact IHb]; cbn; auto.
    - apply (fold_imps (fwalk_stmt clean inc inh)); eapply Forall_impl; [|exact IHb]; cbn; auto.
    - apply (fold_imps (fwalk_stmt clean inc inh)); eapply Forall_impl; [|exact IHb]; cbn; auto.
    - apply (fold_imps (fwalk_stmt clean inc inh)); eapply Forall_impl; [|exact IHb]; cbn; auto.
  Qed.

  (* a suite that binds nothing, generically: whatever attach_doc preserves is preserved *)
  Lemma walk_nonbinding_gen : forall (Q : st -> Prop), (forall d s, Q s -> Q (attach_doc clean d s)) ->
      forall x, nonbinding x = true -> forall sc flow inh outer s, Q s -> Q (walk_stmt clean x sc flow inh outer s).
  Proof.
    intros Q HQ x. induction x as [nm ds a body IH|nm bs body IH|ts r|t an r|t r|d|t b o IHb IHo|b h o f IHb IHh IHo IHf|b IHb|t b o IHb IHo|b o IHb IHo|ns|]
      using stmt_ind'; intros Hnb sc flow inh outer s HS; cbn in Hnb; try discriminate; cbn [walk_stmt]; auto.
    - destruct t; auto; apply andb_true_iff in Hnb; destruct Hnb as [Hb Ho];
        apply (fold_preserves Q (fun y st => walk_stmt clean y sc _ inh outer st)); auto;
        rewrite forallb_forall in Hb; apply Forall_forall; intros y Hy s0 Hs0; rewrite Forall_forall in IHb; apply IHb; auto.
    - repeat (apply andb_true_iff in Hnb; destruct Hnb as [Hnb ?]).
      apply (fold_preserves Q (fun y st => walk_stmt clean y sc _ inh outer st)); auto.
      rewrite forallb_forall in Hnb; apply Forall_forall; intros y Hy s0 Hs0; rewrite Forall_forall in IHb; apply IHb; auto.
    - apply (fold_preserves Q (fun y st => walk_stmt clean y sc _ inh outer st)); auto.
      rewrite forallb_forall in Hnb; apply Forall_forall; intros y Hy s0 Hs0; rewrite Forall_forall in IHb; apply IHb; auto.
    - apply andb_true_iff in Hnb; destruct Hnb as [Hb Ho].
      apply (fold_preserves Q (fun y st => walk_stmt clean y sc _ inh outer st)); auto.
      rewrite forallb_forall in Hb; apply Forall_forall; intros y Hy s0 Hs0; rewrite Forall_forall in IHb; apply IHb; auto.
  Qed.

  Definition imps_step_ok (x : stmt) : Prop :=
    forall sc flow inh outer s e e',
      imps_ok s e -> py_stmt strict x (pscope_of sc) e = Some e' -> imps_ok (walk_stmt clean x sc flow inh outer s) e'.

  Lemma imps_suite : forall body, Forall imps_step_ok body ->
      forall sc flow inh outer s e e',
        imps_ok s e -> ofold (fun y e' => py_stmt strict y (pscope_of sc) e') body e = Some e' ->
        imps_ok (fold_left (fun st y => walk_stmt clean y sc flow inh outer st) body s) e'.
  Proof.
    intros body HF. induction HF as [|y body Hy _ IH]; cbn [fold_left ofold]; intros sc flow inh outer s e e' HI Hpy.
    - inversion Hpy; subst. exact HI.
    - destruct (py_stmt strict y (pscope_of sc) e) as [e1|] eqn:E1; [|discriminate]. eapply IH; eauto.
  Qed.

  Lemma ofold_bind_data_mono : forall ns e e',
      ofold (bind_unpacked strict) ns e = Some e' -> forall n, plookup n e <> None -> plookup n e' <> None.
  Proof.
    induction ns as [|m ns IH]; cbn; intros e e' H n Hn; [inversion H; subst; auto|].
    destruct (bind_unpacked strict m e) as [e1|] eqn:E; [|discriminate]. eapply IH; eauto.
    apply bind_unpacked_inv in E. destruct E as [E _].
    unfold bind_data in E. destruct (mem m py_meta_names); [discriminate|].
    destruct (plookup m e) as [[| | |]|]; inversion E; subst; apply plookup_bind_mono; auto.
  Qed.

  Lemma bind_target_mono : forall v t e e', bind_target strict v t e = Some e' -> forall n, plookup n e <> None -> plookup n e' <> None.
  Proof.
    intros v t e e' H n Hn. destruct t as [m|ns|a]; cbn in H; [|eapply ofold_bind_data_mono; eauto|discriminate].
    assert (Hb : forall w, bind_data m w e = Some e' -> plookup n e' <> None).
    { intros w E. unfold bind_data in E. destruct (mem m py_meta_names); [discriminate|].
      destruct (plookup m e) as [[| | |]|]; inversion E; subst; apply plookup_bind_mono; auto. }
    destruct v; eauto. inversion H; subst. apply plookup_bind_mono; auto.
  Qed.

  Lemma bind_aux_mono : forall m e e', bind_aux m e = Some e' -> (forall n, plookup n e <> None -> plookup n e' <> None) /\ plookup m e' <> None.
  Proof.
    intros m e e' H. unfold bind_aux in H.
    assert (e' = bind m VAux e) by (destruct (plookup m e) as [[| | |]|]; inversion H; reflexivity). subst. split.
    - intros; apply plookup_bind_mono; auto.
    - rewrite plookup_bind, text_eqb_refl. discriminate.
  Qed.

  Theorem imps_step : forall x, imps_step_ok x.
  Proof.
    intro x. induction x as [nm ds a body IH|nm bs body IH|ts r|t an r|t r|d|t b o IHb IHo|b h o f IHb IHh IHo IHf|b IHb|t b o IHb IHo|b o IHb IHo|ns|]
      using stmt_ind'; intros sc flow inh outer s e e' HI Hpy.
    - (* Def *)
      cbn [py_stmt] in Hpy. destruct (def_wrap (pscope_of sc) ds WNone); [|discriminate].
      inversion Hpy; subst.
      eapply imps_ok_mono; [|intros; apply plookup_bind_mono; eassumption|exact HI].
      cbn [walk_stmt]. destruct (f_prop _); cbn; [apply imps_add_obj|].
      unfold fwalk_body. rewrite (fold_imps (fwalk_stmt clean _ inh)); [cbn; apply imps_add_obj|].
      apply Forall_forall. intros; apply fwalk_imps.
    - (* Class *)
      cbn [py_stmt] in Hpy. destruct (bases_exc e bs); [|discriminate].
      destruct (ofold (fun y e'0 => py_stmt strict y PClass e'0) body []); [|discriminate]. inversion Hpy; subst.
      eapply imps_ok_mono; [|intros; apply plookup_bind_mono; eassumption|exact HI].
      cbn [walk_stmt]. cbn. apply imps_add_obj.
    - (* Assign *)
      cbn [py_stmt walk_stmt] in *. destruct (assign_value (pscope_of sc) e ts r) as [v|] eqn:Ev; [|discriminate].
      assert (Hr : forall y, Some r <> Some (RName y)).
      { intros y Hy. inversion Hy; subst. cbn in Ev. discriminate. }
      clear Ev. revert s e HI Hpy. induction ts as [|t ts IHts]; cbn [fold_left ofold]; intros s e HI Hpy.
      + inversion Hpy; subst; exact HI.
      + destruct (bind_target strict v t e) as [e1|] eqn:Eb; [|discriminate]. eapply IHts; [|exact Hpy].
        intros n Hn. eapply bind_target_mono; [exact Eb|]. apply HI.
        destruct t as [m|ms|a0].
        * destruct (imps_handle_assignment _ _ _ _ _ _ _ _ _ _ Hn) as [?|[_ [y Hy]]]; auto. exfalso. eapply Hr; eauto.
        * clear - Hn. revert s Hn. induction ms as [|m ms IHm]; cbn [fold_left]; intros s Hn; auto.
          apply IHm in Hn. destruct (imps_handle_assignment _ _ _ _ _ _ _ _ _ _ Hn) as [?|[_ [y Hy]]]; auto. discriminate.
        * exact Hn.
    - (* AnnAssign *)
      cbn [py_stmt walk_stmt] in *. destruct t as [n| |]; try discriminate. destruct r as [r|]; [|discriminate].
      destruct (assign_value (pscope_of sc) e [TName n] r) as [v|] eqn:Ev; [|discriminate].
      intros m Hm. eapply bind_target_mono; [exact Hpy|]. apply HI.
      destruct (imps_handle_assignment _ _ _ _ _ _ _ _ _ _ Hm) as [?|[_ [y Hy]]]; auto.
      inversion Hy; subst. cbn in Ev. discriminate.
    - (* AugAssign *)
      cbn [py_stmt walk_stmt] in *. destruct t as [n| |]; try discriminate.
      destruct (mem n py_meta_names); [discriminate|]. destruct (plookup n e) as [[| |w|]|] eqn:Ep; try discriminate.
      inversion Hpy; subst. intros m Hm.
      destruct (imps_handle_assignment _ _ _ _ _ _ _ _ _ _ Hm) as [H1|[H1 _]].
      + apply plookup_bind_mono. auto.
      + inversion H1; subst. rewrite plookup_bind, text_eqb_refl. discriminate.
    - (* ExprStr *) cbn in Hpy. inversion Hpy; subst. cbn [walk_stmt]. eapply imps_ok_mono; [apply imps_attach_doc| |exact HI]. auto.
    - (* If *)
      destruct t; cbn [py_stmt walk_stmt] in *.
      + destruct (nonbinding_suite o); inversion Hpy; subst. exact HI.
      + destruct (nonbinding_suite o); [|discriminate]. eapply imps_suite; eauto.
      + destruct (nonbinding_suite b) eqn:Enb; [|discriminate]. destruct (nonbinding_suite o); inversion Hpy; subst.
        apply (fold_preserves (fun s => imps_ok s e') (fun y st => walk_stmt clean y sc _ inh outer st)); auto.
        unfold nonbinding_suite in Enb. rewrite forallb_forall in Enb. apply Forall_forall. intros y Hy s0 Hs0.
        apply (walk_nonbinding_gen (fun s => imps_ok s e')); auto.
        intros d0 s1 H1. eapply imps_ok_mono; [apply imps_attach_doc| |exact H1]. auto.
    - (* Try *)
      cbn [py_stmt walk_stmt] in *. destruct (nonbinding_suite h && nonbinding_suite o && nonbinding_suite f); [|discriminate].
      eapply imps_suite; eauto.
    - (* With *) cbn [py_stmt walk_stmt] in *. eapply imps_suite; eauto.
    - (* For *)
      cbn [py_stmt walk_stmt] in *. destruct (nonbinding_suite o); [|discriminate].
      destruct (bind_aux t e) as [e1|] eqn:Ea; [|discriminate].
      eapply imps_suite; [exact IHb| |exact Hpy]. intros n Hn. apply (proj1 (bind_aux_mono _ _ _ Ea)). auto.
    - (* While *)
      cbn [py_stmt walk_stmt] in *. destruct (nonbinding_suite o); [|discriminate]. eapply imps_suite; eauto.
    - (* Import *)
      cbn [py_stmt walk_stmt] in *. revert s e HI Hpy. induction ns as [|n ns IHn]; cbn; intros s e HI Hpy.
      + inversion Hpy; subst; exact HI.
      + destruct (bind_aux n e) as [e1|] eqn:Ea; [|discriminate]. eapply IHn; [|exact Hpy].
        destruct (bind_aux_mono _ _ _ Ea) as [Hm Hn]. intros m Hl. cbn in Hl.
        destruct (text_eqb m n) eqn:E; [apply text_eqb_eq in E; subst; exact Hn|auto].
    - (* Other *) cbn in Hpy. inversion Hpy; subst. exact HI.
  Qed.

  (* ================================================================ exception classes (module level) *)
  Lemma mem_forall : forall l1 l2, forallb (fun x => mem x l2) l1 = true -> forall b, mem b l1 = true -> mem b l2 = true.
  Proof.
    intros l1 l2 H b Hb. rewrite forallb_forall in H. apply H. apply mem_In. exact Hb.
  Qed.

  (* the regenerated table against CPython's builtin exception hierarchy (3.12): every name of the table is a builtin
     exception class, and every builtin exception class is in the table (since fix 7fd5e3f) *)
  Lemma std_table_sound : forall b, mem b std_lib_exceptions = true -> mem b py_builtin_exceptions = true.
  Proof. apply mem_forall. vm_compute. reflexivity. Qed.

  Lemma std_table_complete : forall b, mem b py_builtin_exceptions = true -> mem b std_lib_exceptions = true.
  Proof. apply mem_forall. vm_compute. reflexivity. Qed.

  Lemma builtin_exc_agree : forall b x, py_builtin_class b = Some x -> mem b std_lib_exceptions = x.
  Proof.
    intros b x H. unfold py_builtin_class in H. destruct (mem b py_builtin_exceptions) eqn:E.
    - inversion H; subst. apply std_table_complete. exact E.
    - destruct (mem b py_builtin_plain); inversion H; subst.
      destruct (mem b std_lib_exceptions) eqn:E2; auto. apply std_table_sound in E2. congruence.
  Qed.

  Lemma base_exc_agree : forall s e b x,
      agree_ns ScModule (contents s) e -> imps_ok s e ->
      base_exc_py e b = Some x -> base_exc (resolve [(contents s, imps s)] b) = x.
  Proof.
    intros s e b x HA HI H. inversion HA as [? ? ? R1 R2 R3 R4]; subst. unfold base_exc_py in H. cbn [resolve].
    destruct (plookup b e) as [v|] eqn:Ep.
    - destruct v as [| x' d' ns | |]; try discriminate. inversion H; subst x'.
      assert (Hd : pdef b e = true) by (unfold pdef; rewrite Ep; reflexivity).
      specialize (R2 b Hd). destruct (lookup b (contents s)) as [o|] eqn:E; [|congruence].
      specialize (R4 _ _ _ E Ep eq_refl). inversion R4; subst. cbn. auto.
    - assert (E : lookup b (contents s) = None).
      { destruct (lookup b (contents s)) as [o|] eqn:E; auto. destruct (R3 _ _ E) as [Hd|[Hsc _]]; [|discriminate].
        unfold pdef in Hd. rewrite Ep in Hd. discriminate. }
      rewrite E.
      assert (Ei : lookup b (imps s) = None).
      { destruct (lookup b (imps s)) eqn:Ei; auto. exfalso. apply (HI b); [rewrite Ei; discriminate|exact Ep]. }
      rewrite Ei. cbn. apply builtin_exc_agree; auto.
  Qed.

  Lemma bases_exc_agree : forall s e bs x,
      agree_ns ScModule (contents s) e -> imps_ok s e ->
      bases_exc e bs = Some x -> existsb base_exc (map (resolve [(contents s, imps s)]) bs) = x.
  Proof.
    intros s e bs. induction bs as [|b bs IH]; cbn [bases_exc map existsb]; intros x HA HI H.
    - inversion H; reflexivity.
    - destruct (base_exc_py e b) as [x1|] eqn:E1; [|discriminate].
      destruct (bases_exc e bs) as [x2|] eqn:E2; [|discriminate]. inversion H; subst.
      rewrite (base_exc_agree _ _ _ _ HA HI E1). rewrite (IH _ HA HI eq_refl). reflexivity.
  Qed.

  (* ================================================================ the simulation, one statement *)
  Definition step_ok (x : stmt) : Prop :=
    forall sc flow inh outer s e e',
      St sc s e -> good_chain outer -> imps_ok s e -> (sc = ScModule -> outer = []) ->
      (forall n, In n (assigned_names x) -> sc = ScClass -> lookup n inh <> Some SNonAttr) ->
      no_inherited_shadow DN x = true -> incl (def_names x) DN ->
      py_stmt strict x (pscope_of sc) e = Some e' ->
      St sc (walk_stmt clean x sc flow inh outer s) e'.

  Lemma suite_step : forall body, Forall step_ok body ->
      forall sc flow inh outer s e e',
        St sc s e -> good_chain outer -> imps_ok s e -> (sc = ScModule -> outer = []) ->
        (forall n, In n (flat_map assigned_names body) -> sc = ScClass -> lookup n inh <> Some SNonAttr) ->
        forallb (no_inherited_shadow DN) body = true -> incl (flat_map def_names body) DN ->
        ofold (fun y e' => py_stmt strict y (pscope_of sc) e') body e = Some e' ->
        St sc (fold_left (fun st y => walk_stmt clean y sc flow inh outer st) body s) e'.
  Proof.
    intros body HF. induction HF as [|y body Hy _ IH]; cbn [fold_left ofold]; intros sc flow inh outer s e e' HS HG HI Hout Hinh Hsh Hdn Hpy.
    - inversion Hpy; subst. exact HS.
    - destruct (py_stmt strict y (pscope_of sc) e) as [e1|] eqn:E1; [|discriminate].
      cbn in Hsh. apply andb_true_iff in Hsh. destruct Hsh as [Hsh1 Hsh2].
      eapply IH; [|exact HG|eapply imps_step; eauto|exact Hout| |exact Hsh2| |exact Hpy].
      + eapply Hy; eauto.
        * intros; apply Hinh; auto. cbn. apply in_or_app. auto.
        * intros n Hn. apply Hdn. cbn. apply in_or_app. auto.
      + intros; apply Hinh; auto. cbn. apply in_or_app. auto.
      + intros n Hn. apply Hdn. cbn. apply in_or_app. auto.
  Qed.

  Lemma St_contents_eq : forall sc s s' e, contents s' = contents s -> cur s' = cur s -> St sc s e -> St sc s' e.
  Proof.
    intros sc s s' e H Hc [HA [HG HC]]. unfold St, cur_ok in *. rewrite H, Hc. auto.
  Qed.

  Lemma bind_aux_St : forall sc s e n e', St sc s e -> bind_aux n e = Some e' -> St sc s e'.
  Proof.
    intros sc s e n e' [HA HG] H. unfold bind_aux in H. split; auto.
    assert (Hp : pdef n e = false /\ e' = bind n VAux e).
    { unfold pdef. destruct (plookup n e) as [[| | |]|]; try discriminate; inversion H; auto. }
    destruct Hp as [Hp He]. subst. apply inv_aux; auto.
  Qed.

  Lemma import_contents : forall ns s, contents (fold_left (fun s n => set_imp n None s) ns s) = contents s
                                       /\ cur (fold_left (fun s n => set_imp n None s) ns s) = cur s.
  Proof. induction ns as [|n ns IH]; cbn; intros s; auto. destruct (IH (set_imp n None s)) as [H1 H2]. rewrite H1, H2. auto. Qed.

  Lemma incl_app_l : forall {X} (a b c : list X), incl (a ++ b) c -> incl a c.
  Proof. intros X a b c H x Hx. apply H. apply in_or_app. auto. Qed.
  Lemma incl_app_r : forall {X} (a b c : list X), incl (a ++ b) c -> incl b c.
  Proof. intros X a b c H x Hx. apply H. apply in_or_app. auto. Qed.

  Theorem step : forall x, step_ok x.
  Proof.
    intro x. induction x as [nm ds a body IH|nm bs body IH|ts r|t an r|t r|d|t b o IHb IHo|b h o f IHb IHh IHo IHf|b IHb|t b o IHb IHo|b o IHb IHo|ns|]
      using stmt_ind'; intros sc flow inh outer s e e' HS HG HI Hout Hinh Hsh Hdn Hpy.
    - (* Def *) eapply St_def; eauto. apply Hdn. cbn. auto.
    - (* Class *)
      cbn [py_stmt] in Hpy.
      destruct (bases_exc e bs) as [xc|] eqn:Eb; [|discriminate].
      destruct (ofold (fun y e'0 => py_stmt strict y PClass e'0) body []) as [ns|] eqn:En; [|discriminate].
      inversion Hpy; subst e'. clear Hpy.
      cbn [walk_stmt].
      set (chain := (contents s, imps s) :: outer).
      set (rs := map (resolve chain) bs).
      set (ih := flat_map base_inh rs).
      set (O1 := OClass (existsb base_exc rs) (clean_doc clean body) [] [] ih).
      pose proof (St_nodup _ _ _ HS) as ND. destruct HS as [HA [HGc HCc]].
      assert (HGchain : good_chain chain).
      { constructor; auto. cbn. exact (proj2 HGc). }
      assert (Hih : inh_ok ih) by (apply inherited_ok; exact HGchain).
      assert (HgO1 : good_obj O1).
      { cbn. split; auto. intros n o []. }
      pose proof (add_obj_upd' nm O1 s ND) as HU1.
      assert (Hnm : In nm DN) by (apply Hdn; cbn; auto).
      assert (HG1 : good_c (contents (add_obj nm O1 s))).
      { eapply good_upd; [exact HGc|exact HU1|exact HgO1|intros _; exact Hnm]. }
      cbn in Hsh. apply andb_true_iff in Hsh. destruct Hsh as [Hsh1 Hsh2].
      (* the class body, walked in a fresh scope *)
      assert (Hinner : St ScClass
                (fold_left (fun st y => walk_stmt clean y ScClass flow ih
                                          ((contents (set_cur None (add_obj nm O1 s)), imps (set_cur None (add_obj nm O1 s))) :: outer) st)
                           body empty_st) ns).
      { eapply (suite_step body IH ScClass); [| | | | |exact Hsh2| |exact En].
        - split; [apply agree_empty|]. split; [split; [intros n o []|intros n o []]|apply cur_ok_none; reflexivity].
        - constructor; auto. cbn. exact (proj2 HG1).
        - intros n Hn. cbn in Hn. congruence.
        - discriminate.
        - intros n Hn _ Hl.
          destruct bs as [|b0 bs']; [cbn in Hl; discriminate|].
          rewrite forallb_forall in Hsh1. specialize (Hsh1 _ Hn).
          apply lookup_In in Hl. apply Hih in Hl. apply mem_In in Hl. rewrite Hl in Hsh1. discriminate.
        - intros n Hn. apply Hdn. cbn. auto. }
      set (inner := fold_left _ body empty_st) in *.
      set (O2 := OClass (existsb base_exc rs) (clean_doc clean body) (infer_all (contents inner)) (old inner) ih).
      cbn [contents set_cur set_contents].
      assert (E1 : lookup nm (contents (add_obj nm O1 s)) = Some O1).
      { rewrite (proj2 (proj1 HU1)). rewrite text_eqb_refl. reflexivity. }
      pose proof (replace_upd nm O2 (add_obj nm O1 s) _ (proj1 (proj1 HU1)) E1) as HU2.
      destruct Hinner as [HAi [HGi _]].
      split; [|split]; cbn [contents]; [| |apply cur_ok_none; reflexivity].
      + eapply inv_point; [exact HA|eapply upd_fun_trans; [exact (proj1 HU1)|exact (proj1 HU2)]| |reflexivity].
        constructor; [reflexivity|apply agree_infer_all; exact HAi|].
        intros Hsc. subst sc. specialize (Hout eq_refl). subst outer. subst rs chain. apply (bases_exc_agree s e bs xc HA HI Eb).
      + eapply good_upd; [exact HG1|exact HU2| |intros _; exact Hnm].
        cbn. split; auto. apply nonattr_infer_all. exact (proj1 HGi).
    - (* Assign *) eapply St_assign; eauto.
    - (* AnnAssign *) eapply St_annassign; eauto.
    - (* AugAssign *) eapply St_augassign; eauto.
    - (* ExprStr *) cbn in Hpy. inversion Hpy; subst. cbn [walk_stmt]. apply St_attach_doc. exact HS.
    - (* If *)
      cbn in Hsh. apply andb_true_iff in Hsh. destruct Hsh as [Hsb Hso]. cbn [def_names assigned_names] in *.
      destruct t; cbn [py_stmt walk_stmt] in *.
      + destruct (nonbinding_suite o); inversion Hpy; subst. exact HS.
      + destruct (nonbinding_suite o); [|discriminate].
        eapply (suite_step b IHb sc _ inh outer s e e');
          [exact HS|exact HG|exact HI|exact Hout|intros; apply Hinh; auto; apply in_or_app; auto|exact Hsb|eapply incl_app_l; exact Hdn|exact Hpy].
      + destruct (nonbinding_suite b) eqn:Enb; [|discriminate]. destruct (nonbinding_suite o); inversion Hpy; subst.
        eapply nb_suite; eauto. apply Forall_forall. intros y _ Hy. apply walk_nonbinding. exact Hy.
    - (* Try *)
      cbn in Hsh. apply andb_true_iff in Hsh. destruct Hsh as [Hsh Hsf]. apply andb_true_iff in Hsh. destruct Hsh as [Hsh Hso].
      apply andb_true_iff in Hsh. destruct Hsh as [Hsb Hsh].
      cbn [def_names assigned_names py_stmt walk_stmt] in *.
      destruct (nonbinding_suite h && nonbinding_suite o && nonbinding_suite f); [|discriminate].
      eapply (suite_step b IHb sc _ inh outer s e e');
        [exact HS|exact HG|exact HI|exact Hout|intros; apply Hinh; auto; apply in_or_app; auto|exact Hsb|eapply incl_app_l; exact Hdn|exact Hpy].
    - (* With *)
      cbn [no_inherited_shadow def_names assigned_names py_stmt walk_stmt] in *.
      eapply (suite_step b IHb sc _ inh outer s e e'); [exact HS|exact HG|exact HI|exact Hout|exact Hinh|exact Hsh|exact Hdn|exact Hpy].
    - (* For *)
      cbn in Hsh. apply andb_true_iff in Hsh. destruct Hsh as [Hsb Hso]. cbn [def_names assigned_names py_stmt walk_stmt] in *.
      destruct (nonbinding_suite o); [|discriminate].
      destruct (bind_aux t e) as [e1|] eqn:Ea; [|discriminate].
      eapply (suite_step b IHb sc _ inh outer s e1 e');
        [eapply bind_aux_St; eauto|exact HG|intros n0 Hn0; apply (proj1 (bind_aux_mono _ _ _ Ea)); auto|exact Hout|intros; apply Hinh; auto; apply in_or_app; auto|exact Hsb|eapply incl_app_l; exact Hdn|exact Hpy].
    - (* While *)
      cbn in Hsh. apply andb_true_iff in Hsh. destruct Hsh as [Hsb Hso]. cbn [def_names assigned_names py_stmt walk_stmt] in *.
      destruct (nonbinding_suite o); [|discriminate].
      eapply (suite_step b IHb sc _ inh outer s e e');
        [exact HS|exact HG|exact HI|exact Hout|intros; apply Hinh; auto; apply in_or_app; auto|exact Hsb|eapply incl_app_l; exact Hdn|exact Hpy].
    - (* Import *)
      cbn [py_stmt walk_stmt] in *. apply (St_contents_eq sc s); [apply import_contents|apply import_contents|].
      clear - HS Hpy. revert e HS Hpy. induction ns as [|n ns IHn]; cbn; intros e HS Hpy.
      + inversion Hpy; subst; exact HS.
      + destruct (bind_aux n e) as [e1|] eqn:Ea; [|discriminate]. eapply IHn; [|exact Hpy]. eapply bind_aux_St; eauto.
    - (* Other *) cbn in Hpy. inversion Hpy; subst. exact HS.
  Qed.
End Sim.

(* ================================================================ post-processing keeps the agreement *)
Scheme agree_obj_min := Minimality for agree_obj Sort Prop
  with agree_ns_min := Minimality for agree_ns Sort Prop.

Lemma post_obj_ivar : forall inh n o, is_ivar_obj o = true -> is_ivar_obj (post_obj inh n o) = true.
Proof. intros inh n o H. destruct o as [| |k d a v]; try discriminate. destruct k; try discriminate. exact H. Qed.

Lemma post_agree : forall clean vals,
    (forall sc o v, agree_obj clean vals sc o v -> forall inh n, agree_obj clean vals sc (post_obj inh n o) v) /\
    (forall sc c e, agree_ns clean vals sc c e -> forall inh, agree_ns clean vals sc (post_contents inh c) e).
Proof.
  intros clean vals.
  assert (H : forall sc, (forall o v, agree_obj clean vals sc o v -> forall inh n, agree_obj clean vals sc (post_obj inh n o) v)
                         /\ (forall c e, agree_ns clean vals sc c e -> forall inh, agree_ns clean vals sc (post_contents inh c) e)).
  2: { split; intros sc; apply (H sc). }
  intro sc0.
  assert (Hobj : forall sc o v, agree_obj clean vals sc o v -> forall inh n, agree_obj clean vals sc (post_obj inh n o) v).
  { apply (agree_obj_min clean vals
             (fun sc o v => forall inh n, agree_obj clean vals sc (post_obj inh n o) v)
             (fun sc c e => forall inh, agree_ns clean vals sc (post_contents inh c) e)).
    - intros sc k a d w d' Hk Hd inh n. cbn. constructor; auto.
    - intros d an va a d' Hd inh n. cbn. constructor; auto.
    - intros sc x d c oo ih x' d' ns Hd _ IH Hx inh n. cbn. constructor; auto. apply (IH ih).
    - intros sc k d an va v Hk Hvr inh n. cbn. destruct k; try (constructor; assumption).
      destruct (inherits_ivar inh n); constructor; try discriminate; try assumption. intros _; left; reflexivity.
    - intros sc c e R1 R2 R3 R4 IH4 inh. unfold post_contents. constructor.
      + rewrite (keys_map (post_obj inh)). exact R1.
      + intros n Hn. rewrite (lookup_map (post_obj inh)). specialize (R2 n Hn). destruct (lookup n c); congruence.
      + intros n o Hl. rewrite (lookup_map (post_obj inh)) in Hl. destruct (lookup n c) as [o0|] eqn:E; [|discriminate].
        inversion Hl; subst. destruct (R3 _ _ E) as [?|[? ?]]; auto using post_obj_ivar.
      + intros n o v Hl Hp Ha. rewrite (lookup_map (post_obj inh)) in Hl. destruct (lookup n c) as [o0|] eqn:E; [|discriminate].
        inversion Hl; subst. eapply IH4; eauto. }
  split; [apply Hobj|].
  intros c e Hns inh. inversion Hns as [? ? ? R1 R2 R3 R4]; subst. unfold post_contents. constructor.
  - rewrite (keys_map (post_obj inh)). exact R1.
  - intros n Hn. rewrite (lookup_map (post_obj inh)). specialize (R2 n Hn). destruct (lookup n c); congruence.
  - intros n o Hl. rewrite (lookup_map (post_obj inh)) in Hl. destruct (lookup n c) as [o0|] eqn:E; [|discriminate].
    inversion Hl; subst. destruct (R3 _ _ E) as [?|[? ?]]; auto using post_obj_ivar.
  - intros n o v Hl Hp Ha. rewrite (lookup_map (post_obj inh)) in Hl. destruct (lookup n c) as [o0|] eqn:E; [|discriminate].
    inversion Hl; subst. apply Hobj. eauto.
Qed.

(* ================================================================ the whole module *)
Theorem module_simulation_gen : forall clean vals strict prog e,
    (vals = true -> strict = true) ->
    py_body strict PModule prog [] = Some e -> shadow_guard prog = true ->
    agree_ns clean vals ScModule (m_contents (doc_walk clean prog)) e.
Proof.
  intros clean vals strict prog e Hvs Hpy Hg. unfold doc_walk, doc_walk_raw, walk_body. cbn [m_contents].
  apply (proj2 (post_agree clean vals)). apply agree_infer_all.
  pose (DN := flat_map def_names prog).
  assert (HS : St clean vals DN ScModule
                  (fold_left (fun st y => walk_stmt clean y ScModule false [] [] st) prog empty_st) e).
  { eapply (suite_step clean vals strict Hvs DN prog); try exact Hpy.
    - apply Forall_forall. intros x _. apply (step clean vals strict Hvs).
    - split; [apply agree_empty|]. split; [split; intros n o []|apply cur_ok_none; reflexivity].
    - constructor.
    - intros n Hn. cbn in Hn. congruence.
    - reflexivity.
    - intros n _ Hsc. discriminate.
    - exact Hg.
    - apply incl_refl. }
  exact (proj1 HS).
Qed.

Theorem module_simulation : forall clean prog e,
    py_exec prog = Some e -> shadow_guard prog = true ->
    agree_ns clean false ScModule (m_contents (doc_walk clean prog)) e.
Proof. intros clean prog e. apply (module_simulation_gen clean false false). intro; discriminate. Qed.

(* ---- reading the relation ---------------------------------------------------------------------------- *)
Lemma lookup_keys : forall {X} n (l : list (name * X)), In n (keys l) <-> lookup n l <> None.
Proof.
  intros X n l. pose proof (lookup_none_notin n l) as H. split; intro H1.
  - intro H2. apply H in H2. contradiction.
  - destruct (in_dec (list_eq_dec N.eq_dec) n (keys l)) as [Hi|Hi]; auto. apply H in Hi. contradiction.
Qed.

Lemma agree_keys_module : forall clean vals c e,
    agree_ns clean vals ScModule c e -> NoDup (keys c) /\ forall n, In n (keys c) <-> pdef n e = true.
Proof.
  intros clean vals c e H. inversion H as [? ? ? R1 R2 R3 R4]; subst. split; auto.
  intro n. rewrite lookup_keys. split.
  - intro Hn. destruct (lookup n c) as [o|] eqn:E; [|congruence]. destruct (R3 _ _ E) as [?|[? _]]; [auto|discriminate].
  - apply R2.
Qed.

Lemma agree_keys_class : forall clean vals c e,
    agree_ns clean vals ScClass c e ->
    NoDup (keys c) /\ (forall n, pdef n e = true -> In n (keys c)) /\
    (forall n o, lookup n c = Some o -> pdef n e = true \/ is_ivar_obj o = true).
Proof.
  intros clean vals c e H. inversion H as [? ? ? R1 R2 R3 R4]; subst. split; [auto|split].
  - intros n Hn. apply lookup_keys. auto.
  - intros n o Hl. destruct (R3 _ _ Hl) as [?|[_ ?]]; auto.
Qed.

Lemma agree_entry : forall clean vals sc c e n o v,
    agree_ns clean vals sc c e -> lookup n c = Some o -> plookup n e = Some v -> is_aux v = false -> agree_obj clean vals sc o v.
Proof. intros clean vals sc c e n o v H. inversion H; subst. eauto. Qed.

Lemma agree_reach : forall clean vals c e sc c' e',
    agree_ns clean vals ScModule c e -> ns_at c e sc c' e' -> agree_ns clean vals sc c' e'.
Proof.
  intros clean vals c e sc c' e' H Hr. induction Hr as [|sc c1 e1 n x d c2 oo ih x' d' e2 Hr IH Hl Hp]; auto.
  pose proof (agree_entry _ _ _ _ _ _ _ _ IH Hl Hp eq_refl) as Ho. inversion Ho; subst. assumption.
Qed.

Lemma agree_kind_ok : forall clean vals sc o v, agree_obj clean vals sc o v -> kind_ok sc o v /\ doc_ok clean o v.
Proof.
  intros clean vals sc o v H. inversion H; subst; cbn; auto; try (destruct k; auto; contradiction).
Qed.

Theorem names_agree : forall clean prog e sc c' e',
    py_exec prog = Some e -> shadow_guard prog = true ->
    ns_at (m_contents (doc_walk clean prog)) e sc c' e' ->
    NoDup (keys c') /\
    (forall n, pdef n e' = true -> In n (keys c')) /\
    (forall n, In n (keys c') -> pdef n e' = true \/ (sc = ScClass /\ exists o, lookup n c' = Some o /\ is_ivar_obj o = true)).
Proof.
  intros clean prog e sc c' e' Hpy Hg Hr.
  pose proof (agree_reach _ _ _ _ _ _ _ (module_simulation clean prog e Hpy Hg) Hr) as H.
  inversion H as [? ? ? R1 R2 R3 R4]; subst. split; [auto|split].
  - intros n Hn. apply lookup_keys. auto.
  - intros n Hn. apply lookup_keys in Hn. destruct (lookup n c') as [o|] eqn:E; [|congruence].
    destruct (R3 _ _ E) as [?|[? ?]]; eauto.
Qed.

Theorem kinds_agree : forall clean prog e sc c' e' n o v,
    py_exec prog = Some e -> shadow_guard prog = true ->
    ns_at (m_contents (doc_walk clean prog)) e sc c' e' ->
    lookup n c' = Some o -> plookup n e' = Some v -> is_aux v = false ->
    kind_ok sc o v /\ doc_ok clean o v.
Proof.
  intros clean prog e sc c' e' n o v Hpy Hg Hr Hl Hp Ha.
  pose proof (agree_reach _ _ _ _ _ _ _ (module_simulation clean prog e Hpy Hg) Hr) as H.
  apply (agree_kind_ok clean false). eapply agree_entry; eauto.
Qed.

(* a Python class is documented as a class, so every class namespace of the program is reached by ns_at *)
Theorem classes_reached : forall clean prog e sc c' e' n x' d' e2,
    py_exec prog = Some e -> shadow_guard prog = true ->
    ns_at (m_contents (doc_walk clean prog)) e sc c' e' -> plookup n e' = Some (VClass x' d' e2) ->
    exists x d c2 oo ih, lookup n c' = Some (OClass x d c2 oo ih).
Proof.
  intros clean prog e sc c' e' n x' d' e2 Hpy Hg Hr Hp.
  pose proof (agree_reach _ _ _ _ _ _ _ (module_simulation clean prog e Hpy Hg) Hr) as H.
  inversion H as [? ? ? R1 R2 R3 R4]; subst.
  assert (Hd : pdef n e' = true) by (unfold pdef; rewrite Hp; reflexivity).
  specialize (R2 n Hd). destruct (lookup n c') as [o|] eqn:E; [|congruence].
  specialize (R4 _ _ _ E Hp eq_refl). inversion R4; subst. eauto 8.
Qed.

(* the literal pydoctor remembers for a variable is the literal whose value Python has bound to it (strict subset) *)
Theorem stored_literal_is_bound : forall clean prog e sc c' e' n k d an l pv,
    py_exec_strict prog = Some e -> shadow_guard prog = true ->
    ns_at (m_contents (doc_walk clean prog)) e sc c' e' ->
    lookup n c' = Some (OAttr k d an (Some (AvLit l))) -> k <> KInstanceVar ->
    plookup n e' = Some (VData pv) -> pv = Some l.
Proof.
  intros clean prog e sc c' e' n k d an l pv Hpy Hg Hr Hl Hk Hp.
  assert (Hm : agree_ns clean true ScModule (m_contents (doc_walk clean prog)) e).
  { apply (module_simulation_gen clean true true); auto. }
  pose proof (agree_reach _ _ _ _ _ _ _ Hm Hr) as H.
  pose proof (agree_entry _ _ _ _ _ _ _ _ H Hl Hp eq_refl) as Ho. inversion Ho; subst.
  match goal with Hv : true = true -> val_rel _ _ _ |- _ => destruct (Hv eq_refl) as [?|Hv'] end; [contradiction|auto].
Qed.

Lemma py_strict_lax : forall x sc e e', py_stmt true x sc e = Some e' -> py_stmt false x sc e = Some e'.
Proof.
  assert (Hof : forall (body : list stmt) (sc : pscope),
             Forall (fun x => forall sc e e', py_stmt true x sc e = Some e' -> py_stmt false x sc e = Some e') body ->
             forall e e', ofold (fun y e0 => py_stmt true y sc e0) body e = Some e' -> ofold (fun y e0 => py_stmt false y sc e0) body e = Some e').
  { intros body sc HF. induction HF as [|y body Hy _ IH]; cbn [ofold]; intros e e' H; auto.
    destruct (py_stmt true y sc e) as [e1|] eqn:E; [|discriminate]. rewrite (Hy _ _ _ E). auto. }
  assert (Hun : forall ns e e', ofold (bind_unpacked true) ns e = Some e' -> ofold (bind_unpacked false) ns e = Some e').
  { induction ns as [|n ns IH]; cbn [ofold]; intros e e' H; auto.
    destruct (bind_unpacked true n e) as [e1|] eqn:E; [|discriminate].
    assert (E' : bind_unpacked false n e = Some e1).
    { unfold bind_unpacked in *. cbn in *. destruct (literal_bound n e); [discriminate|exact E]. }
    rewrite E'. auto. }
  assert (Hbt : forall v t e e', bind_target true v t e = Some e' -> bind_target false v t e = Some e').
  { intros v t e e' H. destruct t; cbn in *; auto. }
  assert (Hts : forall v ts e e', ofold (bind_target true v) ts e = Some e' -> ofold (bind_target false v) ts e = Some e').
  { induction ts as [|t ts IH]; cbn [ofold]; intros e e' H; auto.
    destruct (bind_target true v t e) as [e1|] eqn:E; [|discriminate]. rewrite (Hbt _ _ _ _ E). auto. }
  intro x. induction x as [nm ds a body IH|nm bs body IH|ts r|t an r|t r|d|t b o IHb IHo|b h o f IHb IHh IHo IHf|b IHb|t b o IHb IHo|b o IHb IHo|ns|]
    using stmt_ind'; intros sc e e' H; cbn [py_stmt] in *; auto.
  - destruct (bases_exc e bs); [|discriminate].
    destruct (ofold (fun y e0 => py_stmt true y PClass e0) body []) as [ns|] eqn:E; [|discriminate].
    rewrite (Hof _ _ IH _ _ E). exact H.
  - destruct (assign_value sc e ts r); [|discriminate]. auto.
  - destruct t; auto. destruct (nonbinding_suite o); [|discriminate]. apply (Hof _ _ IHb). exact H.
  - destruct (nonbinding_suite h && nonbinding_suite o && nonbinding_suite f); [|discriminate]. apply (Hof _ _ IHb). exact H.
  - destruct (nonbinding_suite o); [|discriminate]. destruct (bind_aux t e); [|discriminate]. apply (Hof _ _ IHb). exact H.
  - destruct (nonbinding_suite o); [|discriminate]. apply (Hof _ _ IHb). exact H.
Qed.

Lemma py_exec_strict_lax : forall prog e, py_exec_strict prog = Some e -> py_exec prog = Some e.
Proof.
  intros prog e. unfold py_exec_strict, py_exec, py_body. generalize (@nil (name * pyval)) as e0. revert e.
  induction prog as [|x prog IH]; cbn; intros e e0 H; auto.
  destruct (py_stmt true x PModule e0) as [e1|] eqn:E; [|discriminate]. rewrite (py_strict_lax _ _ _ _ E). auto.
Qed.

(* ================================================================ attribute docstrings (builder.currentAttr) *)
Definition not_name (r : rhs) : Prop := match r with RName _ => False | _ => True end.

(* a string statement right after `n = <expr>` at module level becomes the docstring of n *)
Lemma attr_doc_after_assign : forall clean flow inh outer n r d s,
    NoDup (keys (contents s)) -> mem n module_meta_vars = false -> not_name r ->
    (forall o, lookup n (contents s) = Some o -> is_attr o = true) ->
    let s1 := walk_stmt clean (Assign [TName n] r) ScModule flow inh outer s in
    cur s1 = Some n /\
    exists k a v, lookup n (contents (walk_stmt clean (ExprStr d) ScModule flow inh outer s1)) = Some (OAttr k (Some (clean d)) a v).
Proof.
  intros clean flow inh outer n r d s ND Hm Hr Hat. cbn [walk_stmt fold_left handle_assignment].
  assert (Hal : aliasing outer n (Some r) s = None).
  { unfold aliasing. destruct (lookup n (contents s)); auto. destruct r; auto; contradiction. }
  rewrite Hal. unfold handle_module_var. rewrite Hm.
  assert (Hgen : forall s0 k0 d0 a0 v0, NoDup (keys (contents s0)) -> lookup n (contents s0) = Some (OAttr k0 d0 a0 v0) ->
            let s1 := handle_var KVariable flow n None (Some r) false s0 in
            cur s1 = Some n /\ exists k a v, lookup n (contents (attach_doc clean d s1)) = Some (OAttr k (Some (clean d)) a v)).
  { intros s0 k0 d0 a0 v0 ND0 E0. unfold handle_var. cbn [cur set_cur]. split; [reflexivity|].
    set (f := fun k (d1 : option text) a v => OAttr (handle_constant n flow KVariable k v (Some r)) d1 (set_ann a None) (store_value v (Some r) false)).
    destruct (upd_attr_upd n f s0 k0 d0 a0 v0 ND0 E0) as [[ND1 L1] _].
    unfold attach_doc. cbn [cur set_cur].
    set (s2 := set_cur (Some n) (upd_attr n f s0)).
    assert (E2 : lookup n (contents s2) = Some (f k0 d0 a0 v0)) by (cbn; rewrite L1, text_eqb_refl; reflexivity).
    set (g := fun k (_ : option text) a v => OAttr k (Some (clean d)) a v).
    destruct (upd_attr_upd n g s2 _ _ _ _ ND1 E2) as [[_ L2] _].
    cbn [contents set_cur]. rewrite L2, text_eqb_refl. subst f g. cbn. eexists. eexists. eexists. reflexivity. }
  destruct (lookup n (contents s)) as [o|] eqn:E.
  - specialize (Hat o eq_refl). rewrite Hat. destruct o as [| |k0 d0 a0 v0]; try discriminate. eapply Hgen; eauto.
  - destruct (add_obj_upd n (OAttr KVariable None None None) s ND) as [[ND1 L1] _].
    eapply Hgen; [exact ND1|]. rewrite L1, text_eqb_refl. reflexivity.
Qed.

(* a string statement after a def (property or not: fix fbfbc45), or after a class, is nobody's docstring *)
Lemma string_after_def_ignored : forall clean sc flow inh outer nm ds a body d s,
    let s1 := walk_stmt clean (Def nm ds a body) sc flow inh outer s in
    walk_stmt clean (ExprStr d) sc flow inh outer s1 = s1.
Proof. intros clean sc flow inh outer nm ds a body d s. cbn [walk_stmt]. destruct (f_prop _); reflexivity. Qed.

Lemma string_after_class_ignored : forall clean sc flow inh outer nm bs body d s,
    let s1 := walk_stmt clean (Class nm bs body) sc flow inh outer s in
    walk_stmt clean (ExprStr d) sc flow inh outer s1 = s1.
Proof. intros. reflexivity. Qed.

(* an augmented assignment to a documented variable ends the docstring window *)
Lemma string_after_augassign_ignored : forall clean flow inh outer n r d s k0 d0 a0 v0,
    mem n module_meta_vars = false -> lookup n (contents s) = Some (OAttr k0 d0 a0 v0) ->
    let s1 := walk_stmt clean (AugAssign (TName n) r) ScModule flow inh outer s in
    walk_stmt clean (ExprStr d) ScModule flow inh outer s1 = s1.
Proof.
  intros clean flow inh outer n r d s k0 d0 a0 v0 Hm E. cbn [walk_stmt handle_assignment].
  unfold aliasing. rewrite E. unfold handle_module_var. rewrite Hm, E. cbn [is_attr]. reflexivity.
Qed.
