(* Proofs/PrivacyIRProofs.v -- the interpretation of the body of System.privacyClass translated from the CURRENT
   pydoctor/model.py (Gen/PrivacyCode.v) is the hand-written Model/Privacy.v : system_privacyClass, for every rule
   list, cache and object.

   The script executes the generated term (it does not mention its shape): statements are unfolded one at a time,
   lookups are resolved from what is known about the environment, and it splits on what execution meets (the cache
   entry, the kind, the underscore tests, the outcome of a search loop).  A `for a, b in reversed(rules): if TEST: ...`
   loop is replaced by what it computes with the semantic lemma `for_search` (whatever the text of TEST and of the
   statements under it, provided a miss leaves the loop body without effect and a hit does not fall through). *)
From Coq Require Import NArith List Bool Lia.
From PydoctorVerif Require Import Base.Sexp Spec.ReFrag Spec.PrivacySpec Model.QnMatch Model.Privacy Model.PrivacyIR
  Gen.PrivacyCode.
Import ListNotations.
Local Open Scope N_scope.

(* ------------------------------------------------------------------ searching a rule list *)
Inductive hit : Type := NoHit | Hit (p : priv) (m : text) | Raised (x : err).

Fixpoint search (test : text -> outcome bool) (l : list rule) : hit :=
  match l with
  | [] => NoHit
  | (p, m) :: r =>
    match test m with
    | Ok true => Hit p m
    | Ok false => search test r
    | Err x => Raised x
    end
  end.

Lemma find_exact_search : forall l full,
  find_exact l full = match search (fun m => Ok (text_eqb full m)) l with Hit p _ => Some p | _ => None end.
Proof.
  induction l as [|[p m] r IH]; intros full; cbn [find_exact search]; [reflexivity|].
  destruct (text_eqb full m); [reflexivity|apply IH].
Qed.

Lemma find_pattern_search : forall l full,
  find_pattern l full =
  match search (qnmatch full) l with Hit p _ => Ok (Some p) | NoHit => Ok None | Raised x => Err x end.
Proof.
  induction l as [|[p m] r IH]; intros full; cbn [find_pattern search]; [reflexivity|].
  destruct (qnmatch full m) as [[|]|x]; cbn [bind]; [reflexivity|apply IH|reflexivity].
Qed.

Lemma search_hit : forall test l p m, search test l = Hit p m -> test m = Ok true.
Proof.
  induction l as [|[q k] r IH]; intros p m H; cbn [search] in H; [discriminate|].
  destruct (test k) as [[|]|x] eqn:E; [injection H as <- <-; exact E|now apply (IH p m)|discriminate].
Qed.

Lemma search_ok_never_raises : forall (f : text -> bool) l x, search (fun m => Ok (f m)) l <> Raised x.
Proof.
  induction l as [|[q k] r IH]; intros x; cbn [search]; [discriminate|].
  destruct (f k); [discriminate|apply IH].
Qed.

(* ------------------------------------------------------------------ the search loop *)
Definition frame2 (x1 x2 : pvar) (E E0 : penv) : Prop := forall v, v <> x1 -> v <> x2 -> E v = E0 v.

Definition unbreak (r : presult) : presult :=
  match r with QBreak e c => QNormal e c | r => r end.

Definition bind2 (E : penv) (x1 x2 : pvar) (p : priv) (m : text) : penv := pset (pset E x1 (PLevel p)) x2 (PStr m).

Lemma frame2_bind : forall x1 x2 E E0 p m, frame2 x1 x2 E E0 -> frame2 x1 x2 (bind2 E x1 x2 p m) E0.
Proof.
  intros x1 x2 E E0 p m H v H1 H2. unfold bind2, pset.
  destruct (N.eqb_spec x2 v); [congruence|]. destruct (N.eqb_spec x1 v); [congruence|]. now apply H.
Qed.

Lemma for_search : forall (body orelse : penv -> cache -> presult) x1 x2 (test : text -> outcome bool) (E0 : penv) c,
  (forall E p m, frame2 x1 x2 E E0 ->
     match test m with
     | Ok false => body (bind2 E x1 x2 p m) c = QNormal (bind2 E x1 x2 p m) c
     | Ok true => forall e' c', body (bind2 E x1 x2 p m) c <> QNormal e' c'
     | Err x => body (bind2 E x1 x2 p m) c = QErr x c
     end) ->
  forall l E, frame2 x1 x2 E E0 ->
  exists E', frame2 x1 x2 E' E0 /\
    for_loop body orelse x1 x2 l E c =
    match search test l with
    | NoHit => orelse E' c
    | Hit p m => unbreak (body (bind2 E' x1 x2 p m) c)
    | Raised x => QErr x c
    end.
Proof.
  intros body orelse x1 x2 test E0 c Hstep. induction l as [|[p m] r IH]; intros E HF.
  - exists E. split; [assumption|reflexivity].
  - cbn [for_loop search]. fold (bind2 E x1 x2 p m). specialize (Hstep E p m HF).
    destruct (test m) as [[|]|x].
    + exists E. split; [assumption|].
      destruct (body (bind2 E x1 x2 p m) c) as [e' c'|e' c'|v c'|z c'] eqn:Eb; try reflexivity.
      exfalso. now apply (Hstep e' c').
    + rewrite Hstep. apply IH. now apply frame2_bind.
    + rewrite Hstep. exists E. split; [assumption|reflexivity].
Qed.

(* ------------------------------------------------------------------ symbolic execution *)
Lemma pset_lookup : forall e x v y, pset e x v y = if N.eqb x y then Some v else e y.
Proof. reflexivity. Qed.
Lemma bind2_lookup : forall E x1 x2 p m y,
  bind2 E x1 x2 p m y = if N.eqb x2 y then Some (PStr m) else if N.eqb x1 y then Some (PLevel p) else E y.
Proof. reflexivity. Qed.

Section Steps.
  Variable opts : list rule.
  Variable o : obj.
  Notation pexec := (pexec opts o).
  Notation peval := (peval opts o).

  Lemma pexec_skip : forall e c, pexec PSkip e c = QNormal e c. Proof. reflexivity. Qed.
  Lemma pexec_seq : forall a b e c, pexec (PSeq a b) e c = match pexec a e c with QNormal e' c' => pexec b e' c' | r => r end.
  Proof. reflexivity. Qed.
  Lemma pexec_assign : forall x a e c, pexec (PAssign x a) e c = match peval c e a with Ok v => QNormal (pset e x v) c | Err z => QErr z c end.
  Proof. reflexivity. Qed.
  Lemma pexec_if : forall t th el e c, pexec (PIf t th el) e c =
    match bind (peval c e t) p_bool with Ok true => pexec th e c | Ok false => pexec el e c | Err z => QErr z c end.
  Proof. reflexivity. Qed.
  Lemma pexec_for : forall x1 x2 rs body orelse e c, pexec (PForRev x1 x2 rs body orelse) e c =
    match peval c e rs with
    | Ok (PRules l) => for_loop (pexec body) (pexec orelse) x1 x2 (rev l) e c
    | Ok _ => QErr Unsupported c
    | Err z => QErr z c
    end.
  Proof. reflexivity. Qed.
  Lemma pexec_break : forall e c, pexec PBreak e c = QBreak e c. Proof. reflexivity. Qed.
  Lemma pexec_return : forall a e c, pexec (PReturn a) e c = match peval c e a with Ok v => QReturn v c | Err z => QErr z c end.
  Proof. reflexivity. Qed.
  Lemma pexec_cacheset : forall k v e c, pexec (PCacheSet k v) e c =
    match peval c e k, peval c e v with
    | Ok (PStr s), Ok (PLevel p) => QNormal e ((s, p) :: c)
    | Err z, _ => QErr z c
    | _, Err z => QErr z c
    | _, _ => QErr Unsupported c
    end.
  Proof. reflexivity. Qed.
  Lemma pexec_call : forall x params body args e c, pexec (PAssignCall x params body args) e c =
    match pevals opts o c e args with
    | Err z => QErr z c
    | Ok vs =>
      match bind_params penv0 params vs with
      | None => QErr Unsupported c
      | Some e0 =>
        match pexec body e0 c with
        | QReturn v c' => QNormal (pset e x v) c'
        | QErr z c' => QErr z c'
        | _ => QErr Unsupported c
        end
      end
    end.
  Proof. reflexivity. Qed.
End Steps.

Ltac px := repeat first [ rewrite pexec_seq | rewrite pexec_assign | rewrite pexec_if | rewrite pexec_break
                        | rewrite pexec_return | rewrite pexec_cacheset | rewrite pexec_call | rewrite pexec_skip ];
           cbv beta iota delta [peval bind p_str p_bool pstuck pevals bind_params unbreak penv0];
           cbn [N.eqb Pos.eqb negb andb orb].

Ltac plk1 :=
  match goal with
  | H : ?E ?v = Some _ |- context [?E ?v] => rewrite H
  | H : forall v, v <> ?x1 -> v <> ?x2 -> ?E v = _ |- context [?E ?w] => is_var E; rewrite (H w) by (intro; discriminate)
  end.

Ltac pknown :=
  match goal with
  | H : text_eqb ?a ?b = _ |- context [text_eqb ?a ?b] => rewrite H
  | H : qnmatch ?a ?b = _ |- context [qnmatch ?a ?b] => rewrite H
  end.

Ltac pstep := first [ rewrite pset_lookup; cbn [N.eqb Pos.eqb] | rewrite bind2_lookup; cbn [N.eqb Pos.eqb] | plk1 | pknown ].
Ltac prun := repeat (px; repeat pstep).

Ltac pcontra :=
  match goal with
  | H : search (fun m => Ok _) _ = Raised _ |- _ => exfalso; exact (search_ok_never_raises _ _ _ H)
  | H : Some _ = None |- _ => discriminate H
  | H : None = Some _ |- _ => discriminate H
  end.

(* a search loop met during execution: try the two tests the model knows *)
Ltac pfor_with opts o test :=
  match goal with
  | |- context [for_loop ?body ?orelse ?x1 ?x2 ?l ?E ?c] =>
    let Hs := fresh "Hstep" in let E' := fresh "E" in let HF := fresh "HF" in let HL := fresh "HL" in
    assert (Hs : forall E1 p m, frame2 x1 x2 E1 E ->
                 match test m with
                 | Ok false => body (bind2 E1 x1 x2 p m) c = QNormal (bind2 E1 x1 x2 p m) c
                 | Ok true => forall e' c', body (bind2 E1 x1 x2 p m) c <> QNormal e' c'
                 | Err x => body (bind2 E1 x1 x2 p m) c = QErr x c
                 end)
      by (let E1 := fresh "E" in let p := fresh "p" in let m := fresh "m" in let HF1 := fresh "HF" in
          intros E1 p m HF1; unfold frame2 in HF1; cbv beta;
          match goal with
          | |- context [qnmatch (o_full o) m] => destruct (qnmatch (o_full o) m) as [[|]|?] eqn:?
          | |- context [text_eqb (o_full o) m] => destruct (text_eqb (o_full o) m) eqn:?
          end;
          prun; first [ reflexivity | intros; discriminate ]);
    destruct (for_search body orelse x1 x2 test E c Hs l E (fun v _ _ => eq_refl)) as (E' & HF & HL);
    unfold frame2 in HF; rewrite HL; clear HL Hs
  end.

Ltac pfor opts o :=
  match goal with
  | |- context [PrivacyIR.pexec opts o (PForRev ?x1 ?x2 ?R ?B ?O) ?E ?c] =>
    rewrite (pexec_for opts o x1 x2 R B O E c); prun;
    first [ pfor_with opts o (fun m : text => @Ok bool (text_eqb (o_full o) m)) | pfor_with opts o (qnmatch (o_full o)) ]
  end.

(* what happened in a search loop *)
Ltac dsearch :=
  match goal with
  | |- context [search ?t ?l] =>
    let Hs := fresh "Hs" in
    destruct (search t l) as [|? ?|?] eqn:Hs;
    [ | let Ht := fresh "Ht" in pose proof (search_hit _ _ _ _ Hs) as Ht; cbv beta in Ht; try (injection Ht as Ht) | ]
  end.

Ltac datom o c :=
  first
  [ match goal with |- context [cache_get c ?k] => destruct (cache_get c k) eqn:? end
  | match goal with |- context [o_has_kind o] => destruct (o_has_kind o) eqn:? end
  | match goal with |- context [starts_with ?a ?b] => destruct (starts_with a b) eqn:? end
  | match goal with |- context [ends_with ?a ?b] => destruct (ends_with a b) eqn:? end ].

Theorem run_privacy_eq : forall opts c o,
  run_privacyClass opts o privacy_code c = system_privacyClass opts c o.
Proof.
  intros opts c o. unfold run_privacyClass, system_privacyClass, compute_privacy, default_privacy, privacy_code, us1, us2, c_us.
  rewrite find_exact_search, find_pattern_search.
  repeat (prun; try pcontra; first [datom o c | pfor opts o | dsearch]).
  all: try pcontra; prun; reflexivity.
Qed.

From PydoctorVerif Require Import Spec.Glob Proofs.QnMatchProofs Proofs.ReFragProofs Proofs.PrivacyProofs.

Theorem code_privacy_precedence : forall opts c o, o_has_kind o = true -> cache_get c (o_full o) = None ->
  fst (run_privacyClass opts o privacy_code c) =
  verdict_outcome (documented_verdict (text_eqb (o_full o)) wf_pattern (fun m => matches m (o_full o)) opts
                                      (default_privacy (o_name o))).
Proof.
  intros opts c o Hk Hc. rewrite run_privacy_eq. unfold system_privacyClass. rewrite Hc, Hk. cbn [negb].
  rewrite precedence_total. destruct (verdict_outcome _); reflexivity.
Qed.
