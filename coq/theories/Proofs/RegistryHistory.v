(* Proofs/RegistryHistory.v -- the invariant along histories. *)
From Coq Require Import ZArith NArith List Bool Lia.
From PydoctorVerif Require Import Base.Sexp Model.Registry Spec.RegistryInv Proofs.RegistryBase Proofs.RegistryProofs
     Proofs.RegistryReparent Proofs.RegistryFuel Proofs.RegistryTotal.
Import ListNotations.
Local Open Scope N_scope.

Lemma step_inv : forall s o s', Inv s -> guard s o -> step s o = Some s' -> Inv s'.
Proof.
  intros s o s' HI Hg H. destruct o as [pkg n parent|c n q k|o np nn|c bs|]; cbn [guard] in Hg.
  - eapply step_add_module_inv; eauto.
  - eapply step_add_child_inv; eauto.
  - eapply step_reparent_inv; eauto.
  - eapply step_set_bases_inv; eauto.
  - eapply step_post_process_inv; eauto.
Qed.

Lemma history_inv : forall s ops s', guarded_run s ops s' -> Inv s -> Inv s'.
Proof.
  intros s ops s' H. induction H as [s|s o s1 t s2 Hg Hs Hr IH]; intros HI; [exact HI|].
  apply IH. eapply step_inv; eauto.
Qed.

(* ------------------------------------------------------------------ the executable guards imply the guards *)
Lemma ocls_eqb_eq : forall a b, ocls_eqb a b = true -> a = b.
Proof. intros [] []; cbn; intros H; try reflexivity; discriminate. Qed.

Lemma registered_reg : forall s o, Inv s -> registered s o = true -> reg s o.
Proof.
  intros s o HI H. unfold registered in H. apply existsb_exists in H. destruct H as [[p o'] [Hin He]].
  cbn in He. apply N.eqb_eq in He. subst o'. exists p.
  apply (in_aget path_eqb path_eqb_eq); [apply (inv_keys s HI) | exact Hin].
Qed.

Lemma anc_f_complete : forall F st a x p, fullpath_f F st x = Some p -> anc st a x -> anc_f F st a x = true.
Proof.
  induction F as [|F IH]; intros st a x p Hp Ha; [discriminate|].
  destruct (anc_inv _ _ _ Ha) as [->|[q [Hq Ha']]]; cbn.
  - rewrite N.eqb_refl. reflexivity.
  - rewrite Hq. cbn in Hp. rewrite Hq in Hp. destruct (fullpath_f F st q) as [pq|] eqn:E; [|discriminate].
    rewrite (IH st a q pq E Ha'). apply orb_true_r.
Qed.
Lemma anc_b_complete : forall s a x, Inv s -> reg s x -> anc (store s) a x -> anc_b s a x = true.
Proof.
  intros s a x HI Hx Ha. destruct (reg_self s HI x Hx) as [p [Hp _]]. unfold anc_b.
  destruct (depthb s) as [|d] eqn:E; [unfold fullpath in Hp; rewrite E in Hp; discriminate|].
  unfold fullpath in Hp. rewrite E in Hp.
  (* anc_f with fuel S d: one test more than needed *)
  assert (G : forall F st a x p, fullpath_f F st x = Some p -> anc st a x -> anc_f F st a x = true) by exact anc_f_complete.
  exact (G _ _ _ _ _ Hp Ha).
Qed.

Lemma mem_id_in : forall x l, mem_id x l = true -> In x l.
Proof.
  intros x l H. unfold mem_id in H. apply existsb_exists in H. destruct H as [y [Hy He]]. apply N.eqb_eq in He. subst. exact Hy.
Qed.

Lemma covered_b_sound : forall s a, Inv s -> covered_b s a = true -> covered s a.
Proof.
  intros s a HI H x Hx Ha. unfold covered_b in H. destruct (subtree s a) as [T|] eqn:ET; [|discriminate].
  rewrite forallb_forall in H. destruct Hx as [p Hp].
  assert (Hin := aget_in path_eqb path_eqb_eq _ _ _ Hp). specialize (H _ Hin). cbn in H.
  rewrite (anc_b_complete s a x HI (ex_intro _ p Hp) Ha) in H. apply mem_id_in in H.
  unfold subtree in ET. eapply subtree_f_desc; eauto.
Qed.

Lemma guard_b_sound : forall s o, Inv s -> guard_b s o = true -> guard s o.
Proof.
  intros s o HI H. destruct o as [pkg n parent|c n q k|o np nn|c bs|]; cbn [guard guard_b] in *; try exact I.
  - (* AddModule *)
    apply andb_true_iff in H. destruct H as [H1 H2].
    assert (Hrep : forall first, (ocls_eqb (ocl (store s first)) CPackage && negb pkg) ||
                                 (is_module (ocl (store s first)) && covered_b s first) = true -> replace_ok s pkg first).
    { intros first Hb. unfold replace_ok. destruct (ocls_eqb (ocl (store s first)) CPackage && negb pkg) eqn:Ec.
      - left. apply andb_true_iff in Ec. destruct Ec as [G1 G2].
        apply ocls_eqb_eq in G1. split; [exact G1 | destruct pkg; [discriminate | reflexivity]].
      - right. cbn [orb] in Hb. apply andb_true_iff in Hb. destruct Hb as [G1 G2].
        split; [exact G1|]. split; [reflexivity | apply covered_b_sound; assumption]. }
    destruct parent as [q|]; cbn [guard_add_module child_key] in *.
    + apply andb_true_iff in H1. destruct H1 as [Hq Hqp]. apply ocls_eqb_eq in Hqp.
      split; [apply registered_reg; assumption | split; [exact Hqp|]].
      intros pq first Hpq Hf. rewrite Hpq in H2. rewrite Hf in H2. apply Hrep. exact H2.
    + intros first Hf. rewrite Hf in H2. apply Hrep. exact H2.
  - (* AddChild *)
    repeat (apply andb_true_iff in H; destruct H as [H ?]).
    unfold guard_add_child. split; [destruct (is_module c); [discriminate | reflexivity]|].
    split; [apply registered_reg; assumption|]. split; [assumption|].
    intros pq prev Hpq Hprev. cbn [child_key] in H0. rewrite Hpq in H0. rewrite Hprev in H0.
    apply covered_b_sound; assumption.
  - (* Reparent *)
    repeat (apply andb_true_iff in H; destruct H as [H ?]).
    unfold guard_reparent.
    split; [apply registered_reg; assumption|]. split; [apply registered_reg; assumption|]. split; [assumption|].
    split.
    { destruct (oparent (store s o)) as [oldp|]; [|discriminate]. exists oldp. split; [reflexivity|].
      apply andb_true_iff in H4. destruct H4 as [G1 G2]. split; [exact G1|].
      destruct (cget (oname (store s o)) (ocont (store s oldp))) as [x|]; [|discriminate].
      apply N.eqb_eq in G2. subst. reflexivity. }
    split.
    { intros Ha. rewrite (anc_b_complete s o np HI) in H3; [discriminate | apply registered_reg; assumption | exact Ha]. }
    split.
    { intros pn Hpn. cbn [child_key] in H2. rewrite Hpn in H2. unfold key_in in H2.
      destruct (rget (pn ++ [nn]) (allobj s)); [discriminate | reflexivity]. }
    split; [apply covered_b_sound; assumption|].
    intros Hm. rewrite Hm in H0. apply ocls_eqb_eq. exact H0.
Qed.

(* ------------------------------------------------------------------ the executable form of the history theorem *)
Lemma run_ops_false : forall ops s k r, run_ops s ops k false = r -> snd r = false.
Proof.
  induction ops as [|o t IH]; intros s k r H; cbn in H.
  - subst r. reflexivity.
  - destruct (step s o) as [s1|]; [eapply IH; exact H | subst r; reflexivity].
Qed.

Lemma run_ops_guarded : forall ops s0 k s, Inv s0 -> run_ops s0 ops k true = (s, None, true) -> Inv s.
Proof.
  induction ops as [|o t IH]; intros s0 k s HI H; cbn in H.
  - inversion H; subst. exact HI.
  - destruct (step s0 o) as [s1|] eqn:Es; [|inversion H].
    destruct (guard_b s0 o) eqn:Eg.
    + apply (IH s1 (N.succ k) s); [|exact H].
      exact (step_inv s0 o s1 HI (guard_b_sound s0 o HI Eg) Es).
    + apply run_ops_false in H. cbn in H. discriminate.
Qed.

(* a guarded operation completes and re-establishes the invariant *)
Lemma step_total_inv : forall s o, Inv s -> guard s o -> exists s', step s o = Some s' /\ Inv s'.
Proof.
  intros s o HI Hg. destruct (step_total s o HI Hg) as [s' Hs]. exists s'. split; [exact Hs | eapply step_inv; eauto].
Qed.

(* a history whose operations all satisfy their (executable) guard does not raise, and ends in a state that
   satisfies the invariant *)
Lemma run_ops_guarded_total : forall ops s0 k s f, Inv s0 -> run_ops s0 ops k true = (s, f, true) -> f = None /\ Inv s.
Proof.
  induction ops as [|o t IH]; intros s0 k s f HI H; cbn in H.
  - inversion H; subst. auto.
  - destruct (guard_b s0 o) eqn:Eg.
    + destruct (step_total_inv s0 o HI (guard_b_sound s0 o HI Eg)) as [s1 [Es HI1]]. rewrite Es in H.
      apply (IH s1 (N.succ k) s f HI1 H).
    + destruct (step s0 o) as [s1|]; [apply run_ops_false in H; cbn in H; discriminate | inversion H].
Qed.

(* Prop form: the guards alone determine a run *)
Inductive guarded_hist : state -> list op -> Prop :=
| gh_nil : forall s, guarded_hist s []
| gh_cons : forall s o t, guard s o -> (forall s1, step s o = Some s1 -> guarded_hist s1 t) -> guarded_hist s (o :: t).
Lemma guarded_hist_run : forall ops s, Inv s -> guarded_hist s ops -> exists s', guarded_run s ops s' /\ Inv s'.
Proof.
  induction ops as [|o t IH]; intros s HI H.
  - exists s. split; [constructor | exact HI].
  - inversion H as [|? ? ? Hg Hrest]; subst. destruct (step_total_inv s o HI Hg) as [s1 [Es HI1]].
    destruct (IH s1 HI1 (Hrest s1 Es)) as [s' [Hr HI']]. exists s'. split; [econstructor; eauto | exact HI'].
Qed.
