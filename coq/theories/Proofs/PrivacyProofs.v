(* Proofs/PrivacyProofs.v -- C13: precedence, default rule, cache transparency, rule parsing. *)
From Coq Require Import NArith List Bool Lia Arith.
From PydoctorVerif Require Import Base.Sexp Spec.ReFrag Spec.Glob Spec.PrivacySpec Model.QnMatch Model.Privacy
  Proofs.QnMatchProofs Proofs.ReFragProofs.
Import ListNotations.
Local Open Scope N_scope.

(* ------------------------------------------------------------------ text equality, prefixes *)
Lemma text_eqb_eq : forall a b, text_eqb a b = true <-> a = b.
Proof.
  induction a as [|x a IH]; destruct b as [|y b]; cbn; split; intros H; try reflexivity; try discriminate.
  - apply andb_prop in H. destruct H as [H1 H2]. apply N.eqb_eq in H1. apply IH in H2. now subst.
  - injection H as -> ->. rewrite N.eqb_refl. cbn. now apply IH.
Qed.

Lemma text_eqb_refl : forall a, text_eqb a a = true.
Proof. intros a. now apply text_eqb_eq. Qed.

Lemma starts_with_spec : forall pre s, starts_with pre s = true <-> exists m, s = pre ++ m.
Proof.
  induction pre as [|x pre IH]; intros s; cbn.
  - split; [intros _; now exists s|reflexivity].
  - destruct s as [|y s].
    + split; [discriminate|]. intros [m H]. discriminate.
    + split.
      * intros H. apply andb_prop in H. destruct H as [H1 H2]. apply N.eqb_eq in H1. subst y.
        apply IH in H2. destruct H2 as [m ->]. now exists m.
      * intros [m H]. injection H as -> ->. rewrite N.eqb_refl. cbn. apply IH. now exists m.
Qed.

Lemma ends_with_spec : forall suf s, ends_with suf s = true <-> exists m, s = m ++ suf.
Proof.
  intros suf s. unfold ends_with. rewrite starts_with_spec. split.
  - intros [m H]. exists (rev m). rewrite <- (rev_involutive s), H, rev_app_distr, rev_involutive. reflexivity.
  - intros [m ->]. exists (rev m). now rewrite rev_app_distr.
Qed.

(* ------------------------------------------------------------------ default rule *)
Lemma private_by_default_bool : forall n,
  starts_with us1 n && negb (starts_with us2 n && ends_with us2 n) = true <-> private_by_default n.
Proof.
  intros n. unfold private_by_default, leading_underscore, dunder.
  assert (H1 : starts_with us1 n = true <-> exists m, n = underscore :: m) by exact (starts_with_spec us1 n).
  assert (H2 : starts_with us2 n = true <-> exists m, n = underscore :: underscore :: m) by exact (starts_with_spec us2 n).
  assert (H3 : ends_with us2 n = true <-> exists m, n = m ++ [underscore; underscore]) by exact (ends_with_spec us2 n).
  rewrite <- H1, <- H2, <- H3.
  destruct (starts_with us1 n), (starts_with us2 n), (ends_with us2 n); cbn; split; intros H;
    try discriminate; try reflexivity.
  - destruct H as [_ H]. exfalso. apply H. split; reflexivity.
  - split; [reflexivity|]. intros [_ A]. discriminate.
  - split; [reflexivity|]. intros [A _]. discriminate.
  - split; [reflexivity|]. intros [A _]. discriminate.
  - destruct H as [H _]. discriminate.
  - destruct H as [H _]. discriminate.
  - destruct H as [H _]. discriminate.
  - destruct H as [H _]. discriminate.
Qed.

Theorem default_privacy_spec : forall n,
  (default_privacy n = PRIVATE <-> private_by_default n) /\ (default_privacy n = PUBLIC <-> ~ private_by_default n).
Proof.
  intros n. pose proof (private_by_default_bool n) as H. unfold default_privacy.
  destruct (starts_with us1 n && negb (starts_with us2 n && ends_with us2 n)).
  - split; split; intros A; try discriminate; try reflexivity.
    + now apply H.
    + exfalso. apply A. now apply H.
  - split; split; intros A; try discriminate; try reflexivity.
    + apply H in A. discriminate.
    + intros B. apply H in B. discriminate.
Qed.

Theorem default_rule : forall o c,
  o_has_kind o = true -> cache_get c (o_full o) = None ->
  fst (system_privacyClass [] c o) = Ok (default_privacy (o_name o)).
Proof.
  intros o c Hk Hc. unfold system_privacyClass. rewrite Hc, Hk. reflexivity.
Qed.

(* ------------------------------------------------------------------ precedence *)
Lemma find_exact_app : forall a b full,
  find_exact (a ++ b) full = match find_exact a full with Some p => Some p | None => find_exact b full end.
Proof.
  induction a as [|[p m] a IH]; intros b full; cbn; [reflexivity|].
  destruct (text_eqb full m); [reflexivity|apply IH].
Qed.

Lemma find_exact_last : forall rules full, find_exact (rev rules) full = last_rule (text_eqb full) rules.
Proof.
  induction rules as [|[p m] r IH]; intros full; [reflexivity|].
  cbn [rev last_rule]. rewrite find_exact_app, IH.
  destruct (last_rule (text_eqb full) r); [reflexivity|]. cbn. destruct (text_eqb full m); reflexivity.
Qed.

Lemma find_pattern_app : forall a b full,
  find_pattern (a ++ b) full =
  bind (find_pattern a full) (fun r => match r with Some p => Ok (Some p) | None => find_pattern b full end).
Proof.
  induction a as [|[p m] a IH]; intros b full; cbn [app find_pattern]; [reflexivity|].
  destruct (qnmatch full m) as [[|]|e]; cbn [bind]; [reflexivity|apply IH|reflexivity].
Qed.

(* every pattern of the list has a meaning (no inverted range) *)
Definition rules_wf (rules : list rule) : bool := forallb (fun r => wf_pattern (snd r)) rules.

Lemma find_pattern_last : forall rules full, rules_wf rules = true ->
  find_pattern (rev rules) full = Ok (last_rule (fun m => matches m full) rules).
Proof.
  induction rules as [|[p m] r IH]; intros full Hwf; [reflexivity|].
  cbn [rules_wf forallb snd] in Hwf. apply andb_prop in Hwf. destruct Hwf as [Hm Hr].
  cbn [rev last_rule]. rewrite find_pattern_app, (IH full Hr). cbn [bind].
  destruct (last_rule (fun m0 => matches m0 full) r); [reflexivity|].
  cbn [find_pattern]. rewrite (qnmatch_meaning m full Hm). cbn [bind].
  destruct (matches m full); reflexivity.
Qed.

Theorem precedence : forall rules o,
  rules_wf rules = true ->
  compute_privacy rules o =
  Ok (documented_privacy (text_eqb (o_full o)) (fun m => matches m (o_full o)) rules (default_privacy (o_name o))).
Proof.
  intros rules o Hwf. unfold compute_privacy, documented_privacy.
  rewrite find_exact_last. destruct (last_rule (text_eqb (o_full o)) rules); [reflexivity|].
  rewrite (find_pattern_last rules (o_full o) Hwf). cbn [bind].
  destruct (last_rule (fun m => matches m (o_full o)) rules); reflexivity.
Qed.

(* an exact rule decides alone, whatever the pattern rules are -- even meaningless ones *)
Theorem exact_beats_patterns : forall rules o p,
  last_rule (text_eqb (o_full o)) rules = Some p -> compute_privacy rules o = Ok p.
Proof.
  intros rules o p H. unfold compute_privacy. now rewrite find_exact_last, H.
Qed.

(* what "the last rule satisfying test" means, without recursion *)
Theorem last_rule_spec : forall test rules p,
  last_rule test rules = Some p <->
  exists l1 m l2, rules = l1 ++ (p, m) :: l2 /\ test m = true /\ forall r, In r l2 -> test (snd r) = false.
Proof.
  intros test. induction rules as [|[q m] r IH]; intros p.
  - cbn. split; [discriminate|]. intros (l1 & m & l2 & H & _). destruct l1; discriminate.
  - cbn [last_rule]. destruct (last_rule test r) as [q'|] eqn:E.
    + split.
      * intros H. injection H as ->. destruct (proj1 (IH p) eq_refl) as (l1 & m' & l2 & -> & Ht & Hl).
        exists ((q, m) :: l1), m', l2. repeat split; assumption.
      * intros (l1 & m' & l2 & H & Ht & Hl). destruct l1 as [|x l1].
        -- injection H as -> -> ->. 
           destruct (proj1 (IH q') eq_refl) as (k1 & m2 & k2 & -> & Ht2 & _).
           assert (Hf : test m2 = false) by (apply (Hl (q', m2)); apply in_or_app; right; now left).
           congruence.
        -- injection H as Hx Hr. subst x r.
           apply IH. now exists l1, m', l2.
    + assert (Hall : forall x, In x r -> test (snd x) = false).
      { clear IH. induction r as [|[a b] r IHr]; intros x Hin; [destruct Hin|].
        cbn [last_rule] in E. destruct (last_rule test r) eqn:E2; [discriminate|].
        destruct (test b) eqn:Eb; [discriminate|]. destruct Hin as [<-|Hin]; [exact Eb|now apply IHr]. }
      destruct (test m) eqn:Em.
      * split.
        -- intros H. injection H as ->. exists [], m, r. repeat split; assumption.
        -- intros (l1 & m' & l2 & H & Ht & Hl). destruct l1 as [|x l1].
           ++ injection H as -> -> ->. reflexivity.
           ++ injection H as Hx Hr. subst x r. assert (Hf : test m' = false) by (apply (Hall (p, m')); apply in_or_app; right; now left).
              congruence.
      * split; [discriminate|]. intros (l1 & m' & l2 & H & Ht & Hl). destruct l1 as [|x l1].
        -- injection H as -> -> ->. congruence.
        -- injection H as Hx Hr. subst x r. assert (Hf : test m' = false) by (apply (Hall (p, m')); apply in_or_app; right; now left).
           congruence.
Qed.

(* ------------------------------------------------------------------ cache transparency *)
Definition uncached (opts : list rule) (o : obj) : outcome priv := fst (doc_privacyClass opts [] o).

(* every cached entry is what the computation gives for the objects of the universe *)
Definition cache_sound (opts : list rule) (univ : list obj) (c : cache) : Prop :=
  forall o v, In o univ -> cache_get c (o_full o) = Some v -> uncached opts o = Ok v.

Definition same_key_same_object (univ : list obj) : Prop :=
  forall o1 o2, In o1 univ -> In o2 univ -> o_full o1 = o_full o2 -> o1 = o2.

Lemma doc_privacy_step : forall opts univ c o,
  same_key_same_object univ -> cache_sound opts univ c -> In o univ ->
  fst (doc_privacyClass opts c o) = uncached opts o /\ cache_sound opts univ (snd (doc_privacyClass opts c o)).
Proof.
  intros opts univ c o Hk Hc Ho. unfold uncached, doc_privacyClass.
  destruct (o_is_module o && text_eqb (o_name o) main_name) eqn:Em.
  - cbn. split; [reflexivity|exact Hc].
  - pose proof (Hc o) as Hco. unfold uncached, doc_privacyClass in Hco. rewrite Em in Hco.
    unfold system_privacyClass in *. cbn [cache_get] in *.
    destruct (cache_get c (o_full o)) as [v|] eqn:Eg.
    + cbn [fst snd]. split; [|exact Hc]. symmetry. now apply Hco.
    + destruct (o_has_kind o) eqn:Ek; cbn [negb]; [|cbn; split; [reflexivity|exact Hc]].
      destruct (compute_privacy opts o) as [p|e] eqn:Ec; cbn [fst snd]; (split; [reflexivity|]); [|exact Hc].
      intros o' v Ho' Hg. cbn [cache_get] in Hg.
      destruct (text_eqb (o_full o') (o_full o)) eqn:Ee.
      * injection Hg as <-. apply text_eqb_eq in Ee. assert (o' = o) by now apply Hk. subst o'.
        unfold uncached, doc_privacyClass. rewrite Em. unfold system_privacyClass. cbn [cache_get]. rewrite Ek, Ec. reflexivity.
      * now apply Hc.
Qed.

Theorem cache_transparent : forall opts univ qs c,
  same_key_same_object univ -> cache_sound opts univ c -> (forall o, In o qs -> In o univ) ->
  run_queries opts c qs = map (uncached opts) qs.
Proof.
  intros opts univ. induction qs as [|o r IH]; intros c Hk Hc Hin; [reflexivity|].
  cbn [run_queries map].
  destruct (doc_privacy_step opts univ c o Hk Hc (Hin o (or_introl eq_refl))) as [H1 H2].
  destruct (doc_privacyClass opts c o) as [x c'] eqn:E. cbn [fst snd] in *. subst x. f_equal.
  apply IH; [assumption|assumption|]. intros o' Ho'. apply Hin. now right.
Qed.

Lemma cache_sound_empty : forall opts univ, cache_sound opts univ [].
Proof. intros opts univ o v _ H. discriminate. Qed.

(* ------------------------------------------------------------------ Module.privacyClass *)
Theorem documentable_not_main : forall opts c o,
  (o_is_module o = false \/ o_name o <> main_name) ->
  doc_privacyClass opts c o = system_privacyClass opts c o.
Proof.
  intros opts c o H. unfold doc_privacyClass.
  destruct (o_is_module o) eqn:Em; [|reflexivity]. destruct H as [H|H]; [discriminate|].
  destruct (text_eqb (o_name o) main_name) eqn:E; [|reflexivity]. apply text_eqb_eq in E. contradiction.
Qed.

(* ------------------------------------------------------------------ parse_privacy_tuple *)
Definition level_of_name (s : text) (p : priv) : Prop :=
  (s = n_HIDDEN /\ p = HIDDEN) \/ (s = n_PRIVATE /\ p = PRIVATE) \/
  (s = n_PUBLIC /\ p = PUBLIC) \/ (s = n_VISIBLE /\ p = PUBLIC).

Lemma privacy_by_name_spec : forall s p, privacy_by_name s = Some p <-> level_of_name s p.
Proof.
  intros s p. unfold privacy_by_name, level_of_name.
  destruct (text_eqb s n_HIDDEN) eqn:E1.
  { apply text_eqb_eq in E1. subst s. split.
    - intros H. injection H as <-. now left.
    - intros [[_ ->]|[[H _]|[[H _]|[H _]]]]; [reflexivity|discriminate..]. }
  destruct (text_eqb s n_PRIVATE) eqn:E2.
  { apply text_eqb_eq in E2. subst s. split.
    - intros H. injection H as <-. right. now left.
    - intros [[H _]|[[_ ->]|[[H _]|[H _]]]]; [discriminate|reflexivity|discriminate..]. }
  destruct (text_eqb s n_PUBLIC) eqn:E3.
  { apply text_eqb_eq in E3. subst s. split.
    - intros H. injection H as <-. right. right. now left.
    - intros [[H _]|[[H _]|[[_ ->]|[H _]]]]; [discriminate|discriminate|reflexivity|discriminate]. }
  destruct (text_eqb s n_VISIBLE) eqn:E4.
  { apply text_eqb_eq in E4. subst s. split.
    - intros H. injection H as <-. right. right. now right.
    - intros [[H _]|[[H _]|[[H _]|[_ ->]]]]; [discriminate|discriminate|discriminate|reflexivity]. }
  split; [discriminate|].
  intros [[-> _]|[[-> _]|[[-> _]|[-> _]]]]; cbn in *; discriminate.
Qed.

Lemma split_colon_nocolon : forall s cur, ~ In c_colon s -> split_colon s cur = [rev cur ++ s].
Proof.
  induction s as [|c r IH]; intros cur H; cbn [split_colon].
  - now rewrite app_nil_r.
  - destruct (c =? c_colon) eqn:E.
    + apply N.eqb_eq in E. subst c. exfalso. apply H. now left.
    + rewrite IH by (intros Hin; apply H; now right). cbn [rev]. now rewrite <- app_assoc.
Qed.

Lemma split_colon_first : forall a rest cur, ~ In c_colon a ->
  split_colon (a ++ c_colon :: rest) cur = (rev cur ++ a) :: split_colon rest [].
Proof.
  induction a as [|c r IH]; intros rest cur H; cbn [app split_colon].
  - rewrite N.eqb_refl. now rewrite app_nil_r.
  - destruct (c =? c_colon) eqn:E.
    + apply N.eqb_eq in E. subst c. exfalso. apply H. now left.
    + rewrite IH by (intros Hin; apply H; now right). cbn [rev]. now rewrite <- app_assoc.
Qed.

Lemma colon_decompose : forall s, ~ In c_colon s \/ exists a rest, s = a ++ c_colon :: rest /\ ~ In c_colon a.
Proof.
  induction s as [|c r IH].
  - left. intros [].
  - destruct (c =? c_colon) eqn:E.
    + apply N.eqb_eq in E. subst c. right. exists [], r. split; [reflexivity|intros []].
    + apply N.eqb_neq in E. destruct IH as [H|(a & rest & -> & Ha)].
      * left. intros [Hc|Hin]; [congruence|contradiction].
      * right. exists (c :: a), rest. split; [reflexivity|]. intros [Hc|Hin]; [congruence|contradiction].
Qed.

Lemma split_colon_nonempty : forall s cur, split_colon s cur <> [].
Proof.
  induction s as [|c r IH]; intros cur; cbn [split_colon]; [discriminate|].
  destruct (c =? c_colon); [discriminate|apply IH].
Qed.

Theorem parse_rule : forall v p m,
  parse_privacy_tuple v = Some (p, m) <->
  exists a b, v = a ++ c_colon :: b /\ ~ In c_colon a /\ ~ In c_colon b /\
              level_of_name (upper (strip a)) p /\ m = strip b.
Proof.
  intros v p m. unfold parse_privacy_tuple, parse_privacy_tuple_result. split.
  - intros H. destruct (colon_decompose v) as [Hn|(a & rest & -> & Ha)].
    + rewrite split_colon_nocolon in H by assumption. discriminate.
    + rewrite split_colon_first in H by assumption. cbn [rev app] in H.
      destruct (colon_decompose rest) as [Hn|(b & rest2 & -> & Hb)].
      * rewrite split_colon_nocolon in H by assumption. cbn [rev app] in H.
        destruct (privacy_by_name (upper (strip a))) as [q|] eqn:Ep; [|discriminate].
        injection H as <- <-. exists a, rest. repeat split; try assumption. now apply privacy_by_name_spec.
      * rewrite split_colon_first in H by assumption. cbn [rev app] in H.
        pose proof (split_colon_nonempty rest2 []) as Hne.
        destruct (split_colon rest2 []); [congruence|discriminate].
  - intros (a & b & -> & Ha & Hb & Hl & ->).
    rewrite split_colon_first by assumption. rewrite split_colon_nocolon by assumption. cbn [rev app].
    apply privacy_by_name_spec in Hl. now rewrite Hl.
Qed.

(* the error paths: which error(...) call is reached *)
Lemma split_one_colon : forall a b, ~ In c_colon a -> ~ In c_colon b -> split_colon (a ++ c_colon :: b) [] = [a; b].
Proof. intros a b Ha Hb. rewrite split_colon_first by assumption. now rewrite split_colon_nocolon by assumption. Qed.

Definition one_colon (v a b : text) : Prop := v = a ++ c_colon :: b /\ ~ In c_colon a /\ ~ In c_colon b.

Theorem parse_result_spec : forall v,
  match parse_privacy_tuple_result v with
  | ParsedRule (p, m) => exists a b, one_colon v a b /\ level_of_name (upper (strip a)) p /\ m = strip b
  | UnknownLevel a => exists b, one_colon v a b /\ forall p, ~ level_of_name (upper (strip a)) p
  | Malformatted => forall a b, ~ one_colon v a b
  end.
Proof.
  intros v. unfold parse_privacy_tuple_result, one_colon.
  destruct (colon_decompose v) as [Hn|(a & rest & -> & Ha)].
  - rewrite split_colon_nocolon by assumption. cbn [rev app].
    intros a b (-> & _ & _). apply Hn. apply in_or_app. right. now left.
  - rewrite split_colon_first by assumption. cbn [rev app].
    destruct (colon_decompose rest) as [Hn|(b & rest2 & -> & Hb)].
    + rewrite split_colon_nocolon by assumption. cbn [rev app].
      destruct (privacy_by_name (upper (strip a))) as [q|] eqn:Ep.
      * exists a, rest. repeat split; try assumption. now apply privacy_by_name_spec.
      * exists rest. repeat split; try assumption. intros p Hp. apply privacy_by_name_spec in Hp. congruence.
    + rewrite split_colon_first by assumption. cbn [rev app].
      pose proof (split_colon_nonempty rest2 []) as Hne.
      destruct (split_colon rest2 []) as [|x l] eqn:Es; [congruence|].
      intros a' b' (E & Ha' & Hb').
      assert (S1 : split_colon (a ++ c_colon :: b ++ c_colon :: rest2) [] = [a'; b']) by (rewrite E; now apply split_one_colon).
      rewrite split_colon_first in S1 by assumption. rewrite split_colon_first in S1 by assumption.
      cbn [rev app] in S1. rewrite Es in S1. discriminate.
Qed.

(* ------------------------------------------------------------------ precedence, total (no guard on the patterns) *)
Definition decisive (full : text) (m : text) : bool := negb (wf_pattern m) || matches m full.

Definition verdict_outcome (v : verdict) : outcome priv :=
  match v with Level p => Ok p | Aborts => Err BadRange end.

Lemma find_pattern_last_total : forall rules full,
  find_pattern (rev rules) full =
  match last_entry (decisive full) rules with
  | Some (p, m) => if wf_pattern m then Ok (Some p) else Err BadRange
  | None => Ok None
  end.
Proof.
  induction rules as [|[p m] r IH]; intros full; [reflexivity|].
  cbn [rev last_entry]. rewrite find_pattern_app, (IH full).
  destruct (last_entry (decisive full) r) as [[q m']|].
  - destruct (wf_pattern m'); reflexivity.
  - cbn [bind find_pattern]. rewrite (qnmatch_characterised m full). unfold decisive.
    destruct (wf_pattern m) eqn:Ew; cbn [negb orb bind].
    + destruct (matches m full); cbn; rewrite ?Ew; reflexivity.
    + cbn. rewrite ?Ew. reflexivity.
Qed.

Theorem precedence_total : forall rules o,
  compute_privacy rules o =
  verdict_outcome (documented_verdict (text_eqb (o_full o)) wf_pattern (fun m => matches m (o_full o)) rules
                                      (default_privacy (o_name o))).
Proof.
  intros rules o. unfold compute_privacy, documented_verdict.
  rewrite find_exact_last. destruct (last_rule (text_eqb (o_full o)) rules); [reflexivity|].
  rewrite find_pattern_last_total. fold (decisive (o_full o)).
  destruct (last_entry (decisive (o_full o)) rules) as [[p m]|]; [|reflexivity].
  destruct (wf_pattern m); reflexivity.
Qed.

(* what "the last entry satisfying test" means, without recursion *)
Theorem last_entry_spec : forall test rules p m,
  last_entry test rules = Some (p, m) <->
  exists l1 l2, rules = l1 ++ (p, m) :: l2 /\ test m = true /\ forall r, In r l2 -> test (snd r) = false.
Proof.
  intros test. induction rules as [|[q m0] r IH]; intros p m.
  - cbn. split; [discriminate|]. intros (l1 & l2 & H & _). destruct l1; discriminate.
  - cbn [last_entry]. destruct (last_entry test r) as [[q' m']|] eqn:E.
    + split.
      * intros H. injection H as -> ->. destruct (proj1 (IH p m) eq_refl) as (l1 & l2 & -> & Ht & Hl).
        exists ((q, m0) :: l1), l2. repeat split; assumption.
      * intros (l1 & l2 & H & Ht & Hl). destruct l1 as [|x l1].
        -- injection H as -> -> ->.
           destruct (proj1 (IH q' m') eq_refl) as (k1 & k2 & -> & Ht2 & _).
           assert (Hf : test m' = false) by (apply (Hl (q', m')); apply in_or_app; right; now left).
           congruence.
        -- injection H as Hx Hr. subst x r. apply IH. now exists l1, l2.
    + assert (Hall : forall x, In x r -> test (snd x) = false).
      { clear IH. induction r as [|[a b] r IHr]; intros x Hin; [destruct Hin|].
        cbn [last_entry] in E. destruct (last_entry test r) eqn:E2; [discriminate|].
        destruct (test b) eqn:Eb; [discriminate|]. destruct Hin as [<-|Hin]; [exact Eb|now apply IHr]. }
      destruct (test m0) eqn:Em.
      * split.
        -- intros H. injection H as -> ->. exists [], r. repeat split; assumption.
        -- intros (l1 & l2 & H & Ht & Hl). destruct l1 as [|x l1].
           ++ injection H as -> -> ->. reflexivity.
           ++ injection H as Hx Hr. subst x r.
              assert (Hf : test m = false) by (apply (Hall (p, m)); apply in_or_app; right; now left). congruence.
      * split; [discriminate|]. intros (l1 & l2 & H & Ht & Hl). destruct l1 as [|x l1].
        -- injection H as -> -> ->. congruence.
        -- injection H as Hx Hr. subst x r.
           assert (Hf : test m = false) by (apply (Hall (p, m)); apply in_or_app; right; now left). congruence.
Qed.

(* privacyClass raises exactly when no exact rule decides and the newest deciding pattern rule is meaningless *)
Theorem raises_iff : forall rules o,
  (exists e, compute_privacy rules o = Err e) <->
  last_rule (text_eqb (o_full o)) rules = None /\
  exists l1 p m l2, rules = l1 ++ (p, m) :: l2 /\ wf_pattern m = false /\
                    forall r, In r l2 -> wf_pattern (snd r) = true /\ matches (snd r) (o_full o) = false.
Proof.
  intros rules o. rewrite precedence_total. unfold documented_verdict.
  destruct (last_rule (text_eqb (o_full o)) rules) as [q|].
  - split; [intros [e H]; discriminate|intros [H _]; discriminate].
  - fold (decisive (o_full o)).
    destruct (last_entry (decisive (o_full o)) rules) as [[p m]|] eqn:E.
    + apply last_entry_spec in E. destruct E as (l1 & l2 & -> & Ht & Hl).
      assert (Hl' : forall r, In r l2 -> wf_pattern (snd r) = true /\ matches (snd r) (o_full o) = false).
      { intros r Hr. specialize (Hl r Hr). unfold decisive in Hl. apply orb_false_elim in Hl.
        destruct Hl as [A B]. split; [now apply negb_false_iff in A|exact B]. }
      destruct (wf_pattern m) eqn:Ew; cbn [verdict_outcome].
      * split; [intros [e H]; discriminate|]. intros [_ (k1 & p' & m' & k2 & Heq & Hbad & Hk)]. exfalso.
        (* the newest deciding rule is unique *)
        assert (Hd : last_entry (decisive (o_full o)) (k1 ++ (p', m') :: k2) = Some (p', m')).
        { apply last_entry_spec. exists k1, k2. repeat split.
          - unfold decisive. now rewrite Hbad.
          - intros r Hr. destruct (Hk r Hr) as [A B]. unfold decisive. now rewrite A, B. }
        assert (Hd2 : last_entry (decisive (o_full o)) (l1 ++ (p, m) :: l2) = Some (p, m)).
        { apply last_entry_spec. exists l1, l2. repeat split; assumption. }
        rewrite Heq in Hd2. rewrite Hd in Hd2. injection Hd2 as -> ->. congruence.
      * split; [|intros _; now exists BadRange]. intros _. split; [reflexivity|].
        exists l1, p, m, l2. repeat split; try assumption; now apply Hl'.
    + cbn [verdict_outcome]. split; [intros [e H]; discriminate|].
      intros [_ (k1 & p' & m' & k2 & Heq & Hbad & Hk)]. exfalso.
      assert (Hd : last_entry (decisive (o_full o)) (k1 ++ (p', m') :: k2) = Some (p', m')).
      { apply last_entry_spec. exists k1, k2. repeat split.
        - unfold decisive. now rewrite Hbad.
        - intros r Hr. destruct (Hk r Hr) as [A B]. unfold decisive. now rewrite A, B. }
      rewrite <- Heq in Hd. congruence.
Qed.

(* ------------------------------------------------------------------ the pattern theorem, stated on relations only *)
Theorem compile_pattern_wf : forall p, wf_pattern p = true -> compile_pattern p = Ok (map tok_item (lex p)).
Proof.
  intros p H. unfold compile_pattern. rewrite translate_render. cbn [bind].
  rewrite read_re_translated_gen by apply lex_fuel_valid. unfold wf_pattern in H. now rewrite H.
Qed.

Theorem meaning_declarative : forall p, wf_pattern p = true ->
  exists re, compile_pattern p = Ok re /\
             forall n, (qnmatch n p = Ok true <-> matches_re re n) /\
                       (qnmatch n p = Ok false <-> ~ matches_re re n) /\
                       (matches_re re n <-> Matches (lex p) n).
Proof.
  intros p H. exists (map tok_item (lex p)). split; [now apply compile_pattern_wf|].
  intros n. unfold qnmatch. rewrite (compile_pattern_wf p H). cbn [match_re bind].
  pose proof (match_items_spec (map tok_item (lex p)) n) as S.
  pose proof (gmatch_Matches (lex p) n) as G. rewrite <- match_items_gmatch in G.
  destruct (match_items (map tok_item (lex p)) n).
  - split; [tauto|]. split; [|tauto]. split; [discriminate|]. intros A. exfalso. apply A. now apply S.
  - split; [|split; [|tauto]].
    + split; [discriminate|]. intros A. apply S in A. discriminate.
    + split; [|reflexivity]. intros _ B. apply S in B. discriminate.
Qed.

(* ------------------------------------------------------------------ isPrivate / isVisible *)
Lemma priv_eqb_eq : forall a b, priv_eqb a b = true <-> a = b.
Proof. intros [] []; cbn; split; intros H; try reflexivity; try discriminate. Qed.

Definition private_uncached (opts : list rule) (o : obj) : outcome bool :=
  bind (uncached opts o) (fun p => Ok (negb (priv_eqb p PUBLIC))).

Fixpoint visible_uncached (opts : list rule) (o : obj) (ps : list obj) : outcome bool :=
  match uncached opts o with
  | Err e => Err e
  | Ok p =>
    if priv_eqb p HIDDEN then Ok false
    else match ps with
         | [] => Ok true
         | q :: r => visible_uncached opts q r
         end
  end.

Definition answer_uncached (opts : list rule) (q : query) : answer :=
  match q with
  | QPrivacy o => ALevel (uncached opts o)
  | QVisible o ps => ABool (visible_uncached opts o ps)
  | QPrivate o => ABool (private_uncached opts o)
  end.

Definition query_objs (q : query) : list obj :=
  match q with
  | QPrivacy o | QPrivate o => [o]
  | QVisible o ps => o :: ps
  end.

Lemma is_visible_step : forall opts univ ps o c,
  same_key_same_object univ -> cache_sound opts univ c -> (forall x, In x (o :: ps) -> In x univ) ->
  fst (is_visible opts c o ps) = visible_uncached opts o ps /\ cache_sound opts univ (snd (is_visible opts c o ps)).
Proof.
  intros opts univ. induction ps as [|q r IH]; intros o c Hk Hc Hin.
  - cbn [is_visible visible_uncached].
    destruct (doc_privacy_step opts univ c o Hk Hc (Hin o (or_introl eq_refl))) as [H1 H2].
    destruct (doc_privacyClass opts c o) as [x c'] eqn:E. cbn [fst snd] in *. rewrite <- H1.
    destruct x as [p|e]; [|split; [reflexivity|assumption]].
    destruct (priv_eqb p HIDDEN); split; (reflexivity || assumption).
  - cbn [is_visible visible_uncached].
    destruct (doc_privacy_step opts univ c o Hk Hc (Hin o (or_introl eq_refl))) as [H1 H2].
    destruct (doc_privacyClass opts c o) as [x c'] eqn:E. cbn [fst snd] in *. rewrite <- H1.
    destruct x as [p|e]; [|split; [reflexivity|assumption]].
    destruct (priv_eqb p HIDDEN); [split; [reflexivity|assumption]|].
    apply IH; [assumption|assumption|]. intros x Hx. apply Hin. now right.
Qed.

Lemma ask_step : forall opts univ q c,
  same_key_same_object univ -> cache_sound opts univ c -> (forall x, In x (query_objs q) -> In x univ) ->
  fst (ask opts c q) = answer_uncached opts q /\ cache_sound opts univ (snd (ask opts c q)).
Proof.
  intros opts univ q c Hk Hc Hin. destruct q as [o|o ps|o]; cbn [ask answer_uncached query_objs] in *.
  - destruct (doc_privacy_step opts univ c o Hk Hc (Hin o (or_introl eq_refl))) as [H1 H2].
    destruct (doc_privacyClass opts c o) as [x c']. cbn [fst snd] in *. now subst x.
  - destruct (is_visible_step opts univ ps o c Hk Hc Hin) as [H1 H2].
    destruct (is_visible opts c o ps) as [x c']. cbn [fst snd] in *. now subst x.
  - unfold is_private, private_uncached.
    destruct (doc_privacy_step opts univ c o Hk Hc (Hin o (or_introl eq_refl))) as [H1 H2].
    destruct (doc_privacyClass opts c o) as [x c']. cbn [fst snd] in *. now subst x.
Qed.

Theorem asks_cache_transparent : forall opts univ qs c,
  same_key_same_object univ -> cache_sound opts univ c ->
  (forall q x, In q qs -> In x (query_objs q) -> In x univ) ->
  run_asks opts c qs = map (answer_uncached opts) qs.
Proof.
  intros opts univ. induction qs as [|q r IH]; intros c Hk Hc Hin; [reflexivity|].
  cbn [run_asks map].
  destruct (ask_step opts univ q c Hk Hc (fun x Hx => Hin q x (or_introl eq_refl) Hx)) as [H1 H2].
  destruct (ask opts c q) as [x c']. cbn [fst snd] in *. subst x. f_equal.
  apply IH; [assumption|assumption|]. intros q' x Hq Hx. apply (Hin q' x); [now right|assumption].
Qed.

(* visible exactly when the object and every ancestor have a level other than HIDDEN *)
Theorem visible_true_iff : forall opts ps o,
  visible_uncached opts o ps = Ok true <->
  forall x, In x (o :: ps) -> exists p, uncached opts x = Ok p /\ p <> HIDDEN.
Proof.
  intros opts. induction ps as [|q r IH]; intros o; cbn [visible_uncached].
  - destruct (uncached opts o) as [p|e] eqn:E.
    + destruct (priv_eqb p HIDDEN) eqn:Eh.
      * split; [discriminate|]. intros H. destruct (H o (or_introl eq_refl)) as (p' & Hp & Hn).
        apply priv_eqb_eq in Eh. congruence.
      * split; [|reflexivity]. intros _ x [<-|[]]. exists p. split; [assumption|].
        intros ->. cbn in Eh. discriminate.
    + split; [discriminate|]. intros H. destruct (H o (or_introl eq_refl)) as (p' & Hp & _). congruence.
  - destruct (uncached opts o) as [p|e] eqn:E.
    + destruct (priv_eqb p HIDDEN) eqn:Eh.
      * split; [discriminate|]. intros H. destruct (H o (or_introl eq_refl)) as (p' & Hp & Hn).
        apply priv_eqb_eq in Eh. congruence.
      * rewrite IH. split.
        -- intros H x [<-|Hx]; [|now apply H]. exists p. split; [assumption|]. intros ->. cbn in Eh. discriminate.
        -- intros H x Hx. apply H. now right.
    + split; [discriminate|]. intros H. destruct (H o (or_introl eq_refl)) as (p' & Hp & _). congruence.
Qed.

(* "If a module/package/class is hidden, then all its members are hidden as well": when no privacyClass raises,
   not visible exactly when the object or some ancestor is HIDDEN *)
Theorem hidden_ancestor_hides : forall opts ps o,
  (forall x, In x (o :: ps) -> exists p, uncached opts x = Ok p) ->
  (visible_uncached opts o ps = Ok false <-> exists x, In x (o :: ps) /\ uncached opts x = Ok HIDDEN).
Proof.
  intros opts. induction ps as [|q r IH]; intros o Hall; cbn [visible_uncached];
    destruct (Hall o (or_introl eq_refl)) as (p & Hp); rewrite Hp.
  - destruct (priv_eqb p HIDDEN) eqn:Eh.
    + apply priv_eqb_eq in Eh. subst p. split; [|reflexivity]. intros _. exists o. split; [now left|assumption].
    + split; [discriminate|]. intros (x & [<-|[]] & Hx). rewrite Hp in Hx. injection Hx as ->. discriminate.
  - destruct (priv_eqb p HIDDEN) eqn:Eh.
    + apply priv_eqb_eq in Eh. subst p. split; [|reflexivity]. intros _. exists o. split; [now left|assumption].
    + rewrite IH by (intros x Hx; apply Hall; now right). split.
      * intros (x & Hx & H). exists x. split; [now right|assumption].
      * intros (x & [<-|Hx] & H); [rewrite Hp in H; injection H as ->; discriminate|]. now exists x.
Qed.

Theorem private_iff : forall opts o p,
  uncached opts o = Ok p -> private_uncached opts o = Ok (negb (priv_eqb p PUBLIC)) /\
  (negb (priv_eqb p PUBLIC) = true <-> p <> PUBLIC).
Proof.
  intros opts o p H. unfold private_uncached. rewrite H. split; [reflexivity|].
  destruct p; cbn; split; intros A; try discriminate; try reflexivity; try congruence.
Qed.
