(* Proofs/LinesIRProofs.v -- the interpretation of the bodies translated from the CURRENT source (Gen/LinesCode.v) is the
   hand-written Model/Lines.v, for all inputs.  The proofs are symbolic execution: unfold, compute, split on the conditions
   that appear, normalise; they do not mention the shape of the generated terms. *)
From Coq Require Import ZArith NArith List Bool Lia.
From PydoctorVerif Require Import Base.Sexp Spec.CleanDoc Model.Msg Model.Lines Model.LinesIR Gen.LinesCode.
Import ListNotations.
Local Open Scope Z_scope.

Ltac split_ifs :=
  repeat match goal with
         | |- context [if ?c then _ else _] => let E := fresh "E" in destruct c eqn:E
         end.

Lemma existsb2 : forall s a b, existsb (text_eqb s) [a; b] = text_eqb s a || text_eqb s b.
Proof. intros. cbn. rewrite orb_false_r. reflexivity. Qed.

Ltac no_if t := lazymatch t with context [if _ then _ else _] => fail | context [match _ with _ => _ end] => fail | _ => idtac end.
Ltac atom :=
  match goal with
  | |- context [text_eqb ?a ?b] => no_if a; no_if b; let E := fresh "E" in destruct (text_eqb a b) eqn:E
  | |- context [o_is_module ?o] => let E := fresh "E" in destruct (o_is_module o) eqn:E
  | |- context [Z.eqb ?a ?b] => no_if a; no_if b; let E := fresh "E" in destruct (Z.eqb a b) eqn:E
  | |- context [Z.ltb ?a ?b] => no_if a; no_if b; let E := fresh "E" in destruct (Z.ltb a b) eqn:E
  end.
Ltac sym := repeat (progress (cbn -[text_eqb show_Z Z.add Z.sub Z.eqb Z.ltb find_sub count_nl firstn Z.of_nat Z.to_nat helper_call])).
Ltac fin := try discriminate; try congruence; cbn [app]; rewrite ?app_nil_r, <- ?app_assoc; cbn [app]; try reflexivity; try congruence;
  try (repeat f_equal; lia).

Theorem code_report_is_model : forall (o : obj) (descr section : text) (off thresh : Z),
  effects_of (report_ir code_report o descr section off thresh) = Some [FxMsg (report_call o descr section off thresh)].
Proof.
  intros o descr section off thresh.
  unfold report_ir, run_fn, code_report, code_report_body, report_call, report_line, report_text, uses_docstring_base,
    sec_docstring, sec_xref, show_lineno.
  repeat (first [progress sym | atom]); fin.
Qed.

(* ---- get_lineno ------------------------------------------------------------------------------------------------ *)
From Coq Require Import ZifyBool.

(* what the walk up the ancestors computes: Model.Lines.get_lineno's second branch *)
Definition walk (node : dnode) (ancs : list dnode) : Z :=
  match first_with_line ancs with
  | Some a => n_line a - 1 + newlines_before (n_raw a) (n_raw node)
  | None => 0
  end.

Lemma get_lineno_chain_walk : forall node ancs,
  get_lineno_chain node ancs = if negb (n_line node =? 0) then n_line node else walk node ancs.
Proof.
  intros node ancs. unfold get_lineno_chain, get_lineno, walk. destruct (first_with_line ancs); reflexivity.
Qed.

Lemma walk_cons : forall node a r,
  walk node (a :: r) = if negb (n_line a =? 0) then n_line a - 1 + newlines_before (n_raw a) (n_raw node) else walk node r.
Proof. intros. unfold walk. cbn [first_with_line]. destruct (negb (n_line a =? 0)); reflexivity. Qed.

Lemma walk_nil : forall node, walk node [] = 0.
Proof. reflexivity. Qed.

Ltac atom2 :=
  match goal with
  | |- context [match n_raw ?a with [] => _ | _ :: _ => _ end] => let E := fresh "R" in destruct (n_raw a) eqn:E
  | |- context [find_sub ?a ?b] => let E := fresh "F" in destruct (find_sub a b) eqn:E
  | |- context [Z.to_nat (Z.of_nat ?n)] => rewrite (Nat2Z.id n)
  | _ => atom
  end.
Ltac run := repeat (first [progress sym | atom2]).
Ltac fin2 := try discriminate; try congruence; try reflexivity; try (exfalso; lia); try (f_equal; f_equal; lia).

(* the ancestors from the first one that has a line *)
Fixpoint strip (ancs : list dnode) : list dnode :=
  match ancs with
  | [] => []
  | a :: r => if negb (n_line a =? 0) then a :: r else strip r
  end.

Definition chainval (r : list dnode) : value := match r with [] => VNone | _ :: _ => VNode r end.

Lemma strip_first : forall r,
  match strip r with
  | [] => first_with_line r = None
  | a :: _ => first_with_line r = Some a /\ (n_line a =? 0) = false
  end.
Proof.
  induction r as [|a r IH]; [reflexivity|]. cbn [strip first_with_line].
  destruct (n_line a =? 0) eqn:E; cbn [negb]; [exact IH|]. split; [reflexivity|exact E].
Qed.

Ltac sym_nw := repeat (progress (cbn -[text_eqb show_Z Z.add Z.sub Z.eqb Z.ltb find_sub count_nl firstn Z.of_nat Z.to_nat
                                      helper_call while_loop for_loop])).

Ltac rew_call :=
  match goal with
  | Hx : forall fuel : nat, _ -> helper_call _ _ _ fuel _ = _ |- context [helper_call _ _ _ ?f _] =>
    rewrite (Hx f) by (cbn [length] in *; lia)
  | Hx : forall (r : list dnode) (fuel : nat), _ -> helper_call _ _ _ fuel _ = _ |- context [helper_call _ _ _ ?f _] =>
    rewrite Hx by (cbn [length] in *; lia)
  end.

(* the source walks up the ancestors with a recursive helper; mk r = the arguments of a call whose ancestor is r *)
Ltac get_lineno_rec node mk :=
  match goal with
  | |- context [helper_call ?W ?lf ?h] =>
    let T := eval cbv beta in (forall (r : list dnode) (fuel : nat), (length r < fuel)%nat ->
                                 helper_call W lf h fuel (mk r) = Some (VInt (walk node r))) in
    assert (H : T);
    [ let r := fresh "r" in
      intros r; induction r as [|? ? ?];
      (let fuel := fresh "fuel" in let Hf := fresh "Hf" in intros fuel Hf; destruct fuel; [cbn in Hf; lia|]);
      [ rewrite walk_nil; cbn [helper_call]; run; fin2
      | cbn [length] in *; rewrite walk_cons; cbn [helper_call];
        repeat (first [progress sym | rew_call | atom2]); fin2 ]
    | repeat (first [progress sym | rew_call | atom2]); fin2 ]
  end.

Theorem code_get_lineno_is_model : forall (node : dnode) (ancs : list dnode),
  returned (get_lineno_ir code_get_lineno node ancs) = Some (VInt (get_lineno_chain node ancs)).
Proof.
  intros node ancs. rewrite get_lineno_chain_walk.
  unfold get_lineno_ir, run_fn, code_get_lineno. cbn [f_body f_helper].
  first
  [ (* a nested helper with one parameter: the ancestor *)
    solve [ get_lineno_rec node (fun r : list dnode => [match r with [] => VNone | _ :: _ => VNode r end]) ]
  | (* a helper that takes the node and the ancestor *)
    solve [ get_lineno_rec node (fun r : list dnode => [VNode (node :: ancs); match r with [] => VNone | _ :: _ => VNode r end]) ]
  | solve [ get_lineno_rec node (fun r : list dnode => [match r with [] => VNone | _ :: _ => VNode r end; VNode (node :: ancs)]) ]
  | (* the source written with a `while` loop that climbs to the first ancestor with a line: x is the loop variable *)
    solve [
  let body := eval unfold code_get_lineno_body in code_get_lineno_body in
  match body with
  | context [SWhile ?c _] =>
    match c with
    | context [EVar ?x] =>
  repeat (first [progress sym_nw | atom]);
  try (fin2; fail);
  match goal with
  | |- context [while_loop ?C ?B ?n ?e0 []] =>
      assert (HW : forall (r : list dnode) (k : nat) (e : env), (length r < k)%nat -> e x = chainval r ->
                exists e', while_loop C B k e [] = Some ([], e', ONormal) /\ e' x = chainval (strip r) /\
                           forall y, x <> y -> e' y = e y);
      [ induction r as [|a r IH]; intros k e Hk He; (destruct k as [|k]; [cbn in Hk; lia|]);
        [ exists e; cbn [while_loop]; sym_nw; rewrite He; sym_nw; auto
        | cbn [length] in Hk; cbn [while_loop strip]; sym_nw; rewrite He; sym_nw;
          destruct (n_line a =? 0) eqn:Ea; sym_nw; cbn [app];
          [ destruct (IH k (set e x (chainval r))) as [e' [Hw [Hx Hf]]];
            [ lia | unfold set; rewrite N.eqb_refl; reflexivity | ];
            exists e'; unfold chainval in Hw; rewrite Hw; split; [reflexivity|]; split; [exact Hx|];
            intros y Hy; rewrite (Hf y Hy); unfold set; destruct (N.eqb_spec x y); [contradiction|reflexivity]
          | exists e; auto ] ]
      | destruct (HW ancs n e0) as [e' [Hw [Hx Hf]]];
        [ cbn [length]; lia | unfold set; cbn; reflexivity | ];
        rewrite Hw; clear Hw HW;
        pose proof (strip_first ancs) as Hs; unfold walk;
        destruct (strip ancs) as [|a t] eqn:Est;
        [ rewrite Hs | destruct Hs as [Hs Hl]; rewrite Hs ];
        repeat (first [progress sym_nw | rewrite Hx | rewrite Hl | atom2]); fin2 ]
  end
    end
  end ] ].
Qed.

(* ---- reportErrors ------------------------------------------------------------------------------------------------ *)
(* what Model.Lines.report_errors does, as a list of effects *)
Definition report_errors_fx (o : obj) (errs : list perr) (section : text) (pe : parse_errors) : list effect :=
  match errs with
  | [] => []
  | _ =>
    if existsb (text_eqb (o_fullname o)) (pe_lookup section pe) then []
    else FxAdd section (o_fullname o)
         :: map (fun e => FxMsg (report_call o (bad_prefix section ++ pe_descr e) section (perr_offset e) (-1))) errs
  end.

Definition apply_fx (v : Z) (sp : sys_state * parse_errors) (f : effect) : sys_state * parse_errors :=
  match f with
  | FxMsg c => (msg v (fst sp) c, snd sp)
  | FxAdd s n => (fst sp, pe_add s n (snd sp))
  end.

Lemma fold_fx_msgs : forall v o section (l : list perr) st pe',
  fold_left (apply_fx v)
            (map (fun e => FxMsg (report_call o (bad_prefix section ++ pe_descr e) section (perr_offset e) (-1))) l) (st, pe')
  = (fold_left (fun s e => report v s o (bad_prefix section ++ pe_descr e) section (perr_offset e) (-1)) l st, pe').
Proof.
  intros v o section. induction l as [|a l IH]; intros st pe'; [reflexivity|].
  cbn [map fold_left apply_fx fst snd]. rewrite IH. reflexivity.
Qed.

Lemma report_errors_fx_model : forall v st pe o errs section,
  fold_left (apply_fx v) (report_errors_fx o errs section pe) (st, pe) = report_errors v st pe o errs section.
Proof.
  intros v st pe o errs section. unfold report_errors_fx, report_errors. destruct errs as [|e errs]; [reflexivity|].
  destruct (existsb (text_eqb (o_fullname o)) (pe_lookup section pe)); [reflexivity|].
  cbn [fold_left apply_fx fst snd]. apply (fold_fx_msgs v o section (e :: errs)).
Qed.

Lemma for_loop_gen : forall x (body : env -> res) (g : nat -> effect) k i e acc,
  (forall j e', (i <= j < i + k)%nat -> body (set e' x (VErr j)) = Some ([g j], set e' x (VErr j), ONormal)) ->
  exists e'', for_loop x body i k e acc = Some (acc ++ map g (seq i k), e'', ONormal).
Proof.
  intros x body g. induction k as [|k IH]; intros i e acc H.
  - exists e. cbn. rewrite app_nil_r. reflexivity.
  - cbn [for_loop seq map]. rewrite (H i e) by lia. cbn [bind].
    destruct (IH (S i) (set e x (VErr i)) (acc ++ [g i])) as [e'' He].
    + intros j e' Hj. apply H. lia.
    + exists e''. rewrite He. rewrite <- app_assoc. reflexivity.
Qed.

Lemma map_seq_nth : forall {X Y} (f : X -> Y) (d : Y) (l : list X),
  map (fun j => match nth_error l j with Some a => f a | None => d end) (seq 0 (length l)) = map f l.
Proof.
  intros X Y f d l. induction l as [|a l IH]; [reflexivity|].
  cbn [length seq map nth_error]. f_equal. rewrite <- seq_shift, map_map. cbn [nth_error]. exact IH.
Qed.

Ltac atom3 :=
  match goal with
  | |- context [existsb (text_eqb ?a) ?l] => let E := fresh "X" in destruct (existsb (text_eqb a) l) eqn:E
  | |- context [pe_stored ?p] => let E := fresh "P" in destruct (pe_stored p) eqn:E
  | _ => atom2
  end.

Theorem code_report_errors_is_model : forall (o : obj) (errs : list perr) (section : text) (pe : parse_errors),
  effects_of (report_errors_ir code_report_errors o errs section pe) = Some (report_errors_fx o errs section pe).
Proof.
  intros o errs section pe. unfold report_errors_ir, run_fn, code_report_errors, report_errors_fx. cbn [f_body f_helper].
  destruct errs as [|e0 errs0] eqn:Eerrs; [repeat (first [progress sym_nw | atom3]); fin2|].
  rewrite <- Eerrs. assert (Hlen : length errs = S (length errs0)) by (rewrite Eerrs; reflexivity).
  cbn [exec]. rewrite Hlen. repeat (first [progress sym_nw | atom3]); try (fin2; fail).
  match goal with
  | |- context [for_loop ?x ?B 0 ?k ?e []] =>
    destruct (for_loop_gen x B
                (fun j => match nth_error errs j with
                          | Some a => FxMsg (report_call o (bad_prefix section ++ pe_descr a) section (perr_offset a) (-1))
                          | None => FxAdd [] []
                          end) k 0 e []) as [e'' Hfor]
  end.
  { intros j e' Hj. destruct (nth_error errs j) as [a|] eqn:En; [|apply nth_error_None in En; lia].
    unfold perr_offset, perr_linenum, bad_prefix.
    repeat (first [progress sym_nw | rewrite En | atom3]); cbn [option_map];
      repeat (first [progress sym_nw | atom3]); fin. }
  rewrite Hfor. rewrite map_seq_nth. cbn. reflexivity.
Qed.
