(* Proofs/MroProofs.v -- lemmas behind Props/C05.v *)
From Coq Require Import ZArith NArith List Bool Lia Arith PeanoNat.
From PydoctorVerif Require Import Base.Sexp Spec.C3 Model.Mro.
Import ListNotations.

(* ================================================================================================
   0. small list facts
   ================================================================================================ *)
Lemma existsb_map_ {X Y} (f : Y -> bool) (g : X -> Y) l :
  existsb f (map g l) = existsb (fun x => f (g x)) l.
Proof. induction l as [|a l IH]; cbn; [reflexivity | now rewrite IH]. Qed.

Lemma existsb_ext_ {X} (f g : X -> bool) l :
  (forall x, In x l -> f x = g x) -> existsb f l = existsb g l.
Proof.
  induction l as [|a l IH]; cbn; intros H; [reflexivity|].
  rewrite H by now left. rewrite IH; [reflexivity|]. intros x Hx. apply H. now right.
Qed.

Lemma filter_length_le_ {X} (f : X -> bool) l : length (filter f l) <= length l.
Proof. induction l as [|a l IH]; cbn; [lia|]. destruct (f a); cbn; lia. Qed.

Lemma mem_true_iff c l : mem c l = true <-> In c l.
Proof.
  unfold mem. rewrite existsb_exists. split.
  - intros (x & Hx & He). apply N.eqb_eq in He. now subst.
  - intros H. exists c. split; [assumption | apply N.eqb_refl].
Qed.

Lemma mem_false_iff c l : mem c l = false <-> ~ In c l.
Proof.
  rewrite <- mem_true_iff. destruct (mem c l).
  - split; [discriminate | intros H; exfalso; apply H; reflexivity].
  - split; [intros _ H; discriminate | reflexivity].
Qed.

Lemma skipn_cons_nth (t : list N) r :
  r < length t -> skipn r t = nth r t 0%N :: skipn (S r) t.
Proof.
  revert r. induction t as [|a t IH]; cbn [length]; intros r Hr; [lia|].
  destruct r as [|r]; [reflexivity|]. cbn [skipn nth]. apply IH. lia.
Qed.

Lemma skipn_none (t : list N) r : length t <= r -> skipn r t = [].
Proof.
  revert r. induction t as [|a t IH]; intros r Hr; [now destruct r|].
  destruct r as [|r]; cbn [length] in Hr; [lia|]. cbn [skipn]. apply IH. lia.
Qed.

Lemma nth_seq_skipn (t : list N) k :
  map (fun j => nth j t 0%N) (seq k (length t - k)) = skipn k t.
Proof.
  revert k. induction t as [|a t IH]; intros k.
  - cbn. now destruct k.
  - destruct k as [|k].
    + cbn [length Nat.sub seq map skipn nth]. f_equal.
      rewrite <- seq_shift, map_map. cbn [nth].
      specialize (IH 0). rewrite Nat.sub_0_r in IH. cbn [skipn] in IH. exact IH.
    + cbn [length Nat.sub skipn]. rewrite <- seq_shift, map_map. cbn [nth]. apply IH.
Qed.

(* ================================================================================================
   1. _merge refines CPython's pmerge : simulation on suffixes
      deque_i = skipn remain_i to_merge_i
   ================================================================================================ *)
Definition as_spec (m : mres) : cres :=
  match m with MOk l => COk l | MValueError => CTypeError | MOutOfFuel => COutOfFuel end.

Definition suffix_of (jr : tuple * nat) : list cls := skipn (snd jr) (fst jr).
Definition view (to_merge : list tuple) (remain : list nat) : list (list cls) :=
  map suffix_of (combine to_merge remain).

Lemma d_tail_skipn (t : list N) r : d_tail (skipn r t) = skipn (S r) t.
Proof.
  destruct (Nat.lt_ge_cases r (length t)) as [H|H].
  - now rewrite (skipn_cons_nth t r H).
  - rewrite (skipn_none t r H), (skipn_none t (S r)); [reflexivity | lia].
Qed.

Lemma d_head_skipn (t : list N) r :
  d_head (skipn r t) = if Nat.leb (length t) r then None else Some (nth r t 0%N).
Proof.
  destruct (Nat.leb (length t) r) eqn:E.
  - apply Nat.leb_le in E. now rewrite skipn_none.
  - apply Nat.leb_gt in E. now rewrite skipn_cons_nth.
Qed.

Lemma tail_contains_view t r o : tail_contains t r o = mem o (d_tail (skipn r t)).
Proof.
  unfold tail_contains, GET_ITEM, GET_SIZE. rewrite d_tail_skipn, <- nth_seq_skipn.
  unfold mem. rewrite existsb_map_. apply existsb_ext_. intros x _. apply N.eqb_sym.
Qed.

Lemma in_tails_view to_merge remain c :
  in_tails c (view to_merge remain)
  = existsb (fun jr => tail_contains (fst jr) (snd jr) c) (combine to_merge remain).
Proof.
  unfold in_tails, view. rewrite existsb_map_. apply existsb_ext_. intros [t r] _.
  unfold suffix_of. cbn [fst snd]. symmetry. apply tail_contains_view.
Qed.

Definition count_empty (ls : list (list cls)) : nat :=
  length (filter (fun l => Nat.eqb (length l) 0) ls).

Lemma count_empty_le ls : count_empty ls <= length ls.
Proof. unfold count_empty. apply filter_length_le_. Qed.

Lemma exhausted_count ls : exhausted ls = Nat.eqb (count_empty ls) (length ls).
Proof.
  induction ls as [|l ls IH]; [reflexivity|].
  unfold exhausted, count_empty in *. cbn [forallb filter length].
  destruct (Nat.eqb (length l) 0) eqn:E; cbn [andb length].
  - rewrite IH. reflexivity.
  - symmetry. apply Nat.eqb_neq. pose proof (filter_length_le_ (fun l => Nat.eqb (length l) 0) ls). lia.
Qed.

Lemma exhausted_all_nil ls : exhausted ls = true -> forall l, In l ls -> l = [].
Proof.
  unfold exhausted. rewrite forallb_forall. intros H l Hl. specialize (H l Hl).
  apply Nat.eqb_eq in H. now destruct l.
Qed.

Lemma first_candidate_exhausted ls ls' :
  exhausted ls = true -> first_candidate (heads ls) ls' = None.
Proof.
  intros H. pose proof (exhausted_all_nil ls H) as Hn. clear H.
  induction ls as [|l ls IH]; [reflexivity|].
  cbn [heads map first_candidate]. rewrite (Hn l) by now left. cbn [d_head].
  apply IH. intros l' Hl'. apply Hn. now right.
Qed.

Definition all_truthy (ls : list (list cls)) : Prop :=
  forall l, In l ls -> forall c, In c l -> truthy c = true.

(* one `for i` pass of pmerge and the `for head in heads` loop of _merge choose the same candidate *)
Lemma scan_first_candidate to_merge remain rows e :
  (forall jr, In jr rows -> forall c, In c (fst jr) -> truthy c = true) ->
  match scan to_merge remain rows e with
  | Candidate c => first_candidate (heads (map suffix_of rows)) (view to_merge remain) = Some c
  | NoCandidate e' => first_candidate (heads (map suffix_of rows)) (view to_merge remain) = None
                      /\ e' = e + count_empty (map suffix_of rows)
  end.
Proof.
  revert e. induction rows as [|[t r] rows IH]; intros e Ht.
  - cbn. split; [reflexivity | lia].
  - cbn [scan map heads first_candidate]. fold (heads (map suffix_of rows)).
    change (suffix_of (t, r)) with (skipn r t). rewrite d_head_skipn. unfold GET_SIZE, tuple, cls in *.
    assert (Ht' : forall jr, In jr rows -> forall c, In c (fst jr) -> truthy c = true).
    { intros jr Hjr. apply Ht. now right. }
    destruct (Nat.leb (length t) r) eqn:E.
    + specialize (IH (S e) Ht'). destruct (scan to_merge remain rows (S e)) as [c|e'].
      * exact IH.
      * destruct IH as [IH1 IH2]. split; [exact IH1|].
        unfold count_empty in *. cbn [filter map]. change (suffix_of (t, r)) with (skipn r t).
        apply Nat.leb_le in E. rewrite (skipn_none t r E). cbn [length Nat.eqb]. lia.
    + apply Nat.leb_gt in E. unfold GET_ITEM.
      assert (Htr : truthy (nth r t 0%N) = true).
      { apply (Ht (t, r)); [now left|]. cbn [fst]. now apply nth_In. }
      rewrite Htr, in_tails_view. unfold tuple in *. cbn [andb].
      match goal with |- context [existsb ?F ?LL] => destruct (existsb F LL) eqn:Ex end; cbn [negb].
      * specialize (IH e Ht'). destruct (scan to_merge remain rows e) as [c|e'].
        -- exact IH.
        -- destruct IH as [IH1 IH2]. split; [exact IH1|].
           unfold count_empty in *. cbn [filter map]. change (suffix_of (t, r)) with (skipn r t).
           rewrite (skipn_cons_nth t r E). cbn [length Nat.eqb]. exact IH2.
      * reflexivity.
Qed.

Lemma combine_map_combine {X} (F : tuple * nat -> X) (g : tuple * nat -> nat) to_merge remain :
  map F (combine to_merge (map g (combine to_merge remain)))
  = map (fun jr => F (fst jr, g jr)) (combine to_merge remain).
Proof.
  revert remain. induction to_merge as [|t tm IH]; intros remain; [reflexivity|].
  destruct remain as [|r rm]; [reflexivity|]. cbn [combine map fst]. f_equal. apply IH.
Qed.

(* popleft on every deque whose head is the candidate  =  remain[j]++ on every such array *)
Lemma dl_remove_view to_merge remain c :
  dl_remove c (view to_merge remain) = view to_merge (advance to_merge remain c).
Proof.
  unfold view, advance, dl_remove. rewrite combine_map_combine, map_map.
  apply map_ext. intros [t r]. unfold suffix_of. cbn [fst snd]. unfold GET_SIZE, GET_ITEM.
  destruct (Nat.ltb r (length t)) eqn:E; cbn [andb].
  - apply Nat.ltb_lt in E. rewrite (skipn_cons_nth t r E).
    destruct (N.eqb (nth r t 0%N) c); [reflexivity|]. now rewrite <- skipn_cons_nth.
  - apply Nat.ltb_ge in E. now rewrite (skipn_none t r E).
Qed.

Lemma advance_length to_merge remain c :
  length remain = length to_merge -> length (advance to_merge remain c) = length to_merge.
Proof. intros H. unfold advance. rewrite map_length, combine_length. lia. Qed.

Lemma view_length to_merge remain :
  length remain = length to_merge -> length (view to_merge remain) = length to_merge.
Proof. intros H. unfold view. rewrite map_length, combine_length. lia. Qed.

Lemma merge_loop_refines f : forall to_merge remain acc,
  length remain = length to_merge -> all_truthy to_merge ->
  as_spec (merge_loop f (view to_merge remain) acc) = pmerge_loop f to_merge remain acc.
Proof.
  induction f as [|f IH]; intros tm rm acc Hlen Ht; [reflexivity|].
  cbn [merge_loop pmerge_loop].
  assert (Hrows : forall jr, In jr (combine tm rm) -> forall c, In c (fst jr) -> truthy c = true).
  { intros [t r] Hjr c Hc. apply (Ht t); [|exact Hc]. eapply in_combine_l. exact Hjr. }
  match goal with |- context [scan ?a1 ?a2 ?a3 ?a4] =>
    pose proof (scan_first_candidate a1 a2 a3 a4 Hrows) as Hs; destruct (scan a1 a2 a3 a4) as [c|e] end;
  change (map suffix_of (combine tm rm)) with (view tm rm) in Hs.
  - destruct (exhausted (view tm rm)) eqn:Ex.
    + rewrite (first_candidate_exhausted _ _ Ex) in Hs. discriminate.
    + rewrite Hs, dl_remove_view. apply IH; [now apply advance_length | exact Ht].
  - destruct Hs as [Hs He]. rewrite exhausted_count, (view_length tm rm Hlen).
    cbn [Nat.add] in He. subst e. unfold tuple, cls in *.
    destruct (Nat.eqb (count_empty (view tm rm)) (length tm)); [reflexivity|].
    now rewrite Hs.
Qed.

Lemma view_zero to_merge : view to_merge (repeat 0 (length to_merge)) = to_merge.
Proof.
  unfold view. induction to_merge as [|t tm IH]; [reflexivity|].
  cbn [length repeat combine map]. now rewrite IH.
Qed.

Lemma total_len_size ls : total_len ls = total_size ls.
Proof. reflexivity. Qed.

Lemma merge_refines ls : all_truthy ls -> as_spec (merge ls) = pmerge [] ls.
Proof.
  intros Ht. unfold merge, pmerge. rewrite <- (view_zero ls) at 2. rewrite total_len_size.
  apply merge_loop_refines; [apply repeat_length | exact Ht].
Qed.

(* ================================================================================================
   2. fuel of _merge
   ================================================================================================ *)
Definition rm1 (c : cls) (d : list cls) : list cls :=
  match d with [] => d | x :: t => if N.eqb x c then t else d end.

Lemma dl_remove_map c ls : dl_remove c ls = map (rm1 c) ls.
Proof. reflexivity. Qed.

Lemma rm1_length c d : length (rm1 c d) <= length d.
Proof. destruct d as [|x t]; cbn; [lia|]. destruct (N.eqb x c); cbn; lia. Qed.

Lemma total_len_cons l ls : total_len (l :: ls) = length l + total_len ls.
Proof. reflexivity. Qed.

Lemma dl_remove_cons c l ls : dl_remove c (l :: ls) = rm1 c l :: dl_remove c ls.
Proof. reflexivity. Qed.

Lemma total_len_remove_le c ls : total_len (dl_remove c ls) <= total_len ls.
Proof.
  induction ls as [|l ls IH]; [cbn; lia|].
  rewrite dl_remove_cons, !total_len_cons. pose proof (rm1_length c l). lia.
Qed.

Lemma total_len_remove_lt c ls l :
  In l ls -> d_head l = Some c -> total_len (dl_remove c ls) < total_len ls.
Proof.
  induction ls as [|l0 ls IH]; intros Hin Hh; [contradiction|].
  rewrite dl_remove_cons, !total_len_cons.
  destruct Hin as [->|Hin].
  - destruct l as [|x t]; [discriminate|]. cbn in Hh. injection Hh as ->.
    cbn [rm1]. rewrite N.eqb_refl. pose proof (total_len_remove_le c ls). cbn [length]. lia.
  - specialize (IH Hin Hh). pose proof (rm1_length c l0). lia.
Qed.

(* what the for loop of _merge breaks on *)
Lemma first_candidate_some ls ls' c :
  first_candidate (heads ls) ls' = Some c ->
  (exists l, In l ls /\ d_head l = Some c) /\ truthy c = true /\ in_tails c ls' = false.
Proof.
  induction ls as [|l ls IH]; [discriminate|].
  cbn [heads map first_candidate]. fold (heads ls).
  destruct (d_head l) as [x|] eqn:Hh.
  - destruct (truthy x && negb (in_tails x ls')) eqn:E.
    + intros H. injection H as ->. apply andb_true_iff in E. destruct E as [E1 E2].
      apply negb_true_iff in E2. split; [|split]; [|assumption|assumption].
      exists l. split; [now left | assumption].
    + intros H. destruct (IH H) as [(l' & Hl' & Hh') R]. split; [|exact R].
      exists l'. split; [now right | assumption].
  - intros H. destruct (IH H) as [(l' & Hl' & Hh') R]. split; [|exact R].
    exists l'. split; [now right | assumption].
Qed.

Lemma merge_loop_fuel f : forall ls acc, total_len ls < f -> merge_loop f ls acc <> MOutOfFuel.
Proof.
  induction f as [|f IH]; intros ls acc Hf; [lia|].
  cbn [merge_loop]. destruct (exhausted ls); [discriminate|].
  destruct (first_candidate (heads ls) ls) as [c|] eqn:Hc; [|discriminate].
  apply IH. destruct (first_candidate_some _ _ _ Hc) as [(l & Hl & Hh) _].
  pose proof (total_len_remove_lt c ls l Hl Hh). lia.
Qed.

Lemma merge_fuel ls : merge ls <> MOutOfFuel.
Proof. unfold merge. apply merge_loop_fuel. lia. Qed.

(* ================================================================================================
   3. what a successful _merge returns (independent of CPython's formulation)
   ================================================================================================ *)
Lemma merge_loop_acc f : forall ls acc,
  merge_loop f ls acc = match merge_loop f ls [] with MOk r => MOk (acc ++ r) | e => e end.
Proof.
  induction f as [|f IH]; intros ls acc; [reflexivity|].
  cbn [merge_loop]. destruct (exhausted ls).
  - now rewrite app_nil_r.
  - destruct (first_candidate (heads ls) ls) as [c|]; [|reflexivity].
    rewrite (IH _ (acc ++ [c])), (IH _ ([] ++ [c])).
    destruct (merge_loop f (dl_remove c ls) []); try reflexivity.
    now rewrite <- app_assoc.
Qed.

Inductive Merges : list (list cls) -> list cls -> Prop :=
| Merges_done : forall ls, exhausted ls = true -> Merges ls []
| Merges_step : forall ls c r,
    exhausted ls = false -> first_candidate (heads ls) ls = Some c ->
    Merges (dl_remove c ls) r -> Merges ls (c :: r).

Lemma merge_loop_Merges f : forall ls r, merge_loop f ls [] = MOk r -> Merges ls r.
Proof.
  induction f as [|f IH]; intros ls r; [discriminate|].
  cbn [merge_loop]. destruct (exhausted ls) eqn:Ex.
  - intros H. injection H as <-. now constructor.
  - destruct (first_candidate (heads ls) ls) as [c|] eqn:Hc; [|discriminate].
    rewrite merge_loop_acc. destruct (merge_loop f (dl_remove c ls) []) as [r'| |] eqn:Hm; try discriminate.
    intros H. injection H as <-. cbn [app]. apply Merges_step; [assumption | assumption | now apply IH].
Qed.

Lemma merge_Merges ls r : merge ls = MOk r -> Merges ls r.
Proof. apply merge_loop_Merges. Qed.

Lemma rm1_in c l x : In x (rm1 c l) -> In x l.
Proof.
  destruct l as [|y t]; cbn [rm1]; [trivial|]. destruct (N.eqb y c); [now right | trivial].
Qed.

Lemma in_rm1 c l x : In x l -> x = c \/ In x (rm1 c l).
Proof.
  destruct l as [|y t]; cbn [rm1]; [contradiction|].
  destruct (N.eqb y c) eqn:E; [|now right].
  apply N.eqb_eq in E. subst y. intros [->|H]; [now left | now right].
Qed.

Lemma in_tails_false c ls : in_tails c ls = false -> forall l, In l ls -> ~ In c (d_tail l).
Proof.
  unfold in_tails. intros H l Hl Hc.
  assert (existsb (fun l => mem c (d_tail l)) ls = true) as E.
  { apply existsb_exists. exists l. split; [assumption | now apply mem_true_iff]. }
  rewrite H in E. discriminate.
Qed.

(* the candidate is gone from every list once it has been removed *)
Lemma candidate_gone c ls l' :
  in_tails c ls = false -> In l' (dl_remove c ls) -> ~ In c l'.
Proof.
  intros Ht Hl'. rewrite dl_remove_map in Hl'. apply in_map_iff in Hl'. destruct Hl' as (l & <- & Hl).
  pose proof (in_tails_false c ls Ht l Hl) as Hn.
  destruct l as [|y t]; cbn [rm1]; [tauto|]. cbn [d_tail] in Hn.
  destruct (N.eqb y c) eqn:E; [exact Hn|].
  apply N.eqb_neq in E. intros [->|H]; [now apply E | now apply Hn].
Qed.

(* P1: the result consists of exactly the elements of the lists *)
Lemma Merges_elements ls r : Merges ls r -> forall x, In x r <-> exists l, In l ls /\ In x l.
Proof.
  induction 1 as [ls Ex | ls c r Ex Hc HM IH]; intros x.
  - split; [contradiction|]. intros (l & Hl & Hx). rewrite (exhausted_all_nil ls Ex l Hl) in Hx. contradiction.
  - destruct (first_candidate_some _ _ _ Hc) as [(l0 & Hl0 & Hh0) _]. split.
    + intros [<-|Hx].
      * exists l0. split; [assumption|]. destruct l0; [discriminate|]. cbn in Hh0. injection Hh0 as ->. now left.
      * apply IH in Hx. destruct Hx as (l' & Hl' & Hx). rewrite dl_remove_map in Hl'.
        apply in_map_iff in Hl'. destruct Hl' as (l & <- & Hl). exists l. split; [assumption|].
        eapply rm1_in. exact Hx.
    + intros (l & Hl & Hx). destruct (in_rm1 c l x Hx) as [->|Hx']; [now left|]. right.
      apply IH. exists (rm1 c l). split; [|assumption]. rewrite dl_remove_map. now apply in_map.
Qed.

(* P2: no class is listed twice *)
Lemma Merges_NoDup ls r : Merges ls r -> NoDup r.
Proof.
  induction 1 as [ls Ex | ls c r Ex Hc HM IH]; [constructor|].
  constructor; [|assumption]. intros Hin.
  destruct (first_candidate_some _ _ _ Hc) as (_ & _ & Ht).
  apply (Merges_elements _ _ HM) in Hin. destruct Hin as (l' & Hl' & Hx).
  exact (candidate_gone c ls l' Ht Hl' Hx).
Qed.

(* P3: every input list keeps its order in the result *)
Lemma Merges_subseq ls r : Merges ls r -> forall l, In l ls -> subseq l r.
Proof.
  induction 1 as [ls Ex | ls c r Ex Hc HM IH]; intros l Hl.
  - rewrite (exhausted_all_nil ls Ex l Hl). constructor.
  - assert (Hr : subseq (rm1 c l) r).
    { apply IH. rewrite dl_remove_map. now apply in_map. }
    destruct l as [|y t]; [constructor|]. cbn [rm1] in Hr.
    destruct (N.eqb y c) eqn:E.
    + apply N.eqb_eq in E. subst y. now constructor.
    + now constructor.
Qed.

Lemma subseq_in l r : subseq l r -> forall x, In x l -> In x r.
Proof.
  induction 1 as [l | x l1 l2 H IH | x l1 l2 H IH]; intros y Hy.
  - contradiction.
  - destruct Hy as [->|Hy]; [now left | right; now apply IH].
  - right. now apply IH.
Qed.

Lemma subseq_NoDup l r : subseq l r -> NoDup r -> NoDup l.
Proof.
  induction 1 as [l | x l1 l2 H IH | x l1 l2 H IH]; intros Hn.
  - constructor.
  - inversion Hn as [|? ? Hx Hn']; subst. constructor; [|now apply IH].
    intros Hin. apply Hx. eapply subseq_in; eassumption.
  - inversion Hn; subst. now apply IH.
Qed.

Lemma subseq_refl l : subseq l l.
Proof. induction l; constructor; assumption. Qed.

(* a list that names a class twice can never be merged *)
Lemma merge_dup_fails ls l : In l ls -> ~ NoDup l -> merge ls = MValueError.
Proof.
  intros Hl Hd. destruct (merge ls) as [r| |] eqn:Hm.
  - exfalso. apply Hd. pose proof (merge_Merges ls r Hm) as HM.
    eapply subseq_NoDup; [eapply Merges_subseq; eassumption | eapply Merges_NoDup; eassumption].
  - reflexivity.
  - exfalso. exact (merge_fuel ls Hm).
Qed.

(* merging a single duplicate-free list gives it back *)
Lemma merge_loop_single f : forall l acc,
  NoDup l -> (forall c, In c l -> truthy c = true) -> length l < f ->
  merge_loop f [l; []] acc = MOk (acc ++ l).
Proof.
  induction f as [|f IH]; intros l acc Hn Ht Hf; [lia|].
  destruct l as [|x t].
  - cbn. now rewrite app_nil_r.
  - cbn [merge_loop exhausted forallb length Nat.eqb andb heads map d_head first_candidate].
    rewrite (Ht x) by now left.
    inversion Hn as [|? ? Hx Hn']; subst.
    assert (Hit : in_tails x [x :: t; []] = false).
    { unfold in_tails. cbn [existsb d_tail]. apply mem_false_iff in Hx. rewrite Hx. reflexivity. }
    rewrite Hit. cbn [andb negb dl_remove map]. rewrite N.eqb_refl.
    rewrite IH; [now rewrite <- app_assoc | assumption | | cbn [length] in Hf; lia].
    intros c Hc. apply Ht. now right.
Qed.

Lemma merge_single_base b rest :
  NoDup (b :: rest) -> (forall c, In c (b :: rest) -> truthy c = true) ->
  merge [b :: rest; [b]] = MOk (b :: rest).
Proof.
  intros Hn Ht. unfold merge.
  cbn [total_len fold_right length merge_loop exhausted forallb Nat.eqb andb heads map d_head first_candidate].
  rewrite (Ht b) by now left.
  inversion Hn as [|? ? Hx Hn']; subst.
  assert (Hit : in_tails b [b :: rest; [b]] = false).
  { unfold in_tails. cbn [existsb d_tail mem]. apply mem_false_iff in Hx. unfold mem in Hx. rewrite Hx. reflexivity. }
  rewrite Hit. cbn [andb negb dl_remove map]. rewrite N.eqb_refl.
  rewrite merge_loop_single; [reflexivity | assumption | | lia].
  intros c Hc. apply Ht. now right.
Qed.
