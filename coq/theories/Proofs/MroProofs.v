(* Proofs/MroProofs.v -- lemmas behind Props/C05.v *)
From Coq Require Import ZArith NArith List Bool Lia Arith PeanoNat.
From PydoctorVerif Require Import Base.Sexp Spec.C3 Model.Mro.
Import ListNotations.

(* ================================================================================================
   0. small list facts
   ================================================================================================ *)
Lemma existsb_map_ {X Y} (f : Y -> bool) (g : X -> Y) l :
  existsb f (map g l) = existsb (fun x => f (g x)) l.
Proof. induction l as [|a l IH]; cbn; [reflexivity | now rewrite IH]. Qed.

Lemma existsb_ext_ {X} (f g : X -> bool) l :
  (forall x, In x l -> f x = g x) -> existsb f l = existsb g l.
Proof.
  induction l as [|a l IH]; cbn; intros H; [reflexivity|].
  rewrite H by now left. rewrite IH; [reflexivity|]. intros x Hx. apply H. now right.
Qed.

Lemma filter_length_le_ {X} (f : X -> bool) l : length (filter f l) <= length l.
Proof. induction l as [|a l IH]; cbn; [lia|]. destruct (f a); cbn; lia. Qed.

Lemma mem_true_iff c l : mem c l = true <-> In c l.
Proof.
  unfold mem. rewrite existsb_exists. split.
  - intros (x & Hx & He). apply N.eqb_eq in He. now subst.
  - intros H. exists c. split; [assumption | apply N.eqb_refl].
Qed.

Lemma mem_false_iff c l : mem c l = false <-> ~ In c l.
Proof.
  rewrite <- mem_true_iff. destruct (mem c l).
  - split; [discriminate | intros H; exfalso; apply H; reflexivity].
  - split; [intros _ H; discriminate | reflexivity].
Qed.

Lemma skipn_cons_nth (t : list N) r :
  r < length t -> skipn r t = nth r t 0%N :: skipn (S r) t.
Proof.
  revert r. induction t as [|a t IH]; cbn [length]; intros r Hr; [lia|].
  destruct r as [|r]; [reflexivity|]. cbn [skipn nth]. apply IH. lia.
Qed.

Lemma skipn_none (t : list N) r : length t <= r -> skipn r t = [].
Proof.
  revert r. induction t as [|a t IH]; intros r Hr; [now destruct r|].
  destruct r as [|r]; cbn [length] in Hr; [lia|]. cbn [skipn]. apply IH. lia.
Qed.

Lemma nth_seq_skipn (t : list N) k :
  map (fun j => nth j t 0%N) (seq k (length t - k)) = skipn k t.
Proof.
  revert k. induction t as [|a t IH]; intros k.
  - cbn. now destruct k.
  - destruct k as [|k].
    + cbn [length Nat.sub seq map skipn nth]. f_equal.
      rewrite <- seq_shift, map_map. cbn [nth].
      specialize (IH 0). rewrite Nat.sub_0_r in IH. cbn [skipn] in IH. exact IH.
    + cbn [length Nat.sub skipn]. rewrite <- seq_shift, map_map. cbn [nth]. apply IH.
Qed.

(* ================================================================================================
   1. _merge refines CPython's pmerge : simulation on suffixes
      deque_i = skipn remain_i to_merge_i
   ================================================================================================ *)
Definition as_spec (m : mres) : cres :=
  match m with MOk l => COk l | MValueError => CTypeError | MOutOfFuel => COutOfFuel end.

Definition suffix_of (jr : tuple * nat) : list cls := skipn (snd jr) (fst jr).
Definition view (to_merge : list tuple) (remain : list nat) : list (list cls) :=
  map suffix_of (combine to_merge remain).

Lemma d_tail_skipn (t : list N) r : d_tail (skipn r t) = skipn (S r) t.
Proof.
  destruct (Nat.lt_ge_cases r (length t)) as [H|H].
  - now rewrite (skipn_cons_nth t r H).
  - rewrite (skipn_none t r H), (skipn_none t (S r)); [reflexivity | lia].
Qed.

Lemma d_head_skipn (t : list N) r :
  d_head (skipn r t) = if Nat.leb (length t) r then None else Some (nth r t 0%N).
Proof.
  destruct (Nat.leb (length t) r) eqn:E.
  - apply Nat.leb_le in E. now rewrite skipn_none.
  - apply Nat.leb_gt in E. now rewrite skipn_cons_nth.
Qed.

Lemma tail_contains_view t r o : tail_contains t r o = mem o (d_tail (skipn r t)).
Proof.
  unfold tail_contains, GET_ITEM, GET_SIZE. rewrite d_tail_skipn, <- nth_seq_skipn.
  unfold mem. rewrite existsb_map_. apply existsb_ext_. intros x _. apply N.eqb_sym.
Qed.

Lemma in_tails_view to_merge remain c :
  in_tails c (view to_merge remain)
  = existsb (fun jr => tail_contains (fst jr) (snd jr) c) (combine to_merge remain).
Proof.
  unfold in_tails, view. rewrite existsb_map_. apply existsb_ext_. intros [t r] _.
  unfold suffix_of. cbn [fst snd]. symmetry. apply tail_contains_view.
Qed.

Definition count_empty (ls : list (list cls)) : nat :=
  length (filter (fun l => Nat.eqb (length l) 0) ls).

Lemma count_empty_le ls : count_empty ls <= length ls.
Proof. unfold count_empty. apply filter_length_le_. Qed.

Lemma exhausted_count ls : exhausted ls = Nat.eqb (count_empty ls) (length ls).
Proof.
  induction ls as [|l ls IH]; [reflexivity|].
  unfold exhausted, count_empty in *. cbn [forallb filter length].
  destruct (Nat.eqb (length l) 0) eqn:E; cbn [andb length].
  - rewrite IH. reflexivity.
  - symmetry. apply Nat.eqb_neq. pose proof (filter_length_le_ (fun l => Nat.eqb (length l) 0) ls). lia.
Qed.

Lemma exhausted_all_nil ls : exhausted ls = true -> forall l, In l ls -> l = [].
Proof.
  unfold exhausted. rewrite forallb_forall. intros H l Hl. specialize (H l Hl).
  apply Nat.eqb_eq in H. now destruct l.
Qed.

Lemma first_candidate_exhausted ls ls' :
  exhausted ls = true -> first_candidate (heads ls) ls' = None.
Proof.
  intros H. pose proof (exhausted_all_nil ls H) as Hn. clear H.
  induction ls as [|l ls IH]; [reflexivity|].
  cbn [heads map first_candidate]. rewrite (Hn l) by now left. cbn [d_head].
  apply IH. intros l' Hl'. apply Hn. now right.
Qed.

Definition all_truthy (ls : list (list cls)) : Prop :=
  forall l, In l ls -> forall c, In c l -> truthy c = true.

(* one `for i` pass of pmerge and the `for head in heads` loop of _merge choose the same candidate *)
Lemma scan_first_candidate to_merge remain rows e :
  (forall jr, In jr rows -> forall c, In c (fst jr) -> truthy c = true) ->
  match scan to_merge remain rows e with
  | Candidate c => first_candidate (heads (map suffix_of rows)) (view to_merge remain) = Some c
  | NoCandidate e' => first_candidate (heads (map suffix_of rows)) (view to_merge remain) = None
                      /\ e' = e + count_empty (map suffix_of rows)
  end.
Proof.
  revert e. induction rows as [|[t r] rows IH]; intros e Ht.
  - cbn. split; [reflexivity | lia].
  - cbn [scan map heads first_candidate]. fold (heads (map suffix_of rows)).
    change (suffix_of (t, r)) with (skipn r t). rewrite d_head_skipn. unfold GET_SIZE, tuple, cls in *.
    assert (Ht' : forall jr, In jr rows -> forall c, In c (fst jr) -> truthy c = true).
    { intros jr Hjr. apply Ht. now right. }
    destruct (Nat.leb (length t) r) eqn:E.
    + specialize (IH (S e) Ht'). destruct (scan to_merge remain rows (S e)) as [c|e'].
      * exact IH.
      * destruct IH as [IH1 IH2]. split; [exact IH1|].
        unfold count_empty in *. cbn [filter map]. change (suffix_of (t, r)) with (skipn r t).
        apply Nat.leb_le in E. rewrite (skipn_none t r E). cbn [length Nat.eqb]. lia.
    + apply Nat.leb_gt in E. unfold GET_ITEM.
      assert (Htr : truthy (nth r t 0%N) = true).
      { apply (Ht (t, r)); [now left|]. cbn [fst]. now apply nth_In. }
      rewrite Htr, in_tails_view. unfold tuple in *. cbn [andb].
      match goal with |- context [existsb ?F ?LL] => destruct (existsb F LL) eqn:Ex end; cbn [negb].
      * specialize (IH e Ht'). destruct (scan to_merge remain rows e) as [c|e'].
        -- exact IH.
        -- destruct IH as [IH1 IH2]. split; [exact IH1|].
           unfold count_empty in *. cbn [filter map]. change (suffix_of (t, r)) with (skipn r t).
           rewrite (skipn_cons_nth t r E). cbn [length Nat.eqb]. exact IH2.
      * reflexivity.
Qed.

Lemma combine_map_combine {X} (F : tuple * nat -> X) (g : tuple * nat -> nat) to_merge remain :
  map F (combine to_merge (map g (combine to_merge remain)))
  = map (fun jr => F (fst jr, g jr)) (combine to_merge remain).
Proof.
  revert remain. induction to_merge as [|t tm IH]; intros remain; [reflexivity|].
  destruct remain as [|r rm]; [reflexivity|]. cbn [combine map fst]. f_equal. apply IH.
Qed.

(* popleft on every deque whose head is the candidate  =  remain[j]++ on every such array *)
Lemma dl_remove_view to_merge remain c :
  dl_remove c (view to_merge remain) = view to_merge (advance to_merge remain c).
Proof.
  unfold view, advance, dl_remove. rewrite combine_map_combine, map_map.
  apply map_ext. intros [t r]. unfold suffix_of. cbn [fst snd]. unfold GET_SIZE, GET_ITEM.
  destruct (Nat.ltb r (length t)) eqn:E; cbn [andb].
  - apply Nat.ltb_lt in E. rewrite (skipn_cons_nth t r E).
    destruct (N.eqb (nth r t 0%N) c); [reflexivity|]. now rewrite <- skipn_cons_nth.
  - apply Nat.ltb_ge in E. now rewrite (skipn_none t r E).
Qed.

Lemma advance_length to_merge remain c :
  length remain = length to_merge -> length (advance to_merge remain c) = length to_merge.
Proof. intros H. unfold advance. rewrite map_length, combine_length. lia. Qed.

Lemma view_length to_merge remain :
  length remain = length to_merge -> length (view to_merge remain) = length to_merge.
Proof. intros H. unfold view. rewrite map_length, combine_length. lia. Qed.

Lemma merge_loop_refines f : forall to_merge remain acc,
  length remain = length to_merge -> all_truthy to_merge ->
  as_spec (merge_loop f (view to_merge remain) acc) = pmerge_loop f to_merge remain acc.
Proof.
  induction f as [|f IH]; intros tm rm acc Hlen Ht; [reflexivity|].
  cbn [merge_loop pmerge_loop].
  assert (Hrows : forall jr, In jr (combine tm rm) -> forall c, In c (fst jr) -> truthy c = true).
  { intros [t r] Hjr c Hc. apply (Ht t); [|exact Hc]. eapply in_combine_l. exact Hjr. }
  match goal with |- context [scan ?a1 ?a2 ?a3 ?a4] =>
    pose proof (scan_first_candidate a1 a2 a3 a4 Hrows) as Hs; destruct (scan a1 a2 a3 a4) as [c|e] end;
  change (map suffix_of (combine tm rm)) with (view tm rm) in Hs.
  - destruct (exhausted (view tm rm)) eqn:Ex.
    + rewrite (first_candidate_exhausted _ _ Ex) in Hs. discriminate.
    + rewrite Hs, dl_remove_view. apply IH; [now apply advance_length | exact Ht].
  - destruct Hs as [Hs He]. rewrite exhausted_count, (view_length tm rm Hlen).
    cbn [Nat.add] in He. subst e. unfold tuple, cls in *.
    destruct (Nat.eqb (count_empty (view tm rm)) (length tm)); [reflexivity|].
    now rewrite Hs.
Qed.

Lemma view_zero to_merge : view to_merge (repeat 0 (length to_merge)) = to_merge.
Proof.
  unfold view. induction to_merge as [|t tm IH]; [reflexivity|].
  cbn [length repeat combine map]. now rewrite IH.
Qed.

Lemma total_len_size ls : total_len ls = total_size ls.
Proof. reflexivity. Qed.

Lemma merge_refines ls : all_truthy ls -> as_spec (merge ls) = pmerge [] ls.
Proof.
  intros Ht. unfold merge, pmerge. rewrite <- (view_zero ls) at 2. rewrite total_len_size.
  apply merge_loop_refines; [apply repeat_length | exact Ht].
Qed.

(* ================================================================================================
   2. fuel of _merge
   ================================================================================================ *)
Definition rm1 (c : cls) (d : list cls) : list cls :=
  match d with [] => d | x :: t => if N.eqb x c then t else d end.

Lemma dl_remove_map c ls : dl_remove c ls = map (rm1 c) ls.
Proof. reflexivity. Qed.

Lemma rm1_length c d : length (rm1 c d) <= length d.
Proof. destruct d as [|x t]; cbn; [lia|]. destruct (N.eqb x c); cbn; lia. Qed.

Lemma total_len_cons l ls : total_len (l :: ls) = length l + total_len ls.
Proof. reflexivity. Qed.

Lemma dl_remove_cons c l ls : dl_remove c (l :: ls) = rm1 c l :: dl_remove c ls.
Proof. reflexivity. Qed.

Lemma total_len_remove_le c ls : total_len (dl_remove c ls) <= total_len ls.
Proof.
  induction ls as [|l ls IH]; [cbn; lia|].
  rewrite dl_remove_cons, !total_len_cons. pose proof (rm1_length c l). lia.
Qed.

Lemma total_len_remove_lt c ls l :
  In l ls -> d_head l = Some c -> total_len (dl_remove c ls) < total_len ls.
Proof.
  induction ls as [|l0 ls IH]; intros Hin Hh; [contradiction|].
  rewrite dl_remove_cons, !total_len_cons.
  destruct Hin as [->|Hin].
  - destruct l as [|x t]; [discriminate|]. cbn in Hh. injection Hh as ->.
    cbn [rm1]. rewrite N.eqb_refl. pose proof (total_len_remove_le c ls). cbn [length]. lia.
  - specialize (IH Hin Hh). pose proof (rm1_length c l0). lia.
Qed.

(* what the for loop of _merge breaks on *)
Lemma first_candidate_some ls ls' c :
  first_candidate (heads ls) ls' = Some c ->
  (exists l, In l ls /\ d_head l = Some c) /\ truthy c = true /\ in_tails c ls' = false.
Proof.
  induction ls as [|l ls IH]; [discriminate|].
  cbn [heads map first_candidate]. fold (heads ls).
  destruct (d_head l) as [x|] eqn:Hh.
  - destruct (truthy x && negb (in_tails x ls')) eqn:E.
    + intros H. injection H as ->. apply andb_true_iff in E. destruct E as [E1 E2].
      apply negb_true_iff in E2. split; [|split]; [|assumption|assumption].
      exists l. split; [now left | assumption].
    + intros H. destruct (IH H) as [(l' & Hl' & Hh') R]. split; [|exact R].
      exists l'. split; [now right | assumption].
  - intros H. destruct (IH H) as [(l' & Hl' & Hh') R]. split; [|exact R].
    exists l'. split; [now right | assumption].
Qed.

Lemma merge_loop_fuel f : forall ls acc, total_len ls < f -> merge_loop f ls acc <> MOutOfFuel.
Proof.
  induction f as [|f IH]; intros ls acc Hf; [lia|].
  cbn [merge_loop]. destruct (exhausted ls); [discriminate|].
  destruct (first_candidate (heads ls) ls) as [c|] eqn:Hc; [|discriminate].
  apply IH. destruct (first_candidate_some _ _ _ Hc) as [(l & Hl & Hh) _].
  pose proof (total_len_remove_lt c ls l Hl Hh). lia.
Qed.

Lemma merge_fuel ls : merge ls <> MOutOfFuel.
Proof. unfold merge. apply merge_loop_fuel. lia. Qed.

(* ================================================================================================
   3. what a successful _merge returns (independent of CPython's formulation)
   ================================================================================================ *)
Lemma merge_loop_acc f : forall ls acc,
  merge_loop f ls acc = match merge_loop f ls [] with MOk r => MOk (acc ++ r) | e => e end.
Proof.
  induction f as [|f IH]; intros ls acc; [reflexivity|].
  cbn [merge_loop]. destruct (exhausted ls).
  - now rewrite app_nil_r.
  - destruct (first_candidate (heads ls) ls) as [c|]; [|reflexivity].
    rewrite (IH _ (acc ++ [c])), (IH _ ([] ++ [c])).
    destruct (merge_loop f (dl_remove c ls) []); try reflexivity.
    now rewrite <- app_assoc.
Qed.

Inductive Merges : list (list cls) -> list cls -> Prop :=
| Merges_done : forall ls, exhausted ls = true -> Merges ls []
| Merges_step : forall ls c r,
    exhausted ls = false -> first_candidate (heads ls) ls = Some c ->
    Merges (dl_remove c ls) r -> Merges ls (c :: r).

Lemma merge_loop_Merges f : forall ls r, merge_loop f ls [] = MOk r -> Merges ls r.
Proof.
  induction f as [|f IH]; intros ls r; [discriminate|].
  cbn [merge_loop]. destruct (exhausted ls) eqn:Ex.
  - intros H. injection H as <-. now constructor.
  - destruct (first_candidate (heads ls) ls) as [c|] eqn:Hc; [|discriminate].
    rewrite merge_loop_acc. destruct (merge_loop f (dl_remove c ls) []) as [r'| |] eqn:Hm; try discriminate.
    intros H. injection H as <-. cbn [app]. apply Merges_step; [assumption | assumption | now apply IH].
Qed.

Lemma merge_Merges ls r : merge ls = MOk r -> Merges ls r.
Proof. apply merge_loop_Merges. Qed.

Lemma rm1_in c l x : In x (rm1 c l) -> In x l.
Proof.
  destruct l as [|y t]; cbn [rm1]; [trivial|]. destruct (N.eqb y c); [now right | trivial].
Qed.

Lemma in_rm1 c l x : In x l -> x = c \/ In x (rm1 c l).
Proof.
  destruct l as [|y t]; cbn [rm1]; [contradiction|].
  destruct (N.eqb y c) eqn:E; [|now right].
  apply N.eqb_eq in E. subst y. intros [->|H]; [now left | now right].
Qed.

Lemma in_tails_false c ls : in_tails c ls = false -> forall l, In l ls -> ~ In c (d_tail l).
Proof.
  unfold in_tails. intros H l Hl Hc.
  assert (existsb (fun l => mem c (d_tail l)) ls = true) as E.
  { apply existsb_exists. exists l. split; [assumption | now apply mem_true_iff]. }
  rewrite H in E. discriminate.
Qed.

(* the candidate is gone from every list once it has been removed *)
Lemma candidate_gone c ls l' :
  in_tails c ls = false -> In l' (dl_remove c ls) -> ~ In c l'.
Proof.
  intros Ht Hl'. rewrite dl_remove_map in Hl'. apply in_map_iff in Hl'. destruct Hl' as (l & <- & Hl).
  pose proof (in_tails_false c ls Ht l Hl) as Hn.
  destruct l as [|y t]; cbn [rm1]; [tauto|]. cbn [d_tail] in Hn.
  destruct (N.eqb y c) eqn:E; [exact Hn|].
  apply N.eqb_neq in E. intros [->|H]; [now apply E | now apply Hn].
Qed.

(* P1: the result consists of exactly the elements of the lists *)
Lemma Merges_elements ls r : Merges ls r -> forall x, In x r <-> exists l, In l ls /\ In x l.
Proof.
  induction 1 as [ls Ex | ls c r Ex Hc HM IH]; intros x.
  - split; [contradiction|]. intros (l & Hl & Hx). rewrite (exhausted_all_nil ls Ex l Hl) in Hx. contradiction.
  - destruct (first_candidate_some _ _ _ Hc) as [(l0 & Hl0 & Hh0) _]. split.
    + intros [<-|Hx].
      * exists l0. split; [assumption|]. destruct l0; [discriminate|]. cbn in Hh0. injection Hh0 as ->. now left.
      * apply IH in Hx. destruct Hx as (l' & Hl' & Hx). rewrite dl_remove_map in Hl'.
        apply in_map_iff in Hl'. destruct Hl' as (l & <- & Hl). exists l. split; [assumption|].
        eapply rm1_in. exact Hx.
    + intros (l & Hl & Hx). destruct (in_rm1 c l x Hx) as [->|Hx']; [now left|]. right.
      apply IH. exists (rm1 c l). split; [|assumption]. rewrite dl_remove_map. now apply in_map.
Qed.

(* P2: no class is listed twice *)
Lemma Merges_NoDup ls r : Merges ls r -> NoDup r.
Proof.
  induction 1 as [ls Ex | ls c r Ex Hc HM IH]; [constructor|].
  constructor; [|assumption]. intros Hin.
  destruct (first_candidate_some _ _ _ Hc) as (_ & _ & Ht).
  apply (Merges_elements _ _ HM) in Hin. destruct Hin as (l' & Hl' & Hx).
  exact (candidate_gone c ls l' Ht Hl' Hx).
Qed.

(* P3: every input list keeps its order in the result *)
Lemma Merges_subseq ls r : Merges ls r -> forall l, In l ls -> subseq l r.
Proof.
  induction 1 as [ls Ex | ls c r Ex Hc HM IH]; intros l Hl.
  - rewrite (exhausted_all_nil ls Ex l Hl). constructor.
  - assert (Hr : subseq (rm1 c l) r).
    { apply IH. rewrite dl_remove_map. now apply in_map. }
    destruct l as [|y t]; [constructor|]. cbn [rm1] in Hr.
    destruct (N.eqb y c) eqn:E.
    + apply N.eqb_eq in E. subst y. now constructor.
    + now constructor.
Qed.

Lemma subseq_in l r : subseq l r -> forall x, In x l -> In x r.
Proof.
  induction 1 as [l | x l1 l2 H IH | x l1 l2 H IH]; intros y Hy.
  - contradiction.
  - destruct Hy as [->|Hy]; [now left | right; now apply IH].
  - right. now apply IH.
Qed.

Lemma subseq_NoDup l r : subseq l r -> NoDup r -> NoDup l.
Proof.
  induction 1 as [l | x l1 l2 H IH | x l1 l2 H IH]; intros Hn.
  - constructor.
  - inversion Hn as [|? ? Hx Hn']; subst. constructor; [|now apply IH].
    intros Hin. apply Hx. eapply subseq_in; eassumption.
  - inversion Hn; subst. now apply IH.
Qed.

Lemma subseq_refl l : subseq l l.
Proof. induction l; constructor; assumption. Qed.

(* a list that names a class twice can never be merged *)
Lemma merge_dup_fails ls l : In l ls -> ~ NoDup l -> merge ls = MValueError.
Proof.
  intros Hl Hd. destruct (merge ls) as [r| |] eqn:Hm.
  - exfalso. apply Hd. pose proof (merge_Merges ls r Hm) as HM.
    eapply subseq_NoDup; [eapply Merges_subseq; eassumption | eapply Merges_NoDup; eassumption].
  - reflexivity.
  - exfalso. exact (merge_fuel ls Hm).
Qed.

(* merging a single duplicate-free list gives it back *)
Lemma merge_loop_single f : forall l acc,
  NoDup l -> (forall c, In c l -> truthy c = true) -> length l < f ->
  merge_loop f [l; []] acc = MOk (acc ++ l).
Proof.
  induction f as [|f IH]; intros l acc Hn Ht Hf; [lia|].
  destruct l as [|x t].
  - cbn. now rewrite app_nil_r.
  - cbn [merge_loop exhausted forallb length Nat.eqb andb heads map d_head first_candidate].
    rewrite (Ht x) by now left.
    inversion Hn as [|? ? Hx Hn']; subst.
    assert (Hit : in_tails x [x :: t; []] = false).
    { unfold in_tails. cbn [existsb d_tail]. apply mem_false_iff in Hx. rewrite Hx. reflexivity. }
    rewrite Hit. cbn [andb negb dl_remove map]. rewrite N.eqb_refl.
    rewrite IH; [now rewrite <- app_assoc | assumption | | cbn [length] in Hf; lia].
    intros c Hc. apply Ht. now right.
Qed.

Lemma merge_single_base b rest :
  NoDup (b :: rest) -> (forall c, In c (b :: rest) -> truthy c = true) ->
  merge [b :: rest; [b]] = MOk (b :: rest).
Proof.
  intros Hn Ht. unfold merge.
  cbn [total_len fold_right length merge_loop exhausted forallb Nat.eqb andb heads map d_head first_candidate].
  rewrite (Ht b) by now left.
  inversion Hn as [|? ? Hx Hn']; subst.
  assert (Hit : in_tails b [b :: rest; [b]] = false).
  { unfold in_tails. cbn [existsb d_tail mem]. apply mem_false_iff in Hx. unfold mem in Hx. rewrite Hx. reflexivity. }
  rewrite Hit. cbn [andb negb dl_remove map]. rewrite N.eqb_refl.
  rewrite merge_loop_single; [reflexivity | assumption | | lia].
  intros c Hc. apply Ht. now right.
Qed.

(* ================================================================================================
   4. mro.mro : independent sanity (C3 properties) on acyclic hierarchies
   ================================================================================================ *)
Lemma tp_bases_getbases (h : hier) c : tp_bases h c = getbases h c.
Proof.
  unfold getbases. induction h as [|[k bs] h IH]; [reflexivity|].
  cbn [tp_bases assoc]. destruct (N.eqb k c); [reflexivity | exact IH].
Qed.

Lemma mro_all_ok g bs ms : mro_all g bs = LOk ms -> Forall2 (fun b m => g b = MOk m) bs ms.
Proof.
  revert ms. induction bs as [|b bs IH]; intros ms; cbn [mro_all].
  - intros H. injection H as <-. constructor.
  - destruct (g b) as [m| |] eqn:Hg; try discriminate.
    destruct (mro_all g bs) as [ms'| |]; try discriminate.
    intros H. injection H as <-. constructor; [assumption | now apply IH].
Qed.

Lemma Forall2_in_l {X Y} (P : X -> Y -> Prop) xs ys x :
  Forall2 P xs ys -> In x xs -> exists y, In y ys /\ P x y.
Proof.
  induction 1 as [|x0 y0 xs ys Hp HF IH]; [contradiction|].
  intros [->|Hx]; [exists y0; split; [now left | assumption]|].
  destruct (IH Hx) as (y & Hy & Hpy). exists y. split; [now right | assumption].
Qed.

Lemma Forall2_in_r {X Y} (P : X -> Y -> Prop) xs ys y :
  Forall2 P xs ys -> In y ys -> exists x, In x xs /\ P x y.
Proof.
  induction 1 as [|x0 y0 xs ys Hp HF IH]; [contradiction|].
  intros [->|Hy]; [exists x0; split; [now left | assumption]|].
  destruct (IH Hy) as (x & Hx & Hpx). exists x. split; [now right | assumption].
Qed.

Lemma mro_S f h c :
  mro (S f) h c =
  match getbases h c with
  | [] => MOk [c]
  | bs => match mro_all (mro f h) bs with
          | LOk ms => match merge (ms ++ [bs]) with MOk r => MOk (c :: r) | e => e end
          | LValueError => MValueError
          | LOutOfFuel => MOutOfFuel
          end
  end.
Proof. reflexivity. Qed.

Lemma mro_ok_inv f h c r :
  mro (S f) h c = MOk r ->
  (getbases h c = [] /\ r = [c]) \/
  (exists ms r', getbases h c <> [] /\ mro_all (mro f h) (getbases h c) = LOk ms /\
                 merge (ms ++ [getbases h c]) = MOk r' /\ r = c :: r').
Proof.
  rewrite mro_S. destruct (getbases h c) as [|b bs] eqn:Hb; cbv zeta.
  - intros H. injection H as <-. now left.
  - destruct (mro_all (mro f h) (b :: bs)) as [ms| |] eqn:Ha; try discriminate.
    destruct (merge (ms ++ [b :: bs])) as [r'| |] eqn:Hm; try discriminate.
    intros H. cbv beta iota in H. injection H as <-. right. exists ms, r'. repeat split; try assumption. discriminate.
Qed.

(* what C3 promises about the linearisation r of class c (f = the fuel left for the bases) *)
Definition c3_ok (h : hier) (f : nat) (c : cls) (r : list cls) : Prop :=
  exists r', r = c :: r' /\ NoDup r /\ (forall x, In x r <-> ancestor h c x) /\
    subseq (getbases h c) r' /\
    forall b, In b (getbases h c) -> exists rb, mro f h b = MOk rb /\ subseq rb r'.

Lemma ancestor_rank h rank b x : acyclic h rank -> ancestor h b x -> rank x <= rank b.
Proof.
  intros Ha. induction 1 as [c | c b x Hb Hanc IH]; [lia|].
  specialize (Ha c b Hb). lia.
Qed.

Lemma mro_c3_gen h rank :
  acyclic h rank -> forall n c r, mro n h c = MOk r -> exists f, n = S f /\ c3_ok h f c r.
Proof.
  intros Ha. induction n as [|f IH]; intros c r Hm; [discriminate|].
  exists f. split; [reflexivity|].
  destruct (mro_ok_inv f h c r Hm) as [[Hb ->] | (ms & r' & Hne & Hall & Hmerge & ->)].
  - exists []. rewrite Hb. repeat split.
    + constructor; [tauto | constructor].
    + intros [<-|[]]. constructor.
    + intros Hanc. inversion Hanc as [|? b ? Hin]; subst; [now left|].
      rewrite tp_bases_getbases, Hb in Hin. contradiction.
    + constructor.
    + contradiction.
  - pose proof (mro_all_ok _ _ _ Hall) as HF.
    pose proof (merge_Merges _ _ Hmerge) as HM.
    pose proof (Merges_elements _ _ HM) as Hel.
    assert (Hanc_in : forall x, In x r' <-> exists b, In b (getbases h c) /\ ancestor h b x).
    { intros x. rewrite Hel. split.
      - intros (l & Hl & Hx). apply in_app_or in Hl. destruct Hl as [Hl | [<-|[]]].
        + destruct (Forall2_in_r _ _ _ l HF Hl) as (b & Hb & Hmb).
          destruct (IH b l Hmb) as (f0 & -> & (r0 & _ & _ & Hiff & _)).
          exists b. split; [assumption | now apply Hiff].
        + exists x. split; [assumption | constructor].
      - intros (b & Hb & Hanc). destruct (Forall2_in_l _ _ _ b HF Hb) as (m & Hm' & Hmb).
        destruct (IH b m Hmb) as (f0 & -> & (r0 & _ & _ & Hiff & _)).
        exists m. split; [apply in_or_app; now left | now apply Hiff]. }
    exists r'. repeat split.
    + constructor; [|eapply Merges_NoDup; eassumption].
      intros Hin. apply Hanc_in in Hin. destruct Hin as (b & Hb & Hanc).
      pose proof (ancestor_rank h rank b c Ha Hanc).
      rewrite <- tp_bases_getbases in Hb. specialize (Ha c b Hb). lia.
    + intros [<-|Hx]; [constructor|]. apply Hanc_in in Hx. destruct Hx as (b & Hb & Hanc).
      econstructor; [rewrite tp_bases_getbases; eassumption | assumption].
    + intros Hanc. inversion Hanc as [|? b ? Hin Hanc']; subst; [now left|]. right.
      apply Hanc_in. exists b. split; [now rewrite <- tp_bases_getbases | assumption].
    + eapply Merges_subseq; [eassumption|]. apply in_or_app. right. now left.
    + intros b Hb. destruct (Forall2_in_l _ _ _ b HF Hb) as (m & Hm' & Hmb).
      exists m. split; [assumption|]. eapply Merges_subseq; [eassumption|]. apply in_or_app. now left.
Qed.

(* ================================================================================================
   5. mro.mro = CPython's mro_implementation
   ================================================================================================ *)
Definition bases_truthy (h : hier) : Prop := forall c b, In b (getbases h c) -> truthy b = true.

Lemma ancestor_truthy h b x : bases_truthy h -> truthy b = true -> ancestor h b x -> truthy x = true.
Proof.
  intros Ht Hb Hanc. induction Hanc as [c | c b x Hin Hanc IH]; [assumption|].
  apply IH. apply (Ht c). now rewrite <- tp_bases_getbases.
Qed.

Lemma mro_all_lookup (g : cls -> mres) (g' : N -> cres) bs :
  (forall b, In b bs -> as_spec (g b) = g' b) ->
  lookup_tp_mros g' bs =
  match mro_all g bs with LOk ms => inl ms | LValueError => inr CTypeError | LOutOfFuel => inr COutOfFuel end.
Proof.
  induction bs as [|b bs IH]; intros H; [reflexivity|].
  cbn [lookup_tp_mros mro_all]. rewrite <- (H b) by now left.
  destruct (g b) as [m| |]; cbn [as_spec]; try reflexivity.
  rewrite IH by (intros b' Hb'; apply H; now right).
  destruct (mro_all g bs); reflexivity.
Qed.

Lemma pmerge_loop_acc f : forall tm rm acc,
  pmerge_loop f tm rm acc = match pmerge_loop f tm rm [] with COk r => COk (acc ++ r) | e => e end.
Proof.
  induction f as [|f IH]; intros tm rm acc; [reflexivity|].
  cbn [pmerge_loop]. destruct (scan tm rm (combine tm rm) 0) as [c|e].
  - rewrite (IH _ _ (acc ++ [c])), (IH _ _ ([] ++ [c])).
    destruct (pmerge_loop f tm (advance tm rm c) []); try reflexivity. now rewrite <- app_assoc.
  - destruct (Nat.eqb e (length tm)); [now rewrite app_nil_r | reflexivity].
Qed.

Lemma pmerge_acc acc ls : pmerge acc ls = match pmerge [] ls with COk r => COk (acc ++ r) | e => e end.
Proof. unfold pmerge. apply pmerge_loop_acc. Qed.

Lemma has_duplicates_true l : has_duplicates l = true -> ~ NoDup l.
Proof.
  induction l as [|b rest IH]; [discriminate|]. cbn [has_duplicates].
  intros H Hn. inversion Hn as [|? ? Hb Hn']; subst. apply orb_true_iff in H. destruct H as [H|H].
  - apply Hb. apply existsb_exists in H. destruct H as (x & Hx & He). apply N.eqb_eq in He. now subst.
  - now apply IH.
Qed.

Lemma mro_equal h rank :
  acyclic h rank -> bases_truthy h -> forall f c, as_spec (mro f h c) = cpython_mro f h c.
Proof.
  intros Ha Ht. induction f as [|f IH]; intros c; [reflexivity|].
  rewrite mro_S. cbn [cpython_mro]. rewrite tp_bases_getbases.
  rewrite (mro_all_lookup (mro f h) (cpython_mro f h)) by (intros; apply IH).
  destruct (getbases h c) as [|b1 bs] eqn:Hb; [reflexivity|]. cbv zeta.
  destruct (mro_all (mro f h) (b1 :: bs)) as [ms| |] eqn:Hall; try reflexivity.
  pose proof (mro_all_ok _ _ _ Hall) as HF.
  assert (Hms : forall l, In l ms -> forall x, In x l -> truthy x = true).
  { intros l Hl x Hx. destruct (Forall2_in_r _ _ _ l HF Hl) as (b & Hbin & Hmb).
    destruct (mro_c3_gen h rank Ha f b l Hmb) as (f0 & _ & (r0 & _ & _ & Hiff & _)).
    apply (ancestor_truthy h b x Ht); [apply (Ht c); now rewrite Hb | now apply Hiff]. }
  destruct bs as [|b2 bs].
  - inversion HF as [|? m ? ms' Hm HF']; subst. inversion HF'; subst. cbn [app].
    destruct (mro_c3_gen h rank Ha f b1 m Hm) as (f0 & _ & (r0 & -> & Hnd & _)).
    rewrite merge_single_base; [reflexivity | assumption |].
    apply (Hms (b1 :: r0)). now left.
  - destruct (has_duplicates (b1 :: b2 :: bs)) eqn:Hd.
    + rewrite (merge_dup_fails (ms ++ [b1 :: b2 :: bs]) (b1 :: b2 :: bs));
        [reflexivity | apply in_or_app; right; now left | now apply has_duplicates_true].
    + rewrite pmerge_acc, <- merge_refines.
      * unfold tuple, cls in *. destruct (merge (ms ++ [b1 :: b2 :: bs])); reflexivity.
      * intros l Hl x Hx. apply in_app_or in Hl. destruct Hl as [Hl | [<-|[]]].
        -- exact (Hms l Hl x Hx).
        -- apply (Ht c). now rewrite Hb.
Qed.

(* ================================================================================================
   6. fuel of mro.mro
   ================================================================================================ *)
Lemma getbases_key (h : hier) c : getbases h c <> [] -> In c (map fst h).
Proof.
  unfold getbases. induction h as [|[k bs] h IH]; cbn [assoc map fst]; [congruence|].
  destruct (N.eqb k c) eqn:E; [apply N.eqb_eq in E; now left | intros H; right; now apply IH].
Qed.

Lemma mro_all_no_fuel g bs : (forall b, In b bs -> g b <> MOutOfFuel) -> mro_all g bs <> LOutOfFuel.
Proof.
  induction bs as [|b bs IH]; intros H; [discriminate|]. cbn [mro_all].
  destruct (g b) as [m| |] eqn:Hg; [|discriminate|exfalso; apply (H b); [now left | assumption]].
  assert (mro_all g bs <> LOutOfFuel) by (apply IH; intros b' Hb'; apply H; now right).
  destruct (mro_all g bs); [discriminate | discriminate | congruence].
Qed.

Lemma mro_fuel_gen h rank :
  acyclic h rank ->
  forall f p c, NoDup p -> incl p (map fst h) -> (forall x, In x p -> rank c < rank x) ->
                length h < f + length p -> mro f h c <> MOutOfFuel.
Proof.
  intros Ha. induction f as [|f IH]; intros p c Hn Hi Hr Hf.
  - exfalso. pose proof (NoDup_incl_length Hn Hi) as Hl. rewrite map_length in Hl. lia.
  - rewrite mro_S. destruct (getbases h c) as [|b bs] eqn:Hb; [discriminate|]. cbv zeta.
    assert (Hall : mro_all (mro f h) (b :: bs) <> LOutOfFuel).
    { apply mro_all_no_fuel. intros b' Hb'.
      assert (Hrank : rank b' < rank c) by (apply Ha; now rewrite tp_bases_getbases, Hb).
      apply (IH (c :: p)).
      - constructor; [|assumption]. intros Hin. specialize (Hr c Hin). lia.
      - intros x [<-|Hx]; [apply getbases_key; rewrite Hb; discriminate | now apply Hi].
      - intros x [<-|Hx]; [assumption | specialize (Hr x Hx); lia].
      - cbn [length]. lia. }
    destruct (mro_all (mro f h) (b :: bs)) as [ms| |]; [|discriminate|congruence].
    pose proof (merge_fuel (ms ++ [b :: bs])) as Hmf.
    destruct (merge (ms ++ [b :: bs])); [discriminate | discriminate | congruence].
Qed.

Lemma mro_fuel_ok h rank c : acyclic h rank -> mro (mro_fuel h) h c <> MOutOfFuel.
Proof.
  intros Ha. unfold mro_fuel. apply (mro_fuel_gen h rank Ha _ []).
  - constructor.
  - intros x [].
  - intros x [].
  - change (length h < S (length h) + 0). lia.
Qed.

(* ================================================================================================
   7. model.compute_mro / Class._init_mro on acyclic hierarchies
   ================================================================================================ *)
Lemma NoDup_snoc {X} (p : list X) o : NoDup p -> ~ In o p -> NoDup (p ++ [o]).
Proof.
  induction p as [|a p IH]; intros Hn Ho; cbn [app].
  - constructor; [tauto | constructor].
  - inversion Hn as [|? ? Ha Hn']; subst. constructor.
    + intros Hin. apply in_app_or in Hin. destruct Hin as [Hin | [<-|[]]]; [now apply Ha|].
      apply Ho. now left.
    + apply IH; [assumption|]. intros Hin. apply Ho. now right.
Qed.

Lemma for_bases_ok g bs : (forall b, In b bs -> g b = DOk) -> for_bases g bs = DOk.
Proof.
  induction bs as [|b bs IH]; intros H; [reflexivity|]. cbn [for_bases].
  rewrite (H b) by now left. apply IH. intros b' Hb'. apply H. now right.
Qed.

Lemma init_final_acyclic h rank :
  acyclic h rank ->
  forall f p o, NoDup p -> incl p (map fst h) -> (forall x, In x p -> rank o < rank x) ->
                length h < f + length p -> init_final f h p o = DOk.
Proof.
  intros Ha. induction f as [|f IH]; intros p o Hn Hi Hr Hf.
  - exfalso. pose proof (NoDup_incl_length Hn Hi) as Hl. rewrite map_length in Hl. lia.
  - cbn [init_final].
    assert (Ho : ~ In o p) by (intros Hin; specialize (Hr o Hin); lia).
    apply mem_false_iff in Ho. rewrite Ho. apply mem_false_iff in Ho.
    apply for_bases_ok. intros b Hb. apply filter_In in Hb. destruct Hb as [Hb _].
    assert (Hrank : rank b < rank o) by (apply Ha; now rewrite tp_bases_getbases).
    apply IH.
    + now apply NoDup_snoc.
    + intros x Hx. apply in_app_or in Hx. destruct Hx as [Hx | [<-|[]]]; [now apply Hi|].
      apply getbases_key. intros E. rewrite E in Hb. contradiction.
    + intros x Hx. apply in_app_or in Hx. destruct Hx as [Hx | [<-|[]]]; [specialize (Hr x Hx); lia | assumption].
    + rewrite app_length. cbn [length]. unfold cls in *. lia.
Qed.

Lemma compute_mro_acyclic h rank c :
  acyclic h rank ->
  compute_mro h c = match mro (mro_fuel h) h c with
                    | MOk l => (KOk, l)
                    | MValueError => (KLinearization, [])
                    | MOutOfFuel => (KFuel, [])
                    end.
Proof.
  intros Ha. unfold compute_mro. rewrite (init_final_acyclic h rank Ha); [reflexivity | constructor | | |].
  - intros x [].
  - intros x [].
  - unfold mro_fuel. change (length h < S (length h) + 0). lia.
Qed.

(* the linearisation Class._init_mro stores is CPython's, and a rejected hierarchy is reported *)
Lemma init_mro_equal h rank c :
  acyclic h rank -> bases_truthy h ->
  match init_mro h c with
  | (KOk, l) => cpython_mro (mro_fuel h) h c = COk l
  | (KLinearization, _) => cpython_mro (mro_fuel h) h c = CTypeError
  | _ => False
  end.
Proof.
  intros Ha Ht. unfold init_mro. rewrite (compute_mro_acyclic h rank c Ha).
  pose proof (mro_equal h rank Ha Ht (mro_fuel h) c) as He.
  pose proof (mro_fuel_ok h rank c Ha) as Hf.
  destruct (mro (mro_fuel h) h c) as [l| |]; cbn [as_spec] in He; [now symmetry | now symmetry | congruence].
Qed.

Lemma mro_all_mono g g' bs :
  (forall b, g b <> MOutOfFuel -> g' b = g b) -> mro_all g bs <> LOutOfFuel -> mro_all g' bs = mro_all g bs.
Proof.
  intros H. induction bs as [|b bs IH]; intros Hn; [reflexivity|]. cbn [mro_all] in *.
  destruct (g b) as [m| |] eqn:Hg.
  - rewrite (H b), Hg by congruence.
    rewrite IH; [reflexivity|]. intros E. rewrite E in Hn. congruence.
  - rewrite (H b), Hg by congruence. reflexivity.
  - congruence.
Qed.

Lemma mro_fuel_mono h f : forall c, mro f h c <> MOutOfFuel -> mro (S f) h c = mro f h c.
Proof.
  induction f as [|f IH]; intros c Hn; [now contradiction Hn|].
  rewrite (mro_S (S f)), (mro_S f). rewrite (mro_S f) in Hn.
  destruct (getbases h c) as [|b bs]; [reflexivity|]. cbv zeta in *.
  rewrite (mro_all_mono (mro f h) (mro (S f) h)); [reflexivity | exact IH |].
  intros E. rewrite E in Hn. congruence.
Qed.

(* a class one of whose bases is rejected is itself reported, never silently linearised *)
Lemma rejected_base_reported h rank c b :
  acyclic h rank -> In b (getbases h c) -> fst (init_mro h c) = KOk ->
  exists m, init_mro h b = (KOk, m).
Proof.
  intros Ha Hb Hc. unfold init_mro in *. rewrite (compute_mro_acyclic h rank c Ha) in Hc.
  rewrite (compute_mro_acyclic h rank b Ha).
  destruct (mro (mro_fuel h) h c) as [l| |] eqn:Hm; try discriminate.
  unfold mro_fuel in *. destruct (mro_ok_inv _ _ _ _ Hm) as [[E _] | (ms & r' & _ & Hall & _)].
  - rewrite E in Hb. contradiction.
  - destruct (Forall2_in_l _ _ _ b (mro_all_ok _ _ _ Hall) Hb) as (m & _ & Hmb).
    exists m. rewrite mro_fuel_mono, Hmb; [reflexivity | congruence].
Qed.

Lemma mro_head f h c r : mro f h c = MOk r -> exists r', r = c :: r'.
Proof.
  destruct f as [|f]; [discriminate|]. intros Hm.
  destruct (mro_ok_inv _ _ _ _ Hm) as [[_ ->] | (ms & r' & _ & _ & _ & ->)]; eexists; reflexivity.
Qed.

Lemma class_mro_head h c : is_class h c = true -> exists rest, class_mro h c = c :: rest.
Proof.
  intros Hc. unfold class_mro, init_mro, compute_mro.
  assert (Hfb : exists rest, filter (is_class h) (allbases (mro_fuel h) h c) = c :: rest).
  { unfold mro_fuel. cbn [allbases filter]. rewrite Hc. eexists. reflexivity. }
  destruct (init_final (mro_fuel h) h [] c); cbn [snd]; try exact Hfb.
  destruct (mro (mro_fuel h) h c) as [l| |] eqn:Hm; cbn [snd]; try exact Hfb.
  destruct (mro_head _ _ _ _ Hm) as (r' & ->). cbn [filter]. rewrite Hc. eexists. reflexivity.
Qed.

(* ---- Class.find = attribute lookup along the MRO ---------------------------------------------- *)
Definition defines_of (ns : namespace) (c n : N) : bool :=
  match contents_get ns c n with Some _ => true | None => false end.
Definition doc_of (ns : namespace) (c n : N) : option N :=
  match contents_get ns c n with Some o => m_doc o | None => None end.

Lemma find_in_some ns m n d o :
  find_in ns m n = Some (d, o) -> lookup (defines_of ns) m n d /\ contents_get ns d n = Some o.
Proof.
  induction m as [|base m IH]; [discriminate|]. cbn [find_in].
  destruct (contents_get ns base n) as [obj|] eqn:E.
  - intros H. injection H as <- <-. split; [|assumption].
    exists [], m. repeat split; [unfold defines_of; now rewrite E | contradiction].
  - intros H. destruct (IH H) as [(before & after & -> & Hd & Hb) Hc]. split; [|assumption].
    exists (base :: before), after. repeat split; [assumption|].
    intros x [<-|Hx]; [unfold defines_of; now rewrite E | now apply Hb].
Qed.

Lemma find_in_none ns m n : find_in ns m n = None -> lookup_fails (defines_of ns) m n.
Proof.
  induction m as [|base m IH]; [intros _ x []|]. cbn [find_in].
  destruct (contents_get ns base n) as [obj|] eqn:E; [discriminate|].
  intros H x [<-|Hx]; [unfold defines_of; now rewrite E | now apply IH].
Qed.

Lemma lookup_find_in ns m n d :
  lookup (defines_of ns) m n d -> exists o, find_in ns m n = Some (d, o) /\ contents_get ns d n = Some o.
Proof.
  intros (before & after & -> & Hd & Hb). induction before as [|x before IH]; cbn [app find_in].
  - unfold defines_of in Hd. destruct (contents_get ns d n) as [o|]; [|discriminate]. now exists o.
  - assert (Hx : defines_of ns x n = false) by (apply Hb; now left).
    unfold defines_of in Hx. destruct (contents_get ns x n); [discriminate|].
    apply IH. intros y Hy. apply Hb. now right.
Qed.

(* ---- docstring inheritance -------------------------------------------------------------------- *)
Definition src_at (ns : namespace) (n : N) (b : cls) : list (cls * member) :=
  match contents_get ns b n with Some o => [(b, o)] | None => [] end.

Lemma docsources_full ns c rest self :
  contents_get ns c (m_name self) = Some self ->
  docsources_of ns (c :: rest) c self = flat_map (src_at ns (m_name self)) (c :: rest).
Proof. intros H. unfold docsources_of. cbn [d_tail flat_map]. unfold src_at at 1. rewrite H. reflexivity. Qed.

Definition shown_doc (k : N) : option N := if N.eqb k 0 then None else Some k.

Lemma get_docstring_from_spec ns n m :
  (forall d s, get_docstring_from (flat_map (src_at ns n) m) = (d, Some s) ->
     exists k, getdoc (defines_of ns) (doc_of ns) m n s k /\ d = shown_doc k) /\
  (forall d, get_docstring_from (flat_map (src_at ns n) m) = (d, None) ->
     d = None /\ getdoc_none (defines_of ns) (doc_of ns) m n).
Proof.
  induction m as [|b m [IH1 IH2]].
  - split; [discriminate|]. intros d H. injection H as <-. split; [reflexivity | intros x []].
  - cbn [flat_map]. unfold src_at at 1 3.
    destruct (contents_get ns b n) as [o|] eqn:E; cbn [app get_docstring_from].
    + destruct (m_doc o) as [k|] eqn:Ed.
      * split.
        -- intros d s H. exists k. split.
           ++ assert (s = b) as -> by (destruct (negb (N.eqb k 0)); now injection H).
              exists [], m. repeat split; [unfold defines_of; now rewrite E | unfold doc_of; now rewrite E | contradiction].
           ++ unfold shown_doc. destruct (N.eqb k 0); cbn [negb] in H; now injection H.
        -- intros d H. destruct (negb (N.eqb k 0)); discriminate.
      * split.
        -- intros d s H. destruct (IH1 d s H) as (k & (before & after & -> & Hd & Hk & Hb) & ->).
           exists k. split; [|reflexivity]. exists (b :: before), after. repeat split; try assumption.
           intros x [<-|Hx]; [right; unfold doc_of; now rewrite E | now apply Hb].
        -- intros d H. destruct (IH2 d H) as [-> Hg]. split; [reflexivity|].
           intros x [<-|Hx]; [right; unfold doc_of; now rewrite E | now apply Hg].
    + split.
      * intros d s H. destruct (IH1 d s H) as (k & (before & after & -> & Hd & Hk & Hb) & ->).
        exists k. split; [|reflexivity]. exists (b :: before), after. repeat split; try assumption.
        intros x [<-|Hx]; [left; unfold defines_of; now rewrite E | now apply Hb].
      * intros d H. destruct (IH2 d H) as [-> Hg]. split; [reflexivity|].
        intros x [<-|Hx]; [left; unfold defines_of; now rewrite E | now apply Hg].
Qed.

Lemma get_docstring_spec h ns c self :
  is_class h c = true -> contents_get ns c (m_name self) = Some self ->
  (forall d s, get_docstring h ns c self = (d, Some s) ->
     exists k, getdoc (defines_of ns) (doc_of ns) (class_mro h c) (m_name self) s k /\ d = shown_doc k) /\
  (forall d, get_docstring h ns c self = (d, None) ->
     d = None /\ getdoc_none (defines_of ns) (doc_of ns) (class_mro h c) (m_name self)).
Proof.
  intros Hc Hs. unfold get_docstring, docsources.
  destruct (class_mro_head h c Hc) as (rest & ->). rewrite (docsources_full ns c rest self Hs).
  apply get_docstring_from_spec.
Qed.

(* ---- inherited-member tables ------------------------------------------------------------------ *)
Lemma firstn_S_nth {X} (d : X) (m : list X) i : i < length m -> firstn (S i) m = firstn i m ++ [nth i m d].
Proof.
  revert i. induction m as [|a m IH]; intros i Hi; cbn [length] in Hi; [lia|].
  destruct i as [|i]; [reflexivity|]. cbn [firstn nth app]. f_equal. apply IH. lia.
Qed.

Lemma split_at_nth {X} (d : X) (m : list X) i : i < length m -> m = firstn i m ++ nth i m d :: skipn (S i) m.
Proof.
  revert i. induction m as [|a m IH]; intros i Hi; cbn [length] in Hi; [lia|].
  destruct i as [|i]; [reflexivity|]. cbn [firstn nth app skipn]. f_equal. apply IH. lia.
Qed.

Lemma unmasked_lookup ns (m : list cls) bl o :
  In bl (nested_bases_of m) -> In o (unmasked_attrs ns bl) ->
  exists b0 rest, bl = b0 :: rest /\ In o (ns b0) /\ m_hidden o = false /\
                  lookup (defines_of ns) m (m_name o) b0.
Proof.
  unfold nested_bases_of. intros Hbl Ho. apply in_map_iff in Hbl. destruct Hbl as (i & <- & Hi).
  apply in_seq in Hi. destruct Hi as [_ Hi]. cbn [Nat.add] in Hi.
  unfold cls in *. rewrite (firstn_S_nth 0%N m i Hi) in Ho |- *. rewrite rev_app_distr in Ho |- *.
  cbn [rev app] in Ho |- *.
  exists (nth i m 0%N), (rev (firstn i m)). split; [reflexivity|].
  cbn [unmasked_attrs] in Ho. apply filter_In in Ho. destruct Ho as [Hin Hmask]. split; [assumption|].
  apply andb_true_iff in Hmask. destruct Hmask as [Hvis Hmask]. apply negb_true_iff in Hvis.
  split; [assumption|].
  apply negb_true_iff, mem_false_iff in Hmask.
  exists (firstn i m), (skipn (S i) m). repeat split.
  - apply split_at_nth. exact Hi.
  - unfold defines_of, contents_get.
    destruct (find (fun m0 => N.eqb (m_name m0) (m_name o)) (ns (nth i m 0%N))) eqn:E; [reflexivity|].
    pose proof (find_none _ _ E o Hin) as Hf. cbn beta in Hf. rewrite N.eqb_refl in Hf. discriminate.
  - intros x Hx. unfold defines_of, contents_get.
    destruct (find (fun m0 => N.eqb (m_name m0) (m_name o)) (ns x)) as [o'|] eqn:E; [|reflexivity].
    exfalso. apply Hmask. apply find_some in E. destruct E as [Hin' He]. apply N.eqb_eq in He.
    apply in_flat_map. exists x. split; [now apply -> in_rev|].
    rewrite <- He. now apply in_map.
Qed.

(* conversely: a visible member of the class attribute lookup stops at is listed, under that class *)
Lemma lookup_unmasked ns (m : list cls) b0 o :
  lookup (defines_of ns) m (m_name o) b0 -> In o (ns b0) -> m_hidden o = false ->
  exists rest, In (b0 :: rest) (nested_bases_of m) /\ In o (unmasked_attrs ns (b0 :: rest)).
Proof.
  intros (before & after & -> & _ & Hb) Hin Hvis.
  exists (rev before). split.
  - unfold nested_bases_of. apply in_map_iff. exists (length before). split.
    + assert (Hf : firstn (S (length before)) (before ++ b0 :: after) = before ++ [b0]).
      { clear. induction before as [|a l IH]; [reflexivity|]. cbn [length app firstn]. f_equal. exact IH. }
      unfold cls in *. rewrite Hf, rev_app_distr. reflexivity.
    + apply in_seq. rewrite app_length. cbn [length]. lia.
  - cbn [unmasked_attrs]. apply filter_In. split; [assumption|]. rewrite Hvis. cbn [negb andb].
    apply negb_true_iff, mem_false_iff. intros Hm. apply in_flat_map in Hm. destruct Hm as (x & Hx & Hn).
    apply in_rev in Hx. specialize (Hb x Hx). unfold defines_of, contents_get in Hb.
    apply in_map_iff in Hn. destruct Hn as (o' & He & Ho').
    destruct (find (fun m0 => N.eqb (m_name m0) (m_name o)) (ns x)) eqn:E; [discriminate|].
    pose proof (find_none _ _ E o' Ho') as Hf. cbn beta in Hf. rewrite He, N.eqb_refl in Hf. discriminate.
Qed.

(* ================================================================================================
   8. inheritance cycles are reported
   ================================================================================================ *)
Inductive reach (h : hier) : cls -> cls -> Prop :=
| reach_base : forall a b, In b (getbases h a) -> is_class h b = true -> reach h a b
| reach_step : forall a b c, In b (getbases h a) -> is_class h b = true -> reach h b c -> reach h a c.

Definition reaches_cycle (h : hier) (c : cls) : Prop :=
  reach h c c \/ exists d, reach h c d /\ reach h d d.

Lemma for_bases_DOk g bs : for_bases g bs = DOk -> forall b, In b bs -> g b = DOk.
Proof.
  induction bs as [|b0 bs IH]; intros H b Hb; [contradiction|]. cbn [for_bases] in H.
  destruct (g b0) eqn:E; try discriminate. destruct Hb as [<-|Hb]; [assumption | now apply IH].
Qed.

Lemma init_final_ok_inv f h p o :
  init_final (S f) h p o = DOk ->
  ~ In o p /\ forall b, In b (getbases h o) -> is_class h b = true -> init_final f h (p ++ [o]) b = DOk.
Proof.
  cbn [init_final]. destruct (mem o p) eqn:E; [discriminate|]. intros H. split; [now apply mem_false_iff|].
  intros b Hb Hc. apply (for_bases_DOk _ _ H). apply filter_In. now split.
Qed.

Lemma init_final_ok_notin f h p o : init_final f h p o = DOk -> ~ In o p.
Proof. destruct f; [discriminate|]. intros H. now apply init_final_ok_inv in H. Qed.

Lemma init_final_ok_reach h f : forall p o, init_final f h p o = DOk -> forall x, reach h o x -> ~ In x (p ++ [o]).
Proof.
  induction f as [|f IH]; intros p o H x Hr; [discriminate|].
  destruct (init_final_ok_inv _ _ _ _ H) as [_ Hb].
  inversion Hr as [? b Hin Hc | ? b ? Hin Hc Hr']; subst.
  - exact (init_final_ok_notin _ _ _ _ (Hb x Hin Hc)).
  - intros Hx. apply (IH _ _ (Hb b Hin Hc) x Hr'). apply in_or_app. now left.
Qed.

Lemma init_final_ok_down h a d :
  reach h a d -> forall f p, init_final f h p a = DOk -> exists f' p', init_final f' h p' d = DOk.
Proof.
  induction 1 as [a b Hin Hc | a b c Hin Hc Hr IH]; intros f p H; (destruct f; [discriminate|]);
    destruct (init_final_ok_inv _ _ _ _ H) as [_ Hb].
  - eexists _, _. exact (Hb b Hin Hc).
  - exact (IH _ _ (Hb b Hin Hc)).
Qed.

Lemma cycle_not_ok h c f : reaches_cycle h c -> init_final f h [] c <> DOk.
Proof.
  intros [Hr | (d & Hcd & Hdd)] H.
  - apply (init_final_ok_reach h f _ _ H c Hr). cbn. now left.
  - destruct (init_final_ok_down h c d Hcd _ _ H) as (f' & p' & H').
    apply (init_final_ok_reach h f' _ _ H' d Hdd). apply in_or_app. right. now left.
Qed.

Lemma for_bases_no_fuel g bs : (forall b, In b bs -> g b <> DOutOfFuel) -> for_bases g bs <> DOutOfFuel.
Proof.
  induction bs as [|b bs IH]; intros H; [discriminate|]. cbn [for_bases].
  destruct (g b) eqn:E; [|discriminate|exfalso; apply (H b); [now left | assumption]].
  apply IH. intros b' Hb'. apply H. now right.
Qed.

Lemma init_final_fuel h : forall f p o,
  NoDup p -> incl p (map fst h) -> length h < f + length p -> init_final f h p o <> DOutOfFuel.
Proof.
  induction f as [|f IH]; intros p o Hn Hi Hf.
  - exfalso. pose proof (NoDup_incl_length Hn Hi) as Hl. rewrite map_length in Hl. lia.
  - cbn [init_final]. destruct (mem o p) eqn:E; [discriminate|]. apply mem_false_iff in E.
    apply for_bases_no_fuel. intros b Hb. apply filter_In in Hb. destruct Hb as [Hb _]. apply IH.
    + now apply NoDup_snoc.
    + intros x Hx. apply in_app_or in Hx. destruct Hx as [Hx | [<-|[]]]; [now apply Hi|].
      apply getbases_key. intros E'. rewrite E' in Hb. contradiction.
    + rewrite app_length. cbn [length]. unfold cls in *. lia.
Qed.

Lemma cycle_reported h c :
  reaches_cycle h c -> fst (compute_mro h c) = KCycle /\ fst (init_mro h c) = KCycle.
Proof.
  intros Hc.
  assert (H : fst (compute_mro h c) = KCycle).
  { unfold compute_mro. destruct (init_final (mro_fuel h) h [] c) eqn:E.
    - exfalso. exact (cycle_not_ok h c _ Hc E).
    - reflexivity.
    - exfalso. refine (init_final_fuel h _ [] c _ _ _ E); [constructor | intros x [] |].
      unfold mro_fuel. change (length h < S (length h) + 0). lia. }
  split; [assumption|]. unfold init_mro. destruct (compute_mro h c) as [k l]. cbn [fst] in H. subst k. reflexivity.
Qed.

Lemma init_final_fuel_top (h : hier) c : init_final (mro_fuel h) h [] c <> DOutOfFuel.
Proof.
  apply init_final_fuel; [constructor | intros x [] |].
  unfold mro_fuel. change (length h < S (length h) + 0). lia.
Qed.

Lemma init_final_acyclic_top (h : hier) rank c : acyclic h rank -> init_final (mro_fuel h) h [] c = DOk.
Proof.
  intros Ha. apply (init_final_acyclic h rank Ha); [constructor | intros x [] | intros x [] |].
  unfold mro_fuel. change (length h < S (length h) + 0). lia.
Qed.

Lemma merge_sound ls r :
  merge ls = MOk r ->
  NoDup r /\ (forall x, In x r <-> exists l, In l ls /\ In x l) /\ (forall l, In l ls -> subseq l r).
Proof.
  intros H. pose proof (merge_Merges ls r H) as HM. split; [|split].
  - eapply Merges_NoDup; eassumption.
  - now apply Merges_elements.
  - now apply Merges_subseq.
Qed.

Lemma find_lookup (h : hier) (ns : namespace) c n :
  (forall d o, class_find h ns c n = Some (d, o) ->
               lookup (defines_of ns) (class_mro h c) n d /\ contents_get ns d n = Some o) /\
  (class_find h ns c n = None -> lookup_fails (defines_of ns) (class_mro h c) n) /\
  (forall d, lookup (defines_of ns) (class_mro h c) n d ->
             exists o, class_find h ns c n = Some (d, o) /\ contents_get ns d n = Some o).
Proof.
  unfold class_find. split; [|split].
  - intros d o. apply find_in_some.
  - apply find_in_none.
  - intros d. apply lookup_find_in.
Qed.

(* pages.get_override_info: the member named as overridden is the one attribute lookup finds when the
   class itself is skipped *)
Lemma overrides_lookup (h : hier) (ns : namespace) c n d o :
  overrides h ns c n = Some (d, o) ->
  lookup (defines_of ns) (d_tail (class_mro h c)) n d /\ contents_get ns d n = Some o.
Proof. unfold overrides. apply find_in_some. Qed.
