(* Proofs/FieldsCount.v -- counting the occurrences of a field index in the state of Model/Fields.v, and
   FieldHandler.format() read off the regenerated format_plan: what the rendered table contains is
   exactly what the buckets contain (nothing is skipped, nothing is emitted twice, labels as documented). *)
From Coq Require Import ZArith NArith List Bool Arith Lia String.
From PydoctorVerif Require Import Base.Sexp Model.FieldTypes Gen.TablesC09 Model.Fields Spec.Routing.
Import ListNotations.

(* ---- text_eqb --------------------------------------------------------------------------------------- *)
Lemma text_eqb_refl : forall t, text_eqb t t = true.
Proof. induction t as [|c t IH]; cbn; [reflexivity|]. rewrite N.eqb_refl. exact IH. Qed.

Lemma text_eqb_eq : forall a b, text_eqb a b = true <-> a = b.
Proof.
  induction a as [|x a IH]; intros [|y b]; cbn; split; intro H; try reflexivity; try discriminate.
  - apply andb_true_iff in H. destruct H as [H1 H2]. apply N.eqb_eq in H1. apply IH in H2. subst. reflexivity.
  - inversion H; subst. rewrite N.eqb_refl. apply text_eqb_refl.
Qed.

Lemma text_eqb_sym : forall a b, text_eqb a b = text_eqb b a.
Proof.
  intros a b. destruct (text_eqb a b) eqn:E1; destruct (text_eqb b a) eqn:E2; try reflexivity.
  - apply text_eqb_eq in E1. subst. rewrite text_eqb_refl in E2. discriminate.
  - apply text_eqb_eq in E2. subst. rewrite text_eqb_refl in E1. discriminate.
Qed.

Lemma text_eqb_app_prefix : forall p a b, text_eqb (p ++ a) (p ++ b) = text_eqb a b.
Proof. induction p as [|c p IH]; intros a b; cbn; [reflexivity|]. rewrite N.eqb_refl. apply IH. Qed.


(* ---- occurrences of index i in a state ----------------------------------------------------------------- *)
Definition idx_occ (i : nat) (l : list nat) : nat := list_sum (map (fun j => if Nat.eqb j i then 1 else 0) l).
Definition pd_occ (i : nat) (p : pdesc) : nat := body_occ i (pd_body p) + type_occ i (pd_type p).
Definition pds_occ (i : nat) (l : list pdesc) : nat := list_sum (map (pd_occ i) l).
Definition ty_occ (i : nat) (e : pname * option (tyref * origin)) : nat := type_occ i (option_map fst (snd e)).
Definition types_occ (i : nat) (l : list (pname * option (tyref * origin))) : nat := list_sum (map (ty_occ i) l).
Definition ret_occ (i : nat) (st : state) : nat :=
  match st_ret st with Some r => body_occ i (r_body r) + type_occ i (r_type r) | None => 0 end.
Definition yld_occ (i : nat) (st : state) : nat :=
  match st_yld st with Some y => body_occ i (y_body y) + type_occ i (y_type y) | None => 0 end.
Definition raises_occ (i : nat) (st : state) : nat :=
  list_sum (map (fun e => body_occ i (Some (snd e)) + type_occ i (Some (fst e))) (st_raises st)).
Definition warns_occ (i : nat) (st : state) : nat :=
  list_sum (map (fun e => body_occ i (Some (snd e)) + type_occ i (fst e)) (st_warns st)).
Definition unk_list_occ (i : nat) (l : list (option text * nat)) : nat := idx_occ i (map snd l).
Definition unknowns_occ (p : text -> bool) (i : nat) (d : list (text * list (option text * nat))) : nat :=
  list_sum (map (fun e => if p (fst e) then unk_list_occ i (snd e) else 0) d).

(* everything that format() can show (self.types is not shown: resolve_types folds it into parameter_descs) *)
Definition shown_total (i : nat) (st : state) : nat :=
  pds_occ i (st_pdescs st) + ret_occ i st + yld_occ i st + raises_occ i st + warns_occ i st +
  idx_occ i (st_authors st) + idx_occ i (st_seealsos st) + idx_occ i (st_sinces st) + idx_occ i (st_notes st) +
  unknowns_occ (fun _ => true) i (st_unknowns st).

Definition total (i : nat) (st : state) : nat := shown_total i st + types_occ i (st_types st).

Lemma idx_occ_app : forall i a b, idx_occ i (a ++ b) = idx_occ i a + idx_occ i b.
Proof. intros. unfold idx_occ. rewrite map_app. apply list_sum_app. Qed.

Lemma pds_occ_app : forall i a b, pds_occ i (a ++ b) = pds_occ i a + pds_occ i b.
Proof. intros. unfold pds_occ. rewrite map_app. apply list_sum_app. Qed.

Lemma types_occ_app : forall i a b, types_occ i (a ++ b) = types_occ i a + types_occ i b.
Proof. intros. unfold types_occ. rewrite map_app. apply list_sum_app. Qed.

(* ---- sections ---------------------------------------------------------------------------------------- *)
Lemma secs_occ_app : forall p i a b, secs_occ p i (a ++ b) = secs_occ p i a + secs_occ p i b.
Proof. intros. unfold secs_occ. rewrite map_app. apply list_sum_app. Qed.

Lemma secs_occ_sec : forall p i l rows, secs_occ p i (sec l rows) = if p l then rows_occ i rows else 0.
Proof.
  intros p i l rows. unfold sec, secs_occ. destruct rows as [|r rows]; cbn.
  - destruct (p l); reflexivity.
  - destruct (p l); cbn; lia.
Qed.

Lemma rows_occ_map_idx : forall i l,
  rows_occ i (map (fun j => {| row_name := None; row_type := None; row_body := Some j |}) l) = idx_occ i l.
Proof.
  intros i l. unfold rows_occ, idx_occ. rewrite map_map. f_equal. apply map_ext. intros j.
  unfold row_occ. cbn. lia.
Qed.

Lemma rows_occ_pdescs : forall i l, rows_occ i (map pdesc_row l) = pds_occ i l.
Proof. intros i l. unfold rows_occ, pds_occ. rewrite map_map. reflexivity. Qed.

Lemma rows_occ_unknown : forall i l, rows_occ i (map unknown_row l) = unk_list_occ i l.
Proof.
  intros i l. unfold rows_occ, unk_list_occ, idx_occ. rewrite !map_map. f_equal. apply map_ext. intros e.
  unfold row_occ, unknown_row. cbn. lia.
Qed.

(* label of a field-list section: singular or plural, both documented labels of the entry *)
Lemma fieldlist_label_cases : forall (rows : list row) (a b : text),
  (match rows with [_] => a | _ => b end) = a \/ (match rows with [_] => a | _ => b end) = b.
Proof. intros [|r [|r' rows]] a b; auto. Qed.

(* ---- FieldHandler.format() on the regenerated plan ------------------------------------------------------ *)
(* the labels of the plan, as documented *)
Definition params_shown (st : state) : bool := existsb pdesc_documented (st_pdescs st).
Definition ret_shown (st : state) : bool :=
  match st_ret st with Some r => params_shown st || ret_documented r | None => false end.

Definition under (labels : list text) : text -> bool := fun l => existsb (text_eqb l) labels.

Definition if_in (p : text -> bool) (l : text) (n : nat) : nat := if p l then n else 0.

Definition note_label (st : state) : text := match st_notes st with [_] => T "Note" | _ => T "Notes" end.
Definition author_label (st : state) : text := match st_authors st with [_] => T "Author" | _ => T "Authors" end.

Lemma secs_occ_unknowns : forall p i pre d,
  secs_occ p i (flat_map (fun e : text * list (option text * nat) => sec (pre ++ fst e) (map unknown_row (snd e))) d)
  = unknowns_occ (fun tag => p (pre ++ tag)) i d.
Proof.
  intros p i pre d. induction d as [|e d IH]; [reflexivity|].
  cbn [flat_map]. rewrite secs_occ_app, secs_occ_sec, IH. unfold unknowns_occ. cbn [map list_sum].
  rewrite rows_occ_unknown. reflexivity.
Qed.

Lemma match_single_map : forall {X Y Z} (f : X -> Y) (l : list X) (a b : Z),
  match map f l with [_] => a | _ => b end = match l with [_] => a | _ => b end.
Proof. intros X Y Z f [|x [|y l]] a b; reflexivity. Qed.

Lemma rows_occ_one : forall i r, rows_occ i [r] = body_occ i (row_body r) + type_occ i (row_type r).
Proof. intros. unfold rows_occ, row_occ. cbn. lia. Qed.

Lemma rows_occ_raises : forall i (l : list (tyref * nat)),
  rows_occ i (map (fun e => {| row_name := None; row_type := Some (fst e); row_body := Some (snd e) |}) l)
  = list_sum (map (fun e => body_occ i (Some (snd e)) + type_occ i (Some (fst e))) l).
Proof. intros. unfold rows_occ. rewrite map_map. reflexivity. Qed.

Lemma rows_occ_warns : forall i (l : list (option tyref * nat)),
  rows_occ i (map (fun e => {| row_name := None; row_type := fst e; row_body := Some (snd e) |}) l)
  = list_sum (map (fun e => body_occ i (Some (snd e)) + type_occ i (fst e)) l).
Proof. intros. unfold rows_occ. rewrite map_map. reflexivity. Qed.

Lemma secs_occ_nil : forall p i, secs_occ p i [] = 0.
Proof. reflexivity. Qed.

Lemma if_same : forall (c : bool) (x : nat), (if c then x else x) = x.
Proof. intros [|] x; reflexivity. Qed.

Ltac fold_T s := let x := eval vm_compute in (T s) in change x with (T s).

Theorem format_occurrences : forall st i (labels : text -> bool),
  secs_occ labels i (format st) =
    if_in labels (T "Parameters") (if params_shown st then pds_occ i (st_pdescs st) else 0) +
    if_in labels (T "Returns") (if ret_shown st then ret_occ i st else 0) +
    if_in labels (T "Yields") (yld_occ i st) +
    if_in labels (T "Raises") (raises_occ i st) +
    if_in labels (T "Warns") (warns_occ i st) +
    if_in labels (author_label st) (idx_occ i (st_authors st)) +
    if_in labels (T "See Also") (idx_occ i (st_seealsos st)) +
    if_in labels (T "Present Since") (idx_occ i (st_sinces st)) +
    if_in labels (note_label st) (idx_occ i (st_notes st)) +
    unknowns_occ (fun tag => labels (T "Unknown Field: " ++ tag)) i (st_unknowns st).
Proof.
  intros st i labels. unfold format, format_plan.
  cbn [format_plan_run emit pe_kind pe_bucket pe_label pe_plural].
  fold_T "Parameters"%string. fold_T "Returns"%string. fold_T "Yields"%string. fold_T "Raises"%string.
  fold_T "Warns"%string. fold_T "Authors"%string. fold_T "Author"%string. fold_T "See Also"%string.
  fold_T "Present Since"%string. fold_T "Notes"%string. fold_T "Note"%string. fold_T "Unknown Field: "%string.
  cbn [desc_rows]. rewrite !match_single_map.
  fold (author_label st). fold (note_label st).
  unfold params_shown, ret_shown, if_in.
  assert (Hsee : forall (l : list nat) (a : text), match l with [_] => a | _ => a end = a)
    by (intros [|? [|? ?]] a; reflexivity).
  unfold ret_occ, yld_occ, raises_occ, warns_occ.
  unfold params_shown.
  destruct (existsb pdesc_documented (st_pdescs st)) eqn:EP; cbn [orb];
    destruct (st_ret st) as [r|] eqn:ER; try destruct (ret_documented r) eqn:ED;
    rewrite ?app_nil_r, ?secs_occ_app, ?secs_occ_sec, ?secs_occ_unknowns, ?rows_occ_pdescs, ?rows_occ_map_idx,
            ?Hsee, ?secs_occ_nil, ?rows_occ_one, ?rows_occ_raises, ?rows_occ_warns;
    cbn [row_body row_type secs_occ map list_sum];
    (destruct (st_yld st) as [y|]; [rewrite rows_occ_one | cbn [rows_occ map list_sum]]);
    cbn [row_body row_type]; rewrite ?if_same; lia.
Qed.
