(* Proofs/RegistryIRProofs.v -- the interpretation (Model/RegistryIR.v) of the bodies translated from the CURRENT
   pydoctor/model.py (Gen/RegistryCode.v) is the hand-written Model/Registry.v, for every state and every argument:
     _remove, _handle_reparenting_pre  =  remove_tree        readd, _handle_reparenting_post  =  readd_tree
     handleDuplicate = handle_duplicate        addObject = add_object        reparent = reparent
   The proofs are symbolic executions of the generated code; they do not depend on the names or numbers of the local
   variables, nor on which of the equivalent walk functions a body calls. *)
From Coq Require Import ZArith NArith List Bool Lia.
From PydoctorVerif Require Import Base.Sexp Model.Registry Model.RegistryIR Gen.RegistryCode Spec.RegistryInv
     Proofs.RegistryBase Proofs.RegistryProofs Proofs.RegistryReparent.
Import ListNotations.
Local Open Scope N_scope.

(* ------------------------------------------------------------------ the walks, interleaved (as the Python code
   runs them) and collected first (as Model/Registry.v states them) *)
Fixpoint fold_opt {X} (g : registry -> X -> option registry) (l : list X) (m : registry) : option registry :=
  match l with
  | [] => Some m
  | c :: t => match g m c with Some m' => fold_opt g t m' | None => None end
  end.

(* del allobjects[o.fullName()]; for c in o.contents.values(): recurse(c) *)
Fixpoint rm_f (F : nat) (s : state) (m : registry) (o : id) : option registry :=
  match F with
  | O => None
  | S f => match fullpath s o with
           | None => None
           | Some k => match adel_strict path_eqb k m with
                       | None => None
                       | Some m1 => fold_opt (rm_f f s) (map snd (ocont (store s o))) m1
                       end
           end
  end.
(* allobjects[o.fullName()] = o; for c in o.contents.values(): recurse(c) *)
Fixpoint add_f (F : nat) (s : state) (m : registry) (o : id) : option registry :=
  match F with
  | O => None
  | S f => match fullpath s o with
           | None => None
           | Some k => fold_opt (add_f f s) (map snd (ocont (store s o))) (rset k o m)
           end
  end.

Lemma del_walk_app : forall s a b m,
    del_walk s (a ++ b) m = match del_walk s a m with Some m' => del_walk s b m' | None => None end.
Proof.
  intros s. induction a as [|x a IH]; intros b m; cbn; [reflexivity|].
  destruct (fullpath s x); [|reflexivity]. destruct (adel_strict path_eqb p m); [apply IH | reflexivity].
Qed.
Lemma set_walk_app : forall s a b m,
    set_walk s (a ++ b) m = match set_walk s a m with Some m' => set_walk s b m' | None => None end.
Proof.
  intros s. induction a as [|x a IH]; intros b m; cbn; [reflexivity|].
  destruct (fullpath s x); [apply IH | reflexivity].
Qed.

Lemma rm_f_spec : forall F s m o,
    rm_f F s m o = match subtree_f F (store s) o with Some T => del_walk s T m | None => None end.
Proof.
  induction F as [|F IH]; intros s m o; [reflexivity|]. cbn [rm_f subtree_f].
  assert (Hl : forall cs m0, fold_opt (rm_f F s) cs m0 =
                             match oconcat (subtree_f F (store s)) cs with Some Lc => del_walk s Lc m0 | None => None end).
  { induction cs as [|c cs IHc]; intros m0; cbn [fold_opt oconcat]; [reflexivity|]. rewrite IH.
    destruct (subtree_f F (store s) c) as [Tc|].
    - destruct (oconcat (subtree_f F (store s)) cs) as [Lc|] eqn:EL.
      + rewrite del_walk_app. destruct (del_walk s Tc m0); [rewrite IHc; reflexivity | reflexivity].
      + destruct (del_walk s Tc m0); [rewrite IHc; reflexivity | reflexivity].
    - reflexivity. }
  destruct (oconcat (subtree_f F (store s)) (map snd (ocont (store s o)))) as [Lc|] eqn:EL.
  - cbn [del_walk]. destruct (fullpath s o); [|reflexivity]. destruct (adel_strict path_eqb p m); [|reflexivity].
    rewrite Hl, EL. reflexivity.
  - destruct (fullpath s o); [|reflexivity]. destruct (adel_strict path_eqb p m); [|reflexivity]. rewrite Hl, EL. reflexivity.
Qed.
Lemma add_f_spec : forall F s m o,
    add_f F s m o = match subtree_f F (store s) o with Some T => set_walk s T m | None => None end.
Proof.
  induction F as [|F IH]; intros s m o; [reflexivity|]. cbn [add_f subtree_f].
  assert (Hl : forall cs m0, fold_opt (add_f F s) cs m0 =
                             match oconcat (subtree_f F (store s)) cs with Some Lc => set_walk s Lc m0 | None => None end).
  { induction cs as [|c cs IHc]; intros m0; cbn [fold_opt oconcat]; [reflexivity|]. rewrite IH.
    destruct (subtree_f F (store s) c) as [Tc|].
    - destruct (oconcat (subtree_f F (store s)) cs) as [Lc|] eqn:EL.
      + rewrite set_walk_app. destruct (set_walk s Tc m0); [rewrite IHc; reflexivity | reflexivity].
      + destruct (set_walk s Tc m0); [rewrite IHc; reflexivity | reflexivity].
    - reflexivity. }
  destruct (oconcat (subtree_f F (store s)) (map snd (ocont (store s o)))) as [Lc|] eqn:EL.
  - cbn [set_walk]. destruct (fullpath s o); [|reflexivity]. rewrite Hl, EL. reflexivity.
  - destruct (fullpath s o); [|reflexivity]. rewrite Hl, EL. reflexivity.
Qed.
Lemma rm_f_remove_tree : forall s o, rm_f (S (depthb s)) s (allobj s) o = remove_tree s o.
Proof. intros s o. rewrite rm_f_spec. reflexivity. Qed.
Lemma add_f_readd_tree : forall s o, add_f (S (depthb s)) s (allobj s) o = readd_tree s o.
Proof. intros s o. rewrite add_f_spec. reflexivity. Qed.

(* the walks only look at the store and the depth bound of the state, not at its registry *)
Lemma rm_f_set_allobj : forall F s m0 m o, rm_f F (set_allobj s m0) m o = rm_f F s m o.
Proof.
  induction F as [|F IH]; intros s m0 m o; [reflexivity|]. cbn [rm_f].
  change (fullpath (set_allobj s m0) o) with (fullpath s o). change (store (set_allobj s m0)) with (store s).
  destruct (fullpath s o) as [p|]; [|reflexivity]. destruct (adel_strict path_eqb p m) as [r|]; [|reflexivity].
  generalize (map snd (ocont (store s o))). intros cs. revert r. induction cs as [|c cs IHl]; intros r; cbn; [reflexivity|].
  rewrite IH. destruct (rm_f F s r c); [apply IHl | reflexivity].
Qed.
Lemma add_f_set_allobj : forall F s m0 m o, add_f F (set_allobj s m0) m o = add_f F s m o.
Proof.
  induction F as [|F IH]; intros s m0 m o; [reflexivity|]. cbn [add_f].
  change (fullpath (set_allobj s m0) o) with (fullpath s o). change (store (set_allobj s m0)) with (store s).
  destruct (fullpath s o) as [p|]; [|reflexivity].
  generalize (map snd (ocont (store s o))) (rset p o m). intros cs. induction cs as [|c cs IHl]; intros r; cbn; [reflexivity|].
  rewrite IH. destruct (add_f F s r c); [apply IHl | reflexivity].
Qed.

(* ------------------------------------------------------------------ loops *)
Fixpoint fold_st (g : state -> id -> option state) (l : list id) (s : state) : option state :=
  match l with
  | [] => Some s
  | c :: t => match g s c with Some s1 => fold_st g t s1 | None => None end
  end.

(* a `for` whose body only acts on the state, through g *)
Lemma for_loop_state : forall (body : step_t) x (g : state -> id -> option state),
    (forall e0 s0 c, option_map snd (body (eset e0 x (VObj c)) s0) = g s0 c) ->
    forall os e s, option_map snd (for_loop body x os e s) = fold_st g os s.
Proof.
  intros body x g Hb. induction os as [|c os IH]; intros e s; [reflexivity|]. cbn [for_loop fold_st].
  assert (H := Hb e s c). destruct (body (eset e x (VObj c)) s) as [[e1 s1]|]; cbn in H; rewrite <- H; [apply IH | reflexivity].
Qed.

(* folding the registry through states that differ only in their registry *)
Lemma fold_st_registry : forall (g : state -> id -> option state) (h : registry -> id -> option registry) s,
    (forall m c, g (set_allobj s m) c = option_map (set_allobj s) (h m c)) ->
    forall l m, fold_st g l (set_allobj s m) = option_map (set_allobj s) (fold_opt h l m).
Proof.
  intros g h s H. induction l as [|c l IH]; intros m; cbn; [reflexivity|].
  rewrite H. destruct (h m c); cbn; [apply IH | reflexivity].
Qed.

(* ------------------------------------------------------------------ symbolic execution *)
Lemma result_state : forall (r : option (env * state)),
    match r with Some (_, s1) => Some s1 | None => None end = option_map snd r.
Proof. intros [[e s]|]; reflexivity. Qed.

(* unfold the interpreter on the program text and the environment lookups (variables are numerals) *)
Ltac ir_step :=
  cbn [exec eval evalc evals eset env0 run_fun bind_params f_params f_body option_map snd fst same_ref key_in
       N.eqb Pos.eqb negb andb
       registry_code code_remove code_readd code_pre code_post code_handleDuplicate code_addObject code_reparent
       c_remove c_readd c_pre c_post c_handleDuplicate c_addObject c_reparent walker].

Definition is_del (f : fname) : option bool :=
  match f with FRemove | FPre => Some true | FReadd | FPost => Some false | _ => None end.

Lemma set_allobj_twice : forall s m m', set_allobj (set_allobj s m) m' = set_allobj s m'.
Proof. reflexivity. Qed.

(* one step of a walk, on a state *)
Definition del_step (s0 : state) (c : id) : option state :=
  match fullpath s0 c with
  | Some k => match adel_strict path_eqb k (allobj s0) with Some m => Some (set_allobj s0 m) | None => None end
  | None => None
  end.
Definition set_step (s0 : state) (c : id) : option state :=
  match fullpath s0 c with
  | Some k => Some (set_allobj s0 (rset k c (allobj s0)))
  | None => None
  end.
Lemma fold_st_del : forall s T m, fold_st del_step T (set_allobj s m) = option_map (set_allobj s) (del_walk s T m).
Proof.
  intros s. induction T as [|c T IH]; intros m; cbn [fold_st del_walk]; [reflexivity|]. unfold del_step at 1.
  change (fullpath (set_allobj s m) c) with (fullpath s c). cbn [allobj set_allobj].
  destruct (fullpath s c) as [k|]; [|reflexivity]. destruct (adel_strict path_eqb k m) as [m1|]; [apply IH | reflexivity].
Qed.
Lemma fold_st_set : forall s T m, fold_st set_step T (set_allobj s m) = option_map (set_allobj s) (set_walk s T m).
Proof.
  intros s. induction T as [|c T IH]; intros m; cbn [fold_st set_walk]; [reflexivity|]. unfold set_step at 1.
  change (fullpath (set_allobj s m) c) with (fullpath s c). cbn [allobj set_allobj].
  destruct (fullpath s c) as [k|]; [apply IH | reflexivity].
Qed.
Lemma set_allobj_self : forall s, set_allobj s (allobj s) = s.
Proof. intros [st n a r d u]. reflexivity. Qed.

(* is the walk written as a loop over _iter_subtree (flat) or as a recursion over contents.values()? *)
Definition flat (d : fundef) : bool := match f_body d with SForSubtree _ _ _ => true | _ => false end.

(* the four walks, for every fuel: a recursive one is the interleaved walk with that fuel, a flat one is the walk
   over Registry.subtree (whatever fuel is left, as long as the call itself is possible) *)
Definition walk_spec (F : nat) (f : fname) (o : id) (s : state) : option state :=
  match is_del f, walker registry_code f with
  | Some del, Some d =>
    if flat d
    then match F with
         | O => None
         | S _ => option_map (set_allobj s) (if del then remove_tree s o else readd_tree s o)
         end
    else option_map (set_allobj s) (if del then rm_f F s (allobj s) o else add_f F s (allobj s) o)
  | _, _ => None
  end.

(* a recursive body: <step on self>; for c in contents.values(): <walk>(c) *)
Ltac walk_rec F IH s o :=
  cbn [rm_f add_f]; destruct (fullpath s o) as [k|]; try reflexivity; ir_step;
  try (destruct (adel_strict path_eqb k (allobj s)) as [m1|]; [|reflexivity]; ir_step);
  rewrite result_state;
  match goal with
  | |- context [for_loop ?body ?x _ _ _] =>
    match body with context [walker_ir registry_code F ?f'] =>
      rewrite (for_loop_state _ x (fun s0 c => walker_ir registry_code F f' [VObj c] s0));
      [ apply fold_st_registry; intros m c; rewrite IH; unfold walk_spec; cbn [is_del walker registry_code flat f_body
                 c_remove c_readd c_pre c_post code_remove code_readd code_pre code_post allobj set_allobj];
        rewrite ?rm_f_set_allobj, ?add_f_set_allobj;
        first [destruct (rm_f F s m c); reflexivity | destruct (add_f F s m c); reflexivity]
      | intros e0 s0 c; unfold eset; rewrite N.eqb_refl;
        destruct (walker_ir registry_code F f' [VObj c] s0); reflexivity ]
    end
  end.
(* a flat body: for x in _iter_subtree(self): <step on x> *)
Ltac walk_flat s o :=
  unfold remove_tree, readd_tree; destruct (subtree s o) as [T|]; [|reflexivity];
  rewrite result_state;
  match goal with
  | |- context [for_loop ?body ?x _ _ _] =>
    first [ rewrite (for_loop_state body x del_step);
            [ rewrite <- (set_allobj_self s) at 1; apply fold_st_del
            | intros e0 s0 c; unfold del_step; ir_step; unfold eset; rewrite ?N.eqb_refl;
              destruct (fullpath s0 c); [destruct (adel_strict path_eqb _ (allobj s0))|]; reflexivity ]
          | rewrite (for_loop_state body x set_step);
            [ rewrite <- (set_allobj_self s) at 1; apply fold_st_set
            | intros e0 s0 c; unfold set_step; ir_step; unfold eset; rewrite ?N.eqb_refl;
              destruct (fullpath s0 c); reflexivity ] ]
  end.

Lemma walker_ir_eq : forall F f o s, walker_ir registry_code F f [VObj o] s = walk_spec F f o s.
Proof.
  induction F as [|F IH]; intros f o s.
  - unfold walk_spec. destruct f; cbn; try reflexivity;
      match goal with |- context [if ?b then _ else _] => destruct b end; reflexivity.
  - destruct f; unfold walk_spec; cbn [is_del walker_ir walker registry_code c_remove c_readd c_pre c_post]; try reflexivity;
      ir_step; cbn [flat f_body code_remove code_readd code_pre code_post]; ir_step;
      first [ walk_rec F IH s o | walk_flat s o ].
Qed.

(* the walks started by a call: the fuel Registry.subtree has *)
Lemma call_walker_eq : forall f o s,
    walker_ir registry_code (S (depthb s)) f [VObj o] s =
    match is_del f with
    | Some true => option_map (set_allobj s) (remove_tree s o)
    | Some false => option_map (set_allobj s) (readd_tree s o)
    | None => None
    end.
Proof.
  intros f o s. rewrite walker_ir_eq. unfold walk_spec.
  destruct f; cbn [is_del walker registry_code c_remove c_readd c_pre c_post flat f_body code_remove code_readd code_pre code_post];
    rewrite ?rm_f_remove_tree, ?add_f_readd_tree; reflexivity.
Qed.

(* ------------------------------------------------------------------ equality of states up to the (pointwise) store *)
Definition steq (a b : state) : Prop :=
  (forall x, store a x = store b x) /\ next a = next b /\ allobj a = allobj b /\ roots a = roots b /\
  depthb a = depthb b /\ unproc a = unproc b.
Definition oeq (a b : option state) : Prop :=
  match a, b with
  | None, None => True
  | Some x, Some y => steq x y
  | _, _ => False
  end.
Lemma steq_refl : forall s, steq s s.
Proof. intros s. unfold steq. auto 10. Qed.
Lemma oeq_refl : forall a, oeq a a.
Proof. intros [s|]; cbn; [apply steq_refl | exact I]. Qed.

Lemma fullpath_f_peq : forall st st', (forall x, oname (st' x) = oname (st x) /\ oparent (st' x) = oparent (st x)) ->
    forall F o, fullpath_f F st' o = fullpath_f F st o.
Proof. exact fullpath_f_ext. Qed.

(* readd only reads name, parent and contents *)
Lemma readd_tree_ext : forall s s' o,
    (forall x, oname (store s' x) = oname (store s x) /\ oparent (store s' x) = oparent (store s x) /\
               ocont (store s' x) = ocont (store s x)) ->
    depthb s' = depthb s -> allobj s' = allobj s -> readd_tree s' o = readd_tree s o.
Proof.
  intros s s' o H Hd Ha. unfold readd_tree, subtree. rewrite Hd, Ha.
  rewrite (subtree_f_ext (store s) (store s')) by (intros x; apply H).
  destruct (subtree_f (S (depthb s)) (store s) o) as [T|]; [|reflexivity].
  apply set_walk_ext. intros x. unfold fullpath. rewrite Hd. apply fullpath_f_ext. intros y. destruct (H y) as [H1 [H2 _]]. auto.
Qed.

(* ------------------------------------------------------------------ the search for a free index *)
(* while <test>: i += 1   where <test> reads i as `used i` and nothing else changes *)
Lemma while_find_free : forall (test : env -> state -> option bool) (body : step_t) (vi : var) (used : N -> bool) (einit : env) s,
    (forall e i, e vi = VInt i -> (forall y, y <> vi -> e y = einit y) -> test e s = Some (used i)) ->
    (forall e i, e vi = VInt i -> body e s = Some (eset e vi (VInt (N.succ i)), s)) ->
    forall n e i, e vi = VInt i -> (forall y, y <> vi -> e y = einit y) ->
      match find_free n used i with
      | Some j => exists e', while_loop test body n e s = Some (e', s) /\ e' vi = VInt j /\ (forall y, y <> vi -> e' y = einit y)
      | None => while_loop test body n e s = None
      end.
Proof.
  intros test body vi used einit s Ht Hb. induction n as [|n IH]; intros e i Hi He; cbn [find_free while_loop]; [reflexivity|].
  rewrite (Ht e i Hi He). destruct (used i).
  - rewrite (Hb e i Hi). apply IH.
    + unfold eset. rewrite N.eqb_refl. reflexivity.
    + intros y Hy. unfold eset. destruct (N.eqb vi y) eqn:E; [apply N.eqb_eq in E; congruence | apply He; exact Hy].
  - exists e. auto.
Qed.

(* a `for` whose body leaves the environment alone *)
Lemma for_loop_full : forall (body : step_t) x (g : state -> id -> option state),
    (forall e0 s0 c, body (eset e0 x (VObj c)) s0 = option_map (pair (eset e0 x (VObj c))) (g s0 c)) ->
    forall os e s, for_loop body x os e s =
                   option_map (pair (fold_left (fun e1 c => eset e1 x (VObj c)) os e)) (fold_st g os s).
Proof.
  intros body x g Hb. induction os as [|c os IH]; intros e s; [reflexivity|]. cbn [for_loop fold_st fold_left].
  rewrite Hb. destruct (g s c) as [s1|]; cbn [option_map]; [apply IH | reflexivity].
Qed.
Lemma fold_eset_other : forall x os e y, y <> x -> fold_left (fun e1 c => eset e1 x (VObj c)) os e y = e y.
Proof.
  intros x. induction os as [|c os IH]; intros e y Hy; cbn [fold_left]; [reflexivity|].
  rewrite IH by exact Hy. unfold eset. destruct (N.eqb x y) eqn:E; [apply N.eqb_eq in E; congruence | reflexivity].
Qed.
Lemma fold_st_set' : forall s T, fold_st set_step T s = option_map (set_allobj s) (set_walk s T (allobj s)).
Proof. intros s T. rewrite <- (set_allobj_self s) at 1. apply fold_st_set. Qed.

Arguments fullpath : simpl never.
Arguments remove_tree : simpl never.
Arguments readd_tree : simpl never.

Ltac look e' Hj He' :=
  repeat match goal with
         | |- context [e' ?y] => first [rewrite Hj | rewrite (He' y) by discriminate]
         end; cbn [eset env0 N.eqb Pos.eqb].

Theorem handle_duplicate_ir_eq : forall s ob fn, fullpath s ob = Some fn ->
    oeq (hd_ir registry_code s ob) (handle_duplicate s ob fn).
Proof.
  intros s ob fn Hfn. unfold hd_ir, handle_duplicate. rewrite Hfn.
  (* the loop of the translated code, located by its syntactic shape *)
  let body := eval cbv delta [code_handleDuplicate f_body] beta iota in (f_body code_handleDuplicate) in
  match body with context [SWhile (CInAll (ESuffix (EVar ?vf) (EVar ?vi))) (SIncr ?vi)] =>
    ir_step; rewrite Hfn; ir_step;
    match goal with |- context [while_loop ?t ?b ?n ?e ?st] =>
      assert (HW := while_find_free t b vi (fun i => key_in (dup_key fn i) (allobj s)) e st);
      cbv beta in HW;
      assert (HW' := HW
        ltac:(intros e0 i Hi He; rewrite Hi, (He vf) by discriminate; reflexivity)
        ltac:(intros e0 i Hi; rewrite Hi; reflexivity)
        n e 0 eq_refl (fun y _ => eq_refl)); clear HW
    end;
    destruct (find_free (S (length (allobj s))) (fun i => key_in (dup_key fn i) (allobj s)) 0) as [j|];
    [ destruct HW' as [e' [Hw [Hj He']]]; rewrite Hw | rewrite HW'; destruct (rget fn (allobj s)); exact I ]
  end.
  look e' Hj He'. ir_step. look e' Hj He'.
  destruct (rget fn (allobj s)) as [prev|]; [|exact I].
  ir_step. cbn [call1]. ir_step. rewrite call_walker_eq. cbn [is_del].
  destruct (remove_tree s prev) as [m1|]; [|exact I]. cbn [option_map]. ir_step. look e' Hj He'. ir_step.
  match goal with |- oeq ?L ?R => match R with context [readd_tree ?S2 prev] => set (s2 := S2) end end.
  (* the state in which the renamed subtree is registered again differs from the model's only in the ghost flag *)
  assert (Hext : forall SN, (forall x, store SN x = upd (store s) prev (with_name (store s prev) (dup_name (oname (store s ob)) j)) x) ->
                            depthb SN = depthb s -> allobj SN = m1 -> readd_tree SN prev = readd_tree s2 prev).
  { intros SN H1 H2 H3. apply readd_tree_ext; [|exact H2 | exact H3].
    intros x. rewrite H1. unfold s2. cbn [store]. unfold upd. destruct (N.eqb x prev); cbn; auto. }
  first
  [ (* readd(prev) / prev._handle_reparenting_post(): a call *)
    cbn [call1]; ir_step; rewrite call_walker_eq; cbn [is_del];
    match goal with |- oeq ?L _ => match L with context [readd_tree ?SN prev] =>
      rewrite (Hext SN) by (intros; reflexivity) end end;
    destruct (readd_tree s2 prev) as [m2|]; [|exact I]; cbn [option_map]; ir_step; look e' Hj He'; ir_step
  | (* for ob in _iter_subtree(prev): allobjects[ob.fullName()] = ob : inline *)
    match goal with |- oeq ?L _ => match L with context [subtree ?SN prev] =>
      rewrite <- (Hext SN) by (intros; reflexivity); unfold readd_tree;
      destruct (subtree SN prev) as [T|]; [|exact I];
      match goal with |- context [for_loop ?body ?x T _ _] =>
        rewrite (for_loop_full body x set_step)
          by (intros e0 s0 c; unfold set_step; unfold eset; rewrite ?N.eqb_refl; destruct (fullpath s0 c); reflexivity)
      end;
      rewrite fold_st_set';
      destruct (set_walk SN T (allobj SN)) as [m2|]; [|exact I]; cbn [option_map]; ir_step;
      rewrite ?fold_eset_other by discriminate; cbn [eset N.eqb Pos.eqb]; look e' Hj He'; ir_step
    end end ].
  all: cbn [oeq]; unfold steq, mark_sup, s2; cbn [store next allobj roots depthb unproc st_name set_store set_allobj];
    (split; [|repeat split; reflexivity]);
    intros x; unfold upd; destruct (N.eqb x prev) eqn:E; [|reflexivity];
    apply N.eqb_eq in E; subst x; rewrite ?N.eqb_refl; reflexivity.
Qed.

Lemma aset_absent {K V} (eqb : K -> K -> bool) : forall k (v : V) l, aget eqb k l = None -> aset eqb k v l = l ++ [(k, v)].
Proof.
  intros k v. induction l as [|[k' v'] t IH]; cbn; intros H; [reflexivity|].
  destruct (eqb k' k); [discriminate | rewrite IH by exact H; reflexivity].
Qed.

(* after the first statement of addObject: register obj under its full name in the state s1 *)
Ltac ao_tail ob :=
  match goal with |- context [fullpath ?S1 ob] =>
    let s1 := fresh "s1" in set (s1 := S1);
    let fn := fresh "fn" in let Efn := fresh "Efn" in
    destruct (fullpath s1 ob) as [fn|] eqn:Efn; [|exact I]; ir_step;
    let first := fresh "first" in let Er := fresh "Er" in
    destruct (rget fn (allobj s1)) as [first|] eqn:Er; ir_step; unfold key_in; rewrite ?Er; ir_step;
    [ try rewrite (N.eqb_sym ob first);
      destruct (N.eqb first ob); cbn [negb option_map]; ir_step;
      [ apply steq_refl
      | cbn [call2];
        let H := fresh in assert (H := handle_duplicate_ir_eq s1 ob fn Efn);
        destruct (hd_ir registry_code s1 ob); destruct (handle_duplicate s1 ob fn); cbn in H |- *; auto ]
    | rewrite ?N.eqb_refl; cbn [negb option_map]; ir_step; unfold rset; rewrite (aset_absent path_eqb _ _ _ Er);
      apply steq_refl ]
  end.

Theorem add_object_ir_eq : forall s ob, oeq (add_object_ir registry_code s ob) (add_object s ob).
Proof.
  intros s ob. unfold add_object_ir, add_object. ir_step.
  destruct (oparent (store s ob)) as [q|] eqn:Epar; ir_step.
  - unfold st_cont. ao_tail ob.
  - destruct (is_module (ocl (store s ob))); ir_step; [|exact I]. unfold st_roots_append. ao_tail ob.
Qed.

Lemma oeq_trans : forall a b c, oeq a b -> oeq b c -> oeq a c.
Proof.
  intros a b c. destruct a as [a|]; destruct b as [b|]; destruct c as [c|]; cbn [oeq]; try tauto.
  unfold steq. intros [H1 [H2 [H3 [H4 [H5 H6]]]]] [G1 [G2 [G3 [G4 [G5 G6]]]]].
  split; [intros x; rewrite H1; apply G1 | repeat split; congruence].
Qed.
Lemma peq_upd : forall (a b : id -> obj) k v v', (forall x, a x = b x) -> v = v' -> forall x, upd a k v x = upd b k v' x.
Proof. intros a b k v v' H Hv x. unfold upd. destruct (N.eqb x k); [exact Hv | apply H]. Qed.
Lemma readd_tree_peq : forall sa sb o, (forall x, store sa x = store sb x) -> depthb sa = depthb sb -> allobj sa = allobj sb ->
    readd_tree sa o = readd_tree sb o.
Proof. intros sa sb o H Hd Ha. apply readd_tree_ext; auto. intros x. rewrite H. auto. Qed.

(* the rest of reparent does not depend on how the store after the two assignments is written *)
Lemma reparent_tail_peq : forall s o np nn oldp oldname m1 stA stB, (forall x, stA x = stB x) ->
    oeq (reparent_tail s o np nn oldp oldname m1 stA) (reparent_tail s o np nn oldp oldname m1 stB).
Proof.
  intros s o np nn oldp oldname m1 stA stB H. unfold reparent_tail.
  rewrite (readd_tree_peq (mkState stA (next s) m1 (roots s) (S (depthb s + depthb s)) (unproc s))
                          (mkState stB (next s) m1 (roots s) (S (depthb s + depthb s)) (unproc s)) o H eq_refl eq_refl).
  destruct (readd_tree _ o) as [m2|]; [|exact I]. rewrite (H oldp).
  destruct (adel_strict name_eqb oldname (ocont (stB oldp))) as [c3|]; [|exact I]. cbn [depthb].
  assert (H3 : forall x, upd stA oldp (with_cont (stB oldp) c3) x = upd stB oldp (with_cont (stB oldp) c3) x)
    by (apply peq_upd; auto).
  rewrite (fullpath_f_ext _ _ (fun x => conj (f_equal oname (H3 x)) (f_equal oparent (H3 x)))).
  destruct (fullpath_f _ _ o) as [fno|]; [|exact I].
  set (st4A := upd (upd stA oldp _) oldp _). set (st4B := upd (upd stB oldp _) oldp _).
  assert (H4 : forall x, st4A x = st4B x) by (apply peq_upd; [exact H3 | rewrite (H3 oldp); reflexivity]).
  set (st5A := upd st4A np _). set (st5B := upd st4B np _).
  assert (H5 : forall x, st5A x = st5B x) by (apply peq_upd; [exact H4 | rewrite (H4 np); reflexivity]).
  rewrite (readd_tree_peq (mkState st5A (next s) m2 (roots s) (S (depthb s + depthb s)) (unproc s))
                          (mkState st5B (next s) m2 (roots s) (S (depthb s + depthb s)) (unproc s)) o H5 eq_refl eq_refl).
  destruct (readd_tree _ o) as [m3|]; [|exact I]. cbn. unfold steq. cbn. auto 10.
Qed.

Ltac norm_state :=
  unfold st_name, st_parent, st_cont, st_alias, set_store, set_allobj; cbn [store next allobj roots depthb unproc].

Theorem reparent_ir_eq : forall s o np nn, oeq (reparent_ir registry_code s o np nn) (reparent s o np nn).
Proof.
  intros s o np nn. unfold reparent_ir, reparent. ir_step. cbn [call1]. ir_step.
  rewrite call_walker_eq. cbn [is_del].
  destruct (remove_tree s o) as [m1|]; [|exact I]. cbn [option_map]. ir_step.
  cbn [store set_allobj].
  destruct (oparent (store s o)) as [oldp|]; ir_step; [|exact I].
  destruct (can_contain_imports (ocl (store s oldp))); ir_step; [|exact I].
  (* the store after `self.parent = ...; self.name = ...`, as the code builds it *)
  eapply oeq_trans; [|apply (reparent_tail_peq s o np nn oldp (oname (store s o)) m1
                          (upd (upd (store s) o (with_parent (store s o) (Some np))) o
                               (with_name (upd (store s) o (with_parent (store s o) (Some np)) o) nn)))].
  2: { intros x. unfold upd. destruct (N.eqb x o) eqn:E; [|reflexivity]. rewrite N.eqb_refl. reflexivity. }
  unfold reparent_tail.
  cbn [call1]. ir_step. rewrite call_walker_eq. cbn [is_del]. norm_state.
  match goal with |- context [readd_tree ?S2 o] => destruct (readd_tree S2 o) as [m2|]; [|exact I] end.
  cbn [option_map]. ir_step. norm_state.
  match goal with |- context [adel_strict name_eqb ?n ?c] => destruct (adel_strict name_eqb n c) as [c3|]; [|exact I] end.
  ir_step. norm_state. unfold fullpath. norm_state.
  match goal with |- context [fullpath_f ?d ?st o] => destruct (fullpath_f d st o) as [fno|]; [|exact I] end.
  ir_step. cbn [call1]. ir_step. rewrite call_walker_eq. cbn [is_del]. norm_state.
  match goal with |- context [readd_tree ?S5 o] => destruct (readd_tree S5 o) as [m3|]; [|exact I] end.
  cbn [option_map]. apply steq_refl.
Qed.
