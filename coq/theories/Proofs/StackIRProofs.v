(* Proofs/StackIRProofs.v -- interpreting ASTBuilder.push / pop as translated from the CURRENT source (Gen/StackCode.v) is the
   hand model push_m / pop_m, and the hand model moves the scope list the way Model.BuilderStack.stack_run assumes:
   push conses the object, pop requires it on top and removes it. *)
From Coq Require Import NArith List Bool.
From PydoctorVerif Require Import Model.StackIR Gen.StackCode.
Import ListNotations.

Section S.
  Variable is_module : N -> bool.
  Variable obj : N.
  Variable ln : bool.

  Ltac split_atoms s :=
    destruct (is_module obj) eqn:?; destruct (b_mod s) as [?m|] eqn:?; destruct (b_pmod s obj) as [?pm|] eqn:?;
    destruct (b_current s) as [?c|] eqn:?; destruct (b_stack s) as [|?top ?rest] eqn:?.

  Theorem push_ir_eq s :
    sexec is_module obj ln (sc_push builder_stack_code) s = push_m is_module obj s.
  Proof.
    unfold builder_stack_code, code_push, push_m. cbn [sc_push].
    split_atoms s; cbn;
      repeat match goal with H : _ = _ |- _ => rewrite H end; cbn;
      try reflexivity;
      repeat match goal with |- context [N.eqb ?a ?b] => destruct (N.eqb a b) eqn:? end; cbn; reflexivity.
  Qed.

  Theorem pop_ir_eq s :
    sexec is_module obj ln (sc_pop builder_stack_code) s = pop_m is_module obj s.
  Proof.
    unfold builder_stack_code, code_pop, pop_m. cbn [sc_pop].
    split_atoms s; cbn;
      repeat match goal with H : _ = _ |- _ => rewrite H end; cbn;
      try reflexivity;
      repeat match goal with |- context [N.eqb ?a ?b] => destruct (N.eqb a b) eqn:? end; cbn;
      repeat match goal with H : _ = _ |- _ => rewrite H end; cbn; reflexivity.
  Qed.

  (* the scope list: push conses, pop needs the object on top and removes it *)
  Lemma push_m_scopes s s' : push_m is_module obj s = Some s' -> scopes s' = obj :: scopes s.
  Proof.
    unfold push_m, scopes.
    destruct (is_module obj); destruct (b_mod s); destruct (b_pmod s obj) as [pm|];
      try destruct (N.eqb pm _); intros H; inversion H; subst; cbn; reflexivity.
  Qed.

  Lemma pop_m_scopes s s' : pop_m is_module obj s = Some s' -> scopes s = obj :: scopes s'.
  Proof.
    unfold pop_m, scopes.
    destruct (b_current s) as [c|] eqn:Ec; [|discriminate].
    destruct (N.eqb_spec c obj) as [->|]; [|discriminate].
    destruct (b_stack s) as [|top rest] eqn:Es; [discriminate|].
    intros H; inversion H; subst; cbn. reflexivity.
  Qed.

  Lemma pop_m_wrong_top s c : b_current s = Some c -> c <> obj -> pop_m is_module obj s = None.
  Proof.
    intros Hc Hne. unfold pop_m. rewrite Hc. destruct (N.eqb_spec c obj); [contradiction|reflexivity].
  Qed.
End S.
