(* Proofs/RegistryCheck.v -- the executable checker inv_check of Model/Registry.v decides the invariant Inv:
   inv_check s = true <-> Inv s.  (The harness evaluates inv_check on every generated history and compares it with
   the Python oracle on the real System.) *)
From Coq Require Import ZArith NArith List Bool Lia.
From PydoctorVerif Require Import Base.Sexp Model.Registry Spec.RegistryInv Proofs.RegistryBase Proofs.RegistryProofs.
Import ListNotations.
Local Open Scope N_scope.

Lemma pmem_false : forall p l, pmem p l = false -> ~ In p l.
Proof.
  intros p. induction l as [|x t IH]; cbn; intros H; [tauto|]. apply orb_false_iff in H. destruct H as [H1 H2].
  intros [->|Hin]; [rewrite path_eqb_refl in H1; discriminate | apply IH; assumption].
Qed.
Lemma pmem_in : forall p l, In p l -> pmem p l = true.
Proof.
  intros p. induction l as [|x t IH]; cbn; intros H; [destruct H|]. destruct H as [->|H]; [rewrite path_eqb_refl; reflexivity|].
  rewrite (IH H). apply orb_true_r.
Qed.
Lemma nodup_paths_iff : forall l, nodup_paths l = true <-> NoDup l.
Proof.
  induction l as [|x t IH]; cbn; split; intros H; try reflexivity; try constructor.
  - apply andb_true_iff in H. destruct H as [H1 H2]. apply pmem_false. destruct (pmem x t); [discriminate | reflexivity].
  - apply andb_true_iff in H. apply IH. apply H.
  - inversion H as [|? ? Hn Hnd]; subst. apply andb_true_iff. split; [|apply IH; exact Hnd].
    destruct (pmem x t) eqn:E; [|reflexivity]. exfalso. apply Hn. clear - E.
    induction t as [|y t IH]; cbn in E; [discriminate|]. apply orb_true_iff in E. destruct E as [E|E].
    + apply path_eqb_eq in E. left. exact E.
    + right. apply IH. exact E.
Qed.
Lemma nmem_false : forall p l, nmem p l = false -> ~ In p l.
Proof.
  intros p. induction l as [|x t IH]; cbn; intros H; [tauto|]. apply orb_false_iff in H. destruct H as [H1 H2].
  intros [->|Hin]; [rewrite name_eqb_refl in H1; discriminate | apply IH; assumption].
Qed.
Lemma nodup_names_iff : forall l, nodup_names l = true <-> NoDup l.
Proof.
  induction l as [|x t IH]; cbn; split; intros H; try reflexivity; try constructor.
  - apply andb_true_iff in H. destruct H as [H1 H2]. apply nmem_false. destruct (nmem x t); [discriminate | reflexivity].
  - apply andb_true_iff in H. apply IH. apply H.
  - inversion H as [|? ? Hn Hnd]; subst. apply andb_true_iff. split; [|apply IH; exact Hnd].
    destruct (nmem x t) eqn:E; [|reflexivity]. exfalso. apply Hn. clear - E.
    induction t as [|y t IH]; cbn in E; [discriminate|]. apply orb_true_iff in E. destruct E as [E|E].
    + apply name_eqb_eq in E. left. exact E.
    + right. apply IH. exact E.
Qed.

Lemma registered_iff : forall s o, NoDup (map fst (allobj s)) -> (registered s o = true <-> reg s o).
Proof.
  intros s o Hnd. unfold registered, reg. rewrite existsb_exists. split.
  - intros [[p o'] [Hin He]]. cbn in He. apply N.eqb_eq in He. subst o'. exists p.
    apply (in_aget path_eqb path_eqb_eq); assumption.
  - intros [p Hp]. exists (p, o). split; [apply (aget_in path_eqb path_eqb_eq); exact Hp | apply N.eqb_refl].
Qed.
Lemma mem_id_iff : forall x l, mem_id x l = true <-> In x l.
Proof.
  intros x l. unfold mem_id. rewrite existsb_exists. split.
  - intros [y [Hy He]]. apply N.eqb_eq in He. subst. exact Hy.
  - intros H. exists x. split; [exact H | apply N.eqb_refl].
Qed.
Lemma opt_id_eqb_iff : forall a b, opt_id_eqb a b = true <-> a = Some b.
Proof. intros [a|] b; cbn; [rewrite N.eqb_eq; split; congruence | split; discriminate]. Qed.
Lemma opt_path_eqb_iff : forall a b, opt_path_eqb a b = true <-> a = Some b.
Proof. intros [a|] b; cbn; [rewrite path_eqb_eq; split; congruence | split; discriminate]. Qed.
Lemma ocls_eqb_iff : forall a b, ocls_eqb a b = true <-> a = b.
Proof. intros [] []; cbn; split; intros H; try reflexivity; try discriminate. Qed.

(* what one entry check says *)
Definition entry_ok (s : state) (p : path) (o : id) : Prop :=
  fullpath s o = Some p /\ o < next s /\
  match oparent (store s o) with
  | None => In o (roots s)
  | Some q => reg s q /\
              (cget (oname (store s o)) (ocont (store s q)) = Some o \/ osup (store s o) = true) /\
              (is_module (ocl (store s o)) = true -> ocl (store s q) = CPackage) /\
              (ocl (store s o) = CFunction -> ocl (store s q) = CClass -> method_like (okind (store s o)) = true)
  end /\
  (forall n c, In (n, c) (ocont (store s o)) -> reg s c /\ oparent (store s c) = Some o /\ oname (store s c) = n) /\
  (can_contain_imports (ocl (store s o)) = false -> ocont (store s o) = []) /\
  NoDup (map fst (ocont (store s o))).

Lemma check_entry_iff : forall s p o, NoDup (map fst (allobj s)) -> (check_entry s (p, o) = true <-> entry_ok s p o).
Proof.
  intros s p o Hnd. unfold check_entry, entry_ok. rewrite !andb_true_iff.
  rewrite opt_path_eqb_iff, N.ltb_lt, nodup_names_iff.
  assert (Hpar : (match oparent (store s o) with
                  | Some q => registered s q &&
                      (opt_id_eqb (cget (oname (store s o)) (ocont (store s q))) o || osup (store s o)) &&
                      (if is_module (ocl (store s o)) then ocls_eqb (ocl (store s q)) CPackage else true) &&
                      (if ocls_eqb (ocl (store s o)) CFunction && ocls_eqb (ocl (store s q)) CClass
                       then method_like (okind (store s o)) else true)
                  | None => mem_id o (roots s)
                  end = true) <->
                 match oparent (store s o) with
                 | None => In o (roots s)
                 | Some q => reg s q /\
                     (cget (oname (store s o)) (ocont (store s q)) = Some o \/ osup (store s o) = true) /\
                     (is_module (ocl (store s o)) = true -> ocl (store s q) = CPackage) /\
                     (ocl (store s o) = CFunction -> ocl (store s q) = CClass -> method_like (okind (store s o)) = true)
                 end).
  { destruct (oparent (store s o)) as [q|]; [|apply mem_id_iff].
    rewrite !andb_true_iff, orb_true_iff, opt_id_eqb_iff, (registered_iff s q Hnd).
    assert (A : (if is_module (ocl (store s o)) then ocls_eqb (ocl (store s q)) CPackage else true) = true <->
                (is_module (ocl (store s o)) = true -> ocl (store s q) = CPackage)).
    { destruct (is_module (ocl (store s o))); [rewrite ocls_eqb_iff; split; auto | split; [discriminate | reflexivity]]. }
    assert (B : (if ocls_eqb (ocl (store s o)) CFunction && ocls_eqb (ocl (store s q)) CClass
                 then method_like (okind (store s o)) else true) = true <->
                (ocl (store s o) = CFunction -> ocl (store s q) = CClass -> method_like (okind (store s o)) = true)).
    { destruct (ocls_eqb (ocl (store s o)) CFunction) eqn:E1; destruct (ocls_eqb (ocl (store s q)) CClass) eqn:E2; cbn.
      - apply ocls_eqb_iff in E1. apply ocls_eqb_iff in E2. split; auto.
      - split; [intros _ _ H; apply ocls_eqb_iff in H; congruence | reflexivity].
      - split; [intros _ H; apply ocls_eqb_iff in H; congruence | reflexivity].
      - split; [intros _ H; apply ocls_eqb_iff in H; congruence | reflexivity]. }
    rewrite A, B. tauto. }
  assert (Hcont : forallb (fun nc => registered s (snd nc) && opt_id_eqb (oparent (store s (snd nc))) o &&
                                     name_eqb (oname (store s (snd nc))) (fst nc)) (ocont (store s o)) = true <->
                  (forall n c, In (n, c) (ocont (store s o)) -> reg s c /\ oparent (store s c) = Some o /\ oname (store s c) = n)).
  { rewrite forallb_forall. split.
    - intros H n c Hin. specialize (H (n, c) Hin). cbn in H. rewrite !andb_true_iff in H. destruct H as [[H1 H2] H3].
      split; [apply (registered_iff s c Hnd); exact H1 | split; [apply opt_id_eqb_iff; exact H2 | apply name_eqb_eq; exact H3]].
    - intros H [n c] Hin. destruct (H n c Hin) as [H1 [H2 H3]]. cbn. rewrite !andb_true_iff.
      split; [split; [apply (registered_iff s c Hnd); exact H1 | apply opt_id_eqb_iff; exact H2] | apply name_eqb_eq; exact H3]. }
  assert (Hleaf : (if can_contain_imports (ocl (store s o)) then true
                   else match ocont (store s o) with [] => true | _ :: _ => false end) = true <->
                  (can_contain_imports (ocl (store s o)) = false -> ocont (store s o) = [])).
  { destruct (can_contain_imports (ocl (store s o))); [split; [discriminate | reflexivity]|].
    destruct (ocont (store s o)) as [|e l].
    - split; auto.
    - split; [discriminate | intros H; specialize (H eq_refl); discriminate]. }
  rewrite Hpar, Hcont, Hleaf. tauto.
Qed.

Lemma mem_id_false : forall x l, mem_id x l = false -> ~ In x l.
Proof. intros x l H Hin. apply mem_id_iff in Hin. congruence. Qed.
Lemma nodup_ids_iff : forall l, nodup_ids l = true <-> NoDup l.
Proof.
  induction l as [|x t IH]; cbn; split; intros H; try reflexivity; try constructor.
  - apply andb_true_iff in H. destruct H as [H1 H2]. apply mem_id_false. destruct (mem_id x t); [discriminate | reflexivity].
  - apply andb_true_iff in H. apply IH. apply H.
  - inversion H as [|? ? Hn Hnd]; subst. apply andb_true_iff. split; [|apply IH; exact Hnd].
    destruct (mem_id x t) eqn:E; [|reflexivity]. exfalso. apply Hn. apply mem_id_iff. exact E.
Qed.

Theorem inv_check_iff : forall s, inv_check s = true <-> Inv s.
Proof.
  intros s. unfold inv_check. rewrite !andb_true_iff, nodup_paths_iff, nodup_ids_iff, !forallb_forall. split.
  - intros [[[Hnd He] Hr] Hrn].
    assert (Hent : forall p o, rget p (allobj s) = Some o -> entry_ok s p o).
    { intros p o Hp. apply (check_entry_iff s p o Hnd). apply He. apply (aget_in path_eqb path_eqb_eq). exact Hp. }
    constructor.
    + exact Hnd.
    + intros o [p Hp]. apply (Hent p o Hp).
    + intros p o Hp. apply (Hent p o Hp).
    + intros p o Hp. apply (Hent p o Hp).
    + intros o q [p Hp] Hq. destruct (Hent p o Hp) as [_ [_ [H _]]]. rewrite Hq in H. apply H.
    + intros o n c [p Hp] Hin. destruct (Hent p o Hp) as [_ [_ [_ [H _]]]]. apply H. exact Hin.
    + intros r Hin. specialize (Hr r Hin). apply andb_true_iff in Hr. destruct Hr as [H1 H2].
      split; [apply (registered_iff s r Hnd); exact H1 | destruct (oparent (store s r)); [discriminate | reflexivity]].
    + intros o q [p Hp] Hq. destruct (Hent p o Hp) as [_ [_ [H _]]]. rewrite Hq in H. apply H.
    + intros o [p Hp] Hq. destruct (Hent p o Hp) as [_ [_ [H _]]]. rewrite Hq in H. exact H.
    + intros o q [p Hp] Hq H1 H2. destruct (Hent p o Hp) as [_ [_ [H _]]]. rewrite Hq in H. apply H; assumption.
    + intros o q [p Hp] Hq H1. destruct (Hent p o Hp) as [_ [_ [H _]]]. rewrite Hq in H. apply H; assumption.
    + intros o [p Hp] H1. destruct (Hent p o Hp) as [_ [_ [_ [_ [H _]]]]]. apply H. exact H1.
    + exact Hrn.
  - intros HI. assert (Hnd := inv_keys s HI). split; [split; [split; [exact Hnd|]|]|apply (inv_rnodup s HI)].
    + intros [p o] Hin. apply (check_entry_iff s p o Hnd).
      assert (Hp : rget p (allobj s) = Some o) by (apply (in_aget path_eqb path_eqb_eq); assumption).
      assert (Ho : reg s o) by (exists p; exact Hp).
      unfold entry_ok. split; [apply (inv_I1 s HI); exact Hp|]. split; [apply (inv_lt s HI p); exact Hp|].
      split.
      * destruct (oparent (store s o)) as [q|] eqn:Eq.
        -- split; [eapply (inv_par s HI); eauto|]. split; [apply (inv_I3 s HI); assumption|].
           split; [intros H1; apply (inv_I5b s HI o q); assumption | intros H1 H2; apply (inv_I5a s HI o q); assumption].
        -- apply (inv_top s HI); assumption.
      * split; [intros n c Hc; apply (inv_cont s HI o n c Ho Hc)|].
        split; [intros H1; apply (inv_I5c s HI); assumption | apply (inv_ckeys s HI); exact Ho].
    + intros r Hin. destruct (inv_roots s HI r Hin) as [H1 H2]. apply andb_true_iff.
      split; [apply (registered_iff s r Hnd); exact H1 | rewrite H2; reflexivity].
Qed.
